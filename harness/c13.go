package main

// C13 — concurrent states never interfere; channels deliver each value once, in order.
//
// Three streams (all judged by the Lean engine "C13"):
//   1. sequential wrapper histories: one LState drives channel.make / ch:send / ch:receive / ch:close / channel.select
//      (never blocking: one goroutine) — Impl = Model exactly (select: the chosen case must be in the Model's ready set);
//      includes the payload-guard decision table.
//   2. concurrent runs in a separate `go build -race` binary (c13_conc.go): N ∈ {2,8,32} states from one shared
//      prototype with churn, producer/consumer programs — per-state traces vs. the run alone, deep snapshot of the shared
//      prototype, channel histories judged by Spec.histOK.
//   3. every report of the Go race detector is a violation (`X race …`).
//   4. (c13_helper.go, child mode `helper`) the interpreter's own goroutines (SetMx monitors) and contexts cancelled from
//      another goroutine, with the owner-side hand-overs (Close, SetContext/RemoveContext, running programs meanwhile).

import (
	"bufio"
	"bytes"
	"context"
	"crypto/md5"
	"encoding/hex"
	"fmt"
	"go/ast"
	"go/parser"
	"go/token"
	"os"
	"os/exec"
	"path/filepath"
	"regexp"
	"strconv"
	"strings"
	"sync/atomic"
	"time"

	lua "github.com/yuin/gopher-lua"
)

func init() {
	if os.Getenv("VERIF_C13_CHILD") != "" {
		c13ChildMain()
		os.Exit(0)
	}
	if n := os.Getenv("VERIF_C13_DUMP"); n != "" {
		// development aid: print the request lines of the first n generated sequential cases
		cnt, _ := strconv.Atoi(n)
		seed, _ := strconv.Atoi(os.Getenv("VERIF_C13_SEED"))
		root := NewRng(uint64(seed))
		fmt.Println("reset")
		for _, l := range execChanSeq(c13GuardCase()) {
			fmt.Println(l)
		}
		for i := 0; i < cnt; i++ {
			fmt.Println("reset")
			for _, l := range execChanSeq(genChanCase(root.Fork(uint64(i)), 30)) {
				fmt.Println(l)
			}
		}
		os.Exit(0)
	}
	props["C13"] = runC13
}

// ---------- sequential executor ----------

const c13Prelude = `
local mt = getmetatable(channel.make())
function csend(...) return mt.send(...) end
function crecv(...) return mt.receive(...) end
function cclose(...) return mt.close(...) end
function msend(c, v) return c:send(v) end
function mrecv(c) return c:receive() end
function mclose(c) return c:close() end
function cmake(n) return channel.make(n) end
function cmake0() return channel.make() end
function csel(...) return channel.select(...) end
`

type c13World struct {
	L       *lua.LState
	chans   map[int]chan lua.LValue
	closed  map[int]bool
	objs    map[string]lua.LValue
	names   map[interface{}]string
	hcalls  []string // handler calls observed since the last reset: "fn<id>:<args>"
	fns     map[string]*lua.LFunction
	withCtx bool
}

func newC13World() *c13World {
	L := lua.NewState()
	if err := L.DoString(c13Prelude); err != nil {
		panic(err)
	}
	w := &c13World{L: L, chans: map[int]chan lua.LValue{}, closed: map[int]bool{}, objs: map[string]lua.LValue{},
		names: map[interface{}]string{}, fns: map[string]*lua.LFunction{}}
	for _, n := range []string{"csend", "crecv", "cclose", "msend", "mrecv", "mclose", "cmake", "cmake0", "csel"} {
		w.fns[n] = L.GetGlobal(n).(*lua.LFunction)
	}
	return w
}

func (w *c13World) enc(v lua.LValue) string {
	switch x := v.(type) {
	case *lua.LNilType:
		return "nil"
	case lua.LBool:
		if bool(x) {
			return "T"
		}
		return "F"
	case lua.LNumber:
		return encNum(float64(x))
	case lua.LString:
		return "s" + hex.EncodeToString([]byte(string(x)))
	case lua.LChannel:
		for id, c := range w.chans {
			if (chan lua.LValue)(x) == c {
				return "ch" + strconv.Itoa(id)
			}
		}
		return "ch?"
	case nil:
		return "GONIL"
	default:
		if n, ok := w.names[v]; ok {
			return n
		}
		return "obj?"
	}
}

// dec turns a wire token into a Lua value (objects are created on first use and keep their identity)
func (w *c13World) dec(tok string) lua.LValue {
	switch {
	case tok == "nil":
		return lua.LNil
	case tok == "T":
		return lua.LTrue
	case tok == "F":
		return lua.LFalse
	case strings.HasPrefix(tok, "ch"):
		id, _ := strconv.Atoi(tok[2:])
		c, ok := w.chans[id]
		if !ok {
			c = make(chan lua.LValue, 1)
			w.chans[id] = c
		}
		return lua.LChannel(c)
	case strings.HasPrefix(tok, "fn"), strings.HasPrefix(tok, "ud"), strings.HasPrefix(tok, "th"), strings.HasPrefix(tok, "tb"), strings.HasPrefix(tok, "tm"):
		if v, ok := w.objs[tok]; ok {
			return v
		}
		var v lua.LValue
		switch tok[:2] {
		case "fn":
			name := tok
			v = w.L.NewFunction(func(L *lua.LState) int {
				parts := make([]string, L.GetTop())
				for i := range parts {
					parts[i] = w.enc(L.Get(i + 1))
				}
				w.hcalls = append(w.hcalls, name+":"+strings.Join(parts, ","))
				return 0
			})
		case "ud":
			v = w.L.NewUserData()
		case "th":
			th, _ := w.L.NewThread()
			v = th
		case "tb":
			t := w.L.NewTable()
			t.RawSetInt(1, lua.LNumber(7))
			v = t
		case "tm":
			t := w.L.NewTable()
			w.L.SetMetatable(t, w.L.NewTable())
			v = t
		}
		w.objs[tok] = v
		w.names[v] = tok
		return v
	case tok[0] == 'i':
		f, _ := strconv.ParseFloat(tok[1:], 64)
		return lua.LNumber(f)
	case tok[0] == 's':
		b, _ := hex.DecodeString(tok[1:])
		return lua.LString(string(b))
	}
	panic("bad token " + tok)
}

var c13ArgNo = regexp.MustCompile(`bad argument #(\d+)`)

func c13ErrClass(err error, withPos bool) string {
	m := err.Error()
	cls := ""
	switch {
	case strings.Contains(m, "can not send a function"):
		cls = "unsafe"
	case strings.Contains(m, "send on closed channel"), strings.Contains(m, "close of closed channel"):
		return "err:closed"
	case strings.Contains(m, "channel expected"):
		cls = "notchannel"
	case strings.Contains(m, "value expected"):
		cls = "novalue"
	case strings.Contains(m, "table expected"):
		cls = "nottable"
	case strings.Contains(m, "invalid select case"):
		cls = "invalidcase"
	case strings.Contains(m, "invalid channel direction"):
		cls = "invaliddir"
	case strings.Contains(m, "multiple default"), strings.Contains(m, "makechan"), strings.Contains(m, "size out of range"):
		return "err:gopanic"
	default:
		return "err:other:" + hex.EncodeToString([]byte(m))
	}
	if withPos {
		if g := c13ArgNo.FindStringSubmatch(m); g != nil {
			return "err:" + g[1] + ":" + cls
		}
		return "err:?:" + cls
	}
	return "err:" + cls
}

func (w *c13World) call(fn string, nret int, args ...lua.LValue) ([]lua.LValue, error) {
	top := w.L.GetTop()
	err := w.L.CallByParam(lua.P{Fn: w.fns[fn], NRet: nret, Protect: true}, args...)
	if err != nil {
		w.L.SetTop(top)
		return nil, err
	}
	res := make([]lua.LValue, nret)
	for i := 0; i < nret; i++ {
		res[i] = w.L.Get(top + 1 + i)
	}
	w.L.SetTop(top)
	return res, nil
}

// wouldBlock: the harness never issues an operation that blocks in a single goroutine (Go channel semantics; the
// executor peeks at len/cap of the channels it created itself).
func (w *c13World) sendReady(id int) bool {
	c := w.chans[id]
	return w.closed[id] || len(c) < cap(c)
}
func (w *c13World) recvReady(id int) bool { return w.closed[id] || len(w.chans[id]) > 0 }

func contextWithTimeout(d time.Duration) (context.Context, context.CancelFunc) {
	return hangCtx(d)
}

func c13Unsafe(tok string) bool {
	return strings.HasPrefix(tok, "fn") || strings.HasPrefix(tok, "ud") || strings.HasPrefix(tok, "th") || strings.HasPrefix(tok, "tm")
}

func c13ChanID(tok string) (int, bool) {
	if !strings.HasPrefix(tok, "ch") {
		return 0, false
	}
	id, err := strconv.Atoi(tok[2:])
	return id, err == nil
}

// after a few blocked cases the watchdog gets short (a broken wrapper that blocks must not stall shrinking for minutes)
var c13Blocked int32

func c13BlockTimeout() time.Duration {
	if atomic.LoadInt32(&c13Blocked) >= 3 {
		return 400 * time.Millisecond
	}
	return 8 * time.Second
}

func execChanSeq(ops []Op) []string {
	type result struct{ lines []string }
	done := make(chan result, 1)
	var partial []string
	go func() {
		defer func() {
			if r := recover(); r != nil {
				partial = append(partial, fmt.Sprintf("X crash => %v", r))
				done <- result{partial}
			}
		}()
		done <- result{execChanSeq1(ops, &partial)}
	}()
	select {
	case r := <-done:
		return r.lines
	case <-hangAfter(c13BlockTimeout()):
		noteHang()
		atomic.AddInt32(&c13Blocked, 1)
		return []string{"X blocked => a channel operation that Go semantics makes non-blocking did not return (case starts with: " + opsToStrings(ops)[0] + ")"}
	}
}

func execChanSeq1(ops []Op, out *[]string) []string {
	w := newC13World()
	defer w.L.Close()
	emit := func(args []string, reply string) {
		*out = append(*out, "C13 "+strings.Join(args, " ")+" => "+reply)
	}
	for _, op := range ops {
		a := op.Args
		switch a[0] {
		case "ctx": // from here on the state carries a context (channelReceive / channelSelect take the reflect.Select path)
			ctx, cancel := contextWithTimeout(30 * time.Second)
			defer cancel()
			w.L.SetContext(ctx)
		case "make":
			id, _ := strconv.Atoi(a[1])
			n, _ := strconv.Atoi(a[2])
			var res []lua.LValue
			var err error
			if len(a) > 3 && a[3] == "noarg" {
				res, err = w.call("cmake0", 1)
			} else {
				res, err = w.call("cmake", 1, lua.LNumber(n))
			}
			if err != nil {
				emit(a[:3], c13ErrClass(err, false))
				continue
			}
			ch, ok := res[0].(lua.LChannel)
			if !ok {
				emit(a[:3], "notachannel")
				continue
			}
			if cap(ch) != n {
				emit(a[:3], "cap:"+strconv.Itoa(cap(ch)))
				continue
			}
			w.chans[id] = (chan lua.LValue)(ch)
			delete(w.closed, id)
			emit(a[:3], "ok")
		case "send", "msend":
			if id, ok := c13ChanID(a[1]); ok {
				if _, made := w.chans[id]; !made {
					continue
				}
				// a refused payload never reaches the channel; anything else must not block
				// (an unsafe payload is refused before the channel is touched — but the executor does not rely on
				// that: on a full open channel the op is skipped whatever the payload, so a broken guard cannot hang it)
				if !w.sendReady(id) && a[2] != "none" {
					continue
				}
			}
			var args []lua.LValue
			args = append(args, w.dec(a[1]))
			if a[2] != "none" {
				args = append(args, w.dec(a[2]))
			}
			fn := "csend"
			if a[0] == "msend" && a[2] != "none" {
				if _, ok := c13ChanID(a[1]); ok {
					fn = "msend"
				}
			}
			_, err := w.call(fn, 0, args...)
			r := "ok"
			if err != nil {
				r = c13ErrClass(err, false)
			}
			emit([]string{"send", a[1], a[2]}, r)
		case "recv", "mrecv":
			if id, ok := c13ChanID(a[1]); ok {
				if _, made := w.chans[id]; !made || !w.recvReady(id) {
					continue
				}
			}
			fn := "crecv"
			if _, ok := c13ChanID(a[1]); ok && a[0] == "mrecv" {
				fn = "mrecv"
			}
			res, err := w.call(fn, 2, w.dec(a[1]))
			r := ""
			if err != nil {
				r = c13ErrClass(err, false)
			} else {
				r = w.enc(res[0]) + " " + w.enc(res[1])
			}
			emit([]string{"recv", a[1]}, r)
		case "close":
			if id, ok := c13ChanID(a[1]); ok {
				if _, made := w.chans[id]; !made {
					continue
				}
			}
			_, err := w.call("cclose", 0, w.dec(a[1]))
			r := "ok"
			if err != nil {
				r = c13ErrClass(err, false)
			} else if id, ok := c13ChanID(a[1]); ok {
				w.closed[id] = true
			}
			emit(a, r)
		case "select":
			// a[1:] = case tokens; skip when it would block (no ready case and no default)
			var args []lua.LValue
			safe, valid := false, true
			for _, ct := range a[1:] {
				if ct == "-" {
					args = append(args, lua.LNumber(1))
					safe = true // raises before selecting
					continue
				}
				t := w.L.NewTable()
				if ct != "{}" {
					items := strings.Split(ct, ",")
					for i, it := range items {
						if id, ok := c13ChanID(it); ok {
							if _, made := w.chans[id]; !made {
								// (a shrunk case may have lost the `make`: the operation is skipped below, and the channel
								// must not come into being as a side effect of decoding — the Model has never heard of it)
								valid = false
								continue
							}
						}
						t.RawSetInt(i+1, w.dec(it))
					}
					switch items[0] {
					case "s3c2d7c": // "<-|"
						if len(items) > 1 {
							if id, ok := c13ChanID(items[1]); ok && w.sendReady(id) {
								safe = true
							} else if !ok {
								safe = true
							}
						} else {
							safe = true
						}
					case "s7c3c2d": // "|<-"
						if len(items) > 1 {
							if id, ok := c13ChanID(items[1]); ok && w.recvReady(id) {
								safe = true
							} else if !ok {
								safe = true
							}
						} else {
							safe = true
						}
					default: // default case or an invalid direction / case: never blocks
						safe = true
					}
				} else {
					safe = true
				}
				args = append(args, t)
			}
			if !valid || !safe || len(args) == 0 {
				continue
			}
			w.hcalls = nil
			res, err := w.call("csel", 3, args...)
			r := ""
			if err != nil {
				r = c13ErrClass(err, true)
			} else {
				h := "h:none"
				if len(w.hcalls) == 1 {
					h = "h:" + w.hcalls[0]
				} else if len(w.hcalls) > 1 {
					h = "h:MANY:" + strings.Join(w.hcalls, "/")
				}
				r = w.enc(res[0]) + " " + w.enc(res[1]) + " " + w.enc(res[2]) + " " + h
				// track closure-independent state: nothing to do, len(ch) is read from the real channel
			}
			emit(a, r)
		default:
			panic("bad op " + a[0])
		}
	}
	return *out
}

// ---------- generator ----------

// channels used as payloads have ids 8, 9 (never re-made by a `make` op, so their identity is stable)
var c13Payloads = []string{"nil", "T", "F", "i0", "i42", "i-7", "s", "s6869", "s00ff", "tb1", "tb2", "ch8", "ch9",
	"fn1", "ud1", "th1", "tm1", "fn2", "tm2"}
var c13Safe = []string{"nil", "T", "F", "i0", "i42", "i-7", "i1000000", "s", "s6869", "s00ff", "tb1", "tb2", "ch8", "ch9"}

func genChanCase(r *Rng, maxOps int) []Op {
	var ops []Op
	add := func(args ...string) { ops = append(ops, Op{Args: args}) }
	if r.Chance(35) {
		add("ctx")
	}
	nch := r.Range(1, 3)
	caps := make([]int, nch+1)
	for i := 1; i <= nch; i++ {
		caps[i] = Pick(r, []int{0, 1, 1, 2, 3, 5, 8})
		if r.Chance(8) && caps[i] == 0 {
			add("make", strconv.Itoa(i), "0", "noarg")
		} else {
			add("make", strconv.Itoa(i), strconv.Itoa(caps[i]))
		}
	}
	// approximate shadow state for state-aware choice (the executor re-checks against the real channels)
	ln := make([]int, nch+1)
	closed := make([]bool, nch+1)
	pickCh := func() int { return r.Range(1, nch) }
	payload := func() string {
		if r.Chance(85) {
			return Pick(r, c13Safe)
		}
		return Pick(r, c13Payloads)
	}
	handler := func() string {
		if r.Chance(50) {
			return ",fn" + strconv.Itoa(r.Range(5, 7))
		}
		return ""
	}
	nops := r.Range(4, maxOps)
	for len(ops) < nops {
		c := pickCh()
		cs := "ch" + strconv.Itoa(c)
		switch k := r.Intn(100); {
		case k < 30:
			// send: prefer channels with room
			if ln[c] >= caps[c] && !closed[c] && r.Chance(80) {
				for t := 1; t <= nch; t++ {
					if ln[t] < caps[t] {
						c, cs = t, "ch"+strconv.Itoa(t)
					}
				}
			}
			v := payload()
			add(Pick(r, []string{"send", "msend"}), cs, v)
			if ln[c] < caps[c] && !closed[c] {
				ln[c]++
			}
		case k < 55:
			if ln[c] == 0 && !closed[c] && r.Chance(80) {
				for t := 1; t <= nch; t++ {
					if ln[t] > 0 {
						c, cs = t, "ch"+strconv.Itoa(t)
					}
				}
			}
			add(Pick(r, []string{"recv", "mrecv"}), cs)
			if ln[c] > 0 {
				ln[c]--
			}
		case k < 62:
			add("close", cs)
			closed[c] = true
		case k < 90:
			// select over 1..4 cases
			n := r.Range(1, 4)
			var cases []string
			for i := 0; i < n; i++ {
				cc := "ch" + strconv.Itoa(pickCh())
				switch m := r.Intn(100); {
				case m < 40:
					cases = append(cases, "s7c3c2d,"+cc+handler())
				case m < 78:
					v := payload()
					h := handler()
					if v == "nil" && h != "" {
						h = "" // {"<-|", ch, nil, f}: the table border decides whether f is found; belongs to C09
					}
					cases = append(cases, "s3c2d7c,"+cc+","+v+h)
				case m < 93:
					cases = append(cases, "s64656661756c74"+handler())
				case m < 95:
					cases = append(cases, "-")
				case m < 97:
					cases = append(cases, Pick(r, []string{"s3e3e," + cc, "i1," + cc, "{}", "s3c2d7c,i5,i1", "s7c3c2d,s6869", "s3c2d7c", "s7c3c2d"}))
				default:
					cases = append(cases, "s3c2d7c,"+cc+","+Pick(r, []string{"fn1", "ud1", "th1", "tm1"}))
				}
			}
			if r.Chance(40) {
				cases = append(cases, "s64656661756c74"+handler())
			}
			add(append([]string{"select"}, cases...)...)
		case k < 94:
			// wrong receivers / missing arguments
			add(Pick(r, []string{"send", "recv", "close"}), Pick(r, []string{"i1", "s6869", "tb1", "nil"}), "i1")
			if ops[len(ops)-1].Args[0] != "send" {
				ops[len(ops)-1].Args = ops[len(ops)-1].Args[:2]
			}
		case k < 96:
			add("send", cs, "none")
		default:
			id := r.Range(1, nch)
			caps[id] = Pick(r, []int{0, 1, 4, -1})
			add("make", strconv.Itoa(id), strconv.Itoa(caps[id]))
			if caps[id] < 0 {
				caps[id] = 0
			}
			ln[id], closed[id] = 0, false
		}
	}
	// drain everything that is still queued, then observe closure
	for c := 1; c <= nch; c++ {
		cs := "ch" + strconv.Itoa(c)
		for i := 0; i < caps[c]; i++ {
			add("recv", cs)
		}
		add("close", cs)
		add("recv", cs)
		add("select", "s7c3c2d,"+cs+",fn9", "s64656661756c74")
	}
	return ops
}

// payload-guard decision table: every kind of value × {ch:send, select send case}; accepted values come back identical.
func c13GuardCase() []Op {
	var ops []Op
	add := func(args ...string) { ops = append(ops, Op{Args: args}) }
	add("make", "1", "64")
	add("make", "2", "64")
	kinds := []string{"nil", "T", "F", "i0", "i-3", "i9007199254740992", "s", "s6162", "tb1", "tm1", "fn1", "ud1", "th1", "ch1", "ch2"}
	for _, v := range kinds {
		add("send", "ch1", v)
		add("msend", "ch1", v)
		add("select", "s3c2d7c,ch2,"+v)
		add("select", "s3c2d7c,ch2,"+v, "s64656661756c74")
	}
	for i := 0; i < 2*len(kinds); i++ {
		add("recv", "ch1")
		add("select", "s7c3c2d,ch2", "s64656661756c74")
	}
	// the guard runs before the send: refused even on a closed channel
	add("close", "ch1")
	add("send", "ch1", "fn1")
	add("send", "ch1", "i1")
	return ops
}

// ---------- race child ----------

type c13ChildResult struct {
	notes     []string
	lines     []string
	stats     map[string]int
	raceMode  string // "race" | "norace:<why>"
	races     []string
	completed bool
	stderr    string
}

func c13RunChild(run *Run) c13ChildResult {
	res := c13ChildResult{stats: map[string]int{}}
	root := verifRoot()
	work := filepath.Join(root, ".work")
	os.MkdirAll(work, 0o755)
	// the tree under test: VERIF_REPO (default /repo).  The integrated check script builds with a per-tree modfile
	// ($WORK/go.<tag>.mod, tag = first 8 hex digits of md5("<repo>\n")); if it exists the race build uses it too,
	// otherwise harness/go.mod (whose replace the builder's check rewrites).
	repo := envOr("VERIF_REPO", "/repo")
	sum := md5.Sum([]byte(repo + "\n"))
	tag := hex.EncodeToString(sum[:])[:8]
	bin := filepath.Join(root, "bin", "glcheck-race."+tag)
	modfile := filepath.Join(work, "go."+tag+".mod")
	self, _ := os.Executable()
	res.raceMode = "race"
	if os.Getenv("VERIF_C13_NORACE") != "" {
		res.raceMode = "norace:disabled by VERIF_C13_NORACE"
	} else {
		// the check script builds the harness with CGO_ENABLED=0; the race detector needs cgo + a C compiler
		args := []string{"build", "-race", "-tags", "verif"}
		if _, err := os.Stat(modfile); err == nil {
			args = append(args, "-modfile="+modfile)
		}
		cmd := exec.Command("go", append(args, "-o", bin, ".")...)
		cmd.Dir = filepath.Join(root, "harness")
		env := []string{}
		for _, e := range os.Environ() {
			if !strings.HasPrefix(e, "CGO_ENABLED=") {
				env = append(env, e)
			}
		}
		cmd.Env = append(env, "CGO_ENABLED=1", "GOFLAGS=-mod=mod", "GOPROXY=off", "GOSUMDB=off", "GOTOOLCHAIN=local")
		if out, err := cmd.CombinedOutput(); err != nil {
			msg := strings.TrimSpace(string(out))
			if len(msg) > 300 {
				msg = msg[:300]
			}
			res.raceMode = "norace:go build -race failed: " + msg
		}
	}
	exe := bin
	if res.raceMode != "race" {
		exe = self
	}
	c13Exec(run, &res, exe, "all")
	// the segmentPool scenario family (c13_seg.go) in child processes of its own, so that a VM corrupted by shared call
	// frames (it can loop forever inside Go code) costs one short timeout: under -race, and once more in the ordinary
	// binary, where sync.Pool behaves deterministically (under -race it drops a quarter of the Puts at random)
	exes := []string{exe}
	if res.raceMode == "race" {
		exes = append(exes, self)
	}
	// the helper family (c13_helper.go: SetMx monitors, contexts cancelled from another goroutine) in a child of its own
	// under -race: a monitor that does not end with its state keeps stopping the world every 100 ms, and SetMx ends the
	// process with os.Exit(3) — neither may disturb (or be blamed on) the other scenarios
	hp := c13ChildResult{stats: map[string]int{}}
	c13Exec(run, &hp, exe, "helper")
	res.lines = append(res.lines, hp.lines...)
	res.notes = append(res.notes, hp.notes...)
	res.races = append(res.races, hp.races...)
	for k, v := range hp.stats {
		res.stats[k] = v
	}
	for i, e := range exes {
		seg := c13ChildResult{stats: map[string]int{}}
		c13Exec(run, &seg, e, "seg")
		res.lines = append(res.lines, seg.lines...)
		res.notes = append(res.notes, seg.notes...)
		res.races = append(res.races, seg.races...)
		pre := ""
		if i == 1 {
			pre = "norace_"
		}
		for k, v := range seg.stats {
			res.stats[pre+k] = v
		}
	}
	return res
}

// c13Exec runs one child (exe in run mode `mode`) and collects its request lines, notes, counters and race reports.
func c13Exec(run *Run, res *c13ChildResult, exe, mode string) {
	// a child the hang watchdog ended is run once more (a real dead-lock or a looping VM repeats; a starved machine does not)
	if !c13Exec1(run, res, exe, mode) {
		return
	}
	second := c13ChildResult{stats: map[string]int{}, raceMode: res.raceMode}
	if !c13Exec1(run, &second, exe, mode) {
		second.races = append(res.races, second.races...)
		second.notes = append(second.notes, "the "+mode+" child was run twice: the first run was ended by the hang watchdog on a loaded machine")
		*res = second
	}
}

func c13Exec1(run *Run, res *c13ChildResult, exe, mode string) (hung bool) {
	work := filepath.Join(verifRoot(), ".work")
	logPrefix := filepath.Join(work, fmt.Sprintf("race_C13_%d_%s", os.Getpid(), mode))
	old, _ := filepath.Glob(logPrefix + ".*")
	for _, f := range old {
		os.Remove(f)
	}
	cmd := exec.Command(exe)
	cmd.Env = append(os.Environ(), "VERIF_C13_CHILD="+mode, "VERIF_C13_SEED="+strconv.FormatInt(run.Seed, 10), "VERIF_C13_TIER="+run.Tier,
		"GOMAXPROCS=4", "GORACE=log_path="+logPrefix+" halt_on_error=0 exitcode=0 history_size=3")
	var stdout, stderr bytes.Buffer
	cmd.Stdout, cmd.Stderr = &stdout, &stderr
	limit := 150 * time.Second
	if run.Tier == "thorough" {
		limit = 15 * time.Minute
	}
	if mode == "seg" || mode == "helper" {
		limit = 60 * time.Second
		if run.Tier == "thorough" {
			limit = 6 * time.Minute
		}
	}
	if err := cmd.Start(); err != nil {
		res.lines = append(res.lines, "X child-start => "+err.Error())
		return
	}
	waitc := make(chan error, 1)
	go func() { waitc <- cmd.Wait() }()
	select {
	case err := <-waitc:
		if err != nil {
			res.lines = append(res.lines, "X child-exit => "+err.Error()+" "+c13Trunc(stderr.String(), 400))
		}
	case <-hangAfterCap(limit, 4):
		noteHang()
		cmd.Process.Kill()
		<-waitc
		hung = true
	}
	lastP := ""
	sc := bufio.NewScanner(&stdout)
	sc.Buffer(make([]byte, 1<<20), 1<<26)
	for sc.Scan() {
		l := sc.Text()
		switch {
		case strings.HasPrefix(l, "L "):
			res.lines = append(res.lines, l[2:])
		case strings.HasPrefix(l, "N "):
			if len(res.notes) < 8 {
				res.notes = append(res.notes, l[2:])
			}
		case strings.HasPrefix(l, "S "):
			f := strings.Fields(l)
			if len(f) == 3 {
				n, _ := strconv.Atoi(f[2])
				res.stats[f[1]] = n
			}
		case strings.HasPrefix(l, "P "):
			lastP = l[2:]
		case l == "DONE":
			res.completed = true
		}
	}
	if hung {
		res.lines = append(res.lines, "X hang => the "+mode+" child did not finish within "+limit.String()+" (deadlock, lost wake-up, or a VM looping on corrupted shared state); last scenario started: "+lastP)
	}
	if !res.completed && len(res.lines) > 0 && !strings.HasPrefix(res.lines[len(res.lines)-1], "X ") {
		res.lines = append(res.lines, "X child-incomplete => "+c13Trunc(stderr.String(), 400))
	}
	res.stderr = stderr.String()
	// race reports
	logs, _ := filepath.Glob(logPrefix + ".*")
	var all strings.Builder
	for _, f := range logs {
		b, _ := os.ReadFile(f)
		all.Write(b)
		os.Remove(f)
	}
	all.WriteString(res.stderr)
	res.races = c13ParseRaces(all.String())
	return hung
}

func c13Trunc(s string, n int) string {
	s = strings.ReplaceAll(strings.TrimSpace(s), "\n", " | ")
	if len(s) > n {
		return s[:n]
	}
	return s
}

var c13Frame = regexp.MustCompile(`^\s+([^\s(]+)\(`)
var c13FileLine = regexp.MustCompile(`^\s+(\S+\.go):(\d+)`)

// c13ParseRaces condenses each "WARNING: DATA RACE" block to the two access sites (function + file:line).
func c13ParseRaces(log string) []string {
	var out []string
	seen := map[string]bool{}
	blocks := strings.Split(log, "WARNING: DATA RACE")
	for _, b := range blocks[1:] {
		lines := strings.Split(b, "\n")
		var sites []string
		for i := 0; i < len(lines) && len(sites) < 2; i++ {
			l := lines[i]
			if strings.Contains(l, " by goroutine ") || strings.Contains(l, " by main goroutine") {
				// the next frame line(s): innermost function and its file:line
				site := strings.TrimSpace(strings.SplitN(l, " at ", 2)[0])
				if i+2 < len(lines) {
					fn := strings.TrimSpace(lines[i+1])
					fl := strings.TrimSpace(lines[i+2])
					if m := c13FileLine.FindStringSubmatch(lines[i+2]); m != nil {
						fl = filepath.Base(filepath.Dir(m[1])) + "/" + filepath.Base(m[1]) + ":" + m[2]
					}
					site += " " + fn + " " + fl
				}
				sites = append(sites, site)
			}
		}
		s := strings.Join(sites, " <-> ")
		if s == "" {
			s = c13Trunc(b, 200)
		}
		if !seen[s] {
			seen[s] = true
			out = append(out, s)
		}
	}
	return out
}

// c13Judge sends pre-recorded request lines (one pseudo-case per line) to the driver and records failures.
func c13Judge(run *Run, base int, lines []string) {
	var reqs []string
	nx := 0
	for _, l := range lines {
		if strings.HasPrefix(l, "X ") {
			nx++
			run.Failures = append(run.Failures, Failure{CaseIdx: base + 900000 + nx, Kind: "CRASH", Line: l, Reply: l, Lines: []string{l}})
			continue
		}
		reqs = append(reqs, l)
	}
	if len(reqs) == 0 {
		return
	}
	out, err := runDriver(append([]string{"reset"}, reqs...))
	if err != nil {
		run.Failures = append(run.Failures, Failure{CaseIdx: -999, Kind: "HARNESS", Reply: err.Error()})
		return
	}
	for i, l := range reqs {
		run.Evals++
		f := strings.Fields(l)
		if len(f) > 1 {
			run.Hist["conc:"+f[1]]++
		}
		r := out[i+1]
		if r == "ok" {
			continue
		}
		kind := "MODEL"
		if strings.HasPrefix(r, "SPEC") || strings.Contains(r, " SPEC ") {
			kind = "SPEC"
		}
		fl := Failure{CaseIdx: base + i, LineIdx: 0, Kind: kind, Line: l, Reply: r, Lines: []string{l}}
		fl.Finding = classifyTagged(&fl, nil)
		run.Failures = append(run.Failures, fl)
	}
}

// goroutine start sites (enclosing function) that the helper family drives together with their owner-side hand-overs
var c13ExercisedGoSites = map[string]bool{"state.go:LState.SetMx": true}

// c13GoSites lists "<file>:<enclosing function>" of every go statement in the non-test Go files of the tree
// (root package and sub-packages; go-inline templates `_*.go` are not compiled and skipped).
func c13GoSites(repo string) (sites, unknown []string) {
	seen := map[string]bool{}
	filepath.Walk(repo, func(path string, info os.FileInfo, err error) error {
		if err != nil {
			return nil
		}
		name := info.Name()
		if info.IsDir() {
			if path != repo && (strings.HasPrefix(name, ".") || strings.HasPrefix(name, "_") || name == "cmd" || name == "testdata") {
				return filepath.SkipDir
			}
			return nil
		}
		if !strings.HasSuffix(name, ".go") || strings.HasSuffix(name, "_test.go") || strings.HasPrefix(name, "_") {
			return nil
		}
		f, err := parser.ParseFile(token.NewFileSet(), path, nil, 0)
		if err != nil {
			return nil
		}
		rel, _ := filepath.Rel(repo, path)
		for _, d := range f.Decls {
			fd, ok := d.(*ast.FuncDecl)
			if !ok || fd.Body == nil {
				continue
			}
			fn := fd.Name.Name
			if fd.Recv != nil && len(fd.Recv.List) == 1 {
				t := fd.Recv.List[0].Type
				if st, ok := t.(*ast.StarExpr); ok {
					t = st.X
				}
				if id, ok := t.(*ast.Ident); ok {
					fn = id.Name + "." + fn
				}
			}
			ast.Inspect(fd.Body, func(n ast.Node) bool {
				if _, ok := n.(*ast.GoStmt); ok {
					s := rel + ":" + fn
					if !seen[s] {
						seen[s] = true
						sites = append(sites, s)
						if !c13ExercisedGoSites[s] {
							unknown = append(unknown, s)
						}
					}
				}
				return true
			})
		}
		return nil
	})
	return sites, unknown
}

func runC13(run *Run) {
	nCases, maxOps := 2500, 30
	if run.Tier == "thorough" {
		nCases, maxOps = 60000, 60
	}
	run.Rule = "(1) random single-goroutine histories over channel.make/send/receive/close/select (state-aware: ready and full/empty/closed channels, 1–5 select cases with handlers, defaults, malformed cases, every payload kind; with and without a context) replayed on the Lean LTS through the wrapper maps — exact, select's choice checked against the Model's ready set; payload-guard decision table is a bounded-exhaustive TEST over 15 value kinds × 4 send forms. " +
		"(2) TEST under `go build -race`: N ∈ {2,8,32} LStates in goroutines from one shared compiled FunctionProto (4 programs) while 2 churn goroutines create/compile/instantiate/close states; each state's emit-trace digest compared with the same run alone; deep snapshot (values + slice len/cap) of the shared prototype before/after. " +
		"(3) TEST under -race: producer/consumer Lua programs (1–5 senders, 1–4 receivers, capacities 0..64, receive()/select/handler forms, with/without context, closed through ch:close()) — per-goroutine logs judged by Spec.histOK (sent⊇received, no duplicate, all received when drained, per-sender order per receiver, closure reported once and last). Every race-detector report is a violation. " +
		"(4) TEST under -race, bounded-exhaustive sweep (c13_helper.go): the goroutines the interpreter starts itself and the state memory it hands to other goroutines — states with SetMx memory-limit monitors (1, 2, +1 from the running program; refused in sub threads) and/or a context that is cancelled from another goroutine while the state spins in the VM loop or is blocked in channel receive/select/send, × programs (short, with host pauses so that the monitor polls mid-run, coroutines) × delay between the end of the program and Close (0/40/130 ms around the monitor's 100 ms round) × closed by the owner or by a goroutine the state was handed to; RemoveContext / SetContext and a further run; 120 such states alive at once; the family then waits until every monitor has polled after the Close of its state and ended; each state's trace compared with the same configuration alone. distinct = distinct op-kind skeletons of stream (1)."
	run.Assume = []string{
		"Go channel/select semantics (buffered FIFO, rendezvous at capacity 0, close, select chooses among ready cases, default only if none) are a parameter of the Model (GLua.Chan.step), not verified",
		"data-race freedom under the Go memory model is NOT a theorem: it is supported by the -race runs (which see only the interleavings that occurred) and by the regenerated syntactic facts protoFieldWrites = [] / packageVarWrites = [] / every package-level var classified",
		"the go/ast facts are syntactic: writes through method calls with pointer receivers, through pointers passed to other functions, or via reflection/unsafe are not seen by the scan",
		"single-goroutine histories never issue an operation that would block (the executor peeks at len/cap of its own channels)",
	}
	run.Trusted = append(run.Trusted, "Go runtime: chan/select/close semantics, reflect.Select, sync.Pool, the race detector (ThreadSanitizer)")
	root := NewRng(uint64(run.Seed))
	var cases []Case
	corpus := loadCorpus("C13")
	for i, c := range corpus {
		cases = append(cases, Case{Idx: -1 - i, Ops: c, Note: "corpus"})
	}
	cases = append(cases, Case{Idx: -100, Ops: c13GuardCase(), Note: "payload guard table"})
	for i := 0; i < nCases; i++ {
		cases = append(cases, Case{Idx: i, Ops: genChanCase(root.Fork(uint64(i)), maxOps)})
	}
	runCases(run, cases, execChanSeq, classifyTagged)

	// concurrent part
	child := c13RunChild(run)
	// which goroutines does the tree under test start itself?  (syntactic: every `go` statement of the non-test sources.)
	// The helper family exercises the sites listed in c13ExercisedGoSites; a start site it does not know is named in a
	// note and in the evidence (not a verdict: the -race runs then say nothing about that goroutine).
	sites, unknown := c13GoSites(envOr("VERIF_REPO", "/repo"))
	run.Extra["interpreter_goroutine_sites"] = sites
	for _, u := range unknown {
		child.notes = append(child.notes, "the tree under test starts a goroutine at "+u+", which no C13 scenario exercises under the race detector (extend harness/c13_helper.go)")
	}
	run.Extra["race_detector"] = child.raceMode
	run.Extra["race_reports"] = len(child.races)
	run.Extra["concurrent_stats"] = child.stats
	if len(child.notes) > 0 {
		run.Extra["concurrent_notes"] = child.notes
		for _, n := range child.notes {
			fmt.Println("note:", n)
		}
	}
	for _, r := range child.races {
		child.lines = append(child.lines, "X race => "+r)
	}
	if child.raceMode != "race" {
		fmt.Println("note: C13 concurrent runs executed WITHOUT the race detector (" + child.raceMode + ")")
	}
	run.ValTraces += child.stats["iso_states"] + child.stats["chan_scenarios"] + child.stats["helper_states"]
	c13Judge(run, 5000000, child.lines)
	if len(child.lines) > 0 {
		run.Sample(map[string]interface{}{"concurrent_requests": headLines(child.lines, 4)})
	}
}
