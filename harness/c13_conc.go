package main

// C13 — concurrent part ("child" run mode).  This code runs inside a binary built with `go build -race`
// (the parent, c13.go, builds it separately with CGO_ENABLED=1 and starts it with VERIF_C13_CHILD=1), or —
// when the race detector is unavailable — inside the ordinary harness binary.
//
//   iso   N ∈ {2,8,32} LStates in goroutines, all created from ONE shared compiled *FunctionProto
//         (lua.Compile once, L.NewFunctionFromProto in every state) while churn goroutines create states,
//         parse+compile the same and other sources, instantiate the shared proto and close states.
//         Every state's emit-trace is compared with the trace of the same (program, ID, options) run alone.
//   proto deep snapshot of the shared prototype (Code, Constants, nested prototypes, debug tables,
//         stringConstants) before and after — must be identical.
//   hist  producer/consumer programs over lua channels (send/receive/close/select through the wrappers of
//         channellib.go), reported as per-goroutine logs; the Lean engine evaluates the Spec predicate
//         (every received value was sent, none twice, all of them when drained, per-sender order, closure last).
//
// Output protocol (stdout): `L <request line>` for each request to the Lean driver, `S <key> <int>` counters,
// `DONE` at the end.  Schedules vary from run to run; the verdict of every request line must not.

import (
	"bufio"
	"crypto/sha256"
	"encoding/hex"
	"fmt"
	"os"
	"reflect"
	"sort"
	"strconv"
	"strings"
	"sync"
	"sync/atomic"
	"time"

	lua "github.com/yuin/gopher-lua"
	"github.com/yuin/gopher-lua/parse"
)

// ---------- programs run from a shared prototype ----------

var c13IsoProgs = []string{
	// 0: arithmetic, closures/upvalues, numeric for, table.sort/concat
	`local function mk(n) local c = n; return function(d) c = c + d; return c end end
local f = mk(ID)
local acc = 0
for i = 1, 200 do acc = acc + f(i) % 7; if i % 50 == 0 then emit(i, acc) end end
local t = {}
for i = 1, 100 do t[i] = (i * ID) % 17 end
table.sort(t)
emit(table.concat(t, ","))
local u = {}
for i = 1, 60 do u[#u + 1] = i * ID end
for i = 1, 30 do table.remove(u, 1) end
emit(#u, u[1], u[#u])`,
	// 1: strings, pattern matcher, format, number parsing
	`local s = string.rep("ab" .. ID, 20)
emit(#s, s:find("b" .. ID .. "a"))
emit((s:gsub("a", "x")))
emit(s:match("(%d+)"))
for w in ("the quick " .. ID .. " brown fox"):gmatch("%a+") do emit(w) end
emit(string.format("%5d|%-5s|%x|%g", ID, "z", ID + 255, ID / 4))
emit(tonumber("0x" .. ID), tonumber(ID .. "e2"), tostring(ID * 1.5), #tostring(ID))
emit(("x"):rep(ID % 5 + 1):upper(), s:sub(2, 5), s:byte(1), s:reverse():sub(1, 4))
local n = 0
for k, v in string.gmatch("a=1, b=2, c=" .. ID, "(%w+)=(%w+)") do n = n + 1; emit(k, v) end
emit(n, ("%d items"):format(n), ("[%s]"):rep(2, ","))`,
	// 2: metatables, coroutines, pcall, varargs, pairs
	`local mt = {__index = function(t, k) return k * ID end, __add = function(a, b) return a.v + b.v end}
local a, b = setmetatable({v = ID}, mt), setmetatable({v = 2}, mt)
emit(a + b, a[21], rawget(a, 21))
local co = coroutine.wrap(function(x) for i = 1, 5 do x = coroutine.yield(x + i + ID) end return "done" end)
for i = 1, 6 do emit(co(i)) end
local ok, err = pcall(function() error({code = ID}) end)
emit(ok, type(err), err.code)
local ok2, e2 = pcall(function() local x = nil; return x.y end)
emit(ok2, type(e2))
local function va(...) return select("#", ...), ... end
emit(va(ID, nil, "q"))
local keys = {}
for k in pairs({a = 1, b = 2, c = 3, [ID + 10] = 4}) do keys[#keys + 1] = tostring(k) end
table.sort(keys); emit(table.concat(keys, " "))
local th = coroutine.create(function(...) local s = 0 for _, v in ipairs({...}) do s = s + v end coroutine.yield(s) error("boom" .. ID) end)
emit(coroutine.resume(th, 1, 2, ID)); emit(coroutine.resume(th)); emit(coroutine.status(th))`,
	// 3: nested prototypes, recursion (call-stack segments), closures in loops, loadstring inside the state
	`local function fib(n) if n < 2 then return n end return fib(n - 1) + fib(n - 2) end
emit(fib(12 + ID % 3))
local parts = {}
for i = 1, 50 do parts[#parts + 1] = function() return i + ID end end
local s = 0; for _, f in ipairs(parts) do s = s + f() end; emit(s)
local function deep(n) if n == 0 then return 0 end return 1 + deep(n - 1) end
emit(deep(150))
emit(loadstring("return " .. ID .. " + 1")())
local function outer() local x = ID; local function mid() local y = x * 2; return function() x = x + 1; return x + y end end return mid() end
local g = outer(); emit(g(), g(), g())
local big = {}
for i = 1, 300 do big[i] = {i, tostring(i), i % 3 == 0} end
local c = 0; for i, r in ipairs(big) do if r[3] then c = c + r[1] end end; emit(c, #big)`,
	// 4: a seeded pseudo-random sequence is a function of the seed only (math.random / math.randomseed)
	`math.randomseed(ID)
local acc = 0
for i = 1, 3000 do acc = (acc * 31 + math.random(1000)) % 1000003; if i % 500 == 0 then emit(i, acc) end end
emit(math.random(5, 9), math.floor(math.random() * 1000))`,
	// 5: the debug paths that LOOK UP names and lines in the prototype (tracebacks, getinfo 'n', error positions)
	// through call sites without a static name, tail calls and sites whose callee depends on the state
	`local function h() return debug.traceback("tb", 1) end
local function k() local s = debug.traceback("tk") return s end
local fns = {h, k}
local function viaTail(mode) if mode == 1 then return h() end local r = h() return r end
local function unnamed(i) return (fns[i]()) end
for round = 1, 3 do
  emit(viaTail((ID + round) % 2 + 1))
  emit(unnamed((ID + round) % 2 + 1))
  emit((fns[(ID + round) % 2 + 1])())
end
emit(select(2, xpcall(function() local x = nil; return x.y end, debug.traceback)))
emit(select(2, xpcall(function() return fns[ID % 2 + 1](nil).z.w end, function(m) return debug.traceback(m, 2) end)))
local function named() local i = debug.getinfo(1, "nSl") return i.name, i.namewhat, i.currentline, i.linedefined end
emit(named())
emit((function() local i = debug.getinfo(1, "nl") return i.name, i.currentline end)())
local function tailer() return named() end
emit(tailer())
local t = {m = named}
emit(t.m(), t["m"](), pcall(named))
local co = coroutine.create(function() local function inner() error("in co " .. ID) end inner() end)
local ok, msg = coroutine.resume(co)
emit(ok, msg, debug.traceback(co))`,
}

var c13IsoNames = []string{"arith", "strings", "meta", "nested", "rand", "debug"}

// options under which state i of a run is created (the same for its sequential baseline)
func c13Opts(i int) lua.Options {
	if i%2 == 1 {
		return lua.Options{MinimizeStackMemory: true, RegistrySize: 128, RegistryMaxSize: 1 << 16, RegistryGrowStep: 32}
	}
	return lua.Options{}
}

func c13Compile(src, name string) (*lua.FunctionProto, error) {
	chunk, err := parse.Parse(strings.NewReader(src), name)
	if err != nil {
		return nil, err
	}
	return lua.Compile(chunk, name)
}

// c13RunProto runs the shared prototype in a fresh state with global ID = id; returns the digest of the
// emit-trace (+ outcome) and the trace itself.
func c13RunProto(proto *lua.FunctionProto, id int, opts lua.Options) (digest string, trace []string) {
	defer func() {
		if r := recover(); r != nil {
			trace = append(trace, "GOPANIC:"+fmt.Sprint(r))
			digest = c13Digest(trace)
		}
	}()
	L := lua.NewState(opts)
	defer L.Close()
	rt := NewRefTable()
	L.SetGlobal("ID", lua.LNumber(id))
	L.SetGlobal("emit", L.NewFunction(func(L *lua.LState) int {
		n := L.GetTop()
		parts := make([]string, n)
		for i := 1; i <= n; i++ {
			parts[i-1] = encVal(L.Get(i), rt)
		}
		trace = append(trace, strings.Join(parts, ","))
		return 0
	}))
	fn := L.NewFunctionFromProto(proto)
	L.Push(fn)
	if err := L.PCall(0, lua.MultRet, nil); err != nil {
		trace = append(trace, "ERR:"+err.Error())
	} else {
		trace = append(trace, "END:"+strconv.Itoa(L.GetTop()))
	}
	return c13Digest(trace), trace
}

func c13Digest(lines []string) string {
	h := sha256.New()
	for _, l := range lines {
		h.Write([]byte(l))
		h.Write([]byte{'\n'})
	}
	return hex.EncodeToString(h.Sum(nil))[:16]
}

// c13Snapshot renders every field of a prototype tree canonically (deep; pointers followed).
func c13Snapshot(p *lua.FunctionProto, sb *strings.Builder) {
	fmt.Fprintf(sb, "P{%q %d %d %d %d %d %d code=%v consts=[", p.SourceName, p.LineDefined, p.LastLineDefined,
		p.NumUpvalues, p.NumParameters, p.IsVarArg, p.NumUsedRegisters, p.Code)
	for _, c := range p.Constants {
		fmt.Fprintf(sb, "%T:%v;", c, c)
	}
	fmt.Fprintf(sb, "] pos=%v locals=[", p.DbgSourcePositions)
	for _, l := range p.DbgLocals {
		if l == nil {
			sb.WriteString("nil;")
		} else {
			fmt.Fprintf(sb, "%q:%d:%d;", l.Name, l.StartPc, l.EndPc)
		}
	}
	fmt.Fprintf(sb, "] calls=%v upv=%q sc=%q protos=[", p.DbgCalls, p.DbgUpvalues, c13StringConstants(p))
	for _, q := range p.FunctionPrototypes {
		c13Snapshot(q, sb)
	}
	sb.WriteString("]}")
}

func c13SnapDigest(p *lua.FunctionProto) string {
	var sb strings.Builder
	c13Snapshot(p, &sb)
	// the shape (lengths/capacities of every slice of the tree) is part of the snapshot: an append within capacity
	// is a modification even if the visible prefix is unchanged
	c13Shape(reflect.ValueOf(p), &sb, 0)
	h := sha256.Sum256([]byte(sb.String()))
	return hex.EncodeToString(h[:])[:16]
}

func c13Shape(v reflect.Value, sb *strings.Builder, depth int) {
	if depth > 40 {
		return
	}
	switch v.Kind() {
	case reflect.Ptr:
		if !v.IsNil() && v.Type() == reflect.TypeOf((*lua.FunctionProto)(nil)) {
			c13Shape(v.Elem(), sb, depth+1)
		}
	case reflect.Struct:
		for i := 0; i < v.NumField(); i++ {
			c13Shape(v.Field(i), sb, depth+1)
		}
	case reflect.Slice:
		fmt.Fprintf(sb, "<%d/%d>", v.Len(), v.Cap())
		if v.Type().Elem().Kind() == reflect.Ptr {
			for i := 0; i < v.Len(); i++ {
				c13Shape(v.Index(i), sb, depth+1)
			}
		}
	}
}

type c13Out struct {
	mu    sync.Mutex
	w     *bufio.Writer
	stats map[string]int
}

func (o *c13Out) line(s string) {
	o.mu.Lock()
	o.w.WriteString("L " + s + "\n")
	o.mu.Unlock()
}
func (o *c13Out) crash(what, detail string) {
	detail = strings.ReplaceAll(detail, "\n", " | ")
	if len(detail) > 600 {
		detail = detail[:600]
	}
	o.line("X " + what + " => " + detail)
}
func (o *c13Out) note(s string) {
	o.mu.Lock()
	o.w.WriteString("N " + strings.ReplaceAll(s, "\n", " | ") + "\n")
	o.mu.Unlock()
}
// progress marks the scenario about to run and flushes everything written so far (a child killed for hanging keeps
// its finished lines, and the hang is attributed to the marked scenario)
func (o *c13Out) progress(s string) {
	o.mu.Lock()
	o.w.WriteString("P " + s + "\n")
	o.w.Flush()
	o.mu.Unlock()
}
func (o *c13Out) stat(k string, n int) {
	o.mu.Lock()
	o.stats[k] += n
	o.mu.Unlock()
}

// ---------- iso scenario ----------

var c13ChurnSrc = []string{
	"local t = {} for i = 1, 20 do t[i] = i * 2 end return #t",
	"local s = ('x'):rep(10) return s:gsub('x', 'y'), tonumber('12') + 0x10, ('%d'):format(3)",
	"local function f(...) return select('#', ...) end return f(1, 2, 3), pcall(error, 'e')",
}

func c13Iso(o *c13Out, progIdx, n int, round int) {
	src := c13IsoProgs[progIdx]
	name := fmt.Sprintf("iso%d", progIdx)
	proto, err := c13Compile(src, name)
	if err != nil {
		o.crash("iso-compile", err.Error())
		return
	}
	before := c13SnapDigest(proto)
	// concurrent run with churn
	var stop int32
	var churn sync.WaitGroup
	var churned int64
	for c := 0; c < 2; c++ {
		churn.Add(1)
		go func(c int) {
			defer churn.Done()
			defer func() {
				if r := recover(); r != nil {
					o.crash("churn-gopanic", fmt.Sprint(r))
				}
			}()
			for k := 0; atomic.LoadInt32(&stop) == 0; k++ {
				switch (k + c) % 4 {
				case 0: // create, run a little source (parse + compile + run), close
					L := lua.NewState(c13Opts(k))
					if err := L.DoString(c13ChurnSrc[k%len(c13ChurnSrc)]); err != nil {
						o.crash("churn-error", err.Error())
					}
					L.Close()
				case 1: // compile the very same source again (compiler caches, parser tables)
					if _, err := c13Compile(src, name); err != nil {
						o.crash("churn-compile", err.Error())
					}
				case 2: // instantiate the shared prototype and close without running
					L := lua.NewState(lua.Options{SkipOpenLibs: k%3 == 0})
					_ = L.NewFunctionFromProto(proto)
					L.Close()
				case 3: // compile another program
					if _, err := c13Compile(c13IsoProgs[(progIdx+1+k)%len(c13IsoProgs)], "other"); err != nil {
						o.crash("churn-compile", err.Error())
					}
				}
				atomic.AddInt64(&churned, 1)
			}
		}(c)
	}
	got := make([]string, n)
	gotTr := make([][]string, n)
	var wg sync.WaitGroup
	for i := 0; i < n; i++ {
		wg.Add(1)
		go func(i int) {
			defer wg.Done()
			got[i], gotTr[i] = c13RunProto(proto, round*10000+n*100+i, c13Opts(i))
		}(i)
	}
	done := make(chan struct{})
	go func() { wg.Wait(); close(done) }()
	select {
	case <-done:
	case <-hangAfter(60 * time.Second):
		noteHang()
		o.crash("iso-hang", fmt.Sprintf("p%d n%d", progIdx, n))
		atomic.StoreInt32(&stop, 1)
		return
	}
	atomic.StoreInt32(&stop, 1)
	churn.Wait()
	after := c13SnapDigest(proto)
	// sequential baselines AFTER the concurrent phase (so that any lazily initialised shared structure is first touched
	// concurrently): the same prototype object, one state at a time, nothing else running
	base := make([]string, n)
	baseTr := make([][]string, n)
	for i := 0; i < n; i++ {
		base[i], baseTr[i] = c13RunProto(proto, round*10000+n*100+i, c13Opts(i))
	}
	afterSeq := c13SnapDigest(proto)
	for i := 0; i < n; i++ {
		o.line(fmt.Sprintf("C13 iso %s n%d w%d %s => %s", c13IsoNames[progIdx], n, i, base[i], got[i]))
		if base[i] != got[i] {
			o.note(fmt.Sprintf("iso %s n%d w%d first difference: %s", c13IsoNames[progIdx], n, i, c13FirstDiff(baseTr[i], gotTr[i])))
		}
		for _, l := range baseTr[i] {
			if strings.HasPrefix(l, "ERR:") || strings.HasPrefix(l, "GOPANIC:") {
				o.crash("iso-program-failed", l)
			}
		}
	}
	o.line(fmt.Sprintf("C13 proto %s conc%d %s => %s", c13IsoNames[progIdx], n, before, after))
	o.line(fmt.Sprintf("C13 proto %s seq%d %s => %s", c13IsoNames[progIdx], n, before, afterSeq))
	o.stat("iso_states", n)
	o.stat("iso_runs", 1)
	o.stat("churn_ops", int(atomic.LoadInt64(&churned)))
}

func c13FirstDiff(a, b []string) string {
	for i := 0; i < len(a) || i < len(b); i++ {
		var x, y string
		if i < len(a) {
			x = a[i]
		}
		if i < len(b) {
			y = b[i]
		}
		if x != y {
			return fmt.Sprintf("emit#%d alone=%q concurrent=%q", i, x, y)
		}
	}
	return "none"
}

// ---------- channel scenarios ----------

// producer: sends K messages tagged (SID, seq) on channel `ch` (mode picks the wrapper used)
const c13ProducerSrc = `
local ch, sid, k, mode = CH, SID, K, MODE
for q = 0, k - 1 do
  local v
  if mode == "table" then v = {sid, q} elseif mode == "string" then v = sid .. ":" .. q else v = sid * 100000 + q end
  if mode == "select" then
    local fired = false
    local idx = channel.select({"<-|", ch, v, function(x) fired = (x == v) end})
    if idx ~= 1 or not fired then emit("badselect", idx) end
  elseif mode == "select2" then
    -- a send case and a receive case on a channel nobody ever sends on: only the send case can be ready
    local idx, rv, rok = channel.select({"|<-", IDLE}, {"<-|", ch, v})
    if idx ~= 2 then emit("badselect", idx) end
  else
    ch:send(v)
  end
end
emit("sent", k)
`

// consumer: receives until closure, logs every value; variants use receive() or select over two channels
const c13ConsumerSrc = `
local ch, ch2, mode = CH, CH2, MODE
local function tag(v)
  if type(v) == "table" then return v[1], v[2] end
  if type(v) == "string" then local a, b = v:match("(%d+):(%d+)"); return tonumber(a), tonumber(b) end
  return math.floor(v / 100000), v % 100000
end
if mode == "select" then
  local open1, open2 = true, ch2 ~= nil
  while open1 or open2 do
    local cases, which = {}, {}
    if open1 then cases[#cases + 1] = {"|<-", ch}; which[#which + 1] = 1 end
    if open2 then cases[#cases + 1] = {"|<-", ch2}; which[#which + 1] = 2 end
    local idx, v, ok = channel.select(unpack(cases))
    local w = which[idx]
    if ok then local s, q = tag(v); emit("r", w, s, q)
    else
      if v ~= nil then emit("badclose", w) end
      emit("c", w); if w == 1 then open1 = false else open2 = false end
    end
  end
elseif mode == "handler" then
  local open = true
  while open do
    channel.select({"|<-", ch, function(ok, v)
      if ok then local s, q = tag(v); emit("r", 1, s, q) else emit("c", 1); open = false end
    end})
  end
else
  while true do
    local ok, v = ch:receive()
    if not ok then if v ~= nil then emit("badclose", 1) end; emit("c", 1); break end
    local s, q = tag(v); emit("r", 1, s, q)
  end
end
`

const c13CloserSrc = `CH:close() if CH2 then CH2:close() end emit("closed")`

type c13ChanScn struct {
	cap       int
	senders   int // per channel
	receivers int
	k         int
	nch       int    // 1 or 2 channels (2: consumers select over both)
	pmode     string // producer: number|table|string|select|select2
	cmode     string // consumer: receive|select|handler
	ctx       bool   // states carry a context (the reflect.Select path of channelReceive / extra select case)
}

func (s c13ChanScn) String() string {
	return fmt.Sprintf("cap%d-s%d-r%d-k%d-ch%d-%s-%s-ctx%v", s.cap, s.senders, s.receivers, s.k, s.nch, s.pmode, s.cmode, s.ctx)
}

type c13Log struct {
	recs   [][3]int // (channel, sender, seq)
	closed map[int]int
	after  bool // something was logged for a channel after its closure was seen
	bad    []string
	sent   int
	err    string
}

func c13RunRole(proto *lua.FunctionProto, setup func(L *lua.LState), withCtx bool, lg *c13Log) {
	defer func() {
		if r := recover(); r != nil {
			lg.err = "GOPANIC:" + fmt.Sprint(r)
		}
	}()
	L := lua.NewState()
	defer L.Close()
	if withCtx {
		ctx, cancel := hangCtx(50 * time.Second)
		defer cancel()
		L.SetContext(ctx)
	}
	lg.closed = map[int]int{}
	L.SetGlobal("emit", L.NewFunction(func(L *lua.LState) int {
		switch L.ToString(1) {
		case "r":
			w := L.ToInt(2)
			if lg.closed[w] > 0 {
				lg.after = true
			}
			lg.recs = append(lg.recs, [3]int{w, L.ToInt(3), L.ToInt(4)})
		case "c":
			lg.closed[L.ToInt(2)]++
		case "sent":
			lg.sent = L.ToInt(2)
		case "closed":
		default:
			lg.bad = append(lg.bad, L.ToString(1)+":"+L.ToString(2))
		}
		return 0
	}))
	setup(L)
	L.Push(L.NewFunctionFromProto(proto))
	if err := L.PCall(0, 0, nil); err != nil {
		lg.err = err.Error()
	}
}

func c13Chan(o *c13Out, scn c13ChanScn, protos [3]*lua.FunctionProto) {
	chans := make([]chan lua.LValue, scn.nch)
	for i := range chans {
		chans[i] = make(chan lua.LValue, scn.cap)
	}
	idle := make(chan lua.LValue)
	nS := scn.senders * scn.nch
	slogs := make([]c13Log, nS)
	rlogs := make([]c13Log, scn.receivers)
	var swg, rwg sync.WaitGroup
	for s := 0; s < nS; s++ {
		swg.Add(1)
		go func(s int) {
			defer swg.Done()
			c13RunRole(protos[0], func(L *lua.LState) {
				L.SetGlobal("CH", lua.LChannel(chans[s%scn.nch]))
				L.SetGlobal("IDLE", lua.LChannel(idle))
				L.SetGlobal("SID", lua.LNumber(s))
				L.SetGlobal("K", lua.LNumber(scn.k))
				L.SetGlobal("MODE", lua.LString(scn.pmode))
			}, scn.ctx, &slogs[s])
		}(s)
	}
	for r := 0; r < scn.receivers; r++ {
		rwg.Add(1)
		go func(r int) {
			defer rwg.Done()
			c13RunRole(protos[1], func(L *lua.LState) {
				L.SetGlobal("CH", lua.LChannel(chans[0]))
				if scn.nch > 1 {
					L.SetGlobal("CH2", lua.LChannel(chans[1]))
				}
				L.SetGlobal("MODE", lua.LString(scn.cmode))
			}, scn.ctx, &rlogs[r])
		}(r)
	}
	done := make(chan struct{})
	var clog c13Log
	go func() {
		swg.Wait()
		// all sends completed: close through the wrapper, from yet another state
		c13RunRole(protos[2], func(L *lua.LState) {
			L.SetGlobal("CH", lua.LChannel(chans[0]))
			if scn.nch > 1 {
				L.SetGlobal("CH2", lua.LChannel(chans[1]))
			}
		}, false, &clog)
		rwg.Wait()
		close(done)
	}()
	select {
	case <-done:
	case <-hangAfter(60 * time.Second):
		noteHang()
		o.crash("chan-hang", scn.String())
		return
	}
	for i, l := range slogs {
		if l.err != "" || len(l.bad) > 0 || l.sent != scn.k {
			o.crash("chan-sender-failed", fmt.Sprintf("%s sender %d err=%q bad=%v sent=%d", scn, i, l.err, l.bad, l.sent))
		}
	}
	if clog.err != "" {
		o.crash("chan-closer-failed", scn.String()+" "+clog.err)
	}
	for i, l := range rlogs {
		if l.err != "" || len(l.bad) > 0 {
			o.crash("chan-receiver-failed", fmt.Sprintf("%s receiver %d err=%q bad=%v", scn, i, l.err, l.bad))
		}
	}
	// one hist request per channel:  C13 hist <scn> cap drained | S sid:count … | R rid:closedCount:after:s.q,s.q,… …
	for c := 0; c < scn.nch; c++ {
		var sb strings.Builder
		fmt.Fprintf(&sb, "C13 hist %s-c%d %d 1 S", scn, c, scn.cap)
		for s := 0; s < nS; s++ {
			if s%scn.nch == c {
				fmt.Fprintf(&sb, " %d:%d", s, slogs[s].sent)
			}
		}
		sb.WriteString(" R")
		for r, l := range rlogs {
			var toks []string
			for _, rec := range l.recs {
				if rec[0] == c+1 {
					toks = append(toks, fmt.Sprintf("%d.%d", rec[1], rec[2]))
				}
			}
			after := 0
			if l.after {
				after = 1
			}
			fmt.Fprintf(&sb, " %d:%d:%d:%s", r, l.closed[c+1], after, strings.Join(toks, ","))
			o.stat("messages_received", len(toks))
		}
		o.line(sb.String())
	}
	o.stat("chan_scenarios", 1)
	o.stat("chan_states", nS+scn.receivers+1)
}

// c13ChildMain is the entry of the child run mode.
func c13ChildMain() {
	seed, _ := strconv.ParseInt(os.Getenv("VERIF_C13_SEED"), 10, 64)
	tier := os.Getenv("VERIF_C13_TIER")
	o := &c13Out{w: bufio.NewWriterSize(os.Stdout, 1<<16), stats: map[string]int{}}
	defer func() {
		ks := make([]string, 0, len(o.stats))
		for k := range o.stats {
			ks = append(ks, k)
		}
		sort.Strings(ks)
		for _, k := range ks {
			fmt.Fprintf(o.w, "S %s %d\n", k, o.stats[k])
		}
		o.w.WriteString("DONE\n")
		o.w.Flush()
	}()
	if os.Getenv("VERIF_C13_CHILD") == "seg" {
		c13Segments(o, seed, tier)
		return
	}
	if os.Getenv("VERIF_C13_CHILD") == "helper" {
		c13Helpers(o, seed, tier)
		return
	}
	root := NewRng(uint64(seed))
	rounds := 2
	if tier == "thorough" {
		rounds = 12
	}
	// iso: every program × N ∈ {2,8,32}
	for round := 0; round < rounds; round++ {
		for p := range c13IsoProgs {
			for _, n := range []int{2, 8, 32} {
				c13Iso(o, p, n, round+int(seed)*7)
			}
		}
	}
	// channels
	var protos [3]*lua.FunctionProto
	for i, src := range []string{c13ProducerSrc, c13ConsumerSrc, c13CloserSrc} {
		p, err := c13Compile(src, fmt.Sprintf("role%d", i))
		if err != nil {
			o.crash("role-compile", err.Error())
			return
		}
		protos[i] = p
	}
	snaps := [3]string{c13SnapDigest(protos[0]), c13SnapDigest(protos[1]), c13SnapDigest(protos[2])}
	// fixed grid (every run) + seeded random scenarios
	var scns []c13ChanScn
	for _, cp := range []int{0, 1, 3} {
		scns = append(scns,
			c13ChanScn{cap: cp, senders: 1, receivers: 1, k: 40, nch: 1, pmode: "number", cmode: "receive"},
			c13ChanScn{cap: cp, senders: 4, receivers: 3, k: 30, nch: 1, pmode: "table", cmode: "receive", ctx: true},
			c13ChanScn{cap: cp, senders: 2, receivers: 2, k: 30, nch: 2, pmode: "select", cmode: "select"},
			c13ChanScn{cap: cp, senders: 3, receivers: 1, k: 30, nch: 1, pmode: "select2", cmode: "handler", ctx: true},
		)
	}
	nRand := 16
	if tier == "thorough" {
		nRand = 200
	}
	for i := 0; i < nRand; i++ {
		r := root.Fork(uint64(500 + i))
		nch := 1
		cm := Pick(r, []string{"receive", "receive", "select", "handler"})
		if cm == "select" && r.Bool() {
			nch = 2
		}
		scns = append(scns, c13ChanScn{cap: Pick(r, []int{0, 0, 1, 2, 5, 16, 64}), senders: r.Range(1, 5), receivers: r.Range(1, 4),
			k: r.Range(5, 60), nch: nch, pmode: Pick(r, []string{"number", "table", "string", "select", "select2"}), cmode: cm, ctx: r.Bool()})
	}
	for _, s := range scns {
		c13Chan(o, s, protos)
	}
	for i := range protos {
		o.line(fmt.Sprintf("C13 proto role%d chan %s => %s", i, snaps[i], c13SnapDigest(protos[i])))
	}
	// (the segmentPool scenario family of c13_seg.go runs in child processes of its own: mode "seg"; so does the family
	// of c13_helper.go — the interpreter's own goroutines and contexts cancelled from outside: mode "helper")
}
