package main

// C13 — scenario family "helper": the goroutines the interpreter starts ITSELF and the LState memory it hands to
// another goroutine, together with the owner-side operations that hand over to them.
//
// In the tree under test these are (grep `go func` / `go ` / Done() over the non-test .go files):
//   * the memory-limit monitor started by LState.SetMx (state.go): a goroutine of the interpreter's own that lives next
//     to the state, polls every 100 ms and must end with the state — its only contact with the owner is LState.Close;
//   * the context of a state (SetContext / RemoveContext / NewThread's derived contexts): L.ctx.Done() is read by
//     mainLoopWithContext on every instruction and handed to reflect.Select by channel send/receive/select, while the
//     context is cancelled from ANOTHER goroutine.
// No other file (channellib.go, oslib.go, iolib.go, …) starts a goroutine.  None of the iso/hist/seg scenarios calls SetMx
// or cancels a context from outside, so a helper that touches its state without synchronisation was invisible to them.
//
// The family (child run mode `helper`, a process of its own under -race: a helper that does not end, or calls
// os.Exit(3), must not disturb the other scenarios):
//   bounded-exhaustive sweep, every state in a goroutine of its own, ALL of them alive at the same time, from shared
//   prototypes:   helper kind {mx, mx2 (two monitors), mxctx (monitor + context), ctx}
//               × program     {short, paused (host pauses: the monitor polls while the program is in progress), co
//                              (coroutines = derived contexts, SetMx from a sub thread is refused, a further monitor from
//                              the main thread)}  + for the kinds with a context the programs that END by cancellation
//                              from another goroutine {spin (in the VM loop, also inside a coroutine), blockrecv,
//                              blocksel, blocksend (blocked in reflect.Select)}
//               × delay between the end of the program and Close {0, 40, 130 ms}  (the monitor sleeps 100 ms per round:
//                              the first poll after Close / one poll before and one after)
//               × closer      {the owner goroutine, another goroutine the state was handed to}
//   after a program with a context: RemoveContext (or SetContext with a fresh one) and a further run in the same state.
//   Then the family waits until every monitor has seen the closure of its state and ended (goroutine count back at the
//   start value), so each monitor performs at least one poll after Close; afterwards the baselines: every state's
//   configuration alone, one at a time, no delays.
//
// Verdict (schedule-independent on a correct tree): every state's emit trace equals the trace of the same configuration
// alone (`C13 iso helper …`), the shared prototypes are unchanged (`C13 proto …`), and — through the parent's collection —
// no race report.  Sleeps only place the owner's operations relative to the polls; no verdict depends on them.

import (
	"context"
	"fmt"
	"os"
	"runtime"
	"strconv"
	"strings"
	"sync"
	"sync/atomic"
	"time"

	lua "github.com/yuin/gopher-lua"
)

// SetMx ends the PROCESS (os.Exit(3)) when the allocation of the process exceeds the limit: 1 TB is out of reach.
const c13MxHuge = 1 << 20 // MB

type c13HelpProg struct {
	name   string
	cancel bool // ends only by cancellation of the state's context from another goroutine
	src    string
}

var c13HelpProgs = []c13HelpProg{
	{"short", false, `local s = 0
for i = 1, 400 do s = s + (i % 7) * ID end
local t = {}
for i = 1, 40 do t[i] = tostring(i * ID) .. "x" end
emit("short", s, #table.concat(t), PHASE)`},
	{"paused", false, `local acc = ID
for r = 1, 3 do
  for i = 1, 300 do acc = (acc * 31 + i) % 1000003 end
  emit(r, acc)
  pause()                                   -- host: the owner is inside a call while the monitor polls
end
local big = {}
for i = 1, 200 do big[i] = {i, tostring(i + ID)} end
local function deep(n) if n == 0 then return 0 end return 1 + deep(n - 1) end
emit(#big, big[200][2], acc, deep(120))`},
	{"co", false, `local co = coroutine.wrap(function(a)
  local ok, e = pcall(setmx)                -- from a sub thread: refused when there is a limit to set
  emit("co", ok, (tostring(e):match("sub threads[%a ]+")))
  local b = coroutine.yield(a + ID)
  pause()
  return b * 2
end)
emit(co(1))
emit("main", pcall(setmx))                  -- from the main thread: one more monitor
emit(co(5))
local ths = {}
for i = 1, 5 do ths[i] = coroutine.create(function(x) local y = coroutine.yield(x + i) return y, x end) end
for i = 1, 5 do emit(coroutine.resume(ths[i], ID)) end
for i = 1, 5, 2 do emit(coroutine.resume(ths[i], i), coroutine.status(ths[i])) end`},
	{"spin", true, `emit("start", ID)
local n = 0
local function body() ready() while true do n = n + 1 end end
if CO then coroutine.wrap(body)() else body() end
emit("unreachable")`},
	{"blockrecv", true, `emit("start", ID)
ready()
local ok, v = IDLE:receive()                -- nobody ever sends: only the cancellation wakes the state up
emit("unreachable", ok, v)`},
	{"blocksel", true, `emit("start", ID)
ready()
local i, v, ok = channel.select({"|<-", IDLE}, {"<-|", FULL, ID})
emit("unreachable", i, v, ok)`},
	{"blocksend", true, `emit("start", ID)
ready()
FULL:send(ID)                               -- nobody ever receives
emit("unreachable")`},
}

var (
	c13HelpKinds   = []string{"mx", "mx2", "mxctx", "ctx"}
	c13HelpDelays  = []int{0, 40, 130}
	c13HelpClosers = []string{"owner", "other"}
)

type c13HelpSpec struct {
	kind   string
	prog   int
	delay  int // ms
	closer string
	id     int
}

func (s c13HelpSpec) hasMx() bool  { return strings.HasPrefix(s.kind, "mx") }
func (s c13HelpSpec) hasCtx() bool { return strings.HasSuffix(s.kind, "ctx") }
func (s c13HelpSpec) String() string {
	return fmt.Sprintf("%s-%s-d%d-%s", s.kind, c13HelpProgs[s.prog].name, s.delay, s.closer)
}

type c13HelpFam struct {
	o        *c13Out
	protos   []*lua.FunctionProto
	monitors int64
	cancels  int64
}

// run: one state with its helpers from creation to Close.  live = the concurrent phase (pauses and delays are real);
// otherwise the same configuration without any waiting.
func (h *c13HelpFam) run(sp c13HelpSpec, live bool) (trace []string) {
	ready := make(chan struct{}) // closed by the program when it is about to spin / block (releases the canceller)
	var once sync.Once
	defer func() {
		if r := recover(); r != nil {
			trace = append(trace, "GOPANIC:"+fmt.Sprint(r))
			once.Do(func() { close(ready) })
		}
	}()
	prog := c13HelpProgs[sp.prog]
	L := lua.NewState(c13Opts(sp.id))
	if sp.hasMx() {
		L.SetMx(c13MxHuge)
		atomic.AddInt64(&h.monitors, 1)
		if sp.kind == "mx2" {
			L.SetMx(c13MxHuge + 1)
			atomic.AddInt64(&h.monitors, 1)
		}
	}
	var cancel context.CancelFunc
	cancelAll := []context.CancelFunc{}
	if sp.hasCtx() {
		var ctx context.Context
		ctx, cancel = context.WithCancel(context.Background())
		cancelAll = append(cancelAll, cancel)
		L.SetContext(ctx)
	}
	defer func() {
		for _, c := range cancelAll {
			c()
		}
	}()
	rt := NewRefTable()
	L.SetGlobal("ID", lua.LNumber(sp.id))
	L.SetGlobal("PHASE", lua.LNumber(1))
	L.SetGlobal("CO", lua.LBool((sp.id/3)%2 == 0))
	L.SetGlobal("IDLE", lua.LChannel(make(chan lua.LValue)))
	L.SetGlobal("FULL", lua.LChannel(make(chan lua.LValue)))
	L.SetGlobal("emit", L.NewFunction(func(L *lua.LState) int {
		n := L.GetTop()
		parts := make([]string, n)
		for i := 1; i <= n; i++ {
			parts[i-1] = encVal(L.Get(i), rt)
		}
		trace = append(trace, strings.Join(parts, ","))
		return 0
	}))
	L.SetGlobal("pause", L.NewFunction(func(L *lua.LState) int {
		if live {
			time.Sleep(45 * time.Millisecond)
		}
		return 0
	}))
	L.SetGlobal("ready", L.NewFunction(func(L *lua.LState) int {
		once.Do(func() { close(ready) })
		return 0
	}))
	// setmx(): SetMx on the calling LState (in a coroutine that is the sub thread: refused with a Lua error)
	L.SetGlobal("setmx", L.NewFunction(func(T *lua.LState) int {
		if sp.hasMx() {
			T.SetMx(c13MxHuge + 2)
			atomic.AddInt64(&h.monitors, 1)
		}
		return 0
	}))
	runProto := func(p *lua.FunctionProto) {
		L.Push(L.NewFunctionFromProto(p))
		if err := L.PCall(0, lua.MultRet, nil); err != nil {
			if strings.Contains(err.Error(), context.Canceled.Error()) {
				trace = append(trace, "ERR:context canceled") // (the position in the message depends on where the VM was)
			} else {
				trace = append(trace, "ERR:"+err.Error())
			}
		} else {
			trace = append(trace, "END:"+strconv.Itoa(L.GetTop()))
		}
		L.SetTop(0)
	}
	var cancelled chan struct{}
	if prog.cancel {
		// the canceller: another goroutine, once the program has announced that it is about to spin / block
		cancelled = make(chan struct{})
		go func() {
			defer close(cancelled)
			<-ready
			if live {
				time.Sleep(20 * time.Millisecond)
			}
			cancel()
			atomic.AddInt64(&h.cancels, 1)
		}()
	}
	runProto(h.protos[sp.prog])
	if cancelled != nil {
		once.Do(func() { close(ready) }) // (a program that failed before announcing itself must not leave the canceller waiting)
		<-cancelled
	}
	if sp.hasCtx() {
		// the owner takes the context away (or replaces it) and goes on using the state
		switch {
		case (sp.id/2)%2 == 0:
			old := L.RemoveContext()
			trace = append(trace, fmt.Sprintf("ctx-removed:%v:%v", old != nil, L.Context() == nil))
		case prog.cancel:
			ctx2, cancel2 := context.WithCancel(context.Background())
			cancelAll = append(cancelAll, cancel2)
			L.SetContext(ctx2)
			trace = append(trace, "ctx-replaced")
		}
		L.SetGlobal("PHASE", lua.LNumber(2))
		runProto(h.protos[0])
	}
	if live && sp.delay > 0 {
		time.Sleep(time.Duration(sp.delay) * time.Millisecond)
	}
	if live && sp.closer == "other" {
		// the state is handed to another goroutine (synchronised by the go statement and the channel), which closes it
		done := make(chan interface{}, 1)
		go func() {
			defer func() { done <- recover() }()
			L.Close()
		}()
		if r := <-done; r != nil {
			trace = append(trace, "CLOSE-GOPANIC:"+fmt.Sprint(r))
		}
	} else {
		L.Close()
	}
	trace = append(trace, fmt.Sprintf("closed:%v", L.IsClosed()))
	return trace
}

// settle waits until the goroutines the interpreter started have ended (count back at g0): every monitor then has
// polled at least once after the Close of its state.  A monitor that outlives its state is reported as a note only
// (a leak, not an interference).
func (h *c13HelpFam) settle(g0 int, what string) {
	for n := 0; runtime.NumGoroutine() > g0; n++ {
		if n > 2000 {
			h.o.note(fmt.Sprintf("helper: %d goroutine(s) started during %s are still alive 20 s after every state was closed (a SetMx monitor that does not end with its state?)", runtime.NumGoroutine()-g0, what))
			h.o.stat("helper_goroutines_left", runtime.NumGoroutine()-g0)
			return
		}
		time.Sleep(10 * time.Millisecond)
	}
}

func c13HelpSweep(idBase int) []c13HelpSpec {
	var specs []c13HelpSpec
	for _, kind := range c13HelpKinds {
		for p, prog := range c13HelpProgs {
			if prog.cancel && !strings.HasSuffix(kind, "ctx") {
				continue
			}
			for _, d := range c13HelpDelays {
				for _, cl := range c13HelpClosers {
					specs = append(specs, c13HelpSpec{kind: kind, prog: p, delay: d, closer: cl, id: idBase + len(specs)})
				}
			}
		}
	}
	return specs
}

func c13Helpers(o *c13Out, seed int64, tier string) {
	h := &c13HelpFam{o: o}
	var snaps []string
	for _, p := range c13HelpProgs {
		proto, err := c13Compile(p.src, "helper-"+p.name)
		if err != nil {
			o.crash("helper-compile", p.name+": "+err.Error())
			return
		}
		h.protos = append(h.protos, proto)
		snaps = append(snaps, c13SnapDigest(proto))
	}
	root := NewRng(uint64(seed)).Fork(4242)
	g0 := runtime.NumGoroutine()                     // before the family starts anything: the process's own goroutines
	dump := os.Getenv("VERIF_C13_HELPER_DUMP") != "" // debug aid: `D` lines (ignored by the parent) with both traces of every state
	unreachable := encVal(lua.LString("unreachable"), NewRefTable())
	rounds := 1
	if tier == "thorough" {
		rounds = 8
	}
	for round := 0; round < rounds; round++ {
		// round 0: the fixed sweep.  Further rounds: the same sweep with seeded delays (0..160 ms) and ids.
		specs := c13HelpSweep(1 + int(seed%7) + round*1000)
		if round > 0 {
			r := root.Fork(uint64(round))
			for i := range specs {
				specs[i].delay = r.Intn(161)
				specs[i].id += r.Intn(2) * 500
			}
		}
		o.progress(fmt.Sprintf("helper round %d: %d states with SetMx monitors / contexts cancelled from outside, all alive at once", round, len(specs)))
		got := make([][]string, len(specs))
		var finished int64
		var wg sync.WaitGroup
		for i := range specs {
			wg.Add(1)
			go func(i int) {
				defer wg.Done()
				got[i] = h.run(specs[i], true)
				atomic.AddInt64(&finished, 1)
			}(i)
		}
		done := make(chan struct{})
		go func() { wg.Wait(); close(done) }()
		select {
		case <-done:
		case <-hangAfter(60 * time.Second):
			o.crash("helper-hang", fmt.Sprintf("round %d: %d of %d states with helper goroutines did not finish (a cancellation that does not wake the state, a Close that blocks?)", round, len(specs)-int(atomic.LoadInt64(&finished)), len(specs)))
			return
		}
		h.settle(g0, "the concurrent phase")
		// baselines: the same configuration alone, one state at a time, nothing else running
		for i, sp := range specs {
			base := h.run(sp, false)
			bd, gd := c13Digest(base), c13Digest(got[i])
			o.line(fmt.Sprintf("C13 iso helper %s w%d %s => %s", sp, i, bd, gd))
			if dump {
				o.mu.Lock()
				fmt.Fprintf(o.w, "D %s id%d alone=%q concurrent=%q\n", sp, sp.id, base, got[i])
				o.mu.Unlock()
			}
			if bd != gd {
				o.note(fmt.Sprintf("helper %s id%d first difference: %s", sp, sp.id, c13FirstDiff(base, got[i])))
			}
			// the baseline itself must be the intended run: a cancelled program ends by the cancellation, all others (and
			// the further run after RemoveContext / SetContext) normally; the state ends closed
			wantEnd, wantErr := 1, 0
			if c13HelpProgs[sp.prog].cancel {
				wantErr = 1
			} else if sp.hasCtx() {
				wantEnd = 2
			}
			ok := len(base) > 0 && base[len(base)-1] == "closed:true"
			for _, l := range base {
				switch {
				case l == "END:0":
					wantEnd--
				case l == "ERR:context canceled":
					wantErr--
				case strings.HasPrefix(l, "GOPANIC:"), strings.HasPrefix(l, "CLOSE-GOPANIC:"), strings.HasPrefix(l, "ERR:"), strings.HasPrefix(l, "END:"), strings.HasPrefix(l, unreachable):
					ok = false
				}
			}
			if !ok || wantEnd != 0 || wantErr != 0 {
				o.crash("helper-program-failed", fmt.Sprintf("%s id%d alone: %v", sp, sp.id, headTail(base, 4)))
			}
		}
		h.settle(g0, "the baselines")
		o.stat("helper_states", len(specs))
	}
	o.stat("helper_monitors", int(atomic.LoadInt64(&h.monitors)))
	o.stat("helper_cancellations", int(atomic.LoadInt64(&h.cancels)))
	for i, p := range c13HelpProgs {
		o.line(fmt.Sprintf("C13 proto helper-%s all %s => %s", p.name, snaps[i], c13SnapDigest(h.protos[i])))
	}
}
