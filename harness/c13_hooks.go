package main

import lua "github.com/yuin/gopher-lua"

// FunctionProto.stringConstants is unexported: read through the verif hook (harness is built with -tags verif).
func c13StringConstants(p *lua.FunctionProto) []string { return p.VerifStringConstants() }
