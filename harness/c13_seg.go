package main

// C13 — scenario family "seg": call-frame-stack segments recycled through the package-level `segmentPool`
// (Options.MinimizeStackMemory).  A segment handed back to the pool twice, or handed back while its former owner
// still points at it, makes two LStates share call frames: state B's frames are overwritten by state C.  No single
// state shows it; it needs an interleaving of {deep recursion with a failing pcall at depth (SetSp releases
// segments), Close() (FreeAll), creation of new deep states} across several states.
//
//   segseq   ONE goroutine, adversarial orders: A deep-fails and stays open; B recurses deep and is suspended inside a
//            host callback (or inside a coroutine that called it) still holding its segments; inside that callback
//            A.Close(), then C recurses deep (taking whatever the pool now offers) — possibly itself suspended with a
//            further level nested; then B resumes and unwinds.  Fixed grid (the order above × depth × modes) plus
//            seeded random games over {new failing state, close an idle state, new deep state with a nested game}.
//   segconc  the same actions from 8 goroutines under -race (the pool is shared between goroutines).
//
// Verdict: every state's emit-trace equals the trace of the same (mode, depth, CallStackSize, ID) run alone
// (baselines are computed first, one state at a time, nothing else alive); Go panics surface as differing traces.
// Request lines reuse the engine's `iso` judgement: C13 iso segseq|segconc <scenario> <state> <alone> => <got>.

import (
	"fmt"
	"os"
	"runtime"
	"strconv"
	"sync"
	"time"

	lua "github.com/yuin/gopher-lua"
)

const c13SegSrc = `
local function deep(n, acc)
  if n == 0 then
    hook()                       -- host callback: the harness interleaves other states here
    return acc
  end
  local a, b = n * 3 + ID, tostring(n)
  local r = deep(n - 1, acc + a) -- not a tail call: one call frame per level
  if n % 4 == 0 then emit(n, r, a, b) end
  return r + #b
end
local function deepfail(n)
  if n == 0 then error("boom" .. ID) end
  local r = deepfail(n - 1)
  return r + 1
end
if MODE == "fail" then
  local ok, e = pcall(deepfail, DEPTH)          -- unwinding releases the upper segments
  emit("pcall", ok, (tostring(e):match("boom%d+")))
  emit("after", deep(3, 0))                     -- the state stays usable (and open) at shallow depth
elseif MODE == "cofail" then
  local co = coroutine.wrap(function() local ok = pcall(deepfail, DEPTH); coroutine.yield(ok); return deep(2, 1) end)
  emit("co", co()); local ok = pcall(deepfail, DEPTH); emit("pcall", ok); emit("co2", co())
elseif MODE == "codeep" then
  local co = coroutine.wrap(function(d) local r = deep(d, 0); coroutine.yield(r); return deep(d - 5, r) end)
  emit("co", co(DEPTH)); emit("main", deep(DEPTH - 3, 7)); emit("co2", co())
else
  emit("deep", deep(DEPTH, 0))
  local ok = pcall(deepfail, DEPTH - 1)
  emit("pcall", ok, deep(9, 1))
end
`

type c13SegSpec struct {
	mode  string
	depth int
	css   int
	id    int
}

func (s c13SegSpec) String() string { return fmt.Sprintf("%s-d%d-c%d-id%d", s.mode, s.depth, s.css, s.id) }

var (
	c13SegModes  = []string{"fail", "cofail", "deep", "codeep"}
	c13SegDepths = []int{12, 20, 30, 45}
	c13SegCss    = []int{64, 128}
)

const c13SegIDs = 3

type c13SegState struct {
	spec   c13SegSpec
	L      *lua.LState
	trace  []string
	hook   func()
	closed bool
}

func c13SegNew(proto *lua.FunctionProto, spec c13SegSpec, hook func()) *c13SegState {
	s := &c13SegState{spec: spec, hook: hook}
	// (debug aid: VERIF_C13_SEG_FIXEDBASE=1 computes the baselines on the fixed call stack, which never touches the pool)
	s.L = lua.NewState(lua.Options{MinimizeStackMemory: !(hook == nil && c13SegFixedBase), CallStackSize: spec.css})
	rt := NewRefTable()
	s.L.SetGlobal("ID", lua.LNumber(spec.id))
	s.L.SetGlobal("DEPTH", lua.LNumber(spec.depth))
	s.L.SetGlobal("MODE", lua.LString(spec.mode))
	s.L.SetGlobal("emit", s.L.NewFunction(func(L *lua.LState) int {
		n := L.GetTop()
		line := ""
		for i := 1; i <= n; i++ {
			if i > 1 {
				line += ","
			}
			line += encVal(L.Get(i), rt)
		}
		s.trace = append(s.trace, line)
		return 0
	}))
	s.L.SetGlobal("hook", s.L.NewFunction(func(L *lua.LState) int {
		if s.hook != nil {
			s.hook()
		}
		return 0
	}))
	s.L.Push(s.L.NewFunctionFromProto(proto))
	return s
}

var c13SegFixedBase = false

// set by c13Segments: where a stuck state is reported
var c13SegOut *c13Out

// run executes the chunk pushed by c13SegNew; the state stays open.  Shared call frames can make the VM (or the
// traceback walk of a failing pcall) loop forever inside Go code, where nothing can interrupt it: a state that does
// not finish within 10 s (normal: < 1 ms) is reported and the child ends itself.
func (s *c13SegState) run() {
	if o := c13SegOut; o != nil {
		t := time.AfterFunc(10*time.Second, func() {
			o.crash("seg-stuck", "state "+s.spec.String()+" did not finish within 10s (it finishes in < 1 ms alone): the interpreter loops, as it does when call-frame segments are shared or duplicated; emits so far: "+fmt.Sprint(headTail(s.trace, 3)))
			o.mu.Lock()
			o.w.WriteString("DONE\n")
			o.w.Flush()
			os.Exit(0)
		})
		defer t.Stop()
	}
	defer func() {
		if r := recover(); r != nil {
			s.trace = append(s.trace, "GOPANIC:"+fmt.Sprint(r))
		}
	}()
	if err := s.L.PCall(0, lua.MultRet, nil); err != nil {
		s.trace = append(s.trace, "ERR:"+err.Error())
	} else {
		s.trace = append(s.trace, "END:"+strconv.Itoa(s.L.GetTop()))
	}
}

func (s *c13SegState) close() {
	if s.closed {
		return
	}
	s.closed = true
	defer func() {
		if r := recover(); r != nil {
			s.trace = append(s.trace, "CLOSE-GOPANIC:"+fmt.Sprint(r))
		}
	}()
	s.L.Close()
}

type c13SegBase map[c13SegSpec]string

// baselines: every spec of the family run alone (one state alive at a time), before anything else of the family.
func c13SegBaselines(o *c13Out, proto *lua.FunctionProto) c13SegBase {
	base := c13SegBase{}
	o.progress("seg baselines (every state alone, one at a time)")
	for _, m := range c13SegModes {
		for _, d := range c13SegDepths {
			for _, c := range c13SegCss {
				for id := 0; id < c13SegIDs; id++ {
					sp := c13SegSpec{m, d, c, id}
					s := c13SegNew(proto, sp, nil)
					s.run()
					s.close()
					base[sp] = c13Digest(s.trace)
					last := s.trace[len(s.trace)-1]
					if len(last) < 4 || last[:4] != "END:" {
						o.crash("seg-program-failed", sp.String()+" "+last)
					}
				}
			}
		}
	}
	return base
}

type c13SegGame struct {
	o     *c13Out
	proto *lua.FunctionProto
	base  c13SegBase
	fam   string // segseq | segconc
	name  string
	r     *Rng
	idle  []*c13SegState
	seq   int
	mu    *sync.Mutex
	yield bool // concurrent games give up the processor inside hooks
}

func (g *c13SegGame) report(s *c13SegState) {
	g.seq++
	got := c13Digest(s.trace)
	g.o.line(fmt.Sprintf("C13 iso %s %s w%d-%s %s => %s", g.fam, g.name, g.seq, s.spec, g.base[s.spec], got))
	if got != g.base[s.spec] {
		g.o.note(fmt.Sprintf("%s %s state %s: trace differs from its run alone; last lines: %v", g.fam, g.name, s.spec, headTail(s.trace, 3)))
	}
	g.o.stat("seg_states", 1)
}

func headTail(t []string, n int) []string {
	if len(t) > n {
		return t[len(t)-n:]
	}
	return t
}

func (g *c13SegGame) spec(modes []string) c13SegSpec {
	return c13SegSpec{Pick(g.r, modes), Pick(g.r, c13SegDepths), Pick(g.r, c13SegCss), g.r.Intn(c13SegIDs)}
}

// play: a random sequence of actions; deep states suspend in their host callback while a nested game runs.
func (g *c13SegGame) play(level int) {
	n := g.r.Range(2, 5)
	for i := 0; i < n; i++ {
		switch k := g.r.Intn(10); {
		case k < 3: // a state that deep-fails under pcall and stays open
			s := c13SegNew(g.proto, g.spec([]string{"fail", "cofail"}), nil)
			s.run()
			g.idle = append(g.idle, s)
		case k < 5: // close an idle state (FreeAll)
			if len(g.idle) > 0 {
				j := g.r.Intn(len(g.idle))
				s := g.idle[j]
				g.idle = append(g.idle[:j], g.idle[j+1:]...)
				s.close()
				g.report(s)
			}
		default: // a deep state, suspended in its callback while the nested game runs
			var s *c13SegState
			s = c13SegNew(g.proto, g.spec([]string{"deep", "codeep", "deep"}), func() {
				if g.yield {
					runtime.Gosched()
				}
				if level < 2 {
					g.play(level + 1)
				}
			})
			s.run()
			if g.r.Chance(60) {
				s.close()
				g.report(s)
			} else {
				g.idle = append(g.idle, s)
			}
		}
	}
	if level == 0 {
		for _, s := range g.idle {
			s.close()
			g.report(s)
		}
		g.idle = nil
	}
}

// explicit: A deep-fails, stays open; B deep, suspended in its callback { A.Close(); C deep (itself suspended while D
// deep-fails and closes); } B resumes.
func c13SegExplicit(o *c13Out, proto *lua.FunctionProto, base c13SegBase, aMode, bMode string, depth, css, round int) {
	g := &c13SegGame{o: o, proto: proto, base: base, fam: "segseq", name: fmt.Sprintf("explicit-%s-%s-d%d-c%d-r%d", aMode, bMode, depth, css, round)}
	o.progress("segseq " + g.name)
	a := c13SegNew(proto, c13SegSpec{aMode, depth, css, 0}, nil)
	a.run()
	var c, d *c13SegState
	b := c13SegNew(proto, c13SegSpec{bMode, depth, css, 1}, func() {
		if a.closed {
			return // codeep calls the hook several times
		}
		a.close()
		c = c13SegNew(proto, c13SegSpec{"deep", depth, css, 2}, func() {
			if d != nil {
				return
			}
			d = c13SegNew(proto, c13SegSpec{"fail", depth, css, 0}, nil)
			d.run()
			d.close()
		})
		c.run()
	})
	b.run()
	b.close()
	if c != nil {
		c.close()
	}
	for _, s := range []*c13SegState{a, b, c, d} {
		if s != nil {
			g.report(s)
		}
	}
}

func c13Segments(o *c13Out, seed int64, tier string) {
	proto, err := c13Compile(c13SegSrc, "seg")
	if err != nil {
		o.crash("seg-compile", err.Error())
		return
	}
	snap := c13SnapDigest(proto)
	c13SegOut = o
	c13SegFixedBase = os.Getenv("VERIF_C13_SEG_FIXEDBASE") != ""
	base := c13SegBaselines(o, proto)
	c13SegFixedBase = false
	rounds, games, conc := 2, 30, 12
	if tier == "thorough" {
		rounds, games, conc = 10, 500, 150
	}
	// sequential, adversarial
	for round := 0; round < rounds; round++ {
		for _, d := range []int{12, 20, 30} {
			for _, am := range []string{"fail", "cofail"} {
				for _, bm := range []string{"deep", "codeep"} {
					c13SegExplicit(o, proto, base, am, bm, d, Pick(NewRng(uint64(round*7+d)), c13SegCss), round)
				}
			}
		}
	}
	root := NewRng(uint64(seed)).Fork(777)
	for i := 0; i < games; i++ {
		g := &c13SegGame{o: o, proto: proto, base: base, fam: "segseq", name: "game" + strconv.Itoa(i), r: root.Fork(uint64(i))}
		o.progress("segseq " + g.name)
		g.play(0)
	}
	// concurrent: the same games from 8 goroutines (the pool is shared)
	o.progress("segconc (8 goroutines)")
	var wg sync.WaitGroup
	for w := 0; w < 8; w++ {
		wg.Add(1)
		go func(w int) {
			defer wg.Done()
			for i := 0; i < conc; i++ {
				g := &c13SegGame{o: o, proto: proto, base: base, fam: "segconc", name: fmt.Sprintf("g%d-%d", w, i),
					r: root.Fork(uint64(100000 + w*1000 + i)), yield: true}
				g.play(0)
			}
		}(w)
	}
	done := make(chan struct{})
	go func() { wg.Wait(); close(done) }()
	select {
	case <-done:
	case <-hangAfter(120 * time.Second):
		noteHang()
		o.crash("seg-hang", "concurrent segment games did not finish")
		return
	}
	o.line(fmt.Sprintf("C13 proto seg all %s => %s", snap, c13SnapDigest(proto)))
}
