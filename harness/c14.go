package main

// C14: Lua patterns — pm.Find and string.find/match/gmatch/gsub on the real code, replayed on the Lean
// Model (transcription of pm/pm.go + stringlib.go assembly; exact) and Spec (lstrlib 5.1 matcher).

import (
	"encoding/hex"
	"fmt"
	"os"
	"strconv"
	"strings"
	"sync"
	"time"

	lua "github.com/yuin/gopher-lua"
	"github.com/yuin/gopher-lua/pm"
)

// ---------- implementation side ----------

type pmWorld struct {
	L      *lua.LState
	find   lua.LValue
	match  lua.LValue
	gsub   lua.LValue
	gmatch *lua.LFunction
	tuples [][]lua.LValue
}

const pmPrelude = `
function c14_gmatch(s, p, sink)
  local n = 0
  for a1,a2,a3,a4,a5,a6,a7,a8,a9,a10,a11,a12 in string.gmatch(s, p) do n = n + 1 sink(a1,a2,a3,a4,a5,a6,a7,a8,a9,a10,a11,a12) end
  -- the iterator is ONE self-contained function (manual: "returns an iterator function that, each time it is
  -- called, returns the next captures"): driven by hand, without arguments, it yields the same sequence and,
  -- once exhausted, keeps returning nothing
  local it, extra = string.gmatch(s, p)
  if extra ~= nil then error("c14: gmatch returned a second value") end
  local m = 0
  while true do
    local a1,a2,a3,a4,a5,a6,a7,a8,a9,a10,a11,a12 = it()
    if a1 == nil then break end
    m = m + 1
    sink("#byhand", m, a1,a2,a3,a4,a5,a6,a7,a8,a9,a10,a11,a12)
    if m > n then error("c14: the hand-driven iterator yields more matches than the generic for") end
  end
  if m ~= n then error("c14: the hand-driven iterator yields " .. m .. " matches, the generic for " .. n) end
  if it() ~= nil or select("#", it()) ~= 0 then error("c14: exhausted gmatch iterator returned a value") end
end
`

var pmPool = sync.Pool{New: func() interface{} {
	L := lua.NewState()
	if err := L.DoString(pmPrelude); err != nil {
		panic(err)
	}
	w := &pmWorld{L: L}
	st := L.GetGlobal("string").(*lua.LTable)
	w.find, w.match, w.gsub = st.RawGetString("find"), st.RawGetString("match"), st.RawGetString("gsub")
	w.gmatch = L.GetGlobal("c14_gmatch").(*lua.LFunction)
	return w
}}

func sHex(b string) string { return "s" + hex.EncodeToString([]byte(b)) }
func unS(tok string) string {
	if len(tok) == 0 || tok[0] != 's' {
		return ""
	}
	b, _ := hex.DecodeString(tok[1:])
	return string(b)
}

type goPanic struct{ msg string }

// call runs fn(args...) protected; Go runtime panics are reported separately from Lua errors.
func (w *pmWorld) call(fn lua.LValue, args ...lua.LValue) (vals []lua.LValue, isErr bool) {
	L := w.L
	base := L.GetTop()
	err := L.CallByParam(lua.P{Fn: fn, NRet: lua.MultRet, Protect: true}, args...)
	if err != nil {
		L.SetTop(base)
		if ae, ok := err.(*lua.ApiError); ok && ae.Type == lua.ApiErrorPanic {
			panic(goPanic{ae.Object.String()})
		}
		return nil, true
	}
	for i := base + 1; i <= L.GetTop(); i++ {
		vals = append(vals, L.Get(i))
	}
	L.SetTop(base)
	return vals, false
}

func encVals(vals []lua.LValue) []string {
	out := make([]string, len(vals))
	for i, v := range vals {
		out[i] = encVal(v, nil)
	}
	return out
}

func (w *pmWorld) implFind(fn lua.LValue, pat, subj string, init int) []string {
	vals, isErr := w.call(fn, lua.LString(subj), lua.LString(pat), lua.LNumber(init))
	if isErr {
		return []string{"err"}
	}
	if len(vals) == 0 {
		return []string{"none"}
	}
	return encVals(vals)
}

func (w *pmWorld) implGmatch(pat, subj string) []string {
	w.tuples = w.tuples[:0]
	sink := w.L.NewFunction(func(L *lua.LState) int {
		var t []lua.LValue
		first := 1
		if s, ok := L.Get(1).(lua.LString); ok && s == "#byhand" && L.GetTop() >= 2 {
			// a tuple of the hand-driven pass: must equal the tuple the generic for delivered at that position
			first = 3
		}
		for i := first; i <= L.GetTop(); i++ {
			if L.Get(i) == lua.LNil {
				break
			}
			t = append(t, L.Get(i))
		}
		if first == 3 {
			k := int(L.Get(2).(lua.LNumber)) - 1
			if k < 0 || k >= len(w.tuples) || strings.Join(encVals(t), " ") != strings.Join(encVals(w.tuples[k]), " ") {
				L.RaiseError("c14: hand-driven gmatch tuple %d differs from the generic-for tuple", k+1)
			}
			return 0
		}
		w.tuples = append(w.tuples, t)
		return 0
	})
	_, isErr := w.call(w.gmatch, lua.LString(subj), lua.LString(pat), sink)
	if isErr {
		return []string{"err"}
	}
	if len(w.tuples) == 0 {
		return []string{"none"}
	}
	var out []string
	for i, t := range w.tuples {
		if i > 0 {
			out = append(out, ";")
		}
		out = append(out, encVals(t)...)
	}
	return out
}

func capText(v lua.LValue) string {
	if n, ok := v.(lua.LNumber); ok {
		return strconv.FormatInt(int64(n), 10)
	}
	return string(v.(lua.LString))
}

// the replacement functions; the Lean engine has the same table (PmEng.fnOracle)
func (w *pmWorld) replFunc(mode string) *lua.LFunction {
	k := 0
	return w.L.NewFunction(func(L *lua.LState) int {
		idx := k
		k++
		n := L.GetTop()
		switch mode {
		case "cat":
			parts := make([]string, n)
			for i := 1; i <= n; i++ {
				parts[i-1] = capText(L.Get(i))
			}
			L.Push(lua.LString("<" + strings.Join(parts, ":") + ">"))
		case "nil":
			L.Push(lua.LNil)
		case "false":
			L.Push(lua.LFalse)
		case "true":
			L.Push(lua.LTrue)
		case "tbl":
			L.Push(L.NewTable())
		case "cnt":
			L.Push(lua.LNumber(n))
		case "alt":
			if idx%2 == 0 {
				L.Push(lua.LNil)
			} else {
				L.Push(lua.LString("X"))
			}
		case "first":
			if n == 0 {
				L.Push(lua.LNil)
			} else {
				L.Push(L.Get(1))
			}
		default:
			L.Push(lua.LNil)
		}
		return 1
	})
}

func (w *pmWorld) replTable(arg string) *lua.LTable {
	t := w.L.NewTable()
	if arg == "-" {
		return t
	}
	for _, kv := range strings.Split(arg, ",") {
		p := strings.SplitN(kv, "=", 2)
		if len(p) != 2 {
			continue
		}
		var key, val lua.LValue
		if p[0][0] == 's' {
			key = lua.LString(unS(p[0]))
		} else {
			n, _ := strconv.Atoi(p[0][1:])
			key = lua.LNumber(n)
		}
		switch {
		case p[1] == "F":
			val = lua.LFalse
		case p[1] == "T":
			val = lua.LTrue
		case p[1] == "t":
			val = w.L.NewTable()
		case p[1][0] == 's':
			val = lua.LString(unS(p[1]))
		default:
			n, _ := strconv.Atoi(p[1][1:])
			val = lua.LNumber(n)
		}
		t.RawSet(key, val)
	}
	// the replacement value is looked up like any Lua index operation (lstrlib add_value: lua_gettable), i.e. through
	// __index: for two thirds of the tables some of the entries live only in a fallback reached through the metatable —
	// as a table or as a function, alternately — which changes nothing in what the lookup yields
	h := 0
	for i := 0; i < len(arg); i++ {
		h = h*31 + int(arg[i])
	}
	if h < 0 {
		h = -h
	}
	if h%3 != 0 {
		fallback := w.L.NewTable()
		var moved []lua.LValue
		i := 0
		t.ForEach(func(k, v lua.LValue) {
			if (h/3+i)%2 == 0 {
				fallback.RawSet(k, v)
				moved = append(moved, k)
			}
			i++
		})
		for _, k := range moved {
			t.RawSet(k, lua.LNil)
		}
		mt := w.L.NewTable()
		if h%2 == 0 {
			mt.RawSetString("__index", fallback)
		} else {
			mt.RawSetString("__index", w.L.NewFunction(func(L *lua.LState) int { L.Push(fallback.RawGet(L.Get(2))); return 1 }))
		}
		w.L.SetMetatable(t, mt)
	}
	return t
}

func (w *pmWorld) implGsub(pat, subj, kind, arg, mx string) []string {
	var repl lua.LValue
	switch kind {
	case "S":
		repl = lua.LString(unS(arg))
	case "N":
		n, _ := strconv.Atoi(arg[1:])
		repl = lua.LNumber(n)
	case "T":
		repl = w.replTable(arg)
	case "F":
		repl = w.replFunc(arg)
	}
	args := []lua.LValue{lua.LString(subj), lua.LString(pat), repl}
	if mx != "-" {
		n, _ := strconv.Atoi(mx[1:])
		args = append(args, lua.LNumber(n))
	}
	vals, isErr := w.call(w.gsub, args...)
	if isErr {
		return []string{"err"}
	}
	return encVals(vals)
}

func implPm(pat, subj string, offset, limit int) (out []string) {
	defer func() {
		if r := recover(); r != nil {
			panic(goPanic{fmt.Sprint(r)})
		}
	}()
	mds, err := pm.Find(pat, []byte(subj), offset, limit)
	if err != nil {
		return []string{"E", sHex(err.Error())}
	}
	out = []string{"M"}
	for _, md := range mds {
		parts := make([]string, md.CaptureLength())
		for i := range parts {
			if md.IsPosCapture(i) {
				parts[i] = "p" + strconv.Itoa(md.Capture(i))
			} else {
				parts[i] = strconv.Itoa(md.Capture(i))
			}
		}
		out = append(out, strings.Join(parts, ","))
	}
	return out
}

// subjects over {a,b} of length ≤ n, by length, then lexicographically (same order as PmEng.subjectsUpTo)
func subjectsUpTo(n int) []string {
	var res []string
	for l := 0; l <= n; l++ {
		for k := 0; k < 1<<uint(l); k++ {
			b := make([]byte, l)
			for i := 0; i < l; i++ {
				if k>>(uint(l-1-i))&1 == 1 {
					b[i] = 'b'
				} else {
					b[i] = 'a'
				}
			}
			res = append(res, string(b))
		}
	}
	return res
}

var subjCache = map[int][]string{}
var subjMu sync.Mutex

func subjects(n int) []string {
	subjMu.Lock()
	defer subjMu.Unlock()
	if s, ok := subjCache[n]; ok {
		return s
	}
	s := subjectsUpTo(n)
	subjCache[n] = s
	return s
}

func (w *pmWorld) implOne(fn, pat, subj string, rest []string) []string {
	switch fn {
	case "find":
		i, _ := strconv.Atoi(rest[0])
		return w.implFind(w.find, pat, subj, i)
	case "match":
		i, _ := strconv.Atoi(rest[0])
		return w.implFind(w.match, pat, subj, i)
	case "gmatch":
		return w.implGmatch(pat, subj)
	case "gsub":
		return w.implGsub(pat, subj, rest[0], rest[1], rest[2])
	case "pm":
		o, _ := strconv.Atoi(rest[0])
		l, _ := strconv.Atoi(rest[1])
		return implPm(pat, subj, o, l)
	}
	return []string{"bad-fn"}
}

func execPmInner(ops []Op, out *[]string) {
	w := pmPool.Get().(*pmWorld)
	ok := false
	defer func() {
		if ok {
			pmPool.Put(w)
		}
	}()
	for _, o := range ops {
		a := o.Args
		line := "C14 " + strings.Join(a, " ") + " => "
		func() {
			defer func() {
				if r := recover(); r != nil {
					if gp, isGp := r.(goPanic); isGp {
						*out = append(*out, "X gopanic "+strings.Join(a, " ")+" => "+gp.msg)
					} else {
						*out = append(*out, fmt.Sprintf("X harness-panic %s => %v", strings.Join(a, " "), r))
					}
					// the state may be inconsistent after a panic: take a fresh one
					w = pmPool.New().(*pmWorld)
				}
			}()
			if a[0] == "x" {
				fn, pat := a[1], unS(a[2])
				n, _ := strconv.Atoi(a[3])
				var toks []string
				for _, s := range subjects(n) {
					if fn == "find" || fn == "match" {
						for i := 1; i <= len(s)+2; i++ {
							toks = append(toks, strings.Join(w.implOne(fn, pat, s, []string{strconv.Itoa(i)}), ","))
						}
					} else {
						toks = append(toks, strings.Join(w.implOne(fn, pat, s, a[4:]), ","))
					}
				}
				*out = append(*out, line+strings.Join(toks, " "))
			} else {
				*out = append(*out, line+strings.Join(w.implOne(a[0], unS(a[1]), unS(a[2]), a[3:]), " "))
			}
		}()
	}
	ok = true
}

var pmTimeout = 60 * time.Second

// execPm runs the ops under a watchdog: a matcher that hangs is a violation, not a stuck harness.
func execPm(ops []Op) []string {
	var out []string
	done := make(chan struct{})
	var mu sync.Mutex
	go func() {
		var local []string
		execPmInner(ops, &local)
		mu.Lock()
		out = local
		mu.Unlock()
		close(done)
	}()
	select {
	case <-done:
		mu.Lock()
		defer mu.Unlock()
		return out
	case <-hangAfter(pmTimeout):
		noteHang()
		return []string{"X timeout " + opsToStrings(ops)[0] + " => no reply within " + pmTimeout.String()}
	}
}

// ---------- generators ----------

const pmExhAlphabet = "ab.%*-+?()[]^$"

func enumPatterns(maxLen int, f func(string)) {
	var rec func(prefix []byte, l int)
	rec = func(prefix []byte, l int) {
		if len(prefix) == l {
			f(string(prefix))
			return
		}
		for i := 0; i < len(pmExhAlphabet); i++ {
			rec(append(prefix, pmExhAlphabet[i]), l)
		}
	}
	for l := 0; l <= maxLen; l++ {
		rec(nil, l)
	}
}

type patGen struct {
	r      *Rng
	ncap   int   // captures opened so far
	closed []int // closed captures (1-based)
	depth  int
}

var pmLits = []byte("aaaaabbbbbcc1 -x")
var pmOdd = []byte{'A', '9', '.', '(', ')', '%', ']', '[', '^', '$', '*', '+', '?', '\n', 0x80, 0xff, '_'}
var pmClasses = []byte("acdlpsuwxzACDLPSUWXZ")

func (g *patGen) lit() string {
	r := g.r
	var c byte
	if r.Chance(85) {
		c = Pick(r, pmLits)
	} else {
		c = Pick(r, pmOdd)
	}
	if strings.IndexByte("^$()%.[]*+-?", c) >= 0 {
		return "%" + string(c)
	}
	if r.Chance(7) {
		// '%' before a letter that names no class is that letter (lstrlib match_class: default), upper case included
		return "%" + string(Pick(r, pmNonClass))
	}
	return string(c)
}

// letters that are neither a class, nor %b, nor %f
var pmNonClass = []byte("eghijkmnoqrtvyBEFGHIJKMNOQRTVY")

func (g *patGen) set() string {
	r := g.r
	var sb strings.Builder
	sb.WriteByte('[')
	if r.Chance(25) {
		sb.WriteByte('^')
	}
	if r.Chance(6) {
		sb.WriteByte(']')
	}
	if r.Chance(6) {
		sb.WriteByte('-')
	}
	n := r.Range(1, 4)
	for i := 0; i < n; i++ {
		switch k := r.Intn(100); {
		case k < 35:
			c := Pick(r, []byte("abc19xAZ _"))
			sb.WriteByte(c)
		case k < 60:
			lo := Pick(r, []byte("aaab0A"))
			hi := Pick(r, []byte("bczz9Z"))
			sb.WriteByte(lo)
			sb.WriteByte('-')
			sb.WriteByte(hi)
		case k < 80:
			sb.WriteByte('%')
			sb.WriteByte(Pick(r, pmClasses))
		case k < 86:
			sb.WriteByte('%')
			sb.WriteByte(Pick(r, []byte("]-^%.[")))
		case k < 88:
			sb.WriteByte('%')
			sb.WriteByte(Pick(r, pmNonClass))
		case k < 92:
			sb.WriteByte(Pick(r, []byte(".^$()*+?[")))
		default:
			// interactions of ranges, classes and '-' (lstrlib's reading; the manual leaves some undefined)
			sb.WriteString(Pick(r, []string{"%a-z", "a-%z", "a--", "a-z-9", "%--a", "+--", "a-c-", "%w-", "b-a"}))
		}
	}
	if r.Chance(8) {
		sb.WriteByte('-')
	}
	sb.WriteByte(']')
	return sb.String()
}

func (g *patGen) single() string {
	r := g.r
	switch k := r.Intn(100); {
	case k < 55:
		return g.lit()
	case k < 65:
		return "."
	case k < 80:
		return "%" + string(Pick(r, pmClasses))
	default:
		return g.set()
	}
}

func (g *patGen) seq(n int) string {
	r := g.r
	var sb strings.Builder
	for i := 0; i < n; i++ {
		switch k := r.Intn(100); {
		case k < 62:
			sb.WriteString(g.single())
			if r.Chance(40) {
				sb.WriteByte(Pick(r, []byte("*+-?")))
			}
		case k < 76:
			if g.depth < 3 && g.ncap < 8 {
				g.ncap++
				id := g.ncap
				g.depth++
				sb.WriteByte('(')
				sb.WriteString(g.seq(r.Range(0, 3)))
				sb.WriteByte(')')
				g.depth--
				g.closed = append(g.closed, id)
			} else {
				sb.WriteString(g.lit())
			}
		case k < 82:
			if g.ncap < 8 {
				g.ncap++
				g.closed = append(g.closed, g.ncap)
				sb.WriteString("()")
			}
		case k < 91:
			if len(g.closed) > 0 && r.Chance(92) {
				sb.WriteString("%" + strconv.Itoa(Pick(r, g.closed)))
			} else {
				sb.WriteString("%" + strconv.Itoa(r.Range(0, 9))) // mostly invalid
			}
		case k < 96:
			sb.WriteString("%b" + Pick(r, []string{"()", "ab", "aa", "[]", "xy", "%%"}))
		default:
			sb.WriteString(Pick(r, []string{"^", "$", "-", "*", "]", "%%"}))
		}
	}
	return sb.String()
}

func genPattern(r *Rng) string {
	g := &patGen{r: r}
	var sb strings.Builder
	switch k := r.Intn(100); {
	case k < 3:
		return "" // the empty pattern: an empty match at every BYTE position
	case k < 8: // a plain literal (no magic character at all): what a "fast path" would special-case
		n := r.Range(1, 3)
		for i := 0; i < n; i++ {
			sb.WriteByte(Pick(r, []byte("aabbc1 x_A\xc3\xa9")))
		}
		return sb.String()
	}
	if r.Chance(18) {
		sb.WriteByte('^')
	}
	sb.WriteString(g.seq(r.Range(1, 5)))
	if r.Chance(18) {
		sb.WriteByte('$')
	}
	return sb.String()
}

func genSubject(r *Rng, maxLen int) string {
	n := r.Intn(maxLen + 1)
	if r.Chance(10) {
		n = r.Intn(4)
	}
	if r.Chance(12) {
		// valid multi-byte UTF-8 sequences among ASCII: patterns work on BYTES, whatever the bytes spell
		var sb strings.Builder
		for sb.Len() < n {
			sb.WriteString(Pick(r, []string{"a", "b", "a", "\xc3\xa9", "\xe2\x82\xac", "\xf0\x9f\x98\x80", "\xc3\x9f", " "}))
		}
		return sb.String()
	}
	b := make([]byte, n)
	for i := range b {
		switch k := r.Intn(100); {
		case k < 70:
			b[i] = Pick(r, []byte("ab"))
		case k < 88:
			b[i] = Pick(r, pmLits)
		case k < 97:
			b[i] = Pick(r, pmOdd)
		default:
			b[i] = byte(r.Intn(256))
		}
	}
	return string(b)
}

func genMalformed(r *Rng) string {
	if r.Chance(50) {
		// damage a well-formed pattern
		p := []byte(genPattern(r))
		for k := r.Range(1, 2); k > 0 && len(p) > 0; k-- {
			i := r.Intn(len(p))
			switch r.Intn(3) {
			case 0:
				p = append(p[:i], p[i+1:]...)
			case 1:
				p = append(p[:i], append([]byte{Pick(r, []byte("()[]%"))}, p[i:]...)...)
			default:
				p = p[:i]
			}
		}
		return string(p)
	}
	n := r.Range(1, 8)
	b := make([]byte, n)
	for i := range b {
		b[i] = Pick(r, []byte("ab()[]%%^$*-b19f."))
	}
	return string(b)
}

func genReplString(r *Rng) string {
	var sb strings.Builder
	for n := r.Range(0, 4); n > 0; n-- {
		switch k := r.Intn(100); {
		case k < 35:
			sb.WriteByte(Pick(r, []byte("xyz<> 1")))
		case k < 50:
			sb.WriteString("%0")
		case k < 75:
			sb.WriteString("%" + strconv.Itoa(r.Range(1, 3)))
		case k < 80:
			sb.WriteString("%" + strconv.Itoa(r.Range(4, 9)))
		case k < 90:
			sb.WriteString("%%")
		default:
			sb.WriteString("%" + string(Pick(r, []byte("axw. -")))) // known finding: gopher keeps the '%'
		}
	}
	if r.Chance(3) {
		sb.WriteByte('%') // 5.1 reads the terminator here: not compared with the Spec
	}
	return sb.String()
}

func genReplTable(r *Rng, subj string) string {
	var ents []string
	for n := r.Range(0, 4); n > 0; n-- {
		var key string
		if r.Chance(20) {
			key = "p" + strconv.Itoa(r.Range(1, len(subj)+1))
		} else if len(subj) > 0 && r.Chance(80) {
			i := r.Intn(len(subj))
			j := i + r.Range(0, 2)
			if j > len(subj) {
				j = len(subj)
			}
			key = sHex(subj[i:j])
		} else {
			key = sHex(string(Pick(r, pmLits)))
		}
		var val string
		switch k := r.Intn(100); {
		case k < 60:
			val = sHex(string(Pick(r, []string{"", "X", "<>", "%1", "yy"})))
		case k < 75:
			val = "i" + strconv.Itoa(r.Range(-3, 99))
		case k < 88:
			val = "F"
		case k < 94:
			val = "T"
		default:
			val = "t"
		}
		ents = append(ents, key+"="+val)
	}
	if len(ents) == 0 {
		return "-"
	}
	// the first binding of a key wins on both sides: drop later duplicates
	seen := map[string]bool{}
	var out []string
	for _, e := range ents {
		k := strings.SplitN(e, "=", 2)[0]
		if !seen[k] {
			seen[k] = true
			out = append(out, e)
		}
	}
	return strings.Join(out, ",")
}

func genGsubArgs(r *Rng, subj string) []string {
	var kind, arg string
	switch k := r.Intn(100); {
	case k < 45:
		kind, arg = "S", sHex(genReplString(r))
	case k < 50:
		kind, arg = "N", "i"+strconv.Itoa(r.Range(0, 42))
	case k < 72:
		kind, arg = "T", genReplTable(r, subj)
	default:
		kind, arg = "F", Pick(r, []string{"cat", "cat", "cat", "first", "first", "nil", "false", "alt", "alt", "cnt", "true", "tbl"})
	}
	mx := "-"
	if r.Chance(35) {
		mx = "i" + strconv.Itoa(Pick(r, []int{0, 0, -1, -7, 1, 1, 2, 3, len(subj), len(subj) + 1, 1000}))
	}
	return []string{kind, arg, mx}
}

func genInit(r *Rng, n int) int {
	switch k := r.Intn(100); {
	case k < 30:
		return 1
	case k < 75:
		return r.Range(1, n+1)
	case k < 90:
		return -r.Range(0, n+2)
	default:
		return Pick(r, []int{n + 2, n + 3, 100, -100, 0})
	}
}

// one random case: a (pattern, subject) pair observed through pm.Find and the four string functions
func genPmCase(r *Rng, malformed bool, maxSubj int) []Op {
	var pat string
	if malformed {
		pat = genMalformed(r)
	} else {
		pat = genPattern(r)
	}
	subj := genSubject(r, maxSubj)
	p, s := sHex(pat), sHex(subj)
	n := len(subj)
	ops := []Op{
		{Args: []string{"pm", p, s, strconv.Itoa(r.Intn(n + 2)), strconv.Itoa(Pick(r, []int{-1, -1, 1, 1, 2, 3, 0}))}},
		{Args: []string{"find", p, s, strconv.Itoa(genInit(r, n))}},
		{Args: []string{"match", p, s, strconv.Itoa(genInit(r, n))}},
		{Args: []string{"gmatch", p, s}},
		{Args: append([]string{"gsub", p, s}, genGsubArgs(r, subj)...)},
		{Args: append([]string{"gsub", p, s}, genGsubArgs(r, subj)...)},
	}
	return ops
}

// skeleton of a pattern: letters and digits collapsed, structure kept
func patSkeleton(pat string) string {
	b := []byte(pat)
	for i, c := range b {
		if i > 0 && b[i-1] == '%' {
			continue
		}
		switch {
		case c >= 'a' && c <= 'z', c >= 'A' && c <= 'Z':
			b[i] = 'a'
		case c >= '0' && c <= '9':
			b[i] = '0'
		}
	}
	return string(b)
}

// deepRecursionProbe: Go-only check of the recursion cap (the Lean model has the cap as a parameter; replaying
// 10^6 nested calls through the driver is pointless): a subject longer than maxRecursionLevel must give the
// *pm.Error "pattern/input too complex" — not a Go panic / stack overflow — and a shorter one must match.
func deepRecursionProbe() []string {
	var bad []string
	probe := func(name, pat string, n int, wantErr bool) {
		defer func() {
			if r := recover(); r != nil {
				bad = append(bad, fmt.Sprintf("X gopanic deep-recursion %s n=%d => %v", name, n, r))
			}
		}()
		subj := []byte(strings.Repeat("a", n))
		mds, err := pm.Find(pat, subj, 0, 1)
		if wantErr {
			if err == nil || !strings.Contains(err.Error(), "too complex") {
				bad = append(bad, fmt.Sprintf("X deep-recursion %s n=%d => expected the recursion-cap error, got err=%v matches=%d", name, n, err, len(mds)))
			}
		} else if err != nil || len(mds) != 1 || mds[0].Capture(1) != n {
			bad = append(bad, fmt.Sprintf("X deep-recursion %s n=%d => expected one match of the whole subject, got err=%v", name, n, err))
		}
	}
	probe("a*", "a*", 200000, false)
	probe("a*", "a*", 1000100, true)
	probe(".-$", "^.-$", 300000, false)
	return bad
}

func init() { props["C14"] = runC14; replayExec["C14"] = execPm }

func runC14(run *Run) {
	thorough := run.Tier == "thorough"
	exhLen, exhSubj, exhPct := 4, 4, 25
	nRandom, nMalformed, maxSubj := 20000, 5000, 14
	if thorough {
		exhLen, exhSubj, exhPct = 5, 5, 25
		nRandom, nMalformed, maxSubj = 150000, 40000, 20
	}
	run.Rule = fmt.Sprintf("(1) bounded-exhaustive TEST: every pattern over the alphabet {%s} of length <= %d (length %d: a seeded %d%% sample), each run by string.find (plus match/gmatch/gsub on a seeded third) on every subject over {a,b} of length <= %d and every init 1..len+2; "+
		"(2) random structured patterns (literals, '.', %%classes, sets with ranges/complements/classes and range-class interactions, * + - ?, nested and position captures, back-references valid and invalid, %%b, anchors) x random subjects (length <= %d, bytes incl. NUL and >= 0x80) through pm.Find (offset, limit), string.find/match (init incl. negative and out of range), gmatch, gsub with string (%%0-%%9, %%%%, %%x), number, table (string/position keys; string/number/false/true/table values) and function replacements and max_s incl. 0 and negatives; "+
		"(3) malformed stream (damaged patterns, random special characters). Every reply is compared with the Lean Model (exact, incl. pm error messages and raw capture arrays) and with the lstrlib-5.1 Spec (extents + captures; a statically malformed pattern must give an error or no match). Go panics and timeouts are violations outright. distinct = distinct pattern skeletons (letters/digits collapsed)",
		pmExhAlphabet, exhLen, exhLen, exhPct, exhSubj, maxSubj)
	run.Assume = []string{
		"patterns containing the byte 0 or %f (frontier, undocumented in 5.1) and replacement strings ending in a single '%' are replayed on the Model only (5.1 patterns are C strings; 5.1 reads the terminator)",
		"at most 8 captures are generated (LUA_MAXCAPTURES = 32 is a limit of the reference, not part of the semantics)",
		"the recursion cap (maxRecursionLevel = 1e6) is probed on the Go side only; subjects in the correspondence are far below it, so 'no cap error' holds on every compared case",
		"replacement tables/functions are the fixed oracles of PmEng.fnOracle / explicit finite tables; number replacements and values are integral",
		"Lua-level error messages are compared as 'err' only; pm.Find's messages are compared exactly"}
	run.Trusted = append(run.Trusted, "Spec/LuaPattern.lean is a hand port of lstrlib.c 5.1.5 (match, max_expand, min_expand, captures, %b, classes for the C locale)")
	root := NewRng(uint64(run.Seed))
	var cases []Case
	for i, c := range loadCorpus("C14") {
		cases = append(cases, Case{Idx: -1 - i, Ops: c, Note: "corpus"})
	}
	// (1) exhaustive stream
	idx := 0
	nExh := 0
	enumPatterns(exhLen, func(pat string) {
		idx++
		h := root.Fork(uint64(1<<40 + idx))
		if len(pat) == exhLen && !h.Chance(exhPct) {
			return
		}
		nExh++
		p := sHex(pat)
		n := strconv.Itoa(exhSubj)
		ops := []Op{{Args: []string{"x", "find", p, n}}}
		switch h.Intn(3) {
		case 0:
			ops = append(ops, Op{Args: []string{"x", "match", p, n}})
		case 1:
			ops = append(ops, Op{Args: []string{"x", "gmatch", p, n}})
		default:
			ops = append(ops, Op{Args: []string{"x", "gsub", p, n, "S", sHex(Pick(h, []string{"<%0>", "%1", "x", "[%1%2]"})), Pick(h, []string{"-", "-", "i1", "i2"})}})
		}
		cases = append(cases, Case{Idx: 1000000 + idx, Ops: ops})
		run.Distinct["x:"+patSkeleton(pat)] = true
	})
	run.Extra["exhaustive_patterns"] = nExh
	perPattern := 0
	for _, sj := range subjects(exhSubj) {
		perPattern += len(sj) + 2
	}
	run.Extra["exhaustive_find_calls"] = nExh * perPattern
	run.Extra["exhaustive"] = false
	// (2) random stream, (3) malformed stream
	for i := 0; i < nRandom+nMalformed; i++ {
		r := root.Fork(uint64(i))
		ops := genPmCase(r, i >= nRandom, maxSubj)
		cases = append(cases, Case{Idx: i, Ops: ops})
		run.Distinct[patSkeleton(unS(ops[0].Args[1]))] = true
	}
	// chunked so that the request lines of a thorough run do not sit in memory all at once
	for lo := 0; lo < len(cases); lo += 8000 {
		hi := lo + 8000
		if hi > len(cases) {
			hi = len(cases)
		}
		runCases(run, cases[lo:hi], execPm, classifyNone)
	}
	if p := envOr("VERIF_DUMP_FAILS", ""); p != "" { // development aid
		var sb strings.Builder
		for _, f := range run.Failures {
			fmt.Fprintf(&sb, "%s case=%d finding=%q\n   %s\n   -> %s\n", f.Kind, f.CaseIdx, f.Finding, f.Line, f.Reply)
		}
		os.WriteFile(p, []byte(sb.String()), 0o644)
	}
	// recursion cap probe (Go side only)
	for _, l := range deepRecursionProbe() {
		run.Failures = append(run.Failures, Failure{CaseIdx: -500, Kind: "CRASH", Line: l, Reply: l, Lines: []string{l}})
	}
	run.Evals++
}
