package main

// C15: string and math library functions against the Lean Model/Spec (engine word "C15") and, for float
// results, against Go's math as the trusted IEEE oracle (checked here, verdict passed through the driver).

import (
	"encoding/hex"
	"fmt"
	"math"
	"math/big"
	"os"
	"strconv"
	"strings"

	lua "github.com/yuin/gopher-lua"
)

type c15World struct {
	L   *lua.LState
	fns map[string]*lua.LFunction
}

func newC15World() *c15World {
	L := lua.NewState()
	w := &c15World{L: L, fns: map[string]*lua.LFunction{}}
	for _, lib := range []string{"string", "math"} {
		tb := L.GetGlobal(lib).(*lua.LTable)
		tb.ForEach(func(k, v lua.LValue) {
			if f, ok := v.(*lua.LFunction); ok {
				w.fns[lib+"."+string(k.(lua.LString))] = f
			}
		})
	}
	return w
}

func c15Dec(tok string) lua.LValue {
	switch {
	case tok == "-" || tok == "nil":
		return lua.LNil
	case tok == "T":
		return lua.LTrue
	case tok == "F":
		return lua.LFalse
	case tok == "nan":
		return lua.LNumber(math.NaN())
	case tok[0] == 'i':
		f, _ := strconv.ParseFloat(tok[1:], 64)
		return lua.LNumber(f)
	case tok[0] == 'f':
		b, _ := strconv.ParseUint(tok[1:], 10, 64)
		return lua.LNumber(math.Float64frombits(b))
	case tok[0] == 's':
		b, _ := hex.DecodeString(tok[1:])
		return lua.LString(string(b))
	case tok[0] == 'g': // g<bits>:<hex of the C oracle's rendering of this directive> (finite float conversions)
		b, _ := strconv.ParseUint(tok[1:strings.IndexByte(tok, ':')], 10, 64)
		return lua.LNumber(math.Float64frombits(b))
	}
	panic("bad token " + tok)
}

// c15Num: like encNum but keeps the sign of a negative zero (sent as its bit pattern)
func c15Num(f float64) string {
	if f == 0 && math.Signbit(f) {
		return "f" + strconv.FormatUint(math.Float64bits(f), 10)
	}
	return encNum(f)
}

func encStr(s string) string { return "s" + hex.EncodeToString([]byte(s)) }

// call runs a library function protected; outcome = encoded results | "err" | "gopanic".
func (w *c15World) call(fn string, args ...lua.LValue) ([]lua.LValue, string) {
	L := w.L
	top := L.GetTop()
	err := L.CallByParam(lua.P{Fn: w.fns[fn], NRet: lua.MultRet, Protect: true}, args...)
	if err != nil {
		L.SetTop(top)
		if ae, ok := err.(*lua.ApiError); ok && ae.Type == lua.ApiErrorPanic {
			return nil, "gopanic"
		}
		return nil, "err"
	}
	var res []lua.LValue
	for i := top + 1; i <= L.GetTop(); i++ {
		res = append(res, L.Get(i))
	}
	L.SetTop(top)
	return res, ""
}

func encResults(res []lua.LValue, bad string) string {
	if bad != "" {
		return bad
	}
	parts := make([]string, len(res))
	for i, v := range res {
		// a number result goes through c15Num, not encNum: encNum renders -0 as `i0` and so drops the sign of a zero
		if n, ok := v.(lua.LNumber); ok {
			parts[i] = c15Num(float64(n))
		} else {
			parts[i] = encVal(v, nil)
		}
	}
	return strings.Join(parts, " ")
}

// trimArgs decodes tokens, dropping trailing absent arguments (a middle `-` is passed as nil).
func trimArgs(toks []string) []lua.LValue {
	n := len(toks)
	for n > 0 && toks[n-1] == "-" {
		n--
	}
	vs := make([]lua.LValue, n)
	for i := 0; i < n; i++ {
		vs[i] = c15Dec(toks[i])
	}
	return vs
}

func ulpDiff(a, b float64) uint64 {
	if a == b || (math.IsNaN(a) && math.IsNaN(b)) {
		return 0
	}
	if math.IsNaN(a) || math.IsNaN(b) || math.IsInf(a, 0) || math.IsInf(b, 0) {
		return math.MaxUint64
	}
	ord := func(x float64) int64 {
		b := int64(math.Float64bits(x))
		if b < 0 {
			b = math.MinInt64 - b
		}
		return b
	}
	d := ord(a) - ord(b)
	if d < 0 {
		d = -d
	}
	return uint64(d)
}

func sameBits(a, b float64) bool {
	return math.Float64bits(a) == math.Float64bits(b) || (math.IsNaN(a) && math.IsNaN(b))
}

var math1 = map[string]func(float64) float64{
	"floor": math.Floor, "ceil": math.Ceil, "abs": math.Abs, "sqrt": math.Sqrt, "exp": math.Exp, "log": math.Log,
	"log10": math.Log10, "sin": math.Sin, "cos": math.Cos, "tan": math.Tan, "asin": math.Asin, "acos": math.Acos,
	"atan": math.Atan, "sinh": math.Sinh, "cosh": math.Cosh, "tanh": math.Tanh,
}
var math1Exact = map[string]bool{"floor": true, "ceil": true, "abs": true, "sqrt": true}

// exactScaled returns x * num / den rounded once to float64 (big.Float, 200 bits), den/num built from π.
func degRadRef(x float64, toDeg bool) float64 {
	if math.IsNaN(x) || math.IsInf(x, 0) || x == 0 {
		return x
	}
	pi, _, _ := big.ParseFloat("3.14159265358979323846264338327950288419716939937510582097494459230781640628620899", 10, 300, big.ToNearestEven)
	bx := new(big.Float).SetPrec(300).SetFloat64(x)
	c180 := new(big.Float).SetPrec(300).SetInt64(180)
	var r *big.Float
	if toDeg {
		r = new(big.Float).SetPrec(300).Quo(new(big.Float).SetPrec(300).Mul(bx, c180), pi)
	} else {
		r = new(big.Float).SetPrec(300).Quo(new(big.Float).SetPrec(300).Mul(bx, pi), c180)
	}
	f, _ := r.Float64()
	return f
}

func numArg(v lua.LValue) (float64, bool) {
	switch x := v.(type) {
	case lua.LNumber:
		return float64(x), true
	case lua.LString:
		f, err := strconv.ParseFloat(strings.TrimSpace(string(x)), 64)
		return f, err == nil
	}
	return 0, false
}

// goChk runs one math function and checks its Lua-level contract here (float results never go to Lean).
func (w *c15World) goChk(fn string, toks []string) string {
	args := make([]lua.LValue, len(toks))
	xs := make([]float64, len(toks))
	for i, t := range toks {
		args[i] = c15Dec(t)
		f, ok := numArg(args[i])
		if !ok {
			return "FAIL:harness-bad-number"
		}
		xs[i] = f
	}
	res, bad := w.call("math."+fn, args...)
	if bad != "" {
		return "FAIL:" + bad
	}
	num := func(i int) float64 {
		if i < len(res) {
			if n, ok := res[i].(lua.LNumber); ok {
				return float64(n)
			}
		}
		return math.NaN()
	}
	want := func(n int) string {
		if len(res) != n {
			return fmt.Sprintf("FAIL:%d-results", len(res))
		}
		for _, r := range res {
			if _, ok := r.(lua.LNumber); !ok {
				return "FAIL:non-number-result"
			}
		}
		return ""
	}
	fail := func(f string, a ...interface{}) string {
		return "FAIL:" + strings.ReplaceAll(fmt.Sprintf(f, a...), " ", "_")
	}
	if f1, ok := math1[fn]; ok {
		if e := want(1); e != "" {
			return e
		}
		ref := f1(xs[0])
		tol := uint64(1)
		if math1Exact[fn] {
			tol = 0
		}
		if d := ulpDiff(num(0), ref); d > tol || (tol == 0 && !sameBits(num(0), ref)) {
			return fail("%s(%v)=%v want %v", fn, xs[0], num(0), ref)
		}
		return "ok"
	}
	switch fn {
	case "deg", "rad":
		if e := want(1); e != "" {
			return e
		}
		ref := degRadRef(xs[0], fn == "deg")
		if ulpDiff(num(0), ref) > 1 {
			return fail("%s(%v)=%v want %v", fn, xs[0], num(0), ref)
		}
	case "pow", "atan2", "fmod":
		if e := want(1); e != "" {
			return e
		}
		var ref float64
		tol := uint64(1)
		switch fn {
		case "pow":
			ref = math.Pow(xs[0], xs[1])
		case "atan2":
			ref = math.Atan2(xs[0], xs[1])
			if xs[0] < 0 && ref > 0 { // mathAtan2: the result has the sign of y also when y/x underflows inside math.Atan2
				ref = -ref
			}
		default:
			ref, tol = math.Mod(xs[0], xs[1]), 0
		}
		r := num(0)
		if ulpDiff(r, ref) > tol {
			return fail("%s(%v,%v)=%v want %v", fn, xs[0], xs[1], r, ref)
		}
		if fn == "fmod" && !math.IsNaN(r) {
			// the remainder has the dividend's sign (also for a zero result) and is smaller than the divisor
			if math.Signbit(r) != math.Signbit(xs[0]) || (!math.IsInf(xs[1], 0) && !(math.Abs(r) < math.Abs(xs[1]))) {
				return fail("fmod(%v,%v)=%v breaks the sign/magnitude rule", xs[0], xs[1], r)
			}
		}
	case "ldexp":
		if e := want(1); e != "" {
			return e
		}
		if ref := math.Ldexp(xs[0], int(xs[1])); !sameBits(num(0), ref) {
			return fail("ldexp(%v,%v)=%v want %v", xs[0], xs[1], num(0), ref)
		}
	case "modf":
		if e := want(2); e != "" {
			return e
		}
		x, ip, fp := xs[0], num(0), num(1)
		switch {
		case math.IsNaN(x):
			if !math.IsNaN(ip) || !math.IsNaN(fp) {
				return fail("modf(nan)=%v,%v", ip, fp)
			}
		case math.IsInf(x, 0):
			if ip != x || fp != 0 || math.Signbit(fp) != math.Signbit(x) {
				return fail("modf(%v)=%v,%v want %v,±0", x, ip, fp, x)
			}
		default:
			if ip != math.Trunc(x) || math.Signbit(ip) != math.Signbit(x) || !(math.Abs(fp) < 1) || ip+fp != x ||
				math.Signbit(fp) != math.Signbit(x) || fp != x-ip {
				return fail("modf(%v)=%v,%v does not recompose", x, ip, fp)
			}
		}
	case "frexp":
		if e := want(2); e != "" {
			return e
		}
		x, m, e := xs[0], num(0), num(1)
		switch {
		case math.IsNaN(x):
			if !math.IsNaN(m) {
				return fail("frexp(nan)=%v,%v", m, e)
			}
		case math.IsInf(x, 0) || x == 0:
			if !sameBits(m, x) || e != 0 {
				return fail("frexp(%v)=%v,%v", x, m, e)
			}
		default:
			if !(0.5 <= math.Abs(m) && math.Abs(m) < 1) || e != math.Trunc(e) || !sameBits(math.Ldexp(m, int(e)), x) {
				return fail("frexp(%v)=%v,%v does not recompose", x, m, e)
			}
		}
	case "max", "min":
		if e := want(1); e != "" {
			return e
		}
		r := num(0)
		// the definition (lmathlib.c math_max/math_min): start with the first argument, replace it by a later one only
		// when that one compares strictly greater/smaller — which also fixes the result for NaNs (a NaN never
		// replaces anything, a leading NaN stays) and for zeros of different sign (the earlier one stays)
		ref := xs[0]
		for _, x := range xs[1:] {
			if (fn == "max" && x > ref) || (fn == "min" && x < ref) {
				ref = x
			}
		}
		if !sameBits(r, ref) {
			return fail("%s%v=%v(bits_%x) want %v(bits_%x)", fn, xs, r, math.Float64bits(r), ref, math.Float64bits(ref))
		}
		hasNaN := false
		for _, x := range xs {
			hasNaN = hasNaN || math.IsNaN(x)
		}
		if hasNaN {
			break
		}
		isArg := false
		for _, x := range xs {
			isArg = isArg || r == x
			if (fn == "max" && x > r) || (fn == "min" && x < r) {
				return fail("%s%v=%v does not bound %v", fn, xs, r, x)
			}
		}
		if !isArg {
			return fail("%s%v=%v is not an argument", fn, xs, r)
		}
	case "random":
		if e := want(1); e != "" {
			return e
		}
		if r := num(0); !(0 <= r && r < 1) {
			return fail("random()=%v outside [0,1)", r)
		}
	default:
		return "FAIL:harness-unknown-function-" + fn
	}
	return "ok"
}

// fmtOracle renders a whole format string with the C oracle; args are the Lua values.
func fmtOracle(format string, args []lua.LValue) (string, bool) {
	var sb strings.Builder
	ai := 0
	for i := 0; i < len(format); i++ {
		c := format[i]
		if c != '%' {
			sb.WriteByte(c)
			continue
		}
		i++
		if i < len(format) && format[i] == '%' {
			sb.WriteByte('%')
			continue
		}
		d := cDirective{Width: -1, Prec: -1}
	flags:
		for ; i < len(format); i++ {
			switch format[i] {
			case '-':
				d.Minus = true
			case '+':
				d.Plus = true
			case ' ':
				d.Space = true
			case '#':
				d.Sharp = true
			case '0':
				d.Zero = true
			default:
				break flags
			}
		}
		for k := 0; k < 2 && i < len(format) && format[i] >= '0' && format[i] <= '9'; k, i = k+1, i+1 {
			if d.Width < 0 {
				d.Width = 0
			}
			d.Width = d.Width*10 + int(format[i]-'0')
		}
		if i < len(format) && format[i] == '.' {
			i++
			d.Prec = 0
			for k := 0; k < 2 && i < len(format) && format[i] >= '0' && format[i] <= '9'; k, i = k+1, i+1 {
				d.Prec = d.Prec*10 + int(format[i]-'0')
			}
		}
		if i >= len(format) || ai >= len(args) {
			return "", false
		}
		d.Verb = format[i]
		a := args[ai]
		ai++
		switch d.Verb {
		case 'd', 'i', 'x', 'X', 'o':
			f, ok := numArg(a)
			if !ok {
				return "", false
			}
			sb.WriteString(cFormatInt(d, int64(f)))
		case 'c':
			f, ok := numArg(a)
			if !ok {
				return "", false
			}
			sb.WriteString(cFormatStr(d, string([]byte{byte(int64(f))})))
		case 'e', 'E', 'f':
			f, ok := numArg(a)
			if !ok {
				return "", false
			}
			sb.WriteString(cFormatFloat(d, f))
		case 's':
			s, ok := a.(lua.LString)
			if !ok {
				return "", false
			}
			sb.WriteString(cFormatStr(d, string(s)))
		default:
			return "", false
		}
	}
	return sb.String(), true
}

func execC15(ops []Op) []string {
	w := newC15World()
	defer w.L.Close()
	var out []string
	for _, op := range ops {
		a := op.Args
		name := a[0]
		req := "C15 " + strings.Join(a, " ")
		// copies of the string arguments: a library function must never modify its argument in place
		var strArgs []lua.LString
		var copies []string
		keep := func(vs []lua.LValue) {
			for _, v := range vs {
				if s, ok := v.(lua.LString); ok {
					strArgs = append(strArgs, s)
					copies = append(copies, string(append([]byte(nil), string(s)...)))
				}
			}
		}
		switch name {
		case "sub", "byte", "find", "char", "len", "rep", "reverse", "upper", "lower":
			vs := trimArgs(a[1:])
			keep(vs)
			res, bad := w.call("string."+name, vs...)
			out = append(out, req+" => "+encResults(res, bad))
		case "fmt":
			vs := trimArgs(a[1:])
			keep(vs)
			res, bad := w.call("string.format", vs...)
			got := encResults(res, bad)
			if bad == "" && (len(res) != 1 || res[0].Type() != lua.LTString) {
				got = "malformed"
			}
			oracle, ok := fmtOracle(string(vs[0].(lua.LString)), vs[1:])
			o := "none"
			if ok {
				o = encStr(oracle)
			}
			out = append(out, req+" => "+got+" "+o)
		case "max", "min":
			res, bad := w.call("math."+name, trimArgs(a[1:])...)
			out = append(out, req+" => "+encResults(res, bad))
		case "fmod", "mod":
			res, bad := w.call("math."+name, trimArgs(a[1:])...)
			out = append(out, req+" => "+encResults(res, bad))
		case "random1", "random2":
			res, bad := w.call("math.random", trimArgs(a[1:])...)
			out = append(out, req+" => "+encResults(res, bad))
		case "gochk":
			out = append(out, req+" => "+w.goChk(a[1], a[2:]))
		case "sp":
			for _, t := range a[2:] {
				if t[0] == 's' {
					keep([]lua.LValue{c15Dec(t)})
				}
			}
			out = append(out, req+" => "+w.execSp(a))
		default:
			panic("bad op " + name)
		}
		for i, s := range strArgs {
			if string(s) != copies[i] {
				out = append(out, "X string-argument-modified-in-place => "+req)
			}
		}
	}
	return out
}

// ---------- generators ----------

var c15Alphabet = []byte{0x00, 0x41, 0x61, 0x7f, 0x80, 0xff}

func allStrings(maxLen int) []string {
	res := []string{""}
	prev := []string{""}
	for l := 1; l <= maxLen; l++ {
		var cur []string
		for _, p := range prev {
			for _, b := range c15Alphabet {
				cur = append(cur, p+string([]byte{b}))
			}
		}
		res = append(res, cur...)
		prev = cur
	}
	return res
}

func itok(i int) string { return "i" + strconv.Itoa(i) }

func relClass(i, l int) string {
	switch {
	case i < -l-1:
		return "<-l-1"
	case i == -l-1:
		return "-l-1"
	case i == -l:
		return "-l"
	case i < -1:
		return "neg"
	case i == -1:
		return "-1"
	case i == 0:
		return "0"
	case i == 1:
		return "1"
	case i < l:
		return "mid"
	case i == l:
		return "l"
	case i == l+1:
		return "l+1"
	default:
		return ">l+1"
	}
}

// substrings of s plus a few patterns that do not occur / are longer than s
func findPatterns(s string) []string {
	seen := map[string]bool{}
	var res []string
	add := func(p string) {
		if !seen[p] {
			seen[p] = true
			res = append(res, p)
		}
	}
	for i := 0; i <= len(s); i++ {
		for j := i; j <= len(s); j++ {
			add(s[i:j])
		}
	}
	add("\x7f\x00")
	add("a")
	add(s + "A")
	add("\xffA\x80\x00")
	return res
}

func genC15Exhaustive(run *Run, maxLen int, subsample *Rng, keepPct int) []Case {
	var cases []Case
	idx := 0
	for _, s := range allStrings(maxLen) {
		l := len(s)
		st := encStr(s)
		var sub, byt, fnd []Op
		for i := -l - 2; i <= l+2; i++ {
			for j := -l - 2; j <= l+2; j++ {
				if subsample != nil && !subsample.Chance(keepPct) {
					continue
				}
				sub = append(sub, Op{Args: []string{"sub", st, itok(i), itok(j)}})
				byt = append(byt, Op{Args: []string{"byte", st, itok(i), itok(j)}})
				run.Distinct[fmt.Sprintf("ij len%d %s %s", l, relClass(i, l), relClass(j, l))] = true
			}
			sub = append(sub, Op{Args: []string{"sub", st, itok(i), "-"}})
			byt = append(byt, Op{Args: []string{"byte", st, itok(i), "-"}})
			byt = append(byt, Op{Args: []string{"byte", st, "-", itok(i)}})
		}
		byt = append(byt, Op{Args: []string{"byte", st, "-", "-"}})
		for _, p := range findPatterns(s) {
			pt := encStr(p)
			for i := -l - 2; i <= l+2; i++ {
				if subsample != nil && !subsample.Chance(keepPct) {
					continue
				}
				fnd = append(fnd, Op{Args: []string{"find", st, pt, itok(i), "T"}})
				run.Distinct[fmt.Sprintf("find len%d plen%d %s", l, len(p), relClass(i, l))] = true
				// without `plain`: patterns free of magic characters (and of \0) search plainly too
				if !strings.ContainsAny(p, "\x00^$()%.[]*+-?") {
					fnd = append(fnd, Op{Args: []string{"find", st, pt, itok(i), "-"}})
				}
			}
			fnd = append(fnd, Op{Args: []string{"find", st, pt, "-", "-"}})
			fnd = append(fnd, Op{Args: []string{"find", st, pt, "-", "T"}})
		}
		for _, ops := range [][]Op{sub, byt, fnd} {
			if len(ops) > 0 {
				cases = append(cases, Case{Idx: idx, Ops: ops})
				idx++
			}
		}
	}
	return cases
}

func genC15Bytes() []Case {
	var ops []Op
	add := func(args ...string) { ops = append(ops, Op{Args: args}) }
	all := make([]byte, 256)
	for b := 0; b < 256; b++ {
		all[b] = byte(b)
		one := encStr(string([]byte{byte(b)}))
		three := encStr(string([]byte{byte(b), 0x41, byte(b ^ 0xff)}))
		add("char", itok(b))
		add("byte", one, "-", "-")
		add("byte", three, "i1", "i-1")
		add("upper", one)
		add("lower", one)
		add("upper", three)
		add("lower", three)
		add("reverse", three)
		add("rep", one, "i3")
		add("rep", three, "i2")
		add("len", three)
		add("sub", three, "i1", "i1")
		add("sub", three, "i-1", "-")
		add("find", three, one, "-", "T")
		add("fmt", encStr("%c"), itok(b))
		add("fmt", encStr("%3c|%-3c|"), itok(b), itok(b))
	}
	whole := encStr(string(all))
	for _, f := range []string{"upper", "lower", "reverse", "len"} {
		add(f, whole)
	}
	add("byte", whole, "i1", "i-1")
	add("sub", whole, "i129", "i-1")
	add("rep", whole, "i2")
	var allCodes []string
	for b := 0; b < 256; b++ {
		allCodes = append(allCodes, itok(b))
	}
	add(append([]string{"char"}, allCodes...)...)
	for _, c := range []int{-1, 256, 257, -256, 1 << 31, -(1 << 31), 65536} {
		add("char", itok(c))
		add("char", "i65", itok(c), "i66")
	}
	add("char")
	for _, n := range []string{"i0", "i-1", "i-5", "i1", "i2", "i7", "i4611686018427387904", "i-4611686018427387904"} {
		add("rep", encStr("ab"), n)
		add("rep", encStr(""), n)
	}
	// one case per 64 ops so that a failure shrinks quickly
	var cases []Case
	for i := 0; i < len(ops); i += 64 {
		j := i + 64
		if j > len(ops) {
			j = len(ops)
		}
		cases = append(cases, Case{Idx: 100000 + i/64, Ops: ops[i:j]})
	}
	return cases
}

func randBytes(r *Rng, n int) string {
	b := make([]byte, n)
	for i := range b {
		switch c := r.Intn(10); {
		case c < 4:
			b[i] = Pick(r, c15Alphabet)
		case c < 7:
			b[i] = byte('a' + r.Intn(4))
		default:
			b[i] = byte(r.Intn(256))
		}
	}
	return string(b)
}

func boundaryIndex(r *Rng, l int) int {
	switch c := r.Intn(100); {
	case c < 55:
		return r.Range(-l-3, l+3)
	case c < 70:
		return Pick(r, []int{0, 1, -1, l, l + 1, -l, -l - 1, l + 2, -l - 2})
	case c < 85:
		return Pick(r, []int{1 << 31, -(1 << 31), 1<<31 - 1, 1 << 32, -(1 << 32), 1 << 53, -(1 << 53), 1000, -1000})
	default:
		return r.Range(-2*l-5, 2*l+5)
	}
}

func optTok(r *Rng, pct int, v int) string {
	if r.Chance(pct) {
		return "-"
	}
	return itok(v)
}

func genC15RandomStrings(run *Run, r *Rng, nops int) []Op {
	var ops []Op
	add := func(args ...string) { ops = append(ops, Op{Args: args}) }
	for len(ops) < nops {
		l := Pick(r, []int{0, 1, 2, 3, 4, 5, 8, 13, 31, 40})
		s := randBytes(r, l)
		st := encStr(s)
		switch c := r.Intn(100); {
		case c < 25:
			add("sub", st, itok(boundaryIndex(r, l)), optTok(r, 20, boundaryIndex(r, l)))
		case c < 50:
			i, j := optTok(r, 20, boundaryIndex(r, l)), optTok(r, 30, boundaryIndex(r, l))
			add("byte", st, i, j)
		case c < 80:
			var p string
			switch m := r.Intn(10); {
			case m < 5 && l > 0:
				a := r.Intn(l)
				p = s[a : a+r.Intn(l-a)+1]
			case m < 6:
				p = ""
			default:
				p = randBytes(r, r.Range(1, 3))
			}
			plain := "T"
			if !strings.ContainsAny(p, "\x00^$()%.[]*+-?") && r.Chance(30) {
				plain = Pick(r, []string{"-", "F"})
			}
			add("find", st, encStr(p), optTok(r, 15, boundaryIndex(r, l)), plain)
		case c < 85:
			add("rep", st, itok(r.Range(-2, 5)))
		case c < 90:
			add("reverse", st)
		case c < 94:
			add(Pick(r, []string{"upper", "lower"}), st)
		case c < 97:
			add("len", st)
		default:
			var cs []string
			for k := r.Intn(6); k > 0; k-- {
				if r.Chance(8) {
					cs = append(cs, itok(Pick(r, []int{-1, 256, 300, -200})))
				} else {
					cs = append(cs, itok(r.Intn(256)))
				}
			}
			add(append([]string{"char"}, cs...)...)
		}
	}
	return ops
}

// ---- format ----

var fmtIntVals = []float64{0, 1, -1, 7, 42, -42, 255, 256, 65535, -65536, 1e15, -1e15, 9007199254740992, -9007199254740992,
	2147483647, -2147483648, 4294967296, 3.7, -3.7, 0.5, -0.5, 99.99}
var fmtFloatVals = []float64{0, math.Copysign(0, -1), 1, -1, 0.5, 1.5, 2.5, 12345.678, -12345.678, 1e-5, 1e300, 5e-324,
	2.2250738585072014e-308, 0.1, 99.995, 9.9999995, 1e21, 123456789012345678, 0.000123456, 1e15, 999999.9999995,
	math.MaxFloat64, math.Inf(1), math.Inf(-1), math.NaN()}
var fmtStrVals = []string{"", "a", "abc", "hello world", "\xc3\xa9t\xc3\xa9", "\xff\x80x", "tab\there"}

func genDirective(r *Rng, verb byte) cDirective {
	for {
		d := cDirective{Width: -1, Prec: -1, Verb: verb}
		fl := r.Intn(32)
		if r.Chance(40) {
			fl = 1 << uint(r.Intn(5)) // exactly one flag
		}
		if r.Chance(25) {
			fl = 0
		}
		d.Minus, d.Plus, d.Space, d.Sharp, d.Zero = fl&1 != 0, fl&2 != 0, fl&4 != 0, fl&8 != 0, fl&16 != 0
		if r.Chance(60) {
			d.Width = Pick(r, []int{1, 2, 3, 5, 8, 12, 20, 25, 99})
		}
		if r.Chance(50) {
			d.Prec = Pick(r, []int{0, 1, 2, 3, 6, 10, 17, 20, 40})
		}
		if cDefined(d) {
			return d
		}
	}
}

// fltTok: a finite float argument of e/E/f travels with the C oracle's rendering of its directive, so that the
// Lean side can assemble the whole expected string (digits of finite floats are never computed in Lean)
func fltTok(d cDirective, f float64) string {
	if math.IsNaN(f) || math.IsInf(f, 0) {
		return c15Num(f)
	}
	return "g" + strconv.FormatUint(math.Float64bits(f), 10) + ":" + hex.EncodeToString([]byte(cFormatFloat(d, f)))
}

func genFmtArg(r *Rng, d cDirective) string {
	verb := d.Verb
	switch verb {
	case 'd', 'i', 'x', 'X', 'o':
		switch c := r.Intn(100); {
		case c < 60:
			return c15Num(Pick(r, fmtIntVals))
		case c < 85:
			return encNum(float64(int64(r.U64()>>uint(r.Intn(60))) - int64(r.U64()>>uint(10+r.Intn(50)))))
		case c < 93:
			return encStr(strconv.Itoa(r.Range(-300, 70000))) // numeric string: converted like a number
		default:
			return encNum(float64(r.Range(-1000, 1000)) + 0.25)
		}
	case 'c':
		return itok(r.Intn(256))
	case 'e', 'E', 'f':
		switch c := r.Intn(100); {
		case c < 55:
			return fltTok(d, Pick(r, fmtFloatVals))
		case c < 90:
			f := math.Float64frombits(r.U64())
			if math.IsNaN(f) {
				f = 1.25
			}
			if verb == 'f' && math.Abs(f) > 1e60 { // keep %f outputs short
				f = math.Mod(f, 1e18)
			}
			return fltTok(d, f)
		default:
			return fltTok(d, float64(r.Range(-100000, 100000))/Pick(r, []float64{1, 2, 8, 10, 1000}))
		}
	default:
		return encStr(Pick(r, fmtStrVals))
	}
}

func genC15Format(run *Run, r *Rng, nops int) []Op {
	var ops []Op
	verbs := []byte("dixXoeEfsc")
	for len(ops) < nops {
		ndir := 1
		if r.Chance(25) {
			ndir = r.Range(2, 3)
		}
		var sb strings.Builder
		var args []string
		for k := 0; k < ndir; k++ {
			if r.Chance(30) {
				sb.WriteString(Pick(r, []string{"x=", " ", "%%", "|", "a%%b", "\x00"}))
			}
			v := Pick(r, verbs)
			d := genDirective(r, v)
			sb.WriteString(d.String())
			args = append(args, genFmtArg(r, d))
			run.Distinct[fmt.Sprintf("fmt %c m%v p%v s%v h%v z%v w%v p%v", v, d.Minus, d.Plus, d.Space, d.Sharp, d.Zero, d.Width >= 0, d.Prec >= 0)] = true
		}
		if r.Chance(15) {
			sb.WriteString(Pick(r, []string{"%%", " end", "\n"}))
		}
		switch c := r.Intn(100); {
		case c < 4 && len(args) > 0:
			args = args[:len(args)-1] // one argument short: must be an error
		case c < 10:
			args = append(args, "i5") // extra arguments are ignored
		}
		ops = append(ops, Op{Args: append([]string{"fmt", encStr(sb.String())}, args...)})
	}
	return ops
}

// the full grid (thorough tier): every verb x flag set x width x precision x value
func genC15FormatGrid() []Case {
	var cases []Case
	idx := 300000
	for _, verb := range []byte("dixXoeEfsc") {
		for fl := 0; fl < 32; fl++ {
			var ops []Op
			for _, wd := range []int{-1, 1, 5, 12} {
				for _, p := range []int{-1, 0, 1, 3, 10} {
					d := cDirective{fl&1 != 0, fl&2 != 0, fl&4 != 0, fl&8 != 0, fl&16 != 0, wd, p, verb}
					if !cDefined(d) {
						continue
					}
					f := encStr(d.String())
					switch verb {
					case 'd', 'i', 'x', 'X', 'o':
						for _, v := range fmtIntVals {
							ops = append(ops, Op{Args: []string{"fmt", f, c15Num(v)}})
						}
					case 'e', 'E', 'f':
						for _, v := range fmtFloatVals {
							ops = append(ops, Op{Args: []string{"fmt", f, fltTok(d, v)}})
						}
					case 's':
						for _, s := range fmtStrVals {
							ops = append(ops, Op{Args: []string{"fmt", f, encStr(s)}})
						}
					case 'c':
						for _, c := range []int{65, 0, 200, 255, 10} {
							ops = append(ops, Op{Args: []string{"fmt", f, itok(c)}})
						}
					}
				}
			}
			for _, op := range ops {
				cases = append(cases, Case{Idx: idx, Ops: []Op{op}})
				idx++
			}
		}
	}
	return cases
}

// ---- math ----

var mathGrid = []float64{0, math.Copysign(0, -1), 1, -1, 0.5, -0.5, 1.5, -1.5, 2, -2, 2.5, 3, -3, 10, 100, 0.1, -0.1, 1e-10,
	5e-324, -5e-324, 2.2250738585072014e-308, 2.2250738585072009e-308, 1e-300, 1e300, -1e300, math.MaxFloat64, -math.MaxFloat64,
	4503599627370496.5, 9007199254740992, -9007199254740993, 1e15 + 0.5, 3e306, 1e308, math.Pi, -math.Pi, math.E, 710, -745, 0.3,
	1.0000000000000002, 0.9999999999999999, 123456.789, -123456.789, math.Inf(1), math.Inf(-1), math.NaN()}

func gridVal(r *Rng) float64 {
	switch c := r.Intn(100); {
	case c < 55:
		return Pick(r, mathGrid)
	case c < 75:
		f := math.Float64frombits(r.U64())
		if math.IsNaN(f) {
			return 0.75
		}
		return f
	case c < 90:
		return float64(r.Range(-1000, 1000)) / Pick(r, []float64{1, 2, 3, 7, 10, 64})
	default:
		return math.Ldexp(float64(r.Range(-9, 9)), r.Range(-1080, 1030))
	}
}

func numTok(r *Rng, f float64) string {
	// argument coercion: now and then the number travels as a numeric string (exactly representable ones only)
	if r.Chance(8) && f == math.Trunc(f) && math.Abs(f) < 1e9 {
		return encStr(strconv.FormatInt(int64(f), 10))
	}
	if r.Chance(3) && f == 0.5 {
		return encStr("0.5")
	}
	return c15Num(f)
}

func genC15Math(run *Run, r *Rng, nops int) []Op {
	var ops []Op
	add := func(args ...string) {
		ops = append(ops, Op{Args: args})
		run.Distinct["math "+args[0]+" "+args[1]] = true
	}
	one := []string{"floor", "ceil", "abs", "sqrt", "exp", "log", "log10", "sin", "cos", "tan", "asin", "acos", "atan", "sinh", "cosh", "tanh", "deg", "rad", "modf", "frexp"}
	for len(ops) < nops {
		switch c := r.Intn(100); {
		case c < 40:
			add("gochk", Pick(r, one), numTok(r, gridVal(r)))
		case c < 46:
			// pow with integral and half-integral exponents over the whole exponent range of the base: results (and
			// intermediate powers, for an implementation that takes a shortcut) cross the overflow, underflow and
			// subnormal boundaries in both directions
			base := math.Ldexp(float64(r.Range(1, 15))/Pick(r, []float64{1, 2, 3, 8}), r.Range(-1074, 1023))
			if r.Chance(30) {
				base = math.Pow(10, float64(r.Range(-300, 300)))
			}
			if r.Chance(25) {
				base = -base
			}
			y := float64(r.Range(-70, 70))
			if r.Chance(20) {
				y += 0.5
			}
			if r.Chance(60) {
				// aim at a boundary: |y| * log2|base| within ±45 of the overflow (1024), the smallest normal (1022)
				// and the smallest subnormal (1074) exponents, for positive and negative y
				k := r.Range(1, 66)
				target := Pick(r, []int{1024, 1022, 1074}) + r.Range(-45, 45)
				e := target / k
				if r.Bool() {
					e = -e
				}
				base = math.Ldexp(float64(r.Range(8, 15))/8, e)
				y = float64(k)
				if r.Bool() {
					y = -y
				}
			}
			add("gochk", "pow", c15Num(base), c15Num(y))
		case c < 52:
			add("gochk", Pick(r, []string{"pow", "atan2", "fmod"}), numTok(r, gridVal(r)), numTok(r, gridVal(r)))
		case c < 57:
			add("gochk", "ldexp", numTok(r, gridVal(r)), itok(Pick(r, []int{0, 1, -1, 10, -10, 52, 53, 1023, 1024, -1022, -1074, -1075, 2000, -2200, r.Range(-1100, 1100)})))
		case c < 67: // max/min over float lists (contract checked in Go)
			n := r.Range(1, 6)
			args := []string{"gochk", Pick(r, []string{"max", "min"})}
			for k := 0; k < n; k++ {
				if r.Chance(25) { // NaNs, zeros of both signs and infinities in every position
					args = append(args, c15Num(Pick(r, []float64{math.NaN(), 0, math.Copysign(0, -1), math.Inf(1), math.Inf(-1), 1, -1})))
					continue
				}
				args = append(args, numTok(r, gridVal(r)))
			}
			add(args...)
		case c < 77: // max/min over exact integers (Model fold and Spec in Lean)
			n := r.Range(0, 6)
			if r.Chance(90) && n == 0 {
				n = 1
			}
			args := []string{Pick(r, []string{"max", "min"})}
			for k := 0; k < n; k++ {
				args = append(args, itok(Pick(r, []int{r.Range(-5, 5), r.Range(-1000, 1000), 1 << 40, -(1 << 40)})))
			}
			ops = append(ops, Op{Args: args})
			run.Distinct[fmt.Sprintf("math %s n%d", args[0], n)] = true
		case c < 85: // fmod / mod on exact integers
			x := Pick(r, []int{r.Range(-20, 20), r.Range(-100000, 100000), 1 << 45, -(1 << 45)})
			y := Pick(r, []int{r.Range(1, 9), -r.Range(1, 9), r.Range(-1000, 1000), 1 << 30})
			if y == 0 {
				y = 3
			}
			f := Pick(r, []string{"fmod", "fmod", "mod"})
			ops = append(ops, Op{Args: []string{f, itok(x), itok(y)}})
			run.Distinct[fmt.Sprintf("math %s sx%v sy%v", f, x < 0, y < 0)] = true
		case c < 96:
			if r.Chance(25) {
				// bounds more than 2^63 apart (all exactly representable as float64): an interval wider than the largest
				// int yields a value of it (Lua's float64 formula), the reversed pair is an empty interval
				lo := Pick(r, []int{-(1 << 62), -(1 << 63), -(1 << 62) - 1024, -(1 << 62) - (1 << 61), -(1 << 63) + 2048})
				hi := Pick(r, []int{1 << 62, (1 << 63) - 1024, (1 << 62) + 1024, (1 << 62) + (1 << 61), (1 << 62) + (r.Range(0, 1000) << 10)})
				if r.Chance(25) {
					lo, hi = hi, lo
				}
				if r.Chance(15) {
					lo, hi = Pick(r, []int{-(1 << 63), -(1 << 63) + 1024}), Pick(r, []int{-1, 0, 1, 1024})
				}
				ops = append(ops, Op{Args: []string{"random2", itok(lo), itok(hi)}})
				run.Distinct[fmt.Sprintf("math random2 wide empty=%v", lo > hi)] = true
				break
			}
			m := Pick(r, []int{r.Range(-5, 5), r.Range(-1000, 1000), 0, 1, -(1 << 31), 1 << 40})
			span := Pick(r, []int{0, 0, 1, 2, 5, 100, 1 << 20, -1, -3})
			ops = append(ops, Op{Args: []string{"random2", itok(m), itok(m + span)}})
			run.Distinct[fmt.Sprintf("math random2 span%d", span)] = true
		case c < 99:
			ops = append(ops, Op{Args: []string{"random1", itok(Pick(r, []int{1, 1, 2, 3, 10, 1000, 1 << 31, 0, -1}))}})
			run.Distinct["math random1"] = true
		default:
			add("gochk", "random")
		}
	}
	return ops
}

func chunk(ops []Op, n int, base int) []Case {
	var cases []Case
	for i := 0; i < len(ops); i += n {
		j := i + n
		if j > len(ops) {
			j = len(ops)
		}
		cases = append(cases, Case{Idx: base + i/n, Ops: ops[i:j]})
	}
	return cases
}

func init() { props["C15"] = runC15 }

func runC15(run *Run) {
	thorough := run.Tier == "thorough"
	run.Rule = "TESTS (not proofs), all replayed on the Lean Model (exact) and Spec: (1) bounded-exhaustive: every string of length <= 3 (thorough tier: <= 4) over " +
		"{00,41,61,7f,80,ff} x every (i,j) in [-len-2,len+2]^2 (+ absent j / absent i) through string.sub and string.byte, and x every " +
		"substring / non-occurring pattern x every init in the window through string.find (plain=true, and plain omitted for magic-free patterns); " +
		"(2) all 256 byte values through char/byte/upper/lower/reverse/rep/len/sub/find/%c; (3) seeded random strings (len <= 40) with boundary, " +
		"huge (2^31, 2^53) and absent indices; (4) generated format strings (1-3 directives, literal text, %%, flags x width x precision inside " +
		"the domain ISO C defines) x integer / non-integral / numeric-string / float (signed zero, subnormal, huge, inf, NaN) / string arguments " +
		"against a hand-written C printf oracle in Go AND (integer, char, string conversions) against the Lean C rendering; (5) math functions on a " +
		"float grid (signed zeros, subnormals, huge, NaN, infinities, non-integral exponents, numeric strings) against Go's math (exact or <= 1 ulp) " +
		"with the contracts checked in Go (max/min bound all arguments and are one of them, fmod sign/magnitude, modf/frexp recompose exactly), " +
		"max/min/fmod/mod on exact integers and random(m,n)/random(n) draws in Lean; (6) bounded-exhaustive SPECIAL OPERANDS: every one-argument math " +
		"function x {+-0, +-1, +-2, +-3, +-6, +-0.5, +-2.5, +-inf, NaN, +-2^53, +-2^63, smallest/largest subnormal, smallest normal, largest finite}, " +
		"every two-argument function (fmod, pow, atan2, ldexp, math.mod and the % operator) x every PAIR of them, max/min x every pair and every " +
		"triple over {+-0, +-1, +-inf, NaN}, the same operands spelled as numeric strings (argument coercion, tonumber) and through string.format; " +
		"every number travels as its IEEE bit pattern and is compared BIT-EXACTLY (sign of zero; NaNs as a class) with the Lean Model (the " +
		"wrappers over exact IEEE-754 arithmetic on bit patterns; for transcendental functions Go's own function) and with the C99 Annex F / " +
		"Lua 5.1 definitions in Lean (exact for floor ceil fabs sqrt fmod modf frexp ldexp %, special-value tables + sign/kind for the rest). distinct = distinct (function, length, index-class pair) / " +
		"(verb, flag set, width?, precision?) / (math function) shapes exercised"
	run.Assume = []string{
		"Go int is modelled as unbounded Int in the string functions: positions stay below 2^62 in absolute value",
		"non-plain string.find is only exercised with patterns free of magic characters; pm.Find on such a pattern is assumed to find the first occurrence (C14)",
		"digits of %e %E %f come from strconv.FormatFloat on both sides (trusted to round correctly); everything else of the C rendering is written by hand",
		"format directives outside the domain ISO C defines (# or 0 with c/s, # with d/i, precision with c) and malformed format strings are not generated",
		"%s arguments contain no NUL (Lua 5.1 itself truncates short strings there)",
		"IEEE results of floor/ceil/sqrt/exp/log/pow/trig are Go's math (trusted); only the wrappers' argument order, arity and coercion are modelled",
		"the harness is built against a tree with fixes/C15-*.diff applied (see notes/C15.md)",
		"special operands: where C99 / the manual fix nothing the Spec compares nothing (frexp's exponent of inf/NaN, ldexp with a non-integral or out-of-int-range exponent, max/min with a NaN argument, accuracy of transcendental functions beyond sign, kind and range); the Model comparison is bit-exact everywhere",
	}
	run.Trusted = append(run.Trusted, "Go strconv.FormatFloat/FormatUint rounding and digits", "Go math as IEEE oracle", "math/big for the deg/rad reference",
		"Go float64 operators and math.Floor/Ceil/Abs/Sqrt/Mod/Modf/Frexp/Ldexp = the IEEE-754 operations of lean/GLua/Spec/MathIEEE.lean (re-checked on every special-operand request: the Go reference must equal the Lean result bit for bit)",
		"tools/extract extra.go: Go-subset → Lean translation of luaIndex2StringIndex, intMin, intMax")
	root := NewRng(uint64(run.Seed))
	var cases []Case
	// the ops are stateless and runCases looks at the first non-ok verdict of a case only: ops that can fall into a
	// known-finding class (corpus, format) travel one per case, so that a tagged finding never hides a later failure
	ci := 0
	for _, c := range loadCorpus("C15") {
		for _, op := range c {
			ci++
			cases = append(cases, Case{Idx: -ci, Ops: []Op{op}, Note: "corpus"})
		}
	}
	// (1) exhaustive window: every string of length <= 3 (thorough: <= 4), every (i,j), every init
	if thorough {
		cases = append(cases, genC15Exhaustive(run, 4, nil, 100)...)
	} else {
		cases = append(cases, genC15Exhaustive(run, 3, nil, 100)...)
	}
	// (2)
	cases = append(cases, genC15Bytes()...)
	// (3) (4) (5)
	nStr, nFmt, nMath := 15000, 15000, 10000
	if thorough {
		nStr, nFmt, nMath = 300000, 300000, 200000
		cases = append(cases, genC15FormatGrid()...)
	}
	cases = append(cases, chunk(genC15RandomStrings(run, root.Fork(1), nStr), 50, 200000)...)
	// integer positions and counts given as STRINGS (CheckInt / OptInt convert a numeral, Lua §2.2.1; repaired finding
	// C15-int-arg-no-string-coercion): sub (i, j), byte (i, j), rep (n), find (init) with decimal numerals in several
	// spellings — bare, blank-padded, `.0`, exponent — and with strings that are a numeral in no reading (type error).
	// Only numerals inside the subset StrModel.checkIntStr models are sent (no hexadecimal, no non-integral value).
	{
		r := root.Fork(4)
		var ops []Op
		numeral := func(v int) string {
			d := strconv.Itoa(v)
			switch c := r.Intn(100); {
			case c < 50:
				return encStr(d)
			case c < 62:
				return encStr(" " + d + " \t")
			case c < 72:
				return encStr(d + ".0")
			case c < 80:
				return encStr(d + "e0")
			case c < 86 && v >= 0:
				return encStr("+" + d)
			case c < 92:
				return encStr(Pick(r, []string{"", "x", "1x", "-", "--1", "2 3", "1e", "."}))
			}
			return itok(v)
		}
		nq := 600
		if thorough {
			nq = 20000
		}
		for k := 0; k < nq; k++ {
			l := r.Range(0, 6)
			b := randBytes(r, l)
			st := encStr(b)
			switch c := r.Intn(100); {
			case c < 40:
				jt := "-"
				if r.Chance(60) {
					jt = numeral(boundaryIndex(r, l))
				}
				ops = append(ops, Op{Args: []string{"sub", st, numeral(boundaryIndex(r, l)), jt}})
				run.Distinct["int-arg-as-string sub"] = true
			case c < 60:
				it, jt := "-", "-"
				if r.Chance(80) {
					it = numeral(r.Range(-l-2, l+2))
					if r.Chance(60) {
						jt = numeral(r.Range(-l-2, l+2))
					}
				}
				ops = append(ops, Op{Args: []string{"byte", st, it, jt}})
				run.Distinct["int-arg-as-string byte"] = true
			case c < 80:
				ops = append(ops, Op{Args: []string{"rep", st, numeral(r.Range(-2, 5))}})
				run.Distinct["int-arg-as-string rep"] = true
			default:
				pat := ""
				if l > 0 {
					a := r.Range(0, l-1)
					pat = b[a : a+r.Range(0, l-a)]
				}
				ops = append(ops, Op{Args: []string{"find", st, encStr(pat), numeral(r.Range(-l-2, l+2)), "T"}})
				run.Distinct["int-arg-as-string find"] = true
			}
		}
		cases = append(cases, chunk(ops, 50, 250000)...)
	}
	cases = append(cases, chunk(genC15Format(run, root.Fork(2), nFmt), 1, 400000)...)
	{
		// math.mod on exact integers can fall into the known-finding class C15-modulo-ieee-specials (a zero remainder of
		// a negative dividend): those ops travel one per case, like every other finding-prone op
		var bulk, single []Op
		for _, op := range genC15Math(run, root.Fork(3), nMath) {
			if op.Args[0] == "mod" {
				single = append(single, op)
			} else {
				bulk = append(bulk, op)
			}
		}
		cases = append(cases, chunk(bulk, 50, 600000)...)
		cases = append(cases, chunk(single, 1, 650000)...)
	}
	// (6) special operands (signed zeros, infinities, NaN, subnormals, 2^53, 2^63): bounded-exhaustive, bit-exact
	cases = append(cases, genC15Special(run, root.Fork(5), thorough)...)
	cases = append(cases, genC15SpecialFormat(thorough)...)
	runCases(run, cases, execC15, classifyTagged)
	if os.Getenv("C15_DEBUG") != "" {
		n := 0
		for _, f := range run.Failures {
			if n < 400 && f.Finding == "" {
				n++
				fmt.Printf("DEBUG %s case=%d\n  %s\n  -> %s\n", f.Kind, f.CaseIdx, f.Line, f.Reply)
			}
		}
	}
}
