package main

// C15: a C-printf oracle written by hand (ISO C99 7.19.6.1 semantics of one conversion specification as
// string.format of Lua 5.1 uses it: flags "-+ #0", width, precision, conversions d i c x X o e E f s %).
// Go's fmt is NOT used for rendering: digits come from strconv (FormatInt/FormatUint/FormatFloat, trusted to
// round correctly), everything else (sign, prefix, precision, padding, flag interaction) is done here.

import (
	"math"
	"strconv"
	"strings"
)

type cDirective struct {
	Minus, Plus, Space, Sharp, Zero bool
	Width, Prec                     int // -1 = absent
	Verb                            byte
}

func (d cDirective) String() string {
	var sb strings.Builder
	sb.WriteByte('%')
	if d.Minus {
		sb.WriteByte('-')
	}
	if d.Plus {
		sb.WriteByte('+')
	}
	if d.Space {
		sb.WriteByte(' ')
	}
	if d.Sharp {
		sb.WriteByte('#')
	}
	if d.Zero {
		sb.WriteByte('0')
	}
	if d.Width >= 0 {
		sb.WriteString(strconv.Itoa(d.Width))
	}
	if d.Prec >= 0 {
		sb.WriteByte('.')
		sb.WriteString(strconv.Itoa(d.Prec))
	}
	sb.WriteByte(d.Verb)
	return sb.String()
}

// cPad applies width: left-justified with blanks, zero padding between (sign+prefix) and digits, else blanks on the left.
func cPad(d cDirective, head, body string, zeroOK bool) string {
	n := len(head) + len(body)
	if d.Width < 0 || n >= d.Width {
		return head + body
	}
	fill := d.Width - n
	switch {
	case d.Minus:
		return head + body + strings.Repeat(" ", fill)
	case d.Zero && zeroOK:
		return head + strings.Repeat("0", fill) + body
	default:
		return strings.Repeat(" ", fill) + head + body
	}
}

// cFormatInt renders d i (signed) and x X o (unsigned, two's complement of the int64) for an int64 argument.
func cFormatInt(d cDirective, v int64) string {
	var digits, sign, prefix string
	switch d.Verb {
	case 'd', 'i':
		u := uint64(v)
		if v < 0 {
			sign = "-"
			u = uint64(-v) // also right for MinInt64
		} else if d.Plus {
			sign = "+"
		} else if d.Space {
			sign = " "
		}
		digits = strconv.FormatUint(u, 10)
	case 'x':
		digits = strconv.FormatUint(uint64(v), 16)
	case 'X':
		digits = strings.ToUpper(strconv.FormatUint(uint64(v), 16))
	case 'o':
		digits = strconv.FormatUint(uint64(v), 8)
	}
	if d.Prec == 0 && v == 0 {
		digits = ""
	}
	if d.Prec > len(digits) {
		digits = strings.Repeat("0", d.Prec-len(digits)) + digits
	}
	if d.Sharp {
		switch d.Verb {
		case 'x':
			if v != 0 {
				prefix = "0x"
			}
		case 'X':
			if v != 0 {
				prefix = "0X"
			}
		case 'o':
			if !strings.HasPrefix(digits, "0") {
				digits = "0" + digits
			}
		}
	}
	// the 0 flag is ignored when a precision is given
	return cPad(d, sign+prefix, digits, d.Prec < 0)
}

// cFormatFloat renders e E f for a float64 argument.
func cFormatFloat(d cDirective, x float64) string {
	sign := ""
	if math.Signbit(x) && !math.IsNaN(x) {
		sign = "-"
	} else if d.Plus {
		sign = "+"
	} else if d.Space {
		sign = " "
	}
	if math.IsInf(x, 0) || math.IsNaN(x) {
		body := "inf"
		if math.IsNaN(x) {
			body = "nan"
		}
		if d.Verb == 'E' {
			body = strings.ToUpper(body)
		}
		return cPad(d, sign, body, false)
	}
	prec := d.Prec
	if prec < 0 {
		prec = 6
	}
	ax := math.Abs(x)
	var body string
	switch d.Verb {
	case 'f':
		body = strconv.FormatFloat(ax, 'f', prec, 64)
		if d.Sharp && prec == 0 {
			body += "."
		}
	case 'e', 'E':
		body = strconv.FormatFloat(ax, 'e', prec, 64) // d.ddde±dd, at least two exponent digits as in C
		if d.Sharp && prec == 0 {
			i := strings.IndexByte(body, 'e')
			body = body[:i] + "." + body[i:]
		}
		if d.Verb == 'E' {
			body = strings.ToUpper(body)
		}
	}
	return cPad(d, sign, body, true)
}

// cFormatStr renders s (precision truncates) and c (one byte); the 0 flag has no defined meaning here.
func cFormatStr(d cDirective, s string) string {
	if d.Verb == 's' && d.Prec >= 0 && d.Prec < len(s) {
		s = s[:d.Prec]
	}
	return cPad(d, "", s, false)
}

// cDefined reports whether ISO C defines the behaviour of the flag/precision combination for the conversion
// (the generators stay inside this domain; # and 0 with c/s, # with d/i, precision with c are undefined).
func cDefined(d cDirective) bool {
	switch d.Verb {
	case 'd', 'i':
		return !d.Sharp
	case 'x', 'X', 'o', 'e', 'E', 'f':
		return true
	case 'c':
		return !d.Sharp && !d.Zero && d.Prec < 0
	case 's':
		return !d.Sharp && !d.Zero
	}
	return false
}
