package main

// C15, special-operand family (op `sp`): SIGNED ZEROS, infinities, NaN, subnormals, 2^53, 2^63 as arguments and as
// results of every math function (and of math.mod / the % operator, which share luaModulo, and of the numeric-string
// coercion in front of them), bounded-exhaustively.  Every number travels as its IEEE-754 BIT PATTERN (`b<uint64>`,
// any NaN as `nan`), so no representation on the way can drop the sign of a zero.  The request carries what the real
// function returned and, after `|`, what Go's own math function returns for the same operands (the Model of a thin
// wrapper); the Lean engine (Engines/StrEng.lean, Sp.handle) replays it on the transcribed wrappers over exact IEEE
// arithmetic (Model/MathLib.lean over Spec/MathIEEE.lean) and on the C99 / Lua 5.1 definitions (Spec/MathSpec.lean).

import (
	"fmt"
	"math"
	"strconv"
	"strings"

	lua "github.com/yuin/gopher-lua"
)

func spNum(f float64) string {
	if math.IsNaN(f) {
		return "nan"
	}
	return "b" + strconv.FormatUint(math.Float64bits(f), 10)
}

// argument token: a NaN argument travels as a bit pattern as well (the request side has no `nan` class)
func spArg(f float64) string { return "b" + strconv.FormatUint(math.Float64bits(f), 10) }

func spDecArg(tok string) lua.LValue {
	if tok[0] == 's' {
		return c15Dec(tok)
	}
	b, err := strconv.ParseUint(tok[1:], 10, 64)
	if tok[0] != 'b' || err != nil {
		panic("bad sp token " + tok)
	}
	return lua.LNumber(math.Float64frombits(b))
}

func spEncResults(res []lua.LValue, bad string) string {
	if bad != "" {
		return bad
	}
	parts := make([]string, len(res))
	for i, v := range res {
		if n, ok := v.(lua.LNumber); ok {
			parts[i] = spNum(float64(n))
		} else {
			parts[i] = "v" + encVal(v, nil)
		}
	}
	if len(parts) == 0 {
		return "nothing"
	}
	return strings.Join(parts, " ")
}

// luaModuloRef: /repo/vm.go luaModulo, statement by statement
func luaModuloRef(lhs, rhs float64) float64 {
	v := math.Mod(lhs, rhs)
	if rhs > 0 && v < 0 || rhs < 0 && v > 0 {
		v += rhs
	}
	return v
}

// spRef: what the Go function behind the wrapper returns for these operands (the Model of the thin wrapper)
func spRef(fn string, xs []float64) ([]float64, bool) {
	if f1, ok := math1[fn]; ok && len(xs) == 1 {
		return []float64{f1(xs[0])}, true
	}
	switch {
	case fn == "deg" && len(xs) == 1:
		return []float64{xs[0] / (math.Pi / 180)}, true
	case fn == "rad" && len(xs) == 1:
		return []float64{xs[0] * (math.Pi / 180)}, true
	case fn == "modf" && len(xs) == 1:
		v1, v2 := math.Modf(xs[0])
		if math.IsInf(xs[0], 0) {
			v2 = math.Copysign(0, xs[0])
		}
		return []float64{v1, v2}, true
	case fn == "frexp" && len(xs) == 1:
		v1, v2 := math.Frexp(xs[0])
		return []float64{v1, float64(v2)}, true
	case fn == "tonumber" && len(xs) == 1:
		return []float64{xs[0]}, true
	case fn == "fmod" && len(xs) == 2:
		return []float64{math.Mod(xs[0], xs[1])}, true
	case (fn == "mod" || fn == "opmod") && len(xs) == 2:
		return []float64{luaModuloRef(xs[0], xs[1])}, true
	case fn == "pow" && len(xs) == 2:
		return []float64{math.Pow(xs[0], xs[1])}, true
	case fn == "atan2" && len(xs) == 2:
		// Go's function; mathAtan2's sign correction on top of it is in the Lean Model (MathModel.mathAtan2)
		return []float64{math.Atan2(xs[0], xs[1])}, true
	case fn == "ldexp" && len(xs) == 2:
		return []float64{math.Ldexp(xs[0], int(lua.LNumber(xs[1])))}, true // L.CheckInt(2) is int(LNumber)
	case (fn == "max" || fn == "min") && len(xs) >= 1:
		r := xs[0]
		for _, v := range xs[1:] {
			if (fn == "max" && v > r) || (fn == "min" && v < r) {
				r = v
			}
		}
		return []float64{r}, true
	}
	return nil, false
}

// execSp: `sp <fn> <args…>` on the real library function (or the real % operator)
func (w *c15World) execSp(a []string) string {
	fn := a[1]
	args := make([]lua.LValue, len(a)-2)
	xs := make([]float64, len(a)-2)
	for i, t := range a[2:] {
		args[i] = spDecArg(t)
		f, ok := numArg(args[i])
		if !ok {
			return "harness-bad-number"
		}
		xs[i] = f
	}
	var res []lua.LValue
	var bad string
	switch fn {
	case "opmod":
		if w.fns["op.mod"] == nil {
			if err := w.L.DoString("return function(a, b) return a % b end"); err != nil {
				return "harness-cannot-compile-opmod"
			}
			w.fns["op.mod"] = w.L.Get(-1).(*lua.LFunction)
			w.L.Pop(1)
		}
		res, bad = w.call("op.mod", args...)
	case "tonumber":
		if w.fns["tonumber"] == nil {
			w.fns["tonumber"] = w.L.GetGlobal("tonumber").(*lua.LFunction)
		}
		res, bad = w.call("tonumber", args...)
	default:
		if w.fns["math."+fn] == nil {
			return "harness-unknown-function"
		}
		res, bad = w.call("math."+fn, args...)
	}
	ref, ok := spRef(fn, xs)
	if !ok {
		return "harness-no-reference"
	}
	rs := make([]string, len(ref))
	for i, r := range ref {
		rs[i] = spNum(r)
	}
	return spEncResults(res, bad) + " | " + strings.Join(rs, " ")
}

// ---------- generator ----------

var spNaN = math.NaN()

// the operand set: ±0, small integers incl. a multiple pair (6, 3, 2), halves, ±inf, NaN, the edges of the exact
// integers (2^53) and of int64 (2^63), the smallest subnormal, the largest subnormal, the smallest normal, the
// largest finite number
func spOperands(thorough bool) []float64 {
	pos := []float64{0, 1, 2, 3, 6, 0.5, 2.5, math.Inf(1), 9007199254740992, 9223372036854775808, 5e-324,
		2.225073858507201e-308, 2.2250738585072014e-308, math.MaxFloat64}
	if thorough {
		pos = append(pos, 1.5, 4, 5, 7, 10, 0.25, 0.1, 0.75, 3.5, 1e300, 1e-300, 4503599627370496.5, 2147483648, 4294967296,
			9007199254740991, 9007199254740993, 4611686018427387904, 18446744073709551616, 1.0000000000000002, 0.9999999999999999,
			math.Pi, 709.5, 745.5, 1e-5, 65, 64, 1023, 1024, 1074, 1075)
	}
	var res []float64
	for _, p := range pos {
		res = append(res, p, -p)
	}
	return append(res, spNaN)
}

func spClass(f float64) string {
	switch {
	case math.IsNaN(f):
		return "nan"
	case math.IsInf(f, 1):
		return "+inf"
	case math.IsInf(f, -1):
		return "-inf"
	case f == 0 && math.Signbit(f):
		return "-0"
	case f == 0:
		return "+0"
	case f < 0:
		return "-fin"
	}
	return "+fin"
}

var spUnary = []string{"floor", "ceil", "abs", "sqrt", "exp", "log", "log10", "sin", "cos", "tan", "asin", "acos", "atan", "sinh",
	"cosh", "tanh", "deg", "rad", "modf", "frexp"}
var spBinary = []string{"fmod", "mod", "opmod", "pow", "atan2", "ldexp"}

// numerals whose value C's strtod fixes exactly, with the operand they denote (Lua 5.1 has no numeral for inf / NaN)
var spNumerals = []string{"-0", "0", "-0.0", " -0 ", "-0e0", "-0e5", "0.0", "-1", "1", "-6", "3", "0.5", "-2.5", "5e-1", "-25e-1",
	"9007199254740992", "-9223372036854775808", "4.9406564584124654e-324", "-4.9406564584124654e-324", "5e-324",
	"2.2250738585072014e-308", "-2.225073858507201e-308", "1.7976931348623157e308"}

// modKfProne: the operand classes of C15-modulo-ieee-specials (a tagged finding must not hide a later failure of the
// same case, so these travel one per case)
func modKfProne(a, b float64) bool {
	if math.IsNaN(a) || math.IsNaN(b) {
		return false
	}
	if math.IsInf(b, 0) {
		return !math.IsInf(a, 0)
	}
	return luaModuloRef(a, b) == 0
}

func genC15Special(run *Run, r *Rng, thorough bool) []Case {
	var bulk, single []Op
	add := func(args ...string) {
		op := Op{Args: append([]string{"sp"}, args...)}
		fn := args[0]
		if fn == "mod" || fn == "opmod" {
			// decode the operands back to decide whether the op can fall into the known-finding class
			var xs []float64
			for _, t := range args[1:] {
				f, _ := numArg(spDecArg(t))
				xs = append(xs, f)
			}
			if len(xs) == 2 && modKfProne(xs[0], xs[1]) {
				single = append(single, op)
				return
			}
		}
		bulk = append(bulk, op)
	}
	xs := spOperands(thorough)
	// (a) every one-argument function x every operand
	for _, fn := range spUnary {
		for _, x := range xs {
			add(fn, spArg(x))
			run.Distinct["sp "+fn+" "+spClass(x)] = true
		}
	}
	// (b) every two-argument function (and math.mod, the % operator) x every pair of operands
	for _, fn := range spBinary {
		for _, x := range xs {
			for _, y := range xs {
				add(fn, spArg(x), spArg(y))
				run.Distinct["sp "+fn+" "+spClass(x)+" "+spClass(y)] = true
			}
		}
	}
	// (c) max / min: one argument, every pair, and every triple over the zeros, ±1, ±inf, NaN (position matters)
	small := []float64{0, math.Copysign(0, -1), 1, -1, math.Inf(1), math.Inf(-1), spNaN}
	for _, fn := range []string{"max", "min"} {
		for _, x := range xs {
			add(fn, spArg(x))
			for _, y := range xs {
				add(fn, spArg(x), spArg(y))
				run.Distinct["sp "+fn+" "+spClass(x)+" "+spClass(y)] = true
			}
		}
		for _, x := range small {
			for _, y := range small {
				for _, z := range small {
					add(fn, spArg(x), spArg(y), spArg(z))
				}
			}
		}
	}
	// (d) the same operands spelled as numeric strings: the coercion in front of every function (Lua §2.2.1) and
	// tonumber must deliver the value C's strtod defines, -0 for "-0"
	for _, s := range spNumerals {
		st := encStr(s)
		add("tonumber", st)
		for _, fn := range spUnary {
			add(fn, st)
		}
		run.Distinct["sp numeral "+strings.TrimSpace(s)] = true
	}
	strs := []string{"-0", "0", "-6", "3", "-1", "0.5"}
	for _, fn := range []string{"fmod", "mod", "pow", "atan2"} {
		for _, s := range strs {
			for _, t := range strs {
				add(fn, encStr(s), encStr(t))
				add(fn, encStr(s), spArg(-3))
				add(fn, spArg(math.Copysign(0, -1)), encStr(t))
			}
		}
	}
	// math.ldexp's exponent is read with CheckInt: a numeral there is converted as well
	for _, s := range []string{"-0", "0", "-6", "3", "-1", " 2 ", "1e1", "1074", "-1074"} {
		for _, x := range []float64{0, math.Copysign(0, -1), 1, -1, 0.5, 5e-324, math.MaxFloat64, math.Inf(-1), spNaN} {
			add("ldexp", spArg(x), encStr(s))
		}
	}
	run.Distinct["sp ldexp exponent-as-numeral"] = true
	// (e) seeded: the grid / random values of the math stream through the same bit-exact comparison (exactly defined
	// functions are recomputed in Lean on the exact value, the others are held to Go's function bit for bit)
	n := 2000
	if thorough {
		n = 60000
	}
	for k := 0; k < n; k++ {
		switch c := r.Intn(10); {
		case c < 4:
			add(Pick(r, spUnary), spArg(gridVal(r)))
		case c < 8:
			fn := Pick(r, spBinary)
			x, y := gridVal(r), gridVal(r)
			if fn == "ldexp" || r.Chance(30) {
				y = float64(Pick(r, []int{0, 1, -1, 2, 3, -3, 10, 52, 53, 64, -64, 1023, 1024, -1022, -1074, -1075, 2000, -2200, r.Range(-1100, 1100)}))
			}
			if r.Chance(30) { // an exact multiple: a zero remainder with every sign combination
				y = Pick(r, []float64{1, -1, 2, -2, 3, -3, 0.5, -0.25, 7, 1024})
				x = y * float64(r.Range(-40, 40))
				if r.Chance(20) {
					x = -x
				}
			}
			add(fn, spArg(x), spArg(y))
		default:
			args := []string{Pick(r, []string{"max", "min"})}
			for j := r.Range(1, 5); j > 0; j-- {
				if r.Chance(30) {
					args = append(args, spArg(Pick(r, small)))
				} else {
					args = append(args, spArg(gridVal(r)))
				}
			}
			add(args...)
		}
	}
	cases := chunk(bulk, 64, 700000)
	cases = append(cases, chunk(single, 1, 800000)...)
	return cases
}

// (f) string.format of every special operand: the sign of a zero must reach the text (C: "-0.000000"); these go
// through the existing `fmt` op (C oracle in Go and in Lean), one per case (known-finding classes)
func genC15SpecialFormat(thorough bool) []Case {
	var ops []Op
	dirs := []cDirective{
		{Width: -1, Prec: -1, Verb: 'e'}, {Width: -1, Prec: -1, Verb: 'E'}, {Width: -1, Prec: -1, Verb: 'f'},
		{Width: -1, Prec: 0, Verb: 'f'}, {Plus: true, Width: -1, Prec: 3, Verb: 'e'}, {Width: 8, Prec: 1, Verb: 'f'},
		{Space: true, Width: -1, Prec: -1, Verb: 'f'}, {Sharp: true, Width: -1, Prec: 0, Verb: 'e'}, {Zero: true, Width: 9, Prec: 2, Verb: 'f'},
		{Minus: true, Width: 9, Prec: 2, Verb: 'E'},
	}
	for _, x := range spOperands(thorough) {
		for _, d := range dirs {
			ops = append(ops, Op{Args: []string{"fmt", encStr("[" + d.String() + "]"), fltTok(d, x)}})
		}
		if x == math.Trunc(x) && math.Abs(x) < 9e18 { // integral (also -0): the integer conversions print no sign for -0
			for _, f := range []string{"%d", "%i", "%x", "%o", "%5d", "%+d", "%c"} {
				if f == "%c" && (x < 0 || x > 255) {
					continue
				}
				ops = append(ops, Op{Args: []string{"fmt", encStr(f), c15Num(x)}})
			}
		}
	}
	return chunk(ops, 1, 850000)
}

var _ = fmt.Sprintf
