package main

// C16: text <-> value round trips — numerals through the four readers (lexer literal, tonumber, arithmetic
// coercion, tonumber with a base), tostring/tonumber, %q -> loadstring, string literals, os.date/os.time.
// Every op is executed on the real interpreter in-process; the request lines go to the Lean engine "C16".

import (
	"context"
	"encoding/hex"
	"fmt"
	"math"
	"strconv"
	"strings"
	"time"

	lua "github.com/yuin/gopher-lua"
	"github.com/yuin/gopher-lua/parse"
)

const c16Prelude = `
function c16_ton(s) return tonumber(s) end
function c16_tonb(s,b) return tonumber(s,b) end
function c16_coerce(s) return s*1 end
function c16_tostr(x) return tostring(x) end
function c16_q(s) return string.format("%q", s) end
function c16_date(t) local d=os.date("*t",t) return d.year,d.month,d.day,d.hour,d.min,d.sec,d.wday,d.yday end
function c16_trt(t) return os.time(os.date("*t",t)) end
function c16_time(y,mo,d,h,mi,s) return os.time{year=y,month=mo,day=d,hour=h,min=mi,sec=s} end
function c16_fmt(f,t) return os.date(f,t) end
`

// which code paths the tree under test has: "fix" = fixes/C16-*.diff applied, "pre" = unrepaired.
// Probed once per run on the real interpreter (one probe per repaired area).
var c16Var = struct{ num, quote, date, esc string }{"fix", "fix", "fix", "fix"}

func c16Probe() {
	L := lua.NewState()
	defer L.Close()
	if err := L.DoString(`P1 = tonumber("1e5") == nil and "pre" or "fix"
P2 = string.format("%q", "\0") == '"\\x00"' and "pre" or "fix"
P3 = os.date("!%a", 0) == "mon" and "pre" or "fix"
P4 = loadstring('return "\\256"') and "pre" or "fix"`); err != nil {
		panic(err)
	}
	c16Var.num = L.GetGlobal("P1").String()
	c16Var.quote = L.GetGlobal("P2").String()
	c16Var.date = L.GetGlobal("P3").String()
	c16Var.esc = L.GetGlobal("P4").String()
}

func c16Bits(f float64) string { return "b" + strconv.FormatUint(math.Float64bits(f), 10) }
func c16Hex(s string) string   { return "s" + hex.EncodeToString([]byte(s)) }
func c16Unhex(tok string) string {
	b, err := hex.DecodeString(strings.TrimPrefix(tok, "s"))
	if err != nil {
		panic("bad hex token " + tok)
	}
	return string(b)
}

type c16World struct {
	L   *lua.LState
	fns map[string]*lua.LFunction
}

func newC16World(ctx context.Context) *c16World {
	L := lua.NewState()
	L.SetContext(ctx)
	if err := L.DoString(c16Prelude + c16PosPrelude); err != nil {
		panic(err)
	}
	w := &c16World{L: L, fns: map[string]*lua.LFunction{}}
	for _, n := range []string{"c16_ton", "c16_tonb", "c16_coerce", "c16_tostr", "c16_q", "c16_date", "c16_trt", "c16_time", "c16_fmt", "c16_ls"} {
		w.fns[n] = L.GetGlobal(n).(*lua.LFunction)
	}
	return w
}

// call runs a prelude function protected; a Go panic escaping the call is reported as a crash line by the caller.
func (w *c16World) call(fn *lua.LFunction, nret int, args ...lua.LValue) (res []lua.LValue, errMsg string, crashed bool) {
	top := w.L.GetTop()
	defer func() {
		if r := recover(); r != nil {
			crashed, errMsg = true, fmt.Sprint(r)
			w.L.SetTop(top)
		}
	}()
	if err := w.L.CallByParam(lua.P{Fn: fn, NRet: nret, Protect: true}, args...); err != nil {
		w.L.SetTop(top)
		return nil, err.Error(), false
	}
	res = make([]lua.LValue, nret)
	for i := 0; i < nret; i++ {
		res[i] = w.L.Get(top + 1 + i)
	}
	w.L.SetTop(top)
	return res, "", false
}

// evalChunk loads and runs `return <src>`: b<bits> for a number, s<hex> for a string, "other", or "err".
func (w *c16World) evalChunk(src string) (r string, crashed string) {
	top := w.L.GetTop()
	defer func() {
		if p := recover(); p != nil {
			r, crashed = "err", fmt.Sprint(p)
			w.L.SetTop(top)
		}
	}()
	fn, err := w.L.LoadString("return " + src)
	if err != nil {
		return "err", ""
	}
	res, emsg, cr := w.call(fn, 1)
	if cr {
		return "err", emsg
	}
	if emsg != "" {
		return "err", ""
	}
	switch v := res[0].(type) {
	case lua.LNumber:
		return c16Bits(float64(v)), ""
	case lua.LString:
		return c16Hex(string(v)), ""
	}
	return "other", ""
}

func c16IsWs(c byte) bool {
	return c == ' ' || c == '\t' || c == '\n' || c == '\r' || c == '\v' || c == '\f'
} // the lexer's blanks (VT and FF since fix c5425b9)

// c16ScanKind runs the real scanner over s: is the input one number token (and nothing else), a number token
// followed by more, a scanner error on a number, or not a number at all.
func c16ScanKind(s string) (kind, tok string) {
	i := 0
	for i < len(s) && c16IsWs(s[i]) {
		i++
	}
	startsNumber := i < len(s) && ('0' <= s[i] && s[i] <= '9' || s[i] == '.' && i+1 < len(s) && '0' <= s[i+1] && s[i+1] <= '9')
	if !startsNumber {
		return "notnum", "-"
	}
	sc := parse.NewScanner(strings.NewReader(s), "c16")
	lx := &parse.Lexer{}
	t1, err := sc.Scan(lx)
	if err != nil {
		return "lexerr", "-"
	}
	if t1.Type != parse.TNumber {
		return "notnum", "-"
	}
	t2, err2 := sc.Scan(lx)
	if err2 == nil && t2.Type == parse.EOF {
		return "one", c16Hex(t1.Str)
	}
	return "many", c16Hex(t1.Str)
}

func execC16(ops []Op) []string {
	ctx, cancel := hangCtx(20 * time.Second)
	defer cancel()
	w := newC16World(ctx)
	defer w.L.Close()
	var out []string
	emit := func(variant string, args []string, reply string) {
		out = append(out, "C16 "+variant+" "+strings.Join(args, " ")+" => "+reply)
	}
	crash := func(what, msg string) { out = append(out, "X "+what+" => "+strings.ReplaceAll(msg, "\n", " ")) }
	numRes := func(res []lua.LValue, absent string) string {
		if n, ok := res[0].(lua.LNumber); ok {
			return c16Bits(float64(n))
		}
		return absent
	}
	for _, op := range ops {
		a := op.Args
		switch a[0] {
		case "lit":
			s := c16Unhex(a[1])
			kind, tok := c16ScanKind(s)
			r, cr := w.evalChunk(s)
			if cr != "" {
				crash("lit "+a[1], cr)
				continue
			}
			if r[0] == 's' {
				r = "other"
			}
			emit(c16Var.num, a, kind+" "+tok+" "+r)
		case "ton":
			res, _, cr := w.call(w.fns["c16_ton"], 1, lua.LString(c16Unhex(a[1])))
			if cr || res == nil {
				crash("ton "+a[1], "tonumber raised or panicked")
				continue
			}
			emit(c16Var.num, a, numRes(res, "nil"))
		case "coerce":
			res, emsg, cr := w.call(w.fns["c16_coerce"], 1, lua.LString(c16Unhex(a[1])))
			if cr {
				crash("coerce "+a[1], emsg)
				continue
			}
			if res == nil {
				emit(c16Var.num, a, "err")
			} else {
				emit(c16Var.num, a, numRes(res, "err"))
			}
		case "tonb":
			b, _ := strconv.Atoi(a[1])
			res, emsg, cr := w.call(w.fns["c16_tonb"], 1, lua.LString(c16Unhex(a[2])), lua.LNumber(b))
			if cr {
				crash("tonb "+a[1]+" "+a[2], emsg)
				continue
			}
			if res == nil {
				emit(c16Var.num, a, "argerr")
			} else {
				emit(c16Var.num, a, numRes(res, "nil"))
			}
		case "num": // tostring(x), tonumber(tostring(x)), and tonumber of that text as a reader observation
			bits, _ := strconv.ParseUint(a[1], 10, 64)
			x := lua.LNumber(math.Float64frombits(bits))
			res, emsg, cr := w.call(w.fns["c16_tostr"], 1, x)
			if cr || res == nil {
				crash("tostr "+a[1], emsg)
				continue
			}
			str, _ := res[0].(lua.LString)
			emit(c16Var.num, []string{"tostr", "b" + a[1]}, c16Hex(string(str)))
			res2, emsg2, cr2 := w.call(w.fns["c16_ton"], 1, str)
			if cr2 || res2 == nil {
				crash("rt "+a[1], emsg2)
				continue
			}
			emit(c16Var.num, []string{"rt", "b" + a[1]}, numRes(res2, "nil"))
			emit(c16Var.num, []string{"ton", c16Hex(string(str))}, numRes(res2, "nil"))
		case "q":
			s := c16Unhex(a[1])
			res, emsg, cr := w.call(w.fns["c16_q"], 1, lua.LString(s))
			if cr || res == nil {
				crash("q "+a[1], emsg)
				continue
			}
			quoted := string(res[0].(lua.LString))
			back, cr2 := w.evalChunk(quoted)
			if cr2 != "" {
				crash("q-readback "+a[1], cr2)
				continue
			}
			if back[0] != 's' {
				back = "err"
			}
			emit(c16Var.quote, a, c16Hex(quoted)+" "+back)
		case "strlit":
			r, cr := w.evalChunk(c16Unhex(a[1]))
			if cr != "" {
				crash("strlit "+a[1], cr)
				continue
			}
			if r[0] != 's' {
				r = "err"
			}
			emit(c16Var.esc, a, r)
		case "pos": // position independence of literal values (c16_pos.go)
			w.execPos(a, emit, crash)
		case "date":
			t, _ := strconv.ParseInt(a[1], 10, 64)
			res, emsg, cr := w.call(w.fns["c16_date"], 8, lua.LNumber(t))
			if cr || res == nil {
				crash("date "+a[1], emsg)
				continue
			}
			fs := make([]string, 8)
			for i, v := range res {
				n, ok := v.(lua.LNumber)
				if !ok {
					fs[i] = "?"
				} else {
					fs[i] = strconv.FormatInt(int64(n), 10)
				}
			}
			emit(c16Var.date, a, strings.Join(fs, " "))
			res2, emsg2, cr2 := w.call(w.fns["c16_trt"], 1, lua.LNumber(t))
			if cr2 || res2 == nil {
				crash("trt "+a[1], emsg2)
				continue
			}
			emit(c16Var.date, []string{"trt", a[1]}, c16IntNum(res2[0]))
		case "time":
			args := make([]lua.LValue, 6)
			for i := 0; i < 6; i++ {
				if a[1+i] == "-" {
					args[i] = lua.LNil
				} else {
					n, _ := strconv.ParseInt(a[1+i], 10, 64)
					args[i] = lua.LNumber(n)
				}
			}
			res, emsg, cr := w.call(w.fns["c16_time"], 1, args...)
			if cr || res == nil {
				crash("time "+strings.Join(a[1:], " "), emsg)
				continue
			}
			emit(c16Var.date, a, c16IntNum(res[0]))
		case "fmt":
			t, _ := strconv.ParseInt(a[1], 10, 64)
			res, emsg, cr := w.call(w.fns["c16_fmt"], 1, lua.LString(c16Unhex(a[2])), lua.LNumber(t))
			if cr || res == nil {
				crash("fmt "+a[1]+" "+a[2], emsg)
				continue
			}
			s, _ := res[0].(lua.LString)
			emit(c16Var.date, a, c16Hex(string(s)))
		default:
			panic("bad op " + a[0])
		}
	}
	return out
}

func c16IntNum(v lua.LValue) string {
	n, ok := v.(lua.LNumber)
	if !ok || float64(n) != math.Trunc(float64(n)) || math.Abs(float64(n)) > 1e17 {
		return "?"
	}
	return strconv.FormatInt(int64(n), 10)
}

func init() { props["C16"] = runC16 }

func runC16(run *Run) {
	// "a time zone without transitions": the process's local zone is UTC for this run
	time.Local = time.UTC
	c16Probe()
	thorough := run.Tier == "thorough"
	run.Rule = "numerals: grammar-based generator (leading zeros, fractions, exponents, hex, blanks, signs, 2^53/2^63/2^64 and overflow/underflow boundaries) ~85% + near-miss malformed stream ~15%, each string through the lexer (real Scanner + loadstring), tonumber, arithmetic coercion and tonumber with a base; floats: powers of two, 10^k, 2^53±1, 2^63, subnormals, short decimals, random bit patterns through tostring and tonumber(tostring(x)); %q -> loadstring on all 256 single bytes, all 65536 byte pairs (bounded-exhaustive TEST) and random byte strings <= 64; string literals (every escape, \\ddd, line continuations, long brackets level 0-3 with embedded CR/LF) against the Spec; timestamps step-sampled over [-2^31, 2^33] under UTC: os.date('*t'), os.time round trip, every strftime directive and random formats; os.time with out-of-range fields; position independence (bounded-exhaustive TEST over the literal forms + seed-derived literals): every literal form (each escape, \\ddd of every width, backslash-newline and long-bracket line ends in the four spellings LF CR CRLF LFCR, first-newline skip, levels 0-3, near-closers, numerals, malformed ones), also behind comments/blanks and before them, at every offset that puts each of its bytes on both sides of a refill of the scanner's 4096-byte read buffer (offsets 4096-len-2..4096+2 and 8192-len-2..8192+2 behind padding of blanks / line ends / short and long comments; filler inside the literal itself; readers delivering pieces of 1,2,3,5,7 and 1000 bytes), through LoadString, DoString, Lua loadstring, Load(reader) and the bare parse.Scanner: value and line of the next token against the Spec of the literal alone. distinct = distinct character-class shapes of the inputs"
	run.Assume = []string{
		"rounding of decimal/hex text to float64 and the shortest digits of a float64 come from Go strconv (trusted); the Lean side checks every observed result for correct rounding with exact integer arithmetic instead of recomputing it",
		"Go's time package calendar (Unix <-> civil date) is a parameter of the Model; the engine instantiates it with the Spec's proleptic Gregorian arithmetic, so every sampled timestamp also compares the two",
		"the process's local zone is forced to UTC (time.Local = time.UTC): a zone without transitions",
		"variant (pre/fix) of each repaired area is probed on the real interpreter: num=" + c16Var.num + " quote=" + c16Var.quote + " date=" + c16Var.date + " escape=" + c16Var.esc,
	}
	run.Trusted = append(run.Trusted, "Go strconv (ParseFloat/ParseInt rounding, FormatFloat shortest digits), math/big, fmt verb dispatch, time (calendar, zone)", "goyacc parser driver (only `return <literal>` chunks are parsed)")
	run.Extra["variant"] = map[string]string{"numerals": c16Var.num, "quote": c16Var.quote, "date": c16Var.date, "escape": c16Var.esc}
	root := NewRng(uint64(run.Seed))
	var cases []Case
	idx := 0
	addCase := func(ops []Op, note string) {
		if len(ops) == 0 {
			return
		}
		cases = append(cases, Case{Idx: idx, Ops: ops, Note: note})
		idx++
	}
	for i, c := range loadCorpus("C16") {
		cases = append(cases, Case{Idx: -1 - i, Ops: c, Note: "corpus"})
	}
	shapes := map[string]bool{}
	noteShape := func(kind, s string) { shapes[kind+":"+c16Shape(s)] = true }

	// ---- numerals ----
	nNum := 2500
	if thorough {
		nNum = 120000
	}
	for i := 0; i < nNum; i++ {
		r := root.Fork(uint64(i))
		var ops []Op
		for k := 0; k < 4; k++ {
			core, kind := c16GenNumeralCore(r)
			noteShape(kind, core)
			run.Hist["numeral:"+kind]++
			// the lexer sees the bare spelling (optionally with Lua white space around it)
			lit := core
			if r.Chance(20) {
				lit = Pick(r, []string{" ", "\t", "\n", "  "}) + lit
			}
			if r.Chance(20) {
				lit += Pick(r, []string{" ", "\t", "\n", "\r\n"})
			}
			// "--" would start a comment: the chunk would then legitimately be one number token followed by nothing
			lit = strings.ReplaceAll(lit, "--", "-")
			ops = append(ops, Op{Args: []string{"lit", c16Hex(lit)}})
			// the run-time readers see it with an optional sign and surrounding blanks
			s := Pick(r, []string{"", "", "", "-", "+"}) + core
			s = c16GenBlanks(r) + s + c16GenBlanks(r)
			ops = append(ops, Op{Args: []string{"ton", c16Hex(s)}}, Op{Args: []string{"coerce", c16Hex(s)}})
			ops = append(ops, Op{Args: []string{"tonb", "10", c16Hex(s)}})
			if r.Chance(50) {
				ops = append(ops, Op{Args: []string{"tonb", "16", c16Hex(s)}})
			}
			// explicit base with digits of that base
			b := Pick(r, []int{2, 8, 16, 36, 3, 7, 11, 35, r.Range(2, 36), r.Range(2, 36)})
			if r.Chance(4) {
				b = Pick(r, []int{0, 1, 37, 100})
			}
			bs := c16GenBaseDigits(r, b)
			noteShape("base", bs)
			ops = append(ops, Op{Args: []string{"tonb", strconv.Itoa(b), c16Hex(bs)}})
		}
		addCase(ops, "numerals")
	}
	// ---- floats: tostring / tonumber(tostring) ----
	var fl []uint64
	for k := -1074; k <= 1023; k++ {
		if thorough || k%7 == int(run.Seed%7) || k < -1068 || k > 1018 || (k > -8 && k < 70) {
			fl = append(fl, math.Float64bits(math.Ldexp(1, k)), math.Float64bits(-math.Ldexp(1, k)))
		}
	}
	for k := -323; k <= 308; k++ {
		if thorough || k%5 == int(run.Seed%5) || (k > -10 && k < 25) {
			f, _ := strconv.ParseFloat("1e"+strconv.Itoa(k), 64)
			fl = append(fl, math.Float64bits(f), math.Float64bits(math.Nextafter(f, 0)), math.Float64bits(math.Nextafter(f, math.Inf(1))))
		}
	}
	for _, f := range []float64{0, math.Copysign(0, -1), 1, -1, 9007199254740991, 9007199254740992, 9007199254740993, 9007199254740994, -9007199254740992,
		9223372036854775807, 9223372036854775808, 9223372036854774784, -9223372036854775808, -9223372036854777856, 18446744073709551616, 4294967296, 2147483648,
		math.MaxFloat64, -math.MaxFloat64, math.SmallestNonzeroFloat64, 2.2250738585072014e-308, 2.225073858507201e-308, math.Inf(1), math.Inf(-1), math.NaN(),
		0.1, 0.5, 1e-7, 1e-5, 1e-4, 0.0001234, 123456.5, 1234567.5, 999999.9999999999, 1e15 + 0.5, 1e21, 1e22, 1e23, 5e-324, 1.5, 2.5e-5, 100000.5, 1e6 - 0.5, 1e6 + 0.5, 3.14159, 1e100, 1.7976931348623157e308} {
		fl = append(fl, math.Float64bits(f))
	}
	nRand := 6000
	if thorough {
		nRand = 600000
	}
	rf := root.Fork(7777)
	for i := 0; i < nRand; i++ {
		switch c := rf.Intn(100); {
		case c < 45: // random bit pattern
			fl = append(fl, rf.U64())
		case c < 60: // random integer below 2^53 (the property's plain-digits clause), often near a power of ten
			v := float64(rf.U64() >> uint(11+rf.Intn(53)))
			if rf.Bool() {
				v = -v
			}
			fl = append(fl, math.Float64bits(v))
		case c < 70: // integers between 2^53 and 2^64 and beyond
			fl = append(fl, math.Float64bits(math.Ldexp(float64(rf.U64()>>11), rf.Intn(30))))
		case c < 90: // short decimals k / 10^j
			v := float64(rf.Intn(100000000)) / math.Pow(10, float64(rf.Intn(12)))
			if rf.Chance(30) {
				v = -v
			}
			fl = append(fl, math.Float64bits(v))
		case c < 95: // subnormals
			fl = append(fl, rf.U64()>>uint(12+rf.Intn(52)))
		default: // neighbours of powers of ten
			f, _ := strconv.ParseFloat("1e"+strconv.Itoa(rf.Range(-30, 30)), 64)
			for j := rf.Intn(4); j > 0; j-- {
				f = math.Nextafter(f, Pick(rf, []float64{0, math.Inf(1)}))
			}
			fl = append(fl, math.Float64bits(f))
		}
	}
	for i := 0; i < len(fl); i += 12 {
		var ops []Op
		for j := i; j < i+12 && j < len(fl); j++ {
			ops = append(ops, Op{Args: []string{"num", strconv.FormatUint(fl[j], 10)}})
			run.Hist["float:"+c16FloatClass(fl[j])]++
		}
		addCase(ops, "floats")
	}
	// ---- %q: all single bytes, all byte pairs (bounded-exhaustive test), random byte strings ----
	for hi := 0; hi < 16; hi++ {
		var ops []Op
		for lo := 0; lo < 16; lo++ {
			ops = append(ops, Op{Args: []string{"q", c16Hex(string([]byte{byte(hi*16 + lo)}))}})
		}
		addCase(ops, "q-single")
	}
	for a := 0; a < 256; a++ {
		for blk := 0; blk < 4; blk++ {
			var ops []Op
			for b := blk * 64; b < blk*64+64; b++ {
				ops = append(ops, Op{Args: []string{"q", c16Hex(string([]byte{byte(a), byte(b)}))}})
			}
			addCase(ops, "q-pairs")
		}
	}
	run.Hist["q:single-bytes"] = 256
	run.Hist["q:byte-pairs"] = 65536
	nQ := 3000
	if thorough {
		nQ = 200000
	}
	for i := 0; i < nQ; i += 10 {
		r := root.Fork(uint64(5000000 + i))
		var ops []Op
		for k := 0; k < 10; k++ {
			s := c16GenByteString(r)
			noteShape("q", s)
			ops = append(ops, Op{Args: []string{"q", c16Hex(s)}})
			run.Hist["q:random"]++
		}
		addCase(ops, "q-random")
	}
	// ---- string literals against the Spec ----
	nLit := 3000
	if thorough {
		nLit = 150000
	}
	for i := 0; i < nLit; i += 10 {
		r := root.Fork(uint64(6000000 + i))
		var ops []Op
		for k := 0; k < 10; k++ {
			src, kind := c16GenStringLiteral(r)
			noteShape(kind, src)
			run.Hist["strlit:"+kind]++
			ops = append(ops, Op{Args: []string{"strlit", c16Hex(src)}})
		}
		addCase(ops, "strlit")
	}
	// ---- literals at every position relative to the scanner's read-buffer refills (c16_pos.go) ----
	var posCases []Case
	c16PosCases(run, root, func(ops []Op, note string) {
		posCases = append(posCases, Case{Idx: 1000000 + len(posCases), Ops: ops, Note: note})
	}, noteShape)
	// ---- time ----
	nT := 2400
	if thorough {
		nT = 200000
	}
	lo, hi := int64(-1)<<31, int64(1)<<33
	var ts []int64
	step := (hi - lo) / int64(nT)
	rt := root.Fork(8888)
	for t := lo; t <= hi; t += step {
		ts = append(ts, t+int64(rt.Intn(int(step))))
	}
	ts = append(ts, lo, lo+1, -1, 0, 1, 59, 60, 3599, 3600, 86399, 86400, 951782400, 951868799, 951868800, 4107542399, 4107542400, 4102444799, 4102444800,
		1<<31-1, 1<<31, 1<<32, hi, 68255999, 68256000, 1709164800, 1709251199, 1709251200, -2147472000, 946684799, 946684800, 978307199, 978307200)
	dirs := "aAbBcdFHImMpPSxXyYzZw"
	for i := 0; i < len(ts); i += 6 {
		r := root.Fork(uint64(7000000 + i))
		var ops []Op
		for j := i; j < i+6 && j < len(ts); j++ {
			t := ts[j]
			if t > hi {
				t = hi
			}
			tsS := strconv.FormatInt(t, 10)
			ops = append(ops, Op{Args: []string{"date", tsS}})
			// every directive on its own (rotating), and a random format
			d := dirs[(j+int(run.Seed))%len(dirs)]
			ops = append(ops, Op{Args: []string{"fmt", tsS, c16Hex("%" + string(d))}})
			f := c16GenDateFormat(r, dirs)
			noteShape("fmt", f)
			ops = append(ops, Op{Args: []string{"fmt", tsS, c16Hex(f)}})
			run.Hist["time:date"]++
			run.Hist["time:fmt"] += 2
			if r.Chance(40) {
				ops = append(ops, c16GenTimeOp(r))
				run.Hist["time:os.time"]++
			}
		}
		addCase(ops, "time")
	}
	// the position cases are the costly ones (4-8 KB chunks): spread them evenly over the driver shards
	if len(posCases) > 0 {
		merged := make([]Case, 0, len(cases)+len(posCases))
		for i, j := 0, 0; i < len(cases) || j < len(posCases); {
			if j < len(posCases) && (i == len(cases) || j*len(cases) <= i*len(posCases)) {
				merged = append(merged, posCases[j])
				j++
			} else {
				merged = append(merged, cases[i])
				i++
			}
		}
		cases = merged
	}
	runCases(run, cases, execC16, classifyTagged)
	for k := range shapes {
		run.Distinct[k] = true
	}
}

// ---------- generators ----------

func c16Shape(s string) string {
	var sb strings.Builder
	var last byte
	n := 0
	for i := 0; i < len(s) && n < 24; i++ {
		var c byte
		switch b := s[i]; {
		case b == '0':
			c = '0'
		case '1' <= b && b <= '9':
			c = '9'
		case b == 'e' || b == 'E':
			c = 'e'
		case b == 'x' || b == 'X':
			c = 'x'
		case 'a' <= b && b <= 'f' || 'A' <= b && b <= 'F':
			c = 'h'
		case 'g' <= b && b <= 'z' || 'G' <= b && b <= 'Z':
			c = 'a'
		case b == ' ' || (9 <= b && b <= 13):
			c = '_'
		case b < 32 || b == 127:
			c = 'c'
		case b >= 128:
			c = 'u'
		default:
			c = b
		}
		if c != last {
			sb.WriteByte(c)
			last = c
			n++
		}
	}
	return sb.String()
}

func c16FloatClass(bits uint64) string {
	f := math.Float64frombits(bits)
	switch {
	case math.IsNaN(f):
		return "nan"
	case math.IsInf(f, 0):
		return "inf"
	case f == 0:
		return "zero"
	case bits>>52&0x7ff == 0:
		return "subnormal"
	case f == math.Trunc(f) && math.Abs(f) < 9007199254740992:
		return "int<2^53"
	case f == math.Trunc(f) && math.Abs(f) < 9223372036854775808:
		return "int<2^63"
	case f == math.Trunc(f):
		return "int>=2^63"
	case math.Abs(f) < 1e-4:
		return "frac<1e-4"
	case math.Abs(f) < 1e6:
		return "frac<1e6"
	}
	return "frac>=1e6"
}

func c16GenBlanks(r *Rng) string {
	if r.Chance(65) {
		return ""
	}
	n := r.Range(1, 2)
	var sb strings.Builder
	for i := 0; i < n; i++ {
		sb.WriteString(Pick(r, []string{" ", " ", "\t", "\n", "\r", "\v", "\f"}))
	}
	return sb.String()
}

func c16GenDigits(r *Rng, n int) string {
	b := make([]byte, n)
	for i := range b {
		b[i] = byte('0' + r.Intn(10))
	}
	return string(b)
}

var c16Boundaries = []string{"9007199254740991", "9007199254740992", "9007199254740993", "9223372036854775807", "9223372036854775808",
	"9223372036854775809", "18446744073709551615", "18446744073709551616", "4294967296", "2147483648", "17976931348623157", "17976931348623158", "17976931348623159",
	"22250738585072014", "4940656458412465", "2470328229206232", "2470328229206233", "123456789012345678901234567890", "1000000000000000000000"}

var c16HexBoundaries = []string{"7fffffffffffffff", "8000000000000000", "ffffffffffffffff", "FFFFFFFFFFFFFFFF", "10000000000000000", "1fffffffffffff", "20000000000001",
	"20000000000000", "3ffffffffffffe", "80000000000000000000000000000001", "0", "00", "0010", "a", "A", "deadBEEF", "fffffffffffff800", "fffffffffffffbff", "fffffffffffffc00"}

var c16NearMiss = []string{"", " ", ".", "e", "e5", "1e", "1e+", "1e-", "3e", "3e)", "0x", "0X", "0xg", "0xG1", "1..2", ".5.5", "1.2.3", "1_0", "1__0", "_1", "1_", "0b11", "0B1",
	"0o17", "0O7", "inf", "Inf", "INF", "infinity", "+inf", "-Infinity", "infin", "nan", "NaN", "+nan", "-nan", "0x1p4", "0x1P-2", "0x.8p1", "0x1.8", "0x1.8p0", "0xAp0", "1e5e5", "1 2",
	"1 e5", "1e 5", "- 5", "--5", "+-5", "5-", "5+", "0x-5", "0x+5", "-0x-5", "1d5", "1f", "1L", "\xd9\xa1", "1\x00", "\x001", "1,5", "0x1_0", "1_000.5", "0_1", "0x_1", "1e1_0", "1e_1",
	"1e+_1", "0_x1", "1._5", "1_.5", "00x10", "0x0x1", "x10", "0 x10", "1.e", ".e1", "+.e1", "1.0e+", "e1", "3.4.5", "1  a", "0e", "0x1e+1", "1e0x1", "0.0.", "..1", "1e1.5", "1e+-1",
	"1p4", "0x1p", "0xp1", "١٢", "１２", "1\xa0", "\xa01", "1\x0b\x0b", "1\x1c", "\x1f1", "\x851"}

// c16GenNumeralCore returns an unsigned spelling without blanks: a valid Lua numeral (~85 %) or a near miss.
func c16GenNumeralCore(r *Rng) (string, string) {
	c := r.Intn(100)
	switch {
	case c < 85:
		return c16GenValidNumeral(r)
	case c < 93:
		return Pick(r, c16NearMiss), "nearmiss-list"
	default: // mutate a valid numeral
		s, _ := c16GenValidNumeral(r)
		alphabet := "0123456789abcdefxXeEpP._+- \tinfaNIoOb_"
		b := []byte(s)
		for k := r.Range(1, 2); k > 0; k-- {
			pos := r.Intn(len(b) + 1)
			switch r.Intn(3) {
			case 0:
				b = append(b[:pos], append([]byte{alphabet[r.Intn(len(alphabet))]}, b[pos:]...)...)
			case 1:
				if pos < len(b) {
					b = append(b[:pos], b[pos+1:]...)
				}
			default:
				if pos < len(b) {
					b[pos] = alphabet[r.Intn(len(alphabet))]
				}
			}
		}
		return string(b), "nearmiss-mutant"
	}
}

func c16GenValidNumeral(r *Rng) (string, string) {
	if r.Chance(22) { // hexadecimal integer
		pre := Pick(r, []string{"0x", "0x", "0X"})
		if r.Chance(35) {
			return pre + Pick(r, c16HexBoundaries), "hex-boundary"
		}
		n := Pick(r, []int{1, 2, 4, 8, 13, 14, 15, 16, 17, 20, r.Range(1, 24)})
		b := make([]byte, n)
		for i := range b {
			b[i] = "0123456789abcdefABCDEF"[r.Intn(22)]
		}
		return pre + string(b), "hex"
	}
	var ip, kind string
	switch c := r.Intn(100); {
	case c < 10:
		ip, kind = Pick(r, []string{"0", "00", "000"}), "zero"
	case c < 25:
		ip, kind = strings.Repeat("0", r.Range(1, 3))+c16GenDigits(r, r.Range(1, 6)), "leading-zero"
	case c < 40:
		ip, kind = Pick(r, c16Boundaries), "boundary"
	case c < 50:
		ip, kind = c16GenDigits(r, r.Range(17, 40)), "long"
	case c < 58:
		ip, kind = "", "no-int-part"
	default:
		ip, kind = strconv.Itoa(r.Intn(1000000)), "dec"
		if r.Chance(30) {
			ip = strconv.Itoa(r.Range(1, 9)) + c16GenDigits(r, r.Range(0, 15))
		}
	}
	fp := ""
	switch c := r.Intn(100); {
	case ip == "":
		fp = "." + c16GenDigits(r, r.Range(1, 8))
	case c < 45:
	case c < 55:
		fp = "."
		kind += "+dot"
	case c < 90:
		fp = "." + c16GenDigits(r, r.Range(1, 8))
		kind += "+frac"
	default:
		fp = "." + strings.Repeat("0", r.Range(1, 20)) + c16GenDigits(r, r.Range(1, 20))
		kind += "+longfrac"
	}
	ex := ""
	if r.Chance(40) {
		e := Pick(r, []string{"e", "E"}) + Pick(r, []string{"", "", "+", "-"})
		switch c := r.Intn(100); {
		case c < 50:
			e += strconv.Itoa(r.Intn(30))
		case c < 60:
			e += "0" + strconv.Itoa(r.Intn(30))
		case c < 85:
			e += strconv.Itoa(Pick(r, []int{290, 300, 307, 308, 309, 310, 322, 323, 324, 325, 330, 340, 400}) - r.Intn(25))
		case c < 93:
			e += Pick(r, []string{"0", "00", "000007", "1000", "99999", "4000"})
		default:
			e += strconv.Itoa(r.Intn(400))
		}
		ex = e
		kind += "+exp"
	}
	return ip + fp + ex, kind
}

// c16GenBaseDigits: a digit string for tonumber(s, b): mostly valid digits of the base, with sign/blanks/0x,
// sometimes an invalid digit or a foreign form.
func c16GenBaseDigits(r *Rng, b int) string {
	bb := b
	if bb < 2 || bb > 36 {
		bb = 10
	}
	const all = "0123456789abcdefghijklmnopqrstuvwxyz"
	n := Pick(r, []int{1, 2, 3, 8, 13, 16, 20, 40, 64, 70, r.Range(1, 30)})
	d := make([]byte, n)
	for i := range d {
		c := all[r.Intn(bb)]
		if r.Chance(30) && c >= 'a' {
			c -= 32
		}
		d[i] = c
	}
	s := string(d)
	switch c := r.Intn(100); {
	case c < 6 && bb < 36: // one digit too large for the base
		s = s[:r.Intn(len(s))] + string(all[bb+r.Intn(36-bb)]) + s
	case c < 10:
		s = Pick(r, []string{"", "1.5", "1e2", "1_0", "0x", "+", "-", " ", "1 1", "0b1", ".", "z", "Z", "10", "-10", "7fffffffffffffff", "8000000000000000", "ffffffffffffffff", "10000000000000000", "1e5"})
	}
	if b == 16 && r.Chance(30) {
		s = Pick(r, []string{"0x", "0X"}) + s
	}
	s = Pick(r, []string{"", "", "", "-", "+"}) + s
	return c16GenBlanks(r) + s + c16GenBlanks(r)
}

func c16GenByteString(r *Rng) string {
	n := r.Intn(65)
	if r.Chance(30) {
		n = r.Intn(6)
	}
	b := make([]byte, 0, n+4)
	for len(b) < n {
		switch c := r.Intn(100); {
		case c < 30:
			b = append(b, byte(r.Intn(256)))
		case c < 55:
			b = append(b, Pick(r, []byte{0, 10, 13, 34, 92, 255, 127, 39, 1, 7, 27, 128, 9, 11, 12, 8, '0', '9', 'x', 'u', 'n', 'r'}))
		case c < 65:
			b = append(b, Pick(r, []string{"\r\n", "\n\r", "\\n", "\\0", "\0001", "\00012", "\\\n", "\\\r\n", "\xe2\x80\x8b", "\xc3\xa9", "\xef\xbf\xbd", "\xed\xa0\x80", "\xf0\x9f\x98\x80", "\xc0\x80", "]]", "\"\\"})...)
		default:
			b = append(b, byte(32+r.Intn(95)))
		}
	}
	return string(b)
}

// c16GenStringLiteral returns the source text of one string literal (usually well-formed).
func c16GenStringLiteral(r *Rng) (string, string) {
	nl := func() string { return Pick(r, []string{"\n", "\r", "\r\n", "\n\r"}) }
	if r.Chance(35) { // long bracket, level 0-3
		lvl := r.Intn(4)
		eq := strings.Repeat("=", lvl)
		var sb strings.Builder
		sb.WriteString("[" + eq + "[")
		if r.Chance(40) {
			sb.WriteString(nl())
		}
		for k := r.Intn(8); k > 0; k-- {
			switch c := r.Intn(100); {
			case c < 30:
				sb.WriteString(nl())
			case c < 45:
				// closing brackets of other levels are ordinary content
				l2 := r.Intn(4)
				if l2 != lvl {
					sb.WriteString("]" + strings.Repeat("=", l2) + "]")
				} else {
					sb.WriteString("]" + strings.Repeat("=", l2))
				}
			case c < 55:
				sb.WriteString(Pick(r, []string{"]", "]=", "[[", "[=[", "\\n", "\\", "\"", "'", "--", "\x00", "\xff"}))
			default:
				sb.WriteByte(byte(32 + r.Intn(95)))
			}
		}
		// content must not end in something that merges with the closing bracket: keep it as generated (the Spec decides)
		if r.Chance(3) {
			return sb.String(), "long-unterminated"
		}
		sb.WriteString("]" + eq + "]")
		return sb.String(), "long" + strconv.Itoa(lvl)
	}
	q := Pick(r, []string{"\"", "'"})
	var sb strings.Builder
	sb.WriteString(q)
	kind := "short"
	for k := r.Intn(10); k > 0; k-- {
		switch c := r.Intn(100); {
		case c < 25:
			sb.WriteString("\\" + Pick(r, []string{"a", "b", "f", "n", "r", "t", "v", "\\", "\"", "'"}))
		case c < 35:
			sb.WriteString("\\" + nl())
		case c < 60:
			v := Pick(r, []int{0, 1, 9, 10, 13, 34, 39, 48, 92, 99, 100, 127, 128, 199, 200, 249, 250, 255, r.Intn(256)})
			if r.Chance(4) {
				v = Pick(r, []int{256, 300, 999, 260})
				kind = "short-bigescape"
			}
			switch r.Intn(3) {
			case 0:
				sb.WriteString("\\" + strconv.Itoa(v))
			case 1:
				sb.WriteString(fmt.Sprintf("\\%03d", v))
			default:
				sb.WriteString(fmt.Sprintf("\\%03d", v) + strconv.Itoa(r.Intn(10)))
			}
		case c < 66:
			sb.WriteString("\\" + Pick(r, []string{"q", "x41", "u0041", "z", "e", "-", " ", "[", "\x00", "\xff"}))
		case c < 70:
			if q == "\"" {
				sb.WriteString("'")
			} else {
				sb.WriteString("\"")
			}
		case c < 73:
			sb.WriteString(Pick(r, []string{"\x00", "\xff", "\x80", "\t", "\x0b", "\x0c", "]]", "--"}))
		default:
			b := byte(32 + r.Intn(95))
			if b == q[0] || b == '\\' {
				b = 'k'
			}
			sb.WriteByte(b)
		}
	}
	switch c := r.Intn(100); {
	case c < 3:
		sb.WriteString(nl() + q) // raw newline inside: malformed
		return sb.String(), "short-rawnewline"
	case c < 5:
		return sb.String(), "short-unterminated"
	}
	sb.WriteString(q)
	return sb.String(), kind
}

func c16GenDateFormat(r *Rng, dirs string) string {
	var sb strings.Builder
	for k := r.Range(1, 6); k > 0; k-- {
		switch c := r.Intn(100); {
		case c < 55:
			sb.WriteString("%" + string(dirs[r.Intn(len(dirs))]))
		case c < 65:
			sb.WriteString("%%")
		case c < 70:
			sb.WriteString("%" + Pick(r, []string{"j", "e", "U", "5", "E", "-", " "}))
		default:
			sb.WriteString(Pick(r, []string{" ", "-", ":", "/", "T", "at ", "Mon", "Jan", "2006", "15", "x", "é", ",", "."}))
		}
	}
	if r.Chance(8) {
		sb.WriteString("%")
	}
	s := sb.String()
	if strings.HasPrefix(s, "!") || strings.HasPrefix(s, "*t") {
		s = " " + s
	}
	return s
}

func c16GenTimeOp(r *Rng) Op {
	y := r.Range(1902, 2240)
	mo := r.Range(1, 12)
	d := r.Range(1, 28)
	opt := func(v int) string {
		if r.Chance(25) {
			return "-"
		}
		return strconv.Itoa(v)
	}
	h, mi, s := opt(r.Intn(24)), opt(r.Intn(60)), opt(r.Intn(60))
	if r.Chance(35) { // out-of-range fields are normalised (mktime)
		switch r.Intn(5) {
		case 0:
			mo = Pick(r, []int{0, 13, 14, 24, 25, -1, -11, -12})
		case 1:
			d = Pick(r, []int{0, 29, 30, 31, 32, 60, 366, -1, -30})
		case 2:
			h = strconv.Itoa(Pick(r, []int{24, 25, 48, -1, -24}))
		case 3:
			mi = strconv.Itoa(Pick(r, []int{60, 61, 1440, -1}))
		default:
			s = strconv.Itoa(Pick(r, []int{60, 61, 3600, 86400, -1, -86400}))
		}
	}
	return Op{Args: []string{"time", strconv.Itoa(y), strconv.Itoa(mo), strconv.Itoa(d), h, mi, s}}
}
