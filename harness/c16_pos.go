package main

// C16, position independence: the VALUE a literal denotes (and the line of the token after it) does not depend on
// WHERE in the chunk the literal stands, nor on how the chunk text reaches the scanner.
//
// parse.NewScanner reads through bufio.NewReaderSize(reader, 4096) and looks one byte ahead (Peek) at every line
// end, after every digit, after `]`, `=`, `\`, `-`, `.` …; each of those look-aheads can fall on a refill of the read
// buffer.  The refills happen at every multiple of 4096 bytes of chunk text for LoadString / DoString / loadstring
// (strings.Reader fills the whole buffer) and after EVERY Read of a reader that delivers less (LState.Load from a
// pipe, a socket, a reader function).  So every probe literal is placed
//   * behind padding of every length n that puts each byte of `return <comment> <literal> <tail>` on both sides of
//     the boundaries 4096 and 8192 (n runs over B-len-2 … B+2), the padding being blanks, line ends of every
//     spelling, short and long comments (their own two-byte line ends then cross the lower boundary at every
//     alignment);
//   * at the start of a long literal of its own kind (the filler is literal content: the boundary falls inside);
//   * at offsets 0 … k-1 of a chunk delivered by a reader in pieces of k = 1, 2, 3, 5, 7 bytes (every byte pair of
//     the literal is split by a refill) and around offset 1000 for pieces of 1000 bytes;
// and loaded through LState.LoadString, LState.DoString, Lua's loadstring, LState.Load(reader) and the bare
// parse.Scanner.  Request (one per loader):
//
//     C16 <variant> pos <loader> <pad> <head> <lit> <tail> <eof> => <value> <line>
//
// pad/head/lit/tail are text tokens (`s<hex>` or run-length `r<n>x<hex>+<n>x<hex>…`), the chunk is
// pad ++ "return " ++ head ++ lit ++ tail ++ (eof = 1: nothing | eof = 0: "c16_line()"); <value> is s…/r… (string),
// b<bits> (number), `err`; <line> the line c16_line() was called on (`-` when not observed).  The Lean engine never
// looks at the length of the padding: it answers from the Spec of the literal alone (QuoteSpec.literalPrefix /
// NumSpec.literal) and from the Spec's count of line ends in the text before the observing token.

import (
	"encoding/hex"
	"fmt"
	"io"
	"strconv"
	"strings"

	lua "github.com/yuin/gopher-lua"
	"github.com/yuin/gopher-lua/parse"
)

const c16PosSuffix = "c16_line()" // no quote, no bracket: cannot close a literal that failed to end
const c16BufSize = 4096           // parse/lexer.go NewScanner: bufio.NewReaderSize(reader, 4096)

const c16PosPrelude = `
function c16_line() return debug.getinfo(2, "l").currentline end
function c16_ls(s) local f = loadstring(s) if not f then return nil end return f() end
`

// ---------- text tokens ----------

type c16Seg struct {
	n    int
	unit string
}

func c16SegsString(segs []c16Seg) string {
	var sb strings.Builder
	for _, s := range segs {
		for i := 0; i < s.n; i++ {
			sb.WriteString(s.unit)
		}
	}
	return sb.String()
}

func c16SegsTok(segs []c16Seg) string {
	var parts []string
	for _, s := range segs {
		if s.n > 0 && s.unit != "" {
			parts = append(parts, strconv.Itoa(s.n)+"x"+hex.EncodeToString([]byte(s.unit)))
		}
	}
	if len(parts) == 0 {
		return "s"
	}
	return "r" + strings.Join(parts, "+")
}

// c16EncT: `s<hex>`, or the run-length form when the text has a long run of one byte (values of filled literals).
func c16EncT(s string) string {
	if len(s) < 64 {
		return c16Hex(s)
	}
	var segs []c16Seg
	lit := 0 // start of the pending literal stretch
	for i := 0; i < len(s); {
		j := i
		for j < len(s) && s[j] == s[i] {
			j++
		}
		if j-i >= 32 {
			if lit < i {
				segs = append(segs, c16Seg{1, s[lit:i]})
			}
			segs = append(segs, c16Seg{j - i, s[i : i+1]})
			lit = j
		}
		i = j
	}
	if lit == 0 {
		return c16Hex(s)
	}
	if lit < len(s) {
		segs = append(segs, c16Seg{1, s[lit:]})
	}
	return c16SegsTok(segs)
}

func c16DecT(tok string) string {
	if strings.HasPrefix(tok, "s") {
		return c16Unhex(tok)
	}
	if !strings.HasPrefix(tok, "r") {
		panic("bad text token " + tok)
	}
	var segs []c16Seg
	for _, p := range strings.Split(tok[1:], "+") {
		x := strings.IndexByte(p, 'x')
		if x < 0 {
			panic("bad text token " + tok)
		}
		n, err := strconv.Atoi(p[:x])
		b, err2 := hex.DecodeString(p[x+1:])
		if err != nil || err2 != nil {
			panic("bad text token " + tok)
		}
		segs = append(segs, c16Seg{n, string(b)})
	}
	return c16SegsString(segs)
}

// c16Pad: padding of exactly n bytes that contains no token: blanks, and (kind != "sp") a window of 24 line ends /
// comment lines / one long comment with embedded line ends
//   * across every multiple of `bsize` (the distance of the reader's refills) the padding reaches well beyond, and
//   * at its very end (directly before `return`),
// shifted by n modulo the unit length, so that a sweep over consecutive n moves the two-byte line ends of the padding
// over every alignment relative to the boundary.  (Blank runs travel run-length encoded and cost the engine nothing.)
func c16Pad(kind string, n, bsize int) []c16Seg {
	unit, open, clos := "", "", ""
	switch kind {
	case "lf":
		unit = "\n"
	case "cr":
		unit = "\r"
	case "crlf":
		unit = "\r\n"
	case "lfcr":
		unit = "\n\r"
	case "lines": // short comments, one per line
		unit = "--c\r\n"
	case "lines2":
		unit = "--[c\n\r"
	case "lcmt": // one long comment with embedded two-byte line ends
		unit, open, clos = "]\r\n", "--[=[", "]=]"
	case "lcmt2":
		unit, open, clos = "]\n\r", "--[[", "]]"
	default:
		return []c16Seg{{n, " "}}
	}
	const reps = 24
	ul := len(unit)
	wlen := len(open) + reps*ul + len(clos)
	var segs []c16Seg
	at := 0 // bytes laid out so far
	window := func(start int) {
		segs = append(segs, c16Seg{start - at, " "}, c16Seg{1, open}, c16Seg{reps, unit}, c16Seg{1, clos})
		at = start + wlen
	}
	for b := bsize; b+wlen+ul <= n-wlen; b += bsize {
		window(b - len(open) - reps/2*ul + n%ul)
	}
	if n-at >= wlen {
		window(n - wlen)
	}
	return append(segs, c16Seg{n - at, " "})
}

var c16PadKinds = []string{"lf", "cr", "crlf", "lfcr", "lines", "lines2", "lcmt", "lcmt2"}

// ---------- loaders ----------

type c16ChunkReader struct {
	s    string
	k, i int
}

func (r *c16ChunkReader) Read(p []byte) (int, error) {
	if r.i >= len(r.s) {
		return 0, io.EOF
	}
	n := r.k
	if n > len(p) {
		n = len(p)
	}
	if n > len(r.s)-r.i {
		n = len(r.s) - r.i
	}
	copy(p, r.s[r.i:r.i+n])
	r.i += n
	return n, nil
}

func c16PosVal(v lua.LValue) string {
	switch x := v.(type) {
	case lua.LNumber:
		return c16Bits(float64(x))
	case lua.LString:
		return c16EncT(string(x))
	}
	return "other"
}

// posLoad loads src through one loader and returns "<value> <line>".
func (w *c16World) posLoad(loader, src string, eof bool) (reply string, crashed string) {
	top := w.L.GetTop()
	defer func() {
		if p := recover(); p != nil {
			reply, crashed = "err -", fmt.Sprint(p)
			w.L.SetTop(top)
		}
	}()
	nret := 2
	if eof {
		nret = 1
	}
	finish := func(res []lua.LValue) string {
		if res[0] == lua.LNil {
			return "err -"
		}
		line := "-"
		if !eof {
			line = c16IntNum(res[1])
		}
		return c16PosVal(res[0]) + " " + line
	}
	chunkK := func(pfx string) int {
		k := c16BufSize
		if len(loader) > len(pfx) {
			k, _ = strconv.Atoi(loader[len(pfx):])
		}
		return k
	}
	switch {
	case loader == "ls":
		fn, err := w.L.LoadString(src)
		if err != nil {
			return "err -", ""
		}
		res, emsg, cr := w.call(fn, nret)
		if cr {
			return "err -", emsg
		}
		if res == nil {
			return "err -", ""
		}
		return finish(res), ""
	case loader == "ds":
		if err := w.L.DoString(src); err != nil {
			w.L.SetTop(top)
			return "err -", ""
		}
		res := make([]lua.LValue, 2)
		for i := range res {
			res[i] = w.L.Get(top + 1 + i)
		}
		got := w.L.GetTop() - top
		w.L.SetTop(top)
		if got != nret {
			return "other -", ""
		}
		return finish(res), ""
	case loader == "lua":
		res, emsg, cr := w.call(w.fns["c16_ls"], nret, lua.LString(src))
		if cr {
			return "err -", emsg
		}
		if res == nil {
			return "err -", ""
		}
		return finish(res), ""
	case strings.HasPrefix(loader, "ld"):
		fn, err := w.L.Load(&c16ChunkReader{s: src, k: chunkK("ld")}, "<reader>")
		if err != nil {
			return "err -", ""
		}
		res, emsg, cr := w.call(fn, nret)
		if cr {
			return "err -", emsg
		}
		if res == nil {
			return "err -", ""
		}
		return finish(res), ""
	case strings.HasPrefix(loader, "sc"):
		// the bare scanner: `return`, the literal token (its Str is the denoted text of a string, the spelling of a
		// numeral), then the tokens up to the observing identifier, whose line is reported
		sc := parse.NewScanner(&c16ChunkReader{s: src, k: chunkK("sc")}, "c16")
		lx := &parse.Lexer{}
		step := func() (int, string, int, bool) {
			t, err := sc.Scan(lx)
			if err != nil {
				return 0, "", 0, false
			}
			lx.PrevTokenType = t.Type
			lx.Token = t
			return t.Type, t.Str, t.Pos.Line, true
		}
		ty, _, _, ok := step()
		if !ok || ty != parse.TReturn {
			return "err -", ""
		}
		ty, str, _, ok := step()
		if !ok || (ty != parse.TString && ty != parse.TNumber) {
			return "err -", ""
		}
		val := c16EncT(str)
		for i := 0; i < 4; i++ {
			ty, s2, line, ok := step()
			if !ok {
				return "err -", ""
			}
			if eof {
				if ty != parse.EOF {
					return "err -", ""
				}
				return val + " -", ""
			}
			if ty == parse.TIdent && s2 == "c16_line" {
				return val + " " + strconv.Itoa(line), ""
			}
			if ty != ',' {
				break
			}
		}
		return "err -", ""
	}
	panic("bad loader " + loader)
}

func (w *c16World) execPos(a []string, emit func(string, []string, string), crash func(string, string)) {
	pad, head, lit, tail := c16DecT(a[2]), c16DecT(a[3]), c16DecT(a[4]), c16DecT(a[5])
	eof := a[6] == "1"
	src := pad + "return " + head + lit + tail
	if !eof {
		src += c16PosSuffix
	}
	variant := c16Var.esc
	if lit != "" && (lit[0] == '.' || '0' <= lit[0] && lit[0] <= '9') {
		variant = c16Var.num
	}
	for _, loader := range strings.Split(a[1], ",") {
		reply, cr := w.posLoad(loader, src, eof)
		if cr != "" {
			crash("pos "+loader+" "+strings.Join(a[2:], " "), cr)
			continue
		}
		emit(variant, []string{"pos", loader, a[2], a[3], a[4], a[5], a[6]}, reply)
	}
}

// ---------- probes ----------

type c16PosProbe struct {
	head, lit, tail string
	kind            string
	// filled literals: lit = open ++ fill^m ++ rest, m swept instead of the padding
	open, rest string
}

// c16EndsEarly: does the (generated) string literal close before its last byte?  Then the text after the first
// closer would be further tokens, not part of the probe.
func c16EndsEarly(lit string) bool {
	if lit == "" {
		return true
	}
	if lit[0] == '[' {
		lvl := 0
		for 1+lvl < len(lit) && lit[1+lvl] == '=' {
			lvl++
		}
		closer := "]" + strings.Repeat("=", lvl) + "]"
		i := strings.Index(lit[lvl+2:], closer)
		return i >= 0 && lvl+2+i+len(closer) != len(lit)
	}
	q := lit[0]
	if q != '"' && q != '\'' {
		return false // a numeral
	}
	for i := 1; i < len(lit); i++ {
		if lit[i] == '\\' {
			i++
		} else if lit[i] == q {
			return i != len(lit)-1
		}
	}
	return false
}

var c16Nls = []string{"\n", "\r", "\r\n", "\n\r"}

// c16FixedProbes: every literal form once (bounded-exhaustive over the atoms below).
func c16FixedProbes() []c16PosProbe {
	var ps []c16PosProbe
	add := func(kind, lit string) {
		if !c16EndsEarly(lit) { // e.g. `[[` `]` `]]`: the atom merges with the closer
			ps = append(ps, c16PosProbe{lit: lit, tail: ",", kind: kind})
		}
	}
	// short strings: every escape, decimal escapes of every width, line continuations of every spelling
	var atoms []string
	for _, e := range []string{"a", "b", "f", "n", "r", "t", "v", "\\", "\"", "'", "q", "-", "0", "9", "10", "065", "255", "0651", "1a", "00", "256", "300"} {
		atoms = append(atoms, "\\"+e)
	}
	for _, nl := range c16Nls {
		atoms = append(atoms, "\\"+nl)
	}
	atoms = append(atoms, "\\\r\n\\\n\r", "\\\n\\\r", "\\\r\\\n", "\\\n\r\\\r\n", "\\\r\n\\\r\n", "\\\n\\\n", "\x00", "\xff", "--", "]]", "[[",
		"\n", "\r\n", "\\\r\n\n", "\\\n\r\r") // raw line ends: malformed wherever they stand
	for i, at := range atoms {
		add("short", "\"x"+at+"y\"")
		if i%3 == 0 || strings.ContainsAny(at, "\r\n") {
			add("short", "'"+at+"'")
		}
	}
	add("short", "\"\"")
	add("short", "''")
	add("short", "\"abc") // unterminated
	// long brackets, level 0..3: first-newline skip, embedded line ends, near-closers
	var latoms []string
	for _, nl := range c16Nls {
		latoms = append(latoms, nl, nl+"x", "x"+nl, "x"+nl+"y", nl+nl)
	}
	latoms = append(latoms, "", "x", "]x", "]=x", "\r\n\n", "\n\r\r", "\r\n\r\n", "\n\r\n\r", "\r\r\n", "\n\n\r", "x\r\n\n\ry", "x\n\r\r\ny", "\r\n\n\r", "]", "]=", "x]", "]x]", "\\n", "\\\r\n", "\"", "--")
	for lvl := 0; lvl <= 3; lvl++ {
		eq := strings.Repeat("=", lvl)
		for i, at := range latoms {
			// all atoms on levels 0 and 2; on levels 1 and 3 the line-end atoms (the level matters to the closer only)
			if lvl%2 == 0 || i < 20 && i%5 != 1 || at == "]" || at == "]=" || at == "" {
				add("long"+strconv.Itoa(lvl), "["+eq+"["+at+"]"+eq+"]")
			}
		}
		// closers of the other levels are content
		for l2 := 0; l2 <= 3; l2++ {
			if l2 != lvl {
				add("long"+strconv.Itoa(lvl), "["+eq+"[a]"+strings.Repeat("=", l2)+"]\r\n]"+eq+"]")
			}
		}
		add("long"+strconv.Itoa(lvl), "["+eq+"[abc") // unterminated
	}
	// numerals
	for _, n := range []string{"0", "7", "42", "007", "3.5", ".5", "5.", "0.1", "1e2", "1E+2", "1e-2", "12.5e3", "0x10", "0XfF", "0xA", "1e308", "1e309",
		"9007199254740993", "123456789012345678901234567890", "3e", "0x", "1..2", "3b", "1e+", "0xg", "08"} {
		add("numeral", n)
	}
	// comments and blanks between `return` and the literal, and between the literal and the next token
	heads := []string{"--c\n", "--c\r", "--c\r\n", "--c\n\r", "--\r\n", "--[c\n\r", "--[[c]]", "--[[\r\n]]", "--[==[\n\r]]\r]=]\n]==]", "--[=[]=]--[[]]", " \r\n ", "\n\r", "\f\v\t", "--[=\r\n"}
	tails := []string{" ,", "\r\n,", "\n\r,", "\r,\n", "--c\r\n,", "--[[\n\r]],", ",--[=[\r\n]=]\n\r"}
	for _, lit := range []string{"\"a\\\r\nb\"", "[=[\r\na\n\rb]=]", "7"} {
		for _, h := range heads {
			ps = append(ps, c16PosProbe{head: h, lit: lit, tail: ",", kind: "head"})
		}
		for _, t := range tails {
			ps = append(ps, c16PosProbe{lit: lit, tail: t, kind: "tail"})
		}
	}
	return ps
}

// c16FillProbes: literals whose interesting part stands behind filler that is content of the same literal.
func c16FillProbes() []c16PosProbe {
	var ps []c16PosProbe
	var rests []string
	for _, nl := range c16Nls {
		rests = append(rests, "\\"+nl+"b")
	}
	rests = append(rests, "\\n", "\\065", "\\0651", "\\9", "\\\\", "\\\"", "\\\r\n\\\n\r", "\\\r\\\n")
	for _, r := range rests {
		ps = append(ps, c16PosProbe{open: "\"", rest: r + "\"", tail: ",", kind: "fill-short"})
	}
	for _, nl := range c16Nls {
		ps = append(ps, c16PosProbe{open: "'", rest: "\\" + nl + "'", tail: ",", kind: "fill-short"})
	}
	for lvl := 0; lvl <= 3; lvl++ {
		eq := strings.Repeat("=", lvl)
		var lr []string
		for _, nl := range c16Nls {
			lr = append(lr, nl+"b", nl)
		}
		lr = append(lr, "\r\n\n\r", "\n\r\r\n", "\r\r\n", "\n\n\r", "]", "]=", "]x")
		for _, r := range lr {
			if !c16EndsEarly("[" + eq + "[a" + r + "]" + eq + "]") {
				ps = append(ps, c16PosProbe{open: "[" + eq + "[", rest: r + "]" + eq + "]", tail: ",", kind: "fill-long" + strconv.Itoa(lvl)})
			}
		}
	}
	return ps
}

// c16PosCases builds the cases of the family.  Everything is enumerated; the seed chooses the random probes, which
// second padding kind a probe gets and the rotation of the secondary loaders.
func c16PosCases(run *Run, root *Rng, addCase func([]Op, string), noteShape func(string, string)) {
	thorough := run.Tier == "thorough"
	probes := c16FixedProbes()
	nFixed := len(probes)
	// seed-derived probes from the ordinary literal generators
	nRand := 60
	if thorough {
		nRand = 1500
	}
	rr := root.Fork(9100000)
	for len(probes) < nFixed+nRand {
		var lit, kind string
		if rr.Chance(25) {
			lit, kind = c16GenValidNumeral(rr)
			kind = "numeral"
		} else {
			lit, kind = c16GenStringLiteral(rr)
			if c16EndsEarly(lit) {
				continue
			}
		}
		if len(lit) > 48 {
			continue
		}
		p := c16PosProbe{lit: lit, tail: ",", kind: "rand-" + kind}
		if rr.Chance(30) {
			p.head = Pick(rr, []string{"--c\r\n", "--[[\n\r]]", "\r\n", "--[=[x]=] ", "\n\r--\n\r"})
		}
		if rr.Chance(20) {
			p.tail = Pick(rr, []string{" ,", "\r\n,", "\n\r ,", "--\r\n,"})
		}
		noteShape("pos", lit)
		probes = append(probes, p)
	}
	bounds := []int{c16BufSize, 2 * c16BufSize}
	if thorough {
		bounds = append(bounds, 3*c16BufSize, 5*c16BufSize)
	}
	mk := func(loaders string, pad []c16Seg, p c16PosProbe, lit string, eof bool) Op {
		e, tail := "0", p.tail
		if eof { // the chunk ends after the literal and the blanks/comments that follow it
			e, tail = "1", p.tail[:strings.IndexByte(p.tail, ',')]
		}
		return Op{Args: []string{"pos", loaders, c16SegsTok(pad), c16Hex(p.head), lit, c16Hex(tail), e}}
	}
	for pi, p := range probes {
		run.Hist["pos:"+p.kind]++
		body := len("return ") + len(p.head) + len(p.lit) + len(p.tail)
		lit := c16Hex(p.lit)
		// (1) padding sweeps over the read-buffer boundaries: blanks below the first boundary; above it padding that
		// has line ends and comments of its own (it crosses the lower boundaries at every alignment)
		rot := pi + int(run.Seed)
		for bi, B := range bounds {
			var ops []Op
			kind := "sp"
			if bi > 0 {
				kind = c16PadKinds[(rot+bi)%len(c16PadKinds)]
			}
			for n := B - body - 2; n <= B+2; n++ {
				if n < 0 {
					continue
				}
				// LoadString always, the other loaders in turn (they share the scanner; the bare scanner most often)
				loaders := "ls," + []string{"sc", "ds", "sc", "lua"}[(rot+n)%4]
				if bi > 0 {
					loaders = []string{"ls", "sc", "ds", "lua"}[(rot+n)%4]
				}
				eofLoaders := loaders
				ops = append(ops, mk(loaders, c16Pad(kind, n, c16BufSize), p, lit, false))
				// the chunk ends with the literal, on either side of the boundary
				if end := n + body - len(p.tail) + strings.IndexByte(p.tail, ','); B-2 <= end && end <= B+2 {
					ops = append(ops, mk(eofLoaders, c16Pad(kind, n, c16BufSize), p, lit, true))
				}
			}
			addCase(ops, "pos-pad")
		}
		// (2) offset 0 through every loader (the reference the padded chunks are compared with, via the Spec), then
		// readers that deliver the chunk in small pieces: a refill after every piece
		ops := []Op{mk("ls,ds,lua,sc", nil, p, lit, false), mk("ls,ds,lua,sc", nil, p, lit, true)}
		for _, k := range []int{1, 2, 3, 5, 7} {
			for n := 0; n < k; n++ {
				ld := "ld" + strconv.Itoa(k) + ",sc" + strconv.Itoa(k)
				ops = append(ops, mk(ld, c16Pad("sp", n, k), p, lit, false))
				if n == 0 {
					ops = append(ops, mk(ld, c16Pad("sp", n, k), p, lit, true))
				}
			}
		}
		// pieces of 1000 bytes: the literal over the second refill, the padding's own line ends over the first
		for k, n := 1000, 2000-body-2; n <= 2000+2; n++ {
			ld := []string{"ld1000", "sc1000"}[(rot+n)%2]
			kind := append([]string{"sp"}, c16PadKinds...)[(rot+n/2)%(len(c16PadKinds)+1)]
			ops = append(ops, mk(ld, c16Pad(kind, n, k), p, lit, false))
		}
		addCase(ops, "pos-pieces")
	}
	// (3) the boundary inside the literal: the filler is content of the literal itself.  (The engine has to
	// materialise these literals: fewer of them, and most behind a reader that delivers 1000-byte pieces.)
	for pi, p := range c16FillProbes() {
		run.Hist["pos:"+p.kind]++
		rot := pi + int(run.Seed)
		type plan struct {
			B       int
			loaders []string
		}
		plans := []plan{{c16BufSize, []string{"ls", "ds", "lua", "sc"}}, {1000, []string{"ld1000", "sc1000"}}}
		if thorough {
			plans = append(plans, plan{2 * c16BufSize, []string{"ls", "sc"}}, plan{3 * c16BufSize, []string{"ds", "lua"}})
		}
		for _, pl := range plans {
			var ops []Op
			hi := pl.B + 2 - len("return ") - len(p.open)
			for m := hi - len(p.rest) - 4; m <= hi; m++ {
				q := p
				q.lit = p.open + strings.Repeat("a", m) + p.rest
				lit := c16SegsTok([]c16Seg{{1, p.open}, {m, "a"}, {1, p.rest}})
				ops = append(ops, mk(pl.loaders[(rot+m)%len(pl.loaders)], nil, q, lit, false))
			}
			addCase(ops, "pos-fill")
		}
	}
}
