package main

// C17 — line table of the compile model (family "linetab" of the C17M check).
//
// Programs of the C01M fragment (conditions, logical / relational / arithmetic operators, unary minus, #, .., local and
// multiple assignment, if / while / repeat / return: the statement language whose compilation is modelled function by
// function in lean/GLua/Model/Compile*.lean) are rendered TOKEN BY TOKEN in multi-line layouts; the renderer records the
// line of every token that begins or ends a construct.  The text is compiled with the REAL compiler (parse.Parse +
// lua.Compile) and FunctionProto.DbgSourcePositions is sent, together with the token-annotated program, to the Lean
// engine C17L, which compares it entry by entry with `compLines` (Model/CompileLines.lean: the transcription of the
// `line` argument of every Add call of compile.go, of Pop / SetA, and of the parser actions that give every AST node
// its line) and checks the property on the implementation's answer (every entry within the span of the statement that
// wrote it).
//
//   op:       linetab <layout> <seed> <mprog tokens …>        (self-contained: replay / shrinking need nothing else)
//   request:  C17L linetab <tprog> => P <line>* | compile-error …
//   op:       errline <layout> <seed> <mprog tokens …> ; L <val>* ; G <val>*
//   request:  C17L errline <tprog> ; L <val>* ; G <val>* => line <n> | noline | ok
//             the same rendered text RUN on the real VM with the locals / atoms set so that operations raise: the line the
//             error message names vs `compLines[pc]` for the pc at which the MiniVM (on the model's code) faults, and vs the
//             span of the statement that wrote that instruction.
//
// Layouts: 0 one statement per line (the C01M renderer's layout), 1 every token on its own line, 2 random line breaks
// (1-3) between tokens, 3 random line breaks + blank lines + line comments + block comments spanning lines,
// 4 the whole chunk on one line, 5 break only inside expressions (around operators / parentheses).
// Parentheses: an operand that is not a leaf is always parenthesised (1 or 2 pairs), a leaf with probability 1/2
// (`'(' expr ')'` gives the inner node the line of the opening parenthesis; a unary operator node gets the line of its
// OPERAND: both rules need operands with and without parentheses on other lines than the operator).

import (
	"fmt"
	"regexp"
	"strconv"
	"strings"
	"sync/atomic"
	"time"

	lua "github.com/yuin/gopher-lua"
)

type ltw struct {
	sb     strings.Builder
	line   int
	r      *Rng
	layout int
	first  bool
	inExpr bool
	out    []string
}

func newLtw(layout int, seed uint64) *ltw {
	return &ltw{line: 1, r: NewRng(seed), layout: layout, first: true}
}

func (w *ltw) nl(k int) {
	for i := 0; i < k; i++ {
		w.sb.WriteByte('\n')
		w.line++
	}
}

// sep writes the separator before the next token. stmtStart: the token begins a statement.
func (w *ltw) sep(stmtStart bool) {
	if w.first {
		w.first = false
		if w.layout == 3 && w.r.Chance(30) {
			w.sb.WriteString("-- header comment")
			w.nl(w.r.Range(1, 3))
		}
		return
	}
	switch w.layout {
	case 0:
		if stmtStart {
			w.nl(1)
		} else {
			w.sb.WriteByte(' ')
		}
	case 1:
		w.nl(1)
	case 2:
		if w.r.Chance(40) {
			w.nl(w.r.Range(1, 3))
		} else {
			w.sb.WriteByte(' ')
		}
	case 3:
		switch w.r.Intn(10) {
		case 0, 1, 2:
			w.nl(w.r.Range(1, 3))
		case 3:
			w.sb.WriteString(" -- c")
			w.nl(w.r.Range(1, 2))
		case 4:
			w.sb.WriteString(" --[[ a")
			w.nl(w.r.Range(1, 3))
			w.sb.WriteString("b ]] ")
		case 5:
			w.sb.WriteString(" --[==[ ]] ]==] ")
		default:
			w.sb.WriteByte(' ')
		}
	case 4:
		w.sb.WriteByte(' ')
	case 5:
		if stmtStart {
			w.nl(1)
		} else if w.inExpr && w.r.Chance(50) {
			w.nl(w.r.Range(1, 2))
		} else {
			w.sb.WriteByte(' ')
		}
	}
}

func (w *ltw) tok(s string, stmtStart bool) int {
	w.sep(stmtStart)
	w.sb.WriteString(s)
	return w.line
}

func (w *ltw) emit(ts ...string) { w.out = append(w.out, ts...) }

func (c *cnd) isLeaf() bool {
	switch c.k {
	case "T", "F", "N", "n", "s", "l", "g":
		return true
	}
	return false
}

// operand renders c as an operand: with 0, 1 or 2 pairs of parentheses.
func (w *ltw) operand(c *cnd) {
	n := 1
	if c.isLeaf() {
		n = w.r.Intn(2)
	} else if w.r.Chance(10) {
		n = 2
	}
	w.parens(c, n)
}

func (w *ltw) parens(c *cnd, n int) {
	if n == 0 {
		w.cond(c)
		return
	}
	op := w.tok("(", false)
	w.emit("(", strconv.Itoa(op), "")
	slot := len(w.out) - 1
	w.parens(c, n-1)
	cl := w.tok(")", false)
	w.out[slot] = strconv.Itoa(cl)
}

// cond renders c (top level of an expression position: no parentheses of its own, except at random).
func (w *ltw) cond(c *cnd) {
	switch c.k {
	case "T", "F", "N", "n", "s", "l", "g":
		var text, wire string
		switch c.k {
		case "T":
			text, wire = "true", "T"
		case "F":
			text, wire = "false", "F"
		case "N":
			text, wire = "nil", "N"
		case "n":
			text, wire = strconv.Itoa(c.n), "n"+strconv.Itoa(c.n)
		case "s":
			text, wire = strconv.Quote(c.s), "s"+c.s
		case "l":
			text, wire = "l"+strconv.Itoa(c.n), "l"+strconv.Itoa(c.n)
		case "g":
			text, wire = "g"+strconv.Itoa(c.n), "g"+strconv.Itoa(c.n)
		}
		ln := w.tok(text, false)
		w.emit(wire, strconv.Itoa(ln))
	case "not", "@unm", "@len":
		sym := map[string]string{"not": "not", "@unm": "-", "@len": "#"}[c.k]
		tk := w.tok(sym, false)
		w.emit(c.k, strconv.Itoa(tk))
		w.operand(c.a)
	default:
		sym, ok := c01binSym[c.k]
		if !ok {
			sym = c.k // and / or
		}
		w.emit(c.k)
		w.operand(c.a)
		w.tok(sym, false)
		w.operand(c.b)
	}
}

// expr renders an expression position (right-hand side, condition, return value).
func (w *ltw) expr(c *cnd) {
	save := w.inExpr
	w.inExpr = true
	if w.r.Chance(15) {
		w.parens(c, 1)
	} else {
		w.cond(c)
	}
	w.inExpr = save
}

func (w *ltw) block(b []*stm, top int) {
	w.emit(strconv.Itoa(len(b)))
	for _, s := range b {
		switch s.k {
		case "if":
			ln := w.tok("if", true)
			w.emit("if", strconv.Itoa(ln))
			w.expr(s.c)
			w.emit(strconv.Itoa(w.tok("then", false)))
			w.block(s.b1, top)
			if len(s.b2) > 0 {
				w.emit(strconv.Itoa(w.tok("else", true)))
				w.block(s.b2, top)
			} else {
				w.emit("0", "0")
			}
			w.emit(strconv.Itoa(w.tok("end", true)))
		case "while":
			ln := w.tok("while", true)
			w.emit("while", strconv.Itoa(ln))
			w.expr(s.c)
			w.emit(strconv.Itoa(w.tok("do", false)))
			w.block(s.b1, top)
			w.emit(strconv.Itoa(w.tok("end", true)))
		case "repeat":
			ln := w.tok("repeat", true)
			w.emit("repeat", strconv.Itoa(ln))
			w.block(s.b1, top)
			w.emit(strconv.Itoa(w.tok("until", true)))
			w.expr(s.c)
		case "ret":
			ln := w.tok("return", true)
			w.emit("ret", strconv.Itoa(ln), strconv.Itoa(len(s.rhs)))
			for i, c := range s.rhs {
				if i > 0 {
					w.tok(",", false)
				}
				w.expr(c)
			}
		case "local":
			ln := w.tok("local", true)
			w.emit("local", strconv.Itoa(ln))
			w.tok("l"+strconv.Itoa(top), false)
			w.tok("=", false)
			w.expr(s.c)
			top++
		case "assign":
			w.emit("assign", strconv.Itoa(len(s.targets)))
			for i, t := range s.targets {
				if i > 0 {
					w.tok(",", false)
				}
				ln := w.tok(t, i == 0)
				w.emit(t, strconv.Itoa(ln))
			}
			w.tok("=", false)
			w.emit(strconv.Itoa(len(s.rhs)))
			for i, c := range s.rhs {
				if i > 0 {
					w.tok(",", false)
				}
				w.expr(c)
			}
		}
	}
}

// renderLineTab: (source text, token-annotated program in wire form)
func renderLineTab(p *mprog, layout int, seed uint64) (string, []string) {
	w := newLtw(layout, seed)
	localLn, dotsLn := 0, 0
	if p.nlocals > 0 {
		localLn = w.tok("local", true)
		for i := 0; i < p.nlocals; i++ {
			if i > 0 {
				w.tok(",", false)
			}
			w.tok("l"+strconv.Itoa(i), false)
		}
		w.tok("=", false)
		dotsLn = w.tok("...", false)
	}
	w.emit(strconv.Itoa(p.nlocals), strconv.Itoa(localLn), strconv.Itoa(dotsLn))
	w.block(p.body, p.nlocals)
	if w.layout == 3 && w.r.Chance(50) {
		w.sb.WriteString("\n-- trailing comment\n\n")
	} else if w.r.Chance(50) {
		w.sb.WriteByte('\n')
	}
	return w.sb.String(), w.out
}

func execLineTab(op Op) []string {
	a := op.Args
	if len(a) < 4 {
		return []string{"X bad-linetab-op => " + strings.Join(a, " ")}
	}
	layout, _ := strconv.Atoi(a[1])
	seed, _ := strconv.ParseUint(a[2], 10, 64)
	var p *mprog
	func() {
		defer func() {
			if r := recover(); r != nil {
				p = nil
			}
		}()
		p, _ = parseMProg(a[3:])
	}()
	if p == nil {
		return []string{"X bad-program => " + strings.Join(a, " ")}
	}
	src, wire := renderLineTab(p, layout, seed)
	proto, errs := compileReal(src)
	if strings.HasPrefix(errs, "gopanic") || strings.HasPrefix(errs, "syntax") {
		return []string{"X " + strings.ReplaceAll(errs, " ", "_") + " => " + strings.ReplaceAll(strings.ReplaceAll(src, "\n", "\\n"), " ", "_")}
	}
	reply := errs
	if proto != nil {
		parts := []string{"P"}
		for _, l := range proto.DbgSourcePositions {
			parts = append(parts, strconv.Itoa(l))
		}
		reply = strings.Join(parts, " ")
		if len(proto.DbgSourcePositions) != len(proto.Code) {
			return []string{"X len(DbgSourcePositions)!=len(Code) => " + strings.Join(a, " ")}
		}
	}
	return []string{"C17L linetab " + strings.Join(wire, " ") + " => " + reply}
}

var ltErrLineRe = regexp.MustCompile(`^<string>:(\d+):`)

// runErrLine runs the chunk with the given locals (chunk arguments) and atoms (globals g0..) on the real VM:
// "line N" (a run-time error whose message starts with <string>:N:), "noline" (an error without a position), "ok".
func runErrLine(src string, lv, gv []string) string {
	L := lua.NewState(lua.Options{SkipOpenLibs: true})
	defer L.Close()
	// instruction budget, not a wall-clock limit (the generated loops are bounded: a program that exhausts it loops)
	ctx, cancel := newBudgetCtxWithBackstop(2000000, 2*time.Minute)
	defer cancel()
	L.SetContext(ctx)
	fn, err := L.LoadString(src)
	if err != nil {
		return "syntax"
	}
	for i, g := range gv {
		L.SetGlobal("g"+strconv.Itoa(i), decWire(g))
	}
	args := make([]lua.LValue, len(lv))
	for i, v := range lv {
		args[i] = decWire(v)
	}
	res := "ok"
	func() {
		defer func() {
			if r := recover(); r != nil {
				res = "GOPANIC " + fmt.Sprint(r)
			}
		}()
		if err := L.CallByParam(lua.P{Fn: fn, NRet: lua.MultRet, Protect: true}, args...); err != nil {
			if ctx.Err() != nil {
				res = "TIMEOUT"
				return
			}
			msg := err.Error()
			if ae, ok := err.(*lua.ApiError); ok {
				if ae.Type == lua.ApiErrorPanic {
					res = "GOPANIC " + msg
					return
				}
				if ae.Object != nil {
					msg = ae.Object.String()
				}
			}
			if m := ltErrLineRe.FindStringSubmatch(msg); m != nil {
				res = "line " + m[1]
			} else {
				res = "noline"
			}
		}
	}()
	return res
}

var ltSkippedConv, ltErrWithLine, ltErrNoLine, ltNoErr int64

// errline <layout> <seed> <mprog tokens> ; L v* ; G v*
func execErrLine(op Op) []string {
	a := op.Args
	if len(a) < 4 {
		return []string{"X bad-errline-op => " + strings.Join(a, " ")}
	}
	layout, _ := strconv.Atoi(a[1])
	seed, _ := strconv.ParseUint(a[2], 10, 64)
	var p *mprog
	var rest []string
	func() {
		defer func() {
			if r := recover(); r != nil {
				p = nil
			}
		}()
		p, rest = parseMProg(a[3:])
	}()
	if p == nil {
		return []string{"X bad-program => " + strings.Join(a, " ")}
	}
	var lv, gv []string
	mode := ""
	for _, t := range rest {
		switch t {
		case ";":
		case "L", "G":
			mode = t
		default:
			if mode == "L" {
				lv = append(lv, t)
			} else {
				gv = append(gv, t)
			}
		}
	}
	src, wire := renderLineTab(p, layout, seed)
	r := runErrLine(src, lv, gv)
	if strings.HasPrefix(r, "GOPANIC") || r == "TIMEOUT" || r == "syntax" {
		return []string{"X " + strings.ReplaceAll(r, " ", "_") + " => " + strings.Join(a, " ")}
	}
	if blockHasConv(p.body) && runTwinUnsafe(p.luaT(true), lv, gv) {
		// number<->text conversions outside the run tie's value domain (see c01_mech.go): executed, not compared
		atomic.AddInt64(&ltSkippedConv, 1)
		return nil
	}
	switch {
	case strings.HasPrefix(r, "line "):
		atomic.AddInt64(&ltErrWithLine, 1)
	case r == "noline":
		atomic.AddInt64(&ltErrNoLine, 1)
	default:
		atomic.AddInt64(&ltNoErr, 1)
	}
	req := append([]string{"C17L", "errline"}, wire...)
	req = append(req, ";", "L")
	req = append(req, lv...)
	req = append(req, ";", "G")
	req = append(req, gv...)
	return []string{strings.Join(req, " ") + " => " + r}
}

// errLineCases: random programs / deep expressions of the full expression language in every layout, each run under
// valuations that make operations raise (nil / booleans / non-numeric strings among the operands).
func errLineCases(root *Rng, thorough bool) [][]string {
	var res [][]string
	n := 700
	if thorough {
		n = 10000
	}
	add := func(r *Rng, p *mprog, layout int) {
		toks := p.toks()
		seed := strconv.FormatUint(r.U64()>>1, 10)
		for k := 0; k < 2; k++ {
			var lvs, gvs [][]string
			if k == 0 {
				lvs, gvs = valuationsX(r, p.nlocals, 1), valuationsX(r, nAtoms, 1)
			} else {
				lvs, gvs = valuations(r, p.nlocals, 1), valuations(r, nAtoms, 1)
			}
			a := append([]string{"errline", strconv.Itoa(layout), seed}, toks...)
			a = append(a, ";", "L")
			a = append(a, lvs[0]...)
			a = append(a, ";", "G")
			a = append(a, gvs[0]...)
			res = append(res, a)
		}
	}
	for i := 0; i < n; i++ {
		r := root.Fork(uint64(200_000_000 + i))
		nl := r.Range(1, 4)
		add(r, &mprog{nlocals: nl, body: genBlockX(r, r.Range(1, 3), nl, r.Range(1, 4), true, 45)}, 1+i%5)
	}
	for i := 0; i < n; i++ {
		r := root.Fork(uint64(210_000_000 + i))
		add(r, inContext(r.Intn(nCtx), genCondX(r, r.Range(3, 6), 3, 55)), 1+i%5)
	}
	bin, un, chains := enumArithTrees()
	for fi, fam := range [][]*cnd{bin, un, chains} {
		for ti, t := range fam {
			r := root.Fork(uint64(220_000_000 + fi*1_000_000 + ti))
			keep := 4
			if thorough {
				keep = 60
			}
			if !r.Chance(keep) {
				continue
			}
			add(r, inContext(r.Intn(nCtx), t), 1+r.Intn(5))
		}
	}
	return res
}

// lineTabCases: the programs of the C01M families, each in a layout chosen by index / seed.
func lineTabCases(root *Rng, thorough bool) [][]string {
	var res [][]string
	n := 0
	add := func(r *Rng, p *mprog, layout int) {
		args := []string{"linetab", strconv.Itoa(layout), strconv.FormatUint(r.U64()>>1, 10)}
		res = append(res, append(args, p.toks()...))
		n++
	}
	pct := func(quick int) int {
		if thorough {
			return 100
		}
		return quick
	}
	// (1) bounded-exhaustive condition trees x the 12 contexts (sampled in quick)
	rich := enumTrees(2, leafAlphabet(true, 3), true)
	for ti, t := range rich {
		for ctx := 0; ctx < nCtx; ctx++ {
			r := root.Fork(uint64(1_000_000 + ti*nCtx + ctx))
			if !r.Chance(pct(8)) {
				continue
			}
			add(r, inContext(ctx, t), 1+r.Intn(5))
		}
	}
	deep := enumTrees(3, leafAlphabet(false, 3), false)
	for ti, t := range deep {
		for ctx := 0; ctx < nCtx; ctx++ {
			r := root.Fork(uint64(5_000_000 + ti*nCtx + ctx))
			keepDeep := 1
			if thorough {
				keepDeep = 30
			}
			if !r.Chance(keepDeep) {
				continue
			}
			add(r, inContext(ctx, t), 1+r.Intn(5))
		}
	}
	// (2) every assignment shape
	for si, p := range enumAssignShapes(3, 3) {
		r := root.Fork(uint64(20_000_000 + si))
		if !r.Chance(pct(15)) {
			continue
		}
		add(r, p, 1+r.Intn(5))
	}
	// (3) arithmetic / unary / concatenation operand classes x contexts
	bin, un, chains := enumArithTrees()
	for fi, fam := range []struct {
		trees []*cnd
		keep  int
	}{{bin, 1}, {un, 25}, {chains, 3}} {
		for ti, t := range fam.trees {
			for ctx := 0; ctx < nCtx; ctx++ {
				r := root.Fork(uint64(60_000_000 + fi*10_000_000 + ti*nCtx + ctx))
				if !r.Chance(pct(fam.keep)) {
					continue
				}
				add(r, inContext(ctx, t), 1+r.Intn(5))
			}
		}
	}
	// (4) random programs and deep expressions of the full expression language, every layout
	nRand := 900
	if thorough {
		nRand = 12000
	}
	for i := 0; i < nRand; i++ {
		r := root.Fork(uint64(100_000_000 + i))
		nl := r.Range(0, 4)
		p := &mprog{nlocals: nl, body: genBlockX(r, r.Range(1, 3), nl, r.Range(1, 4), true, 45)}
		if nl == 0 {
			p = &mprog{nlocals: 0, body: []*stm{{k: "assign", targets: []string{"g0"}, rhs: []*cnd{genCondX(r, 3, 0, 40)}}}}
		}
		add(r, p, i%6)
	}
	for i := 0; i < nRand; i++ {
		r := root.Fork(uint64(110_000_000 + i))
		add(r, inContext(r.Intn(nCtx), genCondX(r, r.Range(3, 6), 3, 55)), i%6)
	}
	// (5) chunk shapes around the final RETURN: empty chunk, prologue only, compound statement last
	for i, p := range []*mprog{
		{nlocals: 0}, {nlocals: 2},
		{nlocals: 1, body: []*stm{{k: "while", c: loc(0), b1: []*stm{retS(num(1))}}}},
		{nlocals: 1, body: []*stm{{k: "if", c: loc(0), b1: []*stm{retS(num(1))}, b2: []*stm{retS()}}}},
		{nlocals: 1, body: []*stm{{k: "repeat", b1: []*stm{{k: "local", c: num(1)}}, c: cn("and", loc(1), cn("lt", loc(0), num(2)))}}},
		{nlocals: 1, body: []*stm{{k: "local", c: cn("@cat", loc(0), cn("@cat", num(1), str("a")))}}},
		{nlocals: 0, body: []*stm{retS()}},
	} {
		for layout := 0; layout < 6; layout++ {
			add(root.Fork(uint64(130_000_000+i*6+layout)), p, layout)
		}
	}
	return res
}
