package main

// C17, loader independence of positions: the lines a chunk's errors and debug.getinfo report are a function of the
// chunk's text, whichever entry point loaded it. The same text is loaded through LoadString, Load (a reader), LoadFile,
// DoFile, and Lua's loadstring / loadfile / dofile; for the file loaders also behind a `#` first line (which the loaders
// skip but which still counts as line 1) with LF, CRLF and CR after it. Every variant must report the lines of the
// LoadString run (wave-6 seeded change C17-m11: LoadFile swallowed the line feed of the skipped `#` line).
// Impl vs Impl (metamorphic); the absolute lines are the subject of the other C17 families.

import (
	"fmt"
	"os"
	"path/filepath"
	"strings"

	lua "github.com/yuin/gopher-lua"
)

var c17LoaderBodies = []string{
	"local a = 1\nlocal t = nil\nOUT[#OUT+1] = debug.getinfo(1, 'l').currentline\nlocal function f()\n  OUT[#OUT+1] = debug.getinfo(1, 'S').linedefined\n  OUT[#OUT+1] = debug.getinfo(1, 'S').lastlinedefined\n  return t.x\nend\nOUT[#OUT+1] = select(2, pcall(f))\nerror('boom')\n",
	"\n\nlocal s = 'x'\nOUT[#OUT+1] = select(2, pcall(function() return s + 1 end))\nOUT[#OUT+1] = select(2, pcall(error, 'lvl', 1))\nOUT[#OUT+1] = debug.traceback('tb', 1)\nlocal u = nil\nu()\n",
	"OUT[#OUT+1] = debug.getinfo(1, 'l').currentline\nfor i = 1, 2 do\n  OUT[#OUT+1] = debug.getinfo(1, 'l').currentline\nend\nreturn (nil)[1]\n",
}

func c17LoaderRun(kind, text, file string) string {
	L := lua.NewState()
	defer L.Close()
	out := L.NewTable()
	L.SetGlobal("OUT", out)
	var err error
	protect := func(f func() error) {
		defer func() {
			if r := recover(); r != nil {
				err = fmt.Errorf("GOPANIC %v", r)
			}
		}()
		err = f()
	}
	call := func(fn *lua.LFunction, e error) error {
		if e != nil {
			return e
		}
		L.Push(fn)
		return L.PCall(0, lua.MultRet, nil)
	}
	switch kind {
	case "LoadString":
		protect(func() error { return call(L.LoadString(text)) })
	case "Load":
		protect(func() error { return call(L.Load(strings.NewReader(text), "<string>")) })
	case "LoadFile":
		protect(func() error { return call(L.LoadFile(file)) })
	case "DoFile":
		protect(func() error { return L.DoFile(file) })
	case "loadstring":
		L.SetGlobal("TEXT", lua.LString(text))
		protect(func() error { return L.DoString("local f = assert(loadstring(TEXT, '<string>')) TEXT = nil f()") })
	case "loadfile":
		L.SetGlobal("FILE", lua.LString(file))
		protect(func() error { return L.DoString("local f = assert(loadfile(FILE)) f()") })
	case "dofile":
		L.SetGlobal("FILE", lua.LString(file))
		protect(func() error { return L.DoString("dofile(FILE)") })
	}
	var parts []string
	out.ForEach(func(_, v lua.LValue) { parts = append(parts, v.String()) })
	if err != nil {
		parts = append(parts, "ERR "+err.Error())
	}
	// chunk names differ between loaders, and tracebacks contain the frames of the loading statement: keep the first
	// line of every entry (the position and the message)
	for k, p := range parts {
		if nl := strings.IndexAny(p, "\r\n"); nl >= 0 {
			p = p[:nl]
		}
		p = strings.ReplaceAll(p, file, "<string>")
		parts[k] = strings.ReplaceAll(p, filepath.Base(file), "<string>")
	}
	s := strings.Join(parts, " | ")
	return s
}

// c17LoaderIndependence returns one line per deviation.
func c17LoaderIndependence() []string {
	dir, err := os.MkdirTemp("", "c17ld-")
	if err != nil {
		return nil
	}
	defer os.RemoveAll(dir)
	var bad []string
	n := 0
	for bi, body := range c17LoaderBodies {
		for _, eol := range []string{"\n", "\r\n", "\r"} {
			text := strings.ReplaceAll(body, "\n", eol)
			// reference: the text with an ordinary comment as first line, through LoadString
			for hi, head := range []string{"", "#!/usr/bin/env glua", "# c", "#"} {
				full := text
				ref := text
				if head != "" && eol == "\r" {
					continue // the loaders skip a `#` line up to the next LF (as luaL_loadfile does): a CR-only file is one line
				}
				if head != "" {
					full = head + eol + text
					ref = "--" + eol + text
				}
				file := filepath.Join(dir, fmt.Sprintf("chunk_%d_%d_%d.lua", bi, len(eol)*10+int(eol[0]), hi))
				if os.WriteFile(file, []byte(full), 0o644) != nil {
					continue
				}
				want := c17LoaderRun("LoadString", ref, file)
				kinds := []string{"LoadFile", "DoFile", "loadfile", "dofile"}
				if head == "" {
					kinds = append(kinds, "Load", "loadstring")
				}
				for _, k := range kinds {
					n++
					got := c17LoaderRun(k, full, file)
					if got != want {
						bad = append(bad, fmt.Sprintf("X loader-positions => %s head=%q eol=%q body=%d got=%q want=%q", k, head, eol, bi,
							strings.ReplaceAll(got, "\n", "\\n"), strings.ReplaceAll(want, "\n", "\\n")))
					}
				}
			}
		}
	}
	c17LoaderRuns = n
	return bad
}

var c17LoaderRuns int
