package main

// C17M — mechanism part of C17 (error positions and debug queries).
//
// Five case families, all driven from the seed:
//   sim    block-structured event lists executed on the REAL funcContext (RegisterLocalVar / EnterBlock /
//          LeaveBlock / EndScope through the hook VerifScopeSim) and on the real LFunction.LocalName; replayed on the
//          Lean Model (exact) and the Lean Spec (variables in scope at every instr).
//   prog   generated Lua programs (nested blocks, loops, shadowing, closures, varargs, methods) rendered in a
//          layout, instrumented with host functions probe/lprobe/probe2/setl/uprobe/setu/expect; every probe reports
//          the debug.getlocal sweep, the real DbgLocals table and frame facts; Lean replays findLocal on the table
//          (Model) and computes the scope from the generator's event prefix (Spec); currentline / linedefined /
//          lastlinedefined are checked against the renderer's token-line spans.
//   chain  call chains (call / tail call / pcall / coroutine links) ending in a host function that reads the real
//          frame chain (hook), calls GetStack and where at every level and raises with L.Error(msg, level).
//   lines  one failing statement of every kind (and error(msg,1|2), debug.getinfo(1|2,'l')) inside victim/caller
//          functions, rendered in 6 layouts x 4 line-terminator styles: reported line must lie in the statement's
//          token-line span; shift-invariance under inserted blank/comment lines (Impl vs Impl).
//   upord  (c17_upord.go) upvalue numbering = order of first mention in the source: functions built from statement
//          templates with a hole in every syntactic position, holes filled by permutations of outer locals;
//          getupvalue/setupvalue at every index (Go API and debug.*), open and closed upvalues.

import (
	"sync/atomic"
	"encoding/hex"
	"fmt"
	"os"
	"regexp"
	"strconv"
	"strings"
	"time"

	lua "github.com/yuin/gopher-lua"
)

func init() { props["C17M"] = runC17M }

func hx(s string) string { return hex.EncodeToString([]byte(s)) }

// ---------------------------------------------------------------------------------------------
// family sim
// ---------------------------------------------------------------------------------------------

func genSimCase(r *Rng, maxOps int) []Op {
	var ops []Op
	add := func(ev string) { ops = append(ops, Op{Args: []string{"ev", ev}}) }
	names := []string{"a", "b", "c", "x", "y", "i", "(for index)", "(for limit)", "(for step)", "self", "arg", "_"}
	depth := 0
	n := r.Range(3, maxOps)
	malformed := r.Chance(8)
	for len(ops) < n {
		switch c := r.Intn(100); {
		case c < 30:
			add("d" + hx(Pick(r, names)))
		case c < 48:
			add("i")
		case c < 62:
			add("b")
			depth++
			if r.Chance(25) {
				add("u")
			}
		case c < 80:
			if depth > 0 {
				add("e")
				depth--
			} else if malformed {
				add("e")
			}
		case c < 84:
			add("u")
		case c < 92: // a numeric for: hidden control variables, loop variable, body, end
			add("b")
			add("d" + hx("(for index)"))
			add("i")
			add("d" + hx("(for limit)"))
			add("i")
			add("d" + hx("(for step)"))
			add("i")
			add("d" + hx(Pick(r, names[:6])))
			depth++
		default: // declaration right after a block end (the shape of the register-index defect)
			add("b")
			add("d" + hx(Pick(r, names[:6])))
			add("i")
			add("e")
			add("d" + hx(Pick(r, names[:6])))
			add("i")
		}
	}
	if !malformed || r.Bool() {
		for ; depth > 0; depth-- {
			if r.Chance(30) {
				add("i")
			}
			add("e")
		}
	}
	if r.Chance(70) {
		add("i")
	}
	return ops
}

func execSim(ops []Op) []string {
	var evs []string
	for _, o := range ops {
		if o.Args[0] == "ev" {
			evs = append(evs, o.Args[1])
		}
	}
	evline := strings.Join(evs, " ")
	// the wire carries names hex-encoded; the hook gets the raw names
	raw := make([]string, len(evs))
	for i, e := range evs {
		raw[i] = e
		if e[0] == 'd' {
			b, _ := hex.DecodeString(e[1:])
			raw[i] = "d" + string(b)
		}
	}
	evs = raw
	locals, regs, npc, perr := lua.VerifScopeSim(evs)
	var out []string
	if perr != "" {
		r := "panic"
		if strings.Contains(perr, "compile error") {
			r = "cerr"
		}
		return []string{"C17M sim " + evline + " => " + r}
	}
	var sb strings.Builder
	sb.WriteString("L")
	for _, l := range locals {
		fmt.Fprintf(&sb, " %s:%d:%d", hx(l.Name), l.StartPc, l.EndPc)
	}
	sb.WriteString(" R")
	for _, x := range regs {
		fmt.Fprintf(&sb, " %d", x)
	}
	// pcs of the instr events: recomputed by replaying the same hook on every prefix would be quadratic;
	// the hook reports npc, and the instr pcs follow from the real table only through the model — so ask the
	// implementation directly: an instr's pc is the number of instructions emitted before it.
	ipcs := simInstrPcs(evs)
	sb.WriteString(" I")
	for _, p := range ipcs {
		fmt.Fprintf(&sb, " %d", p)
	}
	out = append(out, "C17M sim "+evline+" => "+sb.String())
	// LocalName sweeps on the real LFunction at every pc
	fn := &lua.LFunction{Proto: &lua.FunctionProto{}}
	for i := range locals {
		fn.Proto.DbgLocals = append(fn.Proto.DbgLocals, &locals[i])
	}
	ord := map[int]int{}
	for k, p := range ipcs {
		ord[p] = k
	}
	for pc := -1; pc <= npc; pc++ {
		var names []string
		for n := 1; n <= len(locals)+2; n++ {
			nm, ok := fn.LocalName(n, pc)
			if !ok {
				break
			}
			names = append(names, hx(nm))
		}
		k := "-"
		if o, ok := ord[pc]; ok {
			k = strconv.Itoa(o)
		}
		out = append(out, fmt.Sprintf("C17M enum %s @ %d %s => %s", evline, pc, k, strings.Join(names, " ")))
	}
	return out
}

// simInstrPcs: pc of every "i" event, measured on the real code (npc of the prefix that ends just before it;
// the final RETURN the hook appends is subtracted).
func simInstrPcs(evs []string) []int {
	var res []int
	for k, e := range evs {
		if e != "i" {
			continue
		}
		_, _, npc, perr := lua.VerifScopeSim(evs[:k])
		if perr != "" {
			return res
		}
		res = append(res, npc-1)
	}
	return res
}

// ---------------------------------------------------------------------------------------------
// token renderer with line bookkeeping (shared by prog and lines)
// ---------------------------------------------------------------------------------------------

type rend struct {
	layout  int // 0 packed, 1 one statement per line, 2 spread tokens, 3 blank+comments, 4 long strings/comments, 5 mixed
	nlKind  int // 0 LF, 1 CRLF, 2 CR, 3 mixed (each followed by a blank so terminators never merge)
	r       *Rng
	sb      strings.Builder
	line    int
	fresh   bool        // nothing but blanks on the current line so far
	stmtNo  int         // serial of the statement being started
	insert  map[int]int // statement serial -> extra lines inserted before it (shift-invariance runs)
	insLine map[int]int // statement serial -> line (in this rendering, before insertion) where the insertion happened
	packed  int
	noSink  bool // the previous statement was `break`: no statement may be inserted before the next token
}

func newRend(layout, nlKind int, r *Rng) *rend {
	return &rend{layout: layout, nlKind: nlKind, r: r, line: 1, fresh: true, insert: map[int]int{}, insLine: map[int]int{}}
}

func (w *rend) newline() {
	switch w.nlKind {
	case 0:
		w.sb.WriteString("\n")
	case 1:
		w.sb.WriteString("\r\n")
	case 2:
		w.sb.WriteString("\r")
	default:
		w.sb.WriteString(Pick(w.r, []string{"\n", "\r\n", "\r", "\n\r"}))
		w.sb.WriteString(" ")
	}
	w.line++
	w.fresh = true
}

func (w *rend) filler() { // something between tokens that may span lines
	switch w.r.Intn(6) {
	case 0:
		w.sb.WriteString(" -- c" + strconv.Itoa(w.r.Intn(99)))
		w.newline()
	case 1:
		w.sb.WriteString(" --[[ one-line block comment ]] ")
	case 2:
		w.sb.WriteString(" --[==[ spans")
		w.newline()
		w.sb.WriteString("two ]] lines ]==] ")
		w.fresh = false
	case 3:
		w.newline()
		w.newline()
	case 4:
		w.sb.WriteString(" --[[")
		w.newline()
		w.newline()
		w.sb.WriteString("x]] ")
		w.fresh = false
	default:
		w.newline()
	}
}

// startStmt is called before the first token of a statement; returns the statement serial.
func (w *rend) startStmt() int {
	w.stmtNo++
	n := w.stmtNo
	lay := w.layout
	if lay == 5 {
		lay = w.r.Intn(5)
	}
	defer func() { w.noSink = false }()
	switch lay {
	case 0:
		w.packed++
		if w.packed%4 == 0 && !w.fresh {
			w.newline()
		} else if !w.fresh {
			w.sb.WriteString(Pick(w.r, []string{" ", "; ", ";"}))
			if strings.HasSuffix(w.sb.String(), ";") {
				w.sb.WriteString(" ")
			}
		}
	case 3:
		if !w.fresh {
			w.newline()
		}
		for k := w.r.Intn(3); k > 0; k-- {
			w.filler()
		}
		if !w.fresh {
			w.newline()
		}
	case 4:
		if !w.fresh {
			w.newline()
		}
		if w.r.Chance(40) && !w.noSink {
			w.sb.WriteString("sink([==[long")
			w.newline()
			w.sb.WriteString("string ]] over")
			w.newline()
			w.sb.WriteString("lines]==])")
			w.fresh = false
			w.newline()
		}
	default:
		if !w.fresh {
			w.newline()
		}
	}
	if k := w.insert[n]; k > 0 {
		if !w.fresh {
			w.newline()
		}
		w.insLine[n] = w.line
		for i := 0; i < k; i++ {
			if i%2 == 1 {
				w.sb.WriteString("-- inserted")
			}
			w.sb.WriteString(" \n ") // fixed terminator, never adjacent to another one: the layout PRNG must not be consumed by the insertion
			w.line++
		}
		w.fresh = true
	} else if _, ok := w.insert[n]; ok {
		if !w.fresh {
			w.newline()
		}
		w.insLine[n] = w.line
	}
	return n
}

// tok writes one token (preceded by layout-dependent white space) and returns the line it starts on.
// glue=true keeps it on the line of the previous token (call parentheses, tokens after `return`/`break`).
func (w *rend) tok(s string, glue bool) int {
	if !w.fresh {
		lay := w.layout
		if lay == 5 {
			lay = w.r.Intn(5)
		}
		switch {
		case glue:
			w.sb.WriteString(" ")
		case lay == 2 && w.r.Chance(55):
			w.newline()
		case lay == 3 && w.r.Chance(25):
			w.filler()
			if !w.fresh {
				w.sb.WriteString(" ")
			}
		case lay == 4 && w.r.Chance(20):
			w.sb.WriteString(" --[=[ long")
			w.newline()
			w.sb.WriteString("comment ]=] ")
		default:
			w.sb.WriteString(" ")
		}
	}
	if w.fresh && w.layout != 0 && w.r.Chance(50) {
		w.sb.WriteString("  ")
	}
	l := w.line
	w.sb.WriteString(s)
	w.fresh = false
	return l
}

// toks writes tokens; a token starting with "\x01" is glued. Returns (first line, last line).
func (w *rend) toks(ts ...string) (int, int) {
	lo, hi := 0, 0
	for i, t := range ts {
		glue := false
		if strings.HasPrefix(t, "\x01") {
			glue, t = true, t[1:]
		}
		l := w.tok(t, glue)
		if i == 0 {
			lo = l
		}
		hi = w.line
	}
	return lo, hi
}

// ---------------------------------------------------------------------------------------------
// family prog: generated programs with probes
// ---------------------------------------------------------------------------------------------

type gvar struct {
	name string
	id   int
	kind int // 0 number (id*1000+v), 1 function / table (compared by reference)
	prot bool // loop counter: never assigned, shadowed or overwritten by the generator
}

type gfn struct {
	parent *gfn
	blocks [][]*gvar
	events []string
	upvals []string
	depth  int
	nloc   int
}

func (f *gfn) inScope() []*gvar {
	var res []*gvar
	for _, b := range f.blocks {
		res = append(res, b...)
	}
	return res
}

func (f *gfn) visible(name string) *gvar {
	for i := len(f.blocks) - 1; i >= 0; i-- {
		for j := len(f.blocks[i]) - 1; j >= 0; j-- {
			if f.blocks[i][j].name == name {
				return f.blocks[i][j]
			}
		}
	}
	return nil
}

type probeRec struct {
	kind     string // probe | setl | uprobe | setu | site | fninfo
	ev       []string
	vars     []*gvar
	shadowed []bool
	lo, hi   int
	upnames  []string
	upids    []int
	fnLo     int // first line of the function header (`function` / `local function`)
	fnLo2    int // line of the `)` that closes the parameter list
	fnHi     int // line of `end`
	nth      int
	no       int
}

type c17progGen struct {
	g      *Rng // program structure
	w      *rend
	recs   []*probeRec
	nextID int
	budget int
	nameNo int
}

func (p *c17progGen) newVar(f *gfn, kind int, allowShadow bool) *gvar {
	p.nextID++
	name := ""
	if allowShadow && p.g.Chance(18) {
		if vs := f.inScope(); len(vs) > 0 {
			if v := Pick(p.g, vs); !v.prot {
				name = v.name
			}
		}
	}
	if name == "" {
		p.nameNo++
		name = fmt.Sprintf("%c%d", "abcdefgh"[p.g.Intn(8)], p.nameNo)
	}
	return &gvar{name: name, id: p.nextID, kind: kind}
}

func (p *c17progGen) declare(f *gfn, v *gvar) {
	f.blocks[len(f.blocks)-1] = append(f.blocks[len(f.blocks)-1], v)
	f.events = append(f.events, "d"+hx(v.name))
	f.nloc++
}
func (p *c17progGen) begin(f *gfn) { f.blocks = append(f.blocks, nil); f.events = append(f.events, "b") }
func (p *c17progGen) end(f *gfn)   { f.blocks = f.blocks[:len(f.blocks)-1]; f.events = append(f.events, "e") }

func val(v *gvar, ver int) string { return strconv.Itoa(v.id*1000 + ver) }

// refUp notes that function f refers to the outer variable `name` (upvalue registration order).
func refUp(f *gfn, name string) {
	for _, u := range f.upvals {
		if u == name {
			return
		}
	}
	f.upvals = append(f.upvals, name)
}

// resolve finds the variable a name denotes at the current point of f (own locals, then enclosing functions);
// registers upvalues along the chain the way a direct reference does.
func resolve(f *gfn, name string) {
	if f.visible(name) != nil {
		return
	}
	for g := f; g != nil && g.visible(name) == nil; g = g.parent {
		if g.parent == nil {
			return // global
		}
		refUp(g, name)
	}
}

func (p *c17progGen) rec(f *gfn, kind string) (*probeRec, int) {
	r := &probeRec{kind: kind, ev: append([]string{}, f.events...)}
	vs := f.inScope()
	r.vars = vs
	for i, v := range vs {
		sh := false
		for _, u := range vs[i+1:] {
			if u.name == v.name {
				sh = true
			}
		}
		r.shadowed = append(r.shadowed, sh)
	}
	p.recs = append(p.recs, r)
	return r, len(p.recs) - 1
}

// argList: the in-scope variables as call arguments (a placeholder for shadowed ones)
func argList(r *probeRec) []string {
	var ts []string
	for i, v := range r.vars {
		ts = append(ts, ",")
		if r.shadowed[i] {
			ts = append(ts, "0")
		} else {
			ts = append(ts, v.name)
		}
	}
	return ts
}

func (p *c17progGen) stmtProbe(f *gfn) {
	if f.nloc > 45 {
		return
	}
	r, id := p.rec(f, "probe")
	p.w.startStmt()
	fnname := "probe("
	if p.g.Chance(30) {
		fnname = "lprobe("
	}
	ts := append([]string{fnname, "\x01" + strconv.Itoa(id)}, argList(r)...)
	ts = append(ts, ")")
	r.lo, r.hi = p.w.toks(ts...)
}

func (p *c17progGen) stmtSetLocal(f *gfn) {
	vs := f.inScope()
	if len(vs) == 0 {
		return
	}
	r, id := p.rec(f, "setl")
	if p.g.Chance(20) { // malformed index: nothing may change
		r.no = Pick(p.g, []int{0, -1, -2, -3, -9, 250, 9999})
		r.nth = -1
		p.w.startStmt()
		r.lo, r.hi = p.w.toks("setl(", "\x01"+strconv.Itoa(id), ")")
		return
	}
	// a numeric, non-shadowed variable
	var cand []int
	for i, v := range vs {
		if v.kind == 0 && !r.shadowed[i] && !v.prot {
			cand = append(cand, i)
		}
	}
	if len(cand) == 0 {
		r.kind = "site"
		return
	}
	r.nth = Pick(p.g, cand)
	v := vs[r.nth]
	p.w.startStmt()
	r.lo, r.hi = p.w.toks("setl(", "\x01"+strconv.Itoa(id), ")")
	p.w.startStmt()
	p.w.toks("expect(", "\x01"+v.name, ",", val(v, 999), ")")
}

func (p *c17progGen) block(f *gfn, n int) {
	for i := 0; i < n && p.budget > 0; i++ {
		p.stmt(f)
	}
}

func (p *c17progGen) numExpr(f *gfn) string {
	// a visible numeric variable or a constant
	var cand []*gvar
	for _, v := range f.inScope() {
		if v.kind == 0 && f.visible(v.name) == v {
			cand = append(cand, v)
		}
	}
	if len(cand) > 0 && p.g.Chance(60) {
		return Pick(p.g, cand).name
	}
	return strconv.Itoa(p.g.Range(1, 9))
}

func (p *c17progGen) stmt(f *gfn) {
	p.budget--
	w := p.w
	c := p.g.Intn(100)
	if f.nloc > 40 && c < 30 {
		c = 95
	}
	switch {
	case c < 22: // local declaration(s)
		k := 1
		if p.g.Chance(25) {
			k = p.g.Range(2, 3)
		}
		var vs []*gvar
		for i := 0; i < k; i++ {
			vs = append(vs, p.newVar(f, 0, true))
		}
		w.startStmt()
		ts := []string{"local"}
		for i, v := range vs {
			if i > 0 {
				ts = append(ts, ",")
			}
			ts = append(ts, v.name)
		}
		ts = append(ts, "=")
		for i, v := range vs {
			if i > 0 {
				ts = append(ts, ",")
			}
			ts = append(ts, val(v, 1))
		}
		w.toks(ts...)
		for _, v := range vs {
			p.declare(f, v)
		}
		if p.g.Chance(60) {
			p.stmtProbe(f)
		}
	case c < 30: // assignment to a visible numeric variable (own local or upvalue)
		var cand []*gvar
		for g := f; g != nil; g = g.parent {
			for _, v := range g.inScope() {
				if v.kind == 0 && !v.prot && resolveVar(f, v.name) == v {
					cand = append(cand, v)
				}
			}
		}
		if len(cand) == 0 {
			return
		}
		v := Pick(p.g, cand)
		// readable numeric variables (incl. loop counters): `K + 0 * w` keeps the id-coded value K and mentions w
		var rd []*gvar
		for g := f; g != nil; g = g.parent {
			for _, u := range g.inScope() {
				if u.kind == 0 && resolveVar(f, u.name) == u {
					rd = append(rd, u)
				}
			}
		}
		rhs := func(t *gvar, mention bool) []string {
			k := val(t, p.g.Range(2, 900))
			if !mention {
				return []string{k}
			}
			return []string{k, "+", "0", "*", Pick(p.g, rd).name}
		}
		// upvalues are numbered in the order of their first mention in the source: targets (left to right) first,
		// then the right-hand sides
		switch form := p.g.Intn(4); {
		case form == 0:
			resolve(f, v.name)
			w.startStmt()
			w.toks(v.name, "=", val(v, p.g.Range(2, 900)))
		case form == 1 || len(cand) < 2:
			r1 := rhs(v, true)
			resolve(f, v.name)
			resolve(f, r1[len(r1)-1])
			w.startStmt()
			w.toks(append([]string{v.name, "="}, r1...)...)
		default:
			v2 := Pick(p.g, cand)
			for v2 == v {
				v2 = Pick(p.g, cand)
			}
			r1, r2 := rhs(v, p.g.Bool()), rhs(v2, p.g.Bool())
			resolve(f, v.name)
			resolve(f, v2.name)
			if len(r1) > 1 {
				resolve(f, r1[len(r1)-1])
			}
			if len(r2) > 1 {
				resolve(f, r2[len(r2)-1])
			}
			w.startStmt()
			ts := append([]string{v.name, ",", v2.name, "="}, r1...)
			ts = append(ts, ",")
			w.toks(append(ts, r2...)...)
		}
	case c < 40:
		w.startStmt()
		w.toks("do")
		p.begin(f)
		p.block(f, p.g.Range(1, 4))
		w.startStmt()
		w.toks("end")
		p.end(f)
	case c < 46: // while with a counter local
		cv := p.newVar(f, 0, false)
		cv.prot = true
		w.startStmt()
		w.toks("local", cv.name, "=", val(cv, 0))
		p.declare(f, cv)
		w.startStmt()
		w.toks("while", cv.name, "<", val(cv, 2), "do")
		p.begin(f)
		p.block(f, p.g.Range(1, 3))
		w.startStmt()
		w.toks(cv.name, "=", cv.name, "+", "1")
		if p.g.Chance(25) {
			w.startStmt()
			w.toks("break")
			w.noSink = true
		}
		w.startStmt()
		w.toks("end")
		p.end(f)
	case c < 51: // repeat … until sees the block's locals
		w.startStmt()
		w.toks("repeat")
		p.begin(f)
		rv := p.newVar(f, 0, true)
		w.startStmt()
		w.toks("local", rv.name, "=", val(rv, 1))
		p.declare(f, rv)
		p.block(f, p.g.Range(1, 3))
		var last *gvar = f.visible(rv.name)
		w.startStmt()
		if last != nil && last.kind == 0 {
			w.toks("until", rv.name, ">", "0")
		} else {
			w.toks("until", "true")
		}
		p.end(f)
	case c < 58: // if / else
		w.startStmt()
		w.toks("if", p.numExpr(f), Pick(p.g, []string{">", "<"}), "0", "then")
		p.begin(f)
		p.block(f, p.g.Range(1, 3))
		p.end(f)
		if p.g.Bool() {
			w.startStmt()
			w.toks("else")
			p.begin(f)
			p.block(f, p.g.Range(1, 3))
			p.end(f)
		}
		w.startStmt()
		w.toks("end")
	case c < 65: // numeric for
		iv := p.newVar(f, 0, true)
		w.startStmt()
		w.toks("for", iv.name, "=", val(iv, 1), ",", val(iv, 2), "do")
		p.begin(f)
		p.declare(f, iv)
		p.block(f, p.g.Range(1, 3))
		w.startStmt()
		w.toks("end")
		p.end(f)
	case c < 71: // generic for with two control variables
		kv, vv := p.newVar(f, 0, true), p.newVar(f, 0, false)
		w.startStmt()
		w.toks("for", kv.name, ",", vv.name, "in", "iter2(", "\x01"+val(kv, 0), ",", val(vv, 0), ")", "do")
		p.begin(f)
		p.declare(f, kv)
		p.declare(f, vv)
		p.block(f, p.g.Range(1, 3))
		w.startStmt()
		w.toks("end")
		p.end(f)
	case c < 84: // local function (closure), upvalue probe, calls
		if f.depth >= 3 {
			p.stmtProbe(f)
			return
		}
		p.localFunction(f)
	case c < 90:
		p.stmtSetLocal(f)
		if p.g.Chance(70) {
			p.stmtProbe(f)
		}
	default:
		p.stmtProbe(f)
	}
}

// resolveVar: which variable does `name` denote when referenced from f right now
func resolveVar(f *gfn, name string) *gvar {
	for g := f; g != nil; g = g.parent {
		if v := g.visible(name); v != nil {
			return v
		}
	}
	return nil
}

func (p *c17progGen) localFunction(f *gfn) {
	w := p.w
	fv := p.newVar(f, 1, true)
	method := p.g.Chance(15)
	var ov *gvar
	g := &gfn{parent: f, depth: f.depth + 1, blocks: [][]*gvar{nil}}
	var params []*gvar
	vararg := p.g.Chance(30)
	np := p.g.Intn(3)
	fnLine, fnLine2 := 0, 0
	if method {
		// local o = {} ; function o:m(p…) … end
		ov = p.newVar(f, 1, false)
		w.startStmt()
		w.toks("local", ov.name, "=", "{}")
		p.declare(f, ov)
		w.startStmt()
		ts := []string{"function", ov.name + ":m("}
		self := &gvar{name: "self", id: 0, kind: 1}
		g.blocks[0] = append(g.blocks[0], self)
		g.events = append(g.events, "d"+hx("self"))
		g.nloc++
		for i := 0; i < np; i++ {
			pv := p.newVar(g, 0, false)
			params = append(params, pv)
			if i > 0 {
				ts = append(ts, ",")
			}
			ts = append(ts, "\x01"+pv.name)
		}
		if vararg {
			if np > 0 {
				ts = append(ts, ",")
			}
			ts = append(ts, "\x01...")
		}
		ts = append(ts, "\x01)")
		fnLine, fnLine2 = w.toks(ts...)
	} else {
		w.startStmt()
		p.declare(f, fv) // `local function f`: f is in scope inside its own body
		ts := []string{"local", "function", fv.name + "("}
		for i := 0; i < np; i++ {
			pv := p.newVar(g, 0, false)
			params = append(params, pv)
			if i > 0 {
				ts = append(ts, ",")
			}
			ts = append(ts, "\x01"+pv.name)
		}
		if vararg {
			if np > 0 {
				ts = append(ts, ",")
			}
			ts = append(ts, "\x01...")
		}
		ts = append(ts, "\x01)")
		fnLine, fnLine2 = w.toks(ts...)
	}
	for _, pv := range params {
		p.declare(g, pv)
	}
	if vararg {
		// CompatVarArg: gopher-lua declares the named local `arg` in every vararg function that has a parent
		p.declare(g, &gvar{name: "arg", id: 0, kind: 1})
	}
	// body
	if p.g.Chance(70) {
		// direct references to outer variables (upvalues), in a known order
		var outer []*gvar
		for h := f; h != nil; h = h.parent {
			for _, v := range h.inScope() {
				if resolveVar(g, v.name) == v && g.visible(v.name) == nil {
					outer = append(outer, v)
				}
			}
		}
		if len(outer) > 0 {
			w.startStmt()
			ts := []string{"use("}
			k := p.g.Range(1, 3)
			for i := 0; i < k; i++ {
				v := Pick(p.g, outer)
				if resolveVar(g, v.name) != v {
					continue
				}
				if len(ts) > 1 {
					ts = append(ts, ",")
					ts = append(ts, v.name)
				} else {
					ts = append(ts, "\x01"+v.name)
				}
				resolve(g, v.name)
			}
			ts = append(ts, ")")
			w.toks(ts...)
		}
	}
	p.stmtProbe(g)
	p.block(g, p.g.Range(1, 4))
	if p.g.Chance(50) {
		p.stmtProbe(g)
	}
	if p.g.Chance(40) {
		r, id := p.rec(g, "probe2")
		_ = r
		w.startStmt()
		w.toks("probe2(", "\x01"+strconv.Itoa(id), ")")
	}
	w.startStmt()
	endLine, _ := w.toks("end")
	// after the child is compiled the enclosing function registers the child's upvalues that are not its own locals
	for _, u := range g.upvals {
		if f.visible(u) == nil && f.parent != nil {
			refUp(f, u)
		}
	}
	// upvalue probe on the closure
	callee := fv.name
	if method {
		callee = ov.name + ".m"
	}
	{
		r, id := p.rec(f, "uprobe")
		r.upnames = append([]string{}, g.upvals...)
		r.fnLo, r.fnLo2, r.fnHi = fnLine, fnLine2, endLine
		w.startStmt()
		ts := []string{"uprobe(", "\x01" + strconv.Itoa(id), ",", callee}
		for _, u := range g.upvals {
			v := resolveVar(f, u)
			if v != nil && f.visible(u) == nil {
				resolve(f, u)
			}
			ts = append(ts, ",", u)
			if v != nil {
				r.upids = append(r.upids, v.id)
			} else {
				r.upids = append(r.upids, -1)
			}
		}
		ts = append(ts, ")")
		w.toks(ts...)
		if len(g.upvals) > 0 && p.g.Chance(50) {
			// setupvalue on a numeric upvalue, read back in Lua
			k := p.g.Intn(len(g.upvals))
			v := resolveVar(f, g.upvals[k])
			if v != nil && v.kind == 0 && !v.prot {
				r2, id2 := p.rec(f, "setu")
				r2.upnames = r.upnames
				r2.nth = k + 1
				r2.no = v.id*1000 + 998
				w.startStmt()
				w.toks("setu(", "\x01"+strconv.Itoa(id2), ",", callee, ")")
				w.startStmt()
				w.toks("expect(", "\x01"+v.name, ",", strconv.Itoa(r2.no), ")")
			}
		}
	}
	// call it (once or twice); the call site is announced so that probe2 in the callee knows the caller's scope
	ncalls := p.g.Range(1, 2)
	for i := 0; i < ncalls; i++ {
		r, id := p.rec(f, "site")
		w.startStmt()
		w.toks("site(", "\x01"+strconv.Itoa(id), ")")
		w.startStmt()
		var ts []string
		if method {
			ts = []string{ov.name + ":m("}
		} else {
			ts = []string{fv.name + "("}
		}
		for j, pv := range params {
			if j > 0 {
				ts = append(ts, ",")
				ts = append(ts, val(pv, 1))
			} else {
				ts = append(ts, "\x01"+val(pv, 1))
			}
		}
		if vararg && p.g.Bool() {
			if len(params) > 0 {
				ts = append(ts, ",", "7", ",", "8")
			} else {
				ts = append(ts, "\x017", ",", "8")
			}
		}
		ts = append(ts, ")")
		r.lo, r.hi = w.toks(ts...)
		w.startStmt()
		w.toks("unsite()")
	}
}

const progPrelude = `function iter2(a, b) local n = 0; return function() n = n + 1; if n <= 2 then return a + n, b + n end end end
function use(...) end
function sink(...) end
function lprobe(id, ...)
  local names, vals, i = {}, {}, 1
  while true do
    local n, v = debug.getlocal(2, i)
    if not n then break end
    names[i] = n; vals[i] = v; i = i + 1
  end
  lreport(id, i - 1, names, vals, ...)
end
`

func c17genProgram(seed uint64, layout, nlKind int, size int) (string, []*probeRec) {
	p := &c17progGen{g: NewRng(seed), budget: size}
	p.w = newRend(layout, nlKind, NewRng(seed^0x5bd1e995).Fork(uint64(layout*8+nlKind)))
	main := &gfn{blocks: [][]*gvar{nil}}
	for _, l := range strings.Split(strings.TrimSuffix(progPrelude, "\n"), "\n") {
		p.w.sb.WriteString(l)
		p.w.newline()
	}
	for p.budget > 0 {
		p.stmt(main)
	}
	p.stmtProbe(main)
	p.w.newline()
	return p.w.sb.String(), p.recs
}

type progWorld struct {
	L     *lua.LState
	recs  []*probeRec
	rt    *RefTable
	out   []string
	sites []int
}

func tableTokens(p *lua.FunctionProto) string {
	var sb strings.Builder
	for _, l := range p.DbgLocals {
		fmt.Fprintf(&sb, " %s:%d:%d", hx(l.Name), l.StartPc, l.EndPc)
	}
	return sb.String()
}

func (w *progWorld) frameTokens(fv lua.VerifFrame) string {
	snap := w.L.VerifSnapshot()
	bases := w.L.VerifStackBases()
	cur, hn, nb := 0, 0, 0
	if snap.HasFrame && snap.FrameIdx == fv.Idx {
		cur = 1
	}
	if fv.Idx+1 < snap.Sp {
		hn = 1
		nb = bases[fv.Idx+1]
	}
	g := 0
	if fv.IsG {
		g = 1
	}
	return fmt.Sprintf("%d %d %d %d %d %d %d", g, fv.Pc, fv.LocalBase, cur, hn, nb, snap.Top)
}

// oracle tokens: generator names with the values Lua itself evaluated (args) or, for shadowed variables and
// level-2 queries, the id-coded value class (value/1000 must be the variable's id).
func (w *progWorld) oracle(r *probeRec, args []lua.LValue, implVals map[int]lua.LValue, named []int) string {
	var xs []string
	for j, v := range r.vars {
		tokv := "?"
		switch {
		case args != nil && !r.shadowed[j] && j < len(args):
			tokv = encVal(args[j], w.rt)
		case v.kind == 0 && j < len(named):
			// id check: accept the implementation's value iff it carries this variable's id
			if n, ok := implVals[named[j]].(lua.LNumber); ok && int(n)/1000 == v.id {
				tokv = encVal(n, w.rt)
			} else {
				tokv = "i" + strconv.Itoa(v.id*1000)
			}
		}
		xs = append(xs, hx(v.name)+"="+tokv)
	}
	return strings.Join(xs, " ")
}

func (w *progWorld) doProbe(L *lua.LState, id int, level int, args []lua.LValue, pre [][2]lua.LValue) {
	r := w.recs[id]
	dbg, ok := L.GetStack(level)
	if !ok {
		w.out = append(w.out, fmt.Sprintf("X probe-getstack-failed => %d", id))
		return
	}
	fv, _ := dbg.VerifFrame()
	fn := dbg.VerifFrameFn()
	var impl []string
	implVals := map[int]lua.LValue{}
	var named []int
	if pre != nil {
		for i, nv := range pre {
			impl = append(impl, hx(string(nv[0].(lua.LString)))+"="+encVal(nv[1], w.rt))
			implVals[i] = nv[1]
			if !strings.HasPrefix(string(nv[0].(lua.LString)), "(") {
				named = append(named, i)
			}
		}
	} else {
		for i := 1; i < 400; i++ {
			name, v := L.GetLocal(dbg, i)
			if name == "" {
				break
			}
			impl = append(impl, hx(name)+"="+encVal(v, w.rt))
			implVals[i-1] = v
			if !strings.HasPrefix(name, "(") {
				named = append(named, i-1)
			}
		}
	}
	w.out = append(w.out, fmt.Sprintf("C17M probe T%s F %s EV %s X %s => %s", tableTokens(fn.Proto), w.frameTokens(fv),
		strings.Join(r.ev, " "), w.oracle(r, args, implVals, named), strings.Join(impl, " ")))
	if _, err := L.GetInfo("l", dbg, lua.LNil); err == nil && r.lo > 0 {
		w.out = append(w.out, fmt.Sprintf("C17M line %d %d => %d", r.lo, r.hi, dbg.CurrentLine))
	}
}

func (w *progWorld) install() {
	L := w.L
	argsFrom := func(L *lua.LState, from int) []lua.LValue {
		var a []lua.LValue
		for i := from; i <= L.GetTop(); i++ {
			a = append(a, L.Get(i))
		}
		return a
	}
	L.SetGlobal("probe", L.NewFunction(func(L *lua.LState) int {
		w.doProbe(L, L.CheckInt(1), 1, argsFrom(L, 2), nil)
		// level 0 is the running host function itself: only temporaries (its arguments)
		if dbg, ok := L.GetStack(0); ok {
			fv, _ := dbg.VerifFrame()
			var impl []string
			for i := 1; i < 400; i++ {
				name, _ := L.GetLocal(dbg, i)
				if name == "" {
					break
				}
				impl = append(impl, hx(name)+"=?")
			}
			w.out = append(w.out, fmt.Sprintf("C17M probe T F %s EV X => %s", w.frameTokens(fv), strings.Join(impl, " ")))
		}
		return 0
	}))
	L.SetGlobal("lreport", L.NewFunction(func(L *lua.LState) int {
		id, n := L.CheckInt(1), L.CheckInt(2)
		names, vals := L.CheckTable(3), L.CheckTable(4)
		var pre [][2]lua.LValue
		for i := 1; i <= n; i++ {
			pre = append(pre, [2]lua.LValue{names.RawGetInt(i), vals.RawGetInt(i)})
		}
		w.doProbe(L, id, 2, argsFrom(L, 5), pre)
		return 0
	}))
	L.SetGlobal("probe2", L.NewFunction(func(L *lua.LState) int {
		// the caller of the function that contains this probe: its scope is that of the announced call site
		if len(w.sites) == 0 {
			return 0
		}
		w.doProbe(L, w.sites[len(w.sites)-1], 2, nil, nil)
		return 0
	}))
	L.SetGlobal("site", L.NewFunction(func(L *lua.LState) int { w.sites = append(w.sites, L.CheckInt(1)); return 0 }))
	L.SetGlobal("unsite", L.NewFunction(func(L *lua.LState) int {
		if len(w.sites) > 0 {
			w.sites = w.sites[:len(w.sites)-1]
		}
		return 0
	}))
	L.SetGlobal("expect", L.NewFunction(func(L *lua.LState) int {
		w.out = append(w.out, fmt.Sprintf("C17M eq %s => %s", encVal(L.Get(2), w.rt), encVal(L.Get(1), w.rt)))
		return 0
	}))
	L.SetGlobal("setl", L.NewFunction(func(L *lua.LState) int {
		r := w.recs[L.CheckInt(1)]
		dbg, ok := L.GetStack(1)
		if !ok {
			return 0
		}
		fv, _ := dbg.VerifFrame()
		fn := dbg.VerifFrameFn()
		no := r.no
		var sentinel lua.LValue = lua.LNumber(424242)
		if r.nth >= 0 {
			// the register index of the nth NAMED variable in the implementation's enumeration
			cnt := -1
			no = -1000
			for i := 1; i < 400; i++ {
				name, _ := L.GetLocal(dbg, i)
				if name == "" {
					break
				}
				if !strings.HasPrefix(name, "(") {
					cnt++
					if cnt == r.nth {
						no = i
						break
					}
				}
			}
			if no == -1000 {
				w.out = append(w.out, "X setl-variable-not-enumerated => "+r.vars[r.nth].name)
				return 0
			}
			sentinel = lua.LNumber(r.vars[r.nth].id*1000 + 999)
		}
		frameTok := w.frameTokens(fv)
		top := L.VerifSnapshot().Top
		before := L.VerifRegistryValues(0, top)
		var name string
		perr := ""
		func() {
			defer func() {
				if e := recover(); e != nil {
					perr = fmt.Sprint(e)
				}
			}()
			if L.CheckInt(1)%2 == 1 {
				// every other probe goes through the debug library (level 2 from inside debug.setlocal called by
				// this host function = the Lua function under test)
				top0 := L.GetTop()
				if err := L.CallByParam(lua.P{Fn: L.GetField(L.GetGlobal("debug"), "setlocal"), NRet: 1, Protect: true}, lua.LNumber(2), lua.LNumber(no), sentinel); err != nil {
					perr = "debug.setlocal raised: " + err.Error()
				} else if sv, ok := L.Get(-1).(lua.LString); ok {
					name = string(sv)
				}
				L.SetTop(top0)
				return
			}
			name = L.SetLocal(dbg, no, sentinel)
		}()
		if perr != "" {
			w.out = append(w.out, "X setlocal-go-panic => "+strings.ReplaceAll(perr, " ", "_"))
			return 0
		}
		after := L.VerifRegistryValues(0, L.VerifSnapshot().Top)
		reply := "-"
		if name != "" {
			reply = hx(name)
		}
		for i := range after {
			if i >= len(before) || after[i] != before[i] {
				reply += " " + strconv.Itoa(i)
			}
		}
		w.out = append(w.out, fmt.Sprintf("C17M setlocal T%s F %s N %d => %s", tableTokens(fn.Proto), frameTok, no, reply))
		return 0
	}))
	upTokens := func(fn *lua.LFunction, r *probeRec) string {
		var real, exp []string
		for _, n := range fn.Proto.DbgUpvalues {
			real = append(real, hx(n))
		}
		for _, n := range r.upnames {
			exp = append(exp, hx(n))
		}
		return "T " + strings.Join(real, " ") + " X " + strings.Join(exp, " ")
	}
	L.SetGlobal("uprobe", L.NewFunction(func(L *lua.LState) int {
		r := w.recs[L.CheckInt(1)]
		fn := L.CheckFunction(2)
		ut := upTokens(fn, r)
		for no := -1; no <= len(r.upnames)+2; no++ {
			name, v := L.GetUpvalue(fn, no)
			reply := "-"
			if name != "" {
				reply = hx(name)
			}
			w.out = append(w.out, fmt.Sprintf("C17M upv %s NO %d => %s", ut, no, reply))
			if name != "" && no >= 1 && no <= len(r.upnames) && 2+no <= L.GetTop() {
				// current value = what Lua itself reads from the variable in the enclosing function
				w.out = append(w.out, fmt.Sprintf("C17M eq %s => %s", encVal(L.Get(2+no), w.rt), encVal(v, w.rt)))
			}
		}
		// getinfo(f, 'S'): linedefined / lastlinedefined
		dbg := &lua.Debug{}
		if _, err := L.GetInfo(">S", dbg, fn); err == nil {
			w.out = append(w.out, fmt.Sprintf("C17M line %d %d => %d", r.fnLo, r.fnLo2, dbg.LineDefined))
			w.out = append(w.out, fmt.Sprintf("C17M line %d %d => %d", r.fnHi, r.fnHi, dbg.LastLineDefined))
		}
		return 0
	}))
	L.SetGlobal("setu", L.NewFunction(func(L *lua.LState) int {
		r := w.recs[L.CheckInt(1)]
		fn := L.CheckFunction(2)
		name := L.SetUpvalue(fn, r.nth, lua.LNumber(r.no))
		reply := "-"
		if name != "" {
			reply = hx(name)
		}
		w.out = append(w.out, fmt.Sprintf("C17M upv %s NO %d => %s", upTokens(fn, r), r.nth, reply))
		return 0
	}))
}

func runProgram(src string, recs []*probeRec) (out []string) {
	L := lua.NewState()
	w := &progWorld{L: L, recs: recs, rt: NewRefTable()}
	w.install()
	// generated programs terminate: an instruction budget ends one that does not (a goroutine abandoned by the watchdog
	// below would otherwise keep running — and allocating — for the rest of the check)
	bctx, bstop := newBudgetCtxWithBackstop(20000000, 3*time.Minute)
	defer bstop()
	L.SetContext(bctx)
	done := make(chan struct{})
	go func() {
		defer close(done)
		defer func() {
			if e := recover(); e != nil {
				w.out = append(w.out, "X go-panic => "+strings.ReplaceAll(fmt.Sprint(e), " ", "_"))
			}
		}()
		if err := L.DoString(src); err != nil {
			w.out = append(w.out, "X program-failed => "+strings.ReplaceAll(strings.ReplaceAll(err.Error(), " ", "_"), "\n", "|"))
		}
	}()
	select {
	case <-done:
		L.Close()
	case <-hangAfter(120 * time.Second):
		noteHang()
		return []string{"X timeout => program"}
	}
	return w.out
}

func execProg17(op Op) []string {
	seed, _ := strconv.ParseUint(op.Args[1], 10, 64)
	layout, _ := strconv.Atoi(op.Args[2])
	nl, _ := strconv.Atoi(op.Args[3])
	size, _ := strconv.Atoi(op.Args[4])
	src, recs := c17genProgram(seed, layout, nl, size)
	return runProgram(src, recs)
}

// ---------------------------------------------------------------------------------------------
// family chain: GetStack / where / raiseError level arithmetic on real call chains
// ---------------------------------------------------------------------------------------------

var posRe17 = regexp.MustCompile(`^[^:\n]*:(\d+): `)

func execChain(op Op) []string {
	// args: chain <links…> L <level>; links: c call, t tail call, p pcall (host frame), o coroutine.wrap, m metamethod (__index)
	var links []string
	level := 1
	for i := 1; i < len(op.Args); i++ {
		if op.Args[i] == "L" {
			level, _ = strconv.Atoi(op.Args[i+1])
			break
		}
		links = append(links, op.Args[i])
	}
	var sb strings.Builder
	// f0 calls the host function snapraise; fi calls f(i-1) through link i
	sb.WriteString("local f0 = function(lv)\n  local r = snapraise(lv)\n  return r\nend\n")
	for i, l := range links {
		k := i + 1
		switch l {
		case "t":
			fmt.Fprintf(&sb, "local f%d = function(lv)\n  return f%d(lv)\nend\n", k, k-1)
		case "p":
			fmt.Fprintf(&sb, "local f%d = function(lv)\n  local ok, e = pcall(f%d, lv)\n  if not ok then error(e, 0) end\n  return e\nend\n", k, k-1)
		case "o":
			fmt.Fprintf(&sb, "local f%d = function(lv)\n  local co = coroutine.wrap(f%d)\n  local r = co(lv)\n  return r\nend\n", k, k-1)
		case "m":
			fmt.Fprintf(&sb, "local f%d = function(lv)\n  local t = setmetatable({}, {__index = function(t, k) return f%d(k) end})\n  local r = t[lv]\n  return r\nend\n", k, k-1)
		default:
			fmt.Fprintf(&sb, "local f%d = function(lv)\n  local r = f%d(lv)\n  return r\nend\n", k, k-1)
		}
	}
	fmt.Fprintf(&sb, "local ok, msg = pcall(f%d, %d)\nresult(ok, msg)\n", len(links), level)
	L := lua.NewState()
	defer L.Close()
	var out []string
	L.SetGlobal("snapraise", L.NewFunction(func(L *lua.LState) int {
		lv := L.CheckInt(1)
		frs := L.VerifFrames()
		var ft []string
		for _, f := range frs {
			g, line := "l", "-"
			if f.IsG {
				g = "g"
			} else if f.Line >= 0 {
				line = strconv.Itoa(f.Line)
			}
			ft = append(ft, fmt.Sprintf("%s:%d:%d:%s", g, f.TailCall, f.Idx, line))
		}
		sp := L.VerifSnapshot().Sp
		head := fmt.Sprintf("FR %s SP %d", strings.Join(ft, " "), sp)
		total := len(frs)
		for _, f := range frs {
			total += f.TailCall
		}
		for l := -2; l <= total+2; l++ {
			dbg, ok := L.GetStack(l)
			reply := "none"
			if ok {
				if fv, ok2 := dbg.VerifFrame(); ok2 {
					reply = strconv.Itoa(fv.Idx)
				}
			}
			out = append(out, fmt.Sprintf("C17M getstack %s L %d => %s", head, l, reply))
			for _, skipg := range []bool{false, true} {
				s := L.VerifWhere(l, skipg)
				reply := "empty"
				if s == "[G]:" {
					reply = "G"
				} else if m := regexp.MustCompile(`:(\d+):$`).FindStringSubmatch(s); m != nil {
					reply = m[1]
				}
				sg := 0
				if skipg {
					sg = 1
				}
				out = append(out, fmt.Sprintf("C17M where %s L %d S %d => %s", head, l, sg, reply))
			}
		}
		out = append(out, fmt.Sprintf("C17M raise %s L %d => ", head, lv))
		L.Error(lua.LString("E"), lv)
		return 0
	}))
	L.SetGlobal("result", L.NewFunction(func(L *lua.LState) int {
		msg := L.Get(2).String()
		reply := "?"
		switch {
		case msg == "E":
			reply = "nopos"
		case msg == " E":
			reply = "empty"
		case msg == "[G]: E":
			reply = "G"
		default:
			if m := posRe17.FindStringSubmatch(msg); m != nil && strings.HasSuffix(msg, ": E") {
				reply = m[1]
			}
		}
		for i := len(out) - 1; i >= 0; i-- {
			if strings.HasPrefix(out[i], "C17M raise ") && strings.HasSuffix(out[i], "=> ") {
				out[i] += reply
				break
			}
		}
		return 0
	}))
	func() {
		defer func() {
			if e := recover(); e != nil {
				out = append(out, "X go-panic => "+strings.ReplaceAll(fmt.Sprint(e), " ", "_"))
			}
		}()
		if err := L.DoString(sb.String()); err != nil {
			out = append(out, "X chain-failed => "+strings.ReplaceAll(strings.ReplaceAll(err.Error(), " ", "_"), "\n", "|"))
		}
	}()
	return out
}

// ---------------------------------------------------------------------------------------------
// family lines: failing statements in layouts
// ---------------------------------------------------------------------------------------------

type lineSite struct {
	what   string
	lo, hi int
	got    int
}

// failKinds: token lists of statements that fail at run time; "H" marks the end of the header span for compound
// statements (the reported line must lie between the first token and the token before "H"); nilv is a nil local.
var failKinds = [][]string{
	{"undefinedfn(", "\x011", ",", "2", ")"},
	{"local", "q", "=", "nilv", ".", "field"},
	{"local", "q", "=", "1", "+", "nilv"},
	{"local", "q", "=", "\"s\"", "..", "nilv"},
	{"local", "q", "=", "#", "nilv"},
	{"local", "q", "=", "-", "nilv"},
	{"nilv", ".", "x", "=", "1"},
	{"tbl", ".", "x", ".", "y", "=", "1"},
	{"gx", "=", "nilv", "[", "1", "]"},
	{"tbl", ":nomethod(", "\x011", ")"},
	{"if", "1", "<", "nilv", "then", "H", "gx", "=", "1", "end"},
	{"if", "tbl", "<", "tbl", "then", "H", "gx", "=", "1", "end"},
	{"while", "nilv", ".", "x", "do", "H", "gx", "=", "1", "end"},
	{"for", "i", "=", "1", ",", "nilv", "do", "H", "gx", "=", "1", "end"},
	{"for", "i", "=", "\"a\"", ",", "2", "do", "H", "gx", "=", "1", "end"},
	{"for", "k", "in", "nilv", "do", "H", "gx", "=", "1", "end"},
	{"for", "k", ",", "v", "in", "pairs(", "\x01nilv", ")", "do", "H", "gx", "=", "1", "end"},
	{"do", "S", "return", "\x01nilv", ".", "x", "H", "end"},
	{"do", "S", "return", "\x01nilv", "\x01(", "\x011", ")", "H", "end"},
	{"local", "q", "=", "{", "1", ",", "nilv", ".", "x", ",", "3", "}"},
	{"local", "q", "=", "id(", "\x011", ",", "nilv", ".", "x", ")"},
	{"local", "q", "=", "tbl", ".", "a", ".", "b", ".", "c"},
	{"gx", ",", "gy", "=", "1", ",", "nilv", "+", "1"},
	{"local", "q", "=", "nilv", "and", "1", "or", "nilv", ".", "z"},
	{"local", "q", "=", "function()", "return", "\x011", "end", "+", "1"},
	{"error(", "\x01\"msg\"", ")"},
	{"error(", "\x01\"msg\"", ",", "1", ")"},
	{"assert(", "\x01tbl", ".", "x", ".", "y", ")"},
	{"local", "q", "=", "tostring(", "\x01nilv", ".", "x", ")"},
	{"repeat", "gx", "=", "1", "S", "until", "nilv", ".", "x"},
	{"local", "q", "=", "(", "nilv", ")", ".", "x"},
	{"local", "q", "=", "1", "<", "nilv"},
	{"local", "q", "=", "setmetatable(", "\x01{}", ",", "{", "__index", "=", "function(", "\x01t", ",", "k", ")", "return", "\x01nilv", ".", "x", "end", "}", ")", ".", "key"},
}

func fillerStmt(w *rend, g *Rng, n *int) {
	w.startStmt()
	*n++
	switch g.Intn(4) {
	case 0:
		w.toks("local", fmt.Sprintf("z%d", *n), "=", strconv.Itoa(*n))
	case 1:
		w.toks("gx", "=", strconv.Itoa(*n))
	case 2:
		w.toks("do", "local", fmt.Sprintf("z%d", *n), "=", "1", "end")
	default:
		w.toks("sink(", "\x01"+strconv.Itoa(*n), ")")
	}
}

// emitFailing writes the statement and returns the span inside which the error line must lie
func emitFailing(w *rend, ts []string) (int, int) {
	w.startStmt()
	lo, hi := 0, 0
	first := true
	frozen := false
	for _, t := range ts {
		if t == "H" {
			frozen = true
			continue
		}
		if t == "S" { // the span restarts at the next token
			first = true
			continue
		}
		glue := false
		if strings.HasPrefix(t, "\x01") {
			glue, t = true, t[1:]
		}
		l := w.tok(t, glue)
		if first {
			lo, first = l, false
		}
		if !frozen {
			hi = w.line
		}
	}
	return lo, hi
}

// genLines renders: victim() with a failing statement (or error(msg,2) / getinfo probes), caller() calling it.
func genLines(seed uint64, kind int, mode int, layout, nlKind int, ins map[int]int) (string, []lineSite, map[int]int) {
	g := NewRng(seed)
	w := newRend(layout, nlKind, NewRng(seed^0x7f4a7c15).Fork(uint64(layout*8+nlKind)))
	w.insert = ins
	var sites []lineSite
	n := 0
	w.startStmt()
	w.toks("local", "tbl", ",", "nilv", "=", "{}", ",", "nil")
	w.startStmt()
	w.toks("local", "function", "id(", "\x01...", "\x01)", "return", "\x01...", "end")
	w.startStmt()
	w.toks("local", "victim", ",", "caller")
	for k := g.Intn(3); k > 0; k-- {
		fillerStmt(w, g, &n)
	}
	w.startStmt()
	w.tok("victim", false)
	w.tok("=", false)
	vLo := w.tok("function(", false)
	_, vLo2 := w.toks("\x01a", ",", "b", "\x01)")
	for k := g.Intn(3); k > 0; k-- {
		fillerStmt(w, g, &n)
	}
	switch mode {
	case 0: // run-time failure of statement `kind` (level 1)
		lo, hi := emitFailing(w, failKinds[kind])
		sites = append(sites, lineSite{what: "fail:" + strconv.Itoa(kind), lo: lo, hi: hi})
	case 1: // error(msg, 2): position of the calling statement in caller
		w.startStmt()
		w.toks("error(", "\x01\"msg\"", ",", "2", ")")
	case 2: // debug.getinfo currentline at level 1 and 2, then fail
		w.startStmt()
		lo, hi := w.toks("cl(", "\x011", ",", "debug.getinfo(", "\x011", ",", "\"l\"", ")", ".", "currentline", ")")
		sites = append(sites, lineSite{what: "getinfo1", lo: lo, hi: hi})
		w.startStmt()
		w.toks("cl(", "\x012", ",", "debug.getinfo(", "\x012", ",", "\"l\"", ")", ".", "currentline", ")")
		sites = append(sites, lineSite{what: "getinfo2"}) // span filled in at the call statement
		w.startStmt()
		lo, hi = w.toks("error(", "\x01\"msg\"", ")")
		sites = append(sites, lineSite{what: "fail:error", lo: lo, hi: hi})
	}
	for k := g.Intn(3); k > 0; k-- {
		fillerStmt(w, g, &n)
	}
	w.startStmt()
	vHi := w.tok("end", false)
	w.startStmt()
	w.tok("caller", false)
	w.tok("=", false)
	cLo := w.tok("function(", false)
	cLo2 := w.tok(")", true)
	for k := g.Intn(3); k > 0; k-- {
		fillerStmt(w, g, &n)
	}
	w.startStmt()
	var lo, hi int
	switch g.Intn(3) {
	case 0:
		lo, hi = w.toks("victim(", "\x011", ",", "2", ")")
	case 1:
		lo, hi = w.toks("local", "r", "=", "victim(", "\x011", ",", "2", ")")
	default:
		lo, hi = w.toks("gx", "=", "id(", "\x01victim(", "\x011", ",", "2", ")", ",", "3", ")")
	}
	switch mode {
	case 1:
		sites = append(sites, lineSite{what: "level2", lo: lo, hi: hi})
	case 2:
		sites[1].lo, sites[1].hi = lo, hi
	}
	for k := g.Intn(3); k > 0; k-- {
		fillerStmt(w, g, &n)
	}
	w.startStmt()
	cHi := w.tok("end", false)
	w.startStmt()
	w.toks("local", "ok", ",", "msg", "=", "pcall(", "\x01caller", ")")
	w.startStmt()
	w.toks("report(", "\x01msg", ",", "victim", ",", "caller", ")")
	w.newline()
	sites = append(sites, lineSite{what: "linedefined:victim", lo: vLo, hi: vLo2}, lineSite{what: "lastlinedefined:victim", lo: vHi, hi: vHi},
		lineSite{what: "linedefined:caller", lo: cLo, hi: cLo2}, lineSite{what: "lastlinedefined:caller", lo: cHi, hi: cHi})
	return w.sb.String(), sites, w.insLine
}

// runLines executes a lines-program and fills in the reported numbers (got = -1: nothing reported)
func runLines(src string, sites []lineSite, mode int) (res []lineSite, fail string) {
	res = append([]lineSite{}, sites...)
	for i := range res {
		res[i].got = -1
	}
	L := lua.NewState()
	defer L.Close()
	L.SetGlobal("sink", L.NewFunction(func(L *lua.LState) int { return 0 }))
	L.SetGlobal("cl", L.NewFunction(func(L *lua.LState) int {
		lv := L.CheckInt(1)
		for i := range res {
			if res[i].what == "getinfo"+strconv.Itoa(lv) {
				res[i].got = L.CheckInt(2)
			}
		}
		return 0
	}))
	L.SetGlobal("report", L.NewFunction(func(L *lua.LState) int {
		msg := L.Get(1).String()
		line := -1
		if m := posRe17.FindStringSubmatch(msg); m != nil {
			line, _ = strconv.Atoi(m[1])
		}
		for i := range res {
			if strings.HasPrefix(res[i].what, "fail:") || res[i].what == "level2" {
				res[i].got = line
			}
		}
		for k, nm := range []string{"victim", "caller"} {
			if fn, ok := L.Get(2 + k).(*lua.LFunction); ok {
				dbg := &lua.Debug{}
				if _, err := L.GetInfo(">S", dbg, fn); err == nil {
					for i := range res {
						if res[i].what == "linedefined:"+nm {
							res[i].got = dbg.LineDefined
						}
						if res[i].what == "lastlinedefined:"+nm {
							res[i].got = dbg.LastLineDefined
						}
					}
				}
			}
		}
		return 0
	}))
	func() {
		defer func() {
			if e := recover(); e != nil {
				fail = "go-panic:" + fmt.Sprint(e)
			}
		}()
		if err := L.DoString(src); err != nil {
			fail = err.Error()
		}
	}()
	return
}

func execLines(op Op) []string {
	seed, _ := strconv.ParseUint(op.Args[1], 10, 64)
	kind, _ := strconv.Atoi(op.Args[2])
	mode, _ := strconv.Atoi(op.Args[3])
	layout, _ := strconv.Atoi(op.Args[4])
	nl, _ := strconv.Atoi(op.Args[5])
	var out []string
	src, sites, _ := genLines(seed, kind, mode, layout, nl, map[int]int{})
	res, fail := runLines(src, sites, mode)
	if fail != "" {
		return []string{"X lines-program-failed => " + strings.ReplaceAll(strings.ReplaceAll(fail, " ", "_"), "\n", "|")}
	}
	for _, s := range res {
		out = append(out, fmt.Sprintf("C17M line %d %d => %d", s.lo, s.hi, s.got))
	}
	// the same text behind leading blanks that make a two-byte line end straddle the scanner's 4096-byte buffer
	// (blanks before the first token move no token to another line: same expected lines)
	if padded := alignTwoByteLineEnd(src, NewRng(seed^0x51ed), 4095); padded != "" {
		resP, failP := runLines(padded, sites, mode)
		if failP != "" {
			return []string{"X lines-program-failed => straddle:" + strings.ReplaceAll(strings.ReplaceAll(failP, " ", "_"), "\n", "|")}
		}
		for _, s := range resP {
			out = append(out, fmt.Sprintf("C17M line %d %d => %d", s.lo, s.hi, s.got))
		}
	}
	// shift-invariance: k extra blank/comment lines before statement number st (Impl vs Impl)
	r := NewRng(seed ^ 0xabcdef)
	nst := strings.Count(src, "") // upper bound, the statement serials are small
	_ = nst
	st := r.Range(2, 12)
	k := r.Range(1, 4)
	// both renderings force statement st to start on a fresh line; only the second inserts k lines
	src0, sites0, ins0 := genLines(seed, kind, mode, layout, nl, map[int]int{st: 0})
	src1, sites1, _ := genLines(seed, kind, mode, layout, nl, map[int]int{st: k})
	res0, f0 := runLines(src0, sites0, mode)
	res1, f1 := runLines(src1, sites1, mode)
	if f0 != "" || f1 != "" {
		return append(out, "X lines-program-failed => shifted:"+strings.ReplaceAll(f0+f1, " ", "_"))
	}
	at, ok := ins0[st]
	if ok {
		for i := range res0 {
			out = append(out, fmt.Sprintf("C17M shift %d %d %d => %d", at, k, res0[i].got, res1[i].got))
		}
	}
	return out
}

// ---------------------------------------------------------------------------------------------
// executor, classification, run
// ---------------------------------------------------------------------------------------------

func execC17M(ops []Op) []string {
	if len(ops) == 0 {
		return nil
	}
	switch ops[0].Args[0] {
	case "ev":
		return execSim(ops)
	}
	var out []string
	for _, op := range ops {
		out = append(out, "C17M note "+strings.Join(op.Args, " "))
		switch op.Args[0] {
		case "prog":
			out = append(out, execProg17(op)...)
		case "chain":
			out = append(out, execChain(op)...)
		case "lines":
			out = append(out, execLines(op)...)
		case "upord":
			out = append(out, execUpord(op)...)
		case "linetab":
			out = append(out, execLineTab(op)...)
		case "errline":
			out = append(out, execErrLine(op)...)
		}
	}
	return out
}

// dev helper: C17_DUMP="prog <seed> <layout> <nl> <size>" | "lines <seed> <kind> <mode> <layout> <nl>" | "chain …"
func dumpC17M(spec string) {
	args := strings.Fields(spec)
	switch args[0] {
	case "prog":
		seed, _ := strconv.ParseUint(args[1], 10, 64)
		layout, _ := strconv.Atoi(args[2])
		nl, _ := strconv.Atoi(args[3])
		size, _ := strconv.Atoi(args[4])
		src, _ := c17genProgram(seed, layout, nl, size)
		printNumbered(src)
	case "lines":
		seed, _ := strconv.ParseUint(args[1], 10, 64)
		kind, _ := strconv.Atoi(args[2])
		mode, _ := strconv.Atoi(args[3])
		layout, _ := strconv.Atoi(args[4])
		nl, _ := strconv.Atoi(args[5])
		src, sites, _ := genLines(seed, kind, mode, layout, nl, map[int]int{})
		printNumbered(src)
		fmt.Printf("%+v\n", sites)
	case "linetab", "errline":
		layout, _ := strconv.Atoi(args[1])
		seed, _ := strconv.ParseUint(args[2], 10, 64)
		if p, _ := parseMProg(args[3:]); p != nil {
			src, _ := renderLineTab(p, layout, seed)
			printNumbered(src)
		}
	case "upord":
		if depth, mode, seed, ts, pre, post, ok := uoParse(Op{Args: args}); ok {
			src, probes, bad := uoGenProgram(depth, mode, seed, ts, pre, post)
			printNumbered(src)
			fmt.Printf("%+v %s\n", probes, bad)
		}
	}
	lines := execC17M([]Op{{Args: args}})
	out, err := runDriver(append([]string{"reset"}, lines...))
	if err != nil {
		fmt.Println(err)
		return
	}
	for i, l := range lines {
		if len(l) > 400 && out[i+1] == "ok" {
			l = l[:400] + "…"
		}
		fmt.Printf("%s\n    -> %s\n", l, out[i+1])
	}
}

func printNumbered(src string) {
	norm := strings.NewReplacer("\r\n", "\n", "\n\r", "\n", "\r", "\n").Replace(src)
	for i, l := range strings.Split(norm, "\n") {
		fmt.Printf("%4d| %s\n", i+1, l)
	}
}

func runC17M(run *Run) {
	if d := os.Getenv("C17_DUMP"); d != "" {
		dumpC17M(d)
		os.Exit(0)
	}
	nSim, nProg, nChain, nLines := 3000, 480, 400, 3
	if run.Tier == "thorough" {
		nSim, nProg, nChain, nLines = 30000, 3000, 3000, 12
	}
	run.Rule = "sim: random block-structured event lists (declare/begin/end/mark-upvalue/instr, for-loop shapes, declaration-after-inner-block shapes, 8% unbalanced) executed on the real funcContext + LFunction.LocalName at every pc; prog: generated Lua programs (nested blocks, while/repeat/if/numeric+generic for, shadowing, local functions with upvalues, methods, varargs) in 6 layouts x 4 line-terminator styles with getlocal/setlocal/getupvalue/setupvalue/getinfo probes at levels 0,1,2 (Go API and debug library); chain: call/tail/pcall/coroutine/metamethod chains x GetStack/where at every level x error(msg, level); lines: every failing-statement kind x 3 modes x layouts, span oracle + shift-invariance (Impl vs Impl); upord: upvalue ORDER = order of first mention in the function's source text: functions built from statement templates with a hole in every syntactic position (assignment targets single/multiple, table-store object/key/value, right-hand sides, operator operands, call/method receiver and arguments, conditions, loop bounds/explists, constructors, return lists, closures nested 1-3 deep, shadowing locals/parameters/loop variables), holes filled from 6 outer locals by identity/reverse/random permutations or with repetition; every template alone x 3 fills x {f under the declaring block, f inside a wrapper function that is probed too} (exhaustive test), + pairs/triples (thorough: all ordered pairs); getupvalue at -1..n+2 and setupvalue at every index through the Go API and debug.*, on open and on closed upvalues, values and exactly-one-variable-changed seen through a reader closure sharing the variables; distinct = distinct case skeletons" +
		"; linetab: programs of the C01M fragment (conditions, logical/relational/arithmetic operators, unary minus, #, .., local and multiple assignment, if/while/repeat/return: bounded-exhaustive condition trees x 12 contexts, every assignment shape, arithmetic operand classes, random programs and deep expressions, chunk shapes around the final RETURN) rendered token by token in 6 multi-line layouts (one statement per line, one token per line, random breaks, breaks + blank lines + line and block comments, one line, breaks inside expressions only; operands with 0/1/2 pairs of parentheses): the real compiler's FunctionProto.DbgSourcePositions compared ENTRY BY ENTRY with the Lean line-table model compLines (Model/CompileLines.lean), and every entry of the implementation's table checked to lie in the token-line span of the statement that wrote it; errline: the same rendered programs RUN on the real VM under valuations that make operations raise: the line named by the run-time error message = compLines[pc] for the pc at which the MiniVM on the model's code faults, and within the span of the statement that wrote that instruction"
	run.Assume = []string{
		"linetab: token lines are >= 1 and never decrease in source order (the renderer's own bookkeeping; LastLine()==0 means `not set`); the final RETURN's entry (line of the last statement + 1, not a token line) is compared with the model only",
		"the Model is the code AFTER fixes/C17-local-scope-ranges.diff and fixes/C17-findlocal-nonpositive-index.diff (harness built against a worktree with both applied)",
		"only NAMED variables count (names starting with '(' are internal); CompatVarArg=true declares the named local `arg` in vararg functions with a parent",
		"levels across lost tail-call frames are compared against the Model only (the property does not define them)",
		"line numbers: checked by correspondence only (token-line spans of the harness's own renderer); lines_function_of_tokens belongs to C08's lexer model",
	}
	if !replayMode.on || wholeRun {
		for i, line := range c17LoaderIndependence() {
			if i < 5 {
				run.Failures = append(run.Failures, Failure{CaseIdx: -9050, Kind: "CRASH", Line: line, Reply: line, Lines: []string{line}})
			}
		}
		run.Extra["loader_independence_runs"] = c17LoaderRuns
	}
	root := NewRng(uint64(run.Seed))
	var cases []Case
	for i, c := range loadCorpus("C17M") {
		cases = append(cases, Case{Idx: -1 - i, Ops: c, Note: "corpus"})
	}
	for i := 0; i < nSim; i++ {
		cases = append(cases, Case{Idx: i, Ops: genSimCase(root.Fork(uint64(i)), 36)})
	}
	for i := 0; i < nProg; i++ {
		r := root.Fork(uint64(100000 + i))
		cases = append(cases, Case{Idx: 100000 + i, Ops: []Op{{Args: []string{"prog", strconv.FormatUint(r.U64()>>1, 10),
			strconv.Itoa(i % 6), strconv.Itoa((i / 6) % 4), strconv.Itoa(r.Range(8, 40))}}}})
	}
	linkKinds := []string{"c", "c", "t", "p", "o", "m"}
	for i := 0; i < nChain; i++ {
		r := root.Fork(uint64(200000 + i))
		args := []string{"chain"}
		for k := r.Range(0, 5); k > 0; k-- {
			args = append(args, Pick(r, linkKinds))
		}
		args = append(args, "L", strconv.Itoa(Pick(r, []int{1, 1, 2, 2, 3, 4, 0, -1})))
		cases = append(cases, Case{Idx: 200000 + i, Ops: []Op{{Args: args}}})
	}
	idx := 300000
	for rep := 0; rep < nLines; rep++ {
		for kind := range failKinds {
			for mode := 0; mode < 3; mode++ {
				if mode > 0 && kind%8 != rep%8 {
					continue
				}
				r := root.Fork(uint64(idx))
				for _, layout := range []int{0, 1, 2, 3, 4, 5} {
					nl := r.Intn(4)
					if layout == 1 {
						nl = (kind + rep) % 4
					}
					cases = append(cases, Case{Idx: idx, Ops: []Op{{Args: []string{"lines", strconv.FormatUint(r.U64()>>1, 10),
						strconv.Itoa(kind), strconv.Itoa(mode), strconv.Itoa(layout), strconv.Itoa(nl)}}}})
					idx++
				}
			}
		}
	}
	for i, a := range upordCases(root, run.Tier == "thorough") {
		cases = append(cases, Case{Idx: 400000 + i, Ops: []Op{{Args: a}}})
	}
	if os.Getenv("C17_NO_LINETAB") == "" { // (switch for timing the family; never set by ./check)
		for i, a := range lineTabCases(root.Fork(777_000_017), run.Tier == "thorough") {
			cases = append(cases, Case{Idx: 600000 + i, Ops: []Op{{Args: a}}})
		}
		for i, a := range errLineCases(root.Fork(777_000_018), run.Tier == "thorough") {
			cases = append(cases, Case{Idx: 900000 + i, Ops: []Op{{Args: a}}})
		}
	}
	runCases(run, cases, execC17M, classifyTagged)
	run.Hist["errline:run-time-error-with-line"] = int(atomic.LoadInt64(&ltErrWithLine))
	run.Hist["errline:run-time-error-without-position"] = int(atomic.LoadInt64(&ltErrNoLine))
	run.Hist["errline:no-error"] = int(atomic.LoadInt64(&ltNoErr))
	run.Hist["errline:not-compared(unsafe number<->string conversion)"] = int(atomic.LoadInt64(&ltSkippedConv))
	for _, c := range cases {
		if a := c.Ops[0].Args; a[0] == "linetab" || a[0] == "errline" {
			run.Distinct["linetab "+a[1]+" "+mechSkeleton([]Op{{Args: a[3:]}})] = true
			continue
		}
		if a := c.Ops[0].Args; a[0] == "upord" && len(a) >= 7 {
			run.Distinct[strings.Join([]string{a[0], a[1], a[2], a[4], a[5], a[6]}, " ")] = true
			continue
		}
		run.Distinct[strings.Join(c.Ops[0].Args[:intMin2(len(c.Ops[0].Args), 4)], " ")+fmt.Sprint(len(c.Ops))] = true
	}
}

func intMin2(a, b int) int {
	if a < b {
		return a
	}
	return b
}
