package main

// C17M family `upord` — the ORDER of a function's upvalues.
//
// Lua 5.1 numbers the upvalues of a function in the order in which the function's source text first mentions them
// (left to right: the targets of an assignment before its right-hand side, `p, q = r, s` gives p q r s; a variable
// that only an inner closure uses counts where the inner function expression stands).  debug.getupvalue(f, i) /
// LState.GetUpvalue enumerate in that order with the current values, debug.setupvalue(f, i, v) / LState.SetUpvalue
// change exactly the i-th of them.
//
// A case is one small program built from STATEMENT TEMPLATES: every syntactic position in which a variable can be
// mentioned (single/multiple assignment target, table-store object/key/value, right-hand sides, operands of every
// operator, call/method receiver and arguments, conditions, loop bounds and explists, constructors, return lists,
// nested closures 1–3 deep, locals/parameters/loop variables that shadow an outer name) is a hole `%`; the holes are
// filled from a pool of outer locals by a permutation (identity, reverse, random) or with repetition.  The emitter
// writes the tokens left to right and keeps the Lua scoping rules (block/function scopes), so the expected upvalue
// list of every function is simply the order in which its holes were first written.  For functions without shadowing
// the expectation is re-derived from the finished source text (first textual occurrence of the pool names) as a
// self-check of the generator.
//
// Probed functions: `f` (the function made of the templates) and, at depth 1, the wrapper `m` that contains f, some
// of the pool variables (m's own parameter/locals) and direct statements before/after f, so that m's upvalues are
// first mentioned directly, through f, or through closures nested in f.  Each probe (host function upq) runs
//   get:  name/value for index -1..n+2 through LState.GetUpvalue and through debug.getupvalue (called from Go),
//         values compared with what a READER closure sharing all pool variables returns (Lua's own reads),
//   set:  for every index -1..n+2, through LState.SetUpvalue and debug.setupvalue: returned name, and the reader's
//         view before/after: exactly the expected variable holds the sentinel, every other one is unchanged.
// f is probed while its upvalues are open (enclosing frame alive) and again after they were closed.
//
// Requests reuse the engine's `upv` (Model: GetUpvalue/SetUpvalue on the real DbgUpvalues; Spec: expected name at
// that index, "-" outside 1..n) and `eq` lines.

import (
	"fmt"
	"strconv"
	"strings"
	"time"

	lua "github.com/yuin/gopher-lua"
)

type uoTemplate struct {
	toks string
	safe bool // can be EXECUTED without error/endless loop/return: usable as a direct statement of the wrapper m
	decl bool // declares a pool-named local at its own block level (not usable between f and the reader in m)
}

// template tokens (blank separated):
//   %      hole: reference to the next pool variable of the fill sequence
//   %k     reference to the variable chosen by the k-th hole of this template instance
//   @      hole that NAMES a new local (written now, declared by the next `!`)
//   ^^     reference to the name chosen by the last @ / F@[
//   !      the pending @-names become locals of the current block
//   F[ ]F  nested function(q, ...) … end          F@[  nested function(<pool name>) … end (parameter shadows)
//   B[ ]B  block scope (emits nothing)
var uoTemplates = []uoTemplate{
	// --- assignment: targets and right-hand sides
	{"% = 1", true, false},
	{"% = %", true, false},
	{"% , % = % , %", true, false},
	{"% , % , % = % , % , %", true, false},
	{"% , % = %", true, false},
	{"% = % , %", true, false},
	{"% , % = sink ( % , % )", true, false},
	{"% , % , % = % ( )", false, false},
	{"% , % = ...", true, false},
	{"% , % = ... , %", true, false},
	{"% , % = % , ...", true, false},
	{"% = %1 + %", false, false},
	{"% , % = %2 , %1", true, false},
	{"% = % , %1", true, false},
	{"% = ( % )", true, false},
	{"% = % + %", false, false},
	{"% = % .. %", false, false},
	{"% = % == %", true, false},
	{"% = % < %", false, false},
	{"% = not %", true, false},
	{"% = - %", false, false},
	{"% = # %", false, false},
	{"% = % and %", true, false},
	{"% = % or % and %", true, false},
	{"% = { % , % }", true, false},
	{"% = { [ % ] = % }", false, false},
	{"% = % [ % ]", false, false},
	{"% = % . k", false, false},
	{"% = % ( % )", false, false},
	{"% = % : m ( % )", false, false},
	{"% = F[ return % ]F", true, false},
	{"% = F[ % = % ]F", true, false},
	{"% , % = F[ % = % ]F , %", true, false},
	// --- table stores: object, key, value
	{"% . k = %", false, false},
	{"% [ % ] = %", false, false},
	{"% [ % ] , % = % , %", false, false},
	{"% , % . k = % , %", false, false},
	{"% . a . b = %", false, false},
	{"% [ % ] [ % ] = %", false, false},
	{"% . k , % . k = % , %", false, false},
	{"% [ % ] , % [ % ] = % , %", false, false},
	{"% . k = F[ return % , % ]F", false, false},
	{"% [ % ] = { % }", false, false},
	{"% , % [ % ] , % = %", false, false},
	// --- local declarations, operators, constructors, indexing
	{"local l = %", true, false},
	{"local l , l2 = % , %", true, false},
	{"local l = % + % * %", false, false},
	{"local l = ( % + % ) * %", false, false},
	{"local l = % .. % .. %", false, false},
	{"local l = % < %", false, false},
	{"local l = % > %", false, false},
	{"local l = % >= %", false, false},
	{"local l = % ~= %", true, false},
	{"local l = 1 < %", false, false},
	{"local l = 2 ^ % - %", false, false},
	{"local l = 1 + % + 2 * %", false, false},
	{"local l = not %", true, false},
	{"local l = - %", false, false},
	{"local l = # %", false, false},
	{"local l = % and % or %", true, false},
	{"local l = % or %", true, false},
	{"local l = { % , [ % ] = % , k = % , % }", false, false},
	{"local l = { % ( % ) }", false, false},
	{"local l = % . x [ % ]", false, false},
	{"local l = % ( % ) ( % )", false, false},
	{"local l = F[ return % , % ]F", true, false},
	// --- calls: callee, receiver, arguments
	{"sink ( % )", true, false},
	{"sink ( % , % , % )", true, false},
	{"% ( % , % )", false, false},
	{"% : m ( % , % )", false, false},
	{"% . f ( % )", false, false},
	{"% [ % ] ( % )", false, false},
	{"sink { % , % }", true, false},
	{"% { % }", false, false},
	{"% \"s\"", false, false},
	{"sink ( % ( % ) , % )", false, false},
	{"sink ( F[ local h = F[ return % ]F return % ]F , % )", true, false},
	// --- conditions and loops
	{"if % then B[ % = 1 ]B end", true, false},
	{"if % then B[ % = % ]B elseif % then B[ sink ( % ) ]B else B[ % , % = % , % ]B end", true, false},
	{"if % > % then B[ % = 1 ]B end", false, false},
	{"if % and % then B[ % = % ]B end", true, false},
	{"if not ( % and % ) then B[ ]B end", true, false},
	{"while % do B[ % = % break ]B end", true, false},
	{"while % < % do B[ break ]B end", false, false},
	{"repeat B[ % = % until % or true ]B", true, false},
	{"repeat B[ local l = % until l == % ]B", false, false},
	{"for i = % , % do B[ sink ( % ) ]B end", false, false},
	{"for i = % , % , % do B[ % = i ]B end", false, false},
	{"for k , v in % , % , % do B[ sink ( % ) ]B end", false, false},
	{"for k in pairs ( % ) do B[ % = k ]B end", false, false},
	{"for k , v in % ( % ) do B[ % , % = v , k ]B end", false, false},
	// --- nested closures: the capture counts where the inner function expression stands
	{"local g = F[ % = 1 local h = F[ % , % = % , % ]F ]F", true, false},
	{"local g = F[ return F[ return F[ return % , % ]F , % ]F , % ]F", true, false},
	{"local g = F[ local l = % ]F % = %", true, false},
	// --- return lists
	{"do B[ return % , % ]B end", false, false},
	{"do B[ return % ( % ) ]B end", false, false},
	{"do B[ return % , % ( % ) , ... ]B end", false, false},
	{"if % then B[ return % ]B end", false, false},
	// --- shadowing: a local / loop variable / parameter with the name of an outer variable
	{"local @ = % ! ^^ = % % = ^^", true, true},
	{"local @ , @ = % , % ! sink ( % , % )", true, true},
	{"do B[ local @ = 0 ! ^^ = % ]B end % = %", true, false},
	{"for @ = 1 , 0 do B[ ! ^^ = % sink ( % ) ]B end", true, false},
	{"repeat B[ local @ = % ! until ^^ or true ]B % = %", true, false},
	{"local g = F@[ % = ^^ % = % ]F", true, false},
}

type uoScope struct {
	blocks []map[string]bool
	ups    []string
	start  int  // offset of the function's text in the source
	shadow bool // a pool-named local or parameter was declared inside: the textual self-check does not apply
	own    map[string]bool
}

func (s *uoScope) has(name string) bool {
	for _, b := range s.blocks {
		if b[name] {
			return true
		}
	}
	return false
}

type uoEmitter struct {
	sb      strings.Builder
	stack   []*uoScope
	pool    []string
	isPool  map[string]bool
	fill    []int
	fi      int
	holes   []string
	pending []string
	last    string
	bad     string
}

func (e *uoEmitter) w(tok string) { e.sb.WriteString(tok); e.sb.WriteByte(' ') }
func (e *uoEmitter) nl()          { e.sb.WriteByte('\n') }

// ref: function scopes from the innermost outwards; every function between the mention and the variable's owner
// gets the name as an upvalue (if it does not have it yet)
func (e *uoEmitter) ref(name string) {
	for i := len(e.stack) - 1; i >= 0; i-- {
		s := e.stack[i]
		if s.has(name) {
			return
		}
		known := false
		for _, u := range s.ups {
			if u == name {
				known = true
			}
		}
		if !known {
			s.ups = append(s.ups, name)
		}
	}
}

func (e *uoEmitter) next() string {
	n := e.pool[e.fill[e.fi%len(e.fill)]]
	e.fi++
	e.holes = append(e.holes, n)
	return n
}

func (e *uoEmitter) pushFn(header string, shadow bool, locals ...string) *uoScope {
	s := &uoScope{start: e.sb.Len(), blocks: []map[string]bool{{}}, own: map[string]bool{}, shadow: shadow}
	for _, l := range locals {
		s.blocks[0][l] = true
		s.own[l] = true
	}
	e.w(header)
	e.stack = append(e.stack, s)
	return s
}

func (e *uoEmitter) popFn() {
	s := e.stack[len(e.stack)-1]
	e.w("end")
	e.stack = e.stack[:len(e.stack)-1]
	if len(e.stack) > 0 && s.shadow {
		e.stack[len(e.stack)-1].shadow = true
	}
	if !s.shadow {
		// self-check of the generator: without shadowing, the expected list is the order of first textual occurrence
		var scan []string
		seen := map[string]bool{}
		for _, t := range strings.Fields(e.sb.String()[s.start:]) {
			if e.isPool[t] && !seen[t] && !s.own[t] {
				seen[t] = true
				scan = append(scan, t)
			}
		}
		if strings.Join(scan, " ") != strings.Join(s.ups, " ") {
			e.bad = fmt.Sprintf("generator: tracked order [%s] differs from the textual order [%s]", strings.Join(s.ups, " "), strings.Join(scan, " "))
		}
	}
}

func (e *uoEmitter) cur() *uoScope { return e.stack[len(e.stack)-1] }

func (e *uoEmitter) template(t uoTemplate) {
	e.holes = nil
	for _, tok := range strings.Fields(t.toks) {
		switch {
		case tok == "%":
			n := e.next()
			e.ref(n)
			e.w(n)
		case len(tok) == 2 && tok[0] == '%' && tok[1] >= '1' && tok[1] <= '9':
			n := e.holes[int(tok[1]-'1')]
			e.ref(n)
			e.w(n)
		case tok == "@":
			n := e.next()
			e.pending = append(e.pending, n)
			e.last = n
			e.w(n)
		case tok == "^^":
			e.ref(e.last)
			e.w(e.last)
		case tok == "!":
			s := e.cur()
			for _, n := range e.pending {
				s.blocks[len(s.blocks)-1][n] = true
			}
			s.shadow = true
			e.pending = nil
		case tok == "F[":
			e.pushFn("function ( q , ... )", false, "q")
		case tok == "F@[":
			n := e.next()
			e.last = n
			e.pushFn("function ( "+n+" )", true, n)
		case tok == "]F":
			e.popFn()
		case tok == "B[":
			s := e.cur()
			s.blocks = append(s.blocks, map[string]bool{})
		case tok == "]B":
			s := e.cur()
			s.blocks = s.blocks[:len(s.blocks)-1]
		default:
			e.w(tok)
		}
	}
	e.nl()
}

type uoProbe struct {
	exp   []string // expected upvalue names, in order
	names []string // what the reader closure passed to upq returns, in order
}

var uoValues = []string{"11", "\"s2\"", "nil", "false", "{ }", "66", "true", "sink"}

// uoGenProgram: depth 0 = f directly under the block that declares the pool; depth 1 = f inside the wrapper m
func uoGenProgram(depth int, mode string, seed uint64, ts []int, pre, post int) (string, []uoProbe, string) {
	g := NewRng(seed)
	const P = 6
	e := &uoEmitter{isPool: map[string]bool{}}
	for i := 0; i < P; i++ {
		n := fmt.Sprintf("%c%d", "kzmatg"[g.Intn(6)], i+1)
		e.pool = append(e.pool, n)
		e.isPool[n] = true
	}
	perm := make([]int, P)
	for i := range perm {
		perm[i] = i
	}
	for i := P - 1; i > 0; i-- {
		j := g.Intn(i + 1)
		perm[i], perm[j] = perm[j], perm[i]
	}
	inM := make([]bool, P) // depth 1: which pool variables belong to the wrapper m
	switch mode {
	case "id":
		for i := 0; i < P; i++ {
			e.fill = append(e.fill, i)
			inM[i] = i%2 == 1
		}
	case "rev":
		for i := P - 1; i >= 0; i-- {
			e.fill = append(e.fill, i)
			inM[i] = i%2 == 0
		}
	case "rnd":
		e.fill = perm
		for i := 0; i < P; i++ {
			inM[i] = g.Bool()
		}
	default: // rep: with repetition
		for i := 0; i < 16; i++ {
			e.fill = append(e.fill, g.Intn(P))
		}
		for i := 0; i < P; i++ {
			inM[i] = g.Bool()
		}
	}
	vo := g.Intn(len(uoValues))
	value := func(i int) string { return uoValues[(vo+i)%len(uoValues)] }
	var probes []uoProbe
	fbody := func() *uoScope {
		f := e.pushFn("function ( q , ... )", false, "q")
		e.nl()
		for _, t := range ts {
			e.template(uoTemplates[t])
		}
		e.popFn()
		e.nl()
		return f
	}
	reassign := func() {
		for k := g.Range(0, 2); k > 0; k-- {
			n := e.pool[g.Intn(P)]
			e.ref(n)
			e.w(n + " = " + strconv.Itoa(700+g.Intn(90)))
			e.nl()
		}
	}
	all := strings.Join(e.pool, " , ")
	if depth == 0 {
		e.w("local F , RD")
		e.nl()
		e.w("do")
		e.nl()
		e.w("local " + all + " =")
		for i := 0; i < P; i++ {
			if i > 0 {
				e.w(",")
			}
			e.w(value(i))
		}
		e.nl()
		e.w("F =")
		f := fbody()
		e.w("RD = function ( ) return " + all + " end")
		e.nl()
		reassign()
		e.w("upq ( 0 , F , RD )")
		e.nl()
		e.w("end")
		e.nl()
		e.w("upq ( 0 , F , RD )")
		e.nl()
		probes = []uoProbe{{exp: f.ups, names: e.pool}}
		return e.sb.String(), probes, e.bad
	}
	var vs, ws []int
	for i := 0; i < P; i++ {
		if inM[i] {
			ws = append(ws, i)
		} else {
			vs = append(vs, i)
		}
	}
	if len(ws) == 0 {
		ws, vs = vs[:1], vs[1:]
	}
	if len(vs) == 0 {
		vs, ws = ws[:1], ws[1:]
	}
	var vnames []string
	for _, i := range vs {
		vnames = append(vnames, e.pool[i])
	}
	e.w("local " + strings.Join(vnames, " , ") + " =")
	for k, i := range vs {
		if k > 0 {
			e.w(",")
		}
		e.w(value(i))
	}
	e.nl()
	e.w("local M =")
	var wnames []string
	for _, i := range ws {
		wnames = append(wnames, e.pool[i])
	}
	m := e.pushFn("function ( "+wnames[0]+" , ... )", false, wnames...)
	e.nl()
	if len(ws) > 1 {
		e.w("local " + strings.Join(wnames[1:], " , ") + " =")
		for k, i := range ws[1:] {
			if k > 0 {
				e.w(",")
			}
			e.w(value(i))
		}
		e.nl()
	}
	if pre >= 0 {
		e.template(uoTemplates[pre])
	}
	e.w("local f =")
	f := fbody()
	if post >= 0 {
		e.template(uoTemplates[post])
	}
	e.w("local rd =")
	e.pushFn("function ( )", false)
	e.w("return")
	for i, n := range e.pool {
		if i > 0 {
			e.w(",")
		}
		e.ref(n)
		e.w(n)
	}
	e.popFn()
	e.nl()
	reassign()
	e.w("upq ( 1 , f , rd )")
	e.nl()
	e.w("return f , rd")
	e.nl()
	e.popFn()
	e.nl()
	e.w("local RD0 = function ( ) return " + strings.Join(vnames, " , ") + " end")
	e.nl()
	e.w("upq ( 0 , M , RD0 )")
	e.nl()
	e.w("local F2 , RD2 = M ( " + value(ws[0]) + " )")
	e.nl()
	e.w("upq ( 1 , F2 , RD2 )")
	e.nl()
	e.w("upq ( 0 , M , RD0 )")
	e.nl()
	probes = []uoProbe{{exp: m.ups, names: vnames}, {exp: f.ups, names: e.pool}}
	return e.sb.String(), probes, e.bad
}

type uoWorld struct {
	L      *lua.LState
	probes []uoProbe
	rt     *RefTable
	out    []string
	sent   int
}

func (w *uoWorld) upq(L *lua.LState) int {
	pr := w.probes[L.CheckInt(1)]
	fn := L.CheckFunction(2)
	rd := L.CheckFunction(3)
	dbgt, _ := L.GetGlobal("debug").(*lua.LTable)
	if dbgt == nil {
		w.out = append(w.out, "X upord-no-debug-library => -")
		return 0
	}
	getup, setup := dbgt.RawGetString("getupvalue"), dbgt.RawGetString("setupvalue")
	var real, exp []string
	for _, n := range fn.Proto.DbgUpvalues {
		real = append(real, hx(n))
	}
	for _, n := range pr.exp {
		exp = append(exp, hx(n))
	}
	ut := "T " + strings.Join(real, " ") + " X " + strings.Join(exp, " ")
	idx := map[string]int{}
	for i, n := range pr.names {
		idx[n] = i
	}
	fail := func(what string, err error) {
		w.out = append(w.out, "X upord-"+what+" => "+strings.ReplaceAll(strings.ReplaceAll(err.Error(), " ", "_"), "\n", "|"))
	}
	read := func() []lua.LValue {
		top := L.GetTop()
		if err := L.CallByParam(lua.P{Fn: rd, NRet: len(pr.names), Protect: true}); err != nil {
			fail("reader-failed", err)
			L.SetTop(top)
			return make([]lua.LValue, len(pr.names))
		}
		vals := make([]lua.LValue, len(pr.names))
		for i := range vals {
			vals[i] = L.Get(top + 1 + i)
		}
		L.SetTop(top)
		return vals
	}
	name := func(s string) string {
		if s == "" {
			return "-"
		}
		return hx(s)
	}
	n := len(pr.exp)
	// (a) enumeration: names in first-occurrence order, current values, nothing outside 1..n
	cur := read()
	for no := -1; no <= n+2; no++ {
		want := "nil"
		if no >= 1 && no <= n {
			want = encVal(cur[idx[pr.exp[no-1]]], w.rt)
		}
		nm, v := L.GetUpvalue(fn, no)
		w.out = append(w.out, fmt.Sprintf("C17M upv %s NO %d => %s", ut, no, name(nm)))
		w.out = append(w.out, fmt.Sprintf("C17M eq %s => %s", want, encVal(v, w.rt)))
		top := L.GetTop()
		if err := L.CallByParam(lua.P{Fn: getup, NRet: lua.MultRet, Protect: true}, fn, lua.LNumber(no)); err != nil {
			fail("debug.getupvalue-failed", err)
			L.SetTop(top)
			continue
		}
		nres := L.GetTop() - top
		r1, r2 := L.Get(top+1), L.Get(top+2)
		L.SetTop(top)
		switch s, isStr := r1.(lua.LString); {
		case isStr && nres == 2:
			w.out = append(w.out, fmt.Sprintf("C17M upv %s NO %d => %s", ut, no, name(string(s))))
			w.out = append(w.out, fmt.Sprintf("C17M eq %s => %s", want, encVal(r2, w.rt)))
		case r1 == lua.LNil && nres == 1:
			w.out = append(w.out, fmt.Sprintf("C17M upv %s NO %d => -", ut, no))
		default:
			w.out = append(w.out, fmt.Sprintf("X upord-debug.getupvalue-result-shape => %d_results_%s", nres, r1.Type().String()))
		}
	}
	// (b) setupvalue changes exactly the i-th variable (seen through the reader that shares the variables)
	for no := -1; no <= n+2; no++ {
		for api := 0; api < 2; api++ {
			before := read()
			w.sent++
			sentinel := lua.LNumber(900000 + w.sent)
			var nm string
			if api == 0 {
				nm = L.SetUpvalue(fn, no, sentinel)
			} else {
				top := L.GetTop()
				if err := L.CallByParam(lua.P{Fn: setup, NRet: 1, Protect: true}, fn, lua.LNumber(no), sentinel); err != nil {
					fail("debug.setupvalue-failed", err)
					L.SetTop(top)
					continue
				}
				if s, ok := L.Get(top + 1).(lua.LString); ok {
					nm = string(s)
				} else if L.Get(top+1) != lua.LNil {
					nm = "?" + L.Get(top+1).Type().String()
				}
				L.SetTop(top)
			}
			w.out = append(w.out, fmt.Sprintf("C17M upv %s NO %d => %s", ut, no, name(nm)))
			after := read()
			var want, got []string
			for i := range pr.names {
				if no >= 1 && no <= n && pr.names[i] == pr.exp[no-1] {
					want = append(want, encVal(sentinel, w.rt))
				} else {
					want = append(want, encVal(before[i], w.rt))
				}
				got = append(got, encVal(after[i], w.rt))
			}
			w.out = append(w.out, fmt.Sprintf("C17M eq %s => %s", strings.Join(want, ","), strings.Join(got, ",")))
		}
	}
	return 0
}

func uoParse(op Op) (depth int, mode string, seed uint64, ts []int, pre, post int, ok bool) {
	if len(op.Args) < 7 {
		return
	}
	depth, _ = strconv.Atoi(op.Args[1])
	mode = op.Args[2]
	seed, _ = strconv.ParseUint(op.Args[3], 10, 64)
	for _, s := range strings.Split(op.Args[4], ",") {
		t, err := strconv.Atoi(s)
		if err != nil || t < 0 || t >= len(uoTemplates) {
			return
		}
		ts = append(ts, t)
	}
	opt := func(s string) int {
		if t, err := strconv.Atoi(s); err == nil && t >= 0 && t < len(uoTemplates) {
			return t
		}
		return -1
	}
	pre, post = opt(op.Args[5]), opt(op.Args[6])
	ok = true
	return
}

// op: upord <depth 0|1> <id|rev|rnd|rep> <seed> <t1,t2,…> <pre|-> <post|->
func execUpord(op Op) []string {
	depth, mode, seed, ts, pre, post, ok := uoParse(op)
	if !ok {
		return []string{"X upord-bad-op => " + strings.Join(op.Args, "_")}
	}
	src, probes, bad := uoGenProgram(depth, mode, seed, ts, pre, post)
	if bad != "" {
		return []string{"X upord-" + strings.ReplaceAll(bad, " ", "_") + " => -"}
	}
	L := lua.NewState()
	w := &uoWorld{L: L, probes: probes, rt: NewRefTable()}
	L.SetGlobal("upq", L.NewFunction(w.upq))
	if (seed+uint64(depth)+uint64(len(mode))+uint64(len(ts)))%2 == 1 {
		// every other program runs its probes from INSIDE a coroutine: the variables the probed closures share are
		// then open upvalues that live in another thread's registers (get/setupvalue must reach them there)
		L.SetGlobal("upq_host", L.NewFunction(w.upq))
		if err := L.DoString(`function upq(...) local a, n = {...}, select("#", ...) return coroutine.wrap(function() return upq_host(unpack(a, 1, n)) end)() end`); err != nil {
			panic(err)
		}
	}
	L.SetGlobal("sink", L.NewFunction(func(*lua.LState) int { return 0 }))
	// generated programs terminate: an instruction budget ends one that does not (a goroutine abandoned by the watchdog
	// below would otherwise keep running — and allocating — for the rest of the check)
	bctx, bstop := newBudgetCtxWithBackstop(20000000, 3*time.Minute)
	defer bstop()
	L.SetContext(bctx)
	done := make(chan struct{})
	go func() {
		defer close(done)
		defer func() {
			if e := recover(); e != nil {
				w.out = append(w.out, "X go-panic => "+strings.ReplaceAll(fmt.Sprint(e), " ", "_"))
			}
		}()
		if err := L.DoString(src); err != nil {
			w.out = append(w.out, "X program-failed => "+strings.ReplaceAll(strings.ReplaceAll(err.Error(), " ", "_"), "\n", "|"))
		}
	}()
	select {
	case <-done:
		L.Close()
	case <-hangAfter(120 * time.Second):
		noteHang()
		return []string{"X timeout => upord"}
	}
	return w.out
}

// upordCases: every template alone x 3 permutation fills x both depths (exhaustive, every run); every template
// before and after a random other one; random triples with repetition fills; thorough adds all ordered pairs.
func upordCases(root *Rng, thorough bool) [][]string {
	var res [][]string
	nT := len(uoTemplates)
	var safe, safeNoDecl []int
	for i, t := range uoTemplates {
		if t.safe {
			safe = append(safe, i)
			if !t.decl {
				safeNoDecl = append(safeNoDecl, i)
			}
		}
	}
	k := uint64(0)
	mk := func(depth int, mode string, ts []int) {
		r := root.Fork(400000 + k)
		k++
		pre, post := "-", "-"
		if depth == 1 {
			if r.Chance(60) {
				pre = strconv.Itoa(Pick(r, safe))
			}
			if r.Chance(50) {
				post = strconv.Itoa(Pick(r, safeNoDecl))
			}
		}
		var s []string
		for _, t := range ts {
			s = append(s, strconv.Itoa(t))
		}
		res = append(res, []string{"upord", strconv.Itoa(depth), mode, strconv.FormatUint(r.U64()>>1, 10), strings.Join(s, ","), pre, post})
	}
	for t := 0; t < nT; t++ {
		for _, mode := range []string{"id", "rev", "rnd"} {
			for depth := 0; depth < 2; depth++ {
				mk(depth, mode, []int{t})
			}
		}
	}
	r := root.Fork(399999)
	for t := 0; t < nT; t++ {
		mk(t%2, "rnd", []int{r.Intn(nT), t})
		mk((t+1)%2, "rep", []int{t, r.Intn(nT)})
	}
	nTriples := 100
	if thorough {
		nTriples = 3000
		for a := 0; a < nT; a++ {
			for b := 0; b < nT; b++ {
				mk((a+b)%2, Pick(r, []string{"rnd", "rep", "rev"}), []int{a, b})
			}
		}
	}
	for i := 0; i < nTriples; i++ {
		mk(r.Intn(2), Pick(r, []string{"rnd", "rep"}), []int{r.Intn(nT), r.Intn(nT), r.Intn(nT)})
	}
	return res
}
