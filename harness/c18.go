package main

// C18: the table library keeps list semantics (insert/remove/concat/maxn/getn/unpack under any history mixed
// with direct assignments) and table.sort leaves an ordered permutation / never crashes.
// Everything is driven through Lua-level calls of the real library functions (protected, under a deadline).

import (
	"fmt"
	"strconv"
	"strings"
	"sync"
	"time"

	lua "github.com/yuin/gopher-lua"
)

const c18Prelude = `
function c18_set(t,k,v) t[k]=v end
function c18_len(t) return #t end
-- the table library works on the RAW table (lua_rawgeti / lua_rawseti / lua_objlen): a list that carries a metatable
-- with every event behaves exactly like a plain one, and no handler runs while a library function is active
INLIB, METACALLS = false, 0
local function noted(f) return function(...) if INLIB then METACALLS = METACALLS + 1 end return f(...) end end
local c18_mt = {
  __len = noted(function(t) return table.getn(t) end),
  __index = noted(function(t, k) return nil end),
  __newindex = noted(function(t, k, v) rawset(t, k, v) end),
  __concat = noted(function(a, b) return "meta" end),
  __call = noted(function(...) return "called" end),
  __lt = noted(function(a, b) return false end), __le = noted(function(a, b) return true end), __eq = noted(function(a, b) return false end),
  __tostring = noted(function(t) return "a list" end),
}
function c18_setmeta(t) return setmetatable(t, c18_mt) end
function c18_metacalls() local n = METACALLS METACALLS = 0 return n end
function c18_inlib(b) INLIB = b end
-- comparator factory: kind, parameter, call log (flat table), the table being sorted, snapshot width (0 = none)
function c18_mkcmp(kind, p, log, t, snapn)
  local inner
  local n = 0
  if kind == "ltf" then inner = function(a,b) return a<b end
  elseif kind == "gt" then inner = function(a,b) return a>b end
  elseif kind == "key" then inner = function(a,b) return math.floor(a/p) < math.floor(b/p) end
  elseif kind == "truthy" then inner = function(a,b) if a<b then return 0 else return nil end end
  elseif kind == "truthys" then inner = function(a,b) if a<b then return "" else return false end end
  elseif kind == "le" then inner = function(a,b) return a<=b end
  elseif kind == "rand" then
    local s = p
    inner = function(a,b) s = (s*16807) % 2147483647; return s % 3 == 0 end
  elseif kind == "errk" then inner = function(a,b) if n == p then error("boom") end return a<b end
  elseif kind == "ctrue" then inner = function(a,b) return true end
  elseif kind == "cfalse" then inner = function(a,b) return false end
  -- comparators that modify the table being sorted (outside the property; only "no crash, terminates" is checked)
  elseif kind == "mutrem" then inner = function(a,b) table.remove(t, 1) return tostring(a) < tostring(b) end
  elseif kind == "mutins" then inner = function(a,b) if n <= 40 then table.insert(t, 1, 0) end return tostring(a) < tostring(b) end
  elseif kind == "mutclr" then inner = function(a,b) t[#t] = nil return tostring(a) < tostring(b) end
  elseif kind == "mutgrow" then inner = function(a,b) if n <= 40 then t[#t+1] = 0 end return tostring(a) < tostring(b) end
  end
  local stride = 2 + snapn
  local scratch = {}
  local function desc(x, y) return x > y end
  return function(a,b)
    -- a comparator may use the table library on tables of its own (re-entrancy of sort/insert/remove/concat)
    scratch[1], scratch[2], scratch[3], scratch[4] = 3, 1, 4, 2
    table.sort(scratch)
    local asc = table.concat(scratch, ",")
    table.sort(scratch, desc)
    table.insert(scratch, 1, 9)
    if asc ~= "1,2,3,4" or table.concat(scratch, ",") ~= "9,4,3,2,1" or table.remove(scratch, 1) ~= 9 then error("nested table library call inside a comparator went wrong: " .. asc .. " / " .. table.concat(scratch, ",")) end
    local base = n*stride
    n = n + 1
    log.n = n
    log[base+1] = a
    log[base+2] = b
    for i = 1, snapn do log[base+2+i] = t[i] end
    return inner(a,b)
  end
end
`

type c18World struct {
	L   *lua.LState
	w   *tblWorld // value decoding / reference numbering (shared helper of c09.go)
	fns map[string]*lua.LFunction
	tb  *lua.LTable
}

func newC18World() *c18World {
	L := lua.NewState()
	if err := L.DoString(c18Prelude); err != nil {
		panic(err)
	}
	w := &c18World{L: L, fns: map[string]*lua.LFunction{}}
	w.w = &tblWorld{L: L, tbls: map[int]*lua.LTable{}, refs: map[int]lua.LValue{}, rt: NewRefTable(), fns: map[string]*lua.LFunction{}}
	for _, n := range []string{"c18_set", "c18_len", "c18_mkcmp", "unpack", "c18_setmeta", "c18_metacalls"} {
		w.fns[n] = L.GetGlobal(n).(*lua.LFunction)
	}
	tab := L.GetGlobal("table").(*lua.LTable)
	for _, n := range []string{"insert", "remove", "concat", "maxn", "getn", "sort"} {
		w.fns[n] = tab.RawGetString(n).(*lua.LFunction)
	}
	w.tb = L.NewTable()
	return w
}

// call runs fn(args...) protected, under a deadline, catching Go panics.
// status: "ok", "err" (Lua error), "gopanic:<msg>", "timeout".
func (w *c18World) call(fn string, nret int, args ...lua.LValue) (res []lua.LValue, status string) {
	L := w.L
	top := L.GetTop()
	ctx, cancel := hangCtx(20 * time.Second)
	defer cancel()
	L.SetContext(ctx)
	defer L.RemoveContext()
	defer func() {
		if r := recover(); r != nil {
			status = "gopanic:" + strings.Join(strings.Fields(fmt.Sprint(r)), "_")
			L.SetTop(top)
		}
	}()
	if !strings.HasPrefix(fn, "c18_") {
		L.SetGlobal("INLIB", lua.LTrue)
		defer L.SetGlobal("INLIB", lua.LFalse)
	}
	err := L.CallByParam(lua.P{Fn: w.fns[fn], NRet: nret, Protect: true}, args...)
	if err != nil {
		L.SetTop(top)
		if ctx.Err() != nil {
			return nil, "timeout"
		}
		if ae, ok := err.(*lua.ApiError); ok && ae.Type == lua.ApiErrorPanic {
			// a Go run-time panic converted into an error by PCall is still a crash of the library function
			return nil, "gopanic:" + strings.Join(strings.Fields(err.Error()), "_")
		}
		return nil, "err"
	}
	n := L.GetTop() - top
	res = make([]lua.LValue, n)
	for i := 0; i < n; i++ {
		res[i] = L.Get(top + 1 + i)
	}
	L.SetTop(top)
	return res, "ok"
}

// argument tokens: "-" = not passed (only trailing)
func (w *c18World) decArgs(toks []string) []lua.LValue {
	var out []lua.LValue
	for _, t := range toks {
		if t == "-" {
			break
		}
		out = append(out, w.w.dec(t))
	}
	return out
}

func (w *c18World) dump(n int) string {
	var sb strings.Builder
	for k := 1; k <= n; k++ {
		if k > 1 {
			sb.WriteByte(' ')
		}
		sb.WriteString(w.w.enc(w.tb.RawGetInt(k)))
	}
	return sb.String()
}

// mkcmp builds the Lua comparator for a kind token; returns (function or other value, log table).
func (w *c18World) mkcmp(kind string, snapn int) (lua.LValue, *lua.LTable) {
	log := w.L.NewTable()
	if kind == "lt" {
		return nil, log
	}
	if kind == "nonfn" {
		return lua.LNumber(5), log
	}
	name, p := kind, 0
	for _, pre := range []string{"key", "errk", "rand"} {
		if strings.HasPrefix(kind, pre) {
			name = pre
			p, _ = strconv.Atoi(kind[len(pre):])
		}
	}
	res, st := w.call("c18_mkcmp", 1, lua.LString(name), lua.LNumber(p), log, w.tb, lua.LNumber(snapn))
	if st != "ok" {
		panic("mkcmp " + st)
	}
	return res[0], log
}

// interpreter states are reused across cases (a case never touches globals); a state that saw a crash or a
// timeout is discarded
var c18Pool = sync.Pool{New: func() interface{} { return newC18World() }}

func execC18(ops []Op) []string {
	w := c18Pool.Get().(*c18World)
	w.w.refs, w.w.rt = map[int]lua.LValue{}, NewRefTable()
	w.tb = w.L.NewTable()
	w.L.SetTop(0)
	var out []string
	// every third case works on lists that carry a metatable with all events (see the prelude)
	withMeta := (len(ops)+len(ops[len(ops)-1].Args))%3 == 0
	w.L.SetGlobal("INLIB", lua.LFalse)
	w.call("c18_metacalls", 1)
	w.L.SetTop(0)
	if withMeta {
		w.call("c18_setmeta", 0, w.tb)
	}
	defer func() {
		if r := recover(); r != nil {
			w.L.Close()
			panic(r) // a harness bug: reported by safeExec as a crash line
		}
		for _, l := range out {
			if strings.HasPrefix(l, "X ") {
				w.L.Close()
				return
			}
		}
		c18Pool.Put(w)
	}()
	emit := func(args []string, reply string) {
		l := "C18 " + strings.Join(args, " ")
		if reply != "" {
			l += " => " + reply
		}
		out = append(out, l)
	}
	crash := func(what, st string) {
		out = append(out, "X "+what+" => "+st)
	}
	dump := func() {
		n := w.tb.Len()
		emit([]string{"dump"}, strings.TrimSpace(strconv.Itoa(n)+" "+w.dump(n+2)))
	}
	// status → reply for calls without result
	simple := func(a []string, st string) {
		if st == "ok" || st == "err" {
			emit(a, st)
		} else {
			crash(strings.Join(a, "_"), st)
		}
	}
	for _, op := range ops {
		a := op.Args
		// symbolic positions of the bounded-exhaustive stream: @1, @n, @n+1 (n = #t now); an operation whose
		// position would fall outside the property's range (n = 0) is skipped
		if sym, skip := c18Resolve(a, w.tb.Len()); skip {
			continue
		} else {
			a = sym
		}
		switch a[0] {
		case "new":
			w.tb = w.L.NewTable()
			if withMeta {
				w.call("c18_setmeta", 0, w.tb)
			}
			emit(a, "")
		case "set":
			_, st := w.call("c18_set", 0, w.tb, w.w.dec(a[1]), w.w.dec(a[2]))
			simple(a, st)
			dump()
		case "ins":
			_, st := w.call("insert", 0, w.tb, w.w.dec(a[1]))
			simple(a, st)
			dump()
		case "insp":
			_, st := w.call("insert", 0, w.tb, w.w.dec(a[1]), w.w.dec(a[2]))
			simple(a, st)
			dump()
		case "rem", "remp":
			args := []lua.LValue{w.tb}
			if a[0] == "remp" {
				args = append(args, w.w.dec(a[1]))
			}
			res, st := w.call("remove", lua.MultRet, args...)
			switch {
			case st == "ok" && len(res) == 1:
				emit(a, w.w.enc(res[0]))
			case st == "ok":
				emit(a, fmt.Sprintf("nresults=%d", len(res)))
			case st == "err":
				emit(a, "err")
			default:
				crash(strings.Join(a, "_"), st)
			}
			dump()
		case "cat":
			args := append([]lua.LValue{w.tb}, w.decArgs(a[1:])...)
			res, st := w.call("concat", lua.MultRet, args...)
			switch {
			case st == "ok" && len(res) == 1:
				emit(a, w.w.enc(res[0]))
			case st == "ok":
				emit(a, fmt.Sprintf("nresults=%d", len(res)))
			case st == "err":
				emit(a, "err")
			default:
				crash(strings.Join(a, "_"), st)
			}
		case "unp":
			args := append([]lua.LValue{w.tb}, w.decArgs(a[1:])...)
			res, st := w.call("unpack", lua.MultRet, args...)
			switch st {
			case "ok":
				parts := []string{strconv.Itoa(len(res))}
				for _, v := range res {
					parts = append(parts, w.w.enc(v))
				}
				emit(a, strings.Join(parts, " "))
			case "err":
				emit(a, "err")
			default:
				crash(strings.Join(a, "_"), st)
			}
		case "maxn", "getn", "len":
			fn := map[string]string{"maxn": "maxn", "getn": "getn", "len": "c18_len"}[a[0]]
			res, st := w.call(fn, 1, w.tb)
			if st == "ok" {
				emit(a, w.w.enc(res[0])[1:])
			} else if st == "err" {
				emit(a, "err")
			} else {
				crash(a[0], st)
			}
		case "dump":
			dump()
		case "sort": // in-history sort: a[1] = comparator kind
			n := w.tb.Len()
			cmp, _ := w.mkcmp(a[1], 0)
			args := []lua.LValue{w.tb}
			if cmp != nil {
				args = append(args, cmp)
			}
			_, st := w.call("sort", 0, args...)
			if st == "ok" || st == "err" {
				emit(a, strings.TrimSpace(st+" "+w.dump(n+2)))
			} else {
				crash("sort_"+a[1], st)
			}
			dump()
		case "sortlog", "sortsnap": // stand-alone: a[1] = comparator, a[2] = trailing nil slots, a[3] = n, then the elements
			holes, _ := strconv.Atoi(a[2])
			n, _ := strconv.Atoi(a[3])
			w.tb = w.L.NewTable()
			for i := 0; i < n; i++ {
				w.tb.RawSetInt(i+1, w.w.dec(a[4+i]))
			}
			// trailing nil slots in the array part, produced the way a script produces them: t[#t] = nil
			for h := 1; h <= holes; h++ {
				w.call("c18_set", 0, w.tb, lua.LNumber(n+h), lua.LNumber(0))
			}
			for h := holes; h >= 1; h-- {
				w.call("c18_set", 0, w.tb, lua.LNumber(n+h), lua.LNil)
			}
			snapn := 0
			if a[0] == "sortsnap" {
				snapn = n
			}
			cmp, log := w.mkcmp(a[1], snapn)
			args := []lua.LValue{w.tb}
			if cmp != nil {
				args = append(args, cmp)
			}
			_, st := w.call("sort", 0, args...)
			if st != "ok" && st != "err" {
				crash("sort_"+a[1]+"_n"+a[3], st)
				continue
			}
			if strings.HasPrefix(a[1], "mut") {
				emit([]string{"sortmut", a[1], a[3]}, st)
				continue
			}
			nc := 0
			if v, ok := log.RawGetString("n").(lua.LNumber); ok {
				nc = int(v)
			}
			parts := []string{st, strconv.Itoa(nc)}
			if n > 0 {
				parts = append(parts, w.dump(n))
			}
			stride := 2 + snapn
			for k := 1; k <= nc*stride; k++ {
				parts = append(parts, w.w.enc(log.RawGetInt(k)))
			}
			req := append([]string{a[0], a[1], a[3]}, a[4:4+n]...)
			emit(req, strings.Join(parts, " "))
			if w.tb.Len() != n {
				// reported through the Spec complaint above when a nil moved into t[1..n]; a longer list is a crash
				if w.tb.Len() > n {
					crash("sort_grew_list", strconv.Itoa(w.tb.Len()))
				}
			}
		default:
			panic("bad op " + a[0])
		}
		if withMeta {
			if res, st := w.call("c18_metacalls", 1); st == "ok" && len(res) == 1 && res[0] != lua.LNumber(0) {
				crash("table-library-ran-a-metamethod_"+strings.Join(a, "_"), res[0].String()+"_handler_calls_while_a_table_function_was_active")
				return out
			}
		}
	}
	return out
}

func c18Resolve(a []string, n int) ([]string, bool) {
	has := false
	for _, t := range a {
		if len(t) > 0 && t[0] == '@' {
			has = true
		}
	}
	if !has {
		return a, false
	}
	out := make([]string, len(a))
	for i, t := range a {
		switch t {
		case "@1":
			if n == 0 && a[0] != "insp" {
				return nil, true
			}
			out[i] = "i1"
		case "@n":
			if n == 0 {
				return nil, true
			}
			out[i] = "i" + strconv.Itoa(n)
		case "@n+1":
			out[i] = "i" + strconv.Itoa(n+1)
		default:
			out[i] = t
		}
	}
	return out, false
}

// ---------- generators ----------

// c18Exhaustive: every history of length <= maxLen over ten boundary operations (a test, labelled as such).
func c18Exhaustive(maxLen int) [][]Op {
	alpha := [][]string{{"ins", "V"}, {"insp", "@1", "V"}, {"insp", "@n", "V"}, {"insp", "@n+1", "V"}, {"rem"},
		{"remp", "@1"}, {"remp", "@n"}, {"set", "@n", "nil"}, {"set", "@n+1", "V"}, {"sort", "gt"}}
	var res [][]Op
	var rec func(prefix []Op, depth int)
	rec = func(prefix []Op, depth int) {
		if depth > 0 {
			c := append([]Op{{Args: []string{"new"}}}, prefix...)
			c = append(c, Op{Args: []string{"unp", "-", "-"}}, Op{Args: []string{"cat", "s2c", "-", "-"}}, Op{Args: []string{"maxn"}})
			res = append(res, c)
		}
		if depth == maxLen {
			return
		}
		for _, o := range alpha {
			args := make([]string, len(o))
			for i, t := range o {
				if t == "V" {
					t = "i" + strconv.Itoa(10*(depth+1)+len(prefix)%3) // distinct, increasing values
				}
				args[i] = t
			}
			rec(append(append([]Op{}, prefix...), Op{Args: args}), depth+1)
		}
	}
	rec(nil, 0)
	return res
}

type c18Profile struct {
	r    *Rng
	kind int // 0 ints, 1 strings, 2 mixed
}

var c18Strs = []string{"s61", "s62", "s", "s3130", "s42", "s6162", "s7a", "s00ff"} // a b "" "10" B ab z \0\xff

func (p c18Profile) val() string {
	r := p.r
	switch p.kind {
	case 0:
		return "i" + strconv.Itoa(r.Range(-5, 40))
	case 1:
		return Pick(r, c18Strs)
	}
	switch c := r.Intn(100); {
	case c < 50:
		return "i" + strconv.Itoa(r.Range(-5, 99))
	case c < 80:
		return Pick(r, c18Strs)
	case c < 90:
		return Pick(r, []string{"T", "F"})
	default:
		return "r" + strconv.Itoa(r.Range(1, 3))
	}
}

// genC18History: a random history on one list.  `n` shadows #t by the manual's semantics (used for
// state-aware argument choice only; the oracle is the Lean Spec).
func genC18History(r *Rng, maxOps int) []Op {
	var ops []Op
	add := func(args ...string) { ops = append(ops, Op{Args: args}) }
	add("new")
	p := c18Profile{r: r, kind: Pick(r, []int{0, 0, 0, 0, 0, 1, 1, 2, 2, 2})}
	n := 0
	// initial fill
	for i, m := 0, Pick(r, []int{0, 0, 1, 2, 3, 5, 8, 12}); i < m; i++ {
		if r.Bool() {
			add("ins", p.val())
		} else {
			add("set", "i"+strconv.Itoa(n+1), p.val())
		}
		n++
	}
	inPos := func(hi int) int { // a position in 1..hi biased to the ends
		if hi < 1 {
			return 1
		}
		switch r.Intn(6) {
		case 0:
			return 1
		case 1:
			return hi
		case 2:
			if hi > 1 {
				return hi - 1
			}
			return 1
		}
		return r.Range(1, hi)
	}
	optIdx := func() string { // an optional integer argument of concat/unpack
		switch c := r.Intn(100); {
		case c < 25:
			return "-"
		case c < 30:
			return "nil"
		case c < 80:
			return "i" + strconv.Itoa(inPos(n))
		case c < 90:
			return "i" + strconv.Itoa(Pick(r, []int{0, n + 1, n + 2, -1, n}))
		default:
			return "i" + strconv.Itoa(r.Range(-2, n+3))
		}
	}
	nops := r.Range(3, maxOps)
	for len(ops) < nops {
		switch c := r.Intn(100); {
		case c < 15:
			add("ins", p.val())
			n++
		case c < 17:
			add("ins", "nil")
		case c < 30:
			if r.Chance(90) {
				add("insp", "i"+strconv.Itoa(inPos(n+1)), p.val())
				n++
			} else if r.Bool() {
				add("insp", "i"+strconv.Itoa(Pick(r, []int{0, -1, n + 2, n + 4})), p.val())
			} else {
				add("insp", "i"+strconv.Itoa(inPos(n+1)), "nil")
			}
		case c < 40:
			add("rem")
			if n > 0 {
				n--
			}
		case c < 51:
			if r.Chance(90) && n > 0 {
				add("remp", "i"+strconv.Itoa(inPos(n)))
				n--
			} else {
				add("remp", "i"+strconv.Itoa(Pick(r, []int{0, -1, n + 1, n + 2, n + 5})))
			}
		case c < 67: // direct assignments
			switch m := r.Intn(100); {
			case m < 45: // t[#t] = nil, possibly several times: trailing nil slots in the array part
				for k := Pick(r, []int{1, 1, 1, 2, 3}); k > 0 && n > 0; k-- {
					add("set", "i"+strconv.Itoa(n), "nil")
					n--
				}
			case m < 62:
				add("set", "i"+strconv.Itoa(n+1), p.val())
				n++
			case m < 80:
				if n > 0 {
					add("set", "i"+strconv.Itoa(inPos(n)), p.val())
				}
			case m < 88:
				add("set", Pick(r, []string{"s6b", "s6e", "s31"}), Pick(r, []string{"i7", "nil", "s78"}))
			case m < 92:
				add("set", "i"+strconv.Itoa(n+1), "nil")
			default: // leaves the list domain (Impl = Model only from here on)
				switch r.Intn(3) {
				case 0:
					add("set", "i"+strconv.Itoa(n+Pick(r, []int{2, 3})), p.val())
				case 1:
					if n > 1 {
						add("set", "i"+strconv.Itoa(r.Range(1, n-1)), "nil")
					}
				default:
					add("set", Pick(r, []string{"i0", "i-1"}), p.val())
				}
			}
		case c < 76:
			sep := Pick(r, []string{"-", "s", "s2c", "s2c20", "nil", "s2c"})
			if sep == "-" {
				add("cat", "-", "-", "-")
			} else {
				i := optIdx()
				j := "-"
				if i != "-" {
					j = optIdx()
					if r.Chance(15) && n > 0 { // i > j, both in 1..n+2: must be the empty string
						a, b := r.Range(1, n+2), r.Range(1, n+2)
						if a < b {
							a, b = b, a
						}
						i, j = "i"+strconv.Itoa(a), "i"+strconv.Itoa(b)
					}
				}
				add("cat", sep, i, j)
			}
		case c < 84:
			i := optIdx()
			j := "-"
			if i != "-" {
				j = optIdx()
			}
			add("unp", i, j)
		case c < 91:
			add(Pick(r, []string{"maxn", "getn", "len"}))
		default:
			cmps := []string{"lt", "lt", "gt", "ltf", "errk3"}
			if p.kind == 0 {
				cmps = append(cmps, "key4", "truthy") // arithmetic on the elements: integers only ("10"/4 would be coerced)
			}
			add("sort", Pick(r, cmps))
		}
	}
	add("dump")
	add("cat", "s2c", "-", "-")
	add("unp", "-", "-")
	return ops
}

var c18Cmps = []string{"lt", "lt", "lt", "ltf", "ltf", "gt", "gt", "key3", "key10", "truthy", "truthys", "le", "rand", "errk", "ctrue", "cfalse", "nonfn",
	"lt", "ltf", "gt", "key3", "truthy", "rand", "errk", "le", "lt", "ltf", "gt", "rand", "errk", "mutrem", "mutins", "mutclr", "mutgrow"}

// genC18Sort: one stand-alone sort of a multiset of up to maxN elements.
func genC18Sort(r *Rng, maxN int) []Op {
	var n int
	switch c := r.Intn(100); {
	case c < 12:
		n = r.Range(0, 3)
	case c < 45:
		n = r.Range(4, 12)
	case c < 75:
		n = r.Range(13, 50)
	default:
		n = r.Range(51, maxN)
	}
	cmp := Pick(r, c18Cmps)
	switch cmp {
	case "rand":
		cmp = "rand" + strconv.Itoa(r.Range(1, 1<<20))
	case "errk":
		cmp = "errk" + strconv.Itoa(r.Range(1, 3*n+2))
	}
	// element shapes: random / few distinct values / sorted / reversed / all equal / strings / mixed (incomparable)
	elems := make([]string, n)
	shape := r.Intn(100)
	if (strings.HasPrefix(cmp, "key") || strings.HasPrefix(cmp, "mut")) && shape >= 80 {
		shape = r.Intn(80) // keyed comparators do arithmetic: integers only
	}
	switch {
	case shape < 30:
		for i := range elems {
			elems[i] = "i" + strconv.Itoa(r.Range(-1000, 1000))
		}
	case shape < 45:
		for i := range elems {
			elems[i] = "i" + strconv.Itoa(r.Range(0, 3))
		}
	case shape < 55:
		for i := range elems {
			elems[i] = "i" + strconv.Itoa(i*3-7)
		}
	case shape < 65:
		for i := range elems {
			elems[i] = "i" + strconv.Itoa((n-i)*2)
		}
	case shape < 70:
		for i := range elems {
			elems[i] = "i7"
		}
	case shape < 80: // organ pipe / sawtooth
		for i := range elems {
			elems[i] = "i" + strconv.Itoa(i%Pick(r, []int{2, 5, 17}))
		}
	case shape < 92:
		for i := range elems {
			b := []byte{byte(r.Range(97, 100))}
			for k := r.Intn(3); k > 0; k-- {
				b = append(b, byte(Pick(r, []int{0, 65, 97, 98, 255})))
			}
			elems[i] = "s" + fmt.Sprintf("%x", b)
		}
		if r.Chance(30) && n > 0 {
			elems[r.Intn(n)] = "s"
		}
	default: // mixed: sorting must end in a Lua error (or succeed when n < 2), never a crash
		pr := c18Profile{r: r, kind: 2}
		for i := range elems {
			elems[i] = pr.val()
		}
	}
	holes := Pick(r, []int{0, 0, 0, 1, 1, 2, 5})
	kind := "sortlog"
	if n <= 12 && cmp != "lt" && cmp != "nonfn" && !strings.HasPrefix(cmp, "mut") {
		kind = "sortsnap"
	}
	args := append([]string{kind, cmp, strconv.Itoa(holes), strconv.Itoa(n)}, elems...)
	return []Op{{Args: args}}
}

func init() { props["C18"] = runC18 }

func runC18(run *Run) {
	nHist, maxOps, nSort := 3000, 40, 2500
	if run.Tier == "thorough" {
		nHist, maxOps, nSort = 150000, 100, 100000
	}
	exhLen := 4
	if run.Tier == "thorough" {
		exhLen = 5
	}
	run.Rule = "(1) random histories on one list through the real table.insert/remove/concat/maxn/getn/sort, unpack, #t and t[k]=v " +
		"(state-aware positions: 1, n, n+1, interior; ~10% outside the property's ranges; trailing nil slots made by t[#t]=nil; " +
		"element profiles ints/strings/mixed), every mutating call followed by a dump of #t and t[1..#t+2]; each request replayed on the " +
		"Lean Model (exact) and on the manual's list Spec (while the history stays in the property's domain). " +
		"(2) stand-alone sorts of multisets of 0..200 elements (random, few distinct, sorted, reversed, constant, sawtooth, strings, " +
		"mixed incomparable) x comparators {default <, a<b, a>b, keyed floor(a/m), truthy non-boolean results, a<=b, inconsistent " +
		"pseudo-random, raising at the k-th call, constant, non-function; and four comparators that modify the table being sorted, for " +
		"which only 'no Go panic, terminates' is checked}, with 0..5 trailing nil slots; the comparator logs every " +
		"argument pair (and for n <= 12 a snapshot of the table at every call): result is a permutation, ordered when the comparator " +
		"is a strict weak order, raises exactly when it must, comparator arguments are elements of t, no Go panic, terminates (deadline). " +
		"(3) bounded-exhaustive TEST: every history of length <= 4 (quick) / 5 (thorough) over ten boundary operations " +
		"{insert(v), insert(1|n|n+1, v), remove(), remove(1|n), t[#t]=nil, t[#t+1]=v, sort(>)} each followed by unpack/concat/maxn. " +
		"distinct = distinct op-kind skeletons"
	run.Assume = []string{
		"sort.Sort (Go standard library) uses only Len/Less/Swap with indices below Len(), terminates for any Less, and sorts under a strict weak order (trusted; sampled by stream 2)",
		"comparators are pure functions of their arguments (a comparator that mutates the table being sorted is outside the property); every comparator call re-enters table.sort/insert/remove/concat on a private table",
		"list elements are exact integers, strings, booleans or tables; how non-integral numbers print/compare is C15/C16's subject",
		"lists are far shorter than the registry limit (table.concat/unpack of thousands of elements raise the catchable 'registry overflow', C12) and than MaxArrayIndex",
		"the Model describes tablelib.go with fixes/C18-*.diff applied",
	}
	run.Trusted = append(run.Trusted, "Go sort.Sort contract (only Len/Less/Swap, in-range indices, termination, sorts under a strict weak order)",
		"GLua/Model/Table.lean = /repo/table.go (tied by C09's correspondence)")
	root := NewRng(uint64(run.Seed))
	var cases []Case
	for i, c := range loadCorpus("C18") {
		cases = append(cases, Case{Idx: -1 - i, Ops: c, Note: "corpus"})
	}
	// batches bound the memory held by request lines
	flush := func(force bool) {
		if len(cases) >= 5000 || (force && len(cases) > 0) {
			runCases(run, cases, execC18, classifyTagged)
			cases = nil
		}
	}
	for i := 0; i < nHist; i++ {
		cases = append(cases, Case{Idx: i, Ops: genC18History(root.Fork(uint64(i)), maxOps)})
		flush(false)
	}
	for i := 0; i < nSort; i++ {
		cases = append(cases, Case{Idx: 10000000 + i, Ops: genC18Sort(root.Fork(uint64(10000000+i)), 200)})
		flush(false)
	}
	for i, c := range c18Exhaustive(exhLen) {
		cases = append(cases, Case{Idx: 20000000 + i, Ops: c, Note: "exhaustive"})
		flush(false)
	}
	flush(true)
	run.Extra["bounded_exhaustive_histories"] = map[string]int{"max_length": exhLen, "alphabet": 10}
}
