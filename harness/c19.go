package main

// C19: histories of file operations (write, read n/*l/*a, lines, seek, flush, setvbuf, close, reopen) on real
// temp files through the real iolib (in-process, Lua-level calls), replayed on the Lean Model (exact) and Spec.

import (
	"encoding/hex"
	"fmt"
	"math"
	"os"
	"path/filepath"
	"strconv"
	"strings"
	"time"

	lua "github.com/yuin/gopher-lua"
)

const ioPrelude = `
function fopen(p, m) return io.open(p, m) end
function fwrite(f, s) return f:write(s) end
function fread(f, ...) return f:read(...) end
function flines(f) return f:lines() end
function fseek(f, w, o) return f:seek(w, o) end
function fflush(f) return f:flush() end
function fsetvbuf(f, m, n) return f:setvbuf(m, n) end
function fclose(f) return f:close() end
function fcall(it) return it() end
function fioinput(f) return io.input(f) end
function fiooutput(f) return io.output(f) end
function fiolinesname(p) return io.lines(p) end
function fioread(...) return io.read(...) end
function fiowrite(s) return io.write(s) end
function fioflush() return io.flush() end
function fioclose() return io.close() end
function fiolines() local it, st = io.lines(); if it == nil then return end; return function() return it(st) end end
function fiotype(f) return io.type(f) end
function fiotypeother() return io.type(42), io.type("file"), io.type(newproxy and newproxy() or {}), io.type(nil) end
function fdefin(f) local d = io.input(); if d == f then return "cur" elseif d == io.stdin then return "std" elseif io.type(d) == "closed file" then return "stale" else return "other" end end
function fdefout(f) local d = io.output(); if d == f then return "cur" elseif d == io.stdout then return "std" elseif io.type(d) == "closed file" then return "stale" else return "other" end end
function fseek0(f) return f:seek() end
function fseek1(f, w) return f:seek(w) end
function fioclosef(f) return io.close(f) end
function fopen1(p) return io.open(p) end
function ftostr(f) return tostring(f) end
`

type ioWorld struct {
	L      *lua.LState
	dir    string
	path   string
	f      lua.LValue
	it     lua.LValue
	itKind string // "file" (f:lines()), "auto" (io.lines(path)), "keep" (io.lines())
	// which handle the default input / output slots of the io library hold: "std", "cur", "stale"
	defIn, defOut string
	fns           map[string]*lua.LFunction
}

// tmpBase: "" (= os.TempDir()) unless VERIF_TMPDIR is set; every case creates and removes its own directory.
func tmpBase() string { return os.Getenv("VERIF_TMPDIR") }

func newIoWorld() (*ioWorld, error) {
	dir, err := os.MkdirTemp(tmpBase(), "c19-")
	if err != nil {
		return nil, err
	}
	L := lua.NewState()
	if err := L.DoString(ioPrelude); err != nil {
		return nil, err
	}
	w := &ioWorld{L: L, dir: dir, path: filepath.Join(dir, "f.dat"), fns: map[string]*lua.LFunction{}, defIn: "std", defOut: "std"}
	for _, n := range []string{"fopen", "fwrite", "fread", "flines", "fseek", "fflush", "fsetvbuf", "fclose", "fcall",
		"fioinput", "fiooutput", "fiolinesname", "fioread", "fiowrite", "fioflush", "fioclose", "fiolines", "fiotype", "ftostr",
		"fiotypeother", "fdefin", "fdefout", "fseek0", "fseek1", "fioclosef", "fopen1"} {
		w.fns[n] = L.GetGlobal(n).(*lua.LFunction)
	}
	return w, nil
}

func (w *ioWorld) close() {
	// close whatever is still open so that the directory can be removed
	if w.f != nil {
		w.call("fclose", w.f)
	}
	w.L.Close()
	os.RemoveAll(w.dir)
}

// age: a new handle replaced the current one; a default slot that held the old one now holds a stale (closed) handle
func (w *ioWorld) age(setIn, setOut bool) {
	upd := func(slot *string, set bool) {
		if set {
			*slot = "cur"
		} else if *slot == "cur" {
			*slot = "stale"
		}
	}
	upd(&w.defIn, setIn)
	upd(&w.defOut, setOut)
}

// call: protected Lua-level call; returns the values or raised=true
func (w *ioWorld) call(fn string, args ...lua.LValue) (res []lua.LValue, raised bool) {
	top := w.L.GetTop()
	err := w.L.CallByParam(lua.P{Fn: w.fns[fn], NRet: lua.MultRet, Protect: true}, args...)
	if err != nil {
		w.L.SetTop(top)
		return nil, true
	}
	for i := top + 1; i <= w.L.GetTop(); i++ {
		res = append(res, w.L.Get(i))
	}
	w.L.SetTop(top)
	return res, false
}

// encIoRes: T | fail | raise | none | i<n> | (nil | s<hex>)+
func encIoRes(res []lua.LValue, raised bool) string {
	if raised {
		return "raise"
	}
	if len(res) == 0 {
		return "none"
	}
	if res[0] == lua.LNil && len(res) >= 2 {
		return "fail"
	}
	if len(res) == 1 {
		switch v := res[0].(type) {
		case lua.LBool:
			if bool(v) {
				return "T"
			}
			return "F"
		case lua.LNumber:
			return encNum(float64(v))
		case *lua.LFunction:
			return "T"
		}
	}
	parts := make([]string, len(res))
	for i, v := range res {
		switch x := v.(type) {
		case *lua.LNilType:
			parts[i] = "nil"
		case lua.LString:
			parts[i] = "s" + hex.EncodeToString([]byte(string(x)))
		case lua.LNumber:
			parts[i] = "d" + strconv.FormatUint(math.Float64bits(float64(x)), 10)
		default:
			parts[i] = "?" + v.Type().String()
		}
	}
	return strings.Join(parts, " ")
}

// encReadRes: like encIoRes, but a number is always a value of the list (d<bits>), never an offset
func encReadRes(res []lua.LValue, raised bool) string {
	if !raised && len(res) == 1 {
		if n, ok := res[0].(lua.LNumber); ok {
			return "d" + strconv.FormatUint(math.Float64bits(float64(n)), 10)
		}
	}
	return encIoRes(res, raised)
}

// readArgs: n<count> | l | a | N ("*n") | S<hex> (a raw format string)
func readArgs(fs []string) []lua.LValue {
	var args []lua.LValue
	for _, f := range fs {
		switch f[0] {
		case 'n':
			n, _ := strconv.Atoi(f[1:])
			args = append(args, lua.LNumber(n))
		case 'l':
			args = append(args, lua.LString("*l"))
		case 'a':
			args = append(args, lua.LString("*a"))
		case 'N':
			args = append(args, lua.LString("*n"))
		case 'S':
			args = append(args, lua.LString(decHex(f)))
		}
	}
	return args
}

func decHex(tok string) string {
	b, _ := hex.DecodeString(tok[1:])
	return string(b)
}

func execIo(ops []Op) []string {
	done := make(chan []string, 1)
	go func() {
		var out []string
		defer func() {
			if r := recover(); r != nil {
				out = append(out, fmt.Sprintf("X crash => %v", r))
			}
			done <- out
		}()
		out = execIoInner(ops, &out)
	}()
	select {
	case r := <-done:
		return r
	case <-hangAfter(60 * time.Second):
		noteHang()
		return []string{"X timeout => the case did not finish in 60 s"}
	}
}

func execIoInner(ops []Op, sink *[]string) []string {
	w, err := newIoWorld()
	if err != nil {
		return []string{"X tempdir => " + err.Error()}
	}
	defer w.close()
	var out []string
	emit := func(args []string, reply string) {
		l := "IO " + strings.Join(args, " ")
		if reply != "" {
			l += " => " + reply
		}
		out = append(out, l)
		*sink = out
	}
	opened, closed := false, false
	for _, op := range ops {
		a := op.Args
		if a[0] != "open" && !opened {
			continue // (only after shrinking) nothing is open yet
		}
		switch a[0] {
		case "open":
			if opened {
				continue
			}
			if err := os.WriteFile(w.path, []byte(decHex(a[2])), 0o600); err != nil {
				return append(out, "X writefile => "+err.Error())
			}
			res, raised := w.call("fopen", lua.LString(w.path), lua.LString(a[1]))
			if raised || len(res) != 1 || res[0].Type() != lua.LTUserData {
				return append(out, "X open-failed => "+encIoRes(res, raised))
			}
			w.f, w.it, opened = res[0], nil, true
			emit(a, "")
		case "reopen":
			if !closed {
				continue // (only after shrinking) one handle at a time: reopen only after close
			}
			var res []lua.LValue
			var raised bool
			if len(a) > 2 && a[2] == "bare" && a[1] == "r" {
				res, raised = w.call("fopen1", lua.LString(w.path)) // io.open(path): the mode defaults to "r"
			} else {
				res, raised = w.call("fopen", lua.LString(w.path), lua.LString(a[1]))
			}
			a = a[:2]
			if raised || len(res) != 1 || res[0].Type() != lua.LTUserData {
				return append(out, "X reopen-failed => "+encIoRes(res, raised))
			}
			w.f, w.it, closed = res[0], nil, false
			w.age(false, false)
			emit(a, "T")
		case "write":
			emit(a, encIoRes(w.call("fwrite", w.f, lua.LString(decHex(a[1])))))
		case "read":
			args := append([]lua.LValue{w.f}, readArgs(a[1:])...)
			emit(a, encReadRes(w.call("fread", args...)))
		case "lines":
			res, raised := w.call("flines", w.f)
			if !raised && len(res) == 1 && res[0].Type() == lua.LTFunction {
				w.it, w.itKind = res[0], "file"
			} else {
				w.it = nil
			}
			emit(a, encIoRes(res, raised))
		case "iter":
			if w.it == nil || w.itKind != "file" {
				continue // no iterator of this handle: nothing to call
			}
			emit(a, encIoRes(w.call("fcall", w.it)))
		case "seek":
			off, _ := strconv.Atoi(a[2])
			switch {
			case len(a) > 3 && a[3] == "bare" && a[1] == "cur" && off == 0:
				emit(a[:3], encIoRes(w.call("fseek0", w.f))) // f:seek(): "cur", 0
			case len(a) > 3 && a[3] == "bare" && off == 0:
				emit(a[:3], encIoRes(w.call("fseek1", w.f, lua.LString(a[1])))) // f:seek(whence): offset 0
			default:
				emit(a[:3], encIoRes(w.call("fseek", w.f, lua.LString(a[1]), lua.LNumber(off))))
			}
		case "flush":
			emit(a, encIoRes(w.call("fflush", w.f)))
		case "setvbuf":
			n, _ := strconv.Atoi(a[2])
			var nv lua.LValue = lua.LNil
			if n > 0 {
				nv = lua.LNumber(n)
			}
			emit(a, encIoRes(w.call("fsetvbuf", w.f, lua.LString(a[1]), nv)))
		case "close":
			fn := "fclose"
			if len(a) > 1 && a[1] == "io" {
				fn = "fioclosef" // io.close(f)
			}
			res, raised := w.call(fn, w.f)
			if !raised {
				closed = true
			}
			emit(a[:1], encIoRes(res, raised))
		case "disk":
			b, err := os.ReadFile(w.path)
			if err != nil {
				return append(out, "X readfile => "+err.Error())
			}
			emit(a, "s"+hex.EncodeToString(b))
		// ---- the io library level: default files, io.lines, io.type
		case "ioinput", "iooutput":
			res, raised := w.call("f"+a[0], w.f)
			rep := encIoRes(res, raised)
			if !raised && len(res) == 1 && res[0] == w.f {
				rep = "T"
				if a[0] == "ioinput" {
					w.defIn = "cur"
				} else {
					w.defOut = "cur"
				}
			}
			emit(a, rep)
		case "ioinputname", "iooutputname", "iolinesname":
			if !closed {
				continue // (only after shrinking) one handle at a time
			}
			fn := map[string]string{"ioinputname": "fioinput", "iooutputname": "fiooutput", "iolinesname": "fiolinesname"}[a[0]]
			res, raised := w.call(fn, lua.LString(w.path))
			if raised || len(res) != 1 {
				return append(out, "X "+a[0]+"-failed => "+encIoRes(res, raised))
			}
			w.it = nil
			switch a[0] {
			case "ioinputname":
				w.f = res[0]
				w.age(true, false)
			case "iooutputname":
				w.f = res[0]
				w.age(false, true)
			default:
				// the handle is the second upvalue of the iterator closure
				fn, ok := res[0].(*lua.LFunction)
				if !ok || len(fn.Upvalues) < 2 {
					return append(out, "X iolinesname-no-iterator => "+encIoRes(res, raised))
				}
				w.f, w.it, w.itKind = fn.Upvalues[1].Value(), fn, "auto"
				w.age(false, false)
			}
			if w.f.Type() != lua.LTUserData {
				return append(out, "X "+a[0]+"-no-handle => "+encIoRes(res, raised))
			}
			closed = false
			emit(a, "T")
			if a[0] == "iooutputname" {
				// what io.output(name) did to the file is visible at once
				b, err := os.ReadFile(w.path)
				if err != nil {
					return append(out, "X readfile => "+err.Error())
				}
				emit([]string{"disk"}, "s"+hex.EncodeToString(b))
			}
		case "ioread":
			if w.defIn == "std" {
				continue // never touch stdin
			}
			emit(a, encReadRes(w.call("fioread", readArgs(a[1:])...)))
		case "iowrite":
			if w.defOut == "std" {
				continue // never touch stdout
			}
			emit(a, encIoRes(w.call("fiowrite", lua.LString(decHex(a[1])))))
		case "ioflush":
			if w.defOut == "std" {
				continue
			}
			emit(a, encIoRes(w.call("fioflush")))
		case "ioclose":
			if w.defOut == "std" {
				continue // never close stdout
			}
			res, raised := w.call("fioclose")
			if !raised && w.defOut == "cur" {
				closed = true
			}
			emit(a, encIoRes(res, raised))
		case "iolines":
			if w.defIn == "std" {
				continue
			}
			res, raised := w.call("fiolines")
			if !raised && len(res) == 1 && res[0].Type() == lua.LTFunction && w.defIn == "cur" {
				w.it, w.itKind = res[0], "keep"
			} else {
				w.it = nil // (an iterator over a stale handle is not followed up)
			}
			emit(a, encIoRes(res, raised))
		case "ioiter":
			if w.it == nil || w.itKind != a[1] {
				continue
			}
			wasClosed := closed
			emit(a, encIoRes(w.call("fcall", w.it)))
			if a[1] == "auto" && !wasClosed {
				// did the iterator close the handle?  (io.type is a pure query; the engine checks it separately)
				if res, raised := w.call("fiotype", w.f); !raised && len(res) == 1 && res[0] == lua.LString("closed file") {
					closed = true
				}
			}
		case "iodrain":
			// call the iterator of io.lines(path) until it returns nil (it closes the file then); one request per call
			if w.it == nil || w.itKind != "auto" || closed {
				continue
			}
			for k := 0; k < 200000; k++ {
				res, raised := w.call("fcall", w.it)
				emit([]string{"ioiter", "auto"}, encIoRes(res, raised))
				if raised || len(res) != 1 || res[0] == lua.LNil {
					break
				}
			}
			if res, raised := w.call("fiotype", w.f); !raised && len(res) == 1 && res[0] == lua.LString("closed file") {
				closed = true
			}
		case "iotype":
			emit(a, encIoRes(w.call("fiotype", w.f)))
		case "iotypeother":
			// io.type of things that are not file handles: nil each time
			res, raised := w.call("fiotypeother")
			rep := "raise"
			if !raised {
				rep = fmt.Sprint(len(res))
				for _, v := range res {
					if v != lua.LNil {
						rep = "not-nil:" + v.String()
					}
				}
			}
			emit(a, rep)
		case "defin", "defout":
			// which handle does io.input() / io.output() return?
			res, raised := w.call("f"+a[0], w.f)
			rep := "raise"
			if !raised && len(res) == 1 {
				rep = res[0].String()
			}
			emit(a, rep)
		case "tostr":
			res, raised := w.call("ftostr", w.f)
			if !raised && len(res) == 1 {
				// Lua 5.1 prints "file (0x…)" for an open handle; the address is not part of the observation
				if str, ok := res[0].(lua.LString); ok && strings.HasPrefix(string(str), "file (0x") {
					res[0] = lua.LString("file")
				}
			}
			emit(a, encIoRes(res, raised))
		default:
			panic("bad op " + a[0])
		}
	}
	return out
}

// ---------- generator ----------

var badFormats = []string{"", "x", "*", "*x", "*line", "*la", "*nl", "l", "*L", "3", "**", "*a ", "n", "*number", "* l"}

var ioModes = []string{"r", "rb", "w", "wb", "a", "ab", "r+", "rb+", "w+", "wb+", "a+", "ab+"}
var ioSizes = []int{0, 1, 4095, 4096, 4097, 8192, 10000}

func modeCaps(m string) (rd, wr, app, trunc bool) {
	switch strings.Replace(m, "b", "", 1) {
	case "r":
		return true, false, false, false
	case "w":
		return false, true, false, true
	case "a":
		return false, true, true, false
	case "r+":
		return true, true, false, false
	case "w+":
		return true, true, false, true
	default:
		return true, true, true, false
	}
}

// genContent: n bytes in one of several line profiles (the profile name goes into the histogram).
func genContent(r *Rng, n int) ([]byte, string) {
	b := make([]byte, 0, n)
	prof := Pick(r, []string{"short-lines", "short-lines", "long-line", "no-newline", "crlf", "binary", "boundary-line", "numbers", "numbers"})
	letter := func(i int) byte { return byte('a' + i%26) }
	switch prof {
	case "short-lines":
		for len(b) < n {
			l := r.Intn(60)
			if r.Chance(10) {
				l = 0
			}
			for i := 0; i < l && len(b) < n; i++ {
				b = append(b, letter(len(b)))
			}
			if len(b) < n {
				b = append(b, '\n')
			}
		}
	case "long-line":
		first := Pick(r, []int{4094, 4095, 4096, 4097, 5000, 8191, 8192, 9000})
		for len(b) < n {
			if len(b) == first || (len(b) > first && r.Chance(3)) {
				b = append(b, '\n')
			} else {
				b = append(b, letter(len(b)))
			}
		}
	case "no-newline":
		for len(b) < n {
			b = append(b, letter(len(b)))
		}
	case "crlf":
		for len(b) < n {
			l := r.Intn(50)
			for i := 0; i < l && len(b) < n; i++ {
				b = append(b, letter(len(b)))
			}
			switch r.Intn(4) {
			case 0:
				b = append(b, '\n')
			case 1:
				b = append(b, '\r')
			default:
				b = append(b, '\r', '\n')
			}
		}
	case "numbers":
		b = genNumbers(r, n)
	case "binary":
		for len(b) < n {
			b = append(b, Pick(r, []byte{0, 1, '\n', '\r', 'x', 0xff, 0x80, ' ', '\n', 'y'}))
		}
	case "boundary-line":
		// a line terminator (LF, CRLF, lone CR) placed exactly around the reader's buffer boundary
		at := Pick(r, []int{4094, 4095, 4096, 4097, 8191, 8192})
		term := Pick(r, []string{"\n", "\r\n", "\r", "\r\r\n"})
		for len(b) < n {
			if len(b) == at {
				b = append(b, term...)
			} else if r.Chance(1) {
				b = append(b, '\n')
			} else {
				b = append(b, letter(len(b)))
			}
		}
	}
	if len(b) > n {
		b = b[:n]
	}
	return b, prof
}

// numerals whose reading by "*n" the Spec fixes (when followed by white space or the end of the file) …
var numToks = []string{"0", "7", "12", "-3", "+45", "3.25", "-0.5", ".5", "5.", "1e3", "1E-2", "-2.5e+3", "123456789", "0.1",
	"1e308", "4.9e-324", "2e-324", "9007199254740993", "123456789012345678901234567890", "1.7976931348623157e308", "00012",
	"1e0", "0.30000000000000004", "2.2250738585072011e-308", "17.5E+0", "-.25", "0x10", "0XfF", "-0x1"}

// … and texts outside that fragment (Model only): what only Go's fmt/strconv would accept, broken numerals, non-ASCII
var numExotic = []string{"inf", "nan", "-inf", "+Inf", "NaN", "1_0", "0x1p4", "1p3", "1e", "1e+", "abc", "-", ".", "1e999", "--5",
	"1.5.5", "0x", "n5", "na", "i", "in7", "+.e1", "1e5000", "0x1.8p1", "1P3", "0x_1p1", "1__0", "_1", "1_", "0b101", "1e1_0",
	"\xc2\xa07", "\xe2\x80\x837", "\xe3\x80\x80 8", "\xe27", "\xff1", "1.7976931348623159e308", "-1e400", "0x1p1024", "0x1p-1080",
	"1.5p3", "2p-1", "1p99999999999999999999", "12abc", "3,4", "0x1g", "1e-", "+", "+-1", "1e+5x"}

var numBlanks = []string{" ", " ", "  ", "\t", " \t ", "\v", "\f", "\r"}
var numBlanksLF = []string{"\n", "\r\n", " \n ", " ", "\t"}

func genNumbers(r *Rng, n int) []byte {
	b := make([]byte, 0, n+40)
	// the numerals are separated by every kind of white space; one text in three is "one number per line"
	blanks := append(append([]string{}, numBlanks...), numBlanksLF...)
	if r.Chance(33) {
		blanks = numBlanksLF[:3]
	}
	decimal := len(numToks) - 3 // the last three are hexadecimal
	if r.Chance(50) {
		b = append(b, Pick(r, blanks)...)
	}
	for len(b) < n {
		switch c := r.Intn(100); {
		case c < 8:
			b = append(b, Pick(r, numExotic)...)
		case c < 16:
			b = append(b, numToks[decimal+r.Intn(3)]...)
		default:
			b = append(b, numToks[r.Intn(decimal)]...)
		}
		if r.Chance(3) {
			continue // two tokens glued together
		}
		b = append(b, Pick(r, blanks)...)
		if r.Chance(4) {
			// a long run of blanks (up to across the buffer boundary)
			for k := r.Intn(300); k > 0; k-- {
				b = append(b, ' ')
			}
		}
	}
	return b
}

func genWriteData(r *Rng) string {
	if r.Chance(12) {
		// numerals, to be read back with "*n"
		b := genNumbers(r, r.Range(1, 40))
		return "s" + hex.EncodeToString(b)
	}
	var n int
	switch c := r.Intn(100); {
	case c < 5:
		n = 0
	case c < 60:
		n = r.Range(1, 12)
	case c < 80:
		n = r.Range(13, 200)
	case c < 92:
		n = Pick(r, []int{4095, 4096, 4097})
	default:
		n = Pick(r, []int{5000, 8192, 9001})
	}
	b := make([]byte, n)
	for i := range b {
		b[i] = byte('A' + (i+n)%26)
		if r.Chance(4) {
			b[i] = '\n'
		}
	}
	return "s" + hex.EncodeToString(b)
}

// genIoCase: one history.  `flen`/`cur` shadow the file length and cursor roughly, for boundary-aware arguments.
// `disciplined`: a seek/flush is inserted between an input operation and a following write (ISO C); otherwise
// about one write in three directly follows a read (outside the property's domain: Impl = Model only).
func genIoCase(r *Rng, maxOps int) ([]Op, string) {
	var ops []Op
	add := func(args ...string) { ops = append(ops, Op{Args: args}) }
	size := Pick(r, ioSizes)
	switch c := r.Intn(100); {
	case c < 15:
		size = r.Intn(200)
	case c < 25:
		size = Pick(r, []int{4096, 8192}) + r.Range(-3, 3)
	}
	content, prof := genContent(r, size)
	mode := Pick(r, ioModes)
	disciplined := !r.Chance(12)
	add("open", mode, "s"+hex.EncodeToString(content))
	rd, wr, _, trunc := modeCaps(mode)
	flen, cur := len(content), 0
	if trunc {
		flen = 0
	}
	open, pendingRead, haveIter := true, false, false
	defIn, defOut := "std", "std" // what the default slots of the io library hold: std / cur / stale
	autoIter := false             // the current handle belongs to an io.lines(path) iterator
	age := func(setIn, setOut bool) {
		if setIn {
			defIn = "cur"
		} else if defIn == "cur" {
			defIn = "stale"
		}
		if setOut {
			defOut = "cur"
		} else if defOut == "cur" {
			defOut = "stale"
		}
	}
	interesting := []int{0, 1, 2, 4095, 4096, 4097, 8191, 8192, 8193}
	pos := func() int {
		switch c := r.Intn(100); {
		case c < 30:
			return Pick(r, interesting)
		case c < 50:
			return flen + r.Range(-2, 2)
		case c < 65:
			return cur + r.Range(-3, 3)
		default:
			return r.Intn(flen + 2)
		}
	}
	separator := func() {
		switch r.Intn(5) {
		case 0:
			add("flush")
		case 1:
			add("seek", "cur", "0")
		case 2:
			p := pos()
			if p < 0 {
				p = 0
			}
			add("seek", "set", strconv.Itoa(p))
			cur = p
		case 3:
			add("seek", "end", strconv.Itoa(-r.Intn(3)))
			cur = flen
		default:
			add("seek", "cur", strconv.Itoa(r.Range(-2, 2)))
		}
		pendingRead = false
	}
	nops := r.Range(3, maxOps)
	for len(ops) < nops {
		if !open {
			// a closed handle: mostly reopen, sometimes poke it (every operation must raise and change nothing)
			if r.Chance(70) {
				autoIter = false
				switch k := r.Intn(100); {
				case k < 70:
					mode = Pick(r, ioModes)
					if mode == "r" && r.Chance(40) {
						add("reopen", mode, "bare") // io.open(path)
					} else {
						add("reopen", mode)
					}
					rd, wr, _, trunc = modeCaps(mode)
					if trunc {
						flen = 0
					}
					age(false, false)
				case k < 80:
					add("ioinputname") // io.input(path): mode "r", becomes the default input
					mode, rd, wr = "r", true, false
					age(true, false)
				case k < 90:
					add("iooutputname") // io.output(path): mode "w", becomes the default output
					mode, rd, wr = "w", false, true
					flen = 0
					age(false, true)
				default:
					add("iolinesname") // io.lines(path): mode "r", the handle belongs to the iterator
					mode, rd, wr = "r", true, false
					age(false, false)
					autoIter = true
				}
				cur, open, pendingRead, haveIter = 0, true, false, false
				if autoIter {
					for k := r.Intn(5); k > 0; k-- {
						add("ioiter", "auto")
						pendingRead = true
					}
					if r.Chance(70) {
						add("iodrain") // to the end of the file: the iterator closes the handle
						add("ioiter", "auto")
						add("iotype")
						add("disk")
						open = false
					}
				}
			} else {
				switch r.Intn(12) {
				case 8:
					add("iotype")
				case 9:
					add("tostr")
				case 10:
					// a closed handle as default file: an error, the default stays what it was
					add(Pick(r, []string{"ioinput", "iooutput"}))
				case 11:
					if defIn != "std" {
						add(Pick(r, []string{"ioread", "iolines"}))
					} else if defOut != "std" {
						add(Pick(r, []string{"iowrite", "ioflush", "ioclose"}), "s58")
						if ops[len(ops)-1].Args[0] != "iowrite" {
							ops[len(ops)-1].Args = ops[len(ops)-1].Args[:1]
						}
					}
				case 0:
					add("write", genWriteData(r))
				case 1:
					add("read", Pick(r, []string{"n1", "l", "a", "n0"}))
				case 2:
					add("seek", Pick(r, []string{"set", "cur", "end"}), "0")
				case 3:
					add("flush")
				case 4:
					add("setvbuf", Pick(r, []string{"no", "full", "line"}), "0")
				case 5:
					add("lines")
				case 6:
					if haveIter {
						add("iter")
					}
				default:
					add("close")
				}
				add("disk")
			}
			continue
		}
		if r.Chance(16) {
			// the io library level: default files, io.lines(), io.type, tostring
			switch k := r.Intn(100); {
			case k < 14:
				add("ioinput")
				defIn = "cur"
			case k < 28:
				add("iooutput")
				defOut = "cur"
			case k < 36:
				add(Pick(r, []string{"iotype", "tostr", "defin", "defout", "iotypeother"}))
			case k < 58 && defIn != "std": // io.read
				args := []string{"ioread"}
				for i := r.Range(1, 2); i > 0; i-- {
					f := Pick(r, []string{"l", "l", "a", "n0", "n1", "n7", "n4096", "n5000", "N", "N"})
					if prof == "numbers" && r.Chance(50) {
						f = "N"
					}
					args = append(args, f)
				}
				if r.Chance(10) {
					args = []string{"ioread"}
				}
				add(args...)
				if defIn == "cur" {
					pendingRead = true
				}
			case k < 68 && defIn != "std": // io.lines() and a few calls
				add("iolines")
				if defIn == "cur" {
					for i := r.Intn(4); i > 0 && rd; i-- {
						add("ioiter", "keep")
						pendingRead = true
					}
				}
			case k < 88 && defOut != "std": // io.write
				if defOut == "cur" && pendingRead && (disciplined || !r.Chance(35)) {
					separator()
				}
				add("iowrite", genWriteData(r))
				if defOut == "cur" {
					pendingRead = false
				}
			case k < 94 && defOut != "std":
				add("ioflush")
				if defOut == "cur" {
					pendingRead = false
				}
			case defOut != "std":
				add("ioclose")
				if defOut == "cur" {
					add("disk")
					open = false
				}
			default:
				add(Pick(r, []string{"iotype", "tostr"}))
			}
			continue
		}
		c := r.Intn(100)
		// steer towards what the mode permits (≈ 90 % valid)
		if !rd && c >= 30 && c < 62 && !r.Chance(12) {
			c = r.Intn(30)
		}
		if !wr && c < 30 && !r.Chance(12) {
			c = 30 + r.Intn(32)
		}
		switch {
		case c < 30: // write
			if pendingRead && (disciplined || !r.Chance(35)) {
				separator()
			}
			d := genWriteData(r)
			add("write", d)
			pendingRead = false
			cur += (len(d) - 1) / 2
			if cur > flen {
				flen = cur
			}
		case c < 52: // read
			nf := 1
			if r.Chance(15) {
				nf = r.Range(2, 3)
			}
			args := []string{"read"}
			for i := 0; i < nf; i++ {
				k := r.Intn(100)
				if prof == "numbers" && r.Chance(60) || r.Chance(4) {
					args = append(args, "N")
					cur += 8
					continue
				}
				if r.Chance(3) {
					// format strings that are not "*n" / "*l" / "*a": invalid ones must raise; the others are compared with the Model only
					args = append(args, "S"+hex.EncodeToString([]byte(Pick(r, badFormats))))
					continue
				}
				switch {
				case k < 45:
					n := Pick(r, []int{0, 1, 2, 7, 10, 100, 4095, 4096, 4097, 5000, 8192, 20000})
					if r.Chance(25) && flen-cur >= 0 {
						n = flen - cur + r.Range(-1, 1)
						if n < 0 {
							n = 0
						}
					}
					args = append(args, "n"+strconv.Itoa(n))
					cur += n
				case k < 80:
					args = append(args, "l")
					cur += 30
				default:
					args = append(args, "a")
					cur = flen
				}
			}
			if r.Chance(3) {
				args = []string{"read"} // default format
			}
			if cur > flen {
				cur = flen
			}
			add(args...)
			pendingRead = true
		case c < 58: // lines + a few iterations
			add("lines")
			haveIter = rd
			for k := r.Intn(4); k > 0 && haveIter; k-- {
				add("iter")
				pendingRead = true
			}
		case c < 62:
			if haveIter {
				add("iter")
				pendingRead = true
			} else {
				add("read", "l")
				pendingRead = true
			}
		case c < 78: // seek
			wh := Pick(r, []string{"set", "set", "cur", "end"})
			var off int
			switch wh {
			case "set":
				off = pos()
				if r.Chance(90) && off < 0 {
					off = 0
				}
				if off >= 0 {
					cur = off
				}
			case "cur":
				off = Pick(r, []int{0, 0, 1, -1, 5, -5, 4096, -4096, 100})
				if cur+off >= 0 {
					cur += off
				}
			default:
				off = Pick(r, []int{0, 0, -1, -10, 1, 10, -4096, -4097})
				if flen+off >= 0 {
					cur = flen + off
				}
			}
			if off == 0 && r.Chance(25) {
				add("seek", wh, "0", "bare") // f:seek() / f:seek(whence): the defaults "cur", 0
			} else {
				add("seek", wh, strconv.Itoa(off))
			}
			pendingRead = false
		case c < 84:
			add("flush")
			pendingRead = false
			if r.Chance(50) {
				add("disk")
			}
		case c < 91:
			add("setvbuf", Pick(r, []string{"no", "full", "full", "line"}), strconv.Itoa(Pick(r, []int{0, 0, 1, 16, 100, 4096, 5000})))
		default:
			if r.Chance(20) {
				add("close", "io") // io.close(f)
			} else {
				add("close")
			}
			add("disk")
			open = false
		}
	}
	if open {
		add("close")
	}
	add("disk")
	label := "disciplined"
	if !disciplined {
		label = "undisciplined"
	}
	sz := strconv.Itoa(size)
	switch {
	case size > 1 && size < 4000:
		sz = "small(2..199)"
	case size != 4095 && size != 4096 && size != 4097 && size > 4000 && size < 4200:
		sz = "4096±3"
	case size != 8192 && size > 8000 && size < 8300:
		sz = "8192±3"
	}
	return ops, fmt.Sprintf("%s mode=%s size=%s content=%s", label, mode, sz, prof)
}


// ---------- bounded-exhaustive sweeps (run on every check) ----------

func ioHx(b string) string { return "s" + hex.EncodeToString([]byte(b)) }

// ioSweeps: small shapes enumerated completely.
//
//	numbers:  every numeral shape × leading white space × what follows × position (start of file / straddling the 4096-byte
//	          buffer boundary) × {f:read, io.read}: read "*n", report the cursor, read the rest
//	lines:    contents with / without a final newline, empty lines, lines of 4095..8193 bytes × {f:lines(), io.lines(path),
//	          io.lines() over io.input(f), over io.input(path)}: iterate to the end, call once more, io.type, close, call again
//	defaults: every open mode × {io.output(f) … io.write/flush/close, io.input(f) … io.read}, stale default handles, io.output(path)
//	          on an existing file, io.type / tostring before and after close
//	read(0):  file sizes around the buffer × cursor at 0 / size-1 / size / past the end
//	formats:  every invalid format string alone, after a successful format, after a format that met the end of the file
func ioSweeps() ([][]Op, []string) {
	var cases [][]Op
	var notes []string
	mk := func(note string, lines ...[]string) {
		var ops []Op
		for _, l := range lines {
			ops = append(ops, Op{Args: l})
		}
		cases = append(cases, ops)
		notes = append(notes, note)
	}
	L := func(a ...string) []string { return a }
	pad := func(n int) string {
		b := make([]byte, n)
		for i := range b {
			b[i] = byte('a' + i%26)
		}
		return string(b)
	}
	// --- numbers
	toks := []string{"0", "12", "-3", "+45", "3.25", ".5", "5.", "1e3", "1E-2", "-2.5e+3", "0.1", "123456789012345678901234567890",
		"1.7976931348623157e308", "4.9e-324", "0x10", "-0XfF",
		// outside the Spec's fragment (Model only)
		"inf", "nan", "1_0", "0x1p4", "1p3", "1e", "abc", "-", "1e999", "", "\xc2\xa07"}
	leads := []string{"", " ", "\t ", "\n", " \r\n", "\r", "\v\f"}
	trails := []string{"", " ", "\n", "x", " 77"}
	for _, tk := range toks {
		for _, ld := range leads {
			for _, tr := range trails {
				for _, off := range []int{0, 4096 - len(ld) - 1} {
					if off != 0 && (tr == "x" || tr == " 77") {
						continue
					}
					content := ld + tk + tr
					var pre [][]string
					if off > 0 {
						content = pad(off) + content
						pre = append(pre, L("read", "n"+strconv.Itoa(off)))
					}
					ls := [][]string{L("open", "r", ioHx(content))}
					ls = append(ls, pre...)
					ls = append(ls, L("read", "N"), L("seek", "cur", "0"), L("read", "a"), L("close"))
					mk("sweep=numbers", ls...)
				}
			}
		}
	}
	// several numbers in one call, through io.read, and written then read back in update modes
	for _, sep := range []string{" ", "\t", "\n", "\r\n", "  \n"} {
		c := "1" + sep + "2.5" + sep + "-3e1" + sep
		mk("sweep=numbers", L("open", "r", ioHx(c)), L("read", "N", "N", "N", "N"), L("seek", "cur", "0"), L("close"))
		mk("sweep=numbers", L("open", "r", ioHx(c)), L("ioinput"), L("ioread", "N", "N"), L("ioread", "N", "l"), L("ioread", "N"), L("close"))
		mk("sweep=numbers", L("open", "w+", ioHx("")), L("write", ioHx("10"+sep+"20")), L("seek", "set", "0"), L("read", "N"), L("seek", "cur", "0"),
			L("write", ioHx("X")), L("seek", "set", "0"), L("read", "a"), L("close"), L("disk"))
	}
	// a whole file of numbers read one after the other: the white space BETWEEN two numbers (runs of 1, 2 and more bytes,
	// every line-end form) straddles each read-ahead boundary at every alignment, with the buffer partly consumed by the
	// reads before
	for _, sep := range []string{" ", "\r\n", "\n\n", " \t ", "\r\n\r\n ", "      "} {
		for shift := 0; shift < 7; shift++ {
			var sb strings.Builder
			sb.WriteString(pad(shift)[:shift])
			if shift > 0 {
				sb.WriteString(" ")
			}
			count := 0
			for sb.Len() < 3*4096+40 {
				sb.WriteString(strconv.Itoa(1000 + count%9000))
				sb.WriteString(sep)
				count++
			}
			ls := [][]string{L("open", "r", ioHx(sb.String()))}
			if shift > 0 {
				ls = append(ls, L("read", "n"+strconv.Itoa(shift)))
			}
			for i := 0; i < count; i += 4 {
				ls = append(ls, L("read", "N", "N", "N", "N"))
			}
			ls = append(ls, L("read", "N"), L("seek", "cur", "0"), L("close"))
			mk("sweep=number-stream", ls...)
		}
	}
	mk("sweep=numbers", L("open", "r", ioHx("5 abc")), L("read", "N", "N"), L("seek", "cur", "0"), L("read", "a"), L("close"))
	mk("sweep=numbers", L("open", "r", ioHx("abc")), L("read", "N"), L("seek", "cur", "0"), L("close"))
	mk("sweep=numbers", L("open", "r", ioHx("x 5 y")), L("read", "n1", "N", "n2"), L("close"))
	mk("sweep=numbers", L("open", "r+", ioHx("12 345678")), L("read", "N"), L("write", ioHx("X")), L("close"), L("disk")) // undisciplined: Model only
	// --- lines
	lineContents := []string{"", "a", "a\n", "a\nb", "a\nb\n", "\n", "\n\n", "a\n\nb\n", "last line without newline",
		pad(4095) + "\nz", pad(4096) + "\nz", pad(4097) + "\nz\n", pad(4096), pad(8192), pad(8193) + "\n", "x\n" + pad(4094) + "\n" + pad(10)}
	for _, c := range lineContents {
		nl := strings.Count(c, "\n") + 2
		its := func(op ...string) [][]string {
			var r [][]string
			for i := 0; i < nl; i++ {
				r = append(r, op)
			}
			return r
		}
		// f:lines(): the iterator does not close the file
		ls := [][]string{L("open", "r", ioHx(c)), L("lines")}
		ls = append(ls, its("iter")...)
		ls = append(ls, L("iotype"), L("tostr"), L("seek", "cur", "0"), L("close"), L("iter"), L("iotype"), L("tostr"), L("disk"))
		mk("sweep=lines", ls...)
		// io.lines(path): closes the file at the end; calling the iterator again raises
		ls = [][]string{L("open", "r", ioHx(c)), L("close"), L("iolinesname"), L("iotype")}
		ls = append(ls, L("iodrain"), L("iotype"), L("tostr"), L("ioiter", "auto"), L("read", "l"), L("disk"))
		mk("sweep=lines", ls...)
		// io.lines() over io.input(f): does not close
		ls = [][]string{L("open", "r+", ioHx(c)), L("ioinput"), L("iolines")}
		ls = append(ls, its("ioiter", "keep")...)
		ls = append(ls, L("iotype"), L("ioread", "l"), L("close"), L("ioiter", "keep"), L("ioread"), L("iolines"), L("disk"))
		mk("sweep=lines", ls...)
		// io.input(path)
		ls = [][]string{L("open", "r", ioHx(c)), L("close"), L("ioinputname"), L("iolines")}
		ls = append(ls, its("ioiter", "keep")...)
		ls = append(ls, L("ioread", "n0"), L("iotype"), L("close"), L("iotype"), L("ioread", "n0"))
		mk("sweep=lines", ls...)
	}
	// --- default files
	body := "0123456789\nabcdef\n"
	for _, m := range []string{"r", "w", "a", "r+", "w+", "a+"} {
		mk("sweep=defaults", L("open", m, ioHx(body)), L("defin"), L("defout"), L("iooutput"), L("defout"), L("defin"), L("iotypeother"), L("iowrite", ioHx("AB")), L("ioflush"), L("disk"), L("iotype"),
			L("iowrite", ioHx("")), L("seek", "set", "3"), L("iowrite", ioHx("CD")), L("ioclose"), L("disk"), L("iotype"), L("tostr"),
			L("iowrite", ioHx("E")), L("ioflush"), L("ioclose"), L("disk"),
			L("reopen", "r", "bare"), L("defout"), L("defin"), L("iowrite", ioHx("F")), L("ioflush"), L("ioclose"), L("read", "a"), L("seek", "cur", "0", "bare"),
			L("seek", "set", "0", "bare"), L("seek", "end", "0", "bare"), L("close", "io"), L("disk"))
		mk("sweep=defaults", L("open", m, ioHx(body)), L("ioinput"), L("ioread", "n3"), L("ioread"), L("ioread", "l", "a"), L("ioread", "n0"),
			L("ioread", "a"), L("ioread", "l"), L("seek", "set", "1"), L("ioread", "n2"), L("close"), L("ioread", "n1"), L("iolines"),
			L("reopen", "r"), L("defin"), L("ioread", "n1"), L("iolines"), L("read", "n4"), L("ioinput"), L("defin"), L("close"), L("defin"))
		// both defaults on one update handle: io.read / io.write share the cursor (a seek in between: ISO C)
		mk("sweep=defaults", L("open", m, ioHx(body)), L("ioinput"), L("iooutput"), L("ioread", "n4"), L("seek", "cur", "0"), L("iowrite", ioHx("XY")),
			L("ioflush"), L("ioread", "n2"), L("ioflush"), L("iowrite", ioHx("Z")), L("ioclose"), L("disk"), L("ioread", "n1"), L("iowrite", ioHx("Q")), L("disk"))
	}
	for _, c := range []string{"", "0123456789", pad(5000)} {
		// io.output(path) on an existing file (liolib: mode "w"); io.input(path)
		mk("sweep=defaults", L("open", "r", ioHx(c)), L("close"), L("iooutputname"), L("defout"), L("defin"), L("iotype"), L("iowrite", ioHx("AB")), L("ioflush"), L("disk"),
			L("read", "n1"), L("ioclose"), L("disk"), L("iowrite", ioHx("C")), L("reopen", "r"), L("read", "a"), L("close"))
		mk("sweep=defaults", L("open", "r", ioHx(c)), L("close"), L("ioinputname"), L("defin"), L("defout"), L("ioread", "n4"), L("write", ioHx("no")), L("ioread", "a"),
			L("ioread", "a"), L("ioread", "n0"), L("ioread", "l"), L("close"), L("ioread"), L("disk"))
	}
	// a closed handle as default file
	mk("sweep=defaults", L("open", "r+", ioHx(body)), L("close"), L("ioinput"), L("iooutput"), L("ioread", "n1"), L("iowrite", ioHx("x")), L("ioflush"),
		L("ioclose"), L("iolines"), L("iotype"), L("disk"))
	// --- read(0): "" unless at the end of the file, then nil
	for _, size := range []int{0, 1, 2, 4095, 4096, 4097, 8192} {
		for _, pos := range []int{0, size - 1, size, size + 3} {
			if pos < 0 {
				continue
			}
			for _, m := range []string{"r", "r+", "a+"} {
				mk("sweep=read0", L("open", m, ioHx(pad(size))), L("seek", "set", strconv.Itoa(pos)), L("read", "n0"), L("read", "n0", "n1", "n0"),
					L("seek", "cur", "0"), L("read", "n0"), L("read", "a"), L("read", "n0"), L("close"))
			}
		}
	}
	// --- format strings
	for _, bf := range append(append([]string{}, badFormats...), "*n", "*l", "*a") {
		f := "S" + hex.EncodeToString([]byte(bf))
		mk("sweep=formats", L("open", "r", ioHx("hello\nworld\n")), L("read", f), L("seek", "cur", "0"), L("read", "n2", f), L("seek", "cur", "0"),
			L("read", "a", "l", f), L("read", f), L("seek", "cur", "0"), L("close"), L("read", f))
		mk("sweep=formats", L("open", "w", ioHx("")), L("read", f), L("close"))
		mk("sweep=formats", L("open", "r", ioHx("hello\nworld\n")), L("ioinput"), L("ioread", f), L("ioread", "l", f), L("close"))
	}
	return cases, notes
}

func init() { props["C19"] = runC19; replayExec["C19"] = execIo }

func runC19(run *Run) {
	nCases, maxOps := 6000, 24
	if run.Tier == "thorough" {
		nCases, maxOps = 60000, 60
	}
	run.Rule = "random histories over real temp files of size {0,1,4095,4096,4097,8192,10000, small, ±3 around the buffer} × 12 open modes × " +
		"{write (0..9001 bytes, incl. numerals), read n/*l/*a/*n and other format strings (1-3 formats), lines+iterator calls, seek set/cur/end (boundary-aware " +
		"offsets, negative, past EOF), flush, setvbuf no/full/line × sizes, close, operations on the closed handle, reopen in any mode, " +
		"io.input/io.output (handle | path), io.read/io.write/io.flush/io.close on the default files (current or stale handle), io.lines(path) incl. running " +
		"it to the end, io.lines(), io.type, tostring, disk snapshots}; content profiles: short lines, lines longer than the 4096-byte buffer, no newline, " +
		"CRLF, binary, terminators on the buffer boundary, numerals (C numerals, hex, and texts only Go's fmt/strconv would accept) separated by every kind of white space; " +
		"≈ 88 % of histories obey the ISO C discipline (seek/flush between read and write), the rest are compared with the Model only; every result and every " +
		"disk snapshot is compared with the Lean Model (exact; a number = correctly rounded value of the token, checked in exact arithmetic) and the Spec (one " +
		"cursor); plus bounded-exhaustive sweeps (tests): numeral shapes × leading white space × follower × position across the buffer boundary, line iterators " +
		"of all four kinds to the end of file and beyond, default-file scripts × 6 modes, read(0) × sizes × positions, every invalid format string; " +
		"distinct = distinct op-kind skeletons with >= 3 ops"
	run.Assume = []string{
		"OS file semantics (read/write/lseek, O_APPEND, zero-fill past EOF) and Go bufio.Reader/Writer, io.ReadAll are modelled, not verified",
		"`*n`: utils.go readBufioNumber / luaNumeralBase (fixes/C19-6) are modelled; that parseNumber (strconv.ParseFloat) returns the correctly rounded value (±Inf out of range) is checked per observation in exact arithmetic, not proved",
		"default files: stdin/stdout are never touched; a default slot holds the current handle or an earlier (closed) handle of the file",
		"one handle at a time on a file (reopen only after close); regular files only (no pipes, no popen)",
		"the Model describes the tree with fixes/C19-1..9 applied"}
	root := NewRng(uint64(run.Seed) ^ 0xC19)
	var cases []Case
	for i, c := range loadCorpus("C19") {
		cases = append(cases, Case{Idx: -1 - i, Ops: c, Note: "corpus"})
	}
	labels := map[string]int{}
	sw, swNotes := ioSweeps()
	for i, c := range sw {
		cases = append(cases, Case{Idx: 1000000 + i, Ops: c, Note: swNotes[i]})
		labels[swNotes[i]]++
	}
	for i := 0; i < nCases; i++ {
		r := root.Fork(uint64(i))
		ops, note := genIoCase(r, maxOps)
		for _, kv := range strings.Fields(note) {
			labels[kv]++
		}
		cases = append(cases, Case{Idx: i, Ops: ops, Note: note})
	}
	run.Extra["case_profile_histogram"] = labels
	runCases(run, cases, execIo, classifyTagged)
	if os.Getenv("C19_DEBUG") != "" {
		// every failure, abbreviated (debugging aid; no effect on the verdict)
		cut := func(s string, n int) string {
			if len(s) > n {
				return s[:n] + "…"
			}
			return s
		}
		for _, f := range run.Failures {
			var ops []string
			for _, o := range f.Ops {
				ops = append(ops, cut(o, 40))
			}
			if len(ops) > 16 {
				ops = append(ops[:16], "…")
			}
			fmt.Printf("DEBUG %s case=%d note=%q line=%q reply=%q finding=%q ops=%q\n", f.Kind, f.CaseIdx, f.Note, cut(f.Line, 100), cut(f.Reply, 160), f.Finding, ops)
		}
	}
}
