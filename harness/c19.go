package main

// C19: histories of file operations (write, read n/*l/*a, lines, seek, flush, setvbuf, close, reopen) on real
// temp files through the real iolib (in-process, Lua-level calls), replayed on the Lean Model (exact) and Spec.

import (
	"encoding/hex"
	"fmt"
	"os"
	"path/filepath"
	"strconv"
	"strings"
	"time"

	lua "github.com/yuin/gopher-lua"
)

const ioPrelude = `
function fopen(p, m) return io.open(p, m) end
function fwrite(f, s) return f:write(s) end
function fread(f, ...) return f:read(...) end
function flines(f) return f:lines() end
function fseek(f, w, o) return f:seek(w, o) end
function fflush(f) return f:flush() end
function fsetvbuf(f, m, n) return f:setvbuf(m, n) end
function fclose(f) return f:close() end
function fcall(it) return it() end
`

type ioWorld struct {
	L    *lua.LState
	dir  string
	path string
	f    lua.LValue
	it   lua.LValue
	fns  map[string]*lua.LFunction
}

// tmpBase: "" (= os.TempDir()) unless VERIF_TMPDIR is set; every case creates and removes its own directory.
func tmpBase() string { return os.Getenv("VERIF_TMPDIR") }

func newIoWorld() (*ioWorld, error) {
	dir, err := os.MkdirTemp(tmpBase(), "c19-")
	if err != nil {
		return nil, err
	}
	L := lua.NewState()
	if err := L.DoString(ioPrelude); err != nil {
		return nil, err
	}
	w := &ioWorld{L: L, dir: dir, path: filepath.Join(dir, "f.dat"), fns: map[string]*lua.LFunction{}}
	for _, n := range []string{"fopen", "fwrite", "fread", "flines", "fseek", "fflush", "fsetvbuf", "fclose", "fcall"} {
		w.fns[n] = L.GetGlobal(n).(*lua.LFunction)
	}
	return w, nil
}

func (w *ioWorld) close() {
	// close whatever is still open so that the directory can be removed
	if w.f != nil {
		w.call("fclose", w.f)
	}
	w.L.Close()
	os.RemoveAll(w.dir)
}

// call: protected Lua-level call; returns the values or raised=true
func (w *ioWorld) call(fn string, args ...lua.LValue) (res []lua.LValue, raised bool) {
	top := w.L.GetTop()
	err := w.L.CallByParam(lua.P{Fn: w.fns[fn], NRet: lua.MultRet, Protect: true}, args...)
	if err != nil {
		w.L.SetTop(top)
		return nil, true
	}
	for i := top + 1; i <= w.L.GetTop(); i++ {
		res = append(res, w.L.Get(i))
	}
	w.L.SetTop(top)
	return res, false
}

// encIoRes: T | fail | raise | none | i<n> | (nil | s<hex>)+
func encIoRes(res []lua.LValue, raised bool) string {
	if raised {
		return "raise"
	}
	if len(res) == 0 {
		return "none"
	}
	if res[0] == lua.LNil && len(res) >= 2 {
		return "fail"
	}
	if len(res) == 1 {
		switch v := res[0].(type) {
		case lua.LBool:
			if bool(v) {
				return "T"
			}
			return "F"
		case lua.LNumber:
			return encNum(float64(v))
		case *lua.LFunction:
			return "T"
		}
	}
	parts := make([]string, len(res))
	for i, v := range res {
		switch x := v.(type) {
		case *lua.LNilType:
			parts[i] = "nil"
		case lua.LString:
			parts[i] = "s" + hex.EncodeToString([]byte(string(x)))
		default:
			parts[i] = "?" + v.Type().String()
		}
	}
	return strings.Join(parts, " ")
}

func decHex(tok string) string {
	b, _ := hex.DecodeString(tok[1:])
	return string(b)
}

func execIo(ops []Op) []string {
	done := make(chan []string, 1)
	go func() {
		var out []string
		defer func() {
			if r := recover(); r != nil {
				out = append(out, fmt.Sprintf("X crash => %v", r))
			}
			done <- out
		}()
		out = execIoInner(ops, &out)
	}()
	select {
	case r := <-done:
		return r
	case <-time.After(60 * time.Second):
		return []string{"X timeout => the case did not finish in 60 s"}
	}
}

func execIoInner(ops []Op, sink *[]string) []string {
	w, err := newIoWorld()
	if err != nil {
		return []string{"X tempdir => " + err.Error()}
	}
	defer w.close()
	var out []string
	emit := func(args []string, reply string) {
		l := "IO " + strings.Join(args, " ")
		if reply != "" {
			l += " => " + reply
		}
		out = append(out, l)
		*sink = out
	}
	opened, closed := false, false
	for _, op := range ops {
		a := op.Args
		if a[0] != "open" && !opened {
			continue // (only after shrinking) nothing is open yet
		}
		switch a[0] {
		case "open":
			if opened {
				continue
			}
			if err := os.WriteFile(w.path, []byte(decHex(a[2])), 0o600); err != nil {
				return append(out, "X writefile => "+err.Error())
			}
			res, raised := w.call("fopen", lua.LString(w.path), lua.LString(a[1]))
			if raised || len(res) != 1 || res[0].Type() != lua.LTUserData {
				return append(out, "X open-failed => "+encIoRes(res, raised))
			}
			w.f, w.it, opened = res[0], nil, true
			emit(a, "")
		case "reopen":
			if !closed {
				continue // (only after shrinking) one handle at a time: reopen only after close
			}
			res, raised := w.call("fopen", lua.LString(w.path), lua.LString(a[1]))
			if raised || len(res) != 1 || res[0].Type() != lua.LTUserData {
				return append(out, "X reopen-failed => "+encIoRes(res, raised))
			}
			w.f, w.it, closed = res[0], nil, false
			emit(a, "T")
		case "write":
			emit(a, encIoRes(w.call("fwrite", w.f, lua.LString(decHex(a[1])))))
		case "read":
			args := []lua.LValue{w.f}
			for _, f := range a[1:] {
				switch f[0] {
				case 'n':
					n, _ := strconv.Atoi(f[1:])
					args = append(args, lua.LNumber(n))
				case 'l':
					args = append(args, lua.LString("*l"))
				case 'a':
					args = append(args, lua.LString("*a"))
				}
			}
			emit(a, encIoRes(w.call("fread", args...)))
		case "lines":
			res, raised := w.call("flines", w.f)
			if !raised && len(res) == 1 && res[0].Type() == lua.LTFunction {
				w.it = res[0]
			} else {
				w.it = nil
			}
			emit(a, encIoRes(res, raised))
		case "iter":
			if w.it == nil {
				continue // no iterator of this handle: nothing to call
			}
			emit(a, encIoRes(w.call("fcall", w.it)))
		case "seek":
			off, _ := strconv.Atoi(a[2])
			emit(a, encIoRes(w.call("fseek", w.f, lua.LString(a[1]), lua.LNumber(off))))
		case "flush":
			emit(a, encIoRes(w.call("fflush", w.f)))
		case "setvbuf":
			n, _ := strconv.Atoi(a[2])
			var nv lua.LValue = lua.LNil
			if n > 0 {
				nv = lua.LNumber(n)
			}
			emit(a, encIoRes(w.call("fsetvbuf", w.f, lua.LString(a[1]), nv)))
		case "close":
			res, raised := w.call("fclose", w.f)
			if !raised {
				closed = true
			}
			emit(a, encIoRes(res, raised))
		case "disk":
			b, err := os.ReadFile(w.path)
			if err != nil {
				return append(out, "X readfile => "+err.Error())
			}
			emit(a, "s"+hex.EncodeToString(b))
		default:
			panic("bad op " + a[0])
		}
	}
	return out
}

// ---------- generator ----------

var ioModes = []string{"r", "rb", "w", "wb", "a", "ab", "r+", "rb+", "w+", "wb+", "a+", "ab+"}
var ioSizes = []int{0, 1, 4095, 4096, 4097, 8192, 10000}

func modeCaps(m string) (rd, wr, app, trunc bool) {
	switch strings.Replace(m, "b", "", 1) {
	case "r":
		return true, false, false, false
	case "w":
		return false, true, false, true
	case "a":
		return false, true, true, false
	case "r+":
		return true, true, false, false
	case "w+":
		return true, true, false, true
	default:
		return true, true, true, false
	}
}

// genContent: n bytes in one of several line profiles (the profile name goes into the histogram).
func genContent(r *Rng, n int) ([]byte, string) {
	b := make([]byte, 0, n)
	prof := Pick(r, []string{"short-lines", "short-lines", "long-line", "no-newline", "crlf", "binary", "boundary-line"})
	letter := func(i int) byte { return byte('a' + i%26) }
	switch prof {
	case "short-lines":
		for len(b) < n {
			l := r.Intn(60)
			if r.Chance(10) {
				l = 0
			}
			for i := 0; i < l && len(b) < n; i++ {
				b = append(b, letter(len(b)))
			}
			if len(b) < n {
				b = append(b, '\n')
			}
		}
	case "long-line":
		first := Pick(r, []int{4094, 4095, 4096, 4097, 5000, 8191, 8192, 9000})
		for len(b) < n {
			if len(b) == first || (len(b) > first && r.Chance(3)) {
				b = append(b, '\n')
			} else {
				b = append(b, letter(len(b)))
			}
		}
	case "no-newline":
		for len(b) < n {
			b = append(b, letter(len(b)))
		}
	case "crlf":
		for len(b) < n {
			l := r.Intn(50)
			for i := 0; i < l && len(b) < n; i++ {
				b = append(b, letter(len(b)))
			}
			switch r.Intn(4) {
			case 0:
				b = append(b, '\n')
			case 1:
				b = append(b, '\r')
			default:
				b = append(b, '\r', '\n')
			}
		}
	case "binary":
		for len(b) < n {
			b = append(b, Pick(r, []byte{0, 1, '\n', '\r', 'x', 0xff, 0x80, ' ', '\n', 'y'}))
		}
	case "boundary-line":
		// a line terminator (LF, CRLF, lone CR) placed exactly around the reader's buffer boundary
		at := Pick(r, []int{4094, 4095, 4096, 4097, 8191, 8192})
		term := Pick(r, []string{"\n", "\r\n", "\r", "\r\r\n"})
		for len(b) < n {
			if len(b) == at {
				b = append(b, term...)
			} else if r.Chance(1) {
				b = append(b, '\n')
			} else {
				b = append(b, letter(len(b)))
			}
		}
	}
	if len(b) > n {
		b = b[:n]
	}
	return b, prof
}

func genWriteData(r *Rng) string {
	var n int
	switch c := r.Intn(100); {
	case c < 5:
		n = 0
	case c < 60:
		n = r.Range(1, 12)
	case c < 80:
		n = r.Range(13, 200)
	case c < 92:
		n = Pick(r, []int{4095, 4096, 4097})
	default:
		n = Pick(r, []int{5000, 8192, 9001})
	}
	b := make([]byte, n)
	for i := range b {
		b[i] = byte('A' + (i+n)%26)
		if r.Chance(4) {
			b[i] = '\n'
		}
	}
	return "s" + hex.EncodeToString(b)
}

// genIoCase: one history.  `flen`/`cur` shadow the file length and cursor roughly, for boundary-aware arguments.
// `disciplined`: a seek/flush is inserted between an input operation and a following write (ISO C); otherwise
// about one write in three directly follows a read (outside the property's domain: Impl = Model only).
func genIoCase(r *Rng, maxOps int) ([]Op, string) {
	var ops []Op
	add := func(args ...string) { ops = append(ops, Op{Args: args}) }
	size := Pick(r, ioSizes)
	switch c := r.Intn(100); {
	case c < 15:
		size = r.Intn(200)
	case c < 25:
		size = Pick(r, []int{4096, 8192}) + r.Range(-3, 3)
	}
	content, prof := genContent(r, size)
	mode := Pick(r, ioModes)
	disciplined := !r.Chance(12)
	add("open", mode, "s"+hex.EncodeToString(content))
	rd, wr, _, trunc := modeCaps(mode)
	flen, cur := len(content), 0
	if trunc {
		flen = 0
	}
	open, pendingRead, haveIter := true, false, false
	interesting := []int{0, 1, 2, 4095, 4096, 4097, 8191, 8192, 8193}
	pos := func() int {
		switch c := r.Intn(100); {
		case c < 30:
			return Pick(r, interesting)
		case c < 50:
			return flen + r.Range(-2, 2)
		case c < 65:
			return cur + r.Range(-3, 3)
		default:
			return r.Intn(flen + 2)
		}
	}
	separator := func() {
		switch r.Intn(5) {
		case 0:
			add("flush")
		case 1:
			add("seek", "cur", "0")
		case 2:
			p := pos()
			if p < 0 {
				p = 0
			}
			add("seek", "set", strconv.Itoa(p))
			cur = p
		case 3:
			add("seek", "end", strconv.Itoa(-r.Intn(3)))
			cur = flen
		default:
			add("seek", "cur", strconv.Itoa(r.Range(-2, 2)))
		}
		pendingRead = false
	}
	nops := r.Range(3, maxOps)
	for len(ops) < nops {
		if !open {
			// a closed handle: mostly reopen, sometimes poke it (every operation must raise and change nothing)
			if r.Chance(70) {
				mode = Pick(r, ioModes)
				add("reopen", mode)
				rd, wr, _, trunc = modeCaps(mode)
				if trunc {
					flen = 0
				}
				cur, open, pendingRead, haveIter = 0, true, false, false
			} else {
				switch r.Intn(8) {
				case 0:
					add("write", genWriteData(r))
				case 1:
					add("read", Pick(r, []string{"n1", "l", "a", "n0"}))
				case 2:
					add("seek", Pick(r, []string{"set", "cur", "end"}), "0")
				case 3:
					add("flush")
				case 4:
					add("setvbuf", Pick(r, []string{"no", "full", "line"}), "0")
				case 5:
					add("lines")
				case 6:
					if haveIter {
						add("iter")
					}
				default:
					add("close")
				}
				add("disk")
			}
			continue
		}
		c := r.Intn(100)
		// steer towards what the mode permits (≈ 90 % valid)
		if !rd && c >= 30 && c < 62 && !r.Chance(12) {
			c = r.Intn(30)
		}
		if !wr && c < 30 && !r.Chance(12) {
			c = 30 + r.Intn(32)
		}
		switch {
		case c < 30: // write
			if pendingRead && (disciplined || !r.Chance(35)) {
				separator()
			}
			d := genWriteData(r)
			add("write", d)
			pendingRead = false
			cur += (len(d) - 1) / 2
			if cur > flen {
				flen = cur
			}
		case c < 52: // read
			nf := 1
			if r.Chance(15) {
				nf = r.Range(2, 3)
			}
			args := []string{"read"}
			for i := 0; i < nf; i++ {
				switch k := r.Intn(100); {
				case k < 45:
					n := Pick(r, []int{0, 1, 2, 7, 10, 100, 4095, 4096, 4097, 5000, 8192, 20000})
					if r.Chance(25) && flen-cur >= 0 {
						n = flen - cur + r.Range(-1, 1)
						if n < 0 {
							n = 0
						}
					}
					args = append(args, "n"+strconv.Itoa(n))
					cur += n
				case k < 80:
					args = append(args, "l")
					cur += 30
				default:
					args = append(args, "a")
					cur = flen
				}
			}
			if r.Chance(3) {
				args = []string{"read"} // default format
			}
			if cur > flen {
				cur = flen
			}
			add(args...)
			pendingRead = true
		case c < 58: // lines + a few iterations
			add("lines")
			haveIter = rd
			for k := r.Intn(4); k > 0 && haveIter; k-- {
				add("iter")
				pendingRead = true
			}
		case c < 62:
			if haveIter {
				add("iter")
				pendingRead = true
			} else {
				add("read", "l")
				pendingRead = true
			}
		case c < 78: // seek
			wh := Pick(r, []string{"set", "set", "cur", "end"})
			var off int
			switch wh {
			case "set":
				off = pos()
				if r.Chance(90) && off < 0 {
					off = 0
				}
				if off >= 0 {
					cur = off
				}
			case "cur":
				off = Pick(r, []int{0, 0, 1, -1, 5, -5, 4096, -4096, 100})
				if cur+off >= 0 {
					cur += off
				}
			default:
				off = Pick(r, []int{0, 0, -1, -10, 1, 10, -4096, -4097})
				if flen+off >= 0 {
					cur = flen + off
				}
			}
			add("seek", wh, strconv.Itoa(off))
			pendingRead = false
		case c < 84:
			add("flush")
			pendingRead = false
			if r.Chance(50) {
				add("disk")
			}
		case c < 91:
			add("setvbuf", Pick(r, []string{"no", "full", "full", "line"}), strconv.Itoa(Pick(r, []int{0, 0, 1, 16, 100, 4096, 5000})))
		default:
			add("close")
			add("disk")
			open = false
		}
	}
	if open {
		add("close")
	}
	add("disk")
	label := "disciplined"
	if !disciplined {
		label = "undisciplined"
	}
	sz := strconv.Itoa(size)
	switch {
	case size > 1 && size < 4000:
		sz = "small(2..199)"
	case size != 4095 && size != 4096 && size != 4097 && size > 4000 && size < 4200:
		sz = "4096±3"
	case size != 8192 && size > 8000 && size < 8300:
		sz = "8192±3"
	}
	return ops, fmt.Sprintf("%s mode=%s size=%s content=%s", label, mode, sz, prof)
}

func init() { props["C19"] = runC19; replayExec["C19"] = execIo }

func runC19(run *Run) {
	nCases, maxOps := 6000, 24
	if run.Tier == "thorough" {
		nCases, maxOps = 60000, 60
	}
	run.Rule = "random histories over real temp files of size {0,1,4095,4096,4097,8192,10000, small, ±3 around the buffer} × 12 open modes × " +
		"{write (0..9001 bytes), read n/*l/*a (1-3 formats), lines+iterator calls, seek set/cur/end (boundary-aware offsets, negative, past EOF), " +
		"flush, setvbuf no/full/line × sizes, close, operations on the closed handle, reopen in any mode, disk snapshots}; content profiles: short lines, " +
		"lines longer than the 4096-byte buffer, no newline, CRLF, binary, terminators on the buffer boundary; ≈ 88 % of histories obey the ISO C " +
		"discipline (seek/flush between read and write), the rest are compared with the Model only; every result and every disk snapshot is compared " +
		"with the Lean Model (exact) and the Spec (one cursor); distinct = distinct op-kind skeletons with >= 3 ops"
	run.Assume = []string{
		"OS file semantics (read/write/lseek, O_APPEND, zero-fill past EOF) and Go bufio.Reader/Writer, io.ReadAll are modelled, not verified",
		"`*n` (fmt.Fscanf) is outside the model and is not generated",
		"one handle at a time on a file (reopen only after close); regular files only (no pipes, no popen)",
		"the harness is built against a tree with fixes/C19-1..4 applied (the Model describes the repaired functions)"}
	root := NewRng(uint64(run.Seed) ^ 0xC19)
	var cases []Case
	for i, c := range loadCorpus("C19") {
		cases = append(cases, Case{Idx: -1 - i, Ops: c, Note: "corpus"})
	}
	labels := map[string]int{}
	for i := 0; i < nCases; i++ {
		r := root.Fork(uint64(i))
		ops, note := genIoCase(r, maxOps)
		for _, kv := range strings.Fields(note) {
			labels[kv]++
		}
		cases = append(cases, Case{Idx: i, Ops: ops, Note: note})
	}
	run.Extra["case_profile_histogram"] = labels
	runCases(run, cases, execIo, classifyTagged)
}
