package main

// C20: histories of require / preload registration / loader behaviours on the real interpreter, with
// real module files in a temp dir on package.path, preload entries set from Lua and through
// L.PreloadModule, host modules through L.RegisterModule.  Every loader body logs its start (and the
// argument it got) and what nested requires returned; tables are tagged with a serial number at
// creation so that identity (rawequal) crosses the wire as the tag.

import (
	"context"
	"encoding/hex"
	"fmt"
	"os"
	"path/filepath"
	"strconv"
	"strings"
	"sync/atomic"
	"time"

	lua "github.com/yuin/gopher-lua"
)

type reqWorld struct {
	L       *lua.LState
	dir     string
	ser     int
	byTag   map[int]*lua.LTable
	byPtr   map[*lua.LTable]int
	log     []string
	bad     []string // identity / protocol problems noticed by the executor ("X …" lines)
	require lua.LValue
	preq    *lua.LFunction
	loaded  *lua.LTable
	setpre  *lua.LFunction
	glob    *lua.LFunction
	// a broken sentinel lets requires recurse without bound (2^depth with protected nested requires, also
	// through Go loaders that never reach a VM instruction): every harness hook checks a wall-clock
	// deadline and a log budget and raises, so that the case unwinds linearly and is reported as a timeout
	deadline time.Time
	timedOut bool
	// op "newloaded": the table a script ASSIGNED to package.loaded (require / module / RegisterModule keep using the
	// registry's table — w.loaded — and must never touch this one)
	newLoaded *lua.LTable
}

var c20Timeouts int32 // circuit breaker: after a few timeouts the remaining cases get a short deadline

func (w *reqWorld) check(L *lua.LState) {
	if w.timedOut || len(w.log) > 20000 || time.Now().After(w.deadline) {
		w.timedOut = true
		L.RaiseError("harness timeout")
	}
}

const c20Prelude = `
PREQ = function(n) return pcall(require, n) end
GLOB = function(n)
  local t = _G
  for part in string.gmatch(n, "[^.]+") do
    if type(t) ~= "table" then return nil end
    t = rawget(t, part)
  end
  return t
end
ORIG_LOADERS = package.loaders
ORIG_P, ORIG_L = package.loaders[1], package.loaders[2]
`

// the broken module files of op "badfile": they exist (os.Stat succeeds) but cannot be turned into a function
var c20BadSrc = map[string]string{
	"syntax": "local NT = NT\nLOG(\"F\", \"never\", ...)\nreturn { v = ",                 // parser: unexpected end of file
	"lex":    "LOG(\"F\", \"never\", ...)\nlocal s = \"unterminated\nreturn s\n",          // scanner error in the middle
	"stmt":   "LOG(\"F\", \"never\", ...)\nlocal x = = 1\nreturn x\n",                     // parser error in the middle
}

// metatable set-ups of op "gmeta" (see execRequire)
var c20MetaSrc = map[string]string{
	// strict mode: reading an undeclared global raises
	"strict": `setmetatable(_G, {__index = function(t, k) error("undeclared global " .. tostring(k), 2) end})`,
	// decoys: absent globals read through __index look like populated module tables / non-tables
	"decoy": `local d = {ma = {f1 = 1, decoy = true}, p = {q = {decoy = true}, decoy = true}, q = 7, string = string}
setmetatable(_G, {__index = function(t, k) return d[k] end})`,
	// package.seeall style: every module table that exists now inherits from _G; _G itself has decoys for nested names
	"seeall": `rawset(_G, "q", rawget(_G, "q"))
for _, n in ipairs({"ma", "p"}) do local m = rawget(_G, n) if type(m) == "table" and getmetatable(m) == nil then setmetatable(m, {__index = _G}) end end
local l = package.loaded
for _, n in ipairs({"ma", "p", "p.q"}) do local m = rawget(l, n) if type(m) == "table" and getmetatable(m) == nil then setmetatable(m, {__index = _G}) end end`,
}

const c20Locals = "local NT,LOG,NEST,TAGPATH,require,pcall,package,error,module=NT,LOG,NEST,TAGPATH,require,pcall,package,error,module\n"

func c20TmpBase() string {
	if st, err := os.Stat("/dev/shm"); err == nil && st.IsDir() {
		return "/dev/shm"
	}
	return os.TempDir()
}

func newReqWorld() *reqWorld {
	dir, err := os.MkdirTemp(c20TmpBase(), "c20-")
	if err != nil {
		panic(err)
	}
	defer func() { // a state that cannot even be set up (broken OpenLibs) must not leak the directory
		if r := recover(); r != nil {
			os.RemoveAll(dir)
			panic(r)
		}
	}()
	L := lua.NewState()
	w := &reqWorld{L: L, dir: dir, byTag: map[int]*lua.LTable{}, byPtr: map[*lua.LTable]int{}}
	L.SetGlobal("NT", L.NewFunction(func(L *lua.LState) int { L.Push(w.newTable()); return 1 }))
	L.SetGlobal("LOG", L.NewFunction(func(L *lua.LState) int {
		w.check(L)
		w.log = append(w.log, L.CheckString(1)+":"+L.CheckString(2)+":"+c20Tok(L.Get(3), w))
		return 0
	}))
	L.SetGlobal("NEST", L.NewFunction(func(L *lua.LState) int {
		w.check(L)
		w.nest(L.CheckString(1), lua.LVAsBool(L.Get(2)), L.Get(3))
		return 0
	}))
	L.SetGlobal("TAGPATH", L.NewFunction(func(L *lua.LState) int { w.tagPath(L.CheckString(1)); return 0 }))
	if err := L.DoString(c20Prelude); err != nil {
		panic(err)
	}
	w.require = L.GetGlobal("require")
	w.preq = L.GetGlobal("PREQ").(*lua.LFunction)
	w.glob = L.GetGlobal("GLOB").(*lua.LFunction)
	pkg := L.GetGlobal("package").(*lua.LTable)
	w.loaded = L.GetField(pkg, "loaded").(*lua.LTable)
	L.SetField(pkg, "path", lua.LString(dir+"/?.lua;"+dir+"/alt/?.lua"))
	return w
}

func (w *reqWorld) close() {
	w.L.Close()
	os.RemoveAll(w.dir)
}

func (w *reqWorld) newTable() *lua.LTable {
	t := w.L.NewTable()
	w.tag(t)
	return t
}

func (w *reqWorld) tag(t *lua.LTable) {
	w.ser++
	t.RawSetString("__id", lua.LNumber(w.ser))
	w.byTag[w.ser] = t
	w.byPtr[t] = w.ser
}

// tagPath walks the globals along a dotted name and tags every table that has no tag yet, outermost
// first (= the order in which FindTable creates them).
func (w *reqWorld) tagPath(name string) {
	cur := w.L.Get(lua.GlobalsIndex).(*lua.LTable)
	for _, part := range strings.Split(name, ".") {
		t, ok := cur.RawGetString(part).(*lua.LTable)
		if !ok {
			return
		}
		if _, known := w.byPtr[t]; !known {
			w.tag(t)
		}
		cur = t
	}
}

func c20Tok(v lua.LValue, w *reqWorld) string {
	switch x := v.(type) {
	case *lua.LNilType:
		return "nil"
	case lua.LBool:
		if bool(x) {
			return "T"
		}
		return "F"
	case lua.LString:
		s := string(x)
		if strings.ContainsAny(s, " \t\n\r") || s == "" {
			return "s:hex" + hex.EncodeToString([]byte(s))
		}
		return s // module names (log arguments) go on the wire as they are
	case lua.LNumber:
		return "n:" + strconv.FormatFloat(float64(x), 'g', -1, 64)
	case *lua.LTable:
		id, ok := w.byPtr[x]
		if !ok {
			return "t?"
		}
		// identity ⇔ tag: the tag field must still be the one this pointer was given, and unique
		if n, ok2 := x.RawGetString("__id").(lua.LNumber); !ok2 || int(n) != id || w.byTag[id] != x {
			w.bad = append(w.bad, fmt.Sprintf("X identity => table tagged %d carries %v", id, x.RawGetString("__id")))
		}
		return "t" + strconv.Itoa(id)
	case *lua.LFunction:
		return "fn"
	case *lua.LUserData:
		return "U"
	case nil:
		return "GONIL"
	}
	return "?"
}

func (w *reqWorld) val(v lua.LValue) string {
	if s, ok := v.(lua.LString); ok {
		return "s:" + c20Tok(s, w)
	}
	return c20Tok(v, w)
}

// classify an error message into the wire token the Lean side predicts.
func (w *reqWorld) classify(msg string) string {
	line := func(s string) string {
		if i := strings.IndexByte(s, '\n'); i >= 0 {
			s = s[:i]
		}
		return strings.TrimSpace(s)
	}
	if i := strings.Index(msg, "loop or previous error loading module: "); i >= 0 {
		return "E:loop:" + line(msg[i+len("loop or previous error loading module: "):])
	}
	if i := strings.Index(msg, "boom:"); i >= 0 {
		return "E:raised:" + line(msg[i+5:])
	}
	if i := strings.Index(msg, "name conflict for module: "); i >= 0 {
		return "E:conflict:" + line(msg[i+len("name conflict for module: "):])
	}
	if i := strings.Index(msg, "name conflict for module("); i >= 0 {
		r := line(msg[i+len("name conflict for module("):])
		return "E:conflict:" + strings.TrimSuffix(r, ")")
	}
	if !strings.Contains(msg, " not found:") {
		// an error that names a module file without a run-time position (`file.lua:12:`): the file could not be read /
		// compiled ("<path> at EOF: syntax error", "<path> line:2(column:9) near …", "read <path>: is a directory");
		// position prefixes of the Lua frames the error passed through (`ma.lua:4: `) are skipped
		for rest := msg; ; {
			i := strings.Index(rest, w.dir+"/")
			if i < 0 {
				break
			}
			rest = rest[i+len(w.dir)+1:]
			j := strings.Index(rest, ".lua")
			if j < 0 {
				break
			}
			after := rest[j+4:]
			if !(len(after) >= 2 && after[0] == ':' && after[1] >= '0' && after[1] <= '9') {
				return "E:loaderr:" + rest[:j+4]
			}
		}
	}
	if i := strings.Index(msg, "module "); i >= 0 {
		rest := msg[i+len("module "):]
		if j := strings.Index(rest, " not found:"); j >= 0 {
			name := rest[:j]
			body := strings.TrimSuffix(rest[j+len(" not found:"):], ", ")
			var tried []string
			for k, l := range strings.Split(body, "\n\t") {
				if strings.TrimSpace(l) == "" && (k == 0 || strings.TrimSpace(body) == "") {
					continue // nothing before the first message; an empty chain of searchers accumulates nothing at all
				}
				switch {
				case strings.HasPrefix(l, "stat "+w.dir+"/blocker/"):
					// the unusable template some histories put in front of the path (see execRequire): it can never
					// hold a module, whatever the reason the file system gives; the Model's path does not list it
				case strings.HasPrefix(l, "custom:"):
					tried = append(tried, "C:"+l[len("custom:"):])
				case strings.HasPrefix(l, "no field package.preload['") && strings.HasSuffix(l, "']"):
					tried = append(tried, "P:"+l[len("no field package.preload['"):len(l)-2])
				case l == "stat : no such file or directory":
					tried = append(tried, "F:") // the empty template
				case strings.HasPrefix(l, "stat "+w.dir+"/") && strings.HasSuffix(l, ": no such file or directory"):
					tried = append(tried, "F:"+strings.TrimSuffix(l[len("stat "+w.dir+"/"):], ": no such file or directory"))
				default:
					tried = append(tried, "?:"+hex.EncodeToString([]byte(l)))
				}
			}
			return "E:notfound:" + name + ":" + strings.Join(tried, ",")
		}
	}
	return "E:other:" + hex.EncodeToString([]byte(msg))
}

func errText(err error) string {
	if ae, ok := err.(*lua.ApiError); ok && ae.Object != nil {
		return ae.Object.String()
	}
	return err.Error()
}

func (w *reqWorld) nest(m string, ok bool, r lua.LValue) {
	if ok {
		w.log = append(w.log, "N:"+m+"="+w.val(r))
	} else {
		w.log = append(w.log, "N:"+m+"!"+w.classify(r.String()))
	}
}

// ---------- behaviours ----------

type c20Step struct {
	target string
	prot   bool
}
type c20Beh struct {
	steps []c20Step
	final string
}

func parseC20Beh(s string) c20Beh {
	parts := strings.SplitN(s, ";", 2)
	b := c20Beh{final: parts[1]}
	for _, st := range strings.Split(parts[0], ",") {
		if st == "" {
			continue
		}
		kv := strings.SplitN(st, ":", 2)
		b.steps = append(b.steps, c20Step{target: kv[1], prot: kv[0] == "preq"})
	}
	return b
}

// luaBody renders the behaviour as the body of a chunk / vararg function.
func luaBody(src, key string, b c20Beh) string {
	var sb strings.Builder
	if src == "F" {
		sb.WriteString(c20Locals)
	}
	sb.WriteString("local name = ...\n")
	fmt.Fprintf(&sb, "LOG(%q, %q, name)\n", src, key)
	for _, st := range b.steps {
		if st.prot {
			fmt.Fprintf(&sb, "do local ok, r = pcall(require, %q); NEST(%q, ok, r) end\n", st.target, st.target)
		} else {
			fmt.Fprintf(&sb, "do local r = require(%q); NEST(%q, true, r) end\n", st.target, st.target)
		}
	}
	switch b.final {
	case "ret":
		sb.WriteString("return NT()\n")
	case "none":
		sb.WriteString("return\n")
	case "retfalse":
		sb.WriteString("return false\n")
	case "set":
		sb.WriteString("package.loaded[name] = NT()\n")
	case "setret":
		sb.WriteString("package.loaded[name] = NT()\nreturn NT()\n")
	case "setnil":
		sb.WriteString("package.loaded[name] = nil\n")
	case "setnilret":
		sb.WriteString("package.loaded[name] = nil\nreturn NT()\n")
	case "raise":
		sb.WriteString("error(\"boom:\" .. name)\n")
	case "setraise":
		sb.WriteString("package.loaded[name] = NT()\nerror(\"boom:\" .. name)\n")
	case "mod", "setmod":
		if b.final == "setmod" {
			sb.WriteString("package.loaded[name] = NT()\n")
		}
		// every other module body (by its key) uses package.seeall and further option functions: they run once with
		// the module table and change nothing require can see; through seeall the body still reaches the globals
		if seeall := (len(key)+len(src)+len(b.steps))%2 == 1; seeall {
			sb.WriteString("local opts = 0\nmodule(name, package.seeall, function(m) opts = opts + 1 if m ~= package.loaded[name] then error('module option got another table') end end)\nTAGPATH(name)\n")
			sb.WriteString("if string == nil or _NAME ~= name or _M ~= package.loaded[name] then error('module environment is wrong') end\n")
		} else {
			sb.WriteString("module(name)\nTAGPATH(name)\nif _NAME ~= name or _M ~= package.loaded[name] then error('module environment is wrong') end\n")
		}
	default:
		panic("bad final " + b.final)
	}
	return sb.String()
}

// goLoader interprets the behaviour as a Go loader function (for L.PreloadModule).
func (w *reqWorld) goLoader(key string, b c20Beh) lua.LGFunction {
	return func(L *lua.LState) int {
		name := L.CheckString(1)
		w.check(L)
		w.log = append(w.log, "G:"+key+":"+name)
		for _, st := range b.steps {
			w.check(L)
			if st.prot {
				top := L.GetTop()
				err := L.CallByParam(lua.P{Fn: w.require, NRet: 1, Protect: true}, lua.LString(st.target))
				if err != nil {
					w.log = append(w.log, "N:"+st.target+"!"+w.classify(errText(err)))
				} else {
					w.nest(st.target, true, L.Get(-1))
				}
				L.SetTop(top)
			} else {
				L.Push(w.require)
				L.Push(lua.LString(st.target))
				L.Call(1, 1)
				w.nest(st.target, true, L.Get(-1))
				L.Pop(1)
			}
		}
		switch b.final {
		case "ret":
			L.Push(w.newTable())
			return 1
		case "none":
			return 0
		case "retfalse":
			L.Push(lua.LFalse)
			return 1
		case "set":
			L.SetField(w.loaded, name, w.newTable())
			return 0
		case "setret":
			L.SetField(w.loaded, name, w.newTable())
			L.Push(w.newTable())
			return 1
		case "setnil":
			L.SetField(w.loaded, name, lua.LNil)
			return 0
		case "setnilret":
			L.SetField(w.loaded, name, lua.LNil)
			L.Push(w.newTable())
			return 1
		case "raise":
			L.RaiseError("boom:%s", name)
			return 0
		case "setraise":
			L.SetField(w.loaded, name, w.newTable())
			L.RaiseError("boom:%s", name)
			return 0
		}
		panic("bad final for a Go loader: " + b.final)
	}
}

// ---------- executor ----------

func execRequire(ops []Op) []string {
	w := newReqWorld()
	defer w.close()
	L := w.L
	limit := 45 * time.Second
	if atomic.LoadInt32(&c20Timeouts) > 6 {
		limit = 250 * time.Millisecond
	}
	w.deadline = time.Now().Add(limit)
	ctx, cancel := context.WithTimeout(context.Background(), limit+time.Second)
	defer cancel()
	L.SetContext(ctx)
	var out []string
	emit := func(args []string, reply string) {
		l := "C20 " + strings.Join(args, " ")
		if reply != "" {
			l += " => " + reply
		}
		out = append(out, l)
		out = append(out, w.bad...)
		w.bad = nil
	}
	observe := func(n string) {
		emit([]string{"loaded", n}, w.val(w.loaded.RawGetString(n)))
		top := L.GetTop()
		r := "E:glob"
		if err := L.CallByParam(lua.P{Fn: w.glob, NRet: 1, Protect: true}, lua.LString(n)); err == nil {
			r = w.val(L.Get(-1))
		}
		L.SetTop(top)
		emit([]string{"global", n}, r)
	}
	writeFile := func(rel, src string) {
		p := filepath.Join(w.dir, rel)
		os.MkdirAll(filepath.Dir(p), 0o755)
		if st, err := os.Lstat(p); err == nil && st.IsDir() { // a "badfile … dir" is being repaired
			os.RemoveAll(p)
		}
		if err := os.WriteFile(p, []byte(src), 0o644); err != nil {
			panic(err)
		}
	}
	doLua := func(src string) {
		if err := L.DoString(c20Locals + src); err != nil {
			panic(err)
		}
	}
	// the Lua expression for a searcher token (see RequireEng.parseSearcher)
	searcherExpr := func(tok string) string {
		parts := strings.SplitN(tok, ":", 3)
		switch parts[0] {
		case "P":
			return "ORIG_P"
		case "L":
			return "ORIG_L"
		case "N":
			return "function(n) return nil end"
		case "M":
			return fmt.Sprintf("function(n) return %q end", "custom:"+parts[1])
		case "C":
			return fmt.Sprintf("function(n) if n == %q then return function(...)\n%s\nend end end", parts[1], luaBody("S", parts[1], parseC20Beh(parts[2])))
		}
		panic("bad searcher token " + tok)
	}
	// a table assigned to package.loaded must stay as the script left it (op "newloaded")
	checkNewLoaded := func() {
		if w.newLoaded == nil {
			return
		}
		keys := ""
		w.newLoaded.ForEach(func(k, v lua.LValue) { keys += k.String() + " " })
		if keys != "" {
			out = append(out, "X loaded-replaced => the table a script assigned to package.loaded was written to by the module system (keys: "+keys+"); require/module/RegisterModule use registry._LOADED")
		}
	}
	if n := len(ops); n > 0 && (n+len(ops[n-1].Args)+len(ops[0].Args))%2 == 1 {
		// half of the histories search through a template that cannot be examined (its directory part is a regular
		// file: ENOTDIR, not ENOENT) placed BEFORE the real ones: the search must simply go on to the next template
		if err := os.WriteFile(filepath.Join(w.dir, "blocker"), []byte("not a directory"), 0o644); err != nil {
			panic(err)
		}
		L.SetField(L.GetGlobal("package"), "path", lua.LString(w.dir+"/blocker/?.lua;"+w.dir+"/?.lua;"+w.dir+"/alt/?.lua"))
	}
	emit([]string{"path", "?.lua;alt/?.lua"}, "")
	// the standard libraries are modules like any other: after OpenLibs each is registered under its name (the globals
	// table under "_G"), so `require` of them returns the library itself and never searches
	for _, n := range []string{"_G", "package", "table", "io", "os", "string", "math", "debug", "channel", "coroutine"} {
		var want lua.LValue = L.Get(lua.GlobalsIndex)
		if n != "_G" {
			want = L.GetGlobal(n)
		}
		if got := w.loaded.RawGetString(n); got != want || want == lua.LNil {
			keys := ""
			w.loaded.ForEach(func(k, v lua.LValue) { keys += k.String() + " " })
			out = append(out, fmt.Sprintf("X stdlib-not-registered => package.loaded[%q] is %s, the library table is %s; package.loaded has: %s", n, got.String(), want.String(), keys))
			return out
		}
		top := L.GetTop()
		if err := L.CallByParam(lua.P{Fn: w.require, NRet: 1, Protect: true}, lua.LString(n)); err != nil || L.Get(-1) != want {
			out = append(out, fmt.Sprintf("X stdlib-require => require(%q) does not return the library (err=%v)", n, err))
			return out
		}
		L.SetTop(top)
	}
	for _, op := range ops {
		a := op.Args
		switch a[0] {
		case "file":
			writeFile(a[1], luaBody("F", a[1], parseC20Beh(a[2])))
			emit(a, "")
		case "badfile":
			// a module file that EXISTS but cannot be loaded: a[2] = syntax | lex | stmt (does not compile) | dir (cannot be read)
			if a[2] == "dir" {
				p := filepath.Join(w.dir, a[1])
				os.RemoveAll(p)
				if err := os.MkdirAll(p, 0o755); err != nil {
					panic(err)
				}
			} else {
				writeFile(a[1], c20BadSrc[a[2]])
			}
			emit(a, "")
		case "rmfile":
			os.RemoveAll(filepath.Join(w.dir, a[1]))
			emit(a, "")
		case "newpreload":
			// package.preload = a FRESH table that got the entries of the names a[1] from the old one; a[2] == "go": the
			// host assigns the field
			keep := ""
			if a[1] != "-" {
				keep = `"` + strings.Join(strings.Split(a[1], ","), `", "`) + `"`
			}
			if len(a) > 2 && a[2] == "go" {
				pkg := L.GetGlobal("package")
				old := L.GetField(pkg, "preload")
				t := L.NewTable()
				if a[1] != "-" {
					for _, k := range strings.Split(a[1], ",") {
						L.SetField(t, k, L.GetField(old, k))
					}
				}
				L.SetField(pkg, "preload", t)
			} else {
				doLua(fmt.Sprintf("local old, t = package.preload, {}\nfor _, k in ipairs({%s}) do t[k] = old[k] end\npackage.preload = t", keep))
			}
			emit(a[:2], "")
		case "path":
			// package.path = another string: the templates a[1] (relative to the module dir)
			var ts []string
			for _, t := range strings.Split(a[1], ";") {
				if t == "" {
					ts = append(ts, "") // an EMPTY template (";;", a leading or trailing ";"): tried as the file "" and passed over
					continue
				}
				ts = append(ts, w.dir+"/"+t)
			}
			doLua(fmt.Sprintf("package.path = %q", strings.Join(ts, ";")))
			emit(a, "")
		case "newcpath":
			// gopher-lua has no C searchers: package.cpath is never read; the Model never hears of this op
			doLua(fmt.Sprintf("package.cpath = %q", w.dir+"/?.so;"+w.dir+"/?.lua"))
		case "newloaded":
			// package.loaded = {}: require / module / RegisterModule go through the registry (_LOADED), so nothing changes
			// for them — the Model never hears of this op; from here on `clear` (package.loaded[n] = nil from Lua) hits the
			// new table and is no event for the Model either
			doLua("package.loaded = {}")
			w.newLoaded = L.GetField(L.GetGlobal("package"), "loaded").(*lua.LTable)
		case "ldswap":
			doLua("local t = package.loaders\nif #t >= 2 then t[1], t[2] = t[2], t[1] end")
			emit(a, "")
		case "ldrm":
			doLua(fmt.Sprintf("if #package.loaders >= %s then table.remove(package.loaders, %s) end", a[1], a[1]))
			emit(a, "")
		case "ldins":
			doLua(fmt.Sprintf("local t = package.loaders\nlocal pos = %s\nif pos > #t + 1 then pos = #t + 1 end\ntable.insert(t, pos, %s)", a[1], searcherExpr(a[2])))
			emit(a, "")
		case "ldnew":
			var es []string
			if a[1] != "-" {
				for _, t := range strings.Split(a[1], "/") {
					es = append(es, searcherExpr(t))
				}
			}
			doLua("package.loaders = {" + strings.Join(es, ",\n") + "}")
			emit(a, "")
		case "ldrestore":
			doLua("package.loaders = ORIG_LOADERS")
			emit(a, "")
		case "preload":
			// the helpers are captured outside the function: module() replaces the function's environment for good
			src := fmt.Sprintf("%spackage.preload[%q] = function(...)\n%s\nend", c20Locals, a[1], luaBody("P", a[1], parseC20Beh(a[2])))
			if err := L.DoString(src); err != nil {
				panic(err)
			}
			emit(a, "")
		case "gpreload":
			L.PreloadModule(a[1], w.goLoader(a[1], parseC20Beh(a[2])))
			emit(a, "")
		case "unpreload":
			if err := L.DoString(fmt.Sprintf("package.preload[%q] = nil", a[1])); err != nil {
				panic(err)
			}
			emit(a, "")
		case "clear":
			if err := L.DoString(fmt.Sprintf("package.loaded[%q] = nil", a[1])); err != nil {
				panic(err)
			}
			if w.newLoaded == nil {
				emit(a, "")
			}
		case "gtrue":
			L.RawSet(L.Get(lua.GlobalsIndex).(*lua.LTable), lua.LString(a[1]), lua.LTrue)
			emit(a, "")
		case "gmeta":
			// metatables on the globals table / on the module tables reachable now: module lookup (luaL_findtable) is
			// RAW, so none of this may change any outcome — the Model never hears of this op
			if err := L.DoString(c20Locals + c20MetaSrc[a[1]]); err != nil {
				panic(err)
			}
		case "require":
			w.log = nil
			top := L.GetTop()
			var res string
			// a[2] (optional) = "go": call through the Go API; default: pcall(require, n) from Lua
			if len(a) > 2 && a[2] == "go" {
				if err := L.CallByParam(lua.P{Fn: w.require, NRet: 1, Protect: true}, lua.LString(a[1])); err != nil {
					res = w.classify(errText(err))
				} else {
					res = "ok " + w.val(L.Get(-1))
				}
			} else {
				if err := L.CallByParam(lua.P{Fn: w.preq, NRet: 2, Protect: true}, lua.LString(a[1])); err != nil {
					res = "E:harness:" + hex.EncodeToString([]byte(err.Error()))
				} else if lua.LVAsBool(L.Get(top + 1)) {
					res = "ok " + w.val(L.Get(top+2))
				} else {
					res = w.classify(L.Get(top + 2).String())
				}
			}
			L.SetTop(top)
			if ctx.Err() != nil || w.timedOut {
				atomic.AddInt32(&c20Timeouts, 1)
				out = append(out, "X timeout => require "+a[1]+" did not finish (unbounded nesting?)")
				return out
			}
			emit([]string{"require", a[1]}, strings.TrimSpace(strings.Join(w.log, " ")+" "+res))
			observe(a[1])
			checkNewLoaded()
		case "register":
			var res string
			var ret lua.LValue
			fn := L.NewFunction(func(L *lua.LState) int {
				ret = L.RegisterModule(a[1], map[string]lua.LGFunction{a[2]: func(L *lua.LState) int { return 0 }})
				return 0
			})
			top := L.GetTop()
			err := L.CallByParam(lua.P{Fn: fn, NRet: 0, Protect: true})
			L.SetTop(top)
			w.tagPath(a[1])
			if err != nil {
				res = w.classify(errText(err))
			} else if t, ok := ret.(*lua.LTable); ok {
				res = "ok " + w.val(t) + " f1=" + w.val(t.RawGetString("f1")) + " f2=" + w.val(t.RawGetString("f2"))
			} else {
				res = "ok " + w.val(ret)
			}
			emit(a, res)
			observe(a[1])
			checkNewLoaded()
		case "global":
			top := L.GetTop()
			r := "E:glob"
			if err := L.CallByParam(lua.P{Fn: w.glob, NRet: 1, Protect: true}, lua.LString(a[1])); err == nil {
				r = w.val(L.Get(-1))
			}
			L.SetTop(top)
			emit(a, r)
		case "loaded":
			emit(a, w.val(w.loaded.RawGetString(a[1])))
		default:
			panic("bad op " + a[0])
		}
	}
	return out
}

// ---------- generators ----------

var c20Names = []string{"ma", "p", "p.q"}

func c20Path(n string, alt bool) string {
	p := strings.Replace(n, ".", "/", -1) + ".lua"
	if alt {
		return "alt/" + p
	}
	return p
}

// the loader configurations of the bounded-exhaustive families: ops that give module x its loader(s);
// o = another module name.
func c20Config(k int, x, o string) []Op {
	mk := func(args ...string) Op { return Op{Args: args} }
	f, fa := c20Path(x, false), c20Path(x, true)
	switch k {
	case 0:
		return nil
	case 1:
		return []Op{mk("file", f, ";ret")}
	case 2:
		return []Op{mk("file", f, ";none")}
	case 3:
		return []Op{mk("file", f, ";retfalse")}
	case 4:
		return []Op{mk("file", f, ";setret")}
	case 5:
		return []Op{mk("file", f, ";raise")}
	case 6:
		return []Op{mk("file", f, ";mod")}
	case 7:
		return []Op{mk("file", f, "req:"+x+";ret")}
	case 8:
		return []Op{mk("file", f, "req:"+o+";ret")}
	case 9:
		return []Op{mk("file", f, "preq:"+o+";set")}
	case 10:
		return []Op{mk("preload", x, ";ret"), mk("file", f, ";none")}
	case 11:
		return []Op{mk("gpreload", x, ";none"), mk("file", fa, ";ret")}
	case 12:
		return []Op{mk("file", fa, ";setnilret")}
	case 13:
		return []Op{mk("gpreload", x, "req:"+o+";ret")}
	case 14:
		return []Op{mk("file", f, ";setmod")}
	}
	panic("bad config")
}

const c20NConfigs = 15

func c20Action(k int, names []string) Op {
	n := names[k%len(names)]
	switch k / len(names) {
	case 0:
		return Op{Args: []string{"require", n}}
	case 1:
		return Op{Args: []string{"clear", n}}
	default:
		return Op{Args: []string{"register", n, "f1"}}
	}
}

// famCase decodes index idx of the family (names, length ≤ 4): configs for every name, then 1..4 actions.
// The size of the family is returned by famSize.
func famSize(nNames int) uint64 {
	w := uint64(1)
	for i := 0; i < nNames; i++ {
		w *= c20NConfigs
	}
	a := uint64(3 * nNames)
	return w * (a + a*a + a*a*a + a*a*a*a)
}

func famCase(names []string, idx uint64) []Op {
	var ops []Op
	for i, x := range names {
		k := int(idx % c20NConfigs)
		idx /= c20NConfigs
		ops = append(ops, c20Config(k, x, names[(i+1)%len(names)])...)
	}
	a := uint64(3 * len(names))
	l := 1
	for sz := a; idx >= sz; sz *= a {
		idx -= sz
		l++
	}
	for i := 0; i < l; i++ {
		ops = append(ops, c20Action(int(idx%a), names))
		idx /= a
	}
	return ops
}

func genC20Beh(r *Rng, goLoader bool) string {
	var steps []string
	n := 0
	switch c := r.Intn(100); {
	case c < 55:
		n = 0
	case c < 85:
		n = 1
	case c < 97:
		n = 2
	default:
		n = 3
	}
	for i := 0; i < n; i++ {
		k := "req:"
		if r.Bool() {
			k = "preq:"
		}
		steps = append(steps, k+Pick(r, c20Names))
	}
	finals := []string{"ret", "ret", "ret", "ret", "ret", "ret", "none", "none", "retfalse", "set", "set", "setret", "setret",
		"setnil", "setnilret", "raise", "raise", "mod", "mod", "setmod", "setraise"}
	f := Pick(r, finals)
	for goLoader && (f == "mod" || f == "setmod") {
		f = Pick(r, finals)
	}
	return strings.Join(steps, ",") + ";" + f
}

func genC20Random(r *Rng, maxLen int) []Op {
	var ops []Op
	add := func(args ...string) { ops = append(ops, Op{Args: args}) }
	have := map[string]bool{}
	n := r.Range(3, maxLen)
	meta := ""
	if r.Chance(45) {
		meta = Pick(r, []string{"strict", "decoy", "seeall", "seeall"})
	}
	metaAt := r.Intn(n)
	for len(ops) < n {
		if meta != "" && len(ops) >= metaAt {
			add("gmeta", meta)
			if meta != "seeall" || r.Chance(50) { // seeall: again later, for module tables created meanwhile
				meta = ""
			} else {
				metaAt = len(ops) + r.Range(1, 4)
			}
			n++
			continue
		}
		x := Pick(r, c20Names)
		switch c := r.Intn(100); {
		case c < 16:
			add("file", c20Path(x, r.Chance(25)), genC20Beh(r, false))
			have[x] = true
		case c < 24:
			add("preload", x, genC20Beh(r, false))
			have[x] = true
		case c < 31:
			add("gpreload", x, genC20Beh(r, true))
			have[x] = true
		case c < 34:
			add("unpreload", x)
		case c < 37:
			add("rmfile", c20Path(x, r.Chance(25)))
		case c < 46:
			add("clear", x)
		case c < 54:
			add("register", x, Pick(r, []string{"f1", "f2"}))
		case c < 56:
			if x != "p.q" {
				add("gtrue", x)
			} else {
				add("gtrue", "q")
			}
		case c < 59:
			add(Pick(r, []string{"global", "loaded"}), x)
		case c < 62:
			// a module file that exists but does not load (either template)
			add("badfile", c20Path(x, r.Chance(30)), Pick(r, []string{"syntax", "lex", "stmt", "dir"}))
			have[x] = true
		case c < 64:
			// package.preload replaced by a fresh table (keeping a random subset of the entries), from Lua or by the host
			var keep []string
			for _, y := range c20Names {
				if r.Chance(35) {
					keep = append(keep, y)
				}
			}
			k := "-"
			if len(keep) > 0 {
				k = strings.Join(keep, ",")
			}
			if r.Bool() {
				add("newpreload", k)
			} else {
				add("newpreload", k, "go")
			}
		case c < 66:
			add("path", Pick(r, []string{"alt/?.lua;?.lua", "alt/?.lua", "?.lua", "?.lua;alt/?.lua", "?.lua;?.lua;alt/?.lua", "none/?.lua;alt/?.lua;?.lua",
				"none/?.lua;;?.lua;alt/?.lua", ";alt/?.lua;?.lua", "alt/?.lua;;?.lua"}))
		case c < 67:
			add("newcpath")
		case c < 69:
			// package.loaders changed IN PLACE (replacing the table is the known finding: family E only)
			switch r.Intn(5) {
			case 0:
				add("ldswap")
			case 1:
				add("ldrm", Pick(r, []string{"1", "2", "3"}))
			case 2:
				add("ldins", Pick(r, []string{"1", "2", "3"}), Pick(r, []string{"N", "M:hi"}))
			default:
				add("ldins", Pick(r, []string{"1", "1", "2", "3"}), "C:"+x+":"+genC20Beh(r, false))
				have[x] = true
			}
		default:
			// mostly modules that have (had) a loader
			if !have[x] && r.Chance(80) {
				for _, y := range c20Names {
					if have[y] {
						x = y
					}
				}
			}
			if r.Chance(25) {
				add("require", x, "go")
			} else {
				add("require", x)
			}
		}
	}
	for _, x := range c20Names {
		add("require", x)
	}
	return ops
}


// ---------- family D: a require that FAILS at each stage, the cause repaired (or not), the require repeated ----------
//
// stage = where the first require of x fails (or what odd value it yields): nothing found; a file found that does not
// compile / cannot be read (either template, also shadowing a good file, also behind a nested require); the loader
// raises; raises after having assigned package.loaded[x]; returns false / nothing; assigns nil; requires itself.
// repair = what the host does before the second require: nothing, rewrite the file (either template), register a
// preload entry (Lua / Go), clear package.loaded[x], both, remove the file, repair the nested module.
// What package.loaded[x] holds after every step, which loaders run and what every require answers is compared with the
// Model and the Spec (lloadlib.c 5.1.5: the sentinel is stored only once a loader was FOUND, i.e. after the file compiled).
func c20FailStages(x, o string) [][]Op {
	mk := func(args ...string) Op { return Op{Args: args} }
	f, fa, fo := c20Path(x, false), c20Path(x, true), c20Path(o, false)
	return [][]Op{
		{},
		{mk("badfile", f, "syntax")},
		{mk("badfile", fa, "lex")},
		{mk("badfile", f, "dir")},
		{mk("badfile", fa, "dir")},
		{mk("badfile", f, "stmt"), mk("file", fa, ";ret")},
		{mk("file", f, ";raise")},
		{mk("preload", x, ";raise")},
		{mk("gpreload", x, ";raise")},
		{mk("file", f, ";setraise")},
		{mk("preload", x, ";setraise")},
		{mk("gpreload", x, ";setraise")},
		{mk("file", f, ";retfalse")},
		{mk("file", fa, ";none")},
		{mk("file", f, ";setnil")},
		{mk("file", f, "req:" + x + ";ret")},
		{mk("file", f, "req:" + o + ";ret"), mk("badfile", fo, "syntax")},
		{mk("file", f, "preq:" + o + ";ret"), mk("badfile", fo, "dir")},
		{mk("preload", x, "req:" + o + ";none"), mk("file", fo, ";setraise")},
		{mk("preload", x, ";ret"), mk("badfile", f, "syntax")},
		{mk("file", f, "preq:" + x + ";setraise")},
	}
}

func c20Repairs(x, o string) [][]Op {
	mk := func(args ...string) Op { return Op{Args: args} }
	f, fa, fo := c20Path(x, false), c20Path(x, true), c20Path(o, false)
	return [][]Op{
		{},
		{mk("file", f, ";ret")},
		{mk("file", fa, ";none")},
		{mk("preload", x, ";ret")},
		{mk("gpreload", x, ";none")},
		{mk("clear", x)},
		{mk("clear", x), mk("file", f, ";ret")},
		{mk("rmfile", f), mk("rmfile", fa)},
		{mk("file", fo, ";ret"), mk("clear", x), mk("clear", o)},
		{mk("badfile", f, "lex")},
	}
}

func genC20FailRepair() [][]Op {
	var res [][]Op
	req := func(n string, viaGo bool) Op {
		if viaGo {
			return Op{Args: []string{"require", n, "go"}}
		}
		return Op{Args: []string{"require", n}}
	}
	for ni, x := range []string{"ma", "p.q"} {
		o := []string{"p.q", "ma"}[ni]
		for si, st := range c20FailStages(x, o) {
			for ri, rp := range c20Repairs(x, o) {
				var ops []Op
				ops = append(ops, st...)
				viaGo := (si+ri+ni)%3 == 0 // a third of the histories require through the Go API
				ops = append(ops, req(x, viaGo))
				ops = append(ops, rp...)
				ops = append(ops, req(x, false), req(x, viaGo), req(o, false), Op{Args: []string{"loaded", x}})
				res = append(res, ops)
			}
		}
	}
	return res
}

// ---------- family E: the package fields REPLACED during a history ----------
//
// package.preload = {…} (from Lua / by the host; keeping some entries or none; registrations in the new table from Lua
// and through L.PreloadModule; entries left in the discarded table), package.path = another string (order swapped,
// one template only, back again), package.loaded = {} and package.cpath = … (neither is read by the module system:
// _LOADED lives in the registry, there are no C searchers), package.loaders changed in place (swap, remove, insert
// scripted searchers) and REPLACED by a new table (lloadlib.c reads the field `loaders` of the package table on every
// call — gopher-lua reads the registry's table: known finding C20-loaders-replaced, recognised by the engine).
func genC20Replaced() [][]Op {
	mk := func(args ...string) Op { return Op{Args: args} }
	var res [][]Op
	for ni, x := range []string{"ma", "p.q"} {
		o := []string{"p.q", "ma"}[ni]
		f, fa, fo := c20Path(x, false), c20Path(x, true), c20Path(o, false)
		// E1 package.preload replaced
		configs := [][]Op{
			{mk("preload", x, ";ret")},
			{mk("gpreload", x, ";ret")},
			{mk("preload", x, ";ret"), mk("file", f, ";none")},
			{mk("file", fa, ";ret"), mk("gpreload", o, ";none")},
		}
		firsts := [][]Op{{}, {mk("require", x), mk("clear", x)}}
		replaces := [][]Op{{mk("newpreload", "-")}, {mk("newpreload", "-", "go")}, {mk("newpreload", x)}, {mk("newpreload", o, "go")},
			{mk("newpreload", "-"), mk("newpreload", x+","+o)}}
		thens := [][]Op{
			{},
			{mk("preload", x, ";set")},
			{mk("gpreload", x, ";ret")},
			{mk("gpreload", o, "preq:" + x + ";ret")},
			{mk("unpreload", x), mk("preload", o, ";none")},
		}
		for _, c := range configs {
			for _, fi := range firsts {
				for _, rp := range replaces {
					for _, th := range thens {
						var ops []Op
						ops = append(ops, c...)
						ops = append(ops, fi...)
						ops = append(ops, rp...)
						ops = append(ops, th...)
						ops = append(ops, mk("require", x), mk("require", x, "go"), mk("require", o))
						res = append(res, ops)
					}
				}
			}
		}
		// E2 package.path reassigned (and cpath, which nothing reads)
		for ci, c := range [][]Op{
			{mk("file", f, ";ret"), mk("file", fa, ";none")},
			{mk("file", fa, ";ret")},
			{mk("file", f, ";set")},
			{},
		} {
			for pi, path := range []string{"alt/?.lua;?.lua", "alt/?.lua", "?.lua", "?.lua;alt/?.lua", "nowhere/?.lua;?.luac",
				"nowhere/?.lua;;?.lua;alt/?.lua", ";?.lua", ";;alt/?.lua;?.lua", "?.lua;", "nowhere/?.lua;;", "alt/?.lua;;?.lua"} {
				for _, early := range []bool{false, true} {
					var ops []Op
					ops = append(ops, c...)
					if early {
						ops = append(ops, mk("require", x), mk("clear", x))
					}
					if (ci+pi)%2 == 0 {
						ops = append(ops, mk("newcpath"))
					}
					ops = append(ops, mk("path", path), mk("require", x), mk("clear", x), mk("path", "?.lua;alt/?.lua"), mk("require", x), mk("require", o))
					res = append(res, ops)
				}
			}
		}
		// E3 package.loaded replaced: loaders that do not assign package.loaded from Lua (they would write to the new table)
		for _, c := range [][]Op{
			{mk("file", f, ";ret")},
			{mk("preload", x, ";none")},
			{mk("gpreload", x, ";retfalse")},
			{mk("gpreload", x, ";set")},
			{mk("file", fa, ";raise")},
		} {
			for _, early := range []bool{false, true} {
				var ops []Op
				ops = append(ops, c...)
				ops = append(ops, mk("file", fo, "preq:" + x + ";ret"))
				if early {
					ops = append(ops, mk("newloaded"))
				}
				ops = append(ops, mk("require", x))
				if !early {
					ops = append(ops, mk("newloaded"))
				}
				ops = append(ops, mk("require", x), mk("clear", x), mk("require", x, "go"), mk("require", o), mk("register", x, "f1"), mk("require", x), mk("loaded", o))
				res = append(res, ops)
			}
		}
		// E5 package.loaders changed in place / replaced
		chainOps := [][]Op{
			{mk("ldswap")},
			{mk("ldrm", "1")},
			{mk("ldrm", "2")},
			{mk("ldrm", "1"), mk("ldrm", "1")},
			{mk("ldins", "1", "C:" + x + ":;ret")},
			{mk("ldins", "3", "C:" + x + ":;set")},
			{mk("ldins", "1", "N"), mk("ldins", "2", "M:hi")},
			{mk("ldins", "2", "C:" + o + ":preq:" + x + ";none")},
			{mk("ldnew", "-")},
			{mk("ldnew", "L/P")},
			{mk("ldnew", "P")},
			{mk("ldnew", "L")},
			{mk("ldnew", "P/L")},
			{mk("ldnew", "C:" + x + ":;ret/P/L")},
			{mk("ldnew", "M:hi/N/P/L/M:bye")},
			{mk("ldnew", "-"), mk("ldrestore")},
			{mk("ldnew", "P"), mk("ldins", "1", "C:" + x + ":;ret")},
			{mk("ldswap"), mk("ldnew", "P/L"), mk("ldswap"), mk("ldrestore")},
		}
		for _, c := range [][]Op{
			{mk("preload", x, ";ret"), mk("file", f, ";none")},
			{mk("file", fa, ";ret")},
			{mk("gpreload", x, ";none")},
			{},
		} {
			for _, co := range chainOps {
				var ops []Op
				ops = append(ops, c...)
				ops = append(ops, co...)
				ops = append(ops, mk("require", x), mk("require", x), mk("require", o))
				res = append(res, ops)
			}
		}
	}
	return res
}

func init() { props["C20"] = runC20; replayExec["C20"] = execRequire }

func runC20(run *Run) {
	nFam2, nFam3, nRand, maxLen := 1500, 1500, 1500, 12
	if run.Tier == "thorough" {
		nFam2, nFam3, nRand = -1, 150000, 60000
	}
	run.Rule = "histories of require / preload / file / clear / register over module names {ma, p, p.q} executed on the real interpreter (module files in a temp dir on package.path, preload from Lua and via L.PreloadModule, host modules via L.RegisterModule) and replayed on the Lean Model (exact reply: loader-run log, nested results, identity tag of the result, error class incl. the list of what was tried), the Spec (manual's algorithm) and a cache monitor. TEST families: (A) bounded-exhaustive 2-name family = 15 loader configurations per name x action sequences of length <= 4 over {require, clear, register} (thorough: all of it; quick: seeded subset), (B) the same with 3 names (seeded subset), (C) random histories of length <= 12 with random loader bodies (0-3 nested requires, protected or not, incl. self/mutual; finals ret/none/false/set/set+ret/setnil/setnil+ret/raise/set+raise/module/set+module; module files that exist but do not compile or cannot be read; package.preload replaced by a fresh table, package.path reassigned, package.cpath reassigned, package.loaders changed in place incl. scripted searchers), (D) bounded-exhaustive, every run: 21 failure stages of the first require (nothing found / file does not compile or is unreadable, either template, shadowing, nested / loader raises / raises after assigning / false / nothing / assigns nil / self-require) x 10 repairs (rewrite file, preload entry from Lua or Go, clear, remove, repair the nested module, none) x 2 names, then the require repeated, (E) bounded-exhaustive, every run: package.preload / path / loaded / cpath / loaders REPLACED (and loaders changed in place) around requires and registrations from Lua and through L.PreloadModule. distinct = distinct histories (ops incl. behaviours) with >= 3 ops"
	run.Assume = []string{
		"the OS file system (os.Stat, reading the module file) behaves as a map from path to contents; the Model takes that map as a parameter",
		"table identity crosses the wire as a serial tag written at creation; the executor checks tag <-> pointer bijectivity on every encoded value",
		"package.loaded / package.preload carry no metatables; package.preload is always a table, package.path a string, package.loaders a table (the error branches 'must be a table/string' are not generated); the global `package` itself is never reassigned",
		"loader bodies are the behaviours of the generator's alphabet (nested requires, then one final action); a module file either is such a body or does not load at all (syntax/scanner error, a directory)",
		"searchers a script adds to package.loaders are of three shapes: answers a loader for one name, answers a fixed string, answers nil",
		"lloadlib.c of Lua 5.1.5 is the reference for what the manual leaves open: which package fields are read per call (loaders, preload, path through the package table; _LOADED through the registry) and when the sentinel is stored (after a loader was found)",
	}
	root := NewRng(uint64(run.Seed))
	var cases []Case
	for i, c := range loadCorpus("C20") {
		cases = append(cases, Case{Idx: -1 - i, Ops: c, Note: "corpus"})
	}
	two := []string{"ma", "p.q"}
	s2, s3 := famSize(2), famSize(3)
	if nFam2 < 0 {
		for i := uint64(0); i < s2; i++ {
			cases = append(cases, Case{Idx: int(i), Ops: famCase(two, i)})
		}
	} else {
		r := root.Fork(1)
		for i := 0; i < nFam2; i++ {
			idx := r.U64() % s2
			cases = append(cases, Case{Idx: int(idx), Ops: famCase(two, idx)})
		}
	}
	r3 := root.Fork(2)
	for i := 0; i < nFam3; i++ {
		idx := r3.U64() % s3
		cases = append(cases, Case{Idx: 1000000000 + i, Ops: famCase(c20Names, idx)})
	}
	for i := 0; i < nRand; i++ {
		r := root.Fork(uint64(100 + i))
		cases = append(cases, Case{Idx: 2000000000 + i, Ops: genC20Random(r, maxLen)})
	}
	// families D and E: small, exhaustive, on every run (both tiers)
	nD, nE := 0, 0
	for i, ops := range genC20FailRepair() {
		cases = append(cases, Case{Idx: 1500000000 + i, Ops: ops, Note: "fail-repair"})
		nD++
	}
	for i, ops := range genC20Replaced() {
		cases = append(cases, Case{Idx: 1600000000 + i, Ops: ops, Note: "replaced-field"})
		nE++
	}
	run.Extra["fail_repair_histories"] = nD
	run.Extra["replaced_field_histories"] = nE
	tieCases := 0
	for _, c := range cases {
		for _, o := range c.Ops {
			if len(o.Args) > 2 && (strings.HasSuffix(o.Args[2], ";setret") || strings.HasSuffix(o.Args[2], ";setnilret")) {
				tieCases++
				break
			}
		}
	}
	run.Extra["family_sizes"] = map[string]uint64{"two_names": s2, "three_names": s3}
	run.Extra["cases_with_assign_and_return_loader"] = tieCases
	run.Extra["spec_note"] = "loader assigns package.loaded[n] and returns non-nil: Lua 5.1 caches the returned value, gopher-lua keeps the assigned one (Spec parameter Tie; every Spec-level theorem holds for both)"
	// runCases in chunks so that temp dirs and memory stay bounded
	const chunk = 20000
	for lo := 0; lo < len(cases); lo += chunk {
		hi := lo + chunk
		if hi > len(cases) {
			hi = len(cases)
		}
		runCases(run, cases[lo:hi], execRequire, classifyTagged)
	}
	// distinct histories (skeletonOf drops the behaviours): recount over full op text
	distinct := map[string]bool{}
	for _, c := range cases {
		if len(c.Ops) >= 3 {
			distinct[strings.Join(opsToStrings(c.Ops), "|")] = true
		}
	}
	run.Extra["distinct_histories"] = len(distinct)
}
