package main

// Core of the correspondence harness: PRNG, wire encoding of Lua values, driver runner,
// case execution, shrinking, known-finding classification, evidence and replay writing.

import (
	"bufio"
	"bytes"
	"encoding/hex"
	"encoding/json"
	"fmt"
	"math"
	"os"
	"os/exec"
	"path/filepath"
	"sort"
	"strconv"
	"strings"
	"sync"
	"sync/atomic"
	"time"

	lua "github.com/yuin/gopher-lua"
)

// ---------- PRNG (splitmix64; every random choice derives from VERIF_SEED) ----------

type Rng struct{ s uint64 }

func NewRng(seed uint64) *Rng { return &Rng{s: seed*0x9E3779B97F4A7C15 + 0x1234567} }
func (r *Rng) U64() uint64 {
	r.s += 0x9E3779B97F4A7C15
	z := r.s
	z = (z ^ (z >> 30)) * 0xBF58476D1CE4E5B9
	z = (z ^ (z >> 27)) * 0x94D049BB133111EB
	return z ^ (z >> 31)
}
func (r *Rng) Intn(n int) int {
	if n <= 0 {
		return 0
	}
	return int(r.U64() % uint64(n))
}
func (r *Rng) Range(lo, hi int) int { return lo + r.Intn(hi-lo+1) }
func (r *Rng) Bool() bool          { return r.U64()&1 == 1 }
func (r *Rng) Chance(pct int) bool { return r.Intn(100) < pct }
func (r *Rng) Fork(i uint64) *Rng  { return NewRng(r.s ^ (i+1)*0xD6E8FEB86659FD93) }
func Pick[T any](r *Rng, xs []T) T { return xs[r.Intn(len(xs))] }

// ---------- wire encoding ----------

// RefTable numbers reference objects (tables, functions, userdata…) in order of first appearance in a case.
type RefTable struct {
	ids   map[interface{}]int
	fresh int
}

func NewRefTable() *RefTable { return &RefTable{ids: map[interface{}]int{}} }
func (rt *RefTable) ID(v interface{}) int {
	if id, ok := rt.ids[v]; ok {
		return id
	}
	// objects the harness did not name itself get ids from 1000 upwards, in order of first appearance
	id := 1000 + rt.fresh
	rt.fresh++
	rt.ids[v] = id
	return id
}
func (rt *RefTable) Bind(v interface{}, id int) { rt.ids[v] = id }

func encNum(f float64) string {
	if math.IsNaN(f) {
		return "nan"
	}
	if f == math.Trunc(f) && !math.IsInf(f, 0) {
		if math.Abs(f) < 1e18 {
			return "i" + strconv.FormatInt(int64(f), 10)
		}
		// exact integer value of a large integral double
		bf := new(bigFloat).set(f)
		return "i" + bf.String()
	}
	return "f" + strconv.FormatUint(math.Float64bits(f), 10)
}

func encVal(v lua.LValue, rt *RefTable) string {
	switch x := v.(type) {
	case *lua.LNilType:
		return "nil"
	case lua.LBool:
		if bool(x) {
			return "T"
		}
		return "F"
	case lua.LNumber:
		return encNum(float64(x))
	case lua.LString:
		return "s" + hex.EncodeToString([]byte(string(x)))
	case nil:
		return "GONIL"
	default:
		return "r" + strconv.Itoa(rt.ID(v))
	}
}

// ---------- cases ----------

// Op is one request: Args go before "=>"; exec fills in the implementation's reply.
type Op struct {
	Args []string
}

func (o Op) String() string { return strings.Join(o.Args, " ") }

// A Case is a list of ops executed on a fresh implementation state.
type Case struct {
	Idx  int
	Ops  []Op
	Note string
}

// Executor runs ops on the real implementation and returns one request line per op
// ("<engine> <args> => <impl reply>" or without arrow for commands).
type Executor func(ops []Op) []string

type Failure struct {
	CaseIdx int
	LineIdx int
	Kind    string // MODEL, SPEC, CRASH
	Line    string
	Reply   string
	Lines   []string // whole (shrunk) case as sent to the driver
	Finding string   // id of the known finding class it belongs to, "" if none
	Source  string   // Lua source of the failing program (program-level checks)
	Sexp    string
	Note    string
	Ops     []string // the (shrunk) ops of the case, for replay
	CallNo  int      // which runCases invocation of the property runner produced it
}

var driverPath = envOr("GLUADRV", verifRoot()+"/lean/.lake/build/bin/gluadrv")

func envOr(k, d string) string {
	if v := os.Getenv(k); v != "" {
		return v
	}
	return d
}

// runDriver pipes lines to the Lean driver and returns one reply per line.
func runDriver(lines []string) ([]string, error) {
	cmd := exec.Command(driverPath)
	var in bytes.Buffer
	for _, l := range lines {
		in.WriteString(l)
		in.WriteByte('\n')
	}
	cmd.Stdin = &in
	var out bytes.Buffer
	cmd.Stdout = &out
	cmd.Stderr = os.Stderr
	if err := cmd.Run(); err != nil {
		return nil, fmt.Errorf("driver: %v", err)
	}
	var res []string
	sc := bufio.NewScanner(&out)
	sc.Buffer(make([]byte, 1<<20), 1<<28)
	for sc.Scan() {
		res = append(res, sc.Text())
	}
	if len(res) != len(lines) {
		return res, fmt.Errorf("driver returned %d replies for %d requests", len(res), len(lines))
	}
	return res, nil
}

// runDriverSharded splits whole cases over n driver processes.
func runDriverSharded(caseLines [][]string, shards int) ([][]string, error) {
	type job struct{ lo, hi int }
	n := len(caseLines)
	if shards > n {
		shards = n
	}
	if shards < 1 {
		shards = 1
	}
	res := make([][]string, n)
	errs := make(chan error, shards)
	per := (n + shards - 1) / shards
	cnt := 0
	for lo := 0; lo < n; lo += per {
		hi := lo + per
		if hi > n {
			hi = n
		}
		cnt++
		go func(lo, hi int) {
			var lines []string
			for i := lo; i < hi; i++ {
				lines = append(lines, "reset")
				lines = append(lines, caseLines[i]...)
			}
			out, err := runDriver(lines)
			if err != nil {
				// a driver crash: isolate the offending case(s) by running each case alone
				out = nil
				for i := lo; i < hi; i++ {
					o1, e1 := runDriver(append([]string{"reset"}, caseLines[i]...))
					if e1 != nil {
						o1 = make([]string, len(caseLines[i])+1)
						for k := range o1 {
							o1[k] = "ok"
						}
						o1[len(o1)-1] = "MODEL driver-crashed(" + e1.Error() + ")"
					}
					out = append(out, o1...)
				}
			}
			p := 0
			for i := lo; i < hi; i++ {
				p++ // reset
				res[i] = out[p : p+len(caseLines[i])]
				p += len(caseLines[i])
			}
			errs <- nil
		}(lo, hi)
	}
	var first error
	for i := 0; i < cnt; i++ {
		if e := <-errs; e != nil && first == nil {
			first = e
		}
	}
	return res, first
}

func firstBad(replies []string) (int, string) {
	for i, r := range replies {
		if r != "ok" && !strings.HasPrefix(r, "SKIP") {
			k := "MODEL"
			if strings.HasPrefix(r, "SPEC") {
				k = "SPEC"
			} else if strings.Contains(r, " SPEC ") {
				k = "SPEC"
			}
			return i, k
		}
	}
	return -1, ""
}

// failsSame re-executes ops and reports whether a failure of the same kind still occurs.
func failsKind(ex Executor, ops []Op, kind string) (bool, []string, int, string) {
	lines := safeExec(ex, ops)
	out, err := runDriver(append([]string{"reset"}, lines...))
	if err != nil {
		return false, lines, -1, ""
	}
	out = out[1:]
	for i, r := range out {
		if r == "ok" || strings.HasPrefix(r, "SKIP") {
			continue
		}
		isSpec := strings.HasPrefix(r, "SPEC") || strings.Contains(r, " SPEC ")
		if kind == "SPEC" && !isSpec {
			continue
		}
		return true, lines, i, r
	}
	return false, lines, -1, ""
}

func safeExec(ex Executor, ops []Op) (lines []string) {
	// a case during which a hang watchdog fired (in this or a concurrently running case) is executed once more:
	// see watchdog.go noteHang
	for attempt := 0; ; attempt++ {
		before := atomic.LoadInt64(&hangsNoted)
		lines = safeExec1(ex, ops)
		if atomic.LoadInt64(&hangsNoted) == before {
			if attempt > 0 {
				atomic.AddInt64(&hangRetriesCleared, 1)
			}
			return lines
		}
		if atomic.LoadInt64(&confirmedHangs) > 0 {
			return lines // the check is failing already: no more re-execution (watchdog.go confirmedHangs)
		}
		if attempt == 1 {
			atomic.AddInt64(&confirmedHangs, 1)
			return lines
		}
		atomic.AddInt64(&hangRetries, 1)
		time.Sleep(2 * time.Second)
	}
}

// cases being executed right now (for the memory guard in main.go)
var (
	inflightMu  sync.Mutex
	inflight    = map[int64][]Op{}
	inflightSeq int64
)

func safeExec1(ex Executor, ops []Op) (lines []string) {
	inflightMu.Lock()
	inflightSeq++
	id := inflightSeq
	inflight[id] = ops
	inflightMu.Unlock()
	defer func() {
		inflightMu.Lock()
		delete(inflight, id)
		inflightMu.Unlock()
	}()
	defer func() {
		if r := recover(); r != nil {
			lines = append(lines, fmt.Sprintf("X crash => %v", r))
		}
	}()
	return ex(ops)
}

// shrink: delta debugging over the op list (remove chunks while the same kind of failure persists).
func shrink(ex Executor, ops []Op, kind string) []Op {
	cur := ops
	chunk := len(cur) / 2
	budget := 400
	for chunk >= 1 && budget > 0 {
		removed := false
		for i := 0; i+chunk <= len(cur) && budget > 0; {
			cand := append(append([]Op{}, cur[:i]...), cur[i+chunk:]...)
			budget--
			if ok, _, _, _ := failsKind(ex, cand, kind); ok {
				cur = cand
				removed = true
			} else {
				i += chunk
			}
		}
		if !removed || chunk > len(cur) {
			chunk /= 2
		}
		if chunk > len(cur) {
			chunk = len(cur)
		}
	}
	return cur
}

// ---------- known findings ----------

type Finding struct {
	Property string `json:"property"`
	ID       string `json:"id"`
	Status   string `json:"status"` // open | fixed
	Commit   string `json:"commit,omitempty"`
	Class    string `json:"class"`
	Witness  string `json:"witness"`
	Expected string `json:"expected"`
	Observed string `json:"observed"`
}

func loadFindings(path string) []Finding {
	var fs []Finding
	b, err := os.ReadFile(path)
	if err != nil {
		return nil
	}
	for _, l := range strings.Split(string(b), "\n") {
		l = strings.TrimSpace(l)
		if l == "" || strings.HasPrefix(l, "#") {
			continue
		}
		var f Finding
		if json.Unmarshal([]byte(l), &f) == nil {
			fs = append(fs, f)
		}
	}
	return fs
}

// ---------- evidence ----------

type Evidence struct {
	PropertyID  string                 `json:"property_id"`
	Tier        string                 `json:"tier"`
	Seed        int64                  `json:"seed"`
	Level       string                 `json:"level"`
	Coverage    map[string]interface{} `json:"coverage"`
	Assumptions []string               `json:"assumptions"`
	WallS       float64                `json:"wall_s"`
	Violations  int                    `json:"violations"`
}

type Audit struct {
	Theorems    []AuditThm `json:"theorems"`
	CheckerCmd  string     `json:"checker_cmd"`
	BuildOK     bool       `json:"build_ok"`
	BuildLog    string     `json:"build_log,omitempty"`
	Broken      []string   `json:"broken,omitempty"` // names of theorems/modules that no longer check
	GeneratedOK bool       `json:"generated_ok"`
}
type AuditThm struct {
	Name   string   `json:"name"`
	Axioms []string `json:"axioms"`
	OK     bool     `json:"ok"`
}

func loadAudit(path string) *Audit {
	var a Audit
	b, err := os.ReadFile(path)
	if err != nil {
		return nil
	}
	if json.Unmarshal(b, &a) != nil {
		return nil
	}
	return &a
}

type Run struct {
	Prop     string
	Tier     string
	Seed     int64
	Start    time.Time
	Evals    int
	Distinct map[string]bool
	Samples  []interface{}
	Hist     map[string]int
	Failures []Failure
	Known    map[string]int
	Extra    map[string]interface{}
	Rule     string
	Assume   []string
	Trusted  []string
	ValTraces int
}

func NewRun(prop, tier string, seed int64) *Run {
	return &Run{Prop: prop, Tier: tier, Seed: seed, Start: time.Now(), Distinct: map[string]bool{},
		Hist: map[string]int{}, Known: map[string]int{}, Extra: map[string]interface{}{}}
}

func (r *Run) Sample(s interface{}) {
	if len(r.Samples) < 6 {
		r.Samples = append(r.Samples, s)
	}
}

func (r *Run) WriteEvidence(path string, audit *Audit, violations int) {
	cov := map[string]interface{}{
		"evaluations":                   r.Evals,
		"distinct_nontrivial":           len(r.Distinct),
		"rule":                          r.Rule,
		"samples":                       r.Samples,
		"traces_validated_against_impl": r.ValTraces,
		"histogram":                     r.Hist,
		"known_findings_hit":            r.Known,
	}
	for k, v := range r.Extra {
		cov[k] = v
	}
	if len(r.Samples) == 0 {
		cov["samples"] = []interface{}{"(none)"}
	}
	if audit != nil {
		ob, dis := 0, 0
		names := []string{}
		for _, t := range audit.Theorems {
			ob++
			if t.OK {
				dis++
			}
			names = append(names, t.Name)
		}
		if !audit.BuildOK {
			// a broken build discharges nothing
			dis = 0
			if ob == 0 {
				ob = 1
			}
		}
		cov["obligations"] = ob
		cov["discharged"] = dis
		cov["checker_cmd"] = audit.CheckerCmd
		cov["theorems"] = names
		if audit.Broken == nil {
			audit.Broken = []string{}
		}
		cov["broken"] = audit.Broken
	}
	if r.Trusted == nil {
		r.Trusted = []string{}
	}
	if r.Assume == nil {
		r.Assume = []string{}
	}
	cov["trusted_base"] = r.Trusted
	ev := Evidence{PropertyID: r.Prop, Tier: r.Tier, Seed: r.Seed, Level: "proof", Coverage: cov,
		Assumptions: r.Assume, WallS: time.Since(r.Start).Seconds(), Violations: violations}
	b, _ := json.MarshalIndent(ev, "", " ")
	os.MkdirAll(filepath.Dir(path), 0o755)
	os.WriteFile(path, b, 0o644)
}

// writeReplay stores a self-contained replay file and returns its path.
func writeReplay(prop string, name string, payload map[string]interface{}) string {
	dir := filepath.Join(verifRoot(), "replays", prop)
	os.MkdirAll(dir, 0o755)
	p := filepath.Join(dir, name+".json")
	b, _ := json.MarshalIndent(payload, "", " ")
	os.WriteFile(p, b, 0o644)
	return p
}

func verifRoot() string { return envOr("VERIF_ROOT", "/verif") }

func sortedKeys(m map[string]int) []string {
	ks := make([]string, 0, len(m))
	for k := range m {
		ks = append(ks, k)
	}
	sort.Strings(ks)
	return ks
}
