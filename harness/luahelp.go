package main

// Helpers for running Lua source on the real interpreter under recover + timeout.

import (
	"fmt"
	"strings"
	"time"

	lua "github.com/yuin/gopher-lua"
)

// LuaOutcome is the canonical result of running a chunk.
type LuaOutcome struct {
	Emits   []string // one entry per emit(...) call: wire-encoded args joined by ","
	Results []string // wire-encoded chunk results
	Err     string   // "" | "syntax" | "runtime" | "gopanic" | "timeout"
	Msg     string   // error message (raw)
	ErrTok  string   // canonical error token body: "<line|->:<payload token>"
}

// RunLua loads and runs src in a fresh state with the host function emit(...) installed.
// A Go panic escaping DoString is reported as Err="gopanic" (a property violation for most properties).
func RunLua(src string, timeout time.Duration, setup func(L *lua.LState)) (out LuaOutcome) {
	return runLuaFull(src, timeout, setup)
}

func runLuaFull(src string, timeout time.Duration, setup func(L *lua.LState), opts ...lua.Options) (out LuaOutcome) {
	L := lua.NewState(opts...)
	defer L.Close()
	rt := NewRefTable()
	L.SetGlobal("emit", L.NewFunction(func(L *lua.LState) int {
		n := L.GetTop()
		parts := make([]string, n)
		for i := 1; i <= n; i++ {
			parts[i-1] = encVal(L.Get(i), rt)
		}
		out.Emits = append(out.Emits, strings.Join(parts, ","))
		return 0
	}))
	if setup != nil {
		setup(L)
	}
	// `timeout` is turned into an INSTRUCTION budget (20 000 dispatched instructions per millisecond asked for: far more
	// than any terminating generated program executes), so that a starved machine cannot produce a "timeout"; a wall-clock
	// backstop of 30× the time asked for (at least a minute) remains for loops inside coroutines and host functions
	backstop := 30 * timeout
	if backstop < time.Minute {
		backstop = time.Minute
	}
	ctx, cancel := newBudgetCtxWithBackstop(int64(timeout/time.Millisecond)*20000, backstop)
	defer cancel()
	L.SetContext(ctx)
	defer func() {
		if r := recover(); r != nil {
			out.Err = "gopanic"
			out.Msg = fmt.Sprint(r)
		}
	}()
	fn, err := L.LoadString(src)
	if err != nil {
		out.Err, out.Msg = "syntax", err.Error()
		return
	}
	base := L.GetTop()
	L.Push(fn)
	L.SetGlobal("hostid", L.NewFunction(func(L *lua.LState) int { return L.GetTop() }))
	if err := L.PCall(0, lua.MultRet, nil); err != nil {
		out.Err, out.Msg = "runtime", err.Error()
		if ctx.Err() != nil {
			out.Err = "timeout"
			return
		}
		out.ErrTok = "-:s" + hexs(err.Error())
		if ae, ok := err.(*lua.ApiError); ok {
			if ae.Type == lua.ApiErrorPanic {
				out.Err = "gopanic"
				return
			}
			if s, ok := ae.Object.(lua.LString); ok {
				m := posRe.FindStringSubmatch(string(s))
				if m != nil {
					out.ErrTok = m[1] + ":s" + hexs(string(s)[len(m[0]):])
				} else {
					out.ErrTok = "-:s" + hexs(string(s))
				}
			} else if ae.Object != nil {
				out.ErrTok = "-:" + encVal(ae.Object, rt)
			}
		}
		return
	}
	for i := base + 1; i <= L.GetTop(); i++ {
		out.Results = append(out.Results, encVal(L.Get(i), rt))
	}
	return
}
