package main

import "encoding/hex"

// LuaToSexp: corpus / development path from hand-written Lua source to the S-expression of docs/AST.md, through
// gopher-lua's own parser (ParseLua in proggen_ast.go).  Generated programs do NOT take this path: the generator
// serialises its own AST.  Line numbers are the parser's (the source is used as written, not re-rendered).
func LuaToSexp(src string) (string, error) {
	c, err := ParseLua(src, true)
	if err != nil {
		return "", err
	}
	return sexpChunk(c), nil
}

func hexs(s string) string { return hex.EncodeToString([]byte(s)) }
