package main

import (
	"encoding/json"
	"flag"
	"fmt"
	"os"
	"path/filepath"
	"runtime"
	"sort"
	"strconv"
	"strings"
	"sync"
	"time"
)

type Classifier func(f *Failure, ops []Op) string

func classifyNone(f *Failure, ops []Op) string { return classifyTagged(f, ops) }

// classifyTagged: a failure belongs to a known-finding class only when the Model reproduces the
// implementation's behaviour on that request (no MODEL part in the verdict) and the Lean side tagged the
// Spec complaint with the class (`SPEC KF:<id> …`).  Any Impl ≠ Model disagreement is never suppressed.
func classifyTagged(f *Failure, ops []Op) string {
	if f.Kind != "SPEC" || strings.HasPrefix(f.Reply, "MODEL") {
		return ""
	}
	rest := strings.TrimPrefix(f.Reply, "SPEC ")
	if strings.HasPrefix(rest, "KF:") {
		return strings.Fields(rest)[0][3:]
	}
	return ""
}

// corpus: /verif/corpus/<prop>/*.ops  — one op per line (args separated by blanks); run first, every time.
func loadCorpus(prop string) [][]Op {
	var res [][]Op
	files, _ := filepath.Glob(filepath.Join(verifRoot(), "corpus", prop, "*.ops"))
	sort.Strings(files)
	for _, f := range files {
		b, err := os.ReadFile(f)
		if err != nil {
			continue
		}
		var ops []Op
		for _, l := range strings.Split(string(b), "\n") {
			l = strings.TrimSpace(l)
			if l == "" || strings.HasPrefix(l, "#") {
				continue
			}
			ops = append(ops, Op{Args: strings.Fields(l)})
		}
		res = append(res, ops)
	}
	return res
}

func opsToStrings(ops []Op) []string {
	s := make([]string, len(ops))
	for i, o := range ops {
		s[i] = o.String()
	}
	return s
}

// runCases executes every case on the implementation, replays the request lines on the Lean driver,
// and turns every non-ok verdict into a shrunk, classified Failure.
func runCases(run *Run, cases []Case, ex Executor, cl Classifier) {
	runCasesSkel(run, cases, ex, cl, nil)
}

// replay mode: only the runCases invocation that produced the failure runs, on the recorded ops
var replayMode struct {
	on     bool
	callNo int
	ops    []Op
	src    string
	sexp   string
}
var runCasesCallNo int

func runCasesSkel(run *Run, cases []Case, ex Executor, cl Classifier, skel map[int]string) {
	runCasesCallNo++
	callNo := runCasesCallNo
	if replayMode.on {
		if callNo != replayMode.callNo {
			return
		}
		ops := replayMode.ops
		if replayMode.sexp == "" && replayMode.src != "" {
			if sx, err := LuaToSexp(replayMode.src); err == nil {
				replayMode.sexp = sx
			}
		}
		if replayMode.sexp != "" && len(ops) == 1 && ops[0].Args[0] == "prog" {
			idx := storeProg(ProgCase{Src: replayMode.src, Sexp: replayMode.sexp, Note: "replay"})
			ops = []Op{{Args: []string{"prog", fmt.Sprint(idx)}}}
		}
		cases = []Case{{Idx: 0, Ops: ops, Note: "replay"}}
		skel = nil
	}
	// large passes (thorough tier) run in batches, so that the request lines of a million cases are never all in memory
	// (C19's thorough tier peaked at 22 GB, C02's at 17 GB before this)
	const batch = 10000
	shrunk := 0
	for a := 0; a < len(cases); a += batch {
		b := a + batch
		if b > len(cases) {
			b = len(cases)
		}
		if !runCasesBatch(run, cases[a:b], ex, cl, skel, callNo, a, &shrunk) {
			return
		}
	}
}

// runCasesBatch executes cases (a slice of the pass starting at index off), judges them and records the failures;
// false = the driver failed.
func runCasesBatch(run *Run, cases []Case, ex Executor, cl Classifier, skel map[int]string, callNo, off int, shrunkp *int) bool {
	n := len(cases)
	lines := make([][]string, n)
	var wg sync.WaitGroup
	sem := make(chan struct{}, runtime.NumCPU())
	for i := range cases {
		wg.Add(1)
		sem <- struct{}{}
		go func(i int) {
			defer wg.Done()
			defer func() { <-sem }()
			lines[i] = safeExec(ex, cases[i].Ops)
		}(i)
	}
	wg.Wait()
	replies, err := runDriverSharded(lines, runtime.NumCPU())
	if err != nil {
		fmt.Println("harness error:", err)
		run.Failures = append(run.Failures, Failure{CaseIdx: -999, Kind: "HARNESS", Reply: err.Error()})
		return false
	}
	shrunk := *shrunkp
	defer func() { *shrunkp = shrunk }()
	for i := range cases {
		run.Evals += len(lines[i])
		run.ValTraces++
		if skel != nil {
			if sk, ok := skel[off+i]; ok && sk != "" {
				run.Distinct[sk] = true
			}
		} else if len(cases[i].Ops) >= 3 {
			run.Distinct[skeletonOf(cases[i].Ops)] = true
		}
		for _, rp := range replies[i] {
			if strings.HasPrefix(rp, "SKIP") {
				run.Hist["skipped(outside-spec-fragment)"]++
			}
		}
		for _, o := range cases[i].Ops {
			run.Hist[o.Args[0]]++
		}
		if (off+i)%997 == 0 {
			run.Sample(map[string]interface{}{"case": cases[i].Idx, "requests": headLines(lines[i], 12)})
		}
		li, kind := firstBad(replies[i])
		crash := -1
		for k, l := range lines[i] {
			if strings.HasPrefix(l, "X ") {
				crash = k
				break
			}
		}
		if li < 0 && crash < 0 {
			continue
		}
		f := Failure{CaseIdx: cases[i].Idx, LineIdx: li, Kind: kind, Note: cases[i].Note, CallNo: callNo}
		if crash >= 0 && (li < 0 || crash <= li) {
			f.Kind, f.LineIdx, f.Line, f.Reply = "CRASH", crash, lines[i][crash], lines[i][crash]
		} else {
			f.Line, f.Reply = lines[i][li], replies[i][li]
		}
		ops := cases[i].Ops
		if shrunk < 12 && f.Kind != "CRASH" {
			shrunk++
			ops = shrink(ex, ops, f.Kind)
			if ok, l2, idx, rep := failsKind(ex, ops, f.Kind); ok {
				f.Lines, f.LineIdx, f.Line, f.Reply = l2, idx, l2[idx], rep
			}
		}
		if f.Lines == nil {
			f.Lines = lines[i]
		}
		f.Finding = cl(&f, ops)
		f.Ops = opsToStrings(ops)
		if replayMode.on {
			for k, l := range f.Lines {
				fmt.Printf("  %s\n", l)
				_ = k
			}
			fmt.Printf("  -> %s\n", f.Reply)
		}
		run.Failures = append(run.Failures, f)
		_ = ops
	}
	return true
}

func headLines(l []string, n int) []string {
	if len(l) > n {
		return append(append([]string{}, l[:n]...), fmt.Sprintf("… (%d more)", len(l)-n))
	}
	return l
}

// report prints KNOWN-FINDING / VIOLATION lines, writes replays and the evidence; returns the exit code.
func report(run *Run, audit *Audit, evidencePath string) int {
	findings := loadFindings(filepath.Join(verifRoot(), "known_findings.jsonl"))
	open := map[string]Finding{}
	for _, f := range findings {
		if f.Property == run.Prop && f.Status == "open" {
			open[f.ID] = f
		}
	}
	violations := 0
	printedKnown := map[string]bool{}
	var specFail, modelFail []Failure
	for _, f := range run.Failures {
		if f.Finding != "" {
			if kf, ok := open[f.Finding]; ok {
				run.Known[f.Finding]++
				if !printedKnown[f.Finding] {
					printedKnown[f.Finding] = true
					fmt.Printf("KNOWN-FINDING: property=%s %s %s\n", run.Prop, kf.ID, kf.Class)
				}
				continue
			}
		}
		if f.Kind == "SPEC" || f.Kind == "CRASH" || f.Kind == "HARNESS" {
			specFail = append(specFail, f)
		} else {
			modelFail = append(modelFail, f)
		}
	}
	emit := func(f Failure, what string, noInput bool) {
		violations++
		name := fmt.Sprintf("%s-seed%d-case%d", strings.ToLower(f.Kind), run.Seed, f.CaseIdx)
		p := writeReplay(run.Prop, name, map[string]interface{}{
			"property": run.Prop, "kind": f.Kind, "what": what, "seed": run.Seed, "case": f.CaseIdx,
			"failing_request": f.Line, "driver_reply": f.Reply, "requests": f.Lines, "lua_source": f.Source, "sexp": f.Sexp, "note": f.Note, "ops": f.Ops, "call_no": f.CallNo,
		})
		if noInput {
			fmt.Printf("VIOLATION property=%s replay=%s no-failing-input-found\n", run.Prop, p)
		} else {
			fmt.Printf("VIOLATION property=%s replay=%s\n", run.Prop, p)
		}
	}
	// property-level failures first (concrete failing inputs)
	for i, f := range specFail {
		if i >= 5 {
			break
		}
		emit(f, "the implementation's observable behaviour contradicts the Spec on this input", false)
	}
	if len(specFail) == 0 && len(modelFail) > 0 {
		// correspondence broke but no property-level failure was found by the Spec oracle on any explored case
		emit(modelFail[0], "correspondence Impl = Model no longer holds (the theorems no longer transfer); the Spec oracle found no failing input among the explored cases", true)
	}
	if audit != nil && (!audit.BuildOK || len(audit.Broken) > 0) {
		if len(specFail) == 0 && len(modelFail) == 0 {
			violations++
			p := writeReplay(run.Prop, fmt.Sprintf("proof-seed%d", run.Seed), map[string]interface{}{
				"property": run.Prop, "kind": "PROOF", "broken": audit.Broken, "build_log": audit.BuildLog,
				"what": "a theorem / regenerated obligation no longer checks against the current source; the correspondence search found no failing input",
			})
			fmt.Printf("VIOLATION property=%s replay=%s no-failing-input-found\n", run.Prop, p)
		}
	}
	run.Extra["spec_failures"] = len(specFail)
	run.Extra["model_failures"] = len(modelFail)
	run.WriteEvidence(evidencePath, audit, violations)
	if violations > 0 {
		return 1
	}
	return 0
}

var props = map[string]func(*Run){}

func main() {
	prop := flag.String("prop", "", "property id")
	tier := flag.String("tier", "quick", "quick|thorough")
	seed := flag.Int64("seed", 1, "seed")
	auditPath := flag.String("audit", "", "audit json written by the check script")
	evidence := flag.String("evidence", "", "evidence file to write")
	replay := flag.String("replay", "", "replay file")
	luasem := flag.String("luasem", "", "dev: run a Lua file on the implementation and on the reference semantics")
	flag.Parse()
	if *luasem != "" {
		os.Exit(devLuaSem(*luasem))
	}
	var fns []func(*Run)
	for _, suffix := range []string{"", "M", "P"} {
		if fn, ok := props[*prop+suffix]; ok {
			fns = append(fns, fn)
		}
	}
	if len(fns) == 0 {
		fmt.Println("unknown property", *prop)
		os.Exit(2)
	}
	if *replay != "" {
		b, err := os.ReadFile(*replay)
		if err != nil {
			fmt.Println(err)
			os.Exit(2)
		}
		var m map[string]interface{}
		json.Unmarshal(b, &m)
		if ops, ok := m["ops"].([]interface{}); ok && len(ops) > 0 {
			replayMode.on = true
			if cn, ok := m["call_no"].(float64); ok {
				replayMode.callNo = int(cn)
			}
			for _, o := range ops {
				replayMode.ops = append(replayMode.ops, Op{Args: strings.Fields(o.(string))})
			}
			replayMode.src, _ = m["lua_source"].(string)
			replayMode.sexp, _ = m["sexp"].(string)
		} else if cs, ok := m["case"].(float64); ok && (cs <= -9000 || m["requests"] == nil) {
			// a whole-run self-check of a runner (no operation list): replay = run the property's quick pass with the
			// recorded seed again and see whether that self-check still fails
			wholeRunCase = int(cs)
			wholeRun = true
			if sd, ok := m["seed"].(float64); ok {
				*seed = int64(sd)
			}
			*tier = "quick"
		} else {
			os.Exit(doReplay(*prop, *replay))
		}
	}
	go memoryGuard(*prop, *seed, *replay)
	run := NewRun(*prop, *tier, *seed)
	run.Trusted = []string{"Lean 4.33 kernel", "axioms: propext, Classical.choice, Quot.sound only (audited per theorem)",
		"tools/extract (go/ast → Lean constants)", "correspondence harness + driver canonicalisation"}
	for _, fn := range fns {
		fn(run)
	}
	if wholeRun {
		for _, f := range run.Failures {
			if f.CaseIdx == wholeRunCase || (f.CaseIdx <= -9100 && wholeRunCase <= -9100) {
				fmt.Println(f.Line, f.Reply)
				fmt.Printf("VIOLATION property=%s replay=%s\n", *prop, *replay)
				os.Exit(1)
			}
		}
		fmt.Println("replay: the recorded self-check no longer fails on the current tree")
		os.Exit(0)
	}
	if replayMode.on {
		bad := 0
		for _, f := range run.Failures {
			if f.Finding == "" {
				bad++
			}
		}
		if bad > 0 {
			fmt.Printf("VIOLATION property=%s replay=%s\n", *prop, *replay)
			os.Exit(1)
		}
		fmt.Println("replay: the recorded case no longer fails on the current tree")
		os.Exit(0)
	}
	audit := loadAudit(*auditPath)
	ev := *evidence
	if ev == "" {
		ev = filepath.Join(verifRoot(), "evidence", *prop+".json")
	}
	os.Exit(report(run, audit, ev))
}

var replayExec = map[string]Executor{}

// memoryGuard: a check must never take the machine down. Code under test that allocates without bound (a VM or library
// function looping on a corrupted state; seen with a seeded change: 49 GB before the kernel killed the process) is stopped
// when the process exceeds VERIF_MEM_LIMIT_GB (default: 60 % of the machine's memory) resident: the cases in flight are written as replays and
// reported as a violation. The unchanged tree stays below it (quick tier < 3 GB; the thorough tier of C19 peaks at 22 GB).
func memoryGuard(prop string, seed int64, replaying string) {
	// default: 60 % of the machine's memory (the thorough tier of C19 legitimately peaks at 22 GB), at least 8 GB
	limitGB := 36
	if b, err := os.ReadFile("/proc/meminfo"); err == nil {
		for _, l := range strings.Split(string(b), "\n") {
			if f := strings.Fields(l); len(f) >= 2 && f[0] == "MemTotal:" {
				if kb, err := strconv.ParseInt(f[1], 10, 64); err == nil {
					limitGB = int(kb * 6 / 10 >> 20)
				}
			}
		}
	}
	if limitGB < 8 {
		limitGB = 8
	}
	if v, err := strconv.Atoi(os.Getenv("VERIF_MEM_LIMIT_GB")); err == nil && v > 0 {
		limitGB = v
	}
	limit := int64(limitGB) << 30
	page := int64(os.Getpagesize())
	for {
		time.Sleep(200 * time.Millisecond)
		b, err := os.ReadFile("/proc/self/statm")
		if err != nil {
			return
		}
		f := strings.Fields(string(b))
		if len(f) < 2 {
			return
		}
		pages, _ := strconv.ParseInt(f[1], 10, 64)
		if pages*page < limit {
			continue
		}
		if replaying != "" {
			fmt.Printf("replay: the process exceeded %d GB resident\nVIOLATION property=%s replay=%s\n", limitGB, prop, replaying)
			os.Exit(1)
		}
		inflightMu.Lock()
		n := 0
		for id, ops := range inflight {
			if n >= 16 {
				break
			}
			p := writeReplay(prop, fmt.Sprintf("crash-seed%d-memory%d", seed, n), map[string]interface{}{
				"property": prop, "kind": "CRASH", "seed": seed, "case": id, "ops": opsToStrings(ops),
				"what":            fmt.Sprintf("the process exceeded %d GB resident while this case (and %d others) was running: unbounded allocation in the code under test; replaying the case alone shows whether it is the one", limitGB, len(inflight)-1),
				"failing_request": "X memory => unbounded allocation", "driver_reply": "X memory",
			})
			fmt.Printf("VIOLATION property=%s replay=%s\n", prop, p)
			n++
		}
		if n == 0 {
			p := writeReplay(prop, fmt.Sprintf("crash-seed%d-memory", seed), map[string]interface{}{
				"property": prop, "kind": "CRASH", "seed": seed, "case": -9999,
				"what": fmt.Sprintf("the process exceeded %d GB resident outside any case (a runner's own program families): re-run the check with this seed", limitGB),
			})
			fmt.Printf("VIOLATION property=%s replay=%s\n", prop, p)
		}
		os.Exit(1)
	}
}

// wholeRunCase: CaseIdx (≤ -9000) of the runner self-check a replay file records; 0 = not replaying one.
var wholeRunCase int
var wholeRun bool

// doReplay re-runs the requests' ops of a replay file on the current tree and prints the verdicts.
func doReplay(prop, path string) int {
	b, err := os.ReadFile(path)
	if err != nil {
		fmt.Println(err)
		return 2
	}
	var m map[string]interface{}
	json.Unmarshal(b, &m)
	reqs, _ := m["requests"].([]interface{})
	var lines []string
	for _, r := range reqs {
		lines = append(lines, r.(string))
	}
	out, err := runDriver(append([]string{"reset"}, lines...))
	if err != nil {
		fmt.Println(err)
		return 2
	}
	bad := 0
	for i, l := range lines {
		fmt.Printf("%s   -> %s\n", l, out[i+1])
		if out[i+1] != "ok" {
			bad++
		}
	}
	if bad > 0 {
		fmt.Printf("VIOLATION property=%s replay=%s\n", prop, path)
		return 1
	}
	return 0
}


// devLuaSem: development helper — convert a Lua file with the real parser, run it on both sides, print both outcomes.
func devLuaSem(path string) int {
	b, err := os.ReadFile(path)
	if err != nil {
		fmt.Println(err)
		return 2
	}
	sx, err := LuaToSexp(string(b))
	if err != nil {
		fmt.Println("parse error:", err)
		return 2
	}
	o := runLuaFull(string(b), 5*time.Second, nil)
	toks := outcomeTokens(o, nil)
	fmt.Println("IMPL:", strings.Join(toks, " "), " ", o.Msg)
	out, err := runDriver([]string{"S eval 400000 - " + sx, "S run 400000 - " + sx + " => " + strings.Join(toks, " ")})
	if err != nil {
		fmt.Println(err)
		return 2
	}
	fmt.Println("SPEC:", out[0])
	fmt.Println("VERDICT:", out[1])
	if out[1] == "ok" {
		return 0
	}
	return 1
}
