package main

// Program generator — AST (docs/AST.md), S-expression serialiser/reader, skeleton, feature analysis,
// and a converter from gopher-lua's parser AST (used by the template-based idioms/enumerators and by the self-test).

import (
	"encoding/hex"
	"fmt"
	"math"
	"regexp"
	"strconv"
	"strings"

	luaast "github.com/yuin/gopher-lua/ast"
	luaparse "github.com/yuin/gopher-lua/parse"
)

// Chunk is a whole program.
type Chunk struct{ Body []*Stmt }

// Stmt kinds: local set callst do while repeat if fornum forin localfn ret break goto label.
type Stmt struct {
	K       string
	L, Lu   int      // line of the first token; Lu = line of `until` (repeat only)
	Names   []string // local/forin: names; fornum/localfn/goto/label: Names[0]
	Targets []*Expr  // set: (v name) | (ix e e)
	Es      []*Expr  // local/set/forin/ret: expression list; callst/while/repeat/if: Es[0]; fornum: Es[0..2] (Es[2]==nil = none); localfn: Es[0] = fn
	Body    []*Stmt  // do/while/repeat/fornum/forin body; if: then-block
	Else    []*Stmt  // if: else-block
}

// Expr kinds: nil true false dots n s v ix call meth fn bin and or not neg len tbl par.
type Expr struct {
	K      string
	N      float64 // n
	S      string  // s: bytes; v: name; meth: method name; bin: op
	A, B   *Expr   // ix: A[B]; call: A = callee; meth: A = object; bin/and/or: A,B; not/neg/len/par: A
	Args   []*Expr // call/meth
	Fields []*Field
	Params []string // fn
	VA     bool
	Body   []*Stmt
	L, Le  int    // fn: first/last line
	Lit    string // n: optional literal spelling chosen by the generator (must denote N exactly)
}

// Field of a table constructor: Key == nil → positional.
type Field struct{ Key, Val *Expr }

// ---------- constructors ----------

func eNil() *Expr                  { return &Expr{K: "nil"} }
func eTrue() *Expr                 { return &Expr{K: "true"} }
func eFalse() *Expr                { return &Expr{K: "false"} }
func eDots() *Expr                 { return &Expr{K: "dots"} }
func eStr(s string) *Expr          { return &Expr{K: "s", S: s} }
func eV(n string) *Expr            { return &Expr{K: "v", S: n} }
func eIx(a, b *Expr) *Expr         { return &Expr{K: "ix", A: a, B: b} }
func eDot(a *Expr, n string) *Expr { return eIx(a, eStr(n)) }
func eCall(f *Expr, args ...*Expr) *Expr {
	return &Expr{K: "call", A: f, Args: args}
}
func eCallN(name string, args ...*Expr) *Expr { return eCall(eV(name), args...) }
func eMeth(o *Expr, m string, args ...*Expr) *Expr {
	return &Expr{K: "meth", A: o, S: m, Args: args}
}
func eBin(op string, a, b *Expr) *Expr { return &Expr{K: "bin", S: op, A: a, B: b} }
func eAnd(a, b *Expr) *Expr            { return &Expr{K: "and", A: a, B: b} }
func eOr(a, b *Expr) *Expr             { return &Expr{K: "or", A: a, B: b} }
func eNot(a *Expr) *Expr               { return &Expr{K: "not", A: a} }
func eNeg(a *Expr) *Expr               { return &Expr{K: "neg", A: a} }
func eLen(a *Expr) *Expr               { return &Expr{K: "len", A: a} }
func ePar(a *Expr) *Expr               { return &Expr{K: "par", A: a} }
func eBool(b bool) *Expr {
	if b {
		return eTrue()
	}
	return eFalse()
}

// eNum builds a numeric constant; negative values become (neg (n …)) so that source precedence and AST agree.
func eNum(f float64) *Expr {
	if f < 0 || (f == 0 && math.Signbit(f)) {
		return eNeg(&Expr{K: "n", N: -f})
	}
	return &Expr{K: "n", N: f}
}
func eInt(i int) *Expr               { return eNum(float64(i)) }
func eTbl(fs ...*Field) *Expr        { return &Expr{K: "tbl", Fields: fs} }
func fPos(v *Expr) *Field            { return &Field{Val: v} }
func fKey(k, v *Expr) *Field         { return &Field{Key: k, Val: v} }
func fName(n string, v *Expr) *Field { return &Field{Key: eStr(n), Val: v} }
func eFn(params []string, va bool, body []*Stmt) *Expr {
	return &Expr{K: "fn", Params: params, VA: va, Body: body}
}

func sLocal(names []string, es ...*Expr) *Stmt { return &Stmt{K: "local", Names: names, Es: es} }
func sLocal1(name string, e *Expr) *Stmt {
	if e == nil {
		return &Stmt{K: "local", Names: []string{name}}
	}
	return &Stmt{K: "local", Names: []string{name}, Es: []*Expr{e}}
}
func sSet(ts []*Expr, es []*Expr) *Stmt { return &Stmt{K: "set", Targets: ts, Es: es} }
func sSet1(t, e *Expr) *Stmt            { return sSet([]*Expr{t}, []*Expr{e}) }
func sCall(e *Expr) *Stmt               { return &Stmt{K: "callst", Es: []*Expr{e}} }
func sDo(b []*Stmt) *Stmt               { return &Stmt{K: "do", Body: b} }
func sWhile(c *Expr, b []*Stmt) *Stmt   { return &Stmt{K: "while", Es: []*Expr{c}, Body: b} }
func sRepeat(b []*Stmt, c *Expr) *Stmt  { return &Stmt{K: "repeat", Es: []*Expr{c}, Body: b} }
func sIf(c *Expr, th, el []*Stmt) *Stmt { return &Stmt{K: "if", Es: []*Expr{c}, Body: th, Else: el} }
func sForNum(n string, a, b, c *Expr, body []*Stmt) *Stmt {
	return &Stmt{K: "fornum", Names: []string{n}, Es: []*Expr{a, b, c}, Body: body}
}
func sForIn(names []string, es []*Expr, body []*Stmt) *Stmt {
	return &Stmt{K: "forin", Names: names, Es: es, Body: body}
}
func sLocalFn(n string, fn *Expr) *Stmt {
	return &Stmt{K: "localfn", Names: []string{n}, Es: []*Expr{fn}}
}
func sRet(es ...*Expr) *Stmt    { return &Stmt{K: "ret", Es: es} }
func sBreak() *Stmt             { return &Stmt{K: "break"} }
func sGoto(l string) *Stmt      { return &Stmt{K: "goto", Names: []string{l}} }
func sLabel(l string) *Stmt     { return &Stmt{K: "label", Names: []string{l}} }
func sEmit(args ...*Expr) *Stmt { return sCall(eCallN("emit", args...)) }

// ---------- S-expression serialiser ----------

func sexpNum(f float64) string { return encNum(f) }

func sexpChunk(c *Chunk) string {
	var b strings.Builder
	b.WriteString("(chunk")
	for _, s := range c.Body {
		b.WriteByte(' ')
		sexpStmt(&b, s)
	}
	b.WriteByte(')')
	return b.String()
}

func sexpBlock(b *strings.Builder, ss []*Stmt) {
	b.WriteByte('(')
	for i, s := range ss {
		if i > 0 {
			b.WriteByte(' ')
		}
		sexpStmt(b, s)
	}
	b.WriteByte(')')
}

func sexpNames(b *strings.Builder, ns []string) {
	b.WriteByte('(')
	b.WriteString(strings.Join(ns, " "))
	b.WriteByte(')')
}

func sexpExprs(b *strings.Builder, es []*Expr) {
	b.WriteByte('(')
	for i, e := range es {
		if i > 0 {
			b.WriteByte(' ')
		}
		sexpExpr(b, e)
	}
	b.WriteByte(')')
}

func sexpStmt(b *strings.Builder, s *Stmt) {
	fmt.Fprintf(b, "(%s %d", s.K, s.L)
	switch s.K {
	case "local", "forin":
		b.WriteByte(' ')
		sexpNames(b, s.Names)
		b.WriteByte(' ')
		sexpExprs(b, s.Es)
		if s.K == "forin" {
			b.WriteByte(' ')
			sexpBlock(b, s.Body)
		}
	case "set":
		b.WriteByte(' ')
		sexpExprs(b, s.Targets)
		b.WriteByte(' ')
		sexpExprs(b, s.Es)
	case "callst":
		b.WriteByte(' ')
		sexpExpr(b, s.Es[0])
	case "do":
		b.WriteByte(' ')
		sexpBlock(b, s.Body)
	case "while":
		b.WriteByte(' ')
		sexpExpr(b, s.Es[0])
		b.WriteByte(' ')
		sexpBlock(b, s.Body)
	case "repeat":
		fmt.Fprintf(b, " %d ", s.Lu)
		sexpExpr(b, s.Es[0])
		b.WriteByte(' ')
		sexpBlock(b, s.Body)
	case "if":
		b.WriteByte(' ')
		sexpExpr(b, s.Es[0])
		b.WriteByte(' ')
		sexpBlock(b, s.Body)
		b.WriteByte(' ')
		sexpBlock(b, s.Else)
	case "fornum":
		b.WriteByte(' ')
		b.WriteString(s.Names[0])
		for i := 0; i < 3; i++ {
			b.WriteByte(' ')
			if s.Es[i] == nil {
				b.WriteString("none")
			} else {
				sexpExpr(b, s.Es[i])
			}
		}
		b.WriteByte(' ')
		sexpBlock(b, s.Body)
	case "localfn":
		b.WriteByte(' ')
		b.WriteString(s.Names[0])
		b.WriteByte(' ')
		sexpExpr(b, s.Es[0])
	case "ret":
		b.WriteByte(' ')
		sexpExprs(b, s.Es)
	case "break":
	case "goto", "label":
		b.WriteByte(' ')
		b.WriteString(s.Names[0])
	default:
		panic("sexpStmt: kind " + s.K)
	}
	b.WriteByte(')')
}

func sexpExpr(b *strings.Builder, e *Expr) {
	switch e.K {
	case "nil", "true", "false", "dots":
		b.WriteString(e.K)
	case "n":
		b.WriteString("(n " + sexpNum(e.N) + ")")
	case "s":
		b.WriteString("(s " + hex.EncodeToString([]byte(e.S)) + ")")
	case "v":
		b.WriteString("(v " + e.S + ")")
	case "ix":
		b.WriteString("(ix ")
		sexpExpr(b, e.A)
		b.WriteByte(' ')
		sexpExpr(b, e.B)
		b.WriteByte(')')
	case "call":
		b.WriteString("(call ")
		sexpExpr(b, e.A)
		b.WriteByte(' ')
		sexpExprs(b, e.Args)
		b.WriteByte(')')
	case "meth":
		b.WriteString("(meth ")
		sexpExpr(b, e.A)
		b.WriteString(" " + e.S + " ")
		sexpExprs(b, e.Args)
		b.WriteByte(')')
	case "fn":
		fmt.Fprintf(b, "(fn %d %d ", e.L, e.Le)
		sexpNames(b, e.Params)
		if e.VA {
			b.WriteString(" 1 ")
		} else {
			b.WriteString(" 0 ")
		}
		sexpBlock(b, e.Body)
		b.WriteByte(')')
	case "bin":
		b.WriteString("(bin " + e.S + " ")
		sexpExpr(b, e.A)
		b.WriteByte(' ')
		sexpExpr(b, e.B)
		b.WriteByte(')')
	case "and", "or":
		b.WriteString("(" + e.K + " ")
		sexpExpr(b, e.A)
		b.WriteByte(' ')
		sexpExpr(b, e.B)
		b.WriteByte(')')
	case "not", "neg", "len", "par":
		b.WriteString("(" + e.K + " ")
		sexpExpr(b, e.A)
		b.WriteByte(')')
	case "tbl":
		b.WriteString("(tbl (")
		for i, f := range e.Fields {
			if i > 0 {
				b.WriteByte(' ')
			}
			if f.Key == nil {
				b.WriteString("(p ")
			} else {
				b.WriteString("(k ")
				sexpExpr(b, f.Key)
				b.WriteByte(' ')
			}
			sexpExpr(b, f.Val)
			b.WriteByte(')')
		}
		b.WriteString("))")
	default:
		panic("sexpExpr: kind " + e.K)
	}
}

// ---------- S-expression reader (self-test: AST → Sexp → AST → Sexp must be the identity) ----------

type sx struct {
	atom string
	list []*sx
	isL  bool
}

func sexpRead(s string) (*sx, error) {
	pos := 0
	var rd func() (*sx, error)
	skip := func() {
		for pos < len(s) && s[pos] == ' ' {
			pos++
		}
	}
	rd = func() (*sx, error) {
		skip()
		if pos >= len(s) {
			return nil, fmt.Errorf("unexpected end")
		}
		if s[pos] == '(' {
			pos++
			n := &sx{isL: true}
			for {
				skip()
				if pos >= len(s) {
					return nil, fmt.Errorf("unbalanced: missing )")
				}
				if s[pos] == ')' {
					pos++
					return n, nil
				}
				c, err := rd()
				if err != nil {
					return nil, err
				}
				n.list = append(n.list, c)
			}
		}
		if s[pos] == ')' {
			return nil, fmt.Errorf("unbalanced: stray ) at %d", pos)
		}
		st := pos
		for pos < len(s) && s[pos] != ' ' && s[pos] != '(' && s[pos] != ')' {
			pos++
		}
		return &sx{atom: s[st:pos]}, nil
	}
	n, err := rd()
	if err != nil {
		return nil, err
	}
	skip()
	if pos != len(s) {
		return nil, fmt.Errorf("trailing input at %d", pos)
	}
	return n, nil
}

type sxErr struct{ msg string }

func sxFail(f string, a ...interface{}) { panic(sxErr{fmt.Sprintf(f, a...)}) }

func (n *sx) head() string {
	if !n.isL || len(n.list) == 0 || n.list[0].isL {
		sxFail("expected (head …)")
	}
	return n.list[0].atom
}
func (n *sx) at(i int) *sx {
	if !n.isL || i >= len(n.list) {
		sxFail("missing element %d", i)
	}
	return n.list[i]
}
func (n *sx) int() int {
	if n.isL {
		sxFail("expected integer atom")
	}
	v, err := strconv.Atoi(n.atom)
	if err != nil {
		sxFail("bad integer %q", n.atom)
	}
	return v
}
func (n *sx) names() []string {
	if !n.isL {
		sxFail("expected name list")
	}
	r := []string{}
	for _, c := range n.list {
		if c.isL {
			sxFail("name list contains a list")
		}
		r = append(r, c.atom)
	}
	return r
}

// SexpToChunk parses the interchange format back into an AST.
func SexpToChunk(s string) (c *Chunk, err error) {
	defer func() {
		if r := recover(); r != nil {
			if e, ok := r.(sxErr); ok {
				c, err = nil, fmt.Errorf("sexp: %s", e.msg)
				return
			}
			panic(r)
		}
	}()
	root, err := sexpRead(s)
	if err != nil {
		return nil, err
	}
	if root.head() != "chunk" {
		sxFail("not a chunk")
	}
	return &Chunk{Body: sxStmts(root.list[1:])}, nil
}

func sxStmts(l []*sx) []*Stmt {
	r := []*Stmt{}
	for _, n := range l {
		r = append(r, sxStmt(n))
	}
	return r
}
func sxBlock(n *sx) []*Stmt {
	if !n.isL {
		sxFail("expected block")
	}
	return sxStmts(n.list)
}
func sxExprs(n *sx) []*Expr {
	if !n.isL {
		sxFail("expected expression list")
	}
	r := []*Expr{}
	for _, c := range n.list {
		r = append(r, sxExpr(c))
	}
	return r
}

func sxStmt(n *sx) *Stmt {
	k := n.head()
	s := &Stmt{K: k, L: n.at(1).int()}
	switch k {
	case "local":
		s.Names, s.Es = n.at(2).names(), sxExprs(n.at(3))
	case "forin":
		s.Names, s.Es, s.Body = n.at(2).names(), sxExprs(n.at(3)), sxBlock(n.at(4))
	case "set":
		s.Targets, s.Es = sxExprs(n.at(2)), sxExprs(n.at(3))
	case "callst":
		s.Es = []*Expr{sxExpr(n.at(2))}
	case "do":
		s.Body = sxBlock(n.at(2))
	case "while":
		s.Es, s.Body = []*Expr{sxExpr(n.at(2))}, sxBlock(n.at(3))
	case "repeat":
		s.Lu = n.at(2).int()
		s.Es, s.Body = []*Expr{sxExpr(n.at(3))}, sxBlock(n.at(4))
	case "if":
		s.Es, s.Body, s.Else = []*Expr{sxExpr(n.at(2))}, sxBlock(n.at(3)), sxBlock(n.at(4))
	case "fornum":
		s.Names = []string{n.at(2).atom}
		s.Es = []*Expr{sxExpr(n.at(3)), sxExpr(n.at(4)), nil}
		if st := n.at(5); st.isL || st.atom != "none" {
			s.Es[2] = sxExpr(st)
		}
		s.Body = sxBlock(n.at(6))
	case "localfn":
		s.Names, s.Es = []string{n.at(2).atom}, []*Expr{sxExpr(n.at(3))}
	case "ret":
		s.Es = sxExprs(n.at(2))
	case "break":
	case "goto", "label":
		s.Names = []string{n.at(2).atom}
	default:
		sxFail("unknown statement kind %q", k)
	}
	return s
}

func sxNum(tok string) float64 {
	if len(tok) < 2 {
		sxFail("bad number token %q", tok)
	}
	switch tok[0] {
	case 'i':
		f, err := strconv.ParseFloat(tok[1:], 64)
		if err != nil {
			sxFail("bad number token %q", tok)
		}
		return f
	case 'f':
		u, err := strconv.ParseUint(tok[1:], 10, 64)
		if err != nil {
			sxFail("bad number token %q", tok)
		}
		return math.Float64frombits(u)
	}
	sxFail("bad number token %q", tok)
	return 0
}

func sxExpr(n *sx) *Expr {
	if !n.isL {
		switch n.atom {
		case "nil", "true", "false", "dots":
			return &Expr{K: n.atom}
		}
		sxFail("unknown atom expression %q", n.atom)
	}
	k := n.head()
	switch k {
	case "n":
		return &Expr{K: "n", N: sxNum(n.at(1).atom)}
	case "s":
		h := ""
		if len(n.list) > 1 {
			h = n.at(1).atom
		}
		b, err := hex.DecodeString(h)
		if err != nil {
			sxFail("bad hex string")
		}
		return &Expr{K: "s", S: string(b)}
	case "v":
		return &Expr{K: "v", S: n.at(1).atom}
	case "ix":
		return &Expr{K: "ix", A: sxExpr(n.at(1)), B: sxExpr(n.at(2))}
	case "call":
		return &Expr{K: "call", A: sxExpr(n.at(1)), Args: sxExprs(n.at(2))}
	case "meth":
		return &Expr{K: "meth", A: sxExpr(n.at(1)), S: n.at(2).atom, Args: sxExprs(n.at(3))}
	case "fn":
		return &Expr{K: "fn", L: n.at(1).int(), Le: n.at(2).int(), Params: n.at(3).names(), VA: n.at(4).int() == 1, Body: sxBlock(n.at(5))}
	case "bin":
		return &Expr{K: "bin", S: n.at(1).atom, A: sxExpr(n.at(2)), B: sxExpr(n.at(3))}
	case "and", "or":
		return &Expr{K: k, A: sxExpr(n.at(1)), B: sxExpr(n.at(2))}
	case "not", "neg", "len", "par":
		return &Expr{K: k, A: sxExpr(n.at(1))}
	case "tbl":
		e := &Expr{K: "tbl"}
		fl := n.at(1)
		if !fl.isL {
			sxFail("tbl: expected field list")
		}
		for _, f := range fl.list {
			switch f.head() {
			case "p":
				e.Fields = append(e.Fields, &Field{Val: sxExpr(f.at(1))})
			case "k":
				e.Fields = append(e.Fields, &Field{Key: sxExpr(f.at(1)), Val: sxExpr(f.at(2))})
			default:
				sxFail("bad field")
			}
		}
		return e
	}
	sxFail("unknown expression kind %q", k)
	return nil
}

// ---------- skeleton (node kinds only) ----------

func skeletonChunk(c *Chunk) string {
	var b strings.Builder
	skelBlock(&b, c.Body)
	return b.String()
}
func skelBlock(b *strings.Builder, ss []*Stmt) {
	b.WriteByte('{')
	for _, s := range ss {
		b.WriteString(s.K)
		switch s.K {
		case "local", "forin":
			fmt.Fprintf(b, "%d", len(s.Names))
		case "set":
			for _, t := range s.Targets {
				skelExpr(b, t)
			}
			b.WriteByte('=')
		}
		for _, e := range s.Es {
			if e != nil {
				skelExpr(b, e)
			}
		}
		if s.Body != nil || s.K == "do" {
			skelBlock(b, s.Body)
		}
		if s.K == "if" && len(s.Else) > 0 {
			skelBlock(b, s.Else)
		}
		b.WriteByte(';')
	}
	b.WriteByte('}')
}
func skelExpr(b *strings.Builder, e *Expr) {
	b.WriteByte('(')
	switch e.K {
	case "bin":
		b.WriteString(e.S)
	case "fn":
		fmt.Fprintf(b, "fn%d", len(e.Params))
		if e.VA {
			b.WriteByte('v')
		}
	default:
		b.WriteString(e.K)
	}
	if e.A != nil {
		skelExpr(b, e.A)
	}
	if e.B != nil {
		skelExpr(b, e.B)
	}
	for _, a := range e.Args {
		skelExpr(b, a)
	}
	for _, f := range e.Fields {
		if f.Key != nil {
			b.WriteByte('k')
		}
		skelExpr(b, f.Val)
	}
	if e.K == "fn" {
		skelBlock(b, e.Body)
	}
	b.WriteByte(')')
}

// ---------- feature analysis (histogram computed from the final AST by a scope-resolving walk) ----------

type anaScope struct {
	names  map[string]int // name → function level of the declaration
	parent *anaScope
}

type analyzer struct {
	feats  map[string]int
	nst    int
	depth  int
	maxDep int
	fnLvl  int
	sc     *anaScope
}

func (a *analyzer) push()         { a.sc = &anaScope{names: map[string]int{}, parent: a.sc} }
func (a *analyzer) pop()          { a.sc = a.sc.parent }
func (a *analyzer) decl(n string) { a.sc.names[n] = a.fnLvl }
func (a *analyzer) class(n string) string {
	for s := a.sc; s != nil; s = s.parent {
		if lv, ok := s.names[n]; ok {
			if lv == a.fnLvl {
				return "local"
			}
			return "upval"
		}
	}
	return "global"
}

// storage class of an operand expression
func (a *analyzer) srcClass(e *Expr) string {
	switch e.K {
	case "v":
		return a.class(e.S)
	case "nil", "true", "false", "n", "s":
		return "const"
	case "ix":
		if e.B.K == "s" {
			return "field"
		}
		return "index"
	case "call", "meth":
		return "call"
	case "dots":
		return "dots"
	case "par":
		return "par"
	case "fn":
		return "closure"
	case "tbl":
		return "ctor"
	}
	return "expr"
}

func exprOpKind(e *Expr) string {
	switch e.K {
	case "bin":
		return e.S
	case "and", "or", "not", "neg", "len":
		return e.K
	}
	return ""
}

func (a *analyzer) dst(class string, e *Expr) {
	a.feats["dst:"+class]++
	if e != nil {
		if op := exprOpKind(e); op != "" {
			a.feats["dst:"+class+"<-"+opGroup(op)]++
		}
	}
}

func opGroup(op string) string {
	switch op {
	case "and", "or", "not":
		return "logic"
	case "eq", "ne", "lt", "le", "gt", "ge":
		return "rel"
	case "concat":
		return "concat"
	}
	return "arith"
}

func (a *analyzer) block(ss []*Stmt) {
	a.push()
	a.depth++
	if a.depth > a.maxDep {
		a.maxDep = a.depth
	}
	for _, s := range ss {
		a.stmt(s)
	}
	a.depth--
	a.pop()
}

func (a *analyzer) exprs(es []*Expr, dst string) {
	for _, e := range es {
		if e != nil {
			if dst != "" {
				a.dst(dst, e)
			}
			a.expr(e)
		}
	}
}

func (a *analyzer) stmt(s *Stmt) {
	a.nst++
	a.feats["st:"+s.K]++
	switch s.K {
	case "local":
		a.exprs(s.Es, "newlocal")
		if len(s.Names) > 1 || len(s.Es) > 1 {
			a.feats["st:local-multi"]++
		}
		for _, n := range s.Names {
			a.decl(n)
		}
	case "set":
		if len(s.Targets) > 1 {
			a.feats[fmt.Sprintf("st:set-multi%d", len(s.Targets))]++
		}
		for i, t := range s.Targets {
			var rhs *Expr
			if i < len(s.Es) {
				rhs = s.Es[i]
			}
			cl := a.srcClass(t)
			if t.K == "v" && rhs != nil && mentions(rhs, t.S) {
				a.dst(cl+"-operand", rhs)
			}
			a.dst(cl, rhs)
			if t.K == "ix" {
				a.expr(t.A)
				a.expr(t.B)
			}
		}
		a.exprs(s.Es, "")
	case "callst":
		a.expr(s.Es[0])
	case "do":
		a.block(s.Body)
	case "while":
		a.dst("cond", s.Es[0])
		a.expr(s.Es[0])
		a.block(s.Body)
	case "repeat":
		// the until-condition sees the body's locals
		a.push()
		a.depth++
		if a.depth > a.maxDep {
			a.maxDep = a.depth
		}
		for _, b := range s.Body {
			a.stmt(b)
		}
		a.dst("cond", s.Es[0])
		a.expr(s.Es[0])
		a.depth--
		a.pop()
	case "if":
		a.dst("cond", s.Es[0])
		a.expr(s.Es[0])
		a.block(s.Body)
		if len(s.Else) > 0 {
			if len(s.Else) == 1 && s.Else[0].K == "if" {
				a.feats["st:elseif"]++
			}
			a.block(s.Else)
		}
	case "fornum":
		a.exprs(s.Es, "")
		a.push()
		a.decl(s.Names[0])
		a.block(s.Body)
		a.pop()
	case "forin":
		a.exprs(s.Es, "")
		a.push()
		for _, n := range s.Names {
			a.decl(n)
		}
		a.block(s.Body)
		a.pop()
	case "localfn":
		a.decl(s.Names[0])
		a.expr(s.Es[0])
	case "ret":
		a.exprs(s.Es, "ret")
		if len(s.Es) == 1 && (s.Es[0].K == "call" || s.Es[0].K == "meth") {
			a.feats["st:tailcall"]++
		}
	}
}

func mentions(e *Expr, name string) bool {
	if e == nil {
		return false
	}
	if e.K == "v" && e.S == name {
		return true
	}
	if e.K == "fn" {
		return false
	}
	if mentions(e.A, name) || mentions(e.B, name) {
		return true
	}
	for _, x := range e.Args {
		if mentions(x, name) {
			return true
		}
	}
	for _, f := range e.Fields {
		if mentions(f.Key, name) || mentions(f.Val, name) {
			return true
		}
	}
	return false
}

func (a *analyzer) operand(e *Expr) {
	a.feats["src:"+a.srcClass(e)]++
	a.expr(e)
}

func (a *analyzer) expr(e *Expr) {
	switch e.K {
	case "v":
		a.feats["var:"+a.class(e.S)]++
	case "ix":
		a.feats["ex:index"]++
		a.expr(e.A)
		a.expr(e.B)
	case "call", "meth":
		a.feats["ex:"+e.K]++
		a.expr(e.A)
		for i, x := range e.Args {
			a.dst("arg", x)
			if i == len(e.Args)-1 && (x.K == "call" || x.K == "meth" || x.K == "dots") {
				a.feats["multi:last-arg"]++
			}
			a.expr(x)
		}
	case "fn":
		a.feats["ex:fn"]++
		if e.VA {
			a.feats["ex:fn-vararg"]++
		}
		a.fnLvl++
		a.push()
		for _, p := range e.Params {
			a.decl(p)
		}
		a.block(e.Body)
		a.pop()
		a.fnLvl--
	case "bin", "and", "or":
		a.feats["op:"+exprOpKind(e)]++
		a.operand(e.A)
		a.operand(e.B)
	case "not", "neg", "len":
		a.feats["op:"+e.K]++
		a.operand(e.A)
	case "par":
		a.feats["ex:par"]++
		a.expr(e.A)
	case "dots":
		a.feats["ex:dots"]++
	case "tbl":
		a.feats["ex:tbl"]++
		for i, f := range e.Fields {
			if f.Key != nil {
				a.expr(f.Key)
			} else if i == len(e.Fields)-1 && (f.Val.K == "call" || f.Val.K == "meth" || f.Val.K == "dots") {
				a.feats["multi:last-ctor"]++
			}
			a.dst("ctor", f.Val)
			a.expr(f.Val)
		}
	}
}

// analyzeChunk returns the feature histogram, the number of statements and the maximal block depth.
func analyzeChunk(c *Chunk) (map[string]int, int, int) {
	a := &analyzer{feats: map[string]int{}}
	a.block(c.Body)
	return a.feats, a.nst, a.maxDep
}

// ---------- conversion from gopher-lua's parser AST ----------

var reLocalFn = regexp.MustCompile(`\blocal\s+function\s+([A-Za-z_][A-Za-z0-9_]*)`)

const lfPrefix = "LF__"

// ParseLua parses Lua source with gopher-lua's parser and converts the result to the generator's AST.
// keepLocalFn: `local function f` is recognised (by a textual pre-pass) and becomes (localfn …);
// otherwise it becomes (local (f) (fn)) exactly as gopher-lua's parser represents it.
func ParseLua(src string, keepLocalFn bool) (c *Chunk, err error) {
	if keepLocalFn {
		src = reLocalFn.ReplaceAllString(src, "local function "+lfPrefix+"$1")
	}
	stmts, perr := luaparse.Parse(strings.NewReader(src), "gen")
	if perr != nil {
		return nil, perr
	}
	defer func() {
		if r := recover(); r != nil {
			c, err = nil, fmt.Errorf("convert: %v", r)
		}
	}()
	return &Chunk{Body: cvStmts(stmts)}, nil
}

// mustParse is used by templates; a failure is a generator bug.
func mustParse(src string) []*Stmt {
	c, err := ParseLua(src, true)
	if err != nil {
		panic(fmt.Sprintf("template does not parse: %v\n%s", err, src))
	}
	return c.Body
}

func cvStmts(ss []luaast.Stmt) []*Stmt {
	r := []*Stmt{}
	for _, s := range ss {
		r = append(r, cvStmt(s))
	}
	return r
}

func cvExprs(es []luaast.Expr) []*Expr {
	r := []*Expr{}
	for _, e := range es {
		r = append(r, cvExpr(e))
	}
	return r
}

func cvStmt(s luaast.Stmt) *Stmt {
	switch x := s.(type) {
	case *luaast.AssignStmt:
		return &Stmt{K: "set", L: x.Line(), Targets: cvExprs(x.Lhs), Es: cvExprs(x.Rhs)}
	case *luaast.LocalAssignStmt:
		if len(x.Names) == 1 && strings.HasPrefix(x.Names[0], lfPrefix) {
			return &Stmt{K: "localfn", L: x.Line(), Names: []string{x.Names[0][len(lfPrefix):]}, Es: cvExprs(x.Exprs)}
		}
		return &Stmt{K: "local", L: x.Line(), Names: append([]string{}, x.Names...), Es: cvExprs(x.Exprs)}
	case *luaast.FuncCallStmt:
		return &Stmt{K: "callst", L: x.Line(), Es: []*Expr{cvExpr(x.Expr)}}
	case *luaast.DoBlockStmt:
		return &Stmt{K: "do", L: x.Line(), Body: cvStmts(x.Stmts)}
	case *luaast.WhileStmt:
		return &Stmt{K: "while", L: x.Line(), Es: []*Expr{cvExpr(x.Condition)}, Body: cvStmts(x.Stmts)}
	case *luaast.RepeatStmt:
		return &Stmt{K: "repeat", L: x.Line(), Lu: x.Condition.Line(), Es: []*Expr{cvExpr(x.Condition)}, Body: cvStmts(x.Stmts)}
	case *luaast.IfStmt:
		st := &Stmt{K: "if", L: x.Line(), Es: []*Expr{cvExpr(x.Condition)}, Body: cvStmts(x.Then), Else: []*Stmt{}}
		if x.Else != nil {
			st.Else = cvStmts(x.Else)
		}
		return st
	case *luaast.NumberForStmt:
		st := &Stmt{K: "fornum", L: x.Line(), Names: []string{x.Name}, Es: []*Expr{cvExpr(x.Init), cvExpr(x.Limit), nil}, Body: cvStmts(x.Stmts)}
		if x.Step != nil {
			st.Es[2] = cvExpr(x.Step)
		}
		return st
	case *luaast.GenericForStmt:
		return &Stmt{K: "forin", L: x.Line(), Names: append([]string{}, x.Names...), Es: cvExprs(x.Exprs), Body: cvStmts(x.Stmts)}
	case *luaast.FuncDefStmt:
		fn := cvExpr(x.Func)
		fn.L = x.Line()
		var target *Expr
		if x.Name.Func != nil {
			target = cvExpr(x.Name.Func)
		} else {
			target = eIx(cvExpr(x.Name.Receiver), eStr(x.Name.Method))
			fn.Params = append([]string{"self"}, fn.Params...)
		}
		return &Stmt{K: "set", L: x.Line(), Targets: []*Expr{target}, Es: []*Expr{fn}}
	case *luaast.ReturnStmt:
		return &Stmt{K: "ret", L: x.Line(), Es: cvExprs(x.Exprs)}
	case *luaast.BreakStmt:
		return &Stmt{K: "break", L: x.Line()}
	case *luaast.LabelStmt:
		return &Stmt{K: "label", L: x.Line(), Names: []string{x.Name}}
	case *luaast.GotoStmt:
		return &Stmt{K: "goto", L: x.Line(), Names: []string{x.Label}}
	}
	panic(fmt.Sprintf("cvStmt: %T", s))
}

// parseLuaNumber converts the text of a numeric literal (as the renderer spells them) to a float64.
func parseLuaNumber(s string) float64 {
	if len(s) > 2 && (s[:2] == "0x" || s[:2] == "0X") {
		u, err := strconv.ParseUint(s[2:], 16, 64)
		if err != nil {
			panic("bad hex literal " + s)
		}
		return float64(u)
	}
	f, err := strconv.ParseFloat(s, 64)
	if err != nil {
		panic("bad numeric literal " + s)
	}
	return f
}

var relOps = map[string]string{"==": "eq", "~=": "ne", "<": "lt", "<=": "le", ">": "gt", ">=": "ge"}
var arithOps = map[string]string{"+": "add", "-": "sub", "*": "mul", "/": "div", "%": "mod", "^": "pow"}

func cvExpr(e luaast.Expr) *Expr {
	switch x := e.(type) {
	case *luaast.TrueExpr:
		return eTrue()
	case *luaast.FalseExpr:
		return eFalse()
	case *luaast.NilExpr:
		return eNil()
	case *luaast.NumberExpr:
		return &Expr{K: "n", N: parseLuaNumber(x.Value)}
	case *luaast.StringExpr:
		return eStr(x.Value)
	case *luaast.Comma3Expr:
		if x.AdjustRet {
			return ePar(eDots())
		}
		return eDots()
	case *luaast.IdentExpr:
		return eV(x.Value)
	case *luaast.AttrGetExpr:
		return eIx(cvExpr(x.Object), cvExpr(x.Key))
	case *luaast.TableExpr:
		t := &Expr{K: "tbl"}
		for _, f := range x.Fields {
			if f.Key == nil {
				t.Fields = append(t.Fields, &Field{Val: cvExpr(f.Value)})
			} else {
				t.Fields = append(t.Fields, &Field{Key: cvExpr(f.Key), Val: cvExpr(f.Value)})
			}
		}
		return t
	case *luaast.FuncCallExpr:
		var c *Expr
		if x.Func != nil {
			c = &Expr{K: "call", A: cvExpr(x.Func), Args: cvExprs(x.Args)}
		} else {
			c = &Expr{K: "meth", A: cvExpr(x.Receiver), S: x.Method, Args: cvExprs(x.Args)}
		}
		if x.AdjustRet {
			return ePar(c)
		}
		return c
	case *luaast.LogicalOpExpr:
		return &Expr{K: x.Operator, A: cvExpr(x.Lhs), B: cvExpr(x.Rhs)}
	case *luaast.RelationalOpExpr:
		return eBin(relOps[x.Operator], cvExpr(x.Lhs), cvExpr(x.Rhs))
	case *luaast.StringConcatOpExpr:
		return eBin("concat", cvExpr(x.Lhs), cvExpr(x.Rhs))
	case *luaast.ArithmeticOpExpr:
		return eBin(arithOps[x.Operator], cvExpr(x.Lhs), cvExpr(x.Rhs))
	case *luaast.UnaryMinusOpExpr:
		return eNeg(cvExpr(x.Expr))
	case *luaast.UnaryNotOpExpr:
		return eNot(cvExpr(x.Expr))
	case *luaast.UnaryLenOpExpr:
		return eLen(cvExpr(x.Expr))
	case *luaast.FunctionExpr:
		return &Expr{K: "fn", L: x.Line(), Le: x.LastLine(), Params: append([]string{}, x.ParList.Names...), VA: x.ParList.HasVargs, Body: cvStmts(x.Stmts)}
	}
	panic(fmt.Sprintf("cvExpr: %T", e))
}

// normaliseForParser rewrites an AST into the form gopher-lua's parser can produce, so that
// "Src parsed back" can be compared with the generator's AST: localfn → local with one fn,
// (par e) kept only around call/meth/dots (the only places where the parser records parentheses).
func normaliseForParser(c *Chunk) *Chunk {
	return &Chunk{Body: normStmts(c.Body)}
}
func normStmts(ss []*Stmt) []*Stmt {
	r := []*Stmt{}
	for _, s := range ss {
		n := *s
		if n.K == "localfn" {
			n.K = "local"
		}
		if n.K == "repeat" {
			n.Lu = -1
		}
		n.Targets = normExprs(s.Targets)
		n.Es = normExprs(s.Es)
		if s.Body != nil {
			n.Body = normStmts(s.Body)
		}
		if s.Else != nil {
			n.Else = normStmts(s.Else)
		}
		r = append(r, &n)
	}
	return r
}
func normExprs(es []*Expr) []*Expr {
	if es == nil {
		return nil
	}
	r := make([]*Expr, len(es))
	for i, e := range es {
		r[i] = normExpr(e)
	}
	return r
}
func normExpr(e *Expr) *Expr {
	if e == nil {
		return nil
	}
	if e.K == "par" {
		in := normExpr(e.A)
		if in.K == "call" || in.K == "meth" || in.K == "dots" {
			return ePar(in)
		}
		return in
	}
	n := *e
	n.Lit = ""
	n.A, n.B = normExpr(e.A), normExpr(e.B)
	n.Args = normExprs(e.Args)
	if e.Fields != nil {
		n.Fields = nil
		for _, f := range e.Fields {
			n.Fields = append(n.Fields, &Field{Key: normExpr(f.Key), Val: normExpr(f.Val)})
		}
	}
	if e.K == "fn" {
		n.Body = normStmts(e.Body)
	}
	return &n
}

// walkStmts calls f on every statement (pre-order), descending into function bodies.
func walkStmts(ss []*Stmt, f func(*Stmt)) {
	var we func(e *Expr)
	we = func(e *Expr) {
		if e == nil {
			return
		}
		we(e.A)
		we(e.B)
		for _, a := range e.Args {
			we(a)
		}
		for _, fl := range e.Fields {
			we(fl.Key)
			we(fl.Val)
		}
		if e.K == "fn" {
			walkStmts(e.Body, f)
		}
	}
	for _, s := range ss {
		f(s)
		for _, t := range s.Targets {
			we(t)
		}
		for _, e := range s.Es {
			we(e)
		}
		walkStmts(s.Body, f)
		walkStmts(s.Else, f)
	}
}

// walkExprs calls f on every expression node of the program.
func walkExprs(ss []*Stmt, f func(*Expr)) {
	var we func(e *Expr)
	we = func(e *Expr) {
		if e == nil {
			return
		}
		f(e)
		we(e.A)
		we(e.B)
		for _, a := range e.Args {
			we(a)
		}
		for _, fl := range e.Fields {
			we(fl.Key)
			we(fl.Val)
		}
		if e.K == "fn" {
			walkExprs(e.Body, f)
		}
	}
	for _, s := range ss {
		for _, t := range s.Targets {
			we(t)
		}
		for _, e := range s.Es {
			we(e)
		}
		walkExprs(s.Body, f)
		walkExprs(s.Else, f)
	}
}
