package main

// Program generator — statement groups of the core language, and the deliberate fault sites.

import (
	"fmt"
)

func init() {
	regGroup("local", "", false, false, (*gen).grpLocal)
	regGroup("assign", "", false, false, (*gen).grpAssign)
	regGroup("multiassign", "multiassign", false, false, (*gen).grpMultiAssign)
	regGroup("logic", "logic", false, false, (*gen).grpLogic)
	regGroup("if", "if", true, false, (*gen).grpIf)
	regGroup("while", "while", true, false, (*gen).grpWhile)
	regGroup("repeat", "repeat", true, false, (*gen).grpRepeat)
	regGroup("fornum", "fornum", true, false, (*gen).grpForNum)
	regGroup("forin", "forin", true, false, (*gen).grpForIn)
	regGroup("goto", "goto", true, false, (*gen).grpGoto)
	regGroup("do", "shadow", true, false, (*gen).grpDo)
	regGroup("localfn", "localfn", true, false, (*gen).grpLocalFn)
	regGroup("table", "tables", false, false, (*gen).grpTable)
	regGroup("string", "strings", false, false, (*gen).grpString)
	regGroup("cmpchain", "cmpchain", false, false, (*gen).grpCmpChain)
	regGroup("callfn", "localfn", false, false, (*gen).grpCallFn)
	regGroup("coerce", "coerce", false, false, (*gen).grpCoerce)
	regGroup("breakloop", "break", true, false, (*gen).grpBreakLoop)
}

func defaultMag(ty Ty) float64 {
	if ty == TStr {
		return 64
	}
	return 1000
}

// newVar declares a variable of type ty (local, or global with some probability) initialised by init.
func (g *gen) newVar(ty Ty, init *Expr, allowGlobal bool) (*vinfo, *Stmt) {
	v := &vinfo{ty: ty, mag: defaultMag(ty)}
	if allowGlobal && g.feat("globals") && len(g.scopes) == 1 && g.r.Chance(25) {
		v.global = true
		v.name = g.fresh("G")
		g.declare(v)
		return v, sSet1(eV(v.name), init)
	}
	v.name = g.freshLocal()
	if g.feat("shadow") && g.r.Chance(8) {
		// deliberately shadow a visible local of any type
		if vs := g.varsWhere(func(x *vinfo) bool { return !x.global && !x.ro && x.ty != TFn }); len(vs) > 0 {
			v.name = Pick(g.r, vs).name
		}
	}
	st := sLocal1(v.name, init) // the initialiser was generated BEFORE the declaration: it sees the outer variable
	g.declare(v)
	return v, st
}

func (g *gen) grpLocal(d int) []*Stmt {
	if g.r.Chance(30) {
		// multiple declaration, possibly with fewer/more expressions than names
		k := g.r.Range(2, 3)
		var tys []Ty
		var es []*Expr
		for i := 0; i < k; i++ {
			ty := Pick(g.r, []Ty{TInt, TInt, TStr, TBool, TNum})
			tys = append(tys, ty)
			es = append(es, g.expr(ty, 2, defaultMag(ty)))
		}
		names := make([]string, k)
		switch g.r.Intn(5) {
		case 0: // fewer expressions: the last names are nil → typed "any"
			es = es[:k-1]
			tys[k-1] = TAny
		case 1: // one extra expression (evaluated, discarded)
			es = append(es, g.anyExpr(1))
		}
		var vs []*vinfo
		for i := 0; i < k; i++ {
			names[i] = g.freshLocal()
			vs = append(vs, &vinfo{name: names[i], ty: tys[i], mag: defaultMag(tys[i])})
		}
		for _, v := range vs {
			g.declare(v)
		}
		g.touch(vs...)
		return []*Stmt{sLocal(names, es...)}
	}
	ty := Pick(g.r, []Ty{TInt, TInt, TInt, TStr, TStr, TBool, TNum, TAny, TNil})
	var init *Expr
	if ty == TNil && g.r.Bool() {
		v := &vinfo{name: g.freshLocal(), ty: TNil}
		g.declare(v)
		g.touch(v)
		return []*Stmt{sLocal1(v.name, nil)}
	}
	init = g.expr(ty, 3, defaultMag(ty))
	v, st := g.newVar(ty, init, true)
	g.touch(v)
	return []*Stmt{st}
}

// target picks an assignable place of type ty: a variable, or a typed table slot.
func (g *gen) target(ty Ty, exclude map[string]bool) (*Expr, *vinfo, string) {
	if g.feat("tables") && g.r.Chance(25) && (ty == TInt || ty == TStr || ty == TBool) {
		ts := g.varsWhere(func(v *vinfo) bool { return v.ty == TTbl && v.tbl != nil && !v.tbl.bag })
		if len(ts) > 0 {
			t := Pick(g.r, ts)
			if ty == TInt && t.tbl.n > 0 && g.r.Bool() {
				i := g.r.Range(1, t.tbl.n)
				key := fmt.Sprintf("%s[%d]", t.name, i)
				if !exclude[key] {
					return eIx(eV(t.name), eInt(i)), t, key
				}
			}
			for _, f := range t.tbl.fields {
				key := t.name + "." + f.name
				if f.ty == ty && !exclude[key] && f.mag == defaultMag(ty) {
					return eDot(eV(t.name), f.name), t, key
				}
			}
		}
	}
	vs := g.assignable(ty)
	var ok []*vinfo
	for _, v := range vs {
		if !exclude[v.name] && (v.mag == defaultMag(ty) || ty == TAny || ty == TBool) {
			ok = append(ok, v)
		}
	}
	if len(ok) == 0 {
		return nil, nil, ""
	}
	v := Pick(g.r, ok)
	return eV(v.name), v, v.name
}

func (g *gen) grpAssign(d int) []*Stmt {
	ty := Pick(g.r, []Ty{TInt, TInt, TInt, TStr, TBool, TNum, TAny})
	t, v, _ := g.target(ty, nil)
	if t == nil {
		return nil
	}
	g.touch(v)
	var e *Expr
	if ty == TAny {
		e = g.anyExpr(2)
	} else {
		e = g.expr(ty, 3, defaultMag(ty))
	}
	return []*Stmt{sSet1(t, e)}
}

// grpMultiAssign: evaluation-order sensitive shapes — swap, rotate, targets that are also operands, mixed target kinds.
// Targets are always distinct places.
func (g *gen) grpMultiAssign(d int) []*Stmt {
	ty := Pick(g.r, []Ty{TInt, TInt, TInt, TStr, TBool})
	k := g.r.Range(2, 3)
	excl := map[string]bool{}
	var ts []*Expr
	var vs []*vinfo
	for i := 0; i < k; i++ {
		t, v, key := g.target(ty, excl)
		if t == nil {
			break
		}
		excl[key] = true
		// a table that is a target base must not be reassigned … tables are never assignable, fine
		ts = append(ts, t)
		vs = append(vs, v)
	}
	if len(ts) < 2 {
		return nil
	}
	k = len(ts)
	var es []*Expr
	switch g.r.Intn(4) {
	case 0: // rotate / swap: the targets themselves, rotated
		for i := 0; i < k; i++ {
			es = append(es, cloneExpr(ts[(i+1)%k]))
		}
	case 1: // every right-hand side mentions some target
		for i := 0; i < k; i++ {
			o := cloneExpr(ts[g.r.Intn(k)])
			switch ty {
			case TInt:
				es = append(es, eBin(Pick(g.r, []string{"add", "sub"}), o, g.intLit(9)))
				// keep the declared bound: |target| ≤ 1000 is restored by a modulo
				es[i] = eBin("mod", es[i], eInt(1000))
			case TStr:
				es = append(es, eCall(eDot(eV("string"), "sub"), eBin("concat", o, g.strAtom(4)), eInt(1), eInt(8)))
			default:
				es = append(es, eNot(o))
			}
		}
	default:
		for i := 0; i < k; i++ {
			if g.r.Chance(50) {
				es = append(es, cloneExpr(ts[g.r.Intn(k)]))
			} else {
				es = append(es, g.expr(ty, 2, defaultMag(ty)))
			}
		}
		if g.r.Chance(15) {
			es = append(es, g.anyExpr(1)) // extra value, discarded
		}
	}
	g.touch(vs...)
	// shapes the pinned tree is known to compile wrongly. kdv: = wrong VALUES only (no exemption in the self-test);
	// kd: = the wrong value may have another type (a key string leaks into a target when ≥ 3 mixed targets include a
	// table slot), so a later well-typed operation may fail.
	g.kd["kdv:multiassign"]++
	if k >= 3 {
		slot := false
		for _, t := range ts {
			if t.K == "ix" {
				slot = true
			}
		}
		if slot {
			g.kd["kd:multiassign-mixed3"]++
		}
	}
	return []*Stmt{sSet(ts, es)}
}

func cloneExpr(e *Expr) *Expr {
	if e == nil {
		return nil
	}
	n := *e
	n.A, n.B = cloneExpr(e.A), cloneExpr(e.B)
	if e.Args != nil {
		n.Args = make([]*Expr, len(e.Args))
		for i, a := range e.Args {
			n.Args[i] = cloneExpr(a)
		}
	}
	if e.Fields != nil {
		n.Fields = nil
		for _, f := range e.Fields {
			n.Fields = append(n.Fields, &Field{Key: cloneExpr(f.Key), Val: cloneExpr(f.Val)})
		}
	}
	if e.K == "fn" {
		n.Body = cloneStmts(e.Body)
	}
	return &n
}

func cloneStmts(ss []*Stmt) []*Stmt {
	if ss == nil {
		return nil
	}
	r := make([]*Stmt, len(ss))
	for i, s := range ss {
		n := *s
		n.Names = append([]string{}, s.Names...)
		n.Targets = nil
		for _, t := range s.Targets {
			n.Targets = append(n.Targets, cloneExpr(t))
		}
		n.Es = nil
		for _, e := range s.Es {
			n.Es = append(n.Es, cloneExpr(e))
		}
		n.Body = cloneStmts(s.Body)
		n.Else = cloneStmts(s.Else)
		r[i] = &n
	}
	return r
}

// anyLocal returns an existing assignable "any" variable, or declares one (statement returned).
func (g *gen) anyLocal() (*vinfo, *Stmt) {
	if vs := g.assignable(TAny); len(vs) > 0 && g.r.Chance(80) {
		return Pick(g.r, vs), nil
	}
	v := &vinfo{name: g.freshLocal(), ty: TAny}
	st := sLocal1(v.name, Pick(g.r, []*Expr{eInt(0), eStr("old"), eTrue(), eInt(5)}))
	g.declare(v)
	return v, st
}

// grpLogic: a logical-operator tree delivered into every kind of destination.
func (g *gen) grpLogic(d int) []*Stmt {
	var out []*Stmt
	tree := g.logicTree(g.r.Range(1, 3))
	if tree.K != "and" && tree.K != "or" && tree.K != "not" {
		tree = Pick(g.r, []func(a, b *Expr) *Expr{eAnd, eOr})(tree, g.logicTree(1))
	}
	switch g.r.Intn(9) {
	case 0: // new local
		v := &vinfo{name: g.freshLocal(), ty: TAny}
		out = append(out, sLocal1(v.name, tree))
		g.declare(v)
		g.touch(v)
	case 1, 2: // existing local
		v, st := g.anyLocal()
		if st != nil {
			out = append(out, st)
		}
		out = append(out, sSet1(eV(v.name), tree))
		g.touch(v)
	case 3, 4: // a local that is also an operand
		v, st := g.anyLocal()
		if st != nil {
			out = append(out, st)
		}
		op := Pick(g.r, []func(a, b *Expr) *Expr{eAnd, eOr})
		var e *Expr
		if g.r.Bool() {
			e = op(tree, eV(v.name))
		} else {
			e = op(eV(v.name), tree)
		}
		if g.r.Chance(30) {
			e = Pick(g.r, []func(a, b *Expr) *Expr{eAnd, eOr})(ePar0(e), eV(v.name))
		}
		out = append(out, sSet1(eV(v.name), e))
		g.touch(v)
	case 5: // global
		name := "GL"
		found := false
		for _, x := range g.globals {
			if x.name == name {
				found = true
			}
		}
		if !found {
			g.declare(&vinfo{name: name, ty: TAny, global: true})
		}
		out = append(out, sSet1(eV(name), tree), sEmit(g.emitTag(), eV(name)))
	case 6: // table field / index of a bag
		b, st := g.bagTable()
		out = append(out, st...)
		if g.r.Bool() {
			out = append(out, sSet1(eDot(eV(b.name), "lv"), tree), sEmit(g.emitTag(), eDot(eV(b.name), "lv")))
		} else {
			out = append(out, sSet1(eIx(eV(b.name), eStr("k"+fmt.Sprint(g.r.Intn(3)))), tree))
		}
	case 7: // argument
		out = append(out, sEmit(g.emitTag(), tree))
		if g.r.Bool() {
			out = append(out, sEmit(g.emitTag(), eCallN("type", cloneExpr(tree)), eNot(eNot(cloneExpr(tree)))))
		}
	case 8: // return value (of an immediately called function) / condition
		if g.r.Bool() {
			fn := eFn(nil, false, []*Stmt{sRet(tree)})
			out = append(out, sEmit(g.emitTag(), eCall(ePar0(fn))))
		} else {
			v, st := g.anyLocal()
			if st != nil {
				out = append(out, st)
			}
			out = append(out, sIf(tree, []*Stmt{sSet1(eV(v.name), eInt(1))}, []*Stmt{sSet1(eV(v.name), eInt(2))}))
			g.touch(v)
		}
	}
	return out
}

// ePar0 is a no-op marker: the renderer parenthesises by precedence, a (par e) node is only meaningful around
// multi-value expressions. Kept as a function so call sites read naturally.
func ePar0(e *Expr) *Expr { return e }

// bagTable returns a visible untyped table, declaring one when needed.
func (g *gen) bagTable() (*vinfo, []*Stmt) {
	if vs := g.varsWhere(func(v *vinfo) bool { return v.ty == TTbl && v.tbl != nil && v.tbl.bag }); len(vs) > 0 {
		return Pick(g.r, vs), nil
	}
	v := &vinfo{name: g.fresh("bag"), ty: TTbl, tbl: &tshape{bag: true}, ro: true}
	st := sLocal1(v.name, eTbl())
	g.declare(v)
	return v, []*Stmt{st}
}

func (g *gen) grpIf(d int) []*Stmt {
	st := sIf(g.condExpr(2), g.block(g.smallN(), d), []*Stmt{})
	cur := st
	for k := g.r.Intn(3); k > 0; k-- { // elseif chain
		nx := sIf(g.condExpr(2), g.block(g.smallN(), d), []*Stmt{})
		cur.Else = []*Stmt{nx}
		cur = nx
	}
	if g.r.Chance(55) {
		cur.Else = g.block(g.smallN(), d)
	}
	return []*Stmt{st}
}

// loopBody: body of a bounded loop executing `trips` times.
func (g *gen) loopBody(trips, d int, pre []*Stmt, obs ...*Expr) []*Stmt {
	saved := g.mult
	g.mult *= trips
	g.loops++
	body := append([]*Stmt{}, pre...)
	if len(obs) > 0 {
		body = append(body, sEmit(append([]*Expr{g.emitTag()}, obs...)...))
	}
	body = append(body, g.block(g.smallN(), d)...)
	g.loops--
	g.mult = saved
	return body
}

func (g *gen) trips() int {
	t := g.r.Range(1, 4)
	for t > 1 && !g.room(t*14) {
		t--
	}
	return t
}

func (g *gen) counter(t int) (*vinfo, *Stmt) {
	c := &vinfo{name: g.fresh("c"), ty: TInt, mag: 8, ro: true}
	st := sLocal1(c.name, eInt(t))
	g.declare(c)
	return c, st
}

func dec(c *vinfo) *Stmt { return sSet1(eV(c.name), eBin("sub", eV(c.name), eInt(1))) }

func (g *gen) grpWhile(d int) []*Stmt {
	if !g.room(30) {
		return nil
	}
	t := g.trips()
	c, decl := g.counter(t)
	var cond *Expr = eBin("gt", eV(c.name), eInt(0))
	if g.r.Chance(25) {
		cond = eAnd(cond, eNot(eFalse()))
	} else if g.r.Chance(20) {
		cond = eBin("ne", eV(c.name), eInt(0))
	}
	g.push(false)
	body := g.loopBody(t, d, []*Stmt{dec(c)}, eV(c.name))
	g.pop()
	return []*Stmt{decl, sWhile(cond, body)}
}

func (g *gen) grpRepeat(d int) []*Stmt {
	if !g.room(30) {
		return nil
	}
	t := g.trips()
	c, decl := g.counter(t)
	g.push(false)
	body := g.loopBody(t, d, []*Stmt{dec(c)}, eV(c.name))
	var cond *Expr
	if g.r.Bool() {
		// the until-condition sees a local of the body
		dn := g.fresh("done")
		body = append(body, sLocal1(dn, eBin("le", eV(c.name), eInt(0))))
		cond = eV(dn)
		if g.r.Chance(30) {
			cond = eOr(eV(dn), eBin("lt", eV(c.name), eInt(0)))
		}
	} else {
		cond = eBin("le", eV(c.name), eInt(0))
	}
	g.pop()
	return []*Stmt{decl, sRepeat(body, cond)}
}

func (g *gen) grpForNum(d int) []*Stmt {
	if !g.room(30) {
		return nil
	}
	var a, b, st float64
	hasStep := true
	switch g.r.Intn(7) {
	case 0:
		a, b, st = 1, float64(g.r.Range(1, 4)), 1
		hasStep = false
	case 1:
		a, b, st = float64(g.r.Range(3, 5)), float64(g.r.Range(1, 2)), -1
	case 2:
		a, b, st = 1, 2, 0.5
	case 3:
		a, b, st = float64(g.r.Range(2, 5)), 1, 1 // zero-trip
	case 4:
		a, b, st = float64(g.r.Range(0, 2)), float64(g.r.Range(5, 9)), float64(g.r.Range(2, 3))
	case 5:
		a, b, st = 1, 0, -1 // 1, 0
	default:
		a, b, st = float64(g.r.Range(-2, 1)), float64(g.r.Range(1, 3)), 1
	}
	trips := 0
	if st > 0 && a <= b || st < 0 && a >= b {
		trips = int((b-a)/st) + 1
	}
	if trips > 1 && !g.room(trips*14) {
		return nil
	}
	ty := TInt
	if st != float64(int(st)) {
		ty = TNum
	}
	iv := &vinfo{name: Pick(g.r, []string{"i", "j", "k", "n"}) + fmt.Sprint(g.uniq+1), ty: ty, mag: 16}
	g.uniq++
	g.push(false)
	g.declare(iv)
	var pre []*Stmt
	if g.r.Chance(20) {
		// modifying the loop variable in the body only changes the body's copy
		pre = append(pre, sEmit(g.emitTag(), eV(iv.name)), sSet1(eV(iv.name), eBin("add", eV(iv.name), eInt(g.r.Range(1, 3)))))
		iv.mag = 32
	}
	tr := trips
	if tr < 1 {
		tr = 1
	}
	body := g.loopBody(tr, d, pre, eV(iv.name))
	g.pop()
	var stepE *Expr
	if hasStep {
		stepE = eNum(st)
	}
	ea, eb := eNum(a), eNum(b)
	if g.r.Chance(20) {
		if v := g.pickVar(TInt, 4); v == nil {
			// bounds from expressions: #string
			eb = eLen(eStr("abc"[:int(minf(b, 3))]))
			if b > 3 || b < 0 {
				eb = eNum(b)
			}
		}
	}
	return []*Stmt{sForNum(iv.name, ea, eb, stepE, body)}
}

func minf(a, b float64) float64 {
	if a < b {
		return a
	}
	return b
}

func (g *gen) grpForIn(d int) []*Stmt {
	if !g.room(40) {
		return nil
	}
	var out []*Stmt
	if g.r.Chance(55) && g.feat("tables") {
		// ipairs over a typed table or a constructor
		var te *Expr
		n := 0
		if t := g.pickVar(TTbl, 0); t != nil && !t.tbl.bag && t.tbl.n > 0 && g.r.Chance(70) {
			te, n = eV(t.name), t.tbl.n
		} else {
			n = g.r.Range(0, 3)
			var fs []*Field
			for i := 0; i < n; i++ {
				fs = append(fs, fPos(g.intLit(50)))
			}
			te = eTbl(fs...)
		}
		if n > 1 && !g.room(n*14) {
			return nil
		}
		iv := &vinfo{name: g.fresh("i"), ty: TInt, mag: 8}
		vv := &vinfo{name: g.fresh("v"), ty: TInt, mag: 1000}
		g.push(false)
		g.declare(iv)
		g.declare(vv)
		tr := n
		if tr < 1 {
			tr = 1
		}
		body := g.loopBody(tr, d, nil, eV(iv.name), eV(vv.name))
		g.pop()
		return []*Stmt{sForIn([]string{iv.name, vv.name}, []*Expr{eCallN("ipairs", te)}, body)}
	}
	// closure iterator: counts k = 1..n, returns k, k*m; ends with nil
	n := g.r.Range(1, 3)
	if n > 1 && !g.room(n*18) {
		n = 1
	}
	itn := g.fresh("iter")
	m := g.r.Range(2, 5)
	out = append(out, tpl(`local function %s(n)
  local k = 0
  return function()
    k = k + 1
    if k <= n then return k, k * %d end
  end
end`, itn, m)...)
	g.declare(&vinfo{name: itn, ty: TFn, ro: true})
	iv := &vinfo{name: g.fresh("i"), ty: TInt, mag: 8}
	vv := &vinfo{name: g.fresh("v"), ty: TInt, mag: 32}
	g.push(false)
	g.declare(iv)
	g.declare(vv)
	body := g.loopBody(n, d, nil, eV(iv.name), eV(vv.name))
	g.pop()
	out = append(out, sForIn([]string{iv.name, vv.name}, []*Expr{eCallN(itn, eInt(n))}, body))
	return out
}

// grpBreakLoop: a loop left by break at some depth.
func (g *gen) grpBreakLoop(d int) []*Stmt {
	if !g.room(40) {
		return nil
	}
	t := g.r.Range(2, 4)
	iv := &vinfo{name: g.fresh("i"), ty: TInt, mag: 8}
	g.push(false)
	g.declare(iv)
	at := g.r.Range(1, t)
	brk := sIf(eBin(Pick(g.r, []string{"ge", "eq"}), eV(iv.name), eInt(at)), []*Stmt{sEmit(g.emitTag(), eV(iv.name)), sBreak()}, []*Stmt{})
	var inner []*Stmt
	switch g.r.Intn(3) {
	case 0:
		inner = []*Stmt{brk}
	case 1:
		inner = []*Stmt{sDo([]*Stmt{brk})}
	default:
		inner = []*Stmt{sIf(g.condOrTrue(), []*Stmt{brk}, []*Stmt{sDo([]*Stmt{cloneStmts([]*Stmt{brk})[0]})})}
	}
	body := g.loopBody(at, d, append([]*Stmt{sEmit(g.emitTag(), eV(iv.name))}, inner...))
	g.pop()
	if g.r.Bool() {
		return []*Stmt{sForNum(iv.name, eInt(1), eInt(t), nil, body)}
	}
	// while true … break
	c := iv
	pre := []*Stmt{sLocal1(c.name, eInt(0))}
	body = append([]*Stmt{sSet1(eV(c.name), eBin("add", eV(c.name), eInt(1)))}, body...)
	return append(pre, sWhile(eTrue(), body))
}

func (g *gen) condOrTrue() *Expr {
	if g.r.Bool() {
		return g.boolExpr(1)
	}
	return eTrue()
}

// grpGoto: continue pattern, forward jump out of nested blocks, backward loop. A label is never inside the scope of a
// local declared after the goto (bodies are wrapped in do … end).
func (g *gen) grpGoto(d int) []*Stmt {
	if !g.room(40) {
		return nil
	}
	switch g.r.Intn(3) {
	case 0: // continue
		t := g.r.Range(2, 4)
		iv := &vinfo{name: g.fresh("i"), ty: TInt, mag: 8}
		lbl := g.fresh("cont")
		g.push(false)
		g.declare(iv)
		skip := sIf(eBin("eq", eBin("mod", eV(iv.name), eInt(2)), eInt(g.r.Intn(2))), []*Stmt{sGoto(lbl)}, []*Stmt{})
		inner := append([]*Stmt{skip}, g.loopBody(t, d, nil, eV(iv.name))...)
		g.pop()
		body := []*Stmt{sDo(inner), sLabel(lbl)}
		return []*Stmt{sForNum(iv.name, eInt(1), eInt(t), nil, body)}
	case 1: // forward jump out of nested blocks
		lbl := g.fresh("out")
		v, st := g.anyLocal()
		var out []*Stmt
		if st != nil {
			out = append(out, st)
		}
		inner := []*Stmt{sSet1(eV(v.name), eInt(g.r.Range(1, 9))),
			sIf(g.condOrTrue(), []*Stmt{sDo([]*Stmt{sEmit(g.emitTag(), eV(v.name)), sGoto(lbl)})}, []*Stmt{}),
			sSet1(eV(v.name), eStr("not skipped"))}
		out = append(out, sDo(inner), sLabel(lbl))
		g.touch(v)
		return out
	default: // backward loop
		t := g.trips()
		c, decl := g.counter(t)
		lbl := g.fresh("top")
		g.push(false)
		inner := g.loopBody(t, d, nil, eV(c.name))
		g.pop()
		return []*Stmt{decl, sLabel(lbl), dec(c), sDo(inner), sIf(eBin("gt", eV(c.name), eInt(0)), []*Stmt{sGoto(lbl)}, []*Stmt{})}
	}
}

func (g *gen) grpDo(d int) []*Stmt {
	g.push(false)
	var body []*Stmt
	// shadow a visible local with a new one of another type, use it, leave the block
	if vs := g.varsWhere(func(x *vinfo) bool { return !x.global && !x.ro && x.ty != TFn && x.ty != TTbl }); len(vs) > 0 && g.r.Chance(70) {
		o := Pick(g.r, vs)
		ty := Pick(g.r, []Ty{TInt, TStr, TBool})
		var init *Expr
		if ty == o.ty && g.r.Bool() {
			init = eV(o.name) // local x = x
		} else {
			init = g.expr(ty, 2, defaultMag(ty))
		}
		nv := &vinfo{name: o.name, ty: ty, mag: defaultMag(ty)}
		body = append(body, sLocal1(o.name, init))
		g.declare(nv)
		g.touch(nv)
		body = append(body, g.emitState())
		defer g.touch(o)
	}
	g.depth++
	for i := g.smallN(); i > 0; i-- {
		body = append(body, g.group(d-1)...)
	}
	g.depth--
	g.pop()
	return []*Stmt{sDo(body)}
}

// ---------- functions ----------

// genFunction builds a strict typed function; the body may read/write outer variables (upvalues).
func (g *gen) genFunction(name string, recursive bool, d int) (*Expr, *fsig) {
	sig := &fsig{}
	np := g.r.Range(0, 3)
	for i := 0; i < np; i++ {
		sig.params = append(sig.params, Pick(g.r, []Ty{TInt, TInt, TStr}))
	}
	for k := g.r.Range(0, 2); k > 0; k-- {
		sig.rets = append(sig.rets, Pick(g.r, []Ty{TInt, TInt, TStr, TBool}))
	}
	if g.feat("varargs") && g.r.Chance(40) {
		sig.va = true
	}
	savedSteps, savedMult, savedVA, savedLoops := g.steps, g.mult, g.vararg, g.loops
	g.mult, g.vararg, g.loops = 1, sig.va, 0
	g.fnLvl++
	g.push(true)
	var params []string
	var obs []*Expr
	for _, pt := range sig.params {
		p := &vinfo{name: g.fresh("p"), ty: pt, mag: 100}
		if pt == TStr {
			p.mag = 16
		}
		g.declare(p)
		params = append(params, p.name)
		obs = append(obs, eV(p.name))
	}
	if sig.va {
		obs = append(obs, eCallN("select", eStr("#"), eDots()))
	}
	body := []*Stmt{sEmit(append([]*Expr{g.emitTag()}, obs...)...)}
	if !g.feat("upvals") {
		// hide outer locals: nothing to do cheaply; upvalue access stays possible but unweighted
	}
	g.depth++
	for i := g.r.Range(0, 2); i > 0; i-- {
		body = append(body, g.group(minInt(d-1, 2))...)
	}
	if len(sig.rets) > 0 && g.r.Chance(30) {
		// early return of the same shape
		body = append(body, sIf(g.boolExpr(1), []*Stmt{sRet(g.retExprs(sig)...)}, []*Stmt{}))
	}
	body = append(body, sRet(g.retExprs(sig)...))
	g.depth--
	g.pop()
	g.fnLvl--
	sig.cost = g.steps - savedSteps + 3
	g.steps, g.mult, g.vararg, g.loops = savedSteps, savedMult, savedVA, savedLoops
	_ = recursive
	return eFn(params, sig.va, body), sig
}

func (g *gen) retExprs(sig *fsig) []*Expr {
	var r []*Expr
	for _, t := range sig.rets {
		m := 1e6
		if t == TStr {
			m = 64
		}
		r = append(r, g.expr(t, 2, m))
	}
	return r
}

func minInt(a, b int) int {
	if a < b {
		return a
	}
	return b
}

func (g *gen) grpLocalFn(d int) []*Stmt {
	if g.fnLvl >= 2 {
		return nil
	}
	if g.r.Chance(30) {
		// recursion on a decreasing counter: sum / factorial-like / string building
		fn := g.fresh("rec")
		n := g.r.Range(0, 5)
		var st []*Stmt
		switch g.r.Intn(3) {
		case 0:
			st = tpl(`local function %s(n)
  if n <= 0 then return 0 end
  return n + %s(n - 1)
end`, fn, fn)
		case 1:
			st = tpl(`local function %s(n, acc)
  emit(%d, n, acc)
  if n <= 0 then return acc end
  return %s(n - 1, acc + n * 2)
end`, fn, g.nextEmit(), fn)
		default:
			st = tpl(`local function %s(n)
  if n <= 1 then return "x" end
  return %s(n - 1) .. n
end`, fn, fn)
		}
		g.declare(&vinfo{name: fn, ty: TFn, ro: true})
		g.cost(n * 6)
		st = append(st, sEmit(g.emitTag(), eCallN(fn, eInt(n), eInt(0))))
		return st
	}
	name := g.fresh("fn")
	var out []*Stmt
	form := g.r.Intn(3)
	fv := &vinfo{name: name, ty: TFn, ro: true}
	if form == 0 {
		// local function: the name is in scope inside the body
		g.declare(fv)
	}
	fe, sig := g.genFunction(name, false, d)
	fv.fn = sig
	switch form {
	case 0:
		out = append(out, sLocalFn(name, fe))
	case 1:
		out = append(out, sLocal1(name, fe))
		g.declare(fv)
	default:
		if g.feat("globals") && len(g.scopes) == 1 {
			fv.global = true
			fv.name = g.fresh("GF")
			out = append(out, sSet1(eV(fv.name), fe))
		} else {
			out = append(out, sLocal1(name, fe))
		}
		g.declare(fv)
	}
	out = append(out, g.callStmts(fv)...)
	return out
}

// callStmts: call f and observe all its results.
func (g *gen) callStmts(f *vinfo) []*Stmt {
	if !g.room(f.fn.cost + 4) {
		return nil
	}
	call := g.callTo(f, 2)
	switch g.r.Intn(4) {
	case 0:
		return []*Stmt{sEmit(g.emitTag(), call)} // last argument: all results
	case 1:
		return []*Stmt{sEmit(g.emitTag(), ePar(call), eCallN("select", eStr("#"), cloneExpr(call)))}
	case 2:
		if len(f.fn.rets) > 0 {
			var names []string
			var vs []*vinfo
			for _, t := range f.fn.rets {
				m := 1e6
				if t == TStr {
					m = 64
				}
				v := &vinfo{name: g.freshLocal(), ty: t, mag: m}
				names = append(names, v.name)
				vs = append(vs, v)
			}
			for _, v := range vs {
				g.declare(v)
			}
			g.touch(vs...)
			return []*Stmt{sLocal(names, call)}
		}
	}
	return []*Stmt{sCall(call)}
}

func (g *gen) grpCallFn(d int) []*Stmt {
	fs := g.varsWhere(func(v *vinfo) bool { return v.ty == TFn && v.fn != nil && !v.fn.loose })
	if len(fs) == 0 {
		return nil
	}
	st := g.callStmts(Pick(g.r, fs))
	if len(st) == 0 {
		return nil
	}
	return st
}

func (g *gen) nextEmit() int { g.emitID++; return g.emitID }

// ---------- tables ----------

// newTable declares a typed table with a random constructor (positional, named, keyed, nested, trailing call).
func (g *gen) newTable(nested bool) []*Stmt {
	sh := &tshape{}
	var fs []*Field
	var pre []*Stmt
	n := g.r.Range(0, 4)
	for i := 0; i < n; i++ {
		fs = append(fs, fPos(g.intExpr(1, 1000)))
	}
	sh.n = n
	for _, fname := range []string{"x", "y", "name", "ok"} {
		if !g.r.Chance(45) {
			continue
		}
		var ty Ty
		switch fname {
		case "x", "y":
			ty = TInt
		case "name":
			ty = TStr
		default:
			ty = TBool
		}
		val := g.expr(ty, 1, defaultMag(ty))
		f := fName(fname, val)
		if g.r.Chance(20) {
			f = fKey(eStr(fname), val) // ["x"] = v is the same AST as x = v; the renderer picks the spelling
		}
		// named fields may be interleaved with positional ones
		pos := g.r.Intn(len(fs) + 1)
		fs = append(fs[:pos], append([]*Field{f}, fs[pos:]...)...)
		sh.fields = append(sh.fields, tfield{fname, ty, defaultMag(ty)})
	}
	if g.r.Chance(25) {
		// keyed entry that cannot take part in the border: 0, negative, fractional or boolean key
		fs = append(fs, fKey(Pick(g.r, []*Expr{eInt(0), eInt(-1), eNum(2.5), eTrue()}), g.intLit(9)))
	}
	if g.r.Chance(25) {
		// nested constructor
		fs = append(fs, fName("sub", eTbl(fPos(g.intLit(9)), fName("z", g.intLit(9)))))
	}
	// positional fields must stay in array order: a trailing multi-value expression extends the array part
	if g.r.Chance(20) && !nested {
		k := g.r.Range(0, 2)
		hn := g.fresh("mk")
		var rs []string
		for i := 0; i < k; i++ {
			rs = append(rs, fmt.Sprint(g.r.Range(1, 50)))
		}
		pre = append(pre, tpl(`local function %s() return %s end`, hn, joinStr(rs))...)
		g.declare(&vinfo{name: hn, ty: TFn, ro: true})
		// count the positional fields: the call must be the LAST field and positional
		fs = append(fs, fPos(eCallN(hn)))
		sh.n = n + k
	}
	// NEW FINDING (pinned tree, compileTableExpr): when the LAST field is keyed and its value is a call/vararg and at
	// least one positional field precedes it, SETLIST is emitted with B=0 and stores the call's value as an extra
	// array item ({5, name = f()} → t[2] == f()). The shape is kept (the checks must find it) and flagged.
	if len(fs) > 0 {
		if last := fs[len(fs)-1]; last.Key != nil && isMulti(last.Val) && n > 0 {
			g.kd["kd:ctor-keyed-last-call"]++
		}
	}
	v := &vinfo{name: g.fresh("t"), ty: TTbl, tbl: sh, ro: true}
	st := sLocal1(v.name, eTbl(fs...))
	g.declare(v)
	g.touch(v)
	return append(pre, st)
}

func joinStr(ss []string) string {
	r := ""
	for i, s := range ss {
		if i > 0 {
			r += ", "
		}
		r += s
	}
	return r
}

func (g *gen) grpTable(d int) []*Stmt {
	ts := g.varsWhere(func(v *vinfo) bool { return v.ty == TTbl && v.tbl != nil })
	if len(ts) == 0 || g.r.Chance(25) {
		return g.newTable(false)
	}
	t := Pick(g.r, ts)
	g.touch(t)
	if t.tbl.bag {
		switch g.r.Intn(4) {
		case 0:
			return []*Stmt{sSet1(eIx(eV(t.name), eBin("add", eLen(eV(t.name)), eInt(1))), g.expr(Pick(g.r, []Ty{TInt, TStr, TBool}), 2, 24))}
		case 1:
			return []*Stmt{sCall(eCall(eDot(eV("table"), "insert"), eV(t.name), g.expr(Pick(g.r, []Ty{TInt, TStr}), 2, 24)))}
		case 2:
			return []*Stmt{sEmit(g.emitTag(), eCall(eDot(eV("table"), "remove"), eV(t.name)), eLen(eV(t.name)))}
		default:
			return []*Stmt{sSet1(eDot(eV(t.name), Pick(g.r, []string{"p", "q", "lv"})), g.anyExpr(2))}
		}
	}
	switch g.r.Intn(6) {
	case 0:
		if t.tbl.n > 0 {
			return []*Stmt{sSet1(eIx(eV(t.name), eInt(g.r.Range(1, t.tbl.n))), g.intExpr(2, 1000))}
		}
	case 1:
		if len(t.tbl.fields) > 0 {
			f := Pick(g.r, t.tbl.fields)
			return []*Stmt{sSet1(eDot(eV(t.name), f.name), g.expr(f.ty, 2, f.mag))}
		}
	case 2:
		// computed index (in range or not): the value is "any"
		var ix *Expr = g.intExpr(1, 8)
		return []*Stmt{sEmit(g.emitTag(), eIx(eV(t.name), ix), eIx(eV(t.name), eStr(Pick(g.r, []string{"x", "y", "nope"}))))}
	case 3:
		if t.tbl.n > 0 {
			return []*Stmt{sEmit(g.emitTag(), eCall(eDot(eV("table"), "concat"), eV(t.name), eStr(Pick(g.r, []string{",", "", "-"}))))}
		}
	case 4:
		if t.tbl.n > 0 {
			i, j := g.r.Range(1, t.tbl.n), g.r.Range(0, t.tbl.n)
			return []*Stmt{sEmit(g.emitTag(), eCallN("unpack", eV(t.name), eInt(i), eInt(j)))}
		}
	case 5:
		return []*Stmt{sEmit(g.emitTag(), eCallN("rawget", eV(t.name), eInt(1)), eCallN("rawequal", eV(t.name), eV(t.name)))}
	}
	return []*Stmt{sEmit(g.emitTag(), eLen(eV(t.name)))}
}

func (g *gen) grpString(d int) []*Stmt {
	e := g.strExpr(3, 64)
	switch g.r.Intn(3) {
	case 0:
		return []*Stmt{sEmit(g.emitTag(), e, eLen(cloneExpr(e)))}
	case 1:
		// accumulate into a fresh string by a bounded loop
		if !g.room(20) {
			return nil
		}
		s := &vinfo{name: g.fresh("s"), ty: TStr, mag: 64, acc: true}
		g.declare(s)
		g.touch(s)
		n := g.r.Range(1, 3)
		g.cost(n * 3)
		return []*Stmt{sLocal1(s.name, eStr("")),
			sForNum(g.fresh("i"), eInt(1), eInt(n), nil, []*Stmt{sSet1(eV(s.name), eBin("concat", eV(s.name), g.strAtom(6)))})}
	}
	v, st := g.newVar(TStr, e, true)
	g.touch(v)
	return []*Stmt{st}
}

func (g *gen) grpCmpChain(d int) []*Stmt {
	a, b, c := g.intExpr(1, 100), g.intExpr(1, 100), g.intExpr(1, 100)
	var e *Expr
	switch g.r.Intn(4) {
	case 0:
		e = eAnd(eBin("lt", a, b), eBin("lt", cloneExpr(b), c))
	case 1:
		e = eBin("eq", eBin("le", a, b), eBin("ge", b, c))
	case 2:
		e = eOr(eBin("gt", a, b), eAnd(eBin("eq", cloneExpr(a), cloneExpr(b)), eBin("ne", b, c)))
	default:
		e = eBin("ne", eBin("lt", g.strAtom(8), g.strAtom(8)), eBin("le", a, c))
	}
	v, st := g.newVar(TBool, e, false)
	g.touch(v)
	return []*Stmt{st}
}

// grpCoerce: string ↔ number coercions.
func (g *gen) grpCoerce(d int) []*Stmt {
	ns := Pick(g.r, numStrPool)
	switch g.r.Intn(5) {
	case 0:
		op := Pick(g.r, []string{"add", "sub", "mul"})
		return []*Stmt{sEmit(g.emitTag(), eBin(op, eStr(ns.s), g.intExpr(1, 100)))}
	case 1:
		return []*Stmt{sEmit(g.emitTag(), eBin("concat", g.intExpr(2, 1000), g.strAtom(8)), eBin("concat", g.intExpr(1, 100), g.intExpr(1, 100)))}
	case 2:
		return []*Stmt{sEmit(g.emitTag(), eNeg(eStr(ns.s)), eBin("mul", eStr(ns.s), eStr(Pick(g.r, numStrPool).s)))}
	case 3:
		// comparison never coerces: "10" == 10 is false
		return []*Stmt{sEmit(g.emitTag(), eBin("eq", eStr(ns.s), eNum(ns.v)), eBin("eq", eBin("add", eStr(ns.s), eInt(0)), eNum(ns.v)))}
	}
	if ns.s == "5." || ns.s == "0x10" {
		ns.s = "10"
	}
	return []*Stmt{sEmit(g.emitTag(), eCallN("tonumber", eStr(ns.s)), eCallN("tostring", g.intExpr(1, 1000)), eCallN("tonumber", eStr(Pick(g.r, []string{"abc", "", "1x", "z9"}))))}
}

// ---------- deliberate runtime faults ----------

type faultKind struct {
	name string
	mk   func(g *gen) (pre []*Stmt, site *Stmt, payloadObservable bool)
}

func (g *gen) nilLocal() (string, *Stmt) {
	n := g.fresh("nz")
	return n, sLocal1(n, nil)
}

var faultKinds = []faultKind{
	{"arith-nil", func(g *gen) ([]*Stmt, *Stmt, bool) {
		n, st := g.nilLocal()
		return []*Stmt{st}, sEmit(g.emitTag(), eBin(Pick(g.r, []string{"add", "sub", "mul", "div", "mod", "pow"}), eV(n), g.intAtom(9))), false
	}},
	{"arith-table", func(g *gen) ([]*Stmt, *Stmt, bool) {
		return nil, sEmit(g.emitTag(), eBin("add", g.intAtom(9), eTbl())), false
	}},
	{"arith-string", func(g *gen) ([]*Stmt, *Stmt, bool) {
		return nil, sEmit(g.emitTag(), eBin(Pick(g.r, []string{"add", "mul"}), eStr(Pick(g.r, []string{"abc", "", "1x", "x1"})), g.intAtom(9))), false
	}},
	{"unm-nil", func(g *gen) ([]*Stmt, *Stmt, bool) {
		n, st := g.nilLocal()
		return []*Stmt{st}, sEmit(g.emitTag(), eNeg(eV(n))), false
	}},
	{"len-nil", func(g *gen) ([]*Stmt, *Stmt, bool) {
		n, st := g.nilLocal()
		return []*Stmt{st}, sEmit(g.emitTag(), eLen(eV(n))), false
	}},
	{"index-nil", func(g *gen) ([]*Stmt, *Stmt, bool) {
		n, st := g.nilLocal()
		if g.r.Bool() {
			return []*Stmt{st}, sSet1(eDot(eV(n), "x"), eInt(1)), false
		}
		return []*Stmt{st}, sEmit(g.emitTag(), eIx(eV(n), g.intAtom(3))), false
	}},
	{"index-undef-global", func(g *gen) ([]*Stmt, *Stmt, bool) {
		return nil, sEmit(g.emitTag(), eDot(eV("UNDEF"), "field")), false
	}},
	{"call-nil", func(g *gen) ([]*Stmt, *Stmt, bool) {
		if g.r.Bool() {
			return nil, sCall(eCallN("UNDEF", g.intAtom(9))), false
		}
		n, st := g.nilLocal()
		return []*Stmt{st}, sCall(eCallN(n)), false
	}},
	{"call-number", func(g *gen) ([]*Stmt, *Stmt, bool) {
		n := g.fresh("num")
		return []*Stmt{sLocal1(n, eInt(5))}, sCall(eCallN(n, eInt(1))), false
	}},
	{"cmp-num-str", func(g *gen) ([]*Stmt, *Stmt, bool) {
		a, b := g.intAtom(9), eStr(Pick(g.r, []string{"x", "10"}))
		if g.r.Bool() {
			a, b = b, a
		}
		return nil, sEmit(g.emitTag(), eBin(Pick(g.r, []string{"lt", "le", "gt", "ge"}), a, b)), false
	}},
	{"cmp-num-table", func(g *gen) ([]*Stmt, *Stmt, bool) {
		return nil, sEmit(g.emitTag(), eBin(Pick(g.r, []string{"lt", "le"}), g.intAtom(9), eTbl())), false
	}},
	{"cmp-nil", func(g *gen) ([]*Stmt, *Stmt, bool) {
		n, st := g.nilLocal()
		return []*Stmt{st}, sEmit(g.emitTag(), eBin("lt", eV(n), eInt(1))), false
	}},
	{"concat-table", func(g *gen) ([]*Stmt, *Stmt, bool) {
		return nil, sEmit(g.emitTag(), eBin("concat", g.strAtom(4), eTbl())), false
	}},
	{"concat-nil", func(g *gen) ([]*Stmt, *Stmt, bool) {
		n, st := g.nilLocal()
		return []*Stmt{st}, sEmit(g.emitTag(), eBin("concat", eV(n), eStr("x"))), false
	}},
	{"error-nil", func(g *gen) ([]*Stmt, *Stmt, bool) { return nil, sCall(eCallN("error", eNil())), true }},
	{"error-bool", func(g *gen) ([]*Stmt, *Stmt, bool) { return nil, sCall(eCallN("error", eBool(g.r.Bool()))), true }},
	{"error-number", func(g *gen) ([]*Stmt, *Stmt, bool) { return nil, sCall(eCallN("error", g.intLit(99))), true }},
	{"error-table", func(g *gen) ([]*Stmt, *Stmt, bool) {
		return nil, sCall(eCallN("error", eTbl(fName("code", g.intLit(99))))), true
	}},
	{"error-string-level0", func(g *gen) ([]*Stmt, *Stmt, bool) {
		return nil, sCall(eCallN("error", g.errMsg("boom"), eInt(0))), true
	}},
	{"error-string", func(g *gen) ([]*Stmt, *Stmt, bool) {
		return nil, sCall(eCallN("error", g.errMsg("boom"))), g.feat("errpos")
	}},
	{"error-level1", func(g *gen) ([]*Stmt, *Stmt, bool) {
		return nil, sCall(eCallN("error", g.errMsg("lvl1"), eInt(1))), g.feat("errpos")
	}},
	{"error-level2", func(g *gen) ([]*Stmt, *Stmt, bool) {
		return nil, sCall(eCallN("error", g.errMsg("lvl2"), eInt(2))), g.feat("errpos")
	}},
	{"assert-false", func(g *gen) ([]*Stmt, *Stmt, bool) {
		return nil, sCall(eCallN("assert", Pick(g.r, []*Expr{eFalse(), eNil()}), g.errMsg("assertion msg"))), true
	}},
}

// errMsg: the text of a raised message.  A third of them carry characters that a formatting layer between the
// raise and the catch could mangle (%-verbs, a lone %, %%, a line break): an error VALUE is delivered as raised.
var errMsgTails = []string{" 100% done", " rate=%d", " %s", "%", " a%%b", "\n2nd line", " [%q]", " %!", " %v %d", " %5.2f"}

func (g *gen) errMsg(base string) *Expr {
	if g.r.Intn(3) == 0 {
		g.extra["errmsg:percent"]++
		return eStr(base + Pick(g.r, errMsgTails))
	}
	return eStr(base)
}

// faultSite: ONE statement that raises a runtime error when executed, at a position that is certainly executed,
// wrapped in a random (always executed) construct; inside a protected call with probability CaughtPct.
func (g *gen) faultSite() []*Stmt {
	fk := Pick(g.r, faultKinds)
	pre, site, payload := fk.mk(g)
	g.extra["fault:"+fk.name]++
	body := append(pre, site)
	switch g.r.Intn(5) {
	case 0:
		body = []*Stmt{sDo(body)}
	case 1:
		body = []*Stmt{sForNum(g.fresh("i"), eInt(1), eInt(g.r.Range(1, 3)), nil, body)}
	case 2:
		body = []*Stmt{sIf(eTrue(), body, []*Stmt{})}
	case 3:
		fn := g.fresh("ff")
		body = []*Stmt{sLocalFn(fn, eFn(nil, false, body)), sCall(eCallN(fn))}
	}
	if !g.r.Chance(g.prof.CaughtPct) {
		return body
	}
	g.extra["fault-caught"]++
	ok, ev := g.fresh("ok"), g.fresh("err")
	var out []*Stmt
	how := g.r.Intn(4)
	if !g.feat("xpcall") && how == 1 {
		how = 0
	}
	if g.prof.Name != "coroutines" && how >= 2 {
		how = g.r.Intn(2)
	}
	switch how {
	case 0:
		out = append(out, sLocal([]string{ok, ev}, eCallN("pcall", eFn(nil, false, body))))
		g.extra["fault-in:pcall"]++
	case 1:
		h := eFn([]string{"m"}, false, []*Stmt{sEmit(g.emitTag(), eStr("handler"), eCallN("type", eV("m"))), sRet(eV("m"))})
		out = append(out, sLocal([]string{ok, ev}, eCallN("xpcall", eFn(nil, false, body), h)))
		g.extra["fault-in:xpcall"]++
	case 2:
		co := g.fresh("co")
		out = append(out, sLocal1(co, eCall(eDot(eV("coroutine"), "create"), eFn(nil, false, body))))
		out = append(out, sLocal([]string{ok, ev}, eCall(eDot(eV("coroutine"), "resume"), eV(co))))
		out = append(out, sEmit(g.emitTag(), eCall(eDot(eV("coroutine"), "status"), eV(co))))
		g.extra["fault-in:coroutine"]++
	default:
		w := g.fresh("wf")
		out = append(out, sLocal1(w, eCall(eDot(eV("coroutine"), "wrap"), eFn(nil, false, body))))
		out = append(out, sLocal([]string{ok, ev}, eCallN("pcall", eV(w))))
		g.extra["fault-in:wrap"]++
	}
	obs := []*Expr{eStr("caught"), eV(ok), eCallN("type", eV(ev))}
	if payload && how != 3 {
		obs = append(obs, eV(ev))
		if fk.name == "error-table" {
			obs = append(obs, eAnd(eBin("eq", eCallN("type", eV(ev)), eStr("table")), eDot(eV(ev), "code")))
		}
	}
	out = append(out, sEmit(obs...))
	return out
}
