package main

// Program generator — typed random generation: profiles, scopes, typed expressions, GenProgram.
// Statement groups of the core language are in proggen_core.go, the profile idioms in proggen_idioms.go.

import (
	"fmt"
	"math"
	"sort"
	"strings"

	lua "github.com/yuin/gopher-lua"
)

// GenProfile selects what GenProgram produces.
type GenProfile struct {
	Name       string
	MaxStmts   int             // number of top-level-ish statement groups
	MaxDepth   int             // block nesting
	FaultPct   int             // % of programs containing ONE deliberate runtime fault site
	CaughtPct  int             // % of the fault sites that are placed inside a protected call / coroutine
	Feat       map[string]bool // feature switches (see allFeatures)
	W          map[string]int  // weights of statement groups (group name → weight); absent = 0
	N          int             // "limits": the size parameter (recursion depth / argument count / string.rep size)
	StepBudget int             // rough bound on executed statements
}

// Program is one generated program.
type Program struct {
	Src      string
	Sexp     string
	Skeleton string         // normalised AST skeleton: node kinds only
	Feats    map[string]int // histogram: statement kinds, operator kinds, operand storage classes, destination classes, fault kind, kd:* (shape known to hit a recorded gopher-lua defect)
	NStmts   int
	Depth    int
	AST      *Chunk // the program's AST (nil for enumerated shapes: re-read from Sexp)
	Layout   Layout // the layout Src was rendered with
}

var coreFeatures = []string{"arith", "coerce", "cmpchain", "logic", "tables", "multiassign", "if", "while", "repeat", "fornum", "forin",
	"break", "goto", "shadow", "localfn", "strings", "upvals", "globals"}
var profileFeatures = map[string][]string{
	"calls":      {"varargs", "multiret", "methods", "tailcall", "unpack", "fntables", "longtail"},
	"closures":   {"counters", "siblings", "loopclosures", "upup", "fenv"},
	"meta":       {"meta-arith", "meta-index", "meta-cmp", "meta-call", "meta-misc", "rawops", "meta-chain"},
	"errors":     {"pcall", "xpcall", "errvalues", "nestedpcall", "errmeta", "assert", "errpos", "erriter", "intact"},
	"coroutines": {"co-basic", "co-nested", "co-pcall", "co-wrapgen", "co-status", "co-dead", "co-error", "co-tailyield", "co-counts"},
	"limits":     {"deeprec", "manyargs", "strrep"},
}

// Profile returns a named profile: "core","calls","closures","meta","errors","coroutines","limits","layout".
func Profile(name string) GenProfile {
	p := GenProfile{Name: name, MaxStmts: 12, MaxDepth: 4, Feat: map[string]bool{}, W: map[string]int{}, N: 100, StepBudget: 1500}
	for _, f := range coreFeatures {
		p.Feat[f] = true
	}
	core := map[string]int{"local": 10, "assign": 8, "multiassign": 8, "logic": 9, "if": 7, "while": 4, "repeat": 4, "fornum": 5, "forin": 4,
		"goto": 4, "do": 3, "localfn": 5, "table": 7, "string": 5, "cmpchain": 3, "callfn": 5, "coerce": 4, "breakloop": 3}
	for k, v := range core {
		p.W[k] = v
	}
	boost := func(fs []string, w int) {
		for _, f := range fs {
			p.Feat[f] = true
			p.W[f] = w
		}
		// the core groups stay, at a lower total weight
		for k, v := range core {
			p.W[k] = (v + 2) / 3
		}
	}
	switch name {
	case "core", "layout":
	case "calls", "closures", "meta", "errors", "coroutines":
		boost(profileFeatures[name], 9)
		p.MaxStmts = 10
	case "limits":
		boost(profileFeatures[name], 12)
		p.MaxStmts = 6
		p.StepBudget = 1 << 30
	default:
		panic("unknown profile " + name)
	}
	if name == "coroutines" {
		// both shapes crash the pinned tree (see notes/GEN.md); kept, at a low weight, so that most programs run to the end
		p.W["co-pcall"], p.W["co-tailyield"] = 1, 1
	}
	switch name {
	case "errors":
		p.CaughtPct = 75
	case "coroutines":
		p.CaughtPct = 60
	case "meta":
		p.CaughtPct = 25
	}
	return p
}

// ---------- types ----------

type Ty uint8

const (
	TAny Ty = iota
	TInt    // integer-valued number
	TNum    // number, possibly non-integral (its text is never observed)
	TStr
	TBool
	TNil
	TTbl
	TFn
)

var tyNames = []string{"any", "int", "num", "str", "bool", "nil", "tbl", "fn"}

type tfield struct {
	name string
	ty   Ty
	mag  float64
}

type tshape struct {
	n      int // array part 1..n holds ints (|v| ≤ 1000)
	fields []tfield
	bag    bool // untyped: anything non-nil may be appended, reads are "any"
}

type fsig struct {
	params []Ty
	va     bool
	rets   []Ty // fixed result count and types (mags: ints ≤ 1e6, strings ≤ 64)
	loose  bool // may be called with any argument count / types; parameters are "any" inside
	cost   int
}

type vinfo struct {
	name   string
	ty     Ty
	mag    float64 // ints/nums: |v| ≤ mag; strings: length ≤ mag
	global bool
	ro     bool // never a target of generated assignments (loop counters, function names)
	acc    bool // accumulator: only updated by small additive steps
	tbl    *tshape
	fn     *fsig
	lvl    int // function nesting level of the declaration
}

type gscope struct {
	vars []*vinfo
	fn   bool // function boundary
}

type gen struct {
	r        *Rng
	prof     GenProfile
	scopes   []*gscope
	globals  []*vinfo
	uniq     int
	emitID   int
	steps    int
	mult     int
	depth    int
	fnLvl    int
	loops    int // loops enclosing the current position inside the current function
	vararg   bool
	touched  []*vinfo
	kd       map[string]int // known-defect shapes produced
	extra    map[string]int // extra features (fault kind …)
	preamble []*Stmt        // helper definitions hoisted to the top of the chunk (once each)
	have     map[string]bool
	ngroups  int
}

func (g *gen) feat(f string) bool { return g.prof.Feat[f] }

// ---------- scopes ----------

func (g *gen) push(fn bool) { g.scopes = append(g.scopes, &gscope{fn: fn}) }
func (g *gen) pop()         { g.scopes = g.scopes[:len(g.scopes)-1] }

var localPool = []string{"a", "b", "c", "d", "e", "f", "h", "i", "j", "k", "m", "n", "p", "q", "r", "s", "t", "u", "v", "w", "x", "y", "z"}

// fresh returns a new identifier with the given stem.
func (g *gen) fresh(stem string) string {
	g.uniq++
	return fmt.Sprintf("%s%d", stem, g.uniq)
}

func (g *gen) freshLocal() string {
	return g.fresh(Pick(g.r, localPool))
}

func (g *gen) declare(v *vinfo) *vinfo {
	v.lvl = g.fnLvl
	if v.global {
		v.lvl = 0
		g.globals = append(g.globals, v)
		return v
	}
	sc := g.scopes[len(g.scopes)-1]
	sc.vars = append(sc.vars, v)
	return v
}

// visible lists the variables in scope (innermost declaration of each name), locals first, then globals.
func (g *gen) visible() []*vinfo {
	seen := map[string]bool{}
	var r []*vinfo
	for i := len(g.scopes) - 1; i >= 0; i-- {
		vs := g.scopes[i].vars
		for j := len(vs) - 1; j >= 0; j-- {
			if !seen[vs[j].name] {
				seen[vs[j].name] = true
				r = append(r, vs[j])
			}
		}
	}
	for _, v := range g.globals {
		if !seen[v.name] {
			seen[v.name] = true
			r = append(r, v)
		}
	}
	return r
}

func (g *gen) varsWhere(pred func(*vinfo) bool) []*vinfo {
	var r []*vinfo
	for _, v := range g.visible() {
		if pred(v) {
			r = append(r, v)
		}
	}
	return r
}

func (g *gen) pickVar(ty Ty, mag float64) *vinfo {
	vs := g.varsWhere(func(v *vinfo) bool {
		if v.ty != ty {
			return false
		}
		if ty == TInt || ty == TNum || ty == TStr {
			return v.mag <= mag
		}
		if ty == TTbl {
			return v.tbl != nil
		}
		return true
	})
	if len(vs) == 0 {
		return nil
	}
	// prefer recent (inner) variables a little
	if g.r.Chance(40) && len(vs) > 3 {
		return vs[g.r.Intn(3)]
	}
	return Pick(g.r, vs)
}

// assignable: variables of type ty that generated code may assign to.
func (g *gen) assignable(ty Ty) []*vinfo {
	return g.varsWhere(func(v *vinfo) bool { return v.ty == ty && !v.ro && !v.acc && (ty != TTbl) && (ty != TFn) })
}

func (g *gen) touch(vs ...*vinfo) { g.touched = append(g.touched, vs...) }

func (g *gen) cost(n int) { g.steps += n * g.mult }

func (g *gen) room(n int) bool { return g.steps+n*g.mult < g.prof.StepBudget }

// ---------- typed expressions ----------

var strPool = []string{"a", "b", "xy", "abc", "hello", "Lua", "k1", "", " ", "x y", "0", "end", "A-Z", "q\n", "t\tt", "it's", "say \"hi\"", "back\\slash", "line1\nline2", "z\x00z"}
var numStrPool = []struct {
	s string
	v float64
}{{"10", 10}, {"7", 7}, {" 5 ", 5}, {"0x10", 16}, {"5.", 5}, {"3", 3}, {"-2", -2}, {"12", 12}, {"100", 100}, {" 8", 8}, {"0", 0}, {"2.0", 2}}

func (g *gen) intLit(mag float64) *Expr {
	m := int(math.Min(mag, 100))
	if g.r.Chance(25) {
		m = int(math.Min(mag, 3))
	}
	v := g.r.Range(0, m)
	if g.r.Chance(15) {
		v = -v
	}
	return eInt(v)
}

// expr generates an expression whose intended dynamic type is ty. For TInt/TNum |value| ≤ mag, for TStr length ≤ mag.
func (g *gen) expr(ty Ty, d int, mag float64) *Expr {
	switch ty {
	case TInt:
		return g.intExpr(d, mag)
	case TNum:
		return g.numExpr(d, mag)
	case TStr:
		return g.strExpr(d, mag)
	case TBool:
		return g.boolExpr(d)
	case TNil:
		if v := g.pickVar(TNil, 0); v != nil && g.r.Chance(40) {
			return eV(v.name)
		}
		return eNil()
	case TTbl:
		if v := g.pickVar(TTbl, 0); v != nil {
			return eV(v.name)
		}
		return eTbl()
	case TFn:
		if v := g.pickVar(TFn, 0); v != nil {
			return eV(v.name)
		}
		return eFn(nil, false, []*Stmt{})
	}
	return g.anyExpr(d)
}

func (g *gen) valueTy() Ty { return Pick(g.r, []Ty{TInt, TInt, TInt, TStr, TStr, TBool, TNum, TNil}) }

func (g *gen) anyExpr(d int) *Expr {
	if g.r.Chance(30) {
		if vs := g.varsWhere(func(v *vinfo) bool { return v.ty == TAny }); len(vs) > 0 {
			return eV(Pick(g.r, vs).name)
		}
	}
	if g.r.Chance(12) && g.feat("tables") {
		// possibly-missing element / field: nil or a value
		if t := g.pickVar(TTbl, 0); t != nil {
			if g.r.Bool() {
				return eIx(eV(t.name), eInt(g.r.Range(0, t.tbl.n+2)))
			}
			return eDot(eV(t.name), Pick(g.r, []string{"nope", "zz", "x", "y"}))
		}
	}
	if g.r.Chance(6) && g.feat("globals") {
		return eV("UNDEF")
	}
	ty := g.valueTy()
	m := 1000.0
	if ty == TStr {
		m = 24
	}
	return g.expr(ty, d, m)
}

// tblIntRead: an int-typed read from a typed table (element or field), nil if impossible.
func (g *gen) tblRead(ty Ty, mag float64) *Expr {
	ts := g.varsWhere(func(v *vinfo) bool { return v.ty == TTbl && v.tbl != nil && !v.tbl.bag })
	if len(ts) == 0 {
		return nil
	}
	t := Pick(g.r, ts)
	var cands []*Expr
	if ty == TInt && t.tbl.n > 0 && mag >= 1000 {
		cands = append(cands, eIx(eV(t.name), eInt(g.r.Range(1, t.tbl.n))))
	}
	for _, f := range t.tbl.fields {
		if f.ty == ty && f.mag <= mag {
			cands = append(cands, eDot(eV(t.name), f.name))
		}
	}
	if len(cands) == 0 {
		return nil
	}
	return Pick(g.r, cands)
}

// callOf: a call to a visible strict function whose first result has type ty (single-value context), nil if none.
func (g *gen) callOf(ty Ty, d int, mag float64) *Expr {
	if (ty == TInt || ty == TNum) && mag < 1e6 || ty == TStr && mag < 64 {
		return nil
	}
	fs := g.varsWhere(func(v *vinfo) bool {
		return v.ty == TFn && v.fn != nil && !v.fn.loose && len(v.fn.rets) > 0 && v.fn.rets[0] == ty && g.room(v.fn.cost+2)
	})
	if len(fs) == 0 {
		return nil
	}
	f := Pick(g.r, fs)
	return g.callTo(f, d)
}

func (g *gen) callTo(f *vinfo, d int) *Expr {
	g.cost(f.fn.cost + 1)
	var args []*Expr
	for _, pt := range f.fn.params {
		m := 100.0
		if pt == TStr {
			m = 16
		}
		args = append(args, g.expr(pt, d-1, m))
	}
	if f.fn.va {
		for k := g.r.Intn(3); k > 0; k-- {
			args = append(args, g.expr(TInt, 0, 100))
		}
	}
	return eCallN(f.name, args...)
}

func (g *gen) intAtom(mag float64) *Expr {
	if g.r.Chance(55) {
		if v := g.pickVar(TInt, mag); v != nil {
			return eV(v.name)
		}
	}
	if g.r.Chance(12) && g.feat("tables") {
		if e := g.tblRead(TInt, mag); e != nil {
			return e
		}
	}
	return g.intLit(mag)
}

// intOperand: an int atom, or (feature coerce) a numeric string that coerces to an integer.
func (g *gen) intOperand(d int, mag float64) *Expr {
	if g.feat("coerce") && g.r.Chance(6) && mag >= 100 {
		return eStr(Pick(g.r, numStrPool).s)
	}
	return g.intExpr(d, mag)
}

func (g *gen) intExpr(d int, mag float64) *Expr {
	if d <= 0 || mag < 2 || g.r.Chance(30) {
		return g.intAtom(mag)
	}
	switch g.r.Intn(16) {
	case 0, 1, 2:
		op := Pick(g.r, []string{"add", "sub"})
		return eBin(op, g.intOperand(d-1, mag/2), g.intOperand(d-1, mag/2))
	case 3, 4:
		m := math.Floor(math.Sqrt(mag))
		return eBin("mul", g.intOperand(d-1, m), g.intOperand(d-1, m))
	case 5:
		// modulo: small integer operands, constant divisor (negative in a few cases)
		c := g.r.Range(2, int(math.Min(mag, 9)))
		if g.r.Chance(20) {
			return eBin("mod", g.intExpr(d-1, 1000), eInt(-c))
		}
		return eBin("mod", g.intExpr(d-1, 1000), eInt(c))
	case 6:
		// power: base ≤ 6, exponent 0..6 within the bound
		bmax, ex := 6, g.r.Range(0, 6)
		for math.Pow(float64(bmax), float64(ex)) > mag && bmax > 1 {
			bmax--
		}
		if math.Pow(float64(bmax), float64(ex)) > mag {
			return g.intAtom(mag)
		}
		return eBin("pow", g.intExpr(d-1, float64(bmax)), eInt(ex))
	case 7:
		return eNeg(g.intExpr(d-1, mag))
	case 8:
		if g.feat("strings") && mag >= 64 {
			return eLen(g.strExpr(d-1, math.Min(mag, 64)))
		}
	case 9:
		if g.feat("tables") && mag >= 100 {
			if t := g.pickVar(TTbl, 0); t != nil {
				return eLen(eV(t.name))
			}
		}
	case 10:
		if e := g.callOf(TInt, d, mag); e != nil {
			return e
		}
	case 11:
		// library: math.floor / max / min / abs / fmod, tonumber, string.len / byte
		switch g.r.Intn(6) {
		case 0:
			if mag >= 4 {
				return eCall(eDot(eV("math"), "floor"), g.numExpr(d-1, mag/4))
			}
		case 1:
			return eCall(eDot(eV("math"), Pick(g.r, []string{"max", "min"})), g.intExpr(d-1, mag), g.intExpr(d-1, mag))
		case 2:
			return eCall(eDot(eV("math"), "abs"), g.intExpr(d-1, mag))
		case 3:
			if mag >= 100 {
				ns := Pick(g.r, numStrPool)
				if ns.s != "0x10" && ns.s != "5." { // keep tonumber to plain decimal spellings
					return eCallN("tonumber", eStr(ns.s))
				}
			}
		case 4:
			if mag >= 255 && g.feat("strings") {
				s := Pick(g.r, []string{"a", "abc", "Lua", "hello"})
				return eCall(eDot(eV("string"), "byte"), eStr(s), eInt(g.r.Range(1, len(s))))
			}
		case 5:
			if mag >= 64 && g.feat("strings") {
				return eCall(eDot(eV("string"), "len"), g.strExpr(d-1, 64))
			}
		}
	case 12:
		if g.feat("logic") {
			// cond and x or y (x is a number, hence truthy)
			return eOr(eAnd(g.boolExpr(d-1), g.intExpr(d-1, mag)), g.intExpr(d-1, mag))
		}
	case 13:
		if g.vararg && mag >= 16 {
			return eCallN("select", eStr("#"), eDots())
		}
	}
	return g.intAtom(mag)
}

var fracLits = []float64{0.5, 1.5, 2.25, 0.25, 3.75, 0.125, 10.5, 0.1}

func (g *gen) numExpr(d int, mag float64) *Expr {
	if d <= 0 || g.r.Chance(30) {
		if g.r.Chance(40) {
			if v := g.pickVar(TNum, mag); v != nil {
				return eV(v.name)
			}
		}
		if g.r.Chance(50) || mag < 11 {
			return g.intAtom(mag)
		}
		f := Pick(g.r, fracLits)
		return eNum(f)
	}
	switch g.r.Intn(6) {
	case 0:
		return eBin(Pick(g.r, []string{"add", "sub"}), g.numExpr(d-1, mag/2), g.numExpr(d-1, mag/2))
	case 1:
		m := math.Floor(math.Sqrt(mag))
		return eBin("mul", g.numExpr(d-1, m), g.numExpr(d-1, m))
	case 2, 3:
		c := Pick(g.r, []float64{2, 4, 8, 3, 10, 5, 0.5})
		m := mag
		if c < 1 {
			m = mag / 2
		}
		return eBin("div", g.numExpr(d-1, m), eNum(c))
	case 4:
		return eNeg(g.numExpr(d-1, mag))
	}
	return g.intExpr(d, mag)
}

func (g *gen) strAtom(maxLen float64) *Expr {
	if g.r.Chance(50) {
		if v := g.pickVar(TStr, maxLen); v != nil {
			return eV(v.name)
		}
	}
	if g.r.Chance(10) && g.feat("tables") {
		if e := g.tblRead(TStr, maxLen); e != nil {
			return e
		}
	}
	for i := 0; i < 8; i++ {
		s := Pick(g.r, strPool)
		if float64(len(s)) <= maxLen {
			return eStr(s)
		}
	}
	return eStr("")
}

func (g *gen) strExpr(d int, maxLen float64) *Expr {
	if d <= 0 || maxLen < 8 || g.r.Chance(35) || !g.feat("strings") {
		return g.strAtom(maxLen)
	}
	switch g.r.Intn(10) {
	case 0, 1, 2:
		// concatenation; integral numbers are legal operands (not both sides constant-number to keep a string result obvious)
		a := g.strExpr(d-1, maxLen/2)
		var b *Expr
		if g.r.Chance(30) && maxLen >= 40 {
			b = g.intExpr(d-1, 1e6)
			if g.r.Bool() {
				return eBin("concat", b, a)
			}
		} else {
			b = g.strExpr(d-1, maxLen/2)
		}
		return eBin("concat", a, b)
	case 3:
		if maxLen >= 24 {
			return eCallN("tostring", g.expr(Pick(g.r, []Ty{TInt, TBool, TNil, TStr}), d-1, 16))
		}
	case 4:
		i, j := g.r.Range(-3, 4), g.r.Range(-3, 6)
		return eCall(eDot(eV("string"), "sub"), g.strExpr(d-1, maxLen), eInt(i), eInt(j))
	case 5:
		n := g.r.Range(0, 3)
		return eCall(eDot(eV("string"), "rep"), g.strAtom(maxLen/3), eInt(n))
	case 6:
		s := Pick(g.r, []string{"abc", "Hello", "lua 5.1", "MiXeD", "a1b2"})
		if float64(len(s)) <= maxLen {
			return eCall(eDot(eV("string"), Pick(g.r, []string{"upper", "lower"})), eStr(s))
		}
	case 7:
		if maxLen >= 4 {
			return eCall(eDot(eV("string"), "char"), eInt(g.r.Range(65, 90)), eInt(g.r.Range(97, 122)))
		}
	case 8:
		if e := g.callOf(TStr, d, maxLen); e != nil {
			return e
		}
	case 9:
		if g.feat("logic") {
			return eOr(eAnd(g.boolExpr(d-1), g.strExpr(d-1, maxLen)), g.strExpr(d-1, maxLen))
		}
	}
	return g.strAtom(maxLen)
}

var relNames = []string{"eq", "ne", "lt", "le", "gt", "ge"}

func (g *gen) relExpr(d int) *Expr {
	op := Pick(g.r, relNames)
	switch g.r.Intn(8) {
	case 0, 1, 2, 3:
		return eBin(op, g.intExpr(d-1, 1000), g.intExpr(d-1, 1000))
	case 4:
		return eBin(op, g.numExpr(d-1, 1000), g.numExpr(d-1, 1000))
	case 5:
		return eBin(op, g.strExpr(d-1, 16), g.strExpr(d-1, 16))
	}
	// (in)equality is defined for every pair of values
	return eBin(Pick(g.r, []string{"eq", "ne"}), g.anyExpr(d-1), g.anyExpr(d-1))
}

func (g *gen) boolExpr(d int) *Expr {
	if d <= 0 || g.r.Chance(20) {
		if g.r.Chance(60) {
			if v := g.pickVar(TBool, 0); v != nil {
				return eV(v.name)
			}
		}
		if g.r.Chance(60) {
			return g.relExpr(1)
		}
		return eBool(g.r.Bool())
	}
	switch g.r.Intn(9) {
	case 0, 1, 2, 3:
		return g.relExpr(d)
	case 4:
		return eNot(g.anyExpr(d - 1))
	case 5:
		if g.feat("logic") {
			return eAnd(g.boolExpr(d-1), g.boolExpr(d-1))
		}
	case 6:
		if g.feat("logic") {
			return eOr(g.boolExpr(d-1), g.boolExpr(d-1))
		}
	case 7:
		return eBin(Pick(g.r, []string{"eq", "ne"}), eCallN("type", g.anyExpr(d-1)), eStr(Pick(g.r, []string{"number", "string", "nil", "table", "boolean", "function"})))
	case 8:
		if g.feat("cmpchain") {
			// comparison chain: (a < b) == (c < d), not (a == b) ~= …
			return eBin(Pick(g.r, []string{"eq", "ne"}), g.relExpr(d-1), g.relExpr(d-1))
		}
	}
	return g.relExpr(d)
}

// condExpr: a condition — boolean most of the time, otherwise any value (truthiness).
func (g *gen) condExpr(d int) *Expr {
	if g.r.Chance(80) {
		return g.boolExpr(d)
	}
	return g.logicTree(d)
}

// logicTree: and/or/not tree over atoms of every kind; the value is "any".
func (g *gen) logicTree(d int) *Expr {
	if d <= 0 || g.r.Chance(15) {
		switch g.r.Intn(7) {
		case 0:
			return Pick(g.r, []*Expr{eNil(), eFalse(), eTrue()})
		case 1:
			return g.relExpr(1)
		case 2, 3, 4:
			return g.anyExpr(0)
		case 5:
			return g.intAtom(100)
		default:
			return g.strAtom(8)
		}
	}
	switch g.r.Intn(7) {
	case 0, 1, 2:
		return eAnd(g.logicTree(d-1), g.logicTree(d-1))
	case 3, 4, 5:
		return eOr(g.logicTree(d-1), g.logicTree(d-1))
	}
	return eNot(g.logicTree(d - 1))
}

// ---------- emit helpers ----------

func (g *gen) emitTag() *Expr { g.emitID++; return eInt(g.emitID) }

// observe: expressions that show the current value of v.
func (g *gen) observe(v *vinfo) []*Expr {
	switch v.ty {
	case TTbl:
		if v.tbl == nil {
			return []*Expr{eCallN("type", eV(v.name))}
		}
		var r []*Expr
		if v.tbl.bag {
			return []*Expr{eLen(eV(v.name)), eIx(eV(v.name), eInt(1)), eIx(eV(v.name), eLen(eV(v.name)))}
		}
		r = append(r, eLen(eV(v.name)))
		if v.tbl.n > 0 {
			r = append(r, eIx(eV(v.name), eInt(g.r.Range(1, v.tbl.n))))
		}
		for i, f := range v.tbl.fields {
			if i < 2 && f.ty != TTbl {
				r = append(r, eDot(eV(v.name), f.name))
			}
		}
		return r
	case TFn:
		return []*Expr{eCallN("type", eV(v.name))}
	}
	return []*Expr{eV(v.name)}
}

// emitState: emit(tag, touched variables…, a few other live variables).
func (g *gen) emitState() *Stmt {
	args := []*Expr{g.emitTag()}
	seen := map[string]bool{}
	vis := map[*vinfo]bool{}
	all := g.visible()
	for _, v := range all {
		vis[v] = true
	}
	add := func(v *vinfo) {
		if seen[v.name] || !vis[v] || len(args) > 7 {
			return
		}
		seen[v.name] = true
		args = append(args, g.observe(v)...)
	}
	for _, v := range g.touched {
		add(v)
	}
	g.touched = g.touched[:0]
	for k := 0; k < 2 && len(all) > 0; k++ {
		add(Pick(g.r, all))
	}
	g.cost(1)
	return sEmit(args...)
}

// ---------- GenProgram ----------

// installHostFuncs adds the host function hostid(...) (returns its arguments) used by the call shapes.
func installHostFuncs(L *lua.LState) {
	L.SetGlobal("hostid", L.NewFunction(func(L *lua.LState) int { return L.GetTop() }))
}

// GenProgram generates one program. Everything derives from r.
func GenProgram(r *Rng, prof GenProfile, layout Layout) *Program {
	g := &gen{r: r.Fork(1), prof: prof, mult: 1, kd: map[string]int{}, extra: map[string]int{}, have: map[string]bool{}}
	if g.prof.StepBudget == 0 {
		g.prof.StepBudget = 1500
	}
	if prof.Name == "layout" && layout.Kind == "" {
		lr := r.Fork(3)
		layout = Layout{Kind: Pick(lr, []string{"spread", "dense", "spread", "dense", "oneline"}), EOL: Pick(lr, []string{"\n", "\r\n", "\r"})}
	}
	g.push(true)
	body := g.chunkBody()
	g.pop()
	ch := &Chunk{Body: append(g.preamble, body...)}
	return finishProgram(ch, layout, r.Fork(2), g.kd, g.extra)
}

func finishProgram(ch *Chunk, layout Layout, r *Rng, maps ...map[string]int) *Program {
	src, sexp := Render(ch, layout, r)
	feats, nst, depth := analyzeChunk(ch)
	for _, m := range maps {
		for k, v := range m {
			feats[k] += v
		}
	}
	lk := layout.Kind
	if lk == "" {
		lk = "oneline"
	}
	feats["layout:"+lk]++
	return &Program{Src: src, Sexp: sexp, Skeleton: skeletonChunk(ch), Feats: feats, NStmts: nst, Depth: depth, AST: ch, Layout: layout}
}

// progFromSource builds a Program from template text (enumerators).
func progFromSource(src string, kd ...string) *Program {
	ch := &Chunk{Body: mustParse(src)}
	m := map[string]int{}
	for _, k := range kd {
		m[k]++
	}
	return finishProgram(ch, Layout{}, nil, m)
}

func (g *gen) chunkBody() []*Stmt {
	var out []*Stmt
	// a few typed variables of every storage class to start from
	out = append(out, g.seedVars()...)
	n := g.r.Range(g.prof.MaxStmts/2+1, g.prof.MaxStmts)
	faultAt := -1
	if g.r.Chance(g.prof.FaultPct) {
		faultAt = g.r.Intn(n + 1)
	}
	for i := 0; i < n; i++ {
		if i == faultAt {
			out = append(out, g.faultSite()...)
		}
		out = append(out, g.group(g.prof.MaxDepth)...)
	}
	if faultAt == n {
		out = append(out, g.faultSite()...)
	}
	// final return of a few values
	var rets []*Expr
	vs := g.varsWhere(func(v *vinfo) bool { return v.ty != TFn && v.ty != TTbl })
	for k := g.r.Range(1, 3); k > 0 && len(vs) > 0; k-- {
		rets = append(rets, eV(Pick(g.r, vs).name))
	}
	if len(rets) == 0 {
		rets = append(rets, eInt(0))
	}
	out = append(out, sRet(rets...))
	return out
}

func (g *gen) seedVars() []*Stmt {
	var out []*Stmt
	mk := func(ty Ty, global bool) {
		name := g.freshLocal()
		if global {
			name = g.fresh("G")
		}
		mag := 1000.0
		if ty == TStr {
			mag = 64
		}
		var init *Expr
		switch ty {
		case TInt:
			init = g.intLit(100)
		case TNum:
			init = eNum(Pick(g.r, fracLits))
		case TStr:
			init = g.strAtom(12)
		case TBool:
			init = eBool(g.r.Bool())
		case TAny:
			init = Pick(g.r, []*Expr{eInt(0), eNil(), eFalse(), eStr("s"), eInt(7)})
		}
		v := &vinfo{name: name, ty: ty, mag: mag, global: global}
		if global {
			out = append(out, sSet1(eV(name), init))
		} else {
			out = append(out, sLocal1(name, init))
		}
		g.declare(v)
	}
	mk(TInt, false)
	mk(TInt, false)
	mk(TStr, false)
	mk(TAny, false)
	if g.r.Chance(70) {
		mk(TBool, false)
	}
	if g.r.Chance(50) {
		mk(TNum, false)
	}
	if g.feat("globals") {
		mk(TInt, true)
		if g.r.Chance(60) {
			mk(Pick(g.r, []Ty{TStr, TAny, TInt}), true)
		}
	}
	if g.feat("tables") && g.r.Chance(80) {
		out = append(out, g.newTable(false)...)
	}
	g.touched = g.touched[:0]
	return out
}

// group picks one statement group by weight, generates it and appends the emit of the state.
func (g *gen) group(d int) []*Stmt {
	g.ngroups++
	if g.ngroups > g.prof.MaxStmts*2 && d > 1 {
		d = 1
	}
	type cand struct {
		name string
		w    int
	}
	var cs []cand
	total := 0
	names := make([]string, 0, len(g.prof.W))
	for k := range g.prof.W {
		names = append(names, k)
	}
	sort.Strings(names)
	for _, k := range names {
		w := g.prof.W[k]
		gi, ok := groupTable[k]
		if !ok || w <= 0 {
			continue
		}
		if gi.feat != "" && !g.feat(gi.feat) {
			continue
		}
		if gi.block && d <= 1 {
			continue
		}
		if gi.topOnly && (g.fnLvl > 0 || g.mult > 1 || len(g.scopes) > 1) {
			continue
		}
		cs = append(cs, cand{k, w})
		total += w
	}
	for try := 0; try < 6; try++ {
		x := g.r.Intn(total)
		var pick string
		for _, c := range cs {
			if x < c.w {
				pick = c.name
				break
			}
			x -= c.w
		}
		st := groupTable[pick].fn(g, d)
		if st != nil {
			g.extra["grp:"+pick]++
			g.cost(len(st))
			return append(st, g.emitState())
		}
	}
	return []*Stmt{g.emitState()}
}

type groupInfo struct {
	feat    string
	block   bool // needs nesting depth
	topOnly bool // only at the top level of the chunk (idioms that define helpers)
	fn      func(g *gen, d int) []*Stmt
}

var groupTable = map[string]groupInfo{}

func regGroup(name, feat string, block, topOnly bool, fn func(g *gen, d int) []*Stmt) {
	groupTable[name] = groupInfo{feat, block, topOnly, fn}
}

// block generates a nested block of n groups in a fresh scope.
func (g *gen) block(n, d int) []*Stmt {
	g.push(false)
	g.depth++
	var out []*Stmt
	for i := 0; i < n; i++ {
		out = append(out, g.group(d-1)...)
	}
	g.depth--
	g.pop()
	return out
}

func (g *gen) smallN() int {
	if g.mult > 1 || g.depth > 1 {
		return 1
	}
	return g.r.Range(1, 2)
}

// tpl: parse template text; %s holes are filled by the caller with fmt.Sprintf.
func tpl(format string, a ...interface{}) []*Stmt { return mustParse(fmt.Sprintf(format, a...)) }

func src(e *Expr) string { return renderExprText(e) }

func joinSrc(es []*Expr) string {
	var p []string
	for _, e := range es {
		p = append(p, src(e))
	}
	return strings.Join(p, ", ")
}
