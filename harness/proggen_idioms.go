package main

// Program generator — profile idioms (calls, closures, meta, errors, coroutines, limits).
// Each idiom is a text template with random parameters; `$name` becomes a fresh identifier (one suffix per
// instance), `@` becomes the next emit tag. The text is parsed into the generator's AST (ParseLua) so that source
// and S-expression are still produced from one AST by Render.

import (
	"fmt"
	"regexp"
	"strconv"
	"strings"
)

var reDollar = regexp.MustCompile(`\$([A-Za-z_][A-Za-z0-9_]*)`)

// T instantiates a template.
func (g *gen) T(text string, a ...interface{}) []*Stmt {
	g.uniq++
	suf := strconv.Itoa(g.uniq)
	if len(a) > 0 {
		text = fmt.Sprintf(text, a...)
	}
	text = reDollar.ReplaceAllString(text, "${1}_"+suf)
	var b strings.Builder
	for i := 0; i < len(text); i++ {
		if text[i] == '@' {
			b.WriteString(strconv.Itoa(g.nextEmit()))
		} else {
			b.WriteByte(text[i])
		}
	}
	return mustParse(b.String())
}

// small typed source fragments
func (g *gen) sInt() string  { return src(g.intExpr(1, 100)) }
func (g *gen) sLit() string  { return src(g.intLit(50)) }
func (g *gen) sStr() string  { return src(g.strAtom(8)) }
func (g *gen) sBool() string { return src(g.boolExpr(1)) }

// sVals: k comma-separated values of mixed types (ints, strings, booleans; nil only when allowed)
func (g *gen) sVals(k int, allowNil bool) string {
	var p []string
	for i := 0; i < k; i++ {
		switch g.r.Intn(6) {
		case 0:
			p = append(p, g.sStr())
		case 1:
			p = append(p, Pick(g.r, []string{"true", "false"}))
		case 2:
			if allowNil {
				p = append(p, "nil")
			} else {
				p = append(p, g.sLit())
			}
		default:
			p = append(p, g.sLit())
		}
	}
	return strings.Join(p, ", ")
}

func names(stem string, k int) string {
	var p []string
	for i := 1; i <= k; i++ {
		p = append(p, fmt.Sprintf("%s%d", stem, i))
	}
	return strings.Join(p, ", ")
}

func init() {
	for _, n := range []string{"varargs", "multiret", "methods", "tailcall", "unpack", "fntables", "longtail",
		"counters", "siblings", "loopclosures", "upup", "fenv",
		"meta-arith", "meta-index", "meta-cmp", "meta-call", "meta-misc", "rawops", "meta-chain",
		"pcall", "xpcall", "errvalues", "nestedpcall", "errmeta", "assert", "erriter", "intact",
		"co-basic", "co-nested", "co-pcall", "co-wrapgen", "co-status", "co-dead", "co-error", "co-tailyield", "co-counts",
		"deeprec", "manyargs", "strrep"} {
		name := n
		regGroup(name, name, false, false, func(g *gen, d int) []*Stmt {
			if !g.room(60) && g.prof.Name != "limits" {
				return nil
			}
			g.cost(40)
			return idiomTable[name](g)
		})
	}
	// "errpos" is a switch only (controls whether position-prefixed messages are emitted)
}

var idiomTable = map[string]func(g *gen) []*Stmt{
	// ---------------- calls ----------------
	"varargs": func(g *gen) []*Stmt {
		np, na := g.r.Range(0, 2), g.r.Range(0, 5)
		params := names("a", np)
		if np > 0 {
			params += ", "
		}
		lines := []string{
			"emit(@, " + strings.TrimSuffix(params, ", ") + ifs(np > 0, ", ", "") + "select('#', ...))",
			"local x, y = ...\n emit(@, x, y)",
			"emit(@, ...)",
			"emit(@, ..., 'mid')",
			"emit(@, (...))",
			"local t = {...}\n emit(@, t[1], t[2], select('#', ...))",
			"local t = {n = select('#', ...), ...}\n emit(@, t.n, t[1])",
			"emit(@, select(" + strconv.Itoa(g.r.Range(1, 3)) + ", ...))",
			"emit(@, select(-1, 'pad', ...))",
			"emit(@, (select('#', ...)))",
			"local function inner(...) return select('#', ...), ... end\n emit(@, inner(...))\n emit(@, inner(..., 1))\n emit(@, inner(1, ...))",
			"for i = 1, select('#', ...) do emit(@, i, (select(i, ...))) end",
		}
		var body []string
		for _, l := range lines {
			if g.r.Chance(40) {
				body = append(body, l)
			}
		}
		ret := Pick(g.r, []string{"return ...", "return ..., 'z'", "return 'a', ...", "return (...)", "return select('#', ...), ...", "return"})
		return g.T(fmt.Sprintf("local function $f(%s...)\n %s\n %s\nend\nemit(@, $f(%s))\nlocal $r1, $r2, $r3 = $f(%s)\nemit(@, $r1, $r2, $r3)",
			params, strings.Join(body, "\n "), ret, g.sVals(na, true), g.sVals(g.r.Range(0, 3), false)))
	},
	"multiret": func(g *gen) []*Stmt {
		k := g.r.Range(0, 3)
		ctx := []string{
			"$f()", "emit(@, $f())", "emit(@, ($f()))", "emit(@, $f(), 'last')", "emit(@, 'first', $f())",
			"local $t = {$f()}\nemit(@, #$t, $t[1])", "local $u = {$f(), $f()}\nemit(@, #$u)", "local $w = {($f())}\nemit(@, #$w)",
			"local $a1 = $f()\nemit(@, $a1)", "local $b1, $b2 = $f()\nemit(@, $b1, $b2)", "local $c1, $c2, $c3 = $f()\nemit(@, $c1, $c2, $c3)",
			"local $d1, $d2, $d3 = 'h', $f()\nemit(@, $d1, $d2, $d3)", "local $e1, $e2 = $f(), 'x'\nemit(@, $e1, $e2)",
			"local function $g() return $f() end\nemit(@, $g())", "local function $h() return ($f()) end\nemit(@, $h())",
			"local function $i() return 'p', $f() end\nemit(@, $i())", "local function $j() return $f(), 'q' end\nemit(@, $j())",
			"emit(@, select('#', $f()), select('#', ($f())))", "emit(@, hostid($f()))", "emit(@, hostid($f(), $f()))",
		}
		var use []string
		for _, c := range ctx {
			if g.r.Chance(35) {
				use = append(use, c)
			}
		}
		return g.T(fmt.Sprintf("local function $f()\n emit(@)\n return %s\nend\n%s", g.sVals(k, false), strings.Join(use, "\n")))
	},
	"methods": func(g *gen) []*Stmt {
		return g.T(`local $o = {v = %s, name = %s}
function $o:add(n, ...)
  emit(@, self == $o, n, select('#', ...))
  self.v = self.v + n
  return self
end
function $o.plain(x, y) return x, y end
function $o:get() return self.v, self.name end
$o:add(%s)
emit(@, $o:add(%s):add(%s, 'extra'):get())
emit(@, $o.add($o, 1).v, $o.plain(1, 2))
emit(@, $o["get"]($o))
local $s = %s
emit(@, $s:len(), $s:upper(), $s:sub(1, 2), ("x"):rep(3), #$s:rep(2))
local $nest = {inner = {obj = $o}}
function $nest.inner.obj:twice() return self.v * 2 end
emit(@, $nest.inner.obj:twice(), $o:twice())`, g.sLit(), g.sStr(), g.sInt(), g.sLit(), g.sLit(), src(eStr(Pick(g.r, []string{"abc", "Hello", "xy"}))))
	},
	"tailcall": func(g *gen) []*Stmt {
		n := g.r.Range(0, 12)
		return g.T(`local $odd
local function $even(n) emit(@, n) if n == 0 then return true, 'even' end return $odd(n - 1) end
function $odd(n) if n == 0 then return false, 'odd' end return $even(n - 1) end
emit(@, $even(%d))
local function $pass(...) return hostid(...) end
local function $via(f, ...) return f(...) end
emit(@, $pass(%s))
emit(@, $via($pass, %s))
emit(@, $via(select, '#'%s))
local $obj = setmetatable({}, {__call = function(self, a, b) return a, b, 'called' end})
local function $tc(x) return $obj(x, x) end
emit(@, $tc(%s))`, n, g.sVals(g.r.Range(0, 3), true), g.sVals(g.r.Range(1, 3), false), g.optVals(g.r.Range(0, 3)), g.sLit())
	},
	"longtail": func(g *gen) []*Stmt {
		return g.T(`local function $loop(n, acc)
  if n == 0 then return acc end
  return $loop(n - 1, acc + %d)
end
emit(@, $loop(3000, 0))`, g.r.Range(1, 3))
	},
	"unpack": func(g *gen) []*Stmt {
		n := g.r.Range(0, 4)
		i, j := g.r.Range(-1, n+1), g.r.Range(-1, n+2)
		return g.T(`local $t = {%s}
emit(@, unpack($t))
emit(@, unpack($t, %d))
emit(@, unpack($t, %d, %d))
emit(@, select('#', unpack($t, %d, %d)))
emit(@, (unpack($t)))
local $a, $b = unpack($t)
emit(@, $a, $b)
emit(@, hostid(unpack($t, 1, %d)))
emit(@, unpack({}, 1, 2))`, g.sVals(n, false), g.r.Range(1, 3), i, j, i, j, n)
	},
	"fntables": func(g *gen) []*Stmt {
		return g.T(`local $ops = {
  add = function(a, b) return a + b end,
  sub = function(a, b) return a - b end,
  both = function(a, b) return a + b, a - b end,
  [1] = function(...) return select('#', ...) end,
}
$ops.mul = function(a, b) return a * b end
function $ops.neg(a) return -a end
local $x, $y = %s, %s
emit(@, $ops.add($x, $y), $ops["sub"]($x, $y), $ops.both($x, $y))
emit(@, $ops[1](), $ops[1]($x, nil), $ops.mul($x, 2), $ops.neg($y))
for _, $k in ipairs({"add", "sub", "mul"}) do
  emit(@, $k, $ops[$k]($x, $y))
end
local $fs = {}
for $i = 1, 3 do $fs[$i] = function(v) return v * $i end end
emit(@, $fs[1](5), $fs[2](5), $fs[3](5))`, g.sInt(), g.sInt())
	},

	// ---------------- closures ----------------
	"counters": func(g *gen) []*Stmt {
		return g.T(`local function $mk(start, step)
  local c = start
  return function()
    c = c + step
    return c
  end
end
local $c1, $c2 = $mk(%s, %d), $mk(%s, %d)
emit(@, $c1(), $c1(), $c2(), $c1(), $c2())`, g.sLit(), g.r.Range(1, 3), g.sLit(), g.r.Range(1, 5))
	},
	"siblings": func(g *gen) []*Stmt {
		return g.T(`local function $pair(v)
  local n = 0
  local function get() n = n + 1 return v, n end
  local function set(x) v = x n = n + 1 end
  return get, set
end
local $g1, $s1 = $pair(%s)
local $g2, $s2 = $pair(%s)
emit(@, $g1())
$s1(%s)
emit(@, $g1())
emit(@, $g2())
$s2(%s) $s1(nil)
emit(@, $g1())
emit(@, $g2())`, g.sLit(), g.sStr(), g.sStr(), g.sLit())
	},
	"loopclosures": func(g *gen) []*Stmt {
		n := g.r.Range(1, 3)
		switch g.r.Intn(3) {
		case 0:
			return g.T(`local $fs = {}
for $i = 1, %d do
  local j = $i * %d
  $fs[$i] = function() j = j + 1 return $i, j end
end
for $k = 1, %d do emit(@, $fs[$k]()) emit(@, $fs[$k]()) end`, n, g.r.Range(2, 9), n)
		case 1:
			return g.T(`local $fs = {}
local $n = 0
while $n < %d do
  $n = $n + 1
  local v = $n * 10
  $fs[$n] = {get = function() return v end, inc = function() v = v + 1 end}
end
$fs[1].inc()
for $k = 1, %d do emit(@, $fs[$k].get()) end`, n, n)
		default:
			return g.T(`local $fs = {}
for $i, $v in ipairs({%s}) do
  $fs[#$fs + 1] = function(d) $v = $v + d return $i, $v end
end
for $k = 1, #$fs do emit(@, $fs[$k](1)) emit(@, $fs[$k](10)) end`, g.sLit()+", "+g.sLit())
		}
	},
	"upup": func(g *gen) []*Stmt {
		return g.T(`local function $a()
  local x = %s
  return function()
    local y = %s
    return function(d)
      x = x + d
      y = y + x
      return x, y
    end, function() return x, y end
  end
end
local $mid = $a()
local $inc, $peek = $mid()
local $inc2 = $mid()
emit(@, $inc(1))
emit(@, $inc(2))
emit(@, $peek())
emit(@, $inc2(5))
emit(@, $peek())`, g.sLit(), g.sLit())
	},
	"fenv": func(g *gen) []*Stmt {
		switch g.r.Intn(4) {
		case 0:
			return g.T(`local function $f() return gx, emit == nil end
local $env = {gx = %s}
emit(@, setfenv($f, $env) == $f, $f())
$env.gx = %s
emit(@, $f())
emit(@, getfenv($f) == $env, getfenv($f) == getfenv(0), getfenv(1) == getfenv(0), getfenv() == getfenv(1))`, g.sLit(), g.sStr())
		case 1:
			return g.T(`local function $g()
  local e, getfenv = emit, getfenv
  setfenv(1, {emit = emit, y = %s})
  emit(@, y, zz)
  y = %s
  zz = 'new'
  local inner = function() return y, zz end
  e(@, getfenv(1).y, getfenv(inner) == getfenv(1), inner())
  return getfenv(1)
end
local $env = $g()
emit(@, $env.y, $env.zz, rawget(getfenv(0), 'zz'))`, g.sLit(), g.sLit())
		case 2:
			return g.T(`local function $setter(e) setfenv(2, e) end
local function $outer()
  local em, getfenv = emit, getfenv
  $setter({w = %s})
  em(@, w, emit)
  w2 = 1
  em(@, getfenv(1).w2)
end
$outer()
emit(@, rawget(getfenv(0), 'w2'), rawget(getfenv(0), 'w'))`, g.sLit())
		default:
			return g.T(`local $env = {emit = emit}
local $mk = setfenv(function() return function() count = (count or 0) + 1 return count end end, $env)
local $c = $mk()
emit(@, $c(), $c(), $env.count, rawget(getfenv(0), 'count'), getfenv($c) == $env)`)
		}
	},

	// ---------------- metatables ----------------
	"meta-arith": func(g *gen) []*Stmt {
		evs := []string{"add", "sub", "mul", "div", "mod", "pow", "concat"}
		ops := map[string]string{"add": "+", "sub": "-", "mul": "*", "div": "/", "mod": "%", "pow": "^", "concat": ".."}
		var defs, uses []string
		rets := []string{"'r'", "42", "a", "nil", "false", "1, 2", "{id = 9}", "$id(a)"}
		operands := []string{"$A", "$B", "$P", "5", "'7'", "'s'", "nil", "true", "$x"}
		for _, e := range evs {
			if g.r.Chance(55) {
				defs = append(defs, fmt.Sprintf("$mt.__%s = function(a, b) emit(@, '%s', $id(a), $id(b)) return %s end", e, e, Pick(g.r, rets)))
			}
		}
		if g.r.Chance(50) {
			defs = append(defs, "$mt.__unm = function(a, b) emit(@, 'unm', $id(a), $id(b)) return "+Pick(g.r, rets)+" end")
		}
		if g.r.Chance(30) {
			defs = append(defs, "$mt2.__add = function(a, b) emit(@, 'add2', $id(a), $id(b)) return 'second' end")
		}
		for k := g.r.Range(3, 8); k > 0; k-- {
			e := Pick(g.r, evs)
			l, r := Pick(g.r, operands), Pick(g.r, operands)
			if g.r.Chance(70) {
				if g.r.Bool() {
					l = Pick(g.r, []string{"$A", "$B"})
				} else {
					r = Pick(g.r, []string{"$A", "$B"})
				}
			}
			uses = append(uses, fmt.Sprintf("$try(function() return %s %s %s end)", l, ops[e], r))
		}
		uses = append(uses, "$try(function() return -"+Pick(g.r, []string{"$A", "$B", "$P"})+" end)")
		return g.T(fmt.Sprintf(`local function $id(v) if type(v) == 'table' then return rawget(v, 'id') end return v end
local function $try(f) local ok, v, w = pcall(f) if ok then emit(@, true, $id(v), w) else emit(@, false) end end
local $mt, $mt2 = {}, {}
%s
local $A, $B, $P = setmetatable({id = 1}, $mt), setmetatable({id = 2}, $mt2), {id = 3}
local $x = %s
%s`, strings.Join(defs, "\n"), g.sLit(), strings.Join(uses, "\n")))
	},
	"meta-cmp": func(g *gen) []*Stmt {
		var defs, uses []string
		rets := []string{"true", "false", "nil", "'yes'", "0", "$id(a) < $id(b)", "1, false"}
		for _, e := range []string{"eq", "lt", "le"} {
			if g.r.Chance(65) {
				defs = append(defs, fmt.Sprintf("$mt.__%s = function(a, b) emit(@, '%s', $id(a), $id(b)) return %s end", e, e, Pick(g.r, rets)))
			}
		}
		if g.r.Chance(40) {
			defs = append(defs, "$mt2.__lt = $mt.__lt\n$mt2.__eq = $mt.__eq")
		}
		if g.r.Chance(30) {
			defs = append(defs, "$mt2.__le = function(a, b) emit(@, 'le2') return true end")
		}
		operands := []string{"$A", "$A2", "$B", "$P", "1", "'s'", "nil"}
		for k := g.r.Range(4, 9); k > 0; k-- {
			op := Pick(g.r, []string{"==", "~=", "<", "<=", ">", ">="})
			l, r := Pick(g.r, operands[:4]), Pick(g.r, operands)
			if g.r.Chance(25) {
				l, r = r, l
			}
			uses = append(uses, fmt.Sprintf("$try(function() return %s %s %s end)", l, op, r))
		}
		uses = append(uses, "emit(@, rawequal($A, $A2), rawequal($A, $A), $A == $A)")
		return g.T(fmt.Sprintf(`local function $id(v) if type(v) == 'table' then return rawget(v, 'id') end return v end
local function $try(f) local ok, v = pcall(f) if ok then emit(@, true, v) else emit(@, false) end end
local $mt, $mt2 = {}, {}
%s
local $A, $A2, $B, $P = setmetatable({id = 1}, $mt), setmetatable({id = 2}, $mt), setmetatable({id = 3}, $mt2), {id = 4}
%s`, strings.Join(defs, "\n"), strings.Join(uses, "\n")))
	},
	"meta-index": func(g *gen) []*Stmt {
		idx := Pick(g.r, []string{
			"$base", "function(t, k) emit(@, 'index', rawget(t, 'id'), k) return k .. '!' end",
			"function(t, k) emit(@, 'index', k) return nil end", "function(t, k) return $base[k], 'second' end"})
		nidx := Pick(g.r, []string{
			"$store", "function(t, k, v) emit(@, 'newindex', rawget(t, 'id'), k, v) rawset(t, k, v) end",
			"function(t, k, v) emit(@, 'newindex-drop', k, v) end", "function(t, k, v) $store[k] = v return 'ignored' end"})
		var defs []string
		if g.r.Chance(80) {
			defs = append(defs, "$mt.__index = "+idx)
		}
		if g.r.Chance(70) {
			defs = append(defs, "$mt.__newindex = "+nidx)
		}
		return g.T(fmt.Sprintf(`local $base = {shared = %s, x = 'base-x', [1] = 'one'}
local $store = {}
local $mt = {}
%s
local $o = setmetatable({id = 1, own = %s}, $mt)
emit(@, $o.own, $o.shared, $o.x, $o[1], $o.missing, $o[2])
$o.own = 'changed'
$o.fresh = %s
$o[1] = 'arr'
emit(@, rawget($o, 'own'), rawget($o, 'fresh'), rawget($o, 1), $store.fresh, $store[1], $o.fresh)
rawset($o, 'raw', 5)
emit(@, $o.raw, rawget($o, 'shared'), #$o)`, g.sLit(), strings.Join(defs, "\n"), g.sStr(), g.sLit()))
	},
	"meta-chain": func(g *gen) []*Stmt {
		depth := g.r.Range(1, 5)
		fnEnd := g.r.Chance(40)
		var b strings.Builder
		b.WriteString("local $l0 = {deep = 'bottom', n0 = 0}\n")
		if fnEnd {
			b.WriteString("setmetatable($l0, {__index = function(t, k) emit(@, 'end-of-chain', k) return 'dflt' end, __newindex = function(t, k, v) emit(@, 'ni-end', k, v) rawset(t, k, v) end})\n")
		}
		for i := 1; i <= depth; i++ {
			fmt.Fprintf(&b, "local $l%d = setmetatable({n%d = %d}, {__index = $l%d, __newindex = $l%d})\n", i, i, i, i-1, i-1)
		}
		fmt.Fprintf(&b, "local $top = $l%d\n", depth)
		b.WriteString("emit(@, $top.deep, $top.n0, $top.n1, $top.nothing)\n$top.created = 'v'\n$top.deep = 'over'\n")
		b.WriteString("emit(@, rawget($top, 'created'), rawget($l0, 'created'), rawget($l0, 'deep'), $top.created, $top.deep)\n")
		return g.T(b.String())
	},
	"meta-call": func(g *gen) []*Stmt {
		return g.T(`local $mt = {__call = function(self, ...) emit(@, 'call', rawget(self, 'id'), select('#', ...)) return %s end}
local $c = setmetatable({id = 1}, $mt)
emit(@, $c())
emit(@, $c(%s))
emit(@, ($c(1, 2)))
local $r1, $r2, $r3 = $c('a')
emit(@, $r1, $r2, $r3)
local function $tail(...) return $c(...) end
emit(@, $tail(%s))
emit(@, pcall($c, 1, 2, 3))
local $nested = setmetatable({id = 2}, {__call = $c})
emit(@, pcall(function() return $nested(7) end))`, Pick(g.r, []string{"...", "'one'", "1, 2, 3", "self.id, ...", ""}), g.sVals(g.r.Range(0, 4), true), g.sVals(g.r.Range(0, 3), false))
	},
	"meta-misc": func(g *gen) []*Stmt {
		return g.T(`local $mt = {__tostring = function(t) emit(@, 'tostring') return 'obj#' .. rawget(t, 'id') end, __len = function() emit(@, 'len') return 99 end, __metatable = %s}
local $o = setmetatable({id = %s, 10, 20, 30}, $mt)
emit(@, tostring($o), #$o, getmetatable($o) == $mt, type(getmetatable($o)))
emit(@, (pcall(setmetatable, $o, {})))
local $p = setmetatable({}, {__concat = function(a, b) return 'cat' end})
emit(@, $p .. 'x', 'x' .. $p, 1 .. $p, $p .. $p)
emit(@, getmetatable({}), getmetatable('abc') ~= nil, getmetatable('abc').__index == string, getmetatable(1))
emit(@, setmetatable({}, nil) ~= nil, (pcall(setmetatable, 1, {})))`, Pick(g.r, []string{"nil", "'locked'", "false", "42"}), g.sLit())
	},
	"rawops": func(g *gen) []*Stmt {
		return g.T(`local $log = 0
local $mt = {__index = function(t, k) $log = $log + 1 return 'dflt' end, __newindex = function(t, k, v) $log = $log + 10 end, __eq = function() $log = $log + 100 return true end}
local $a, $b = setmetatable({}, $mt), setmetatable({}, $mt)
emit(@, rawget($a, 'k'), $a.k, $log)
rawset($a, 'k', %s)
$a.other = 1
emit(@, rawget($a, 'k'), rawget($a, 'other'), $a.k, $log)
emit(@, rawequal($a, $b), $a == $b, $a ~= $b, rawequal($a, $a), $log)
emit(@, rawequal('x', 'x'), rawequal(1, 1.0), rawequal({}, {}), rawequal(nil, false))`, g.sLit())
	},

	// ---------------- errors ----------------
	"pcall": func(g *gen) []*Stmt {
		return g.T(`local function $ok(...) return ... end
local function $bad(v) error(v, 0) end
emit(@, pcall($ok))
emit(@, pcall($ok, %s))
emit(@, pcall($bad, %s))
emit(@, pcall($bad, 'msg'))
emit(@, select('#', pcall($bad)), pcall($bad, nil))
emit(@, pcall(pcall, $bad, 'inner'))
emit(@, pcall(error))
local $r = {pcall($ok, 1, nil, 3)}
emit(@, $r[1], $r[2], $r[3], $r[4])
emit(@, (pcall(function() local x = nil; return x.y end)))
emit(@, (pcall(function() return 1 + {} end)), (pcall(function() return #5 end)), (pcall(function() return {} < {} end)))`, g.sVals(g.r.Range(1, 4), true), g.sLit())
	},
	"xpcall": func(g *gen) []*Stmt {
		return g.T(`local $depth = 0
local function $h(m)
  emit(@, 'handler', type(m), $depth)
  if type(m) == 'table' then return m.code end
  return %s
end
local function $body() $depth = $depth + 1 error(%s, 0) end
emit(@, xpcall($body, $h))
emit(@, xpcall(function() return 1, 2, 3 end, $h))
emit(@, (xpcall(function() local t = nil; t.x = 1 end, function(m) emit(@, 'h2', type(m)) return 'handled' end)))
emit(@, xpcall(function() error({code = %s}) end, $h))
emit(@, xpcall($body, function(m) return m, 'second' end))`, Pick(g.r, []string{"'H:' .. tostring(m)", "m", "nil", "42"}), Pick(g.r, []string{"'e1'", "17", "true", "nil"}), g.sLit())
	},
	"errvalues": func(g *gen) []*Stmt {
		pos := "type(m)"
		if g.feat("errpos") {
			pos = "m"
		}
		return g.T(fmt.Sprintf(`local $vals = {%s, 'str', true, false, {code = 1}, 2.5}
for $i = 1, #$vals do
  local ok, m = pcall(error, $vals[$i], 0)
  emit(@, $i, ok, type(m), rawequal(m, $vals[$i]))
end
emit(@, pcall(error, nil))
local function $lvl1() error('L1', 1) end
local function $lvl2() error('L2', 2) end
local function $lvl0() error('L0', 0) end
local function $call2() $lvl2() end
local ok, m = pcall($lvl0)
emit(@, ok, m)
ok, m = pcall($lvl1)
emit(@, ok, %s)
ok, m = pcall($call2)
emit(@, ok, %s)
ok, m = pcall(function() error('deflt') end)
emit(@, ok, %s)
ok, m = pcall(function() error(12, 1) end)
emit(@, ok, m)`, g.sLit(), pos, pos, pos))
	},
	"nestedpcall": func(g *gen) []*Stmt {
		return g.T(`local $trace = {}
local function $lvl3() $trace[#$trace + 1] = 'in3' error(%s, 0) end
local function $lvl2()
  local ok, m = pcall($lvl3)
  $trace[#$trace + 1] = 'after3'
  if %s then error(m, 0) end
  return 'recovered', m
end
local $a, $b, $c = pcall($lvl2)
emit(@, $a, $b, $c, #$trace)
emit(@, xpcall(function() return pcall($lvl3) end, function(m) emit(@, 'outer-handler') return m end))
emit(@, pcall(xpcall, $lvl3, function(m) return 'h:' .. tostring(m) end))
emit(@, pcall(function() local ok = pcall(error, 'x', 0); error('y', 0) end))
emit(@, table.concat($trace, ','))`, Pick(g.r, []string{"'deep'", "7", "{}"}), Pick(g.r, []string{"true", "false", "m == 7"}))
	},
	"errmeta": func(g *gen) []*Stmt {
		return g.T(`local $mt = {__index = function(t, k) error('idx:' .. k, 0) end, __add = function(a, b) error({op = 'add'}, 0) end,
  __call = function(self, x) if x then error(x, 0) end return 'fine' end, __newindex = function(t, k, v) error(v, 0) end}
local $o = setmetatable({}, $mt)
emit(@, pcall(function() return $o.field end))
local ok, m = pcall(function() return $o + 1 end)
emit(@, ok, type(m), type(m) == 'table' and m.op)
emit(@, pcall($o), pcall($o, 'boom'))
emit(@, pcall(function() $o.k = %s end))
emit(@, rawget($o, 'k'), pcall(rawset, $o, 'k', 1))`, g.sLit())
	},
	"erriter": func(g *gen) []*Stmt {
		k := g.r.Range(1, 3)
		return g.T(`local function $iter(n)
  local i = 0
  return function()
    i = i + 1
    if i == %d then error('iter' .. i, 0) end
    if i <= n then return i end
  end
end
local $seen = 0
emit(@, pcall(function() for v in $iter(3) do $seen = $seen + v emit(@, v) end end))
emit(@, $seen)
emit(@, pcall(function() for i = 1, 3 do if i == %d then error(i, 0) end end return 'done' end))`, k, g.r.Range(1, 4))
	},
	"assert": func(g *gen) []*Stmt {
		return g.T(`emit(@, assert(%s))
emit(@, assert(1, 'm', 'extra'))
emit(@, select('#', assert(true, nil, nil)))
emit(@, pcall(assert, false, 'amsg'))
emit(@, pcall(assert, nil, {code = 1}))
emit(@, (pcall(assert, false)), (pcall(assert, nil)), (pcall(assert)))
emit(@, pcall(assert, %s, 'not raised'))`, g.sLit(), Pick(g.r, []string{"0", "''", "true", "{}"}))
	},
	"intact": func(g *gen) []*Stmt {
		return g.T(`local $l1, $l2 = %s, %s
local $t = {v = 1}
$G = %s
local function $upd() $l1 = $l1 + 1 $t.v = $t.v + 1 $G = $G + 1 end
local $ok = pcall(function()
  local inner = 'i'
  $upd()
  $l2 = $l2 .. inner
  error('stop', 0)
  $upd()
end)
emit(@, $ok, $l1, $l2, $t.v, $G)
$upd()
emit(@, $l1, $t.v, $G)
$ok = pcall(function() $l1 = nil + 1 end)
emit(@, $ok, $l1)
$G = nil`, g.sLit(), g.sStr(), g.sLit())
	},

	// ---------------- coroutines ----------------
	"co-basic": func(g *gen) []*Stmt {
		return g.T(`local $co = coroutine.create(function(a, b)
  emit(@, 'start', a, b)
  local c = coroutine.yield(a + b)
  emit(@, 'got', c)
  local d, e = coroutine.yield(c, 'two')
  emit(@, 'got2', d, e)
  return 'fin', d
end)
emit(@, coroutine.status($co))
emit(@, coroutine.resume($co, %s, %s))
emit(@, coroutine.status($co))
emit(@, coroutine.resume($co, %s))
emit(@, coroutine.resume($co, %s))
emit(@, coroutine.status($co), (coroutine.resume($co)))`, g.sLit(), g.sLit(), g.sStr(), g.sVals(2, false))
	},
	"co-counts": func(g *gen) []*Stmt {
		// payload counts on both sides independent of the wanted counts; wanted ≤ given (or open-ended) unless kd
		give, want, yv := g.r.Range(0, 4), g.r.Range(0, 4), g.r.Range(0, 4)
		recv := "emit(@, coroutine.yield(" + g.sVals(yv, false) + "))"
		kd := false
		if want > 0 && g.r.Chance(60) {
			recv = "local " + names("w", want) + " = coroutine.yield(" + g.sVals(yv, false) + ")\n  emit(@, " + names("w", want) + ")"
			if want > give {
				kd = true
			}
		} else if g.r.Chance(30) {
			recv = "coroutine.yield(" + g.sVals(yv, false) + ")"
		}
		if kd {
			g.kd["kd:yield-adjust"]++
		}
		rw := g.r.Range(0, 3)
		res := "emit(@, coroutine.resume($co, " + g.sVals(give, false) + "))"
		if give == 0 {
			res = "emit(@, coroutine.resume($co))"
		}
		if rw > 0 && g.r.Bool() {
			res = "local " + names("$r", rw) + " = coroutine.resume($co" + ifs(give > 0, ", "+g.sVals(give, false), "") + ")\nemit(@, " + names("$r", rw) + ")"
		}
		return g.T(fmt.Sprintf(`local $co = coroutine.create(function(...)
  emit(@, select('#', ...))
  %s
  return %s
end)
emit(@, coroutine.resume($co%s))
%s
emit(@, coroutine.status($co))`, recv, g.sVals(g.r.Range(0, 3), false), g.optVals(g.r.Range(0, 3)), res))
	},
	"co-wrapgen": func(g *gen) []*Stmt {
		n := g.r.Range(0, 3)
		return g.T(`local function $gen(n)
  return coroutine.wrap(function()
    for i = 1, n do coroutine.yield(i, i * %d) end
  end)
end
for $i, $v in $gen(%d) do emit(@, $i, $v) end
local $w = coroutine.wrap(function(a) local b = coroutine.yield(a * 2) return a + b end)
emit(@, $w(%s))
emit(@, $w(%s))
emit(@, (pcall($w)))`, g.r.Range(2, 5), n, g.sLit(), g.sLit())
	},
	"co-nested": func(g *gen) []*Stmt {
		return g.T(`local $A, $B
$B = coroutine.create(function(x)
  emit(@, 'B', coroutine.status($A), coroutine.status($B))
  local y = coroutine.yield(x + 1)
  emit(@, 'B2', y)
  return 'B-done'
end)
$A = coroutine.create(function()
  emit(@, 'A', coroutine.resume($B, %s))
  local v = coroutine.yield('A-yield')
  emit(@, 'A2', v, coroutine.resume($B, v))
  emit(@, coroutine.status($B))
  return 'A-done'
end)
emit(@, coroutine.resume($A))
emit(@, coroutine.status($A), coroutine.status($B))
emit(@, coroutine.resume($A, %s))
emit(@, coroutine.status($A), coroutine.status($B), coroutine.running() == nil)`, g.sLit(), g.sStr())
	},
	"co-pcall": func(g *gen) []*Stmt {
		// pinned tree: a yield inside pcall inside a coroutine makes the pcall return (true, nil) at once and the next
		// resume dereferences a nil pointer (Lua 5.1: "attempt to yield across metamethod/C-call boundary" inside the pcall)
		g.kd["kd:yield-across-pcall"]++
		return g.T(`local $co = coroutine.create(function()
  local ok, a = pcall(function()
    local v = coroutine.yield('in-pcall')
    emit(@, 'resumed-in-pcall', v)
    if v == 'fail' then error('E', 0) end
    return v
  end)
  emit(@, 'after-pcall', ok, a)
  local w = coroutine.yield('outside')
  return ok, w
end)
emit(@, coroutine.resume($co))
emit(@, coroutine.resume($co, %s))
emit(@, coroutine.resume($co, 'last'))
emit(@, coroutine.status($co))`, Pick(g.r, []string{"'fail'", "'fine'", "1"}))
	},
	"co-status": func(g *gen) []*Stmt {
		return g.T(`local $co
$co = coroutine.create(function()
  emit(@, coroutine.status($co), coroutine.running() == $co)
  coroutine.yield()
  emit(@, coroutine.status($co))
end)
emit(@, coroutine.status($co), coroutine.running() == nil, type($co))
coroutine.resume($co)
emit(@, coroutine.status($co))
coroutine.resume($co)
emit(@, coroutine.status($co))
emit(@, (coroutine.resume($co)), coroutine.status($co))
emit(@, (pcall(coroutine.resume, nil)), (pcall(coroutine.status, 1)))`)
	},
	"co-dead": func(g *gen) []*Stmt {
		return g.T(`local $co = coroutine.create(function(...) return %s end)
emit(@, coroutine.resume($co, 1, 2))
emit(@, (coroutine.resume($co)))
emit(@, (coroutine.resume($co, 'again')), coroutine.status($co))
local $w = coroutine.wrap(function() return 'once' end)
emit(@, $w())
emit(@, (pcall($w)))
emit(@, (coroutine.resume(coroutine.running() or coroutine.create(function() end))))`, Pick(g.r, []string{"...", "'r'", "", "select('#', ...)"}))
	},
	"co-error": func(g *gen) []*Stmt {
		return g.T(`local $co = coroutine.create(function(v)
  emit(@, 'before')
  coroutine.yield(1)
  error(v, 0)
end)
emit(@, coroutine.resume($co, %s))
local $ok, $m = coroutine.resume($co)
emit(@, $ok, type($m), coroutine.status($co))
emit(@, (coroutine.resume($co)))
local $c2 = coroutine.create(function() local t = nil; return t.x end)
emit(@, (coroutine.resume($c2)), coroutine.status($c2))
local $c3 = coroutine.wrap(function() error({code = %s}) end)
local ok, e = pcall($c3)
emit(@, ok, type(e), type(e) == 'table' and e.code)`, Pick(g.r, []string{"'boom'", "42", "{}", "nil", "false"}), g.sLit())
	},
	"co-tailyield": func(g *gen) []*Stmt {
		// pinned tree: `return coroutine.yield(…)` (OP_TAILCALL of yield) crashes the next resume with a Go nil dereference
		g.kd["kd:tailcall-yield"]++
		return g.T(`local function $y(...) return coroutine.yield(...) end
local $co = coroutine.create(function(a)
  local b = $y(a, 'tail')
  emit(@, 'b', b)
  return $y(b)
end)
emit(@, coroutine.resume($co, %s))
emit(@, coroutine.resume($co, %s))
emit(@, coroutine.resume($co, 'x', 'y'))
emit(@, coroutine.status($co))
local $w = coroutine.wrap(function() return coroutine.yield(coroutine.yield(1)) end)
emit(@, $w(), $w(2), $w(3))`, g.sLit(), g.sStr())
	},

	// ---------------- limits ----------------
	"deeprec": func(g *gen) []*Stmt {
		return g.T(`local function $deep(n) if n <= 0 then return 0 end return 1 + $deep(n - 1) end
local $ok, $v = pcall($deep, %d)
emit(@, $ok, $ok and $v)
emit(@, pcall($deep, 3))`, g.prof.N)
	},
	"manyargs": func(g *gen) []*Stmt {
		return g.T(`local $t = {}
for i = 1, %d do $t[i] = i end
local function $cnt(...) return select('#', ...) end
local $ok, $v = pcall(function() return $cnt(unpack($t)) end)
emit(@, $ok, $ok and $v)
local $ok2, $v2 = pcall(function() local r = {unpack($t)} return #r end)
emit(@, $ok2, $ok2 and $v2)`, g.prof.N)
	},
	"strrep": func(g *gen) []*Stmt {
		return g.T(`local $ok, $s = pcall(string.rep, %s, %d)
emit(@, $ok, $ok and #$s)
local $ok2, $c = pcall(function() local s = string.rep('a', %d) return #(s .. s) end)
emit(@, $ok2, $ok2 and $c)`, src(eStr(Pick(g.r, []string{"x", "ab", ""}))), g.prof.N, g.prof.N)
	},
}

// optVals: "" or ", v1, v2 …"
func (g *gen) optVals(k int) string {
	if k == 0 {
		return ""
	}
	return ", " + g.sVals(k, false)
}

func ifs(c bool, a, b string) string {
	if c {
		return a
	}
	return b
}
