package main

// Program generator — renderer: AST → Lua source in a chosen lexical layout (assigning the L/Lu/Le line fields)
// and, from the SAME AST, the S-expression line of docs/AST.md.

import (
	"fmt"
	"math"
	"strconv"
	"strings"
)

// Layout selects the lexical layout of the rendered source.
type Layout struct {
	Kind string // "oneline" (default), "spread", "dense"
	EOL  string // "\n" (default), "\r\n", "\r"
}

type renderer struct {
	r       *Rng
	lay     Layout
	eol     string
	b       strings.Builder
	line    int
	indent  int
	bol     bool   // at beginning of a line (nothing but indentation emitted)
	last    string // last token emitted on the current logical position ("" after a line break)
	noBreak int    // >0: the next gap must not contain a line break
	glue    bool   // next token attaches without blank
	mark    []*int // line fields to fill when the next token is emitted
	fancy   bool   // layout permits comments / redundant parentheses / alternative literal spellings
	ntok    int
	TokLine []int // line of every token emitted (self-test cross-checks this against gopher-lua's scanner)
}

// Render produces the source text and the S-expression of the same AST. The L/Lu/Le fields of the AST are
// overwritten with the lines of THIS rendering. r may be nil (fixed choices).
func Render(ast *Chunk, layout Layout, r *Rng) (src string, sexp string) {
	w := newRenderer(layout, r)
	w.block(ast.Body, true)
	if !w.bol {
		w.newline()
	}
	return w.b.String(), sexpChunk(ast)
}

func newRenderer(layout Layout, r *Rng) *renderer {
	if r == nil {
		r = NewRng(0)
	}
	if layout.Kind == "" {
		layout.Kind = "oneline"
	}
	if layout.EOL == "" {
		layout.EOL = "\n"
	}
	return &renderer{r: r, lay: layout, eol: layout.EOL, line: 1, bol: true, fancy: layout.Kind != "oneline"}
}

// renderExprText renders one expression on one line (used by text templates).
func renderExprText(e *Expr) string {
	w := newRenderer(Layout{}, nil)
	w.expr(e, 0)
	return w.b.String()
}

var commentTexts = []string{"note", "x = x + 1", "end", "TODO: nothing", "return 1", "'quoted' \"text\"", "]] not a close", "if then else", "", "--", "a,b = b,a"}

func (w *renderer) newline() {
	w.b.WriteString(w.eol)
	w.line++
	w.bol = true
	w.last = ""
}

func (w *renderer) lineComment() {
	if !w.bol {
		w.b.WriteByte(' ')
	}
	t := Pick(w.r, commentTexts)
	if strings.HasPrefix(t, "[") {
		t = " " + t
	}
	w.b.WriteString("-- " + t)
	w.newline()
}

func (w *renderer) longComment() {
	lvl := w.r.Intn(3)
	eq := strings.Repeat("=", lvl)
	if lvl == 1 && w.r.Bool() {
		eq = "=="
	}
	body := []string{Pick(w.r, commentTexts)}
	for w.r.Chance(45) && len(body) < 4 {
		body = append(body, Pick(w.r, commentTexts))
	}
	txt := strings.Join(body, w.eol)
	if eq == "" {
		txt = strings.ReplaceAll(txt, "]]", "] ]")
	}
	if !w.bol && w.last != "" {
		w.b.WriteByte(' ')
	}
	w.b.WriteString("--[" + eq + "[ " + txt + " ]" + eq + "]")
	w.line += len(body) - 1
	w.bol = false
	w.last = "]]"
}

func (w *renderer) writeIndent() {
	if w.lay.Kind == "dense" {
		return
	}
	n := w.indent
	if w.lay.Kind == "spread" && w.r.Chance(30) {
		n = w.r.Intn(6)
		if w.r.Chance(30) {
			w.b.WriteString(strings.Repeat("\t", n%3))
			return
		}
	}
	w.b.WriteString(strings.Repeat("  ", n))
}

func isWordByte(c byte) bool {
	return c == '_' || (c >= '0' && c <= '9') || (c >= 'a' && c <= 'z') || (c >= 'A' && c <= 'Z')
}

// needBlank: would the two tokens lex differently when written without a separator?
func needBlank(a, b string) bool {
	if a == "" || b == "" {
		return false
	}
	x, y := a[len(a)-1], b[0]
	if isWordByte(x) && isWordByte(y) {
		return true
	}
	switch {
	case x == '-' && y == '-', x == '.' && y == '.', x == '[' && (y == '[' || y == '='), x == ']' && y == ']',
		x == '=' && y == '=', x == '<' && y == '=', x == '>' && y == '=', x == '~' && y == '=',
		(a[0] >= '0' && a[0] <= '9' || a[0] == '.') && y == '.', x == '.' && (y >= '0' && y <= '9'), x == ':' && y == ':':
		return true
	}
	return false
}

// tok emits one token, preceded by the gap the layout chooses.
func (w *renderer) tok(t string) {
	glue := w.glue
	w.glue = false
	if w.bol {
		w.writeIndent()
		w.bol = false
	} else if w.last != "" {
		brk := false
		if w.lay.Kind == "spread" && w.noBreak == 0 && !glue && t != "(" && w.r.Chance(9) {
			brk = true
		}
		switch {
		case brk:
			switch w.r.Intn(6) {
			case 0:
				w.lineComment()
			case 1:
				w.longComment()
				w.newline()
			case 2:
				w.newline()
				w.newline()
			default:
				w.newline()
			}
			w.indent++
			w.writeIndent()
			w.indent--
			w.bol = false
		case glue && !needBlank(w.last, t):
		default:
			if w.lay.Kind == "spread" && w.noBreak == 0 && w.r.Chance(3) {
				w.longComment()
			}
			w.b.WriteByte(' ')
			if w.lay.Kind == "spread" && w.r.Chance(4) {
				w.b.WriteString(Pick(w.r, []string{" ", "\t", "   "}))
			}
		}
	}
	for _, p := range w.mark {
		*p = w.line
	}
	w.mark = w.mark[:0]
	w.b.WriteString(t)
	w.TokLine = append(w.TokLine, w.line)
	w.ntok++
	w.last = t
}

// tokML emits a token whose text spans `extra` additional lines (long strings).
func (w *renderer) tokML(t string, extra int) {
	w.tok(t)
	w.line += extra
}

func (w *renderer) tight(t string) { w.glue = true; w.tok(t) } // attach to the previous token
func (w *renderer) open(t string)  { w.tok(t); w.glue = true } // next token attaches

// ---------- statements ----------

// stmtSep: separator BEFORE a statement (except the first one in the file).
func (w *renderer) beginStmt(first bool) {
	switch w.lay.Kind {
	case "dense":
		if w.bol {
			return
		}
		switch {
		case w.r.Chance(18):
			w.newline()
		default:
			// blank is inserted by tok()
		}
	case "spread":
		if !w.bol {
			if w.r.Chance(12) {
				w.lineComment()
			} else {
				w.newline()
			}
		}
		for w.r.Chance(18) {
			switch w.r.Intn(3) {
			case 0:
				w.newline()
			case 1:
				w.writeIndent()
				w.bol = false
				w.lineComment()
			default:
				w.writeIndent()
				w.bol = false
				w.last = ""
				w.longComment()
				w.newline()
			}
		}
	default:
		if !w.bol {
			w.newline()
		}
	}
}

// endStmt: optional semicolon.
func (w *renderer) endStmt(s *Stmt) {
	if !w.fancy {
		return
	}
	p := 10
	if w.lay.Kind == "dense" {
		p = 35
	}
	if w.r.Chance(p) {
		w.noBreak++
		w.tight(";")
		w.noBreak--
	}
}

func (w *renderer) block(ss []*Stmt, top bool) {
	for i, s := range ss {
		w.beginStmt(top && i == 0)
		w.stmt(s)
		w.endStmt(s)
	}
}

func (w *renderer) body(ss []*Stmt) {
	w.indent++
	w.block(ss, false)
	w.indent--
}

// closer: `end` / `until` / `else` go on their own line in the line-oriented layouts.
func (w *renderer) closer(t string, lineField *int) {
	if w.lay.Kind != "dense" && !w.bol {
		w.newline()
	}
	if w.lay.Kind == "dense" && w.r.Chance(10) && !w.bol {
		w.newline()
	}
	if lineField != nil {
		w.mark = append(w.mark, lineField)
	}
	w.noBreak++
	w.tok(t)
	w.noBreak--
}

func isIdent(s string) bool {
	if s == "" || (s[0] >= '0' && s[0] <= '9') {
		return false
	}
	for i := 0; i < len(s); i++ {
		if !isWordByte(s[i]) {
			return false
		}
	}
	_, kw := luaKeywords[s]
	return !kw
}

var luaKeywords = map[string]bool{"and": true, "break": true, "do": true, "else": true, "elseif": true, "end": true, "false": true,
	"for": true, "function": true, "if": true, "in": true, "local": true, "nil": true, "not": true, "or": true, "return": true,
	"repeat": true, "then": true, "true": true, "until": true, "while": true, "goto": true}

// funcNameChain: can target be written as a `function a.b.c` name?  Returns the parts.
func funcNameChain(t *Expr) ([]string, bool) {
	if t.K == "v" {
		return []string{t.S}, true
	}
	if t.K == "ix" && t.B.K == "s" && isIdent(t.B.S) {
		if p, ok := funcNameChain(t.A); ok {
			return append(p, t.B.S), true
		}
	}
	return nil, false
}

func (w *renderer) stmt(s *Stmt) {
	w.mark = append(w.mark, &s.L)
	switch s.K {
	case "local":
		w.tok("local")
		w.noBreak++
		w.names(s.Names)
		w.noBreak--
		if len(s.Es) > 0 {
			w.tok("=")
			w.exprList(s.Es)
		}
	case "set":
		if len(s.Targets) == 1 && len(s.Es) == 1 && s.Es[0].K == "fn" && w.r.Chance(60) {
			if parts, ok := funcNameChain(s.Targets[0]); ok {
				fn := s.Es[0]
				meth := len(parts) > 1 && len(fn.Params) > 0 && fn.Params[0] == "self" && w.r.Chance(80)
				w.noBreak++
				w.mark = append(w.mark, &fn.L)
				w.tok("function")
				for i, p := range parts {
					if i > 0 {
						if meth && i == len(parts)-1 {
							w.tight(":")
						} else {
							w.tight(".")
						}
						w.glue = true
					}
					w.tok(p)
				}
				params := fn.Params
				if meth {
					params = params[1:]
				}
				w.funcBody(fn, params)
				return
			}
		}
		for i, t := range s.Targets {
			if i > 0 {
				w.tight(",")
			}
			w.expr1(t)
		}
		w.tok("=")
		w.exprList(s.Es)
	case "callst":
		w.expr(s.Es[0], 0)
	case "do":
		w.tok("do")
		w.body(s.Body)
		w.closer("end", nil)
	case "while":
		w.tok("while")
		w.expr(s.Es[0], 0)
		w.tok("do")
		w.body(s.Body)
		w.closer("end", nil)
	case "repeat":
		w.tok("repeat")
		w.body(s.Body)
		w.closer("until", &s.Lu)
		w.expr(s.Es[0], 0)
	case "if":
		w.tok("if")
		cur := s
		for {
			w.expr(cur.Es[0], 0)
			w.tok("then")
			w.body(cur.Body)
			if len(cur.Else) == 0 {
				break
			}
			if len(cur.Else) == 1 && cur.Else[0].K == "if" && w.r.Chance(85) {
				cur = cur.Else[0]
				w.closer("elseif", &cur.L)
				continue
			}
			w.closer("else", nil)
			w.body(cur.Else)
			break
		}
		w.closer("end", nil)
	case "fornum":
		w.tok("for")
		w.tok(s.Names[0])
		w.tok("=")
		w.expr(s.Es[0], 0)
		w.tight(",")
		w.expr(s.Es[1], 0)
		if s.Es[2] != nil {
			w.tight(",")
			w.expr(s.Es[2], 0)
		}
		w.tok("do")
		w.body(s.Body)
		w.closer("end", nil)
	case "forin":
		w.tok("for")
		w.names(s.Names)
		w.tok("in")
		w.exprList(s.Es)
		w.tok("do")
		w.body(s.Body)
		w.closer("end", nil)
	case "localfn":
		fn := s.Es[0]
		w.noBreak++
		w.tok("local")
		w.mark = append(w.mark, &fn.L)
		w.tok("function")
		w.tok(s.Names[0])
		w.funcBody(fn, fn.Params)
	case "ret":
		w.tok("return")
		if len(s.Es) > 0 {
			w.exprList(s.Es)
		}
	case "break":
		w.tok("break")
	case "goto":
		w.tok("goto")
		w.noBreak++
		w.tok(s.Names[0])
		w.noBreak--
	case "label":
		w.noBreak++
		w.tok("::")
		w.tight(s.Names[0])
		w.tight("::")
		w.noBreak--
	default:
		panic("render: statement kind " + s.K)
	}
}

// funcBody renders `(params) body end`; the caller has incremented noBreak for the header (we release it after `)`).
func (w *renderer) funcBody(fn *Expr, params []string) {
	w.tight("(")
	w.glue = true
	for i, p := range params {
		if i > 0 {
			w.tight(",")
		}
		w.tok(p)
	}
	if fn.VA {
		if len(params) > 0 {
			w.tight(",")
		}
		w.tok("...")
	}
	w.tight(")")
	w.noBreak--
	saved := w.noBreak
	w.noBreak = 0
	if len(fn.Body) == 0 && w.lay.Kind == "oneline" {
		w.mark = append(w.mark, &fn.Le)
		w.tok("end")
	} else {
		w.body(fn.Body)
		w.closer("end", &fn.Le)
	}
	w.noBreak = saved
}

func (w *renderer) names(ns []string) {
	for i, n := range ns {
		if i > 0 {
			w.tight(",")
		}
		w.tok(n)
	}
}

func (w *renderer) exprList(es []*Expr) {
	for i, e := range es {
		if i > 0 {
			w.tight(",")
		}
		w.expr(e, 0)
	}
}

// ---------- expressions ----------

// precedence: or 1, and 2, comparison 3, concat 4 (right), add/sub 5, mul/div/mod 6, unary 7, pow 8 (right)
func exprPrec(e *Expr) (prec int, right bool) {
	switch e.K {
	case "or":
		return 1, false
	case "and":
		return 2, false
	case "not", "neg", "len":
		return 7, false
	case "bin":
		switch e.S {
		case "eq", "ne", "lt", "le", "gt", "ge":
			return 3, false
		case "concat":
			return 4, true
		case "add", "sub":
			return 5, false
		case "mul", "div", "mod":
			return 6, false
		case "pow":
			return 8, true
		}
	}
	return 10, false
}

var opText = map[string]string{"add": "+", "sub": "-", "mul": "*", "div": "/", "mod": "%", "pow": "^", "concat": "..",
	"eq": "==", "ne": "~=", "lt": "<", "le": "<=", "gt": ">", "ge": ">="}

func isMulti(e *Expr) bool { return e.K == "call" || e.K == "meth" || e.K == "dots" }

// expr renders e in a context that requires precedence ≥ min.
func (w *renderer) expr(e *Expr, min int) {
	p, _ := exprPrec(e)
	paren := p < min
	if !paren && w.fancy && min >= 0 && !isMulti(e) && e.K != "par" && w.r.Chance(4) {
		paren = true // redundant parentheses that do not change grouping
	}
	if paren {
		w.open("(")
		w.expr1(e)
		w.tight(")")
		return
	}
	w.expr1(e)
}

// prefix renders e in prefix-expression position (callee, indexed object, method receiver).
func (w *renderer) prefix(e *Expr) {
	switch e.K {
	case "v", "ix", "call", "meth", "par":
		w.expr1(e)
	default:
		w.open("(")
		w.expr1(e)
		w.tight(")")
	}
}

func (w *renderer) args(as []*Expr) {
	w.noBreak++
	w.tight("(")
	w.noBreak--
	w.glue = true
	for i, a := range as {
		if i > 0 {
			w.tight(",")
		}
		w.expr(a, 0)
	}
	w.tight(")")
}

func (w *renderer) expr1(e *Expr) {
	switch e.K {
	case "nil", "true", "false":
		w.tok(e.K)
	case "dots":
		w.tok("...")
	case "n":
		w.tok(w.numLit(e))
	case "s":
		w.strLit(e.S)
	case "v":
		w.tok(e.S)
	case "ix":
		w.prefix(e.A)
		if e.B.K == "s" && isIdent(e.B.S) && w.r.Chance(88) {
			w.tight(".")
			w.tight(e.B.S)
		} else {
			w.tight("[")
			w.glue = true
			w.expr(e.B, -1)
			w.tight("]")
		}
	case "call":
		w.prefix(e.A)
		w.args(e.Args)
	case "meth":
		w.prefix(e.A)
		w.tight(":")
		w.tight(e.S)
		w.args(e.Args)
	case "fn":
		w.mark = append(w.mark, &e.L)
		w.noBreak++
		w.tok("function")
		w.funcBody(e, e.Params)
	case "bin", "and", "or":
		p, right := exprPrec(e)
		lp, rp := p, p+1
		if right {
			lp, rp = p+1, p
		}
		if e.K == "bin" && e.S == "pow" {
			// a unary operand on the right of ^ is legal Lua, but we parenthesise it for readability
			if e.B.K == "neg" || e.B.K == "not" || e.B.K == "len" {
				rp = 9
			}
		}
		w.expr(e.A, lp)
		if e.K == "bin" {
			w.tok(opText[e.S])
		} else {
			w.tok(e.K)
		}
		w.expr(e.B, rp)
	case "not":
		w.tok("not")
		w.expr(e.A, 7)
	case "neg":
		w.tok("-")
		if e.A.K != "neg" {
			w.glue = true
		}
		w.expr(e.A, 7)
	case "len":
		w.open("#")
		w.expr(e.A, 7)
	case "par":
		w.open("(")
		w.expr1(e.A)
		w.tight(")")
	case "tbl":
		w.tok("{")
		if len(e.Fields) > 0 {
			w.glue = true
		}
		for i, f := range e.Fields {
			if i > 0 {
				if w.fancy && w.r.Chance(25) {
					w.tight(";")
				} else {
					w.tight(",")
				}
			}
			if f.Key != nil {
				if f.Key.K == "s" && isIdent(f.Key.S) && w.r.Chance(85) {
					w.tok(f.Key.S)
				} else {
					w.open("[")
					w.expr(f.Key, -1)
					w.tight("]")
				}
				w.tok("=")
			}
			w.expr(f.Val, 0)
		}
		if len(e.Fields) > 0 && w.fancy && w.r.Chance(15) {
			w.tight(",")
		}
		w.tight("}")
	default:
		panic("render: expression kind " + e.K)
	}
}

// numLit spells a non-negative finite numeric constant so that it denotes e.N exactly.
func (w *renderer) numLit(e *Expr) string {
	f := e.N
	if e.Lit != "" {
		return e.Lit
	}
	if math.IsInf(f, 0) || math.IsNaN(f) || f < 0 {
		panic("numLit: not a literal value")
	}
	if f == math.Trunc(f) && f < 1e15 {
		i := int64(f)
		if w.fancy && w.r.Chance(12) {
			switch w.r.Intn(4) {
			case 0:
				if i <= 0xffffff {
					return fmt.Sprintf("0x%x", i)
				}
			case 1:
				return fmt.Sprintf("%d.0", i)
			case 2:
				if i > 0 && i%10 == 0 {
					return fmt.Sprintf("%de1", i/10)
				}
			case 3:
				if i <= 0xffffff {
					return fmt.Sprintf("0X%X", i)
				}
			}
		}
		return strconv.FormatInt(i, 10)
	}
	s := strconv.FormatFloat(f, 'g', -1, 64)
	if w.fancy && strings.HasPrefix(s, "0.") && w.r.Chance(20) {
		s = s[1:] // .5
	}
	return s
}

func (w *renderer) strLit(s string) {
	// long-bracket form: only for printable text (plus \n) in the fancy layouts
	if w.fancy && w.r.Chance(18) && longStringOK(s) {
		lvl := 0
		for strings.Contains(s, "]"+strings.Repeat("=", lvl)+"]") || strings.HasSuffix(s, "]"+strings.Repeat("=", lvl)) || (lvl == 0 && strings.HasSuffix(s, "]")) {
			lvl++
		}
		if lvl == 0 && w.r.Chance(30) {
			lvl = 1 + w.r.Intn(2)
		}
		eq := strings.Repeat("=", lvl)
		body := s
		extra := strings.Count(s, "\n")
		if strings.HasPrefix(s, "\n") || w.r.Chance(30) {
			body = "\n" + s // the first newline of a long string is skipped
			extra++
		}
		body = strings.ReplaceAll(body, "\n", w.eol)
		w.tokML("["+eq+"["+body+"]"+eq+"]", extra)
		return
	}
	q := byte('"')
	if w.r.Chance(35) {
		q = '\''
	}
	var b strings.Builder
	b.WriteByte(q)
	for i := 0; i < len(s); i++ {
		c := s[i]
		switch {
		case c == q || c == '\\':
			b.WriteByte('\\')
			b.WriteByte(c)
		case c == '\n':
			b.WriteString("\\n")
		case c == '\t':
			b.WriteString("\\t")
		case c == '\r':
			b.WriteString("\\r")
		case c < 32 || c >= 127:
			fmt.Fprintf(&b, "\\%03d", c)
		default:
			b.WriteByte(c)
		}
	}
	b.WriteByte(q)
	w.tok(b.String())
}

func longStringOK(s string) bool {
	for i := 0; i < len(s); i++ {
		c := s[i]
		if c == '\n' {
			continue
		}
		if c < 32 || c >= 127 {
			return false
		}
	}
	return true
}
