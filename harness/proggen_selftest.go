package main

// Program generator — self-test (`glcheck -prop GENSELF`) and a small runner (`GENRUN=file.lua glcheck -prop GENRUN`).
//
// GENSELF env knobs: GEN_N (programs per profile×seed, default 2000), GEN_SEEDS (default 5), GEN_PROFILES (comma list),
// GEN_NOTES (path of a markdown summary to write), GEN_DUMP (directory for failing programs).

import (
	"fmt"
	"os"
	"path/filepath"
	"runtime"
	"sort"
	"strconv"
	"strings"
	"sync"
	"time"

	luaast "github.com/yuin/gopher-lua/ast"
	luaparse "github.com/yuin/gopher-lua/parse"
)

func init() {
	props["GENSELF"] = func(run *Run) { os.Exit(genSelfTest()) }
	props["GENRUN"] = func(run *Run) {
		b, err := os.ReadFile(os.Getenv("GENRUN"))
		if err != nil {
			fmt.Println(err)
			os.Exit(2)
		}
		out := RunLua(string(b), 2*time.Second, installHostFuncs)
		for _, e := range out.Emits {
			fmt.Println("emit", e)
		}
		fmt.Println("results", out.Results, "err", out.Err, out.Msg)
		os.Exit(0)
	}
	props["GENSHOW"] = func(run *Run) {
		// GENSHOW=profile[:layout[:faultpct]] prints a few programs
		parts := strings.Split(os.Getenv("GENSHOW"), ":")
		prof := Profile(parts[0])
		lay := Layout{}
		if len(parts) > 1 {
			lay.Kind = parts[1]
		}
		if len(parts) > 2 {
			prof.FaultPct, _ = strconv.Atoi(parts[2])
		}
		n := envInt("GEN_N", 2)
		for i := 0; i < n; i++ {
			p := GenProgram(NewRng(uint64(run.Seed)).Fork(uint64(i)), prof, lay)
			fmt.Printf("-- program %d (stmts %d depth %d)\n%s\n-- sexp: %s\n", i, p.NStmts, p.Depth, p.Src, p.Sexp)
			out := RunLua(p.Src, 2*time.Second, installHostFuncs)
			fmt.Println("-- emits:", len(out.Emits), "results", out.Results, "err", out.Err, out.Msg)
		}
		os.Exit(0)
	}
}

func envInt(k string, d int) int {
	if v, err := strconv.Atoi(os.Getenv(k)); err == nil {
		return v
	}
	return d
}

// ---------- checks on one program ----------

// checkSexpRoundTrip: balanced, re-parses to the same AST (AST → Sexp → AST → Sexp identical).
func checkSexpRoundTrip(sexp string) error {
	depth := 0
	for i := 0; i < len(sexp); i++ {
		switch sexp[i] {
		case '(':
			depth++
		case ')':
			depth--
			if depth < 0 {
				return fmt.Errorf("sexp unbalanced at %d", i)
			}
		case '\n', '\r', '\t':
			return fmt.Errorf("sexp contains a control character")
		}
	}
	if depth != 0 {
		return fmt.Errorf("sexp unbalanced (depth %d at end)", depth)
	}
	c, err := SexpToChunk(sexp)
	if err != nil {
		return err
	}
	if s2 := sexpChunk(c); s2 != sexp {
		return fmt.Errorf("sexp round trip differs:\n %s\n %s", sexp, s2)
	}
	return nil
}

// checkSrcAgainstSexp parses Src with gopher-lua's parser, converts the result to the generator's AST and compares
// it with the AST described by Sexp: same structure, and every statement's L (and fn L/Le, elseif lines) equal to
// the parser's Line() — which for every statement form is the line of its first token.
func checkSrcAgainstSexp(src, sexp string) error {
	want, err := SexpToChunk(sexp)
	if err != nil {
		return err
	}
	got, err := ParseLua(src, false)
	if err != nil {
		return fmt.Errorf("source does not parse: %v", err)
	}
	a, b := sexpChunk(normaliseForParser(want)), sexpChunk(got)
	if a != b {
		i := 0
		for i < len(a) && i < len(b) && a[i] == b[i] {
			i++
		}
		lo := i - 60
		if lo < 0 {
			lo = 0
		}
		return fmt.Errorf("source/sexp mismatch at offset %d:\n sexp : …%s\n parse: …%s", i, clip(a[lo:], 160), clip(b[lo:], 160))
	}
	// Lu of repeat statements: check with the scanner (line of the k-th `until` token)
	var untilLines []int
	sc := luaparse.NewScanner(strings.NewReader(src), "gen")
	lx := &luaparse.Lexer{}
	for {
		tok, err := sc.Scan(lx)
		if err != nil {
			return fmt.Errorf("scan: %v", err)
		}
		if tok.Type == luaparse.EOF {
			break
		}
		if tok.Type == luaparse.TUntil {
			untilLines = append(untilLines, tok.Pos.Line)
		}
	}
	var lus []int
	collectLu(want.Body, &lus)
	sort.Ints(lus)
	sort.Ints(untilLines)
	if fmt.Sprint(lus) != fmt.Sprint(untilLines) {
		return fmt.Errorf("until lines: sexp %v, scanner %v", lus, untilLines)
	}
	return nil
}

func collectLu(ss []*Stmt, out *[]int) {
	walkStmts(ss, func(s *Stmt) {
		if s.K == "repeat" {
			*out = append(*out, s.Lu)
		}
	})
}

func firstLine(s string) string {
	if i := strings.IndexByte(s, '\n'); i >= 0 {
		return s[:i]
	}
	return s
}

func clip(s string, n int) string {
	if len(s) > n {
		return s[:n] + "…"
	}
	return s
}

var _ luaast.Stmt

// ---------- the self-test ----------

type selfStat struct {
	programs, failures, knownDefect int
	skeletons                       map[string]bool
	feats                           map[string]int
	stmts, maxDepth, emits          int
	wall                            time.Duration
	msgs                            []string
}

func genSelfTest() int {
	n := envInt("GEN_N", 2000)
	seeds := envInt("GEN_SEEDS", 5)
	profiles := []string{"core", "calls", "closures", "meta", "errors", "coroutines", "limits", "layout"}
	if p := os.Getenv("GEN_PROFILES"); p != "" {
		profiles = strings.Split(p, ",")
	}
	var report strings.Builder
	bad := 0
	pr := func(f string, a ...interface{}) {
		s := fmt.Sprintf(f, a...)
		fmt.Print(s)
		report.WriteString(s)
	}
	pr("## Generator self-test (%d programs × %d seeds per profile, real interpreter, 2 s timeout)\n\n", n, seeds)
	for _, pn := range profiles {
		for _, fault := range []int{0, 100} {
			st := runSelfProfile(pn, n, seeds, fault)
			bad += st.failures
			pr("profile %-10s FaultPct=%-3d programs=%d failures=%d known-defect-exceptions=%d distinct-skeletons=%d avg-stmts=%.1f max-depth=%d avg-emits=%.1f wall=%.1fs\n",
				pn, fault, st.programs, st.failures, st.knownDefect, len(st.skeletons), float64(st.stmts)/float64(st.programs), st.maxDepth,
				float64(st.emits)/float64(st.programs), st.wall.Seconds())
			for _, m := range st.msgs {
				pr("    %s\n", m)
			}
			if fault == 0 {
				pr("    features: %s\n", histLine(st.feats))
			} else {
				pr("    faults: %s\n", histLine(filterPrefix(st.feats, "fault")))
			}
		}
	}
	pr("\n## Shape enumerators\n\n")
	for _, en := range []struct {
		name string
		f    func() []*Program
	}{
		{"EnumAssignShapes(3,3)", func() []*Program { return EnumAssignShapes(3, 3) }},
		{"EnumCallShapes", EnumCallShapes},
		{"EnumCondShapes(3)", func() []*Program { return EnumCondShapes(3) }},
		{"EnumClosureExitShapes", EnumClosureExitShapes},
		{"EnumCoroutineShapes", EnumCoroutineShapes},
	} {
		t0 := time.Now()
		ps := en.f()
		st := checkPrograms(ps, 0)
		bad += st.failures
		pr("%-24s programs=%d failures=%d known-defect-exceptions=%d distinct-skeletons=%d wall=%.1fs\n", en.name, st.programs, st.failures, st.knownDefect, len(st.skeletons), time.Since(t0).Seconds())
		for _, m := range st.msgs {
			pr("    %s\n", m)
		}
	}
	// determinism: the same Rng gives the same program, also when generated concurrently
	{
		nd := 0
		var wg sync.WaitGroup
		var mu sync.Mutex
		for _, pn := range profiles {
			for i := 0; i < 40; i++ {
				wg.Add(1)
				go func(pn string, i int) {
					defer wg.Done()
					lay := Layout{Kind: []string{"oneline", "spread", "dense"}[i%3]}
					a := GenProgram(NewRng(5).Fork(uint64(i)), Profile(pn), lay)
					b := GenProgram(NewRng(5).Fork(uint64(i)), Profile(pn), lay)
					if a.Src != b.Src || a.Sexp != b.Sexp {
						mu.Lock()
						nd++
						mu.Unlock()
					}
				}(pn, i)
			}
		}
		wg.Wait()
		bad += nd
		pr("\nDeterminism: %d profile(s) × 40 programs generated twice concurrently, differing=%d\n", len(profiles), nd)
	}
	// ShrinkCandidates: every candidate is a consistent, loadable program that is not larger than its parent
	{
		t0 := time.Now()
		var cands []*Program
		parents := 0
		for _, pn := range profiles {
			for i := 0; i < 3; i++ {
				par := GenProgram(NewRng(77).Fork(uint64(i)), Profile(pn), Layout{})
				cs := ShrinkCandidates(par)
				parents++
				for _, c := range cs {
					if c.NStmts > par.NStmts {
						bad++
						pr("    FAIL shrink candidate larger than parent\n")
					}
				}
				cands = append(cands, cs...)
			}
		}
		nbad := 0
		for _, c := range cands {
			if e1, e2 := checkSexpRoundTrip(c.Sexp), checkSrcAgainstSexp(c.Src, c.Sexp); e1 != nil || e2 != nil {
				nbad++
				pr("    FAIL shrink candidate: %v %v\n%s\n", e1, e2, c.Src)
			}
		}
		bad += nbad
		pr("\nShrinkCandidates: %d parents → %d candidates, inconsistent=%d, wall=%.1fs\n", parents, len(cands), nbad, time.Since(t0).Seconds())
	}
	if p := os.Getenv("GEN_NOTES"); p != "" {
		os.WriteFile(p, []byte(report.String()), 0o644)
	}
	if bad > 0 {
		fmt.Println("GENSELF: FAILED", bad)
		return 1
	}
	fmt.Println("GENSELF: ok")
	return 0
}

func filterPrefix(m map[string]int, p string) map[string]int {
	r := map[string]int{}
	for k, v := range m {
		if strings.HasPrefix(k, p) {
			r[k] = v
		}
	}
	return r
}

func histLine(m map[string]int) string {
	var parts []string
	for _, k := range sortedKeys(m) {
		parts = append(parts, fmt.Sprintf("%s=%d", k, m[k]))
	}
	return strings.Join(parts, " ")
}

func runSelfProfile(pn string, n, seeds, fault int) *selfStat {
	t0 := time.Now()
	var ps []*Program
	var mu sync.Mutex
	var wg sync.WaitGroup
	layouts := []Layout{{Kind: "oneline", EOL: "\n"}}
	if pn == "layout" {
		layouts = []Layout{{"spread", "\n"}, {"dense", "\n"}, {"spread", "\r\n"}, {"dense", "\r"}, {"spread", "\r"}, {"dense", "\r\n"}, {"oneline", "\r\n"}}
	}
	for seed := 1; seed <= seeds; seed++ {
		wg.Add(1)
		go func(seed int) {
			defer wg.Done()
			prof := Profile(pn)
			prof.FaultPct = fault
			root := NewRng(uint64(seed))
			local := make([]*Program, 0, n)
			for i := 0; i < n; i++ {
				lay := layouts[i%len(layouts)]
				if pn != "layout" && i%10 == 9 {
					lay = Layout{Kind: []string{"spread", "dense"}[(i/10)%2], EOL: []string{"\n", "\r\n", "\r"}[(i/20)%3]}
				}
				local = append(local, GenProgram(root.Fork(uint64(i)), prof, lay))
			}
			mu.Lock()
			ps = append(ps, local...)
			mu.Unlock()
		}(seed)
	}
	wg.Wait()
	st := checkPrograms(ps, fault)
	st.wall = time.Since(t0)
	return st
}

// checkPrograms runs every check of the self-test on a list of programs.
func checkPrograms(ps []*Program, fault int) *selfStat {
	st := &selfStat{skeletons: map[string]bool{}, feats: map[string]int{}}
	var mu sync.Mutex
	var wg sync.WaitGroup
	sem := make(chan struct{}, runtime.NumCPU())
	dump := os.Getenv("GEN_DUMP")
	for i, p := range ps {
		wg.Add(1)
		sem <- struct{}{}
		go func(i int, p *Program) {
			defer wg.Done()
			defer func() { <-sem }()
			var errs []string
			if err := checkSexpRoundTrip(p.Sexp); err != nil {
				errs = append(errs, err.Error())
			}
			if err := checkSrcAgainstSexp(p.Src, p.Sexp); err != nil {
				errs = append(errs, err.Error())
			}
			out := RunLua(p.Src, 2*time.Second, installHostFuncs)
			for retry := 0; retry < 3 && out.Err == "timeout"; retry++ {
				// a timeout on a loaded machine is re-tried (the programs need milliseconds); only a repeatable one counts
				out = RunLua(p.Src, 2*time.Second, installHostFuncs)
			}
			known := ""
			for k := range p.Feats {
				if strings.HasPrefix(k, "kd:") {
					known += k + " "
				}
			}
			kdHit := false
			wantFault := false
			caught := false
			for k := range p.Feats {
				if strings.HasPrefix(k, "fault:") {
					wantFault = true
				}
				if k == "fault-caught" {
					caught = true
				}
			}
			switch {
			case out.Err == "syntax" || out.Err == "timeout":
				errs = append(errs, "outcome "+out.Err+": "+out.Msg)
			case wantFault && !caught:
				if out.Err != "runtime" {
					errs = append(errs, "fault program did not end in a runtime error (outcome '"+out.Err+"')")
				}
			case wantFault && caught:
				if out.Err != "" {
					if known != "" {
						kdHit = true
					} else {
						errs = append(errs, "caught-fault program failed: "+out.Err+": "+out.Msg)
					}
				} else if !hasCaughtMarker(out.Emits) {
					errs = append(errs, "caught-fault program shows no caught marker")
				}
			default:
				if out.Err != "" {
					if known != "" {
						kdHit = true
					} else {
						errs = append(errs, "fault-free program failed: "+out.Err+": "+firstLine(out.Msg))
					}
				}
			}
			if fault == 100 && !wantFault {
				errs = append(errs, "FaultPct=100 but no fault site recorded")
			}
			if len(out.Emits) == 0 && out.Err == "" {
				errs = append(errs, "program emitted nothing")
			}
			mu.Lock()
			defer mu.Unlock()
			st.programs++
			st.skeletons[p.Skeleton] = true
			for k, v := range p.Feats {
				st.feats[k] += v
			}
			st.stmts += p.NStmts
			if p.Depth > st.maxDepth {
				st.maxDepth = p.Depth
			}
			st.emits += len(out.Emits)
			if kdHit {
				if dump != "" {
					os.MkdirAll(dump, 0o755)
					os.WriteFile(filepath.Join(dump, fmt.Sprintf("kd%d_%d.lua", fault, i)), []byte(p.Src+"\n-- "+out.Msg+"\n"), 0o644)
				}
				st.knownDefect++
				st.feats["kd-error-observed:"+strings.TrimSpace(known)]++
			}
			if len(errs) > 0 {
				st.failures++
				if len(st.msgs) < 6 {
					st.msgs = append(st.msgs, fmt.Sprintf("FAIL program %d: %s", i, strings.Join(errs, " | ")))
				}
				if dump != "" {
					os.MkdirAll(dump, 0o755)
					os.WriteFile(filepath.Join(dump, fmt.Sprintf("fail%d_%d.lua", fault, i)), []byte(p.Src+"\n-- "+strings.Join(errs, "\n-- ")+"\n-- "+p.Sexp+"\n"), 0o644)
				}
			}
		}(i, p)
	}
	wg.Wait()
	return st
}

// the marker emitted after a deliberately caught fault: emit("caught", false, …)
func hasCaughtMarker(emits []string) bool {
	for _, e := range emits {
		if strings.HasPrefix(e, "s636175676874,F") {
			return true
		}
	}
	return false
}
