package main

// Program generator — bounded-exhaustive shape enumerators. Every shape is a complete program built from a text
// template, parsed into the generator's AST and rendered (oneline layout) so that Src and Sexp come from one AST.
// The programs do not keep their AST (memory); ShrinkCandidates re-reads it from Sexp.

import (
	"fmt"
	"strings"
)

func shapeProgram(src string, tags ...string) *Program {
	p := progFromSource(src, tags...)
	p.AST = nil
	return p
}

// ---------- assignments ----------

var assignTargetClasses = []string{"local", "upval", "global", "index", "field"}
var assignSourceLast = []string{"local", "upval", "global", "index", "field", "const", "call0", "call1", "call2", "dots", "parcall"}
var assignSourceInner = []string{"local", "global", "field", "call2"}

func assignPlace(class string, i int) string {
	switch class {
	case "local":
		return fmt.Sprintf("l%d", i)
	case "upval":
		return fmt.Sprintf("u%d", i)
	case "global":
		return fmt.Sprintf("g%d", i)
	case "index":
		return fmt.Sprintf("t[%d]", i)
	case "field":
		return "t." + string("xyz"[i-1])
	case "const":
		return fmt.Sprintf("%d", 70+i)
	case "call0":
		return "c0()"
	case "call1":
		return "c1()"
	case "call2":
		return "c2()"
	case "dots":
		return "..."
	case "parcall":
		return "(c2())"
	}
	panic(class)
}

// EnumAssignShapes: every assignment l1..lk = r1..rm (k ≤ maxK, m ≤ maxM, both ≤ 3). The i-th target of a class is the
// i-th place of that class (targets are distinct places); the j-th source reads the place with the NEXT index
// (mod max(k,2)) of its class, so that swaps/rotations between targets and sources arise. Multi-value sources
// (call returning 0/1/2 values, `...`, parenthesised call, upvalue, t[k]) are enumerated in the last position;
// inner positions range over {local, global, t.x, call returning 2}.
func EnumAssignShapes(maxK, maxM int) []*Program {
	if maxK > 3 {
		maxK = 3
	}
	if maxM > 3 {
		maxM = 3
	}
	var out []*Program
	var tuples func(classes []string, n int) [][]string
	tuples = func(classes []string, n int) [][]string {
		if n == 0 {
			return [][]string{{}}
		}
		var r [][]string
		for _, t := range tuples(classes, n-1) {
			for _, c := range classes {
				r = append(r, append(append([]string{}, t...), c))
			}
		}
		return r
	}
	for k := 1; k <= maxK; k++ {
		for _, tc := range tuples(assignTargetClasses, k) {
			var lhs []string
			for i, c := range tc {
				lhs = append(lhs, assignPlace(c, i+1))
			}
			for m := 1; m <= maxM; m++ {
				for _, inner := range tuples(assignSourceInner, m-1) {
					for _, last := range assignSourceLast {
						sc := append(append([]string{}, inner...), last)
						var rhs []string
						mod := k
						if mod < 2 {
							mod = 2
						}
						for j, c := range sc {
							rhs = append(rhs, assignPlace(c, j%mod+1+0))
							if c == "local" || c == "upval" || c == "global" || c == "index" || c == "field" {
								rhs[j] = assignPlace(c, (j+1)%mod+1)
							}
						}
						src := fmt.Sprintf(`local t = {10, 20, 30, x = 40, y = 50, z = 60}
g1, g2, g3 = 1, 2, 3
local function c0() emit('c0') end
local function c1() emit('c1') return 101 end
local function c2() emit('c2') return 201, 202 end
local u1, u2, u3 = 11, 12, 13
local function run(...)
  local l1, l2, l3 = 21, 22, 23
  %s = %s
  emit(l1, l2, l3, u1, u2, u3, g1, g2, g3, t[1], t[2], t[3], t.x, t.y, t.z)
end
run(301, 302)
return g1, t[1], u1`, strings.Join(lhs, ", "), strings.Join(rhs, ", "))
						out = append(out, shapeProgram(src, "shape:assign", fmt.Sprintf("assign:k%dm%d", k, m)))
					}
				}
			}
		}
	}
	return out
}

// ---------- calls ----------

func intList(from, n int) string {
	var p []string
	for i := 0; i < n; i++ {
		p = append(p, fmt.Sprint(from+i))
	}
	return strings.Join(p, ", ")
}

// EnumCallShapes: params 0..3 × vararg × args 0..5 × result context × callee.
func EnumCallShapes() []*Program {
	var out []*Program
	contexts := []string{"statement", "single", "paren", "last-arg", "last-return", "last-ctor", "massign1", "massign2", "massign3", "middle", "tail", "tail-method"}
	useCtx := func(ctx, call string) string {
		switch ctx {
		case "tail": // a proper tail call (OP_TAILCALL): `return call` and nothing else
			return "local function w() return " + call + " end\nemit(w())\nemit('after', (w()))"
		case "tail-method": // tail call in a vararg method, results consumed in a constructor
			return "local h = {}\nfunction h:go(...) return " + call + " end\nlocal r = {h:go(1, 2)}\nemit(#r, r[1], r[2], r[3], r[4], r[5], r[6], r[7])"
		case "statement":
			return call + "\nemit('done')"
		case "single":
			return "local r = " + call + "\nemit(r)"
		case "paren":
			return "emit((" + call + "))"
		case "last-arg":
			return "emit('x', " + call + ")"
		case "last-return":
			return "local function w() return 'r', " + call + " end\nemit(w())"
		case "last-ctor":
			return "local r = {'c', " + call + "}\nemit(r[1], r[2], r[3], r[4], r[5], r[6], r[7], r[8], r[9], r[10])"
		case "massign1":
			return "local v1\nv1 = " + call + "\nemit(v1)"
		case "massign2":
			return "local v1, v2\nv1, v2 = " + call + "\nemit(v1, v2)"
		case "massign3":
			return "local v1, v2, v3 = 'o1', 'o2', 'o3'\nv1, v2, v3 = " + call + "\nemit(v1, v2, v3)"
		case "middle":
			return "emit('a', " + call + ", 'z')"
		}
		panic(ctx)
	}
	for _, callee := range []string{"lua", "method", "callobj"} {
		for np := 0; np <= 3; np++ {
			for va := 0; va <= 1; va++ {
				params := names("p", np)
				body := "emit('in'" + ifs(np > 0, ", "+params, "")
				ret := params
				if va == 1 {
					params += ifs(np > 0, ", ", "") + "..."
					body += ", select('#', ...)"
					ret += ifs(np > 0, ", ", "") + "select('#', ...), ..."
				}
				body += ")"
				for na := 0; na <= 5; na++ {
					args := intList(11, na)
					for _, ctx := range contexts {
						var def, call string
						switch callee {
						case "lua":
							def = fmt.Sprintf("local function f(%s)\n %s\n return %s\nend", params, body, ret)
							call = "f(" + args + ")"
						case "method":
							def = fmt.Sprintf("local o = {}\nfunction o:m(%s)\n emit(self == o)\n %s\n return %s\nend", params, body, ret)
							call = "o:m(" + args + ")"
						default:
							def = fmt.Sprintf("local o = setmetatable({}, {__call = function(self%s)\n emit(self ~= nil)\n %s\n return %s\nend})", ifs(params != "", ", "+params, ""), body, ret)
							call = "o(" + args + ")"
						}
						out = append(out, shapeProgram(def+"\n"+useCtx(ctx, call)+"\nreturn 0", "shape:call", "callee:"+callee, "ctx:"+ctx))
					}
				}
			}
		}
	}
	for _, callee := range []string{"hostid", "select", "select#", "unpack", "callobj-hostid", "callobj-rawequal", "callobj-unpack", "callobj-type", "callobj-rawget"} {
		for na := 0; na <= 5; na++ {
			args := intList(11, na)
			for _, ctx := range contexts {
				var call string
				switch callee {
				case "callobj-hostid", "callobj-rawequal", "callobj-unpack", "callobj-type", "callobj-rawget":
					// a callable object whose __call handler is a HOST function: the handler receives (object, args…)
					h := callee[len("callobj-"):]
					if na > 2 && h == "rawget" {
						continue
					}
					call = "setmetatable({21, 22, 23, 24, [11] = 'eleven'}, {__call = " + h + "})(" + args + ")"
				case "hostid":
					call = "hostid(" + args + ")"
				case "select":
					call = "select(" + fmt.Sprint(1+na/3) + ifs(na > 0, ", "+args, "") + ")"
				case "select#":
					call = "select('#'" + ifs(na > 0, ", "+args, "") + ")"
				default:
					call = "unpack({" + args + "})"
				}
				out = append(out, shapeProgram(useCtx(ctx, call)+"\nreturn 0", "shape:call", "callee:"+callee, "ctx:"+ctx))
			}
		}
	}
	return out
}

// ---------- conditions ----------

// condTrees enumerates trees of depth ≤ d over the given leaves with not/and/or.
func condTrees(leaves []string, d int) []string {
	if d <= 1 {
		return append([]string{}, leaves...)
	}
	sub := condTrees(leaves, d-1)
	out := append([]string{}, leaves...)
	seen := map[string]bool{}
	for _, l := range leaves {
		seen[l] = true
	}
	add := func(s string) {
		if !seen[s] {
			seen[s] = true
			out = append(out, s)
		}
	}
	for _, a := range sub {
		add("not (" + a + ")")
	}
	for _, a := range sub {
		for _, b := range sub {
			add("(" + a + ") and (" + b + ")")
			add("(" + a + ") or (" + b + ")")
		}
	}
	return out
}

var condContexts = []string{"if", "while", "repeat", "newlocal", "existing", "operand", "global", "field", "return", "arg"}

// EnumCondShapes: condition trees × context. Depth ≤ 2 uses the full leaf set {a, b, nil, false, true, 1, "s", a == b,
// x < y}; depth 3 adds the trees of depth 3 over the reduced leaf set {a, b, false, x < y}. Each program evaluates the
// condition for five (a, b) value pairs.
func EnumCondShapes(depth int) []*Program {
	full := []string{"a", "b", "nil", "false", "true", "1", "'s'", "a == b", "x < y"}
	d := depth
	if d > 2 {
		d = 2
	}
	trees := condTrees(full, d)
	if depth >= 3 {
		seen := map[string]bool{}
		for _, t := range trees {
			seen[t] = true
		}
		for _, t := range condTrees([]string{"a", "b", "false", "x < y"}, 3) {
			if !seen[t] {
				trees = append(trees, t)
			}
		}
	}
	var out []*Program
	for _, c := range trees {
		for _, ctx := range condContexts {
			var use string
			switch ctx {
			case "if":
				use = "if " + c + " then emit('T') else emit('F') end"
			case "while":
				use = "while " + c + " do emit('T') break end\n emit('after')"
			case "repeat":
				use = "local n = 0\n repeat\n n = n + 1\n if n >= 2 then break end\n until " + c + "\n emit(n)"
			case "newlocal":
				use = "local r = " + c + "\n emit(r)"
			case "existing":
				use = "local r = 'old'\n r = " + c + "\n emit(r)"
			case "operand":
				use = "a = " + c + "\n emit(a)\n b = (" + c + ") and b\n emit(b)"
			case "global":
				use = "G = " + c + "\n emit(G)"
			case "field":
				use = "local t = {f = 'old'}\n t.f = " + c + "\n emit(t.f)\n t[1] = " + c + "\n emit(t[1])"
			case "return":
				use = "return " + c
			case "arg":
				use = "emit(" + c + ")"
			}
			src := fmt.Sprintf(`local function test(a, b)
 local x, y = 1, 2
 %s
end
emit(test(nil, nil))
emit(test(false, 1))
emit(test(1, false))
emit(test('v', 'v'))
emit(test(0, true))
return 0`, use)
			out = append(out, shapeProgram(src, "shape:cond", "ctx:"+ctx))
		}
	}
	return out
}

// ---------- closures × exit paths ----------

// EnumClosureExitShapes: capture site × exit × nesting × capture position; then register reuse, then every closure is
// called, plus a write through one closure observed through another.
func EnumClosureExitShapes() []*Program {
	var out []*Program
	sites := []string{"loop", "block", "function"}
	exits := []string{"fall", "break", "goto-out", "goto-continue", "return", "tailcall", "pcall-error", "xpcall-error",
		"pcall-in-xpcall", "co-yield-abandon", "co-death", "co-error"}
	for _, site := range sites {
		for _, exit := range exits {
			if site == "function" && (exit == "break" || exit == "goto-continue") {
				continue
			}
			if site == "block" && exit == "goto-continue" {
				continue
			}
			for nest := 1; nest <= 2; nest++ {
				for pos := 0; pos <= 1; pos++ {
					var ex string
					switch exit {
					case "fall", "co-death":
						ex = ""
					case "break":
						ex = "do break end"
					case "goto-out":
						ex = "goto out"
					case "goto-continue":
						ex = "goto cont"
					case "return":
						ex = "do return 'ret' end"
					case "tailcall":
						ex = "do return other(n) end"
					case "pcall-error", "xpcall-error", "pcall-in-xpcall", "co-error":
						ex = "error('E' .. n, 0)"
					case "co-yield-abandon":
						ex = "coroutine.yield('y')"
					}
					capture := `local v = 40 + n
 local w = 'w' .. n
 fs[#fs + 1] = function() return v, w end
 fs[#fs + 1] = function(x) v = x end`
					if pos == 1 {
						capture = "local pad1, pad2 = 1, 2\n " + capture + "\n local pad3 = pad1 + pad2"
					}
					inner := capture + "\n " + ex
					if nest == 2 {
						inner = "do\n local outerv = 'o' .. n\n fs[#fs + 1] = function() return outerv end\n do\n " + inner + "\n end\n end"
					}
					var body string
					switch site {
					case "loop":
						body = "for i = 1, 2 do\n n = n + i\n " + inner + "\n ::cont::\n end"
					case "block":
						body = "repeat\n do\n " + inner + "\n end\n until true"
					default:
						body = inner
					}
					var driver string
					switch exit {
					case "pcall-error":
						driver = "emit(pcall(site, 1))"
					case "xpcall-error":
						driver = "emit(xpcall(function() return site(1) end, function(m) emit('h', m) return m end))"
					case "pcall-in-xpcall":
						driver = "emit(xpcall(function() emit(pcall(site, 1)) local z = 5 error('outer', 0) end, function(m) return m end))"
					case "co-yield-abandon", "co-death", "co-error":
						driver = "local co = coroutine.create(site)\nemit(coroutine.resume(co, 1))\nemit(coroutine.status(co))"
					default:
						driver = "emit(site(1))"
					}
					src := fmt.Sprintf(`local fs = {}
local function other(n) return 'tail', n end
local function clobber(a, b, c, d, e, f)
 local g, h, i, j = a + 1, b + 2, c + 3, d + 4
 local k = {g, h, i, j}
 return g + h + i + j + e + f + #k
end
local function site(n)
 %s
 ::out::
 return 'end'
end
%s
emit(clobber(1, 2, 3, 4, 5, 6))
emit(pcall(clobber, 7, 8, 9, 10, 11, 12))
emit(#fs)
for q = 1, #fs, 1 do emit(q, fs[q]()) end
for q = 2, #fs, 2 do
 if q %% 2 == 0 then fs[q](900 + q) end
end
for q = 1, #fs, 1 do emit(q, fs[q]()) end
return #fs`, body, driver)
					// nest==2 adds a third closure per capture: the getter/setter pairing below relies on order only for the
					// write test; every closure is called and emitted in any case.
					out = append(out, shapeProgram(src, "shape:closure-exit", "site:"+site, "exit:"+exit))
				}
			}
		}
	}
	return out
}

// ---------- coroutines ----------

// EnumCoroutineShapes: payload given to resume × count wanted by the receiving side × first/subsequent resume ×
// plain/wrap × ending; yielded count × count wanted by the resumer; endings with every error value type and a runtime
// fault; status probes everywhere; nested resume; generator in for-in.
func EnumCoroutineShapes() []*Program {
	var out []*Program
	wantList := func(w int) (decl string, use string) {
		if w < 0 {
			return "", ""
		}
		return names("w", w), names("w", w)
	}
	for give := 0; give <= 4; give++ {
		for want := -1; want <= 4; want++ { // -1 = open-ended
			for _, first := range []bool{true, false} {
				for _, wrap := range []bool{false, true} {
					for _, ending := range []string{"return", "yield", "error"} {
						payload := intList(61, give)
						var recv string
						params := ""
						_, use := wantList(want)
						if first {
							if want < 0 {
								params = "..."
								recv = "emit('got', select('#', ...), ...)"
							} else {
								params = use
								recv = "emit('got'" + ifs(want > 0, ", "+use, "") + ")"
							}
						} else {
							switch {
							case want < 0:
								recv = "emit('got', coroutine.yield('first'))"
							case want == 0:
								recv = "coroutine.yield('first')\n emit('got')"
							default:
								recv = "local " + use + " = coroutine.yield('first')\n emit('got', " + use + ")"
							}
						}
						var end string
						switch ending {
						case "return":
							end = "return 'r1', 'r2'"
						case "yield":
							end = "coroutine.yield('y1')\n emit('resumed-again')"
						default:
							end = "error('E', 0)"
						}
						var drv strings.Builder
						if wrap {
							drv.WriteString("local co = coroutine.wrap(body)\n")
							if !first {
								drv.WriteString("emit('r0', pcall(co))\n")
							}
							fmt.Fprintf(&drv, "emit('r1', pcall(co%s))\n", ifs(give > 0, ", "+payload, ""))
							drv.WriteString("emit('r2', pcall(co))\nemit('r3', (pcall(co)))\n")
						} else {
							drv.WriteString("local co = coroutine.create(body)\nemit(coroutine.status(co))\n")
							if !first {
								drv.WriteString("emit('r0', coroutine.resume(co))\nemit(coroutine.status(co))\n")
							}
							fmt.Fprintf(&drv, "emit('r1', coroutine.resume(co%s))\nemit(coroutine.status(co))\n", ifs(give > 0, ", "+payload, ""))
							drv.WriteString("emit('r2', coroutine.resume(co))\nemit(coroutine.status(co))\nemit('r3', (coroutine.resume(co)))\nemit(coroutine.status(co))\n")
						}
						src := fmt.Sprintf("local function body(%s)\n emit('in', coroutine.running() ~= nil)\n %s\n %s\nend\n%sreturn 0", params, recv, end, drv.String())
						tags := []string{"shape:coroutine", "co:resume-grid"}
						if !first && want > give {
							tags = append(tags, "kd:yield-adjust")
						}
						out = append(out, shapeProgram(src, tags...))
					}
				}
			}
		}
	}
	// yielded count × wanted by the resumer
	for yc := 0; yc <= 4; yc++ {
		for rw := -1; rw <= 4; rw++ {
			for _, wrap := range []bool{false, true} {
				vals := intList(81, yc)
				var take string
				call := "coroutine.resume(co)"
				if wrap {
					call = "co()"
				}
				switch {
				case rw < 0:
					take = "emit('res', " + call + ")"
				case rw == 0:
					take = call + "\nemit('res')"
				default:
					take = "local " + names("r", rw) + " = " + call + "\nemit('res', " + names("r", rw) + ")"
				}
				mk := "coroutine.create"
				if wrap {
					mk = "coroutine.wrap"
				}
				src := fmt.Sprintf("local co = %s(function()\n coroutine.yield(%s)\n return %s\nend)\n%s\n%s\nreturn 0", mk, vals, vals, take, take)
				out = append(out, shapeProgram(src, "shape:coroutine", "co:yield-grid"))
			}
		}
	}
	// endings: error with every value type, runtime fault, return counts; status probes at every point
	for _, ending := range []string{"error(nil)", "error(true)", "error(false)", "error(42)", "error('msg', 0)", "error({code = 7})",
		"error('lvl1')", "error('lvl2', 2)", "local t = nil; return t.x", "return 1 + {}", "return", "return 1", "return 1, 2, 3", "return nil, nil"} {
		for _, wrap := range []bool{false, true} {
			var drv string
			if wrap {
				drv = "local co = coroutine.wrap(body)\nemit(pcall(co))\nlocal ok, e = pcall(co)\nemit(ok, type(e), type(e) == 'table' and e.code)\nemit((pcall(co)))"
			} else {
				drv = "local co = coroutine.create(body)\nemit(coroutine.status(co))\nemit(coroutine.resume(co))\nemit(coroutine.status(co))\nlocal ok, e = coroutine.resume(co)\nemit(ok, type(e), type(e) == 'table' and e.code, e == nil or e == true or e == false or e == 42 or e == 'msg')\nemit(coroutine.status(co))\nemit((coroutine.resume(co)), coroutine.status(co))"
			}
			src := fmt.Sprintf("local function body()\n emit('in')\n coroutine.yield('y')\n emit('again')\n do %s end\nend\n%s\nreturn 0", ending, drv)
			out = append(out, shapeProgram(src, "shape:coroutine", "co:endings"))
		}
	}
	// nested resume: A resumes B, B checks status(A); generator driving for-in; yield from nested call depth
	extras := []string{
		`local A, B
B = coroutine.create(function() emit('B', coroutine.status(A), coroutine.status(B), coroutine.running() == B) coroutine.yield('b1') emit('B2', coroutine.status(A)) end)
A = coroutine.create(function() emit('A', coroutine.status(A), coroutine.status(B)) emit(coroutine.resume(B)) emit(coroutine.status(B)) coroutine.yield('a1') emit(coroutine.resume(B)) emit(coroutine.status(B), coroutine.resume(B)) end)
emit(coroutine.resume(A))
emit(coroutine.status(A), coroutine.status(B))
emit(coroutine.resume(A))
emit(coroutine.status(A), coroutine.status(B), coroutine.running() == nil)
emit(coroutine.resume(A))
return 0`,
		`local function gen(n) return coroutine.wrap(function() for i = 1, n do coroutine.yield(i, i * i) end end) end
for i, sq in gen(4) do emit(i, sq) end
for i in gen(0) do emit('never', i) end
local total = 0
for i, sq in gen(3) do for j in gen(i) do total = total + j * sq end end
emit(total)
return total`,
		`local function deep(n) if n == 0 then return coroutine.yield('bottom') end return 1 + deep(n - 1) end
local co = coroutine.create(function() return deep(5) end)
emit(coroutine.resume(co))
emit(coroutine.status(co))
emit(coroutine.resume(co, 100))
emit(coroutine.status(co))
return 0`,
		`local co
co = coroutine.create(function() emit(coroutine.resume(co)) emit(coroutine.status(co)) return 'x' end)
emit(coroutine.resume(co))
emit(coroutine.resume(co))
emit(pcall(coroutine.yield, 1))
emit(pcall(coroutine.wrap(function() error({code = 1}) end)))
return 0`,
	}
	for _, e := range extras {
		out = append(out, shapeProgram(e, "shape:coroutine", "co:extras"))
	}
	return out
}
