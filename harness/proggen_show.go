package main

import (
	"fmt"
	"os"
	"time"
)

func init() {
	props["GENENUM"] = func(run *Run) {
		var ps []*Program
		switch os.Getenv("GENENUM") {
		case "assign":
			ps = EnumAssignShapes(2, 2)
		case "call":
			ps = EnumCallShapes()
		case "cond":
			ps = EnumCondShapes(2)
		case "closure":
			ps = EnumClosureExitShapes()
		case "co":
			ps = EnumCoroutineShapes()
		}
		i := int(run.Seed) % len(ps)
		fmt.Println(len(ps), "programs; #", i)
		fmt.Println(ps[i].Src)
		out := RunLua(ps[i].Src, 2*time.Second, installHostFuncs)
		for _, e := range out.Emits {
			fmt.Println("emit", e)
		}
		fmt.Println(out.Results, out.Err, out.Msg)
		os.Exit(0)
	}
}
