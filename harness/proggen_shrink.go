package main

// Program generator — shrinking support for delta debugging: simpler variants of a program, each re-rendered so that
// Src and Sexp stay consistent.

import (
	"sort"
	"strings"

	lua "github.com/yuin/gopher-lua"
	luaparse "github.com/yuin/gopher-lua/parse"
)

// Lines returns the number of source lines of the program.
func (p *Program) Lines() int {
	eol := p.Layout.EOL
	if eol == "" {
		eol = "\n"
	}
	n := strings.Count(p.Src, eol)
	if !strings.HasSuffix(p.Src, eol) {
		n++
	}
	return n
}

// Chunk returns a private copy of the program's AST (re-read from Sexp when the program does not keep its AST).
func (p *Program) Chunk() *Chunk {
	if p.AST != nil {
		return &Chunk{Body: cloneStmts(p.AST.Body)}
	}
	c, err := SexpToChunk(p.Sexp)
	if err != nil {
		return nil
	}
	return c
}

// loads: does the source compile (syntax, break outside loop, goto without label …) on the real front end?
func loads(src string) bool {
	defer func() { recover() }()
	ch, err := luaparse.Parse(strings.NewReader(src), "shrink")
	if err != nil {
		return false
	}
	_, err = lua.Compile(ch, "shrink")
	return err == nil
}

type shrinkEdit struct {
	kind string // del | body | else | fnbody | sub | const
	idx  int    // statement number (pre-order) for del/body/else, expression number for the others
	arg  int    // sub: which child; const: which constant
}

// stmtLists visits every statement list of the chunk; f may replace the list.
func mapStmtLists(c *Chunk, f func(ss []*Stmt) []*Stmt) {
	var doExpr func(e *Expr)
	var doList func(ss []*Stmt) []*Stmt
	doExpr = func(e *Expr) {
		if e == nil {
			return
		}
		doExpr(e.A)
		doExpr(e.B)
		for _, a := range e.Args {
			doExpr(a)
		}
		for _, fl := range e.Fields {
			doExpr(fl.Key)
			doExpr(fl.Val)
		}
		if e.K == "fn" {
			e.Body = doList(e.Body)
		}
	}
	doList = func(ss []*Stmt) []*Stmt {
		ss = f(ss)
		for _, s := range ss {
			for _, t := range s.Targets {
				doExpr(t)
			}
			for _, e := range s.Es {
				doExpr(e)
			}
			if s.Body != nil {
				s.Body = doList(s.Body)
			}
			if s.Else != nil {
				s.Else = doList(s.Else)
			}
		}
		return ss
	}
	c.Body = doList(c.Body)
}

// mapExprs visits every expression slot (pre-order); f returns the replacement (or the same node).
func mapExprs(c *Chunk, f func(e *Expr, isTarget bool) *Expr) {
	var doExpr func(e *Expr, tgt bool) *Expr
	var doList func(ss []*Stmt)
	doExpr = func(e *Expr, tgt bool) *Expr {
		if e == nil {
			return nil
		}
		e = f(e, tgt)
		// prefix positions (callee, indexed object, receiver) keep their form: a statement must not start with `(`
		e.A = doExpr(e.A, e.K == "call" || e.K == "meth" || e.K == "ix")
		e.B = doExpr(e.B, false)
		for i, a := range e.Args {
			e.Args[i] = doExpr(a, false)
		}
		for _, fl := range e.Fields {
			fl.Key = doExpr(fl.Key, false)
			fl.Val = doExpr(fl.Val, false)
		}
		if e.K == "fn" {
			doList(e.Body)
		}
		return e
	}
	doList = func(ss []*Stmt) {
		for _, s := range ss {
			for i, t := range s.Targets {
				s.Targets[i] = doExpr(t, true)
			}
			for i, e := range s.Es {
				// the call of a call statement and the fn of a localfn must keep their kind
				keep := s.K == "callst" || s.K == "localfn"
				s.Es[i] = doExpr(e, keep)
			}
			doList(s.Body)
			doList(s.Else)
		}
	}
	doList(c.Body)
}

func constFor(e *Expr, which int) *Expr {
	switch e.K {
	case "bin":
		switch e.S {
		case "eq", "ne", "lt", "le", "gt", "ge":
			return eBool(which == 0)
		case "concat":
			return eStr("")
		}
		return eInt(which)
	case "not":
		return eBool(which == 0)
	case "neg", "len", "n":
		return eInt(which)
	case "s":
		return eStr("")
	case "tbl":
		return eTbl()
	}
	if which == 0 {
		return eNil()
	}
	return eInt(1)
}

// ShrinkCandidates returns simpler variants of p (≤ ~200, smallest first): one statement deleted (any depth), a block
// statement replaced by its body (or its else-body), a function body emptied, an expression replaced by one of its
// sub-expressions or by a constant. Only candidates that still compile on the real front end are kept.
func ShrinkCandidates(p *Program) []*Program {
	base := p.Chunk()
	if base == nil {
		return nil
	}
	var edits []shrinkEdit
	ns := 0
	walkStmts(base.Body, func(s *Stmt) {
		edits = append(edits, shrinkEdit{"del", ns, 0})
		switch s.K {
		case "do", "while", "repeat", "fornum", "forin", "if":
			edits = append(edits, shrinkEdit{"body", ns, 0})
			if s.K == "if" && len(s.Else) > 0 {
				edits = append(edits, shrinkEdit{"else", ns, 0})
			}
		}
		ns++
	})
	ne := 0
	var exprEdits []shrinkEdit
	mapExprs(&Chunk{Body: cloneStmts(base.Body)}, func(e *Expr, tgt bool) *Expr {
		if !tgt {
			switch e.K {
			case "fn":
				if len(e.Body) > 0 {
					exprEdits = append(exprEdits, shrinkEdit{"fnbody", ne, 0})
				}
			case "bin", "and", "or":
				exprEdits = append(exprEdits, shrinkEdit{"sub", ne, 0}, shrinkEdit{"sub", ne, 1}, shrinkEdit{"const", ne, 0})
			case "not", "neg", "len", "par":
				exprEdits = append(exprEdits, shrinkEdit{"sub", ne, 0}, shrinkEdit{"const", ne, 0})
			case "call", "meth":
				exprEdits = append(exprEdits, shrinkEdit{"const", ne, 0}, shrinkEdit{"const", ne, 1})
				if len(e.Args) > 0 {
					exprEdits = append(exprEdits, shrinkEdit{"sub", ne, 2})
				}
			case "ix":
				exprEdits = append(exprEdits, shrinkEdit{"const", ne, 0})
			case "tbl":
				if len(e.Fields) > 0 {
					exprEdits = append(exprEdits, shrinkEdit{"const", ne, 0})
				}
			}
		}
		ne++
		return e
	})
	// budget: all statement edits (capped), then expression edits (capped)
	if len(edits) > 450 {
		edits = edits[:450]
	}
	if len(exprEdits) > 250 {
		step := len(exprEdits)/250 + 1
		var pick []shrinkEdit
		for i := 0; i < len(exprEdits); i += step {
			pick = append(pick, exprEdits[i])
		}
		exprEdits = pick
	}
	edits = append(edits, exprEdits...)

	keep := map[string]int{}
	for k, v := range p.Feats {
		if strings.HasPrefix(k, "kd:") || strings.HasPrefix(k, "kdv:") || strings.HasPrefix(k, "fault") || strings.HasPrefix(k, "shape:") {
			keep[k] = v
		}
	}
	seen := map[string]bool{p.Sexp: true}
	var out []*Program
	for _, ed := range edits {
		c := &Chunk{Body: cloneStmts(base.Body)}
		applied := false
		switch ed.kind {
		case "del", "body", "else":
			n := 0
			// statement numbering must match walkStmts' pre-order: number while descending
			var visit func(ss []*Stmt) []*Stmt
			var visitExpr func(e *Expr)
			visitExpr = func(e *Expr) {
				if e == nil {
					return
				}
				visitExpr(e.A)
				visitExpr(e.B)
				for _, a := range e.Args {
					visitExpr(a)
				}
				for _, fl := range e.Fields {
					visitExpr(fl.Key)
					visitExpr(fl.Val)
				}
				if e.K == "fn" {
					e.Body = visit(e.Body)
				}
			}
			visit = func(ss []*Stmt) []*Stmt {
				var res []*Stmt
				for _, s := range ss {
					me := n
					n++
					if me == ed.idx && !applied {
						applied = true
						switch ed.kind {
						case "del":
							continue
						case "body":
							res = append(res, s.Body...)
							continue
						case "else":
							res = append(res, s.Else...)
							continue
						}
					}
					for _, t := range s.Targets {
						visitExpr(t)
					}
					for _, e := range s.Es {
						visitExpr(e)
					}
					if s.Body != nil {
						s.Body = visit(s.Body)
					}
					if s.Else != nil {
						s.Else = visit(s.Else)
					}
					res = append(res, s)
				}
				if res == nil {
					res = []*Stmt{}
				}
				return res
			}
			c.Body = visit(c.Body)
		default:
			n := 0
			mapExprs(c, func(e *Expr, tgt bool) *Expr {
				me := n
				n++
				if me != ed.idx || applied {
					return e
				}
				applied = true
				switch ed.kind {
				case "fnbody":
					e.Body = []*Stmt{}
					return e
				case "sub":
					switch {
					case ed.arg == 0 && e.A != nil:
						return e.A
					case ed.arg == 1 && e.B != nil:
						return e.B
					case ed.arg == 2 && len(e.Args) > 0:
						return e.Args[0]
					}
					return e
				case "const":
					return constFor(e, ed.arg)
				}
				return e
			})
		}
		if !applied {
			continue
		}
		q := finishProgram(c, p.Layout, NewRng(1), keep)
		if seen[q.Sexp] || !loads(q.Src) {
			continue
		}
		seen[q.Sexp] = true
		out = append(out, q)
	}
	sort.SliceStable(out, func(i, j int) bool {
		return out[i].NStmts < out[j].NStmts || out[i].NStmts == out[j].NStmts && len(out[i].Src) < len(out[j].Src)
	})
	if len(out) > 200 {
		out = out[:200]
	}
	return out
}
