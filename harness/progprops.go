package main

// Program-level correspondence for C01–C06, C11, C12, C17: generated programs (harness/proggen_*.go) and the
// hand-written corpus (corpus/progs/*.lua) run on the real interpreter and on the Lean reference semantics
// (engine S).  The mechanism-level ties of the same properties are the runners registered as "<id>M".

import (
	"fmt"
	"os"
	"path/filepath"
	"regexp"
	"sort"
	"strconv"
	"strings"
)

type progSpec struct {
	Prop      string
	Profiles  []string
	Enums     func() []*Program
	QuickN    int
	ThoroughN int
	FaultPct  int
	Layouts   []Layout
	Rule      string
	Must      func(thorough bool) []*Program // shapes that run completely in every tier
	WrapEnums bool // also run each enumerated shape moved into a parameterless function (register 0 base)
}

var propsRe = regexp.MustCompile(`(?m)^-- PROPS:(.*)$`)

// corpusPrograms returns the hand-written corpus programs that serve prop.
func corpusPrograms(prop string) []ProgCase {
	var res []ProgCase
	files, _ := filepath.Glob(filepath.Join(verifRoot(), "corpus", "progs", "*.lua"))
	sort.Strings(files)
	for _, f := range files {
		b, err := os.ReadFile(f)
		if err != nil {
			continue
		}
		src := string(b)
		m := propsRe.FindStringSubmatch(src)
		if m == nil || !strings.Contains(" "+m[1]+" ", " "+prop+" ") {
			continue
		}
		sx, err := LuaToSexp(src)
		if err != nil {
			continue
		}
		res = append(res, ProgCase{Src: src, Sexp: sx, Note: "corpus:" + filepath.Base(f)})
	}
	return res
}

// wrapInFunction returns the same program with its whole body moved into a parameterless vararg function that is
// called once: every local of the original chunk then starts at register 0 of a fresh frame (shapes such as
// "the loop body's first local lives in register 0" are reached systematically, not by luck).
func wrapInFunction(p *Program) *Program {
	ch := p.Chunk()
	if ch == nil {
		return nil
	}
	w := &Chunk{Body: []*Stmt{
		sLocalFn("W__", eFn(nil, true, ch.Body)),
		sRet(eCallN("W__", eDots())),
	}}
	q := finishProgram(w, Layout{Kind: "oneline", EOL: "\n"}, NewRng(7))
	q.Skeleton = "wrapped:" + p.Skeleton
	return q
}

// stripLeadingLocals drops the leading run of plain `local` declarations whose names are not used later (the
// generator's preamble), so that the first interesting statement owns register 0 of its function.
func runProgProperty(run *Run, ps progSpec) {
	n := ps.QuickN
	if run.Tier == "thorough" {
		n = ps.ThoroughN
	}
	root := NewRng(uint64(run.Seed) ^ 0xC0FFEE)
	var cases []Case
	skel := map[int]string{}
	add := func(pc ProgCase, sk string) {
		idx := storeProg(pc)
		c := Case{Idx: len(cases), Ops: []Op{{Args: []string{"prog", strconv.Itoa(idx)}}}, Note: pc.Note}
		skel[len(cases)] = sk
		cases = append(cases, c)
	}
	for _, pc := range corpusPrograms(ps.Prop) {
		add(pc, pc.Note)
	}
	if ps.Must != nil {
		ms := ps.Must(run.Tier == "thorough")
		for _, p := range ms {
			add(ProgCase{Src: p.Src, Sexp: p.Sexp, Note: "must"}, p.Skeleton)
			for k, v := range p.Feats {
				run.Hist["feat:"+k] += v
			}
		}
		run.Extra["must_shapes_run"] = len(ms)
	}
	if ps.Enums != nil {
		en := ps.Enums()
		// quick tier: a seeded subset of the bounded-exhaustive shapes
		limit := len(en)
		if run.Tier != "thorough" && limit > n {
			limit = n
		}
		perm := make([]int, len(en))
		for i := range perm {
			perm[i] = i
		}
		r := root.Fork(777)
		for i := len(perm) - 1; i > 0; i-- {
			j := r.Intn(i + 1)
			perm[i], perm[j] = perm[j], perm[i]
		}
		for _, i := range perm[:limit] {
			p := en[i]
			add(ProgCase{Src: p.Src, Sexp: p.Sexp, Note: "enum"}, p.Skeleton)
			if ps.WrapEnums {
				if q := wrapInFunction(p); q != nil {
					add(ProgCase{Src: q.Src, Sexp: q.Sexp, Note: "enum-wrapped"}, q.Skeleton)
				}
			}
			for k, v := range p.Feats {
				run.Hist["feat:"+k] += v
			}
		}
		run.Extra["enumerated_shapes_total"] = len(en)
		run.Extra["enumerated_shapes_run"] = limit
	}
	layouts := ps.Layouts
	if len(layouts) == 0 {
		layouts = []Layout{{Kind: "oneline", EOL: "\n"}}
	}
	for i := 0; i < n; i++ {
		r := root.Fork(uint64(i))
		prof := Profile(ps.Profiles[i%len(ps.Profiles)])
		if ps.FaultPct >= 0 {
			prof.FaultPct = ps.FaultPct
		}
		p := GenProgram(r, prof, layouts[i%len(layouts)])
		add(ProgCase{Src: p.Src, Sexp: p.Sexp, Note: "gen:" + prof.Name}, p.Skeleton)
		for k, v := range p.Feats {
			run.Hist["feat:"+k] += v
		}
	}
	before := len(run.Failures)
	runCasesSkel(run, cases, execProg, classifyTagged, skel)
	// attach the Lua source to the failures for the replay files
	for i := before; i < len(run.Failures); i++ {
		f := &run.Failures[i]
		if f.CaseIdx >= 0 && f.CaseIdx < len(cases) {
			idx, _ := strconv.Atoi(cases[f.CaseIdx].Ops[0].Args[1])
			f.Source = getProg(idx).Src
			f.Sexp = getProg(idx).Sexp
		}
	}
	if run.Rule != "" {
		run.Rule += " || "
	}
	run.Rule += ps.Rule
}

func init() {
	one := []Layout{{Kind: "oneline", EOL: "\n"}}
	reg := func(ps progSpec) {
		props[ps.Prop+"P"] = func(run *Run) { runProgProperty(run, ps) }
	}
	constWindows := func(thorough bool) []*Program {
		if thorough {
			return EnumConstWindowShapes([]int{256, 512, 768, 1024, 2048})
		}
		return EnumConstWindowShapes([]int{256, 512})
	}
	reg(progSpec{Prop: "C01", Profiles: []string{"core"}, QuickN: 1500, ThoroughN: 40000, FaultPct: 10, Layouts: one,
		Must: func(th bool) []*Program {
			ms := append(append(constWindows(th), EnumIteratorShapes()...), EnumUninitLocalShapes()...)
			return append(append(ms, EnumCtorFlushShapes(th)...), EnumCoerceBlankShapes(th)...)
		},
		Enums: func() []*Program {
			return append(EnumAssignShapes(3, 3), EnumCondShapes(3)...)
		},
		Rule: "typed random programs of profile `core` (all operators/nestings, coercions, logical operators in every context, table constructors, multiple assignment, all loop kinds, break, goto) + bounded-exhaustive assignment shapes (k,m ≤ 3 over storage classes) and condition trees (depth ≤ 3 × contexts) + uninitialised local declarations re-executed by every loop kind at every function-start position + user-written iterators (control values of every type, stateless/closure/callable, break, nesting, arity) + constant-pool windows (one block with a constant in every operand position behind n filler constants, n sweeping the 256/512(/768/1024/2048) operand boundaries) + table constructors with 0…250(…550) positional items around every SETLIST flush boundary (50·k−1, 50·k, 50·k+1) × every kind of last item (none, single value, calls returning 0/1/3 values, `...` holding 3/0/1 values, method call, parenthesised call/`...`, open expression followed by an item or a named field) × interleaved named fields and explicit integer keys, observing #t, select('#', tail) and every element + string→number coercion (arithmetic, unary minus, tonumber; ==, <, <=, indexing, `..` as controls; numeric for) on a numeral with every byte 0…255 before/behind/around/inside it, the UTF-8 encodings of all Unicode White_Space code points and look-alikes, lone continuation bytes, NUL, and the six blanks of C isspace (the only bytes accepted), caught (values) and uncaught (failure line) + corpus; each run on the real interpreter and judged by the Lean reference semantics (emit trace, chunk results, failure line); distinct = distinct normalised AST skeletons"})
	reg(progSpec{Prop: "C02", Profiles: []string{"calls"}, QuickN: 1200, ThoroughN: 30000, FaultPct: 5, Layouts: one,
		Must: func(th bool) []*Program { return append(constWindows(th), EnumLibraryCallerShapes()...) },
		Enums: EnumCallShapes,
		Rule: "profile `calls` (varargs, multiple results in every context, method sugar, tail calls, select, unpack) + bounded-exhaustive call shapes + library-caller shapes (calls passing through pcall/xpcall/coroutine.wrap/resume/select/unpack/assert and fixed-result functions with surplus arguments: callee arity × argument list × context) + corpus; oracle = Lean reference semantics"})
	reg(progSpec{Prop: "C03", Profiles: []string{"closures"}, QuickN: 1200, ThoroughN: 30000, FaultPct: 10, Layouts: one,
		Enums: func() []*Program {
			return append(append(EnumClosureExitShapes(), EnumRegisterZeroLoopShapes()...), EnumNestedCloseShapes()...)
		}, WrapEnums: true,
		Rule: "profile `closures` (capture × exit path × register reuse; shared upvalues; setfenv/getfenv) + exhaustive closure exit shapes + register-0 loop shapes + nested-close shapes (captured block ending in a capturing nested block, taken/skipped/left early) + corpus; oracle = Lean reference semantics"})
	reg(progSpec{Prop: "C04", Profiles: []string{"meta"}, QuickN: 1000, ThoroughN: 25000, FaultPct: 10, Layouts: one,
		Must: func(th bool) []*Program {
			n := 3
			if th {
				n = 4
			}
			return append(append(EnumInheritedHandlerShapes(), EnumHandlerHistoryShapes(n)...), EnumMethodCallShapes()...)
		},
		Rule: "profile `meta` (metatables with every subset of events, chains, operand type pairs, logging handlers) + 53 inherited-handler shapes (events reachable only through the metatable's own __index are not events) + handler-history shapes (every history of 3 (thorough: 4) steps over install-next / remove / other-metatable-and-back / no-metatable-and-back / unrelated-new-key on a metatable shared by two tables, written by field assignment / computed key / rawset / a constructor-built new metatable in all four rotations, every event triggered after every step) + method-call shapes (recv:name(…) = recv.name(recv, …) for string receivers behind every shape of the string metatable's __index path and table receivers behind __index chains of length 0..4, in expression / statement / argument / tail position) + corpus; oracle = Lean reference semantics (manual §2.8)"})
	reg(progSpec{Prop: "C05", Profiles: []string{"errors"}, QuickN: 1200, ThoroughN: 30000, FaultPct: 60, Layouts: one,
		Rule: "profile `errors` (pcall/xpcall/error with every value type and level, nested, runtime faults at random points, continuing after caught errors) + corpus; oracle = Lean reference semantics"})
	reg(progSpec{Prop: "C06", Profiles: []string{"coroutines"}, QuickN: 1200, ThoroughN: 30000, FaultPct: 10, Layouts: one,
		Enums: EnumCoroutineShapes,
		Must:  func(bool) []*Program { return EnumCoroutineUpvalueShapes() },
		Rule: "profile `coroutines` (1–4 coroutines, nested resumes, payload counts independent of wanted counts, wrap generators, errors inside) + exhaustive payload/wanted grid + 240 escaped-upvalue shapes (owner × yield path × ending × create/wrap: one shared variable across suspensions and after death) + corpus; oracle = Lean reference semantics"})
	reg(progSpec{Prop: "C17", Profiles: []string{"errors", "core", "calls"}, QuickN: 900, ThoroughN: 20000, FaultPct: 70, Layouts: one,
		Must: func(bool) []*Program { return EnumLineAfterShapes() },
		Rule: "program-level error positions: profiles errors/core/calls with a deliberate fault in 70 % of the programs (run-time faults of every kind, error(msg) at levels 1 and 2, errors raised by library functions, caught and uncaught), every statement on one line, + exhaustive pairs (statement whose last instruction is deleted/rewritten by the compiler) × (statement whose first instruction faults) × placement with comment/blank lines between: the reported `chunk:line:` must be exactly the line the Lean reference semantics assigns"})
	_ = fmt.Sprint
}
