package main

// Shared runner for program-level properties (C01–C06, C11, C12, C17): run a generated program on the real
// interpreter, render its observable outcome as tokens, and let the Lean reference semantics judge it.

import (
	"fmt"
	"regexp"
	"strconv"
	"strings"
	"sync"
	"time"

	lua "github.com/yuin/gopher-lua"
)

type ProgCase struct {
	Src     string
	Sexp    string
	Note    string
	FaultAt int // 0 = none (Sem-side fault injection step)
}

var progStore struct {
	sync.Mutex
	cases []ProgCase
}

func storeProg(p ProgCase) int {
	progStore.Lock()
	defer progStore.Unlock()
	progStore.cases = append(progStore.cases, p)
	return len(progStore.cases) - 1
}
func getProg(i int) ProgCase {
	progStore.Lock()
	defer progStore.Unlock()
	return progStore.cases[i]
}

var posRe = regexp.MustCompile(`^<string>:(\d+):`)

// outcomeTokens renders a LuaOutcome as the token list of the S engine.
func outcomeTokens(o LuaOutcome, errObj lua.LValue) []string {
	var toks []string
	for _, e := range o.Emits {
		toks = append(toks, "E:"+e)
	}
	switch o.Err {
	case "":
		toks = append(toks, "R:"+strings.Join(o.Results, ","))
	case "gopanic":
		toks = append(toks, "PANIC")
	case "timeout":
		toks = append(toks, "TIMEOUT")
	case "syntax":
		toks = append(toks, "SYNTAX")
	default:
		toks = append(toks, "X:"+o.ErrTok)
	}
	return toks
}

// RunLuaProg runs src like RunLua but also canonicalises the error object.
func RunLuaProg(src string, timeout time.Duration, setup func(L *lua.LState), opts ...lua.Options) LuaOutcome {
	return runLuaFull(src, timeout, setup, opts...)
}

func execProg(ops []Op) []string {
	var out []string
	for _, op := range ops {
		idx, _ := strconv.Atoi(op.Args[1])
		pc := getProg(idx)
		o := runLuaFull(pc.Src, 5*time.Second, nil)
		toks := outcomeTokens(o, nil)
		fa := "-"
		if pc.FaultAt > 0 {
			fa = strconv.Itoa(pc.FaultAt)
		}
		if o.Err == "gopanic" || o.Err == "timeout" {
			out = append(out, fmt.Sprintf("X %s => %s", o.Err, o.Msg))
			continue
		}
		out = append(out, "S run 400000 "+fa+" "+pc.Sexp+" => "+strings.Join(toks, " "))
	}
	return out
}
