package main

// Extra bounded-exhaustive shapes written by the integrator (templates parsed into the generator's AST).

import "fmt"

// EnumRegisterZeroLoopShapes: every loop kind as the FIRST statement of a parameterless function / of the main
// chunk (so the loop body's first local owns register 0 of its frame), creating one closure per iteration that
// captures a body local, with all bookkeeping in globals; afterwards every closure is read, one is written
// through a sibling setter and all are read again (fresh variable per iteration, no leaks between iterations).
func EnumRegisterZeroLoopShapes() []*Program {
	loops := map[string]string{
		"repeat":      "repeat\n local j = count * 10\n %s\n count = count + 1\n until count >= 3",
		"while":       "while count < 3 do\n local j = count * 10\n %s\n count = count + 1\n end",
		"fornum":      "for i = 0, 2 do\n local j = i * 10\n %s\n count = count + 1\n end",
		"fornum-var":  "for j = 0, 20, 10 do\n %s\n count = count + 1\n end",
		"forin":       "for _, j in ipairs({0, 10, 20}) do\n %s\n count = count + 1\n end",
		"goto":        "::top::\n do\n local j = count * 10\n %s\n count = count + 1\n end\n if count < 3 then goto top end",
		"repeat-cond": "repeat\n local j = count * 10\n %s\n count = count + 1\n local done = count >= 3\n until done",
		"while-break": "while true do\n local j = count * 10\n %s\n count = count + 1\n if count >= 3 then break end\n end",
	}
	capture := "fns[#fns + 1] = function() return j end\n setters[#setters + 1] = function(v) j = v end"
	check := "emit(fns[1](), fns[2](), fns[3]())\n setters[1](99)\n emit(fns[1](), fns[2](), fns[3]())\n setters[3](-1)\n emit(fns[1](), fns[2](), fns[3]())"
	var out []*Program
	names := []string{"repeat", "while", "fornum", "fornum-var", "forin", "goto", "repeat-cond", "while-break"}
	for _, n := range names {
		loop := fmt.Sprintf(loops[n], capture)
		// (a) first statement of a parameterless function
		src := "fns, setters, count = {}, {}, 0\nlocal function bare()\n " + loop + "\nend\nbare()\n" + check + "\nreturn count"
		out = append(out, shapeProgram(src, "shape:reg0-loop-in-function", "loop:"+n))
		// (b) first statement of the main chunk (globals are created by the loop itself)
		src2 := loopMain(n, capture) + "\n" + check + "\nreturn count"
		out = append(out, shapeProgram(src2, "shape:reg0-loop-in-main", "loop:"+n))
		// (c) control: a parameter before the loop
		src3 := "fns, setters, count = {}, {}, 0\nlocal function padded(pad)\n " + loop + "\nend\npadded()\n" + check + "\nreturn count"
		out = append(out, shapeProgram(src3, "shape:reg1-loop-in-function", "loop:"+n))
		// (d) nested: the loop is the first statement of an inner block of a parameterless function
		src4 := "fns, setters, count = {}, {}, 0\nlocal function inner()\n do\n " + loop + "\n end\nend\ninner()\n" + check + "\nreturn count"
		out = append(out, shapeProgram(src4, "shape:reg0-loop-in-block", "loop:"+n))
	}
	return out
}

func loopMain(n, capture string) string {
	init := "fns = fns or {}\n setters = setters or {}\n count = count or 0"
	switch n {
	case "repeat":
		return "repeat\n local j = (count or 0) * 10\n " + init + "\n " + capture + "\n count = count + 1\n until count >= 3"
	case "repeat-cond":
		return "repeat\n local j = (count or 0) * 10\n " + init + "\n " + capture + "\n count = count + 1\n local done = count >= 3\n until done"
	case "while":
		return "while (count or 0) < 3 do\n local j = (count or 0) * 10\n " + init + "\n " + capture + "\n count = count + 1\n end"
	case "while-break":
		return "while true do\n local j = (count or 0) * 10\n " + init + "\n " + capture + "\n count = count + 1\n if count >= 3 then break end\n end"
	case "fornum":
		return "for i = 0, 2 do\n local j = i * 10\n " + init + "\n " + capture + "\n count = count + 1\n end"
	case "fornum-var":
		return "for j = 0, 20, 10 do\n " + init + "\n " + capture + "\n count = count + 1\n end"
	case "forin":
		return "for _, j in ipairs({0, 10, 20}) do\n " + init + "\n " + capture + "\n count = count + 1\n end"
	default: // goto
		return "::top::\n do\n local j = (count or 0) * 10\n " + init + "\n " + capture + "\n count = count + 1\n end\n if count < 3 then goto top end"
	}
}
