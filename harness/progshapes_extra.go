package main

// Extra bounded-exhaustive shapes written by the integrator (templates parsed into the generator's AST).

import (
	"fmt"
	"strings"
)

// EnumRegisterZeroLoopShapes: every loop kind as the FIRST statement of a parameterless function / of the main
// chunk (so the loop body's first local owns register 0 of its frame), creating one closure per iteration that
// captures a body local, with all bookkeeping in globals; afterwards every closure is read, one is written
// through a sibling setter and all are read again (fresh variable per iteration, no leaks between iterations).
func EnumRegisterZeroLoopShapes() []*Program {
	loops := map[string]string{
		"repeat":      "repeat\n local j = count * 10\n %s\n count = count + 1\n until count >= 3",
		"while":       "while count < 3 do\n local j = count * 10\n %s\n count = count + 1\n end",
		"fornum":      "for i = 0, 2 do\n local j = i * 10\n %s\n count = count + 1\n end",
		"fornum-var":  "for j = 0, 20, 10 do\n %s\n count = count + 1\n end",
		"forin":       "for _, j in ipairs({0, 10, 20}) do\n %s\n count = count + 1\n end",
		"goto":        "::top::\n do\n local j = count * 10\n %s\n count = count + 1\n end\n if count < 3 then goto top end",
		"repeat-cond": "repeat\n local j = count * 10\n %s\n count = count + 1\n local done = count >= 3\n until done",
		"while-break": "while true do\n local j = count * 10\n %s\n count = count + 1\n if count >= 3 then break end\n end",
	}
	capture := "fns[#fns + 1] = function() return j end\n setters[#setters + 1] = function(v) j = v end"
	check := "emit(fns[1](), fns[2](), fns[3]())\n setters[1](99)\n emit(fns[1](), fns[2](), fns[3]())\n setters[3](-1)\n emit(fns[1](), fns[2](), fns[3]())"
	var out []*Program
	names := []string{"repeat", "while", "fornum", "fornum-var", "forin", "goto", "repeat-cond", "while-break"}
	for _, n := range names {
		loop := fmt.Sprintf(loops[n], capture)
		// (a) first statement of a parameterless function
		src := "fns, setters, count = {}, {}, 0\nlocal function bare()\n " + loop + "\nend\nbare()\n" + check + "\nreturn count"
		out = append(out, shapeProgram(src, "shape:reg0-loop-in-function", "loop:"+n))
		// (b) first statement of the main chunk (globals are created by the loop itself)
		src2 := loopMain(n, capture) + "\n" + check + "\nreturn count"
		out = append(out, shapeProgram(src2, "shape:reg0-loop-in-main", "loop:"+n))
		// (c) control: a parameter before the loop
		src3 := "fns, setters, count = {}, {}, 0\nlocal function padded(pad)\n " + loop + "\nend\npadded()\n" + check + "\nreturn count"
		out = append(out, shapeProgram(src3, "shape:reg1-loop-in-function", "loop:"+n))
		// (d) nested: the loop is the first statement of an inner block of a parameterless function
		src4 := "fns, setters, count = {}, {}, 0\nlocal function inner()\n do\n " + loop + "\n end\nend\ninner()\n" + check + "\nreturn count"
		out = append(out, shapeProgram(src4, "shape:reg0-loop-in-block", "loop:"+n))
	}
	return out
}

func loopMain(n, capture string) string {
	init := "fns = fns or {}\n setters = setters or {}\n count = count or 0"
	switch n {
	case "repeat":
		return "repeat\n local j = (count or 0) * 10\n " + init + "\n " + capture + "\n count = count + 1\n until count >= 3"
	case "repeat-cond":
		return "repeat\n local j = (count or 0) * 10\n " + init + "\n " + capture + "\n count = count + 1\n local done = count >= 3\n until done"
	case "while":
		return "while (count or 0) < 3 do\n local j = (count or 0) * 10\n " + init + "\n " + capture + "\n count = count + 1\n end"
	case "while-break":
		return "while true do\n local j = (count or 0) * 10\n " + init + "\n " + capture + "\n count = count + 1\n if count >= 3 then break end\n end"
	case "fornum":
		return "for i = 0, 2 do\n local j = i * 10\n " + init + "\n " + capture + "\n count = count + 1\n end"
	case "fornum-var":
		return "for j = 0, 20, 10 do\n " + init + "\n " + capture + "\n count = count + 1\n end"
	case "forin":
		return "for _, j in ipairs({0, 10, 20}) do\n " + init + "\n " + capture + "\n count = count + 1\n end"
	default: // goto
		return "::top::\n do\n local j = (count or 0) * 10\n " + init + "\n " + capture + "\n count = count + 1\n end\n if count < 3 then goto top end"
	}
}

// EnumConstWindowShapes: the same block of statements — every operand position that can hold a constant (RK operands
// of arithmetic, comparison and concatenation, table keys and stored values, global names, method names on local,
// global, field, literal and call-result receivers) — compiled behind a filler of n distinct constants, for every n
// in a window below each operand-width boundary (256: RK operands, 512/768/1024: 9-bit operand wrap-around), so
// that each constant of the block gets every pool index around the boundary in one of the programs.
func EnumConstWindowShapes(boundaries []int) []*Program {
	block := `local x, t, s = 7, {sub = {}}, "str"
emit(1, x + 900001, 900002 - x, x * 900003, x < 900004, 900005 <= x, x == 900006, x .. "k1", "k2" .. x)
t[900007] = 900008
t.fieldA = "valA"
t["fieldB"] = x
emit(2, t[900007], t.fieldA, t.fieldB, t[900009], t.nofield)
G1 = 900010
emit(3, G1, G1 + 900011, 900012 / G1 > 0)
function t.sub:meth1(a) return self == t.sub, a end
Gobj = {meth2 = function(self, a) return self == Gobj, a + 900013 end}
local function mk() return {meth3 = function(self) return "m3" end} end
emit(4, s:upper(), ("lit"):rep(2), Gobj:meth2(5), t.sub:meth1(900014), mk():meth3())
emit(5, s:len(), Gobj:meth2(900015), x % 900016, x ^ 2, -x + 900017, not (x ~= 900018))
local u = {900019, "sv1", [900020] = "sv2", fieldC = 900021, "sv3"}
emit(6, u[1], u[2], u[900020], u.fieldC, u[3])
for i = 900022, 900023 do emit(7, i, i - 900022 == 0) end
if x > 900024 or x == 7 and "sv4" then emit(8, x < 900025 and "sv5" or "sv6") end
return x + 900026, "last"`
	var out []*Program
	for _, b := range boundaries {
		for n := b - 44; n <= b+2; n++ {
			if n < 0 {
				continue
			}
			var sb []byte
			sb = append(sb, "local fill = {"...)
			for i := 0; i < n; i++ {
				if i > 0 {
					sb = append(sb, ',')
					if i%20 == 0 {
						sb = append(sb, '\n')
					}
				}
				sb = append(sb, fmt.Sprint(500001+i)...)
			}
			sb = append(sb, "}\nemit(0, #fill)\n"...)
			out = append(out, shapeProgram(string(sb)+block, "shape:const-window", fmt.Sprintf("boundary:%d", b)))
		}
	}
	return out
}

// EnumLineAfterShapes: a statement whose code generation ends by deleting or rewriting its last instruction
// (and/or with a constant or variable last operand, comparisons, empty blocks, constant-operand propagation),
// followed — after comment and blank lines — by a statement whose FIRST instruction faults on operands that are
// already in registers.  The reported line must be the second statement's.
func EnumLineAfterShapes() []*Program {
	firsts := []string{
		"local m = o or 'fast'", "local m = a and 'x'", "local m = a or b", "m0 = o or 1", "G = o or 1",
		"local m = not o or 'z'", "local m = (a and b) or c", "if o then end", "while b do end",
		"do local m = o or 1 end", "local m = a == b or c", "local m = a < 2 and c", "local m = {o or 1}",
		"local m = a + 1", "m0 = a", "local m = c .. 'k'", "local m = hostid(o or 2)", "local m = -a or o",
		"repeat until a or o", "for i = 1, 0 do end", "local m = function() return o or 1 end", "m0 = o and o.x or 3",
	}
	seconds := []string{
		"local d = p.depth", "local s = p + q", "local k = p .. q", "local l = #p", "local n = -p", "local r = p < q",
		"p()", "p.x = 1", "p[1] = q", "for i = p, 2 do end", "local y = p.x.y", "p:m()", "m0 = p.z", "local e = p == q or p.w",
	}
	places := []string{"main", "function", "loop"}
	var out []*Program
	for _, f := range firsts {
		for _, s := range seconds {
			for _, pl := range places {
				pre := "local o, a, b, c = nil, 1, false, 's'\nlocal p, q, m0 = nil, nil, 0\n"
				mid := f + "\n-- a comment line\n\n" + s + "\n"
				var src string
				switch pl {
				case "main":
					src = pre + mid + "emit('unreachable')"
				case "function":
					src = "local function run()\n" + pre + mid + "end\nrun()\nemit('unreachable')"
				default:
					src = "local function run()\n" + pre + "for round = 1, 2 do\n" + mid + "end\nend\nemit(pcall(run))\nrun()"
				}
				out = append(out, shapeProgram(src, "shape:line-after", "place:"+pl))
			}
		}
	}
	return out
}

// EnumIteratorShapes: generic for over user-written iterators — stateless (f, s, control), closures, multiple
// values, control values of every type (only nil ends the loop: false, 0 and "" do not), early break, nesting,
// iterators that are callable objects, explists with fewer/more than three values.
func EnumIteratorShapes() []*Program {
	lists := []string{
		"{1, false, 'x', 0, true, ''}", "{false, false, 7}", "{}", "{false}", "{0, '', false, true}", "{'a', 'b'}",
	}
	iters := map[string]string{
		// stateless: walks list L, control value = the ELEMENT (so false / 0 / '' become control values)
		"stateless-elem": "local pos = 0\nlocal function it(s, c) pos = pos + 1 if pos > #L then return nil end return s[pos], pos end\nfor v, i in it, L, nil do emit('b', v, i) end",
		// closure iterator, control = element
		"closure-elem": "local function each(t) local i = 0 return function() i = i + 1 if i <= #t then return t[i], i end end end\nfor v, i in each(L) do emit('b', v, i) end",
		// control = index, value second (the usual shape)
		"closure-index": "local function each(t) local i = 0 return function() i = i + 1 if i <= #t then return i, t[i] end end end\nfor i, v in each(L) do emit('b', i, v) end",
		// alternating booleans as control values
		"alternating": "local n = 0\nlocal function it() n = n + 1 if n > #L + 2 then return nil end return n % 2 == 0, n end\nfor flag, k in it do emit('b', flag, k) end",
		// the control variable is passed back to the iterator
		"control-passed": "local function it(s, c) local nxt = (c == nil or c == false) and 1 or c + 1 if c == false then return nil end if nxt > #s then return false end return nxt end\nfor c in it, L do emit('b', c, L[c]) end",
		// callable object as iterator
		"callable": "local i = 0\nlocal obj = setmetatable({}, {__call = function(self, s, c) i = i + 1 if i <= #s then return s[i] end end})\nfor v in obj, L do emit('b', v) end",
		// early exit
		"break": "local function each(t) local i = 0 return function() i = i + 1 if i <= #t then return t[i], i end end end\nfor v, i in each(L) do emit('b', v) if i == 2 then break end end",
		// nested loops over two iterators
		"nested": "local function each(t) local i = 0 return function() i = i + 1 if i <= #t then return t[i], i end end end\nfor v in each(L) do for w in each({false, 1}) do emit('b', v, w) end end",
		// more loop variables than values, and more explist values than three
		"arity": "local function it(s, c) c = (c or 0) + 1 if c <= #s then return c end end\nfor a, b, c in it, L, nil, 'extra' do emit('b', a, b, c, L[a]) end",
	}
	names := []string{"stateless-elem", "closure-elem", "closure-index", "alternating", "control-passed", "callable", "break", "nested", "arity"}
	var out []*Program
	for _, n := range names {
		for li, l := range lists {
			body := "local L = " + l + "\n" + iters[n] + "\nemit('after', #L)\nreturn 'done'"
			out = append(out, shapeProgram(body, "shape:iterator", "iter:"+n, fmt.Sprintf("list:%d", li)))
			fn := "local function run()\n" + "local L = " + l + "\n" + iters[n] + "\nreturn #L\nend\nemit('after', run())"
			out = append(out, shapeProgram(fn, "shape:iterator-in-function", "iter:"+n))
		}
	}
	return out
}

// EnumUninitLocalShapes: `local x` without an initialiser is nil EVERY time the declaration is executed — as the
// first statement of a loop body / after a label, where the loop is the first statement of a function (its first
// instruction is a jump target), of the main chunk, or follows other statements; 1–3 names; fixed-arity, vararg
// and method functions.
func EnumUninitLocalShapes() []*Program {
	decls := []string{"local x", "local x, y", "local x; local y", "local x, y, z", "local w = n; local x"}
	loops := []string{
		"repeat\n %s\n emit(x)\n x = 'set'\n n = n + 1\n until n >= 3",
		"while n < 3 do\n %s\n emit(x)\n x = 'set'\n n = n + 1\n end",
		"while true do\n %s\n emit(x)\n x = 'set'\n n = n + 1\n if n >= 3 then break end\n end",
		"::top::\n do\n %s\n emit(x)\n x = 'set'\n n = n + 1\n end\n if n < 3 then goto top end",
		"::top::\n %s\n emit(x)\n x = 'set'\n n = n + 1\n if n < 3 then goto cont end\n do return end\n ::cont::\n goto top",
		"for i = 1, 3 do\n %s\n emit(x)\n x = 'set'\n n = n + 1\n end",
		"for _, v in ipairs({1, 2, 3}) do\n %s\n emit(x)\n x = v\n n = n + 1\n end",
		"repeat\n repeat\n %s\n emit(x)\n x = 'set'\n n = n + 1\n until n %% 2 == 0\n until n >= 4",
	}
	wrappers := []string{
		"n = 0\nlocal function f()\n%s\nend\nf()",
		"n = 0\nlocal function f(a, b)\n%s\nend\nf(1, 2)",
		"n = 0\nlocal function f(...)\n%s\nend\nf(1, 2)",
		"n = 0\nlocal o = {}\nfunction o:m()\n%s\nend\no:m()",
		"n = 0\nlocal function f()\nlocal before = 1\n%s\nend\nf()",
		"n = 0\n%s",
		"n = 0\nlocal function f()\nreturn (function()\n%s\nend)()\nend\nf()",
	}
	var out []*Program
	for _, d := range decls {
		for li, l := range loops {
			body := fmt.Sprintf(l, d)
			for wi, w := range wrappers {
				src := fmt.Sprintf(w, body) + "\nemit('n', n)\nreturn n"
				out = append(out, shapeProgram(src, "shape:uninit-local", fmt.Sprintf("loop:%d", li), fmt.Sprintf("wrap:%d", wi)))
			}
		}
	}
	return out
}

// EnumNestedCloseShapes: a block with captured locals whose LAST statement is a nested block statement (if / if-else /
// while / numeric for / do) that itself captures locals, executed several times with the nested block taken, skipped
// or left early: every pass must get fresh variables in BOTH blocks and leave earlier closures untouched.
func EnumNestedCloseShapes() []*Program {
	outers := []string{
		"for i = 1, 4 do\n local j = i * 10\n fns[#fns + 1] = function() j = j + 1 return j end\n %s\nend",
		"local i = 0\nwhile i < 4 do\n i = i + 1\n local j = i * 10\n fns[#fns + 1] = function() j = j + 1 return j end\n %s\nend",
		"local i = 0\nrepeat\n i = i + 1\n local j = i * 10\n fns[#fns + 1] = function() j = j + 1 return j end\n %s\nuntil i >= 4",
		"for _, i in ipairs({1, 2, 3, 4}) do\n local j = i * 10\n fns[#fns + 1] = function() j = j + 1 return j end\n %s\nend",
		"for i = 1, 4 do\n do\n local j = i * 10\n fns[#fns + 1] = function() j = j + 1 return j end\n %s\n end\nend",
		"for i = 1, 4 do\n if i > 0 then\n local j = i * 10\n fns[#fns + 1] = function() j = j + 1 return j end\n %s\n end\nend",
		"local i = 0\n::top::\ni = i + 1\ndo\n local j = i * 10\n fns[#fns + 1] = function() j = j + 1 return j end\n %s\nend\nif i < 4 then goto top end",
	}
	inners := []string{
		"if i % 2 == 0 then\n local k = i\n fns[#fns + 1] = function() k = k + 100 return k end\n end",
		"if i % 2 == 0 then\n emit('even', i)\n else\n local k = i\n fns[#fns + 1] = function() k = k + 100 return k end\n end",
		"if i % 2 == 0 then\n local k = i\n fns[#fns + 1] = function() k = k + 100 return k end\n else\n local m = -i\n fns[#fns + 1] = function() m = m - 100 return m end\n end",
		"local c = 0\n while c < i % 3 do\n c = c + 1\n local k = c\n fns[#fns + 1] = function() k = k + 100 return k end\n end",
		"for c = 1, i % 3 do\n local k = c\n fns[#fns + 1] = function() k = k + 100 return k end\n if c == 2 then break end\n end",
		"do\n local k = i\n fns[#fns + 1] = function() k = k + 100 return k end\n end",
		"if i % 2 == 0 then\n if i % 4 == 0 then\n local k = i\n fns[#fns + 1] = function() k = k + 100 return k end\n end\n end",
		"repeat\n local k = i\n fns[#fns + 1] = function() k = k + 100 return k end\n until k > 0",
	}
	check := "for r = 1, 2 do\n for q = 1, #fns do emit(r, q, fns[q]()) end\nend\nreturn #fns"
	var out []*Program
	for oi, o := range outers {
		for ii, in := range inners {
			src := "fns = {}\n" + fmt.Sprintf(o, in) + "\n" + check
			out = append(out, shapeProgram(src, "shape:nested-close", fmt.Sprintf("outer:%d", oi), fmt.Sprintf("inner:%d", ii)))
		}
	}
	return out
}

// EnumCoroutineUpvalueShapes: closures over locals of a coroutine's functions escape to the outside; the variable stays
// ONE shared variable across every suspension (writes from either side are seen by the other) and keeps its last
// value when the coroutine ends — by return, by error(), by a run-time fault in the owning frame or below it.
func EnumCoroutineUpvalueShapes() []*Program {
	owners := []string{
		// the body function owns the variable
		"local co = MK(function(a, ...)\n local v = a\n get = function() return v end\n set = function(x) v = x end\n %s\nend)",
		// a parameter is the variable
		"local co = MK(function(v, ...)\n get = function() return v end\n set = function(x) v = x end\n %s\nend)",
		// a block-local inside a loop of the body
		"local co = MK(function(a, ...)\n for i = 1, 1 do\n local v = a\n get = function() return v end\n set = function(x) v = x end\n %s\n end\nend)",
		// a helper called by the body owns it and yields itself
		"local function helper(a)\n local v = a\n get = function() return v end\n set = function(x) v = x end\n %s\nend\nlocal co = MK(function(a, ...) local r = helper(a) return r end)",
		// the vararg body owns it (extra arguments sit below its registers)
		"local co = MK(function(...)\n local v = ...\n get = function() return v end\n set = function(x) v = x end\n %s\nend)",
	}
	yields := map[string]string{
		"direct": "coroutine.yield(v)",
		"helper": "(function() coroutine.yield(v) end)()",
		"pcall":  "Y(v)",
	}
	ends := []string{
		"return v", "error('boom')", "error({})", "local n = nil\n local z = n.x", "local n = nil\n local z = n + 1",
		"local function deep() local n = nil return n.x end\n local z = deep()", "v = v + 1000\n return", "local w = v .. nil",
	}
	drive := `emit('r1', RES(co, 10, 'x1', 'x2'))
emit('g1', get())
set(20)
emit('g2', get())
emit('r2', RES(co))
emit('g3', get())
set(30)
emit('r3', RES(co))
emit('g4', get())
set(40)
emit('g5', get())
emit('r4', RES(co))
emit('g6', get())`
	var out []*Program
	for oi, o := range owners {
		for _, yk := range []string{"direct", "helper", "pcall"} {
			for ei, e := range ends {
				body := yields[yk] + "\n v = v + 1\n " + yields[yk] + "\n v = v + 2\n " + e
				for _, kind := range []string{"create", "wrap"} {
					pre := "local get, set\nlocal function Y(x) return coroutine.yield(x) end\n"
					if kind == "create" {
						pre += "local MK = coroutine.create\nlocal function RES(c, ...) return coroutine.resume(c, ...) end\n"
					} else {
						pre += "local MK = coroutine.wrap\nlocal function RES(c, ...) return pcall(c, ...) end\n"
					}
					src := pre + fmt.Sprintf(o, body) + "\n" + drive + "\nreturn 'end'"
					out = append(out, shapeProgram(src, "shape:co-upvalue", fmt.Sprintf("owner:%d", oi), "yield:"+yk, fmt.Sprintf("end:%d", ei), "kind:"+kind))
				}
			}
		}
	}
	return out
}

// EnumInheritedHandlerShapes: metamethods are looked up RAW in the metatable: an event that the metatable only
// "inherits" through its own metatable's __index (class hierarchies: Derived = setmetatable({}, {__index = Base}))
// does not exist for the operation.  Every event × operand position, with and without a raw handler on the other
// operand, all under pcall.
func EnumInheritedHandlerShapes() []*Program {
	pre := `local function H(tag) return function(...) emit('handler', tag, select('#', ...)) return tag end end
local function base(tag) return {__add = H(tag), __sub = H(tag), __mul = H(tag), __div = H(tag), __mod = H(tag), __pow = H(tag), __unm = H(tag),
  __concat = H(tag), __eq = H(tag), __lt = H(tag), __le = H(tag), __call = H(tag), __index = H(tag), __newindex = H(tag)} end
local Base = base('inherited')
local Derived = setmetatable({}, {__index = Base})     -- the events are reachable only through Derived's OWN metatable
local d1, d2 = setmetatable({}, Derived), setmetatable({}, Derived)
local raw = setmetatable({}, base('raw'))                 -- a value whose metatable has the events itself
local function try(tag, f) local r = {pcall(f)} emit(tag, r[1], r[1] and r[2] or 'error') end
`
	ops := []string{
		"d1 + 1", "1 + d1", "d1 - d2", "d1 * 2", "d1 / 2", "d1 % 2", "d1 ^ 2", "-d1", "d1 .. 'x'", "'x' .. d1", "d1 .. d2",
		"d1 == d2", "d1 ~= d2", "d1 < d2", "d1 <= d2", "d1 > d2", "d1()", "d1.field", "d1[1]",
		"d1 + raw", "raw + d1", "d1 .. raw", "raw .. d1", "d1 < raw", "raw < d1", "d1 <= raw", "d1 == raw", "raw == d1",
		"raw + 1", "raw .. 'x'", "raw()", "raw.field", "-raw",
	}
	var out []*Program
	for i, op := range ops {
		src := pre + fmt.Sprintf("try(%d, function() return %s end)\n", i, op)
		src += "try('set', function() d1.newfield = 5 return rawget(d1, 'newfield') end)\ntry('rawset', function() raw.newfield = 5 return rawget(raw, 'newfield') end)\nreturn 'end'"
		out = append(out, shapeProgram(src, "shape:inherited-handler", fmt.Sprintf("op:%d", i)))
	}
	// the same with the metatable protected by __metatable and with a three-level chain
	chain := strings.Replace(pre, "local Derived = setmetatable({}, {__index = Base})", "local Mid = setmetatable({}, {__index = Base})\nlocal Derived = setmetatable({__metatable = 'locked'}, {__index = Mid})", 1)
	for i, op := range ops[:20] {
		out = append(out, shapeProgram(chain+fmt.Sprintf("try(%d, function() return %s end)\nemit(getmetatable(d1))\nreturn 'end'", i, op), "shape:inherited-handler-chain", fmt.Sprintf("op:%d", i)))
	}
	return out
}
