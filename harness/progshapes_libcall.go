package main

import (
	"fmt"
	"strings"
)

// EnumLibraryCallerShapes: calls that pass THROUGH a library function (pcall, xpcall, coroutine.wrap/resume, select, unpack,
// assert, and one-result functions called with surplus arguments): for every callee arity (0–3 results, echo of its
// arguments, count of its arguments) × 0–3 arguments × success/failure, the number and the values of the results that reach
// the caller.  A host function selects its results by a COUNT relative to its own stack; surplus arguments left on that
// stack must never leak into the results (wave-5 seeded change C02-m9: xpcall returned its extra arguments).
func EnumLibraryCallerShapes() []*Program {
	pre := `local function R0(...) end
local function R1(...) return 'a' end
local function R2(...) return 'a', 'b' end
local function R3(...) return 'a', nil, 'c' end
local function RV(...) return ... end
local function RN(...) return select('#', ...) end
local function RE(...) error('boom', 0) end
local function H(e) return 'handled:' .. tostring(e) end
local function H2(e) return 'h1', 'h2' end
local function cnt(...) return select('#', ...), ... end
local t3 = {10, 20, 30}
`
	callees := []string{"R0", "R1", "R2", "R3", "RV", "RN", "RE"}
	argLists := []string{"", "1", "1, 2", "1, nil, 3", "nil, nil", "1, 2, 3, 4"}
	join := func(head, args string) string {
		if args == "" {
			return head
		}
		if head == "" {
			return args
		}
		return head + ", " + args
	}
	var out []*Program
	n := 0
	add := func(body string, tags ...string) {
		out = append(out, shapeProgram(pre+body+"\nreturn 'end'", append([]string{"shape:library-caller"}, tags...)...))
		n++
	}
	for _, f := range callees {
		var b strings.Builder
		for _, a := range argLists {
			fmt.Fprintf(&b, "emit('pcall', cnt(pcall(%s)))\n", join(f, a))
			fmt.Fprintf(&b, "emit('xpcall', cnt(xpcall(%s)))\n", join(f+", H", a))
			fmt.Fprintf(&b, "emit('xpcall2', cnt(xpcall(%s)))\n", join(f+", H2", a))
			fmt.Fprintf(&b, "emit('wrap', cnt(pcall(coroutine.wrap(%s)%s)))\n", f, func() string {
				if a == "" {
					return ""
				}
				return ", " + a
			}())
			fmt.Fprintf(&b, "emit('resume', cnt(coroutine.resume(%s)))\n", join("coroutine.create("+f+")", a))
			// the same as the LAST and as a MIDDLE element of a list, and truncated by parentheses
			fmt.Fprintf(&b, "emit('mid', cnt(0, pcall(%s), 9))\n", join(f, a))
			fmt.Fprintf(&b, "emit('paren', cnt((xpcall(%s))))\n", join(f+", H", a))
			fmt.Fprintf(&b, "do local r = {xpcall(%s)} emit('tbl', #r, r[1], r[2], r[3], r[4]) end\n", join(f+", H", a))
		}
		add(b.String(), "callee:"+f)
	}
	// nested: a protected call whose callee is a library caller itself
	{
		var b strings.Builder
		for _, a := range argLists {
			fmt.Fprintf(&b, "emit('pp', cnt(pcall(pcall, %s)))\n", join("RV", a))
			fmt.Fprintf(&b, "emit('px', cnt(pcall(xpcall, %s)))\n", join("RV, H", a))
			fmt.Fprintf(&b, "emit('xp', cnt(xpcall(function() return pcall(%s) end, H, 7, 8)))\n", join("RV", a))
			fmt.Fprintf(&b, "emit('ps', cnt(pcall(select, %s)))\n", join("'#'", a))
			fmt.Fprintf(&b, "emit('pu', cnt(pcall(unpack, {%s})))\n", a)
		}
		add(b.String(), "nested")
	}
	// one-result (or fixed-result) functions with surplus arguments; select/unpack windows
	{
		var b strings.Builder
		for _, extra := range []string{"", ", 'x'", ", 'x', 'y'", ", nil, nil, nil"} {
			fmt.Fprintf(&b, "emit('type', cnt(type(1%s)))\n", extra)
			fmt.Fprintf(&b, "emit('tostring', cnt(tostring(12%s)))\n", extra)
			fmt.Fprintf(&b, "emit('tonumber', cnt(tonumber('10', 10%s)))\n", extra)
			fmt.Fprintf(&b, "emit('rawget', cnt(rawget(t3, 2%s)))\n", extra)
			fmt.Fprintf(&b, "emit('rawequal', cnt(rawequal(t3, t3%s)))\n", extra)
			fmt.Fprintf(&b, "emit('rawset', select('#', rawset(t3, 4, 40%s)))\n", extra)
			fmt.Fprintf(&b, "emit('setmetatable', select('#', setmetatable({}, nil%s)))\n", extra)
			fmt.Fprintf(&b, "emit('getmetatable', cnt(getmetatable('s'%s)))\n", extra)
			fmt.Fprintf(&b, "emit('next', cnt(next({}, nil%s)))\n", extra)
			fmt.Fprintf(&b, "emit('ipairs', select('#', ipairs(t3%s)))\n", extra)
			fmt.Fprintf(&b, "emit('pairs', select('#', pairs(t3%s)))\n", extra)
			fmt.Fprintf(&b, "emit('assert', cnt(assert(1, 'm'%s)))\n", extra)
			fmt.Fprintf(&b, "emit('assertf', cnt(pcall(assert, false, 'm'%s)))\n", extra)
			fmt.Fprintf(&b, "emit('error', cnt(pcall(error, 'e', 0%s)))\n", extra)
			fmt.Fprintf(&b, "emit('unpack', cnt(unpack(t3, 1, 3%s)))\n", extra)
			fmt.Fprintf(&b, "emit('status', cnt(coroutine.status(coroutine.create(R0)%s)))\n", extra)
		}
		for i := -3; i <= 4; i++ {
			if i != 0 {
				fmt.Fprintf(&b, "emit('select', %d, cnt(select(%d, 'p', 'q', 'r')))\n", i, i)
			}
			for j := -1; j <= 4; j++ {
				fmt.Fprintf(&b, "emit('unpackw', %d, %d, cnt(unpack(t3, %d, %d)))\n", i, j, i, j)
			}
		}
		add(b.String(), "fixed-result")
	}
	return out
}
