package main

// Hang watchdogs that do not mistake a starved machine for a hang.
//
// A fixed wall-clock limit raised false alarms whenever the cores were shared with other work (fresh-sandbox run 5:
// a 700 ms limit; thorough tier under load 40 on 16 cores: 60 s limits in C12, a 6 min limit in C13). Units of work that
// terminate are given an instruction budget where possible (budgetctx.go). The watchdogs here are for what an
// instruction count does not see (dead-locks, host code, child processes): they declare a hang after `base` only when
// the 1-minute load average says the cores were NOT oversubscribed during the last `base`; on an oversubscribed machine
// they keep waiting, up to hangCap × base (until a first hang has been confirmed, see confirmedHangs). A real hang is therefore still reported, only later.

import (
	"context"
	"os"
	"runtime"
	"strconv"
	"strings"
	"sync"
	"sync/atomic"
	"time"
)

const hangCap = 4

// confirmedHangs: cases whose watchdog fired on every attempt (safeExec). After the first one the check is failing anyway:
// watchdogs then fire after `base` whatever the load and cases are not re-executed; after eight, `base` shrinks to a
// tenth — a change to the code under test that makes many cases hang must not make the check run for hours.
var confirmedHangs int64

var (
	loadMu       sync.Mutex
	loadReadAt   time.Time
	loadOver     bool
	lastOverNano int64 // last time the machine was seen oversubscribed
	hangExtended int64 // watchdogs that waited longer than base because of load (evidence)
)

// machineOversubscribed: 1-minute load average above 3/4 of the cores (cached for a second).
func machineOversubscribed() bool {
	loadMu.Lock()
	defer loadMu.Unlock()
	if time.Since(loadReadAt) < time.Second {
		return loadOver
	}
	loadReadAt = time.Now()
	loadOver = false
	if b, err := os.ReadFile("/proc/loadavg"); err == nil {
		if f := strings.Fields(string(b)); len(f) > 0 {
			if l, err := strconv.ParseFloat(f[0], 64); err == nil && l > 0.75*float64(runtime.NumCPU()) {
				loadOver = true
				atomic.StoreInt64(&lastOverNano, loadReadAt.UnixNano())
			}
		}
	}
	return loadOver
}

// onHang calls f once when the unit of work started now must be considered hung (see above); stop releases it.
func onHang(base time.Duration, capFactor int, f func()) (stop func()) {
	if n := atomic.LoadInt64(&confirmedHangs); n > 0 {
		capFactor = 1
		if n >= 8 && base > 3*time.Second {
			base /= 10
		}
	}
	start := time.Now()
	var mu sync.Mutex
	var t *time.Timer
	stopped := false
	var check func()
	check = func() {
		mu.Lock()
		defer mu.Unlock()
		if stopped {
			return
		}
		over := machineOversubscribed()
		quietFor := time.Since(time.Unix(0, atomic.LoadInt64(&lastOverNano)))
		if (!over && quietFor >= base) || time.Since(start) >= time.Duration(capFactor)*base {
			stopped = true
			f()
			return
		}
		if time.Since(start) < base+base/2 {
			atomic.AddInt64(&hangExtended, 1)
		}
		t = time.AfterFunc(base/4+time.Second, check)
	}
	mu.Lock()
	t = time.AfterFunc(base, check)
	mu.Unlock()
	return func() {
		mu.Lock()
		stopped = true
		t.Stop()
		mu.Unlock()
	}
}

// hangAfter: a channel closed when the work started now is considered hung. (The timer is not released early: like
// time.After it lives until it fires once.)
func hangAfter(base time.Duration) <-chan struct{} { return hangAfterCap(base, hangCap) }

func hangAfterCap(base time.Duration, capFactor int) <-chan struct{} {
	ch := make(chan struct{})
	onHang(base, capFactor, func() { close(ch) })
	return ch
}

// hangCtx: a context cancelled when the work started now is considered hung.
func hangCtx(base time.Duration) (context.Context, context.CancelFunc) {
	ctx, cancel := context.WithCancel(context.Background())
	stop := onHang(base, hangCap, func() { noteHang(); cancel() })
	return ctx, func() { stop(); cancel() }
}

// Every watchdog that actually ends a unit of work calls noteHang. safeExec (core.go) re-executes a case during which a
// watchdog fired: cases are deterministic, so a real hang fires again, while a stall of the whole process (memory
// reclaim, a starved scheduler) does not repeat. Only a case whose watchdog fires on every attempt is reported.
var hangsNoted, hangRetries, hangRetriesCleared int64

func noteHang() { atomic.AddInt64(&hangsNoted, 1) }

