import GLua.Engines.TableEng
import GLua.Engines.SemEng
import GLua.Engines.C01MEng
import GLua.Engines.ProtoEng
import GLua.Engines.PCallEng
import GLua.Engines.CallEng
import GLua.Engines.PmEng
import GLua.Engines.LimitsEng
import GLua.Engines.C16Eng
import GLua.Engines.ScopeEng
import GLua.Engines.LexEng
import GLua.Engines.LexRenderEng
import GLua.Engines.CancelEng
import GLua.Engines.MetaEng
import GLua.Engines.ChanEng
import GLua.Engines.CoEng
import GLua.Engines.UpvalEng
import GLua.Engines.StrEng
import GLua.Engines.RequireEng
import GLua.Engines.IoEng
import GLua.Engines.ApiEng
import GLua.Engines.TableLibEng
import GLua.Engines.LineTabEng
open GLua GLua.Eng

structure DState where
  tbl : TableEng.St := []
  pc05 : PCallEng.St := {}
  c02m : CallEng.EState := {}
  lim : LimitsEng.St := {}
  meta04 : MetaEng.St := {}
  chan : ChanEng.St := {}
  co : CoEng.St := {}
  uv : UpvalEng.St := {}
  req : RequireEng.St := {}
  io : IoEng.St := {}
  api : ApiEng.St := {}
  c18 : TableLibEng.St := {}

def stepLine (s : DState) (line : String) : DState × String :=
  match words line with
  | [] => (s, "ok")
  | "reset" :: _ => ({}, "ok")
  | "T" :: r => let (t, v) := TableEng.handle s.tbl r; ({ s with tbl := t }, v.show)
  | "S" :: r => (s, SemEng.handle r)
  | "C01M" :: r => (s, (C01MEng.handle r).show)
  | "C07" :: r => (s, (ProtoEng.handle r).show)
  | "C05M" :: r => let (t, v) := PCallEng.handle s.pc05 r; ({ s with pc05 := t }, v.show)
  | "C02M" :: r => let (t, v) := CallEng.handle s.c02m r; ({ s with c02m := t }, v.show)
  | "C14" :: r => (s, (PmEng.handle r).show)
  | "C12" :: r => let (t, v) := LimitsEng.handle s.lim r; ({ s with lim := t }, v.show)
  | "C16" :: r => (s, (C16Eng.handle r).show)
  | "C17M" :: r => (s, (ScopeEng.handle r).show)
  | "C17L" :: r => (s, (LineTabEng.handle r).show)
  | "L" :: r => (s, (LexEng.handle r).show)
  | "LR" :: r => (s, LexRenderEng.handle r)
  | "C11M" :: r => (s, (CancelEng.handle r).show)
  | "C04M" :: r => let (t, v) := MetaEng.handle s.meta04 r; ({ s with meta04 := t }, MetaEng.render v)
  | "C13" :: r => let (t, v) := ChanEng.handle s.chan r; ({ s with chan := t }, v.show)
  | "C06M" :: r => let (t, v) := CoEng.handle s.co r; ({ s with co := t }, v.show)
  | "C03M" :: r => let (t, v) := UpvalEng.handle s.uv r; ({ s with uv := t }, v.show)
  | "C15" :: r => (s, (StrEng.handle r).show)
  | "C20" :: r => let (t, v) := RequireEng.handle s.req r; ({ s with req := t }, v.show)
  | "IO" :: r => let (t, v) := IoEng.handle s.io r; ({ s with io := t }, v.show)
  | "C10" :: r => let (t, v) := ApiEng.handle s.api r; ({ s with api := t }, v.show)
  | "C18" :: r => let (t, v) := TableLibEng.handle s.c18 r; ({ s with c18 := t }, v.show)
  | _ => (s, "MODEL bad-engine")

partial def loop (h : IO.FS.Stream) (out : IO.FS.Stream) (s : DState) : IO Unit := do
  let line ← h.getLine
  if line.isEmpty then return ()
  let (s', o) := stepLine s line
  out.putStrLn o
  loop h out s'

def main : IO Unit := do
  let stdin ← IO.getStdin
  let stdout ← IO.getStdout
  loop stdin stdout {}
  stdout.flush
