import GLua.Basic
import GLua.Model.Table
import GLua.Spec.TableSpec
import GLua.Engines.TableEng
