import Lean
open Lean Elab Command

/-- `#glua_audit NS` prints `THEOREM <name> <axioms…>` for every theorem declared in namespace `NS`. -/
elab "#glua_audit " ns:ident : command => do
  let env ← getEnv
  let nsName := ns.getId
  let mut names : Array Name := #[]
  for (n, ci) in env.constants.map₁.toList do
    if nsName.isPrefixOf n && !n.isInternal then
      match ci with
      | .thmInfo _ => names := names.push n
      | _ => pure ()
  for (n, ci) in env.constants.map₂.toList do
    if nsName.isPrefixOf n && !n.isInternal then
      match ci with
      | .thmInfo _ => names := names.push n
      | _ => pure ()
  let sorted := names.qsort (fun a b => a.toString < b.toString)
  for n in sorted do
    let axs ← liftCoreM (collectAxioms n)
    let s := " ".intercalate (axs.toList.map toString)
    IO.println s!"THEOREM {n} {s}"
