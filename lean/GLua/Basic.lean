/-
  Wire values shared by every engine of the driver, plus small parsing helpers.
  Core Lean only (the driver links as a `lean_exe`).

  A Lua value on the wire is one blank-free token:
    nil | T | F | i<decimal>   (integral float64, exact integer value; -0.0 is i0)
        | f<16 hex digits>      (non-integral / infinite float64, IEEE bits)
        | s<hex bytes>          (string, raw bytes in hex)
        | r<n>                  (n-th reference object allocated in this case)
  `Val` is the non-nil part; nil is `none : Option Val`.
-/
namespace GLua

inductive Val where
  | int  (i : Int)
  | flt  (bits : Nat)
  | str  (hex : String)
  | bool (b : Bool)
  | ref  (n : Nat)
deriving DecidableEq, Repr, Inhabited

abbrev OVal := Option Val

def Val.show : Val → String
  | .int i  => "i" ++ toString i
  | .flt b  => "f" ++ toString b
  | .str h  => "s" ++ h
  | .bool b => if b then "T" else "F"
  | .ref n  => "r" ++ toString n

def OVal.show : OVal → String
  | none   => "nil"
  | some v => v.show

def parseVal (s : String) : Option OVal :=
  if s == "nil" then some none
  else if s == "T" then some (some (.bool true))
  else if s == "F" then some (some (.bool false))
  else
    let rest := (s.drop 1).toString
    match s.front with
    | 'i' => rest.toInt?.map (fun i => some (.int i))
    | 'f' => rest.toNat?.map (fun n => some (.flt n))
    | 's' => some (some (.str rest))
    | 'r' => rest.toNat?.map (fun n => some (.ref n))
    | _   => none

/-- Errors a model can end in.  Every Go operation that can panic is an explicit
    `.goPanic` branch of the model, never a totalised default. -/
inductive Err where
  | goPanic (site : String)
  | luaError (msg : String)
deriving DecidableEq, Repr, Inhabited

def Err.show : Err → String
  | .goPanic s  => "gopanic:" ++ s
  | .luaError s => "luaerror:" ++ s

def words (line : String) : List String :=
  (line.trimAscii.toString.splitOn " ").filter (· ≠ "")

end GLua
