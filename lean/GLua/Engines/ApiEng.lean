import GLua.Engines.Common
import GLua.Model.ApiStack
import GLua.Spec.StackSpec
import GLua.Model.ApiObj

/-!
  C10 driver engine.  One activation (host function or top level) at a time:
    frame <base> <top> <cap> <growBy> <maxSize> <slot…>      snapshot of the real registry on entry (rest = Go nil)
    push v | pop n | settop i | insert v i | remove i | replace i v | nop        => ok <list 1..top> | err | ?
    get i => v | gopanic      (Get at ANY index: stack, pseudo, out of the int range — `lget`)
    gettop => n        sweep => Get(-(top+2)) … Get(top+2)
    call nargs nret ; junk… ; produced…  => ok <list>        (callR with a callee leaving `produced`)
    pcallfail nargs [path] ; junk…       => ok <list>        (PCall's deferred function; path = none | returned | failed | either:
                                                              no handler / the handler returned / the handler itself failed)
    centry nargs fn|meta => <list the callee saw on entry>    (pushCallFrame + initCallFrame of a host callee; state unchanged)
    callg nargs nret fn|meta n ; op ; op … => ok <list>       (callR composed: a host callee — called directly or through
                                                              __call — performing the stack operations and returning n)
    hcall tostring|len|concat n <fn> <arg…> ; op ; op … => <result> ok <list>
                                                             (ToStringMeta / ObjLen / Concat on an object whose handler is a host
                                                              function performing the ops and returning n: `callHandler`)
    concat0 => s<hex> | gopanic                              (Concat() with no operand: the empty string)
    concatres <value of the Lua expression> => s<hex>        (Concat's string vs. the value of `a .. b` on the same operands)
    pcallfailat nargs fn|meta path ; <pushed…> / nargs fn|meta ; … ; <last…> ; <hjunk…> => ok <list>
                                                             (a protected call failing inside nested host activations: `pcallFailAt`)
    ret gfnret wantret => <values the caller received>       (callGFunction)
    resync <cap> <slot…>                                     dead slots above top after callee code ran
    snap => <top> <cap> <slot…>                              whole registry (Model) / caller prefix (Spec)
    eq <label> <got…> | <want…>                              Impl-vs-Impl / Impl-vs-constant observation
    objlen <class> <lua result> => <api result>
    pframe <T|F> <registry> <globals> <thread env> <fn env|-> <upvalue…>   cells behind the pseudo-indices on entry
    pget i => v        preplace i v <T|F: v is a table> => ok <list 1..top> | err       (Get / Replace at a pseudo-index)
-/
namespace GLua.Eng.ApiEng
open GLua GLua.Eng GLua.ApiStack

structure St where
  m     : ApiStack.St := { reg := { array := [], top := 0, growBy := 0, maxSize := 0 }, base := 0 }
  pre   : List Slot := []          -- caller prefix on entry (slots below base)
  spec  : StackSpec.Stk := []
  alive : Bool := false            -- false after an error ended the activation
  p     : ApiStack.PSt := { registry := none, globals := none, threadEnv := none, frame := none }   -- pseudo-index cells (Model)
  cells : StackSpec.Cells := { registry := none, environ := none, globals := none, upvalues := [] } -- … (Spec)

def parseSlot (s : String) : Option Slot :=
  if s == "G" then some .goNil else (parseVal s).map Slot.val

def parseInt (s : String) : Option Int := s.toInt?

def showList (l : List OVal) : String := " ".intercalate (l.map OVal.show)
def showSlots (l : List Slot) : String := " ".intercalate (l.map Slot.show)

/-- the model's private list: slots base..top-1 (a Go nil slot is shown as `G`: not an LValue). -/
def absSlots (s : ApiStack.St) : List Slot := (s.reg.array.take s.reg.top).drop s.base

def trimG (l : List Slot) : List Slot := (l.reverse.dropWhile (· == .goNil)).reverse

def splitSemi (ws : List String) : List (List String) :=
  ws.foldr (fun w acc => if w = ";" then [] :: acc else
    match acc with
    | [] => [[w]]
    | a :: r => (w :: a) :: r) [[]]

def parseStackOp : List String → Option StackOp
  | ["push", v] => (parseVal v).map .push
  | ["pop", n] => n.toNat?.map .pop
  | ["settop", i] => (parseInt i).map .setTop
  | ["insert", v, i] => do let v ← parseVal v; let i ← parseInt i; pure (.insert v i)
  | ["remove", i] => (parseInt i).map .remove
  | ["replace", i, v] => do let i ← parseInt i; let v ← parseVal v; pure (.replace i v)
  | _ => none

def parseCallee (s : String) : Option Callee :=
  if s = "fn" then some .fn else if s = "meta" then some .viaCall else if s = "none" then some .none else none

def hexDigit (n : Nat) : Char := if n < 10 then Char.ofNat (48 + n) else Char.ofNat (87 + n)

/-- hex payload (the wire form of a string) of an ASCII text. -/
def hexOfAscii (t : String) : String :=
  String.ofList (t.toList.flatMap fun c => [hexDigit (c.toNat / 16), hexDigit (c.toNat % 16)])

/-- wire values as values of the dispatch model: strings keep their hex payload, integral numbers are `Int`s, every
    reference object is "some table" (only its not being a string or number matters here). -/
def toV : OVal → Meta.V Int
  | none => .nil
  | some (.int i) => .num i
  | some (.flt _) => .nil
  | some (.str hx) => .str hx
  | some (.bool b) => .bool b
  | some (.ref n) => .table n

/-- primitives of the engine instance: only `numStr` (Go's formatting of an integral LNumber, as a hex payload) is used. -/
def engPrims : Meta.Prims Int where
  arith := fun _ a _ => a
  neg := fun a => a
  numEq := fun a b => a == b
  numLt := fun a b => decide (a < b)
  numLe := fun a b => decide (a ≤ b)
  strLt := fun a b => decide (a < b)
  strLe := fun a b => decide (a ≤ b)
  toNum := fun _ => none
  numStr := fun i => hexOfAscii (toString i)
  strLen := fun s => s.length / 2
  tostr := fun _ => ""

def engHeap : Meta.Heap Int where
  raw := fun _ _ => .nil
  field := fun _ _ => .nil
  tmeta := fun _ => none
  umeta := fun _ => none
  tymeta := fun _ => none
  border := fun _ => 0

/-- `LVAsString` of a wire value, as a wire token. -/
def asStringTok (v : OVal) : String := "s" ++ MetaModel.lvAsString engPrims (toV v)

def bad : Verdict := { model := some "bad-op" }

def showGet (r : Except Err Slot) : String :=
  match r with
  | .ok s => s.show
  | .error (.goPanic _) => "gopanic"
  | .error e => e.show

/-- verdict for a mutator: compare the implementation's list after the op with Model and Spec. -/
def mutVerdict (impl : List String) (mres : Except Err ApiStack.St) (sres : Option (Option StackSpec.Stk))
    (st : St) : St × Verdict :=
  -- sres: none = spec says error; some none = spec leaves the list effect open; some (some l) = the list
  match mres with
  | .error e =>
    let mv := if impl = ["err"] then none else some ("err(" ++ e.show ++ ")")
    let sv := match sres with
      | none => if impl = ["err"] then none else some "spec: error expected"
      | some _ => (match e with
          | .goPanic _ => some ("go panic in the model: " ++ e.show)
          | .luaError m => if m = "registry overflow" then none else some ("unexpected error " ++ m))
    ({ st with alive := false }, { model := mv, spec := sv })
  | .ok m' =>
    let mlist := absSlots m'
    let want := "ok" ++ (if mlist.isEmpty then "" else " " ++ showSlots mlist)
    let got := " ".intercalate impl
    let unobserved := impl = ["?"]
    let mv := if unobserved ∨ got = want then none else some want
    let implList : Option (List OVal) := match impl with
      | "ok" :: r => r.mapM (fun w => (parseVal w))
      | _ => none
    let (spec', sv) : StackSpec.Stk × Option String := match sres with
      | none => (st.spec, if unobserved then none else some "spec: error expected")
      | some (some l) =>
        (l, if unobserved then none else
          match implList with
          | some il => if il = l then none else some ("spec list: " ++ showList l)
          | none => some ("spec list: " ++ showList l))
      | some none =>
        -- unspecified list effect: adopt what the implementation shows, require LValues only
        match implList with
        | some il => (il, none)
        | none => (mlist.map Slot.toOVal, if unobserved then none else some "not a list of LValues")
    ({ st with m := m', spec := spec' }, { model := mv, spec := sv })

def handle (st : St) (ws : List String) : St × Verdict :=
  let (args, impl) := splitArrow ws
  match args with
  | "eq" :: _label :: rest =>
    -- pure observation line: got | want
    let (got, want) := match rest.span (· ≠ "|") with
      | (a, _ :: b) => (a, b)
      | (a, []) => (a, ["<missing>"])
    (st, if got = want then ok else { spec := some ("expected " ++ " ".intercalate want) })
  | "objlen" :: cls :: lres :: [] =>
    let operand : Option LenOperand := match cls.splitOn ":" with
      | ["str", n] => n.toNat?.map .str
      | ["meta"] => (parseVal lres).map .handler
      | ["tbl", n] => n.toNat?.map .tbl
      | ["other"] => some .other
      | _ => none
    match operand with
    | none => (st, bad)
    | some o =>
      let m := objLen o
      let mv := match m with
        | some i => cmpModel (toString i) impl
        | none => none
      -- Spec: ObjLen gives what `#v` gives (lres), as a number
      let luaNum : Option String := match parseVal lres with
        | some (some (.int i)) => some (toString i)
        | _ => none
      let sv : Option String :=
        if luaNum = some (" ".intercalate impl) then none
        else
          let r := "ObjLen=" ++ " ".intercalate impl ++ " but #v=" ++ lres
          -- known class: the Model reproduces it and `#v` is not an integer (error, non-number, fraction)
          if mv.isNone ∧ luaNum.isNone then some ("KF:C10-objlen-non-integer " ++ r) else some r
      (st, { model := mv, spec := sv })
  | "frame" :: b :: t :: c :: g :: mx :: slots =>
    match b.toNat?, t.toNat?, c.toNat?, g.toNat?, mx.toNat?, slots.mapM parseSlot with
    | some b, some t, some c, some g, some mx, some sl =>
      let arr := sl ++ List.replicate (c - sl.length) .goNil
      let m : ApiStack.St := { reg := { array := arr, top := t, growBy := g, maxSize := mx }, base := b }
      let lst := absSlots m
      ({ m := m, pre := arr.take b, spec := lst.map Slot.toOVal, alive := true },
        if lst.all (· != .goNil) ∧ b ≤ t ∧ t ≤ c then ok else { spec := some "frame: private list contains a Go nil" })
    | _, _, _, _, _, _ => (st, bad)
  | _ =>
    if !st.alive then (st, { model := some "no-live-frame" }) else
    match args with
    | ["push", v] =>
      match parseVal v with
      | some v => mutVerdict impl (push st.m v) (some (some (StackSpec.push st.spec v))) st
      | none => (st, bad)
    | ["pop", n] =>
      match n.toNat? with
      | some n => mutVerdict impl (pop st.m n) ((StackSpec.pop st.spec n).map some) st
      | none => (st, bad)
    | ["settop", i] =>
      match parseInt i with
      | some i => mutVerdict impl (setTop st.m i) (some (some (StackSpec.setTop st.spec i))) st
      | none => (st, bad)
    | ["insert", v, i] =>
      match parseVal v, parseInt i with
      | some v, some i =>
        -- beyond top+1 the Spec prescribes no list (`none`): mutVerdict then requires a list of LValues (a Go nil slot
        -- inside 1..top — the class of the repaired C10-insert-beyond-top-gap — is "not a list of LValues")
        mutVerdict impl (insert st.m v i) (some (StackSpec.insert st.spec v i)) st
      | _, _ => (st, bad)
    | ["remove", i] =>
      match parseInt i with
      | some i => mutVerdict impl (remove st.m i) (some (some (StackSpec.remove st.spec i))) st
      | none => (st, bad)
    | ["replace", i, v] =>
      match parseInt i, parseVal v with
      | some i, some v =>
        let mres := (lreplace { st := st.m, p := st.p } i v false).map (·.st)
        if impl = ["gopanic"] then
          -- a Go runtime panic inside Replace, recovered by the harness: nothing was stored
          let mv : Option String := match mres with
            | .error (.goPanic _) => none
            | .error e => some e.show
            | .ok _ => some "ok"
          (st, { model := mv,
                 spec := some ("Replace(" ++ toString i ++ ") outside the list must have no effect: Go runtime panic") })
        else mutVerdict impl mres (some (some (StackSpec.replace st.spec i v))) st
      | _, _ => (st, bad)
    | "resync" :: c :: slots =>
      match c.toNat?, slots.mapM parseSlot with
      | some c, some sl =>
        let keep := st.m.reg.array.take st.m.reg.top ++ sl
        let arr := keep ++ List.replicate (c - keep.length) .goNil
        ({ st with m := { st.m with reg := { st.m.reg with array := arr } } },
          if c = st.m.reg.array.length ∨ c ≥ st.m.reg.top then ok else { model := some "resync: cap below top" })
      | _, _ => (st, bad)
    | ["nop"] => mutVerdict impl (.ok st.m) (some (some st.spec)) st
    | "pframe" :: hf :: rg :: gl :: te :: env :: ups =>
      -- the cells behind the pseudo-indices on entry: <T|F running function> <registry> <globals> <thread env> <fn env|-> <upvalues…>
      match parseVal rg, parseVal gl, parseVal te, ups.mapM parseVal with
      | some rg, some gl, some te, some ups =>
        let fenv : OVal := (parseVal env).getD none
        let frame : Option FnCells := if hf = "T" then some { env := fenv, ups := ups } else none
        ({ st with p := { registry := rg, globals := gl, threadEnv := te, frame := frame },
                   cells := { registry := rg, environ := if hf = "T" then fenv else te, globals := gl, upvalues := ups } }, ok)
      | _, _, _, _ => (st, bad)
    | ["pget", i] =>
      match parseInt i with
      | some i =>
        let mres := match lget { st := st.m, p := st.p } i with
          | .ok v => v.show
          | .error e => e.show
        -- Spec: the cell the manual names; at top level the manual gives no meaning to upvalue indices
        let sv : Option String := match StackSpec.pseudoOf i with
          | some (.upvalue n) =>
            if st.p.frame.isNone then none
            else let w := OVal.show (StackSpec.pseudoGet st.cells (.upvalue n)); if impl = [w] then none else some ("spec upvalue " ++ w)
          | some which => let w := OVal.show (StackSpec.pseudoGet st.cells which); if impl = [w] then none else some ("spec pseudo get " ++ w)
          | none => some "not a pseudo-index"
        (st, { model := cmpModel mres impl, spec := sv })
      | none => (st, bad)
    | ["preplace", i, v, tb] =>
      match parseInt i, parseVal v with
      | some i, some v =>
        let isTable := tb = "T"
        let ml := lreplace { st := st.m, p := st.p } i v isTable
        let mp : Except Err PSt := ml.map (·.p)
        -- Spec: the store goes to the named cell (error for a non-table registry / environment / globals, and for the
        -- environment when no function is running); the list is never touched
        let sp : Option StackSpec.Cells := match StackSpec.pseudoOf i with
          | some .environ => if st.p.frame.isNone then none else StackSpec.pseudoSet st.cells .environ v isTable
          | some which => StackSpec.pseudoSet st.cells which v isTable
          | none => none
        let mres : Except Err ApiStack.St := ml.map (·.st)
        let (st', vd) := mutVerdict impl mres (sp.map fun _ => some st.spec) st
        let st' := match mp with
          | .ok p' => { st' with p := p' }
          | .error _ => st'
        let st' := match sp with
          | some c => { st' with cells := c }
          | none => st'
        (st', vd)
      | _, _ => (st, bad)
    | ["get", i] =>
      match parseInt i with
      | some i =>
        let mres := showGet (lget { st := st.m, p := st.p } i)
        let sres := (StackSpec.getAny st.spec st.cells i).show
        (st, { model := cmpModel mres impl, spec := if impl = [sres] then none else some ("spec get " ++ sres) })
      | none => (st, bad)
    | ["gettop"] =>
      (st, { model := cmpModel (toString (getTop st.m)) impl,
             spec := if impl = [toString (StackSpec.getTop st.spec)] then none else some "spec gettop" })
    | ["sweep"] =>
      let n : Int := StackSpec.getTop st.spec + 2
      let idxs : List Int := (List.range (2 * n.toNat + 1)).map (fun (k : Nat) => (k : Int) - n)
      let mres := " ".intercalate (idxs.map fun i => showGet (lget { st := st.m, p := st.p } i))
      let sres := " ".intercalate (idxs.map fun i => (StackSpec.get st.spec i).show)
      let got := " ".intercalate impl
      (st, { model := if got = mres then none else some mres,
             spec := if got = sres then none else some ("spec sweep " ++ sres) })
    | "call" :: na :: nr :: rest =>
      match na.toNat?, parseInt nr, splitSemi rest with
      | some na, some nr, [[], junk, prod] =>
        match junk.mapM parseVal, prod.mapM parseVal with
        | some junk, some prod =>
          mutVerdict impl (callR st.m na nr junk prod) (some (some (StackSpec.call st.spec na nr prod))) st
        | _, _ => (st, bad)
      | _, _, _ => (st, bad)
    | ["centry", na, kd] =>
      match na.toNat?, parseCallee kd with
      | some na, some kind =>
        let base : Int := (st.m.reg.top : Int) - na - 1
        let mres := match regGet st.m.reg base >>= fun lv => pushCallFrameG st.m na kind lv with
          | .ok c => showSlots (absSlots c)
          | .error e => e.show
        let sres := showList (StackSpec.calleeArgs st.spec na (kind == .viaCall))
        let got := " ".intercalate impl
        (st, { model := if got = mres then none else some mres,
               spec := if got = sres then none else some ("spec callee arguments: " ++ sres) })
      | _, _ => (st, bad)
    | "callg" :: na :: nr :: kd :: n :: rest =>
      match na.toNat?, parseInt nr, parseCallee kd, n.toNat?, ((splitSemi rest).filter (· ≠ [])).mapM parseStackOp with
      | some na, some nr, some kind, some n, some ops =>
        -- Spec: the callee's final list from what it received; its n top-most values, adjusted, replace function + arguments
        let sres : Option StackSpec.Stk :=
          match StackSpec.specRun (StackSpec.calleeArgs st.spec na (kind == .viaCall)) ops with
          | some l' => if n ≤ l'.length then some (StackSpec.call st.spec na nr (StackSpec.topMost l' n)) else none
          | none => none
        mutVerdict impl (callRHost st.m na nr kind (opsBody ops n)) (some sres) st
      | _, _, _, _, _ => (st, bad)
    | "hcall" :: which :: n :: fnTok :: rest =>
      match n.toNat?, parseVal fnTok, splitSemi rest with
      | some n, some fn, argToks :: opToks =>
        match argToks.mapM parseVal, (opToks.filter (· ≠ [])).mapM parseStackOp with
        | some args, some ops =>
          match impl with
          | res :: implList =>
            let mres := callHandler st.m fn args .fn (opsBody ops n)
            -- what the API entry makes of the popped value
            let shape (x : OVal) : Option String :=
              if which = "tostring" then some (OVal.show x)
              else if which = "len" then (objLen (.handler x)).map toString
              else match x with
                | some (.flt _) => none          -- formatting of a non-integral number: Go's business (not compared)
                | _ => some (asStringTok x)
            let mx : Option String := match mres with
              | .ok (_, .val x) => shape x
              | .ok (_, .goNil) => some "G"
              | .error _ => none
            -- Spec: the handler receives exactly the arguments; the result is its first result (nil if none); list unchanged
            let sx : Option String :=
              match StackSpec.specRun args ops with
              | some l' => if n ≤ l'.length then shape ((StackSpec.topMost l' n).headD none) else none
              | none => none
            let (st', vd) := mutVerdict implList (mres.map (·.1)) (some (some st.spec)) st
            let mv := match vd.model, mx with
              | some m, _ => some m
              | none, some m => if m = res then none else some ("result " ++ m)
              | none, none => none
            let sv := match vd.spec, sx with
              | some m, _ => some m
              | none, some m => if m = res then none else some ("spec: handler's first result " ++ m)
              | none, none => none
            (st', { model := mv, spec := sv })
          | [] => (st, bad)
        | _, _ => (st, bad)
      | _, _, _ => (st, bad)
    | ["concat0"] =>
      -- Model: `if len(values) == 0 { return "" }` — nothing below the top is read; Spec: the concatenation of no
      -- strings is the empty string
      let mres := match ApiObj.Concat engPrims engHeap (fun _ _ => .nil) [] with
        | .goPanic _ => "gopanic"
        | .res _ (.ok t) => "s" ++ t
        | .res _ (.error _) => "err"
      let got := " ".intercalate impl
      (st, { model := if got = mres then none else some mres,
             spec := if got = "s" then none else some ("Concat() = " ++ got ++ ", expected the empty string") })
    | ["concatres", lres] =>
      match parseVal lres with
      | some lv =>
        let mres := asStringTok lv
        let got := " ".intercalate impl
        let mv := if got = mres then none else some mres
        let isStrNum := MetaModel.lvCanConvToString (toV lv)
        (st, { model := mv,
               spec := if isStrNum ∧ got = mres then none else
                 some ((if mv.isNone ∧ !isStrNum then "KF:C10-concat-non-string " else "") ++
                   "Concat = " ++ got ++ " but the Lua expression gives " ++ lres) })
      | none => (st, bad)
    | "pcallfailat" :: na :: kd :: pathTok :: rest =>
      let path : Option RecoverPath := match pathTok with
        | "none" => some .noHandler
        | "returned" => some .handlerReturned
        | "failed" => some .handlerFailed
        | _ => none
      let parseLevel (g : List String) : Option Level :=
        match g.span (· ≠ "/") with
        | (vals, ["/", n, k]) => do
          let vs ← vals.mapM parseVal
          let n ← n.toNat?
          let k ← parseCallee k
          pure { pushed := vs, nargs := n, kind := k }
        | _ => none
      match na.toNat?, parseCallee kd, path, (splitSemi rest).reverse with
      | some na, some kind, some path, hj :: lastG :: lvGroups =>
        match hj.mapM parseVal, lastG.mapM parseVal, (lvGroups.reverse.filter (· ≠ [])).mapM parseLevel with
        | some hjunk, some last, some levels =>
          mutVerdict impl (pcallFailAt st.m na kind levels last (some (.str "")) hjunk path)
            (some (some (StackSpec.callFailed st.spec na))) st
        | _, _, _ => (st, bad)
      | _, _, _, _ => (st, bad)
    | "pcallfail" :: na :: rest =>
      -- optional token before `;`: the exit path of PCall's deferred function (none | returned | failed | either)
      match na.toNat?, splitSemi rest with
      | some na, [pre, junk] =>
        let paths : Option (List RecoverPath) := match pre with
          | [] => some [.noHandler]
          | ["none"] => some [.noHandler]
          | ["returned"] => some [.handlerReturned]
          | ["failed"] => some [.handlerFailed]
          | ["either"] => some [.handlerReturned, .handlerFailed]
          | _ => none
        match junk.mapM parseVal, paths with
        | some junk, some paths =>
          -- registry at failure time: the callee frame pushed `junk` above the arguments; the frame that is current
          -- when the path is taken is a dead one (the callee's, LocalBase = base+1; a handler's lies above the junk)
          let atFail := junk.foldlM (fun r v => regPush r v) st.m.reg
          let run (p : RecoverPath) : St × Verdict :=
            let deadBase := if p = .noHandler then st.m.reg.top - na else st.m.reg.top + junk.length + 3
            let mres := atFail >>= fun r => pcallDeferred st.m na p { reg := r, base := deadBase }
            mutVerdict impl mres (some (some (StackSpec.callFailed st.spec na))) st
          match paths.map run with
          | [] => (st, bad)
          | (st', v) :: more =>
            (st', match more.find? (fun x => x.2.model.isSome ∨ x.2.spec.isSome) with
                  | some x => if v.model.isSome ∨ v.spec.isSome then v else x.2
                  | none => v)
        | _, _ => (st, bad)
      | _, _ => (st, bad)
    | ["ret", g, w] =>
      match g.toNat?, parseInt w with
      | some g, some w =>
        let retBase : Int := (st.m.base : Int) - 1
        let mres := match callGFunctionRet st.m retBase w g 0 with
          | .ok s' => showSlots ((s'.reg.array.take s'.reg.top).drop retBase.toNat)
          | .error e => e.show
        let sres := showList (StackSpec.adjust (StackSpec.topMost st.spec g) w)
        let got := " ".intercalate impl
        ({ st with alive := false },
          { model := if got = mres then none else some mres,
            spec := if got = sres then none else some ("spec results: " ++ sres) })
      | _, _ => (st, bad)
    | ["snap"] =>
      match impl with
      | t :: c :: slots =>
        let mres := toString st.m.reg.top ++ " " ++ toString st.m.reg.array.length ++
          (let sl := trimG st.m.reg.array; if sl.isEmpty then "" else " " ++ showSlots sl)
        let got := " ".intercalate impl
        let sv : Option String := match t.toNat?, c.toNat?, slots.mapM parseSlot with
          | some t, some _, some sl =>
            let sl := sl ++ List.replicate (t - sl.length) .goNil
            if sl.take st.m.base ≠ st.pre then some "caller prefix changed"
            else if ((sl.take t).drop st.m.base) ≠ st.spec.map Slot.val then some "private list differs from spec list"
            else none
          | _, _, _ => some "snap malformed"
        (st, { model := if got = mres then none else some mres, spec := sv })
      | _ => (st, bad)
    | _ => (st, bad)

end GLua.Eng.ApiEng
