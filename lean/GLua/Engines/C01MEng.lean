/-
  Driver engine "C01M" — mechanism part of C01.

    C01M code <prog> => <NumUsedRegisters> C <word>* K <const>*
        the real compiler's output for the rendered program; replayed on the compile model
        (Model/Compile*.lean + patchCode + encoder): must be word-for-word equal.
    C01M run <prog> ; L <val>* ; G <val>* => ret <val>+ | none | err
        the real interpreter's result with the locals / atoms set to the given values; replayed on the
        MiniVM running the MODEL's code (Impl = Model) and on the reference semantics (Impl = Spec).
    C01M fold <n> <tok>* => ok        (fold-vs-runtime is an Impl-vs-Impl comparison done in Go; the engine only
        acknowledges the line so that the case is counted)

  <prog> = <nlocals> <block>; <block> = <n> <stmt>*n
  <stmt> = if C B B | while C B | repeat B C | ret <m> C*m | local C | assign <k> T*k <m> C*m ;  T = l<r> | g<id>
  C      = T | F | N | n<int> | s<ascii> | l<r> | g<id> | not C | and C C | or C C | lt|gt|le|ge|eq|ne C C
-/
import GLua.Engines.Common
import GLua.Model.CompileStmt
import GLua.Spec.CondSpec
import GLua.Spec.Num

namespace GLua.Eng.C01MEng
open GLua GLua.Eng GLua.Compile GLua.MiniVM

/-! ### parsing -/

def relOf : String → Option RelOp
  | "lt" => some .lt | "gt" => some .gt | "le" => some .le | "ge" => some .ge | "eq" => some .eq | "ne" => some .ne
  | _ => none

def parseCond : Nat → List String → Option (Cond × List String)
  | 0, _ => none
  | _ + 1, [] => none
  | fuel + 1, t :: ts =>
    if t = "T" then some (.tru, ts) else if t = "F" then some (.fls, ts) else if t = "N" then some (.nil, ts)
    else if t = "not" then (parseCond fuel ts).map fun (c, r) => (.not c, r)
    else if t = "and" ∨ t = "or" then
      match parseCond fuel ts with
      | none => none
      | some (l, r1) =>
        match parseCond fuel r1 with
        | none => none
        | some (r, r2) => some (if t = "and" then .and l r else .or l r, r2)
    else match relOf t with
    | some op =>
      match parseCond fuel ts with
      | none => none
      | some (l, r1) =>
        match parseCond fuel r1 with
        | none => none
        | some (r, r2) => some (.rel op l r, r2)
    | none =>
      let rest := (t.drop 1).toString
      match t.front with
      | 'n' => rest.toInt?.map fun n => (.num n, ts)
      | 's' => some (.str rest, ts)
      | 'l' => rest.toNat?.map fun n => (.loc n, ts)
      | 'g' => rest.toNat?.map fun n => (.ev n, ts)
      | _ => none

def parseTarget (t : String) : Option Target :=
  let rest := (t.drop 1).toString
  match t.front with
  | 'l' => rest.toNat?.map .loc
  | 'g' => rest.toNat?.map .glob
  | _ => none

def parseConds : Nat → Nat → List String → Option (List Cond × List String)
  | _, 0, ts => some ([], ts)
  | fuel, n + 1, ts =>
    match parseCond fuel ts with
    | none => none
    | some (c, r) => (parseConds fuel n r).map fun (cs, r') => (c :: cs, r')

def parseTargets : Nat → List String → Option (List Target × List String)
  | 0, ts => some ([], ts)
  | _ + 1, [] => none
  | n + 1, t :: ts =>
    match parseTarget t with
    | none => none
    | some x => (parseTargets n ts).map fun (xs, r) => (x :: xs, r)

mutual
def parseStmt : Nat → List String → Option (Stmt × List String)
  | 0, _ => none
  | _ + 1, [] => none
  | fuel + 1, t :: ts =>
    if t = "if" then
      match parseCond (fuel + 1) ts with
      | none => none
      | some (c, r1) =>
        match parseBlock fuel r1 with
        | none => none
        | some (b1, r2) => (parseBlock fuel r2).map fun (b2, r3) => (.ifS c b1 b2, r3)
    else if t = "while" then
      match parseCond (fuel + 1) ts with
      | none => none
      | some (c, r1) => (parseBlock fuel r1).map fun (b, r2) => (.whileS c b, r2)
    else if t = "repeat" then
      match parseBlock fuel ts with
      | none => none
      | some (b, r1) => (parseCond (fuel + 1) r1).map fun (c, r2) => (.repeatS b c, r2)
    else if t = "ret" then
      match ts with
      | [] => none
      | m :: r0 =>
        match m.toNat? with
        | none => none
        | some m => (parseConds (fuel + 1) m r0).map fun (cs, r) => (.ret cs, r)
    else if t = "local" then (parseCond (fuel + 1) ts).map fun (c, r) => (.localDef c, r)
    else if t = "assign" then
      match ts with
      | [] => none
      | k :: r0 =>
        match k.toNat? with
        | none => none
        | some k =>
          match parseTargets k r0 with
          | none => none
          | some (tg, r1) =>
            match r1 with
            | [] => none
            | m :: r2 =>
              match m.toNat? with
              | none => none
              | some m => (parseConds (fuel + 1) m r2).map fun (cs, r3) => (.assign tg cs, r3)
    else none
def parseBlock : Nat → List String → Option (Block × List String)
  | 0, _ => none
  | _ + 1, [] => none
  | fuel + 1, n :: ts =>
    match n.toNat? with
    | none => none
    | some n => parseStmts fuel n ts
def parseStmts : Nat → Nat → List String → Option (Block × List String)
  | 0, _, _ => none
  | _ + 1, 0, ts => some (.nil, ts)
  | fuel + 1, n + 1, ts =>
    match parseStmt fuel ts with
    | none => none
    | some (s, r) => (parseStmts fuel n r).map fun (b, r') => (.cons s b, r')
end

def parseProg (ts : List String) : Option (Nat × Block × List String) :=
  match ts with
  | [] => none
  | n :: r =>
    match n.toNat? with
    | none => none
    | some n => (parseBlock (ts.length + 2) r).map fun (b, r') => (n, b, r')

/-! ### the concrete value domain of the run tie -/

def truthyO : OVal → Bool
  | none => false
  | some (.bool false) => false
  | _ => true

def ltO : OVal → OVal → Option Bool
  | some (.int a), some (.int b) => some (decide (a < b))
  | some (.str a), some (.str b) => some (decide (a < b))       -- hex of bytes: same order as the bytes
  | _, _ => none
def leO : OVal → OVal → Option Bool
  | some (.int a), some (.int b) => some (decide (a ≤ b))
  | some (.str a), some (.str b) => some (decide (a ≤ b))
  | _, _ => none

def dom : Dom OVal where
  nilV := none
  trueV := some (.bool true)
  falseV := some (.bool false)
  truthy := truthyO
  num := fun n => some (.int n)
  str := fun s => some (.str (Sem.hexOfAscii s))
  eq := fun a b => some (decide (a = b))
  lt := ltO
  le := leO

def konstTok : Konst → String
  | .num n => "i" ++ toString n
  | .str s => "s" ++ Sem.hexOfAscii s

/-! ### requests -/

def splitOn (sep : String) (ws : List String) : List String × List String :=
  match ws.span (· ≠ sep) with
  | (a, []) => (a, [])
  | (a, _ :: b) => (a, b)

def modelCode (n : Nat) (b : Block) : Except String (List Instr × Nat × List Konst) :=
  let st := compileMain n b
  match patchCode st with
  | .error e => .error e
  | .ok (code, nregs) => .ok (code, nregs, st.consts)

def handleCode (args impl : List String) : Verdict :=
  match parseProg args with
  | none => { model := some "bad-program" }
  | some (n, b, _) =>
    match modelCode n b with
    | .error e => { model := cmpModel ("compile-error " ++ e.replace " " "_") impl }
    | .ok (code, nregs, consts) =>
      let words := code.map fun i => toString (encode consts i)
      let expected := [toString nregs, "C"] ++ words ++ ["K"] ++ consts.map konstTok
      { model := cmpModel (" ".intercalate expected) impl }

def listToFn (l : List OVal) : Nat → OVal := fun i => (l[i]?).getD none

def parseVals (ts : List String) : Option (List OVal) := ts.mapM parseVal

def showVals (vs : List OVal) : String :=
  if vs.isEmpty then "none" else " ".intercalate ("ret" :: vs.map OVal.show)

def handleRun (args impl : List String) : Verdict :=
  let (p, r1) := splitOn ";" args
  let (ls, r2) := splitOn ";" r1
  match parseProg p, parseVals (ls.drop 1), parseVals (r2.drop 1) with
  | some (n, b, _), some lv, some gv =>
    let implS := " ".intercalate impl
    -- Spec
    let specR : String :=
      match CondSpec.execChunk dom 100000 b { locals := (List.range n).map (listToFn lv), globs := listToFn gv } with
      | .normal _ => "none"
      | .returned vs => showVals vs
      | .error => "err"
      | .outOfFuel => "fuel"
    -- Model: MiniVM on the model's code
    let modelR : String :=
      match modelCode n b with
      | .error e => "compile-error " ++ e
      | .ok (code, _, consts) =>
        let s0 : VM OVal := { pc := if n = 0 then 0 else 1, regs := listToFn lv, globs := listToFn gv }
        match run dom code consts 100000 s0 with
        | none => "fuel"
        | some (.halt s) =>
          match code[s.pc]? with
          | some (.ret a b) => if b = 0 then "ret-to-top" else showVals ((List.range (b - 1)).map fun i => s.regs (a + i))
          | _ => "halt-at-foreign-instruction"
        | some (.luaError _) => "err"
        | some (.goPanic site) => "gopanic:" ++ site.replace " " "_"
        | some (.ok _) => "?"
    { model := if modelR = implS then none else some modelR,
      spec := if specR = implS then none else some ("expected " ++ specR) }
  | _, _, _ => { model := some "bad-request" }

def handle (ws : List String) : Verdict :=
  let (args, impl) := splitArrow ws
  match args with
  | "code" :: r => handleCode r impl
  | "run" :: r => handleRun r impl
  | "fold" :: _ => ok
  | _ => { model := some "bad-op" }

end GLua.Eng.C01MEng
