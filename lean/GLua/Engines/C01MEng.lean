/-
  Driver engine "C01M" — mechanism part of C01.

    C01M code <prog> => <NumUsedRegisters> C <word>* K <const>*
        the real compiler's output for the rendered program; replayed on the compile model
        (Model/Compile*.lean + patchCode + encoder): must be word-for-word equal.
    C01M run <prog> ; L <val>* ; G <val>* => ret <val>+ | none | err
        the real interpreter's result with the locals / atoms set to the given values; replayed on the
        MiniVM running the MODEL's code (Impl = Model) and on the reference semantics (Impl = Spec).
    C01M fold <n> <tok>* => ok        (fold-vs-runtime is an Impl-vs-Impl comparison done in Go; the engine only
        acknowledges the line so that the case is counted)

  <prog> = <nlocals> <block>; <block> = <n> <stmt>*n
  <stmt> = if C B B | while C B | repeat B C | ret <m> C*m | local C | assign <k> T*k <m> C*m ;  T = l<r> | g<id>
  C      = T | F | N | n<int> | s<ascii> | l<r> | g<id> | not C | and C C | or C C | lt|gt|le|ge|eq|ne C C
         | @add|@sub|@mul|@div|@mod|@pow C C | @unm C | @len C | @cat C C

  Numbers are IEEE doubles by bit pattern (`F64`): the instance of the number structure with which the compile
  model folds constants and the MiniVM / the reference semantics compute.  `+ - * /` are the hardware operations,
  `%` is `luaModulo` over an EXACT `math.Mod`, `^` is Go's `math.Pow` transcribed for the integer exponents
  0…3 that the generators produce (libm `pow` otherwise) — the trusted number base of DESIGN §4.5.
-/
import GLua.Engines.Common
import GLua.Model.CompileStmt
import GLua.Spec.CondSpec
import GLua.Spec.Num

namespace GLua.Eng.C01MEng
open GLua GLua.Eng GLua.Compile GLua.MiniVM

/-! ### the concrete number structure -/

structure F64 where
  bits : UInt64
deriving DecidableEq

def F64.f (x : F64) : Float := Float.ofBits x.bits
def F64.of (f : Float) : F64 := ⟨f.toBits⟩

def nanF : Float := 0.0 / 0.0

/-- a finite double as ±mant · 2^exp with an integer mantissa. -/
def decodeFinite (f : Float) : Bool × Nat × Int :=
  let b := f.toBits.toNat
  let sign := decide (b / 2 ^ 63 = 1)
  let e : Nat := b / 2 ^ 52 % 2048
  let m : Nat := b % 2 ^ 52
  if e = 0 then (sign, m, -1074) else (sign, m + 2 ^ 52, Int.ofNat e - 1075)

/-- `math.Mod` (C `fmod`): exact; the result has the sign of x. -/
def fmodExact (x y : Float) : Float :=
  if x.isNaN || y.isNaN || x.isInf || y == 0.0 then nanF
  else if y.isInf then x
  else
    let (sx, mx, ex) := decodeFinite x
    let (_, my, ey) := decodeFinite y
    let e := min ex ey
    let a := mx * 2 ^ (ex - e).toNat
    let b := my * 2 ^ (ey - e).toNat
    let v := (Float.ofNat (a % b)).scaleB e
    if sx then -v else v

/-- `luaModulo` of vm.go. -/
def luaModuloF (x y : Float) : Float :=
  let v := fmodExact x y
  if (y > 0.0 && v < 0.0) || (y < 0.0 && v > 0.0) then v + y else v

/-- the square-and-multiply loop of Go's `math.Pow` for a finite non-zero x and an integer exponent. -/
def goPowLoop : Nat → Nat → Float → Int → Float → Int → Float × Int
  | 0, _, _, _, a1, ae => (a1, ae)
  | fuel + 1, i, x1, xe, a1, ae =>
    if i = 0 then (a1, ae)
    else if xe < -4096 || 4096 < xe then (a1, ae + xe)
    else
      let (a1, ae) := if i % 2 = 1 then (a1 * x1, ae + xe) else (a1, ae)
      let x1 := x1 * x1
      let xe := xe * 2
      let (x1, xe) := if x1 < 0.5 then (x1 + x1, xe - 1) else (x1, xe)
      goPowLoop fuel (i / 2) x1 xe a1 ae

def powF (x y : Float) : Float :=
  if y == 0.0 || x == 1.0 then 1.0
  else if y == 1.0 then x
  else if x.isNaN || y.isNaN then nanF
  else if y == 2.0 || y == 3.0 then
    if x.isFinite && x != 0.0 then
      let (x1, xe) := x.frExp
      let (a1, ae) := goPowLoop 8 (if y == 2.0 then 2 else 3) x1 xe 1.0 0
      a1.scaleB ae
    else if y == 2.0 then x * x else x * (x * x)
  else Float.pow x y

@[reducible] instance f64Num : NumStruct where
  N := F64
  deq := inferInstance
  add a b := .of (a.f + b.f)
  sub a b := .of (a.f - b.f)
  mul a b := .of (a.f * b.f)
  div a b := .of (a.f / b.f)
  mod a b := .of (luaModuloF a.f b.f)
  pow a b := .of (powF a.f b.f)
  neg a := .of (-a.f)
  lit n := .of (Float.ofInt n)
  isNaN a := a.f.isNaN

/-! ### parsing -/

def relOf : String → Option RelOp
  | "lt" => some .lt | "gt" => some .gt | "le" => some .le | "ge" => some .ge | "eq" => some .eq | "ne" => some .ne
  | _ => none

def arithOf : String → Option ArithOp
  | "@add" => some .add | "@sub" => some .sub | "@mul" => some .mul | "@div" => some .div
  | "@mod" => some .mod | "@pow" => some .pow
  | _ => none

def parseCond : Nat → List String → Option (Cond × List String)
  | 0, _ => none
  | _ + 1, [] => none
  | fuel + 1, t :: ts =>
    if t = "T" then some (.tru, ts) else if t = "F" then some (.fls, ts) else if t = "N" then some (.nil, ts)
    else if t = "not" then (parseCond fuel ts).map fun (c, r) => (.not c, r)
    else if t = "@unm" then (parseCond fuel ts).map fun (c, r) => (.unm c, r)
    else if t = "@len" then (parseCond fuel ts).map fun (c, r) => (.len c, r)
    else if t = "@cat" ∨ (arithOf t).isSome then
      match parseCond fuel ts with
      | none => none
      | some (l, r1) =>
        match parseCond fuel r1 with
        | none => none
        | some (r, r2) =>
          match arithOf t with
          | some op => some (.arith op l r, r2)
          | none => some (.concat l r, r2)
    else if t = "and" ∨ t = "or" then
      match parseCond fuel ts with
      | none => none
      | some (l, r1) =>
        match parseCond fuel r1 with
        | none => none
        | some (r, r2) => some (if t = "and" then .and l r else .or l r, r2)
    else match relOf t with
    | some op =>
      match parseCond fuel ts with
      | none => none
      | some (l, r1) =>
        match parseCond fuel r1 with
        | none => none
        | some (r, r2) => some (.rel op l r, r2)
    | none =>
      let rest := (t.drop 1).toString
      match t.front with
      | 'n' => rest.toInt?.map fun n => (.num n, ts)
      | 's' => some (.str rest, ts)
      | 'l' => rest.toNat?.map fun n => (.loc n, ts)
      | 'g' => rest.toNat?.map fun n => (.ev n, ts)
      | _ => none

def parseTarget (t : String) : Option Target :=
  let rest := (t.drop 1).toString
  match t.front with
  | 'l' => rest.toNat?.map .loc
  | 'g' => rest.toNat?.map .glob
  | _ => none

def parseConds : Nat → Nat → List String → Option (List Cond × List String)
  | _, 0, ts => some ([], ts)
  | fuel, n + 1, ts =>
    match parseCond fuel ts with
    | none => none
    | some (c, r) => (parseConds fuel n r).map fun (cs, r') => (c :: cs, r')

def parseTargets : Nat → List String → Option (List Target × List String)
  | 0, ts => some ([], ts)
  | _ + 1, [] => none
  | n + 1, t :: ts =>
    match parseTarget t with
    | none => none
    | some x => (parseTargets n ts).map fun (xs, r) => (x :: xs, r)

mutual
def parseStmt : Nat → List String → Option (Stmt × List String)
  | 0, _ => none
  | _ + 1, [] => none
  | fuel + 1, t :: ts =>
    if t = "if" then
      match parseCond (fuel + 1) ts with
      | none => none
      | some (c, r1) =>
        match parseBlock fuel r1 with
        | none => none
        | some (b1, r2) => (parseBlock fuel r2).map fun (b2, r3) => (.ifS c b1 b2, r3)
    else if t = "while" then
      match parseCond (fuel + 1) ts with
      | none => none
      | some (c, r1) => (parseBlock fuel r1).map fun (b, r2) => (.whileS c b, r2)
    else if t = "repeat" then
      match parseBlock fuel ts with
      | none => none
      | some (b, r1) => (parseCond (fuel + 1) r1).map fun (c, r2) => (.repeatS b c, r2)
    else if t = "ret" then
      match ts with
      | [] => none
      | m :: r0 =>
        match m.toNat? with
        | none => none
        | some m => (parseConds (fuel + 1) m r0).map fun (cs, r) => (.ret cs, r)
    else if t = "local" then (parseCond (fuel + 1) ts).map fun (c, r) => (.localDef c, r)
    else if t = "assign" then
      match ts with
      | [] => none
      | k :: r0 =>
        match k.toNat? with
        | none => none
        | some k =>
          match parseTargets k r0 with
          | none => none
          | some (tg, r1) =>
            match r1 with
            | [] => none
            | m :: r2 =>
              match m.toNat? with
              | none => none
              | some m => (parseConds (fuel + 1) m r2).map fun (cs, r3) => (.assign tg cs, r3)
    else none
def parseBlock : Nat → List String → Option (Block × List String)
  | 0, _ => none
  | _ + 1, [] => none
  | fuel + 1, n :: ts =>
    match n.toNat? with
    | none => none
    | some n => parseStmts fuel n ts
def parseStmts : Nat → Nat → List String → Option (Block × List String)
  | 0, _, _ => none
  | _ + 1, 0, ts => some (.nil, ts)
  | fuel + 1, n + 1, ts =>
    match parseStmt fuel ts with
    | none => none
    | some (s, r) => (parseStmts fuel n r).map fun (b, r') => (.cons s b, r')
end

def parseProg (ts : List String) : Option (Nat × Block × List String) :=
  match ts with
  | [] => none
  | n :: r =>
    match n.toNat? with
    | none => none
    | some n => (parseBlock (ts.length + 2) r).map fun (b, r') => (n, b, r')

/-! ### the concrete value domain of the run tie -/

inductive RV where
  | nil
  | bool (b : Bool)
  | num (x : F64)
  | str (hex : String)
deriving DecidableEq

def RV.show : RV → String
  | .nil => "nil"
  | .bool b => if b then "T" else "F"
  | .num x => Sem.tokOfFloat x.f
  | .str h => "s" ++ h

def parseRV (t : String) : Option RV :=
  if t = "nil" then some .nil
  else if t = "T" then some (.bool true)
  else if t = "F" then some (.bool false)
  else if t.front = 's' then some (.str (t.drop 1).toString)
  else (Sem.floatOfTok t).map fun f => .num (.of f)

def truthyR : RV → Bool
  | .nil => false
  | .bool false => false
  | _ => true

def eqR : RV → RV → Option Bool
  | .num a, .num b => some (a.f == b.f)
  | a, b => some (decide (a = b))

def ltR : RV → RV → Option Bool
  | .num a, .num b => some (a.f < b.f)
  | .str a, .str b => some (decide (a < b))       -- hex of bytes: same order as the bytes
  | _, _ => none
def leR : RV → RV → Option Bool
  | .num a, .num b => some (a.f ≤ b.f)
  | .str a, .str b => some (decide (a ≤ b))
  | _, _ => none

/-- §2.2.1: a string is converted to a number by the rules of the lexer (here: `strtod`). -/
def toNumR : RV → Option F64
  | .num x => some x
  | .str h => (Sem.strToNum? h).map .of
  | _ => none

def arithR (op : ArithOp) (a b : RV) : Option RV :=
  match toNumR a, toNumR b with
  | some x, some y => some (.num (NumStruct.apply op x y))
  | _, _ => none

def unmR (a : RV) : Option RV := (toNumR a).map fun x => .num (NumStruct.neg x)

def lenR : RV → Option RV
  | .str h => some (.num (.of (Float.ofNat (Sem.strLen h))))
  | _ => none

/-- number → string for concatenation: only integral values below 2^53 (plain decimal digits; -0 prints as 0 like
    every integral value does through int64).  The harness never sends a run in which any other number is
    concatenated (it detects them with an instrumented twin of the program), so `none` here is never compared. -/
def strOfR : RV → Option String
  | .str h => some h
  | .num x =>
    match Sem.floatExactInt? x.f with
    | some i => if i.natAbs < 2 ^ 53 then some (Sem.hexOfAscii (toString i)) else none
    | none => none
  | _ => none

def concatR (a b : RV) : Option RV :=
  match strOfR a, strOfR b with
  | some x, some y => some (.str (x ++ y))
  | _, _ => none

def dom : Dom RV where
  nilV := .nil
  trueV := .bool true
  falseV := .bool false
  truthy := truthyR
  num := .num
  str := fun s => .str (Sem.hexOfAscii s)
  eq := eqR
  lt := ltR
  le := leR
  arith := arithR
  unm := unmR
  len := lenR
  concat := concatR

def konstTok : Konst → String
  | .num x => Sem.tokOfFloat x.f
  | .str s => "s" ++ Sem.hexOfAscii s

/-! ### requests -/

def splitOn (sep : String) (ws : List String) : List String × List String :=
  match ws.span (· ≠ sep) with
  | (a, []) => (a, [])
  | (a, _ :: b) => (a, b)

def modelCode (n : Nat) (b : Block) : Except String (List Instr × Nat × List Konst) :=
  let st := compileMain n b
  match patchCode st with
  | .error e => .error e
  | .ok (code, nregs) => .ok (code, nregs, st.consts)

def handleCode (args impl : List String) : Verdict :=
  match parseProg args with
  | none => { model := some "bad-program" }
  | some (n, b, _) =>
    match modelCode n b with
    | .error e => { model := cmpModel ("compile-error " ++ e.replace " " "_") impl }
    | .ok (code, nregs, consts) =>
      let words := code.map fun i => toString (encode consts i)
      let expected := [toString nregs, "C"] ++ words ++ ["K"] ++ consts.map konstTok
      { model := cmpModel (" ".intercalate expected) impl }

def listToFn (l : List RV) : Nat → RV := fun i => (l[i]?).getD .nil

def parseVals (ts : List String) : Option (List RV) := ts.mapM parseRV

def showVals (vs : List RV) : String :=
  if vs.isEmpty then "none" else " ".intercalate ("ret" :: vs.map RV.show)

def handleRun (args impl : List String) : Verdict :=
  let (p, r1) := splitOn ";" args
  let (ls, r2) := splitOn ";" r1
  match parseProg p, parseVals (ls.drop 1), parseVals (r2.drop 1) with
  | some (n, b, _), some lv, some gv =>
    let implS := " ".intercalate impl
    -- Spec
    let specR : String :=
      match CondSpec.execChunk dom 100000 b { locals := (List.range n).map (listToFn lv), globs := listToFn gv } with
      | .normal _ => "none"
      | .returned vs => showVals vs
      | .error => "err"
      | .outOfFuel => "fuel"
    -- Model: MiniVM on the model's code
    let modelR : String :=
      match modelCode n b with
      | .error e => "compile-error " ++ e
      | .ok (code, _, consts) =>
        let s0 : VM RV := { pc := if n = 0 then 0 else 1, regs := listToFn lv, globs := listToFn gv }
        match run dom code consts 100000 s0 with
        | none => "fuel"
        | some (.halt s) =>
          match code[s.pc]? with
          | some (.ret a b) => if b = 0 then "ret-to-top" else showVals ((List.range (b - 1)).map fun i => s.regs (a + i))
          | _ => "halt-at-foreign-instruction"
        | some (.luaError _) => "err"
        | some (.goPanic site) => "gopanic:" ++ site.replace " " "_"
        | some (.ok _) => "?"
    { model := if modelR = implS then none else some modelR,
      spec := if specR = implS then none else some ("expected " ++ specR) }
  | _, _, _ => { model := some "bad-request" }

def handle (ws : List String) : Verdict :=
  let (args, impl) := splitArrow ws
  match args with
  | "code" :: r => handleCode r impl
  | "run" :: r => handleRun r impl
  | "fold" :: _ => ok
  | _ => { model := some "bad-op" }

end GLua.Eng.C01MEng
