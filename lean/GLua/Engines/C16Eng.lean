/-
  Driver engine for C16 (text ↔ value round trips).  One request per line:

    C16 <variant> <op> <args…> => <what the implementation returned>

  variant = `fix` (the tree with fixes/C16-*.diff applied — the Model proper) or `pre` (the unrepaired code paths:
  `NumModel.Pre`, `QuoteModel.Pre`, yday = 0).  In `pre` a Spec complaint that the Pre-Model *reproduces* is tagged
  `KF:<id>` (see known_findings.jsonl); an Impl ≠ Model disagreement is never tagged.
  Numbers travel as `b<uint64 bit pattern, decimal>`; strings as `s<hex>`.
-/
import GLua.Engines.Common
import GLua.Model.Numeral
import GLua.Model.Quote
import GLua.Model.Time
import GLua.Spec.Quote

namespace GLua.Eng.C16Eng
open GLua GLua.Eng GLua.NumSpec GLua.NumModel

def hexVal? (c : Char) : Option Nat :=
  if '0' ≤ c ∧ c ≤ '9' then some (c.toNat - 48)
  else if 'a' ≤ c ∧ c ≤ 'f' then some (c.toNat - 87)
  else none

def unhexAux : List Char → Option Bytes
  | [] => some []
  | [_] => none
  | a :: b :: r =>
    match hexVal? a, hexVal? b, unhexAux r with
    | some x, some y, some t => some ((x * 16 + y) :: t)
    | _, _, _ => none

/-- `s<hex>` → bytes. -/
def decS (tok : String) : Option Bytes :=
  match tok.toList with
  | 's' :: r => unhexAux r
  | _ => none

def hexDigit (n : Nat) : Char := Char.ofNat (if n < 10 then 48 + n else 87 + n)
def encS (b : Bytes) : String := "s" ++ String.ofList (b.flatMap fun c => [hexDigit (c / 16 % 16), hexDigit (c % 16)])

def decB (tok : String) : Option Nat :=
  match tok.toList with
  | 'b' :: r => (String.ofList r).toNat?
  | _ => none

def isNaNBits (bits : Nat) : Bool := bits / 2 ^ 52 % 2048 == 2047 && bits % 2 ^ 52 != 0
def isZeroBits (bits : Nat) : Bool := bits % 2 ^ 63 == 0

/-- does the double `bits` carry the value `v` (correct rounding of an exact value; sign of infinities)? -/
def carries (v : NumV) (bits : Nat) : Bool :=
  match v with
  | .exact x => roundsS true x bits
  | .inf neg => bits == (if neg then 0xFFF0000000000000 else 0x7FF0000000000000)
  | .nan => isNaNBits bits

def showV : NumV → String
  | .exact x => "num(" ++ (if x.neg then "-" else "") ++ toString x.mant ++ "e" ++ toString x.exp10 ++
      (if x.exp2 = 0 then "" else "p" ++ toString x.exp2) ++ ")"
  | .inf neg => if neg then "-inf" else "inf"
  | .nan => "nan"

/-- Model side of a reader result: `absent` is the word the implementation uses for "no number". -/
def cmpReader (m : Option NumV) (absent : String) (impl : String) : Option String :=
  match m with
  | none => if impl = absent then none else some absent
  | some v =>
    match decB impl with
    | some bits => if carries v bits then none else some (showV v)
    | none => some (showV v)

/-- Spec side of a reader result. -/
def specReader (s : Option Exact) (impl : String) : Option String :=
  match s, decB impl with
  | some x, some bits => if rounds x bits then none else some ("numeral denotes " ++ showV (.exact x))
  | some x, none => some ("numeral rejected, denotes " ++ showV (.exact x))
  | none, some _ => some "non-numeral accepted"
  | none, none => none

def tagKF (pre : Bool) (kf : String) (v : Verdict) : Verdict :=
  if pre ∧ v.model.isNone then { v with spec := v.spec.map fun r => "KF:" ++ kf ++ " " ++ r } else v

def kfNum := "C16-numeral-readers"
def kfQuote := "C16-q-go-quoting"
def kfDate := "C16-strftime-table"
def kfEsc := "C16-decimal-escape-wraps"

def stripWs (s : Bytes) : Bytes := ((s.dropWhile isLuaWs).reverse.dropWhile isLuaWs).reverse

/-- digits (values) of the mantissa without trailing zeros, and the adjusted exponent. -/
def normDigits (mant : Nat) (e10 : Int) : List Nat × Int :=
  let ds := (natDigits (mant + 1) mant).map (· - 48)
  let tz := (ds.reverse.takeWhile (· == 0)).length
  if mant = 0 then ([], 0) else (ds.take (ds.length - tz), e10 + tz)

def parseInts (l : List String) : Option (List Int) := l.mapM (·.toInt?)
def parseOptInts (l : List String) : Option (List (Option Int)) :=
  l.mapM fun w => if w = "-" then some none else w.toInt?.map some

def specCal : TimeModel.Cal := { civil := TimeSpec.fieldsOf, unix := TimeSpec.timeOf }

def showFields (f : TimeSpec.Fields) : String :=
  " ".intercalate ([f.year, f.month, f.day, f.hour, f.min, f.sec, f.wday, f.yday].map toString)

/-- does a short-string source contain a decimal escape above 255? (the known-finding class of `strlit`) -/
def hasBigEscape : Bytes → Bool
  | 92 :: 92 :: r => hasBigEscape r
  | 92 :: a :: b :: c :: r =>
    (isDec a && isDec b && isDec c && (a - 48) * 100 + (b - 48) * 10 + (c - 48) > 255) || hasBigEscape (a :: b :: c :: r)
  | _ :: r => hasBigEscape r
  | [] => false

def handle (ws : List String) : Verdict :=
  let (args, impl) := splitArrow ws
  match args with
  | variant :: op :: rest =>
    let pre := variant == "pre"
    let parse := if pre then Pre.parseNumber else parseNumber
    let scan := if pre then Pre.scanNumber else scanNumber
    match op, rest, impl with
    -- ---------- numerals ----------
    | "lit", [s], [kind, tok, res] =>
      match decS s with
      | none => { model := some "bad-arg" }
      | some s =>
        let model : Option String :=
          match lexNumber scan s with
          | .notnum => if kind = "notnum" then none else some "notnum"
          | .err => if kind = "lexerr" ∧ res = "err" then none else some "lexerr - err"
          | .tok t rest =>
            if rest.all isLuaWs then
              let v := literalValue parse t
              let okv : Bool := match decB res with | some b => carries v b | none => false
              if kind = "one" ∧ tok = encS t ∧ okv
              then none else some ("one " ++ encS t ++ " " ++ showV v)
            else if kind = "many" ∧ tok = encS t then none else some ("many " ++ encS t)
        let spec : Option String :=
          match NumSpec.literal (stripWs s) with
          | some x =>
            (match kind, decB res with
             | "one", some b => if rounds x b then none else some ("literal denotes " ++ showV (.exact x))
             | _, _ => some ("numeral literal not read as one number, denotes " ++ showV (.exact x)))
          | none => if kind = "one" ∧ (decB res).isSome then some "non-numeral read as one number token" else none
        tagKF pre kfNum { model := model, spec := spec }
    | "ton", [s], [r] =>
      match decS s with
      | none => { model := some "bad-arg" }
      | some s =>
        let m : Option NumV := if pre then Pre.baseToNumber none s else
          match baseToNumber none s with | .val v => v | .argError => none
        tagKF pre kfNum { model := cmpReader m "nil" r, spec := specReader (NumSpec.numeral s) r }
    | "coerce", [s], [r] =>
      match decS s with
      | none => { model := some "bad-arg" }
      | some s => tagKF pre kfNum { model := cmpReader (parse s) "err" r, spec := specReader (NumSpec.numeral s) r }
    | "tonb", [b, s], [r] =>
      match decS s, b.toNat? with
      | some s, some b =>
        if pre then
          let inRange := b = 0 ∨ (2 ≤ b ∧ b ≤ 36)
          let m := if inRange then Pre.baseToNumber (some b) s else none
          let spec := if 2 ≤ b ∧ b ≤ 36 then specReader (NumSpec.numeralBase b s) r
                      else if r = "argerr" then none else some "base out of range accepted"
          tagKF pre kfNum { model := cmpReader m "nil" r, spec := spec }
        else
          match baseToNumber (some b) s with
          | .argError =>
            { model := if r = "argerr" then none else some "argerr",
              spec := if 2 ≤ b ∧ b ≤ 36 then some "valid base rejected" else if r = "argerr" then none else some "base out of range accepted" }
          | .val m =>
            { model := cmpReader m "nil" r,
              spec := if 2 ≤ b ∧ b ≤ 36 then specReader (NumSpec.numeralBase b s) r else some "base out of range accepted" }
      | _, _ => { model := some "bad-arg" }
    | "tostr", [x], [out] =>
      match decB x, decS out with
      | some bits, some o =>
        let model : Option String :=
          match stringBranch bits with
          | .nan => if o = TimeSpec.str "NaN" then none else some "NaN"
          | .inf neg => if o = TimeSpec.str (if neg then "-Inf" else "+Inf") then none else some "Inf"
          | .int i => if o = formatInt i then none else some (encS (formatInt i))
          | .float neg =>
            -- shortest digits are trusted to strconv: recover them from the output, re-render with the layout
            -- model, and check that they do read back to x
            let body := if neg then o.drop 1 else o
            match NumSpec.decimal body with
            | none => some "float-branch output is not a decimal"
            | some (mant, e10) =>
              let (ds, e) := normDigits mant e10
              let dp : Int := (ds.length : Int) + e
              if (neg ∧ o.head? ≠ some 45) then some "sign"
              else if fmtG neg ds dp ≠ o then some (encS (fmtG neg ds dp))
              else if !rounds { neg := neg, mant := mant, exp10 := e10 } bits then some "digits do not read back"
              else none
        let spec : Option String :=
          if !isFiniteBits bits then none else
          match NumSpec.numeral o with
          | none => some "tostring output is not a numeral"
          | some v =>
            if !(rounds v bits ∨ (isZeroBits bits ∧ v.mant = 0)) then some "tostring output denotes another number"
            else match bitsToInt? bits with
              | some i => if i.natAbs < 2 ^ 53 ∧ o ≠ plainInt i then some "integral value not printed as plain digits" else none
              | none => none
        tagKF pre kfNum { model := model, spec := spec }
      | _, _ => { model := some "bad-arg" }
    | "rt", [x], [r] =>
      match decB x with
      | some bits =>
        let spec : Option String :=
          if !isFiniteBits bits then none else
          match decB r with
          | some b2 => if b2 = bits ∨ (isZeroBits bits ∧ isZeroBits b2) then none else some "tonumber(tostring(x)) ~= x"
          | none => some "tonumber(tostring(x)) = nil"
        -- the Model side of this composition is checked by the `tostr` and `ton` requests sent with it
        { spec := if pre then spec.map (fun r => "KF:" ++ kfNum ++ " " ++ r) else spec }
      | none => { model := some "bad-arg" }
    -- ---------- quoting / string literals ----------
    | "q", [s], [quoted, back] =>
      match decS s, decS quoted with
      | some s, some qd =>
        let mq : Option Bytes := if pre then QuoteModel.Pre.goQuote s else some (QuoteModel.formatQ s)
        let mback := match QuoteModel.readBack qd with | some b => encS b | none => "err"
        let model : Option String :=
          match mq with
          | some m => if m ≠ qd then some (encS m) else if back ≠ mback then some ("back=" ++ mback) else none
          | none => if back ≠ mback then some ("back=" ++ mback) else none
        let spec : Option String :=
          if QuoteSpec.literal qd ≠ some s then some "the quoted form does not denote the string"
          else if back ≠ encS s then some "reading the quoted form back does not yield the string"
          else none
        tagKF pre kfQuote { model := model, spec := spec }
      | _, _ => { model := some "bad-arg" }
    | "strlit", [src], [r] =>
      match decS src with
      | some src =>
        -- white space after the literal is not part of it; anything else after it: the Spec makes no claim
        let sres := match QuoteSpec.literalPrefix src with
          | some (b, rest) => if rest.all isLuaWs then encS b else r
          | none => "err"
        let model : Option String :=
          match src with
          | q :: body =>
            if q = 34 ∨ q = 39 then
              let m := match QuoteModel.scanString pre q (body.length + 1) body [] with
                | some (b, rest) => if rest.all isLuaWs then encS b else "?"
                | none => "err"
              if m = "?" ∨ m = r then none else some m
            else none
          | [] => none
        let v : Verdict := { model := model, spec := if r = sres then none else some ("literal denotes " ++ sres) }
        if pre ∧ v.model.isNone ∧ hasBigEscape src then { v with spec := v.spec.map fun r => "KF:" ++ kfEsc ++ " " ++ r } else v
      | none => { model := some "bad-arg" }
    -- ---------- time ----------
    | "date", [t], fs =>
      match t.toInt? with
      | some t =>
        let m := TimeModel.osDateTable specCal t
        let m := if pre then { m with yday := 0 } else m
        tagKF pre kfDate { model := cmpModel (showFields m) fs,
                           spec := if " ".intercalate fs = showFields (TimeSpec.fieldsOf t) then none
                                   else some ("fields " ++ showFields (TimeSpec.fieldsOf t)) }
      | none => { model := some "bad-arg" }
    | "time", fs, [r] =>
      match parseOptInts fs with
      | some [y, mo, d, h, mi, s] =>
        let m := TimeModel.osTime specCal y mo d h mi s
        let sp := match y, mo, d with
          | some y, some mo, some d => some (TimeSpec.timeOf y mo d (h.getD 12) (mi.getD 0) (s.getD 0))
          | _, _, _ => none
        { model := cmpModel (toString m) [r],
          spec := match sp with
            | some v => if toString v = r then none else some ("time " ++ toString v)
            | none => none }
      | _ => { model := some "bad-arg" }
    | "trt", [t], [r] =>
      { spec := if t = r then none else some "os.time(os.date('*t', t)) ~= t" }
    | "fmt", [t, f], [out] =>
      match t.toInt?, decS f with
      | some t, some f =>
        let fields := TimeModel.osDateTable specCal t
        let model := match TimeModel.strftime fields f with
          | some b => if encS b = out then none else some (encS b)
          | none => some "unmodelled-layout"
        let spec := match TimeSpec.strftime (TimeSpec.fieldsOf t) f with
          | some b => if encS b = out then none else some ("strftime " ++ encS b)
          | none => none
        tagKF pre kfDate { model := model, spec := spec }
      | _, _ => { model := some "bad-arg" }
    | _, _, _ => { model := some "bad-op" }
  | _ => { model := some "bad-op" }

end GLua.Eng.C16Eng
