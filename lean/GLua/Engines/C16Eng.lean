/-
  Driver engine for C16 (text ↔ value round trips).  One request per line:

    C16 <variant> <op> <args…> => <what the implementation returned>

  variant = `fix` (the tree with fixes/C16-*.diff applied — the Model proper) or `pre` (the unrepaired code paths:
  `NumModel.Pre`, `QuoteModel.Pre`, yday = 0).  In `pre` a Spec complaint that the Pre-Model *reproduces* is tagged
  `KF:<id>` (see known_findings.jsonl); an Impl ≠ Model disagreement is never tagged.
  Numbers travel as `b<uint64 bit pattern, decimal>`; strings as `s<hex>`.
-/
import GLua.Engines.Common
import GLua.Model.Numeral
import GLua.Model.Quote
import GLua.Model.Time
import GLua.Spec.Quote

namespace GLua.Eng.C16Eng
open GLua GLua.Eng GLua.NumSpec GLua.NumModel

def hexVal? (c : Char) : Option Nat :=
  if '0' ≤ c ∧ c ≤ '9' then some (c.toNat - 48)
  else if 'a' ≤ c ∧ c ≤ 'f' then some (c.toNat - 87)
  else none

def unhexAux : List Char → Option Bytes
  | [] => some []
  | [_] => none
  | a :: b :: r =>
    match hexVal? a, hexVal? b, unhexAux r with
    | some x, some y, some t => some ((x * 16 + y) :: t)
    | _, _, _ => none

/-- `s<hex>` → bytes. -/
def decS (tok : String) : Option Bytes :=
  match tok.toList with
  | 's' :: r => unhexAux r
  | _ => none

def hexDigit (n : Nat) : Char := Char.ofNat (if n < 10 then 48 + n else 87 + n)
def encS (b : Bytes) : String := "s" ++ String.ofList (b.flatMap fun c => [hexDigit (c / 16 % 16), hexDigit (c % 16)])

def decB (tok : String) : Option Nat :=
  match tok.toList with
  | 'b' :: r => (String.ofList r).toNat?
  | _ => none

def isNaNBits (bits : Nat) : Bool := bits / 2 ^ 52 % 2048 == 2047 && bits % 2 ^ 52 != 0
def isZeroBits (bits : Nat) : Bool := bits % 2 ^ 63 == 0

/-- does the double `bits` carry the value `v` (correct rounding of an exact value; sign of infinities)? -/
def carries (v : NumV) (bits : Nat) : Bool :=
  match v with
  | .exact x => roundsS true x bits
  | .inf neg => bits == (if neg then 0xFFF0000000000000 else 0x7FF0000000000000)
  | .nan => isNaNBits bits

def showV : NumV → String
  | .exact x => "num(" ++ (if x.neg then "-" else "") ++ toString x.mant ++ "e" ++ toString x.exp10 ++
      (if x.exp2 = 0 then "" else "p" ++ toString x.exp2) ++ ")"
  | .inf neg => if neg then "-inf" else "inf"
  | .nan => "nan"

/-- Model side of a reader result: `absent` is the word the implementation uses for "no number". -/
def cmpReader (m : Option NumV) (absent : String) (impl : String) : Option String :=
  match m with
  | none => if impl = absent then none else some absent
  | some v =>
    match decB impl with
    | some bits => if carries v bits then none else some (showV v)
    | none => some (showV v)

/-- Spec side of a reader result. -/
def specReader (s : Option Exact) (impl : String) : Option String :=
  match s, decB impl with
  | some x, some bits => if rounds x bits then none else some ("numeral denotes " ++ showV (.exact x))
  | some x, none => some ("numeral rejected, denotes " ++ showV (.exact x))
  | none, some _ => some "non-numeral accepted"
  | none, none => none

def tagKF (pre : Bool) (kf : String) (v : Verdict) : Verdict :=
  if pre ∧ v.model.isNone then { v with spec := v.spec.map fun r => "KF:" ++ kf ++ " " ++ r } else v

def kfNum := "C16-numeral-readers"
def kfQuote := "C16-q-go-quoting"
def kfDate := "C16-strftime-table"
def kfEsc := "C16-decimal-escape-wraps"

def stripWs (s : Bytes) : Bytes := ((s.dropWhile isLuaWs).reverse.dropWhile isLuaWs).reverse

/-- digits (values) of the mantissa without trailing zeros, and the adjusted exponent. -/
def normDigits (mant : Nat) (e10 : Int) : List Nat × Int :=
  let ds := (natDigits (mant + 1) mant).map (· - 48)
  let tz := (ds.reverse.takeWhile (· == 0)).length
  if mant = 0 then ([], 0) else (ds.take (ds.length - tz), e10 + tz)

def parseInts (l : List String) : Option (List Int) := l.mapM (·.toInt?)
def parseOptInts (l : List String) : Option (List (Option Int)) :=
  l.mapM fun w => if w = "-" then some none else w.toInt?.map some

def specCal : TimeModel.Cal := { civil := TimeSpec.fieldsOf, unix := TimeSpec.timeOf }

def showFields (f : TimeSpec.Fields) : String :=
  " ".intercalate ([f.year, f.month, f.day, f.hour, f.min, f.sec, f.wday, f.yday].map toString)

/-- does a short-string source contain a decimal escape above 255? (the known-finding class of `strlit`) -/
def hasBigEscape : Bytes → Bool
  | 92 :: 92 :: r => hasBigEscape r
  | 92 :: a :: b :: c :: r =>
    (isDec a && isDec b && isDec c && (a - 48) * 100 + (b - 48) * 10 + (c - 48) > 255) || hasBigEscape (a :: b :: c :: r)
  | _ :: r => hasBigEscape r
  | [] => false

/-! ### position independence of literal values (`pos`)

    C16 <variant> pos <loader> <pad> <head> <lit> <tail> <eof> => <value> <line>

  The chunk was `pad ++ "return " ++ head ++ lit ++ tail ++ (eof = 0: "c16_line()")`.  Neither the Spec nor the Model
  side looks at how long the padding is or through which loader the text arrived: the value is the Spec value of
  `lit` read at the head of `lit ++ tail ++ …`, the line is `1 + lineEnds (text before the observing token)`
  (Model: `1 + linesRead …`, equal by Props.C16.lines_model_refines_spec). -/

/-- text token: `s<hex>` or run-length `r<n>x<hex>+<n>x<hex>…`, as segments (count, unit). -/
def decSegs (tok : String) : Option (List (Nat × Bytes)) :=
  match tok.toList with
  | 's' :: r => (unhexAux r).map fun b => [(1, b)]
  | 'r' :: r =>
    ((String.ofList r).splitOn "+").mapM fun seg =>
      match seg.splitOn "x" with
      | [n, h] =>
        match n.toNat?, unhexAux h.toList with
        | some n, some b => some (n, b)
        | _, _ => none
      | _ => none
  | _ => none

def expandSegs (segs : List (Nat × Bytes)) : Bytes :=
  segs.flatMap fun p => (List.replicate p.1 p.2).flatten

def decT (tok : String) : Option Bytes := (decSegs tok).map expandSegs

/-- the padding as far as line ends go: a run of bytes without CR/LF ends no line and separates the line ends
    around it exactly like one blank, so 8 KB of blanks are not materialised. -/
def padForLines (segs : List (Nat × Bytes)) : Bytes :=
  segs.flatMap fun p =>
    if p.2.any QuoteSpec.isNl then (List.replicate p.1 p.2).flatten
    else if p.1 = 0 ∨ p.2 = [] then [] else [32]

def posSuffix : Bytes := TimeSpec.str "c16_line()"

/-- characters Lua's read_numeral runs over (alphanumerics, `_`, `.`): a numeral must not be followed by one. -/
def isNumeralCh (c : Nat) : Bool := isIdentCh c || c == 46

/-- the texts llex.c read_numeral reads as ONE token whatever they are: digits and dots, then (after `e`/`E`) one
    sign, then alphanumerics, `_` (and dots: a second token that cannot follow a number). -/
def malformedNumeral (lit : Bytes) : Bool :=
  match lit.dropWhile (fun c => isDec c || c == 46) with
  | e :: s :: r => if (e == 101 || e == 69) && (s == 43 || s == 45) then r.all isNumeralCh else (e :: s :: r).all isNumeralCh
  | r => r.all isNumeralCh

/-- what a literal at the head of `lit ++ after` must evaluate to. -/
inductive PosExp where
  | bad                 -- ill-formed probe (harness error)
  | noClaim
  | err                 -- the chunk must be rejected
  | str (b : Bytes)     -- a string with these bytes
  | num (x : Exact)     -- the double nearest to x
  | numV (v : NumV) (t : Bytes)  -- Model: the token text and the constant loaded for it

def showTail (b : Bytes) : String :=
  toString b.length ++ " bytes" ++ (if b.length ≤ 24 then " " ++ encS b else " …" ++ (encS (b.drop (b.length - 12))).drop 1)

def posSpec (lit after : Bytes) : PosExp :=
  match lit with
  | [] => .bad
  | c :: r =>
    if c = 34 ∨ c = 39 ∨ c = 91 then
      match QuoteSpec.literalPrefix (lit ++ after) with
      | some (b, rest) => if rest = after then .str b else .bad
      | none => .err
    else if isDec c ∨ (c = 46 ∧ (r.head?.map isDec).getD false) then
      if (after.head?.map isNumeralCh).getD false then .bad
      else match NumSpec.literal lit with
        | some x => .num x
        | none => if malformedNumeral lit then .err else .bad   -- read_numeral takes all of it and cannot convert it
    else .bad

/-- Model side: the transcribed scanner on the same text (short strings and numerals; long brackets: Spec only).
    `big` = the literal was sent in run-length form (the transcription's `buf ++ [c]` is quadratic: not replayed). -/
def posModel (pre big : Bool) (lit after : Bytes) : PosExp :=
  if big then .noClaim else
  match lit with
  | [] => .bad
  | q :: body =>
    if q = 34 ∨ q = 39 then
      match QuoteModel.scanString pre q (body.length + after.length + 1) (body ++ after) [] with
      | some (b, rest) => if rest = after then .str b else .noClaim
      | none => .err
    else if q = 91 then .noClaim
    else
      match lexNumber (if pre then Pre.scanNumber else scanNumber) (lit ++ after) with
      | .notnum => .bad
      | .err => .err
      | .tok t rest => if rest = after then .numV (literalValue (if pre then Pre.parseNumber else parseNumber) t) t else .noClaim

/-- compare an expectation with the implementation's value word; `scan` = the bare-scanner loader, whose value for a
    numeral is the token text. -/
def posCmp (scan : Bool) (lit : Bytes) (e : PosExp) (res : String) : Option String :=
  match e with
  | .bad => some "bad-probe"
  | .noClaim => none
  | .err => if res = "err" then none else some "err"
  | .str b => if decT res = some b then none else some ("string of " ++ showTail b)
  | .num x =>
    if scan then (if decT res = some lit then none else some ("token " ++ encS lit))
    else (match decB res with
      | some bits => if rounds x bits then none else some (showV (.exact x))
      | none => some (showV (.exact x)))
  | .numV v t =>
    if scan then (if decT res = some t then none else some ("token " ++ encS t))
    else (match decB res with
      | some bits => if carries v bits then none else some (showV v)
      | none => some (showV v))

def handlePos (pre : Bool) (loader pad head lit tail eof res line : String) : Verdict :=
  match decSegs pad, decT head, decT lit, decT tail with
  | some padS, some headB, some litB, some tailB =>
    let after := tailB ++ (if eof = "1" then [] else posSuffix)
    let scan := loader.startsWith "sc"
    let big := lit.startsWith "r"
    let sp := posSpec litB after
    let before : Bytes := padForLines padS ++ (TimeSpec.str "return " ++ (headB ++ (litB ++ tailB)))
    let expLine : Nat := 1 + QuoteSpec.lineEnds before
    let modelLine : Nat := 1 + QuoteModel.linesRead before.length before   -- Scanner.Next/Newline's counter
    let specVal := posCmp scan litB sp res
    let specLine : Option String :=
      match sp with
      | .str _ | .num _ =>
        if eof = "1" then (if line = "-" then none else some "bad-probe")
        else if line = toString expLine then none else some ("line " ++ toString expLine)
      | _ => none
    let spec : Option String :=
      match specVal, specLine with
      | none, none => none
      | some v, none => some ("wherever it stands, the literal denotes " ++ v)
      | none, some l => some ("the token after the literal stands on " ++ l)
      | some v, some l => some ("wherever it stands, the literal denotes " ++ v ++ "; next token on " ++ l)
    let pm := posModel pre big litB after
    let model := match posCmp scan litB pm res with
      | some m => some m
      | none =>
        match pm with
        | .str _ | .numV _ _ => if eof = "1" ∨ line = toString modelLine then none else some ("line " ++ toString modelLine)
        | _ => none
    let v : Verdict := { model := model, spec := spec }
    match litB with
    | c :: _ =>
      if c = 34 ∨ c = 39 ∨ c = 91 then
        (if pre ∧ v.model.isNone ∧ hasBigEscape litB then { v with spec := v.spec.map fun r => "KF:" ++ kfEsc ++ " " ++ r } else v)
      else tagKF pre kfNum v
    | [] => v
  | _, _, _, _ => { model := some "bad-arg" }

def handle (ws : List String) : Verdict :=
  let (args, impl) := splitArrow ws
  match args with
  | variant :: op :: rest =>
    let pre := variant == "pre"
    let parse := if pre then Pre.parseNumber else parseNumber
    let scan := if pre then Pre.scanNumber else scanNumber
    match op, rest, impl with
    -- ---------- numerals ----------
    | "lit", [s], [kind, tok, res] =>
      match decS s with
      | none => { model := some "bad-arg" }
      | some s =>
        let model : Option String :=
          match lexNumber scan s with
          | .notnum => if kind = "notnum" then none else some "notnum"
          | .err => if kind = "lexerr" ∧ res = "err" then none else some "lexerr - err"
          | .tok t rest =>
            if rest.all isLuaWs then
              let v := literalValue parse t
              let okv : Bool := match decB res with | some b => carries v b | none => false
              if kind = "one" ∧ tok = encS t ∧ okv
              then none else some ("one " ++ encS t ++ " " ++ showV v)
            else if kind = "many" ∧ tok = encS t then none else some ("many " ++ encS t)
        let spec : Option String :=
          match NumSpec.literal (stripWs s) with
          | some x =>
            (match kind, decB res with
             | "one", some b => if rounds x b then none else some ("literal denotes " ++ showV (.exact x))
             | _, _ => some ("numeral literal not read as one number, denotes " ++ showV (.exact x)))
          | none => if kind = "one" ∧ (decB res).isSome then some "non-numeral read as one number token" else none
        tagKF pre kfNum { model := model, spec := spec }
    | "ton", [s], [r] =>
      match decS s with
      | none => { model := some "bad-arg" }
      | some s =>
        let m : Option NumV := if pre then Pre.baseToNumber none s else
          match baseToNumber none s with | .val v => v | .argError => none
        tagKF pre kfNum { model := cmpReader m "nil" r, spec := specReader (NumSpec.numeral s) r }
    | "coerce", [s], [r] =>
      match decS s with
      | none => { model := some "bad-arg" }
      | some s => tagKF pre kfNum { model := cmpReader (parse s) "err" r, spec := specReader (NumSpec.numeral s) r }
    | "tonb", [b, s], [r] =>
      match decS s, b.toNat? with
      | some s, some b =>
        if pre then
          let inRange := b = 0 ∨ (2 ≤ b ∧ b ≤ 36)
          let m := if inRange then Pre.baseToNumber (some b) s else none
          let spec := if 2 ≤ b ∧ b ≤ 36 then specReader (NumSpec.numeralBase b s) r
                      else if r = "argerr" then none else some "base out of range accepted"
          tagKF pre kfNum { model := cmpReader m "nil" r, spec := spec }
        else
          match baseToNumber (some b) s with
          | .argError =>
            { model := if r = "argerr" then none else some "argerr",
              spec := if 2 ≤ b ∧ b ≤ 36 then some "valid base rejected" else if r = "argerr" then none else some "base out of range accepted" }
          | .val m =>
            { model := cmpReader m "nil" r,
              spec := if 2 ≤ b ∧ b ≤ 36 then specReader (NumSpec.numeralBase b s) r else some "base out of range accepted" }
      | _, _ => { model := some "bad-arg" }
    | "tostr", [x], [out] =>
      match decB x, decS out with
      | some bits, some o =>
        let model : Option String :=
          match stringBranch bits with
          | .nan => if o = TimeSpec.str "NaN" then none else some "NaN"
          | .inf neg => if o = TimeSpec.str (if neg then "-Inf" else "+Inf") then none else some "Inf"
          | .int i => if o = formatInt i then none else some (encS (formatInt i))
          | .float neg =>
            -- shortest digits are trusted to strconv: recover them from the output, re-render with the layout
            -- model, and check that they do read back to x
            let body := if neg then o.drop 1 else o
            match NumSpec.decimal body with
            | none => some "float-branch output is not a decimal"
            | some (mant, e10) =>
              let (ds, e) := normDigits mant e10
              let dp : Int := (ds.length : Int) + e
              if (neg ∧ o.head? ≠ some 45) then some "sign"
              else if fmtG neg ds dp ≠ o then some (encS (fmtG neg ds dp))
              else if !rounds { neg := neg, mant := mant, exp10 := e10 } bits then some "digits do not read back"
              else none
        let spec : Option String :=
          if !isFiniteBits bits then none else
          match NumSpec.numeral o with
          | none => some "tostring output is not a numeral"
          | some v =>
            if !(rounds v bits ∨ (isZeroBits bits ∧ v.mant = 0)) then some "tostring output denotes another number"
            else match bitsToInt? bits with
              | some i => if i.natAbs < 2 ^ 53 ∧ o ≠ plainInt i then some "integral value not printed as plain digits" else none
              | none => none
        tagKF pre kfNum { model := model, spec := spec }
      | _, _ => { model := some "bad-arg" }
    | "rt", [x], [r] =>
      match decB x with
      | some bits =>
        let spec : Option String :=
          if !isFiniteBits bits then none else
          match decB r with
          | some b2 => if b2 = bits ∨ (isZeroBits bits ∧ isZeroBits b2) then none else some "tonumber(tostring(x)) ~= x"
          | none => some "tonumber(tostring(x)) = nil"
        -- the Model side of this composition is checked by the `tostr` and `ton` requests sent with it
        { spec := if pre then spec.map (fun r => "KF:" ++ kfNum ++ " " ++ r) else spec }
      | none => { model := some "bad-arg" }
    -- ---------- quoting / string literals ----------
    | "q", [s], [quoted, back] =>
      match decS s, decS quoted with
      | some s, some qd =>
        let mq : Option Bytes := if pre then QuoteModel.Pre.goQuote s else some (QuoteModel.formatQ s)
        let mback := match QuoteModel.readBack qd with | some b => encS b | none => "err"
        let model : Option String :=
          match mq with
          | some m => if m ≠ qd then some (encS m) else if back ≠ mback then some ("back=" ++ mback) else none
          | none => if back ≠ mback then some ("back=" ++ mback) else none
        let spec : Option String :=
          if QuoteSpec.literal qd ≠ some s then some "the quoted form does not denote the string"
          else if back ≠ encS s then some "reading the quoted form back does not yield the string"
          else none
        tagKF pre kfQuote { model := model, spec := spec }
      | _, _ => { model := some "bad-arg" }
    | "strlit", [src], [r] =>
      match decS src with
      | some src =>
        -- white space after the literal is not part of it; anything else after it: the Spec makes no claim
        let sres := match QuoteSpec.literalPrefix src with
          | some (b, rest) => if rest.all isLuaWs then encS b else r
          | none => "err"
        let model : Option String :=
          match src with
          | q :: body =>
            if q = 34 ∨ q = 39 then
              let m := match QuoteModel.scanString pre q (body.length + 1) body [] with
                | some (b, rest) => if rest.all isLuaWs then encS b else "?"
                | none => "err"
              if m = "?" ∨ m = r then none else some m
            else none
          | [] => none
        let v : Verdict := { model := model, spec := if r = sres then none else some ("literal denotes " ++ sres) }
        if pre ∧ v.model.isNone ∧ hasBigEscape src then { v with spec := v.spec.map fun r => "KF:" ++ kfEsc ++ " " ++ r } else v
      | none => { model := some "bad-arg" }
    -- ---------- literals at any position of the chunk, through any loader ----------
    | "pos", [loader, pad, head, lit, tail, eof], [res, line] => handlePos pre loader pad head lit tail eof res line
    -- ---------- time ----------
    | "date", [t], fs =>
      match t.toInt? with
      | some t =>
        let m := TimeModel.osDateTable specCal t
        let m := if pre then { m with yday := 0 } else m
        tagKF pre kfDate { model := cmpModel (showFields m) fs,
                           spec := if " ".intercalate fs = showFields (TimeSpec.fieldsOf t) then none
                                   else some ("fields " ++ showFields (TimeSpec.fieldsOf t)) }
      | none => { model := some "bad-arg" }
    | "time", fs, [r] =>
      match parseOptInts fs with
      | some [y, mo, d, h, mi, s] =>
        let m := TimeModel.osTime specCal y mo d h mi s
        let sp := match y, mo, d with
          | some y, some mo, some d => some (TimeSpec.timeOf y mo d (h.getD 12) (mi.getD 0) (s.getD 0))
          | _, _, _ => none
        { model := cmpModel (toString m) [r],
          spec := match sp with
            | some v => if toString v = r then none else some ("time " ++ toString v)
            | none => none }
      | _ => { model := some "bad-arg" }
    | "trt", [t], [r] =>
      { spec := if t = r then none else some "os.time(os.date('*t', t)) ~= t" }
    | "fmt", [t, f], [out] =>
      match t.toInt?, decS f with
      | some t, some f =>
        let fields := TimeModel.osDateTable specCal t
        let model := match TimeModel.strftime fields f with
          | some b => if encS b = out then none else some (encS b)
          | none => some "unmodelled-layout"
        let spec := match TimeSpec.strftime (TimeSpec.fieldsOf t) f with
          | some b => if encS b = out then none else some ("strftime " ++ encS b)
          | none => none
        tagKF pre kfDate { model := model, spec := spec }
      | _, _ => { model := some "bad-arg" }
    | _, _, _ => { model := some "bad-op" }
  | _ => { model := some "bad-op" }

end GLua.Eng.C16Eng
