/-
  Driver engine part `C02M cc …` (compile-time half of C02): the real compiler's code for a generated call shape
  is compared WORD FOR WORD with `Model.CallCompile.compMain` (+ `patchMoven`), together with the constant pool,
  `NumUsedRegisters` and `IsVarArg`; then the model's code is executed by the machine of Model/CallCompile on a
  canonical environment and the outcome (returned values, call log, globals, table store logs) is compared with
  the Spec evaluation `CallShapes.execChunk` of the same shape.

  request:  cc <nvarargs> <nstmts> <stmt>* => ok <nur> <isVarArg> <nK> <const>* <nwords> <word>*   |   err
  stmt:     callst <ex> | ret <n> <ex>* | local <n> <m> <ex>* | assign <k> <target>* <m> <ex>*
  ex:       n<int> | s<hex> | nil | T | F | l<reg> | g<hex> | dots <p> | call <p> <nargs> <fn> <arg>* |
            mcall <p> <hexname> <nargs> <recv> <arg>* | tbl <nfields> (<key> <ex>)*       key: - | kn<int> | ks<hex>
  target:   g<hex> | l<reg>
-/
import GLua.Engines.Common
import GLua.Model.CallCompile

namespace GLua.Eng.CallCompileEng
open GLua GLua.Eng GLua.CallFrame GLua.CallShapes GLua.CallCompile

/-! ### parsing -/

def parseAtom (t : String) : Option Atom :=
  if t = "nil" then some .nil
  else if t = "T" then some .tru
  else if t = "F" then some .fls
  else
    let rest := (t.drop 1).toString
    match t.front with
    | 'n' => rest.toInt?.map .num
    | 's' => some (.str rest)
    | 'l' => rest.toNat?.map .loc
    | 'g' => some (.glob rest)
    | _ => none

def parseKey (t : String) : Option (Option Key) :=
  if t = "-" then some none
  else if t.startsWith "kn" then ((t.drop 2).toString.toInt?).map (fun n => some (.num n))
  else if t.startsWith "ks" then some (some (.str (t.drop 2).toString))
  else none

def parseBool (t : String) : Option Bool := if t = "1" then some true else if t = "0" then some false else none

mutual
def parseEx : Nat → List String → Option (Ex × List String)
  | 0, _ => none
  | fuel + 1, ws =>
    match ws with
    | [] => none
    | "dots" :: p :: r => (parseBool p).map (fun p => (.dots p, r))
    | "call" :: p :: n :: r => do
      let p ← parseBool p; let n ← n.toNat?
      let (f, r1) ← parseEx fuel r
      let (args, r2) ← parseExs fuel n r1
      pure (.call p f args, r2)
    | "mcall" :: p :: m :: n :: r => do
      let p ← parseBool p; let n ← n.toNat?
      let (recv, r1) ← parseEx fuel r
      let (args, r2) ← parseExs fuel n r1
      pure (.mcall p recv m args, r2)
    | "tbl" :: n :: r => do
      let n ← n.toNat?
      let (kv, r1) ← parseFields fuel n r
      pure (.tbl (kv.map (·.1)) (kv.map (·.2)), r1)
    | t :: r => (parseAtom t).map (fun a => (.atom a, r))
def parseExs : Nat → Nat → List String → Option (List Ex × List String)
  | 0, _, _ => none
  | _ + 1, 0, ws => some ([], ws)
  | fuel + 1, n + 1, ws => do
    let (e, r) ← parseEx fuel ws
    let (es, r') ← parseExs fuel n r
    pure (e :: es, r')
def parseFields : Nat → Nat → List String → Option (List (Option Key × Ex) × List String)
  | 0, _, _ => none
  | _ + 1, 0, ws => some ([], ws)
  | fuel + 1, n + 1, ws =>
    match ws with
    | k :: r => do
      let k ← parseKey k
      let (e, r1) ← parseEx fuel r
      let (fs, r2) ← parseFields fuel n r1
      pure ((k, e) :: fs, r2)
    | [] => none
end

def parseTargets : Nat → List String → Option (List Target × List String)
  | 0, ws => some ([], ws)
  | n + 1, t :: r => do
    let tg ← (if t.startsWith "g" then some (Target.glob (t.drop 1).toString)
              else if t.startsWith "l" then ((t.drop 1).toString.toNat?).map Target.loc else none)
    let (ts, r') ← parseTargets n r
    pure (tg :: ts, r')
  | _ + 1, [] => none

def parseStmt (fuel : Nat) : List String → Option (Stmt × List String)
  | "callst" :: r => (parseEx fuel r).map (fun p => (.callst p.1, p.2))
  | "ret" :: n :: r => do
    let n ← n.toNat?
    let (es, r') ← parseExs fuel n r
    pure (.ret es, r')
  | "local" :: n :: m :: r => do
    let n ← n.toNat?; let m ← m.toNat?
    let (es, r') ← parseExs fuel m r
    pure (.localDecl n es, r')
  | "assign" :: k :: r => do
    let k ← k.toNat?
    let (ts, r1) ← parseTargets k r
    match r1 with
    | m :: r2 =>
      let m ← m.toNat?
      let (es, r3) ← parseExs fuel m r2
      pure (.assign ts es, r3)
    | [] => none
  | _ => none

def parseStmts (fuel : Nat) : Nat → List String → Option (List Stmt × List String)
  | 0, ws => some ([], ws)
  | n + 1, ws => do
    let (s, r) ← parseStmt fuel ws
    let (ss, r') ← parseStmts fuel n r
    pure (s :: ss, r')

/-! ### encoding (opcode.go: `op<<26 | A<<18 | C<<9 | B`, `op<<26 | A<<18 | Bx`) -/

def wABC (op a b c : Nat) : Nat := op * 67108864 + a * 262144 + c * 512 + b
def wABx (op a bx : Nat) : Nat := op * 67108864 + a * 262144 + bx

/-- the code words of an instruction (operands masked first, as `AddABC` does). -/
def words (i : Instr) : List Nat :=
  match i.mask with
  | .loadk a bx => [wABx Generated.OP_LOADK a bx]
  | .loadnil a b => [wABC Generated.OP_LOADNIL a b 0]
  | .loadbool a b c => [wABC Generated.OP_LOADBOOL a b c]
  | .move a b => [wABC Generated.OP_MOVE a b 0]
  | .moven a b c => [wABC Generated.OP_MOVEN a b c]
  | .getglobal a bx => [wABx Generated.OP_GETGLOBAL a bx]
  | .setglobal a bx => [wABx Generated.OP_SETGLOBAL a bx]
  | .call a b c => [wABC Generated.OP_CALL a b c]
  | .tailcall a b c => [wABC Generated.OP_TAILCALL a b c]
  | .ret a b => [wABC Generated.OP_RETURN a b 0]
  | .vararg a b => [wABC Generated.OP_VARARG a b 0]
  | .self a b c => [wABC Generated.OP_SELF a b c]
  | .newtable a b c => [wABC Generated.OP_NEWTABLE a b c]
  | .setlist a b c e => wABC Generated.OP_SETLIST a b c :: (match e with | some w => [w] | none => [])
  | .settable a b c => [wABC Generated.OP_SETTABLE a b c]
  | .settableks a b c => [wABC Generated.OP_SETTABLEKS a b c]

def showKonst : Konst → String
  | .num n => "i" ++ toString n
  | .str s => "s" ++ s

/-! ### canonical environment for the Model-vs-Spec run -/

structure EW where
  glob : List (String × OVal) := []
  calls : List (OVal × List OVal × List OVal) := []
deriving DecidableEq, Repr

def lookup (l : List (String × OVal)) (g : String) : Option OVal :=
  match l with
  | [] => none
  | (k, v) :: r => if k = g then some v else lookup r g

def setAssoc (l : List (String × OVal)) (g : String) (v : OVal) : List (String × OVal) :=
  match l with
  | [] => [(g, v)]
  | (k, v') :: r => if k = g then (k, v) :: r else (k, v') :: setAssoc r g v

/-- a global never assigned holds a string naming it; names `f<d>…` (hex 66 3d) are the callables of `infoOf`. -/
def egetGlobal (w : EW) (g : String) : OVal := (lookup w.glob g).getD (some (.str g))

/-- the callee kind is read off the function value: strings `f0…` host, `f1` Lua() , `f2` Lua(a), `f3` Lua(a,b,...) with
    `arg`, `f4` Lua(...), `f5` Lua(a,b,c); everything else is some host callable. -/
def infoOf (fv : OVal) : FnInfo :=
  match fv with
  | some (.str s) =>
    if s.startsWith "6631" then { id := 1, np := 0, isVarArg := 0, nur := 2 }
    else if s.startsWith "6632" then { id := 2, np := 1, isVarArg := 0, nur := 3 }
    else if s.startsWith "6633" then { id := 3, np := 2, isVarArg := 7, nur := 5 }
    else if s.startsWith "6634" then { id := 4, np := 0, isVarArg := 3, nur := 2 }
    else if s.startsWith "6635" then { id := 5, np := 3, isVarArg := 0, nur := 6 }
    else { id := 0, isG := true }
  | _ => { id := 0, isG := true }

def esem (fv : OVal) (params extra : List OVal) (w : EW) : List OVal × EW :=
  let all := params ++ extra
  let pool : List OVal := [some (.int w.calls.length)] ++ all ++ [none, some (.int 77)]
  let n := (w.calls.length * 7 + all.length * 3 + 1) % 5
  (if n = 4 then pool else pool.take n, { w with calls := w.calls ++ [(fv, params, extra)] })

def setRegs (r : Reg) (a : Nat) : List OVal → Reg
  | [] => r
  | v :: vs => setRegs (r.set a (some v)) (a + 1) vs

def pushAll (r : Reg) : List OVal → Reg
  | [] => r
  | v :: vs => pushAll (r.push (some v)) vs

/-- a Lua body: leaves its results in the registers from its second one; even result counts return with a counted
    OP_RETURN (B = n+1), odd ones with an open one (B = 0, top just above the values). -/
def eluaBody (s1 : St) (res : List OVal) : St × Nat × Nat :=
  match s1.stack with
  | [] => (s1, 0, 1)
  | cf :: _ =>
    let r1 := setRegs s1.reg (cf.localBase + 1) res
    if res.length % 2 = 0 then ({ s1 with reg := r1 }, 1, res.length + 1)
    else ({ s1 with reg := r1.setTop (cf.localBase + 1 + res.length) }, 1, 0)

/-- a host body: pushes a junk value, then its results. -/
def egoBody (s1 : St) (res : List OVal) : St := { s1 with reg := pushAll (s1.reg.push (some (some (.int 555)))) res }

def eenv : MEnv EW :=
  { getGlobal := egetGlobal,
    setGlobal := fun w g v => { w with glob := setAssoc w.glob g v },
    index := fun _ name _ => some (.str ("663" ++ toString (name.length / 2 % 6))),
    info := infoOf, sem := esem, luaBody := eluaBody, goBody := egoBody }

/-- the main chunk's activation as `initCallFrame` sets it up for `nva` extra arguments `10, nil, 30, …`. -/
def mainVarargs (nva : Nat) : List OVal := (List.range nva).map (fun (i : Nat) => if i % 3 = 1 then none else some (.int ((10 * (i + 1) : Nat) : Int)))

def initState (nva isVarArg nur : Nat) : MS EW :=
  let args := mainVarargs nva
  let r0 := pushAll { arr := fun _ => goNil, top := 0 } (some (.str "6d61696e") :: args)
  let cf0 : Frame := { fn := { id := 99, np := 0, isVarArg := isVarArg, nur := nur }, base := 0, localBase := 1,
                       returnBase := 0, nargs := nva, nret := none }
  let p := initCallFrame r0 cf0 9999
  { st := { reg := p.1, stack := [p.2.1] }, w := {}, heap := [] }

def showVals (l : List OVal) : String := " ".intercalate (l.map OVal.show)

def showOutcome (vals : List OVal) (w : EW) (heap : List TLog) : String :=
  s!"ret[{showVals vals}] calls={w.calls.length} " ++
  " ".intercalate (w.calls.map (fun c => s!"({OVal.show c.1}|{showVals c.2.1}|{showVals c.2.2})")) ++
  " glob[" ++ " ".intercalate (w.glob.map (fun p => p.1 ++ "=" ++ OVal.show p.2)) ++ "] heap[" ++
  " ".intercalate (heap.map (fun t => "{" ++ " ".intercalate (t.arr.map (fun p => s!"{p.1}={OVal.show p.2}")) ++ ";" ++
    " ".intercalate (t.keyed.map (fun p => s!"{OVal.show p.1}={OVal.show p.2}")) ++ "}")) ++ "]"

/-- Model (machine on the model's code) against Spec (reference evaluation) on the canonical environment. -/
def modelVsSpec (chunk : List Stmt) (nva : Nat) (code : List Instr) (cs : CState) : Option String :=
  let specOut := execChunk (eenv.toSEnv (mainVarargs nva)) chunk
    { loc := fun _ => none, nloc := 0, σ := { w := {}, heap := [] } }
  let spec := showOutcome specOut.1 specOut.2.w specOut.2.heap
  match exec eenv cs.consts code (initState nva cs.isVarArg (numUsedRegs code)) with
  | .error e => some ("machine stops: " ++ e.show ++ " ; spec: " ++ spec)
  | .ok s' =>
    if !s'.done ∨ !s'.st.stack.isEmpty then some "machine did not return"
    else
      match slotsVals (s'.st.reg.window 0 s'.st.reg.top) with
      | none => some "machine returned a Go nil"
      | some vals =>
        let m := showOutcome vals s'.w s'.heap
        if m = spec then none else some ("machine: " ++ m ++ " ; spec: " ++ spec)

def handleCC (lhs impl : List String) : Verdict :=
  match lhs with
  | nva :: n :: rest =>
    match nva.toNat?, n.toNat? with
    | some nva, some n =>
      match parseStmts (rest.length + 2) n rest with
      | some (chunk, []) =>
        let p := compMain chunk
        let code := patchMoven p.1
        let cs := p.2
        let nur := numUsedRegs code
        let failed := cs.err.isSome ∨ nur > maxRegisters
        let ws := code.flatMap words
        let exp :=
          if failed then "err"
          else s!"ok {nur} {cs.isVarArg} {cs.consts.length} " ++ " ".intercalate (cs.consts.map showKonst) ++
               (if cs.consts.isEmpty then "" else " ") ++ s!"{ws.length} " ++ " ".intercalate (ws.map toString)
        { model := cmpModel exp impl,
          spec := if failed then none
                  else if ¬ Fits p.1 then some "model emits an operand that does not fit its field, yet no compile error"
                  else if p.1.length > 4000 then none      -- (the function-valued registry makes the run quadratic)
                  else modelVsSpec chunk nva p.1 cs }
      | _ => { model := some "bad-shape" }
    | _, _ => { model := some "bad-op" }
  | _ => { model := some "bad-op" }

end GLua.Eng.CallCompileEng
