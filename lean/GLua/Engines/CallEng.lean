/-
  Driver engine `C02M` (mechanism of C02): replays
    * registry operation sequences (`r…` requests, stateful) on `Model.CallFrame.Reg`,
    * single VM / API steps (`step …`, stateless: each request carries the observed pre-state) on the models of
      OP_CALL / OP_TAILCALL / OP_RETURN / OP_VARARG / OP_SETLIST / OP_SELF / callR / callGFunction,
    * API-level calls (`api …`) on the Spec (`Adjust.bind` / `Adjust.adjust`),
    * `select` / `unpack` index arithmetic and the SETLIST flush plan of `compileTableExpr` on Model and Spec.
-/
import GLua.Engines.Common
import GLua.Model.CallFrame
import GLua.Spec.Adjust
import GLua.Engines.CallCompileEng

namespace GLua.Eng.CallEng
open GLua GLua.Eng GLua.CallFrame GLua.Adjust

structure EState where
  reg : Reg := Reg.empty

def parseSlot (s : String) : Option Slot :=
  if s = "GONIL" then some none else (parseVal s).map some

def showSlot : Slot → String
  | none => "GONIL"
  | some v => OVal.show v

def parseSlots : List String → Option (List Slot)
  | [] => some []
  | s :: r => do let a ← parseSlot s; let b ← parseSlots r; pure (a :: b)

def parseVals : List String → Option (List OVal)
  | [] => some []
  | s :: r => do let a ← parseVal s; let b ← parseVals r; pure (a :: b)

def showVals (l : List OVal) : String := " ".intercalate (l.map OVal.show)

def regOfSlots (l : List Slot) (top : Nat) : Reg := { arr := fun i => (l[i]?).getD goNil, top := top }

def showReg (r : Reg) (n : Nat) : String :=
  toString r.top ++ " " ++ " ".intercalate ((r.window 0 n).map showSlot)

def parseNRet (s : String) : Option (Option Nat) :=
  match s.toInt? with
  | some i => if i < 0 then some none else some (some i.toNat)
  | none => none

def showNRet : Option Nat → String
  | none => "-1"
  | some n => toString n

/-- function info: `<id> <isG 0/1> <np> <isVarArg> <nur>` -/
def parseFn : List String → Option (FnInfo × List String)
  | id :: g :: np :: iva :: nur :: r => do
    let id ← id.toNat?; let np ← np.toNat?; let iva ← iva.toNat?; let nur ← nur.toNat?
    pure ({ id := id, isG := g = "1", np := np, isVarArg := iva, nur := nur }, r)
  | _ => none

/-- frame: `<fn…5> <base> <lbase> <rbase> <nargs> <nret> <tailcall>` -/
def parseFrame (ws : List String) : Option (Frame × List String) := do
  let (fn, r) ← parseFn ws
  match r with
  | b :: lb :: rb :: na :: nr :: tc :: r' =>
    let b ← b.toNat?; let lb ← lb.toNat?; let rb ← rb.toNat?; let na ← na.toNat?; let nr ← parseNRet nr; let tc ← tc.toNat?
    pure ({ fn := fn, base := b, localBase := lb, returnBase := rb, nargs := na, nret := nr, tailCall := tc }, r')
  | _ => none

def showFrame (f : Frame) : String :=
  s!"{f.fn.id} {if f.fn.isG then 1 else 0} {f.fn.np} {f.fn.isVarArg} {f.fn.nur} {f.base} {f.localBase} {f.returnBase} {f.nargs} {showNRet f.nret} {f.tailCall}"

def parseFrames : Nat → List String → Option (List Frame × List String)
  | 0, ws => some ([], ws)
  | k + 1, ws => do
    let (f, r) ← parseFrame ws
    let (fs, r') ← parseFrames k r
    pure (f :: fs, r')

/-- observed interpreter state: `sp <n> max <m> nf <k> frame*k top <t> nr <m> slot*m [AT id n k item*k]` -/
structure PState where
  sp : Nat
  max : Nat
  frames : List Frame
  top : Nat
  slots : List Slot
  argTbl : Option (Nat × Nat × List Slot) := none

def parseState (ws : List String) : Option PState :=
  match ws with
  | "sp" :: sp :: "max" :: mx :: "nf" :: k :: r => do
    let sp ← sp.toNat?; let mx ← mx.toNat?; let k ← k.toNat?
    let (fs, r) ← parseFrames k r
    match r with
    | "top" :: t :: "nr" :: m :: r' => do
      let t ← t.toNat?; let m ← m.toNat?
      let sl ← parseSlots (r'.take m)
      let rest := r'.drop m
      let atb ← (match rest with
        | [] => some none
        | "AT" :: id :: n :: k :: items => do
          let id ← ((id.drop 1).toString).toNat?; let n ← n.toNat?; let k ← k.toNat?
          let its ← parseSlots (items.take k)
          pure (some (id, n, its))
        | _ => none : Option (Option (Nat × Nat × List Slot)))
      pure { sp := sp, max := mx, frames := fs, top := t, slots := sl, argTbl := atb }
    | _ => none
  | _ => none

def PState.toSt (p : PState) : St :=
  { reg := regOfSlots p.slots p.top, stack := p.frames, maxSp := p.max - (p.sp - p.frames.length) }

/-- compare the model's post-state with the observed one: `sp`, `top`, every observed slot, the observed frames
    (as far as the model knows them) and the `arg` table. `none` = equal. -/
def diffState (pre post : PState) (m : St) (atb : Option ArgTbl) : Option String :=
  let expSp := pre.sp + m.stack.length - pre.frames.length
  if expSp ≠ post.sp then some s!"sp={expSp}"
  else if m.reg.top ≠ post.top then some s!"top={m.reg.top}"
  else
    let n := post.slots.length
    let bad := (List.range n).filter (fun i => m.reg.arr i ≠ (post.slots[i]?).getD goNil)
    match bad with
    | i :: _ => some s!"slot[{i}]={showSlot (m.reg.arr i)}"
    | [] =>
      let k := min m.stack.length post.frames.length
      if m.stack.take k ≠ post.frames.take k then
        some ("frames=" ++ " | ".intercalate ((m.stack.take k).map showFrame))
      else
        match atb, post.argTbl with
        | none, none => none
        | some a, some (id, n, items) =>
          if a.id = id ∧ a.n = n ∧ a.items = items then none
          else some s!"argtbl n={a.n} items={" ".intercalate (a.items.map showSlot)}"
        | some a, none => some s!"argtbl-expected n={a.n}"
        | none, some _ => some "no-argtbl-expected"

def splitBar (ws : List String) : List String × List String :=
  match ws.span (· ≠ "|") with
  | (a, []) => (a, [])
  | (a, _ :: b) => (a, b)

def errShow (e : Err) : String := e.show

/-- the allocation oracle for the `arg` table: the id the implementation's new table got on the wire. -/
def argIdOf (post : PState) : Nat := match post.argTbl with | some (id, _, _) => id | none => 0

def nat? (s : String) : Option Nat := s.toNat?

/-- a stateless step request: `<kind> params… | pre-state => post-state` (or `=> err <class>`). -/
def handleStep (params pre impl : List String) : Verdict :=
  match parseState pre with
  | none => { model := some "bad-pre-state" }
  | some p =>
    let s := p.toSt
    let finish (res : Except Err (St × Option ArgTbl)) : Verdict :=
      match res, impl with
      | .error _, "err" :: _ => ok
      | .error e, _ => { model := some ("err " ++ errShow e) }
      | .ok _, "err" :: _ => { model := some "no-error-expected" }
      | .ok (m, atb), _ =>
        match parseState impl with
        | none => { model := some "bad-post-state" }
        | some q => { model := diffState p q m atb }
    let postArgId : Nat := match parseState impl with | some q => argIdOf q | none => 0
    match params with
    | ["call", a, b, c, isMeta, fnNil, f1, f2, f3, f4, f5] =>
      match nat? a, nat? b, nat? c, parseFn [f1, f2, f3, f4, f5] with
      | some a, some b, some c, some (fn, _) => finish (opCall s a b c fn (isMeta = "1") (fnNil = "1") postArgId)
      | _, _, _, _ => { model := some "bad-step" }
    | ["tcall", a, b, isMeta, f1, f2, f3, f4, f5] =>
      match nat? a, nat? b, parseFn [f1, f2, f3, f4, f5] with
      | some a, some b, some (fn, _) =>
        if fn.isG then finish ((opTailCallG s a b fn (isMeta = "1")).map (fun m => (m, none)))
        else finish (opTailCallLua s a b fn (isMeta = "1") postArgId)
      | _, _, _ => { model := some "bad-step" }
    | ["gret", n, tail] =>
      match nat? n with
      | some n => finish ((gReturn s n (tail = "1")).map (fun m => (m, none)))
      | none => { model := some "bad-step" }
    | ["gretfin", n, rbase, nret] =>
      -- host callee reached through callR (Go API): callGFunction's return half, then the tail of callR
      match nat? n, nat? rbase, parseNRet nret with
      | some n, some rb, some nr =>
        finish ((gReturn s n false).map (fun m => ({ m with reg := callRFinish m.reg rb nr }, none)))
      | _, _, _ => { model := some "bad-step" }
    | ["ret", a, b] =>
      match nat? a, nat? b with
      | some a, some b => finish ((opReturn s a b).map (fun m => (m, none)))
      | _, _ => { model := some "bad-step" }
    | ["retfin", a, b, rbase, nret] =>
      -- the last OP_RETURN of a callR from Go, followed by the tail of callR
      match nat? a, nat? b, nat? rbase, parseNRet nret with
      | some a, some b, some rb, some nr =>
        finish ((opReturn s a b).map (fun m => ({ m with reg := callRFinish m.reg rb nr }, none)))
      | _, _, _, _ => { model := some "bad-step" }
    | ["callrfin", rbase, nret] =>
      match nat? rbase, parseNRet nret with
      | some rb, some nr => finish (.ok ({ s with reg := callRFinish s.reg rb nr }, none))
      | _, _ => { model := some "bad-step" }
    | ["vararg", a, b] =>
      match nat? a, nat? b with
      | some a, some b => finish ((opVararg s a b).map (fun m => (m, none)))
      | _, _ => { model := some "bad-step" }
    | ["self", a, b, mth] =>
      match nat? a, nat? b, parseSlot mth with
      | some a, some b, some mth => finish ((opSelf s a b mth).map (fun m => (m, none)))
      | _, _, _ => { model := some "bad-step" }
    | ["tforprep", a, c, isMeta, fnNil, f1, f2, f3, f4, f5] =>
      match nat? a, nat? c, parseFn [f1, f2, f3, f4, f5], s.stack with
      | some a, some c, some (fn, _), cf :: _ =>
        finish ((opTForPrep s a) >>= fun s1 =>
          callR s1 2 (some c) (some (cf.localBase + a + 3)) fn (isMeta = "1") (fnNil = "1") postArgId)
      | _, _, _, _ => { model := some "bad-step" }
    | ["callr", nargs, nret, rbase, isMeta, fnNil, f1, f2, f3, f4, f5] =>
      match nat? nargs, parseNRet nret, rbase.toInt?, parseFn [f1, f2, f3, f4, f5] with
      | some na, some nr, some rb, some (fn, _) =>
        finish (callR s na nr (if rb < 0 then none else some rb.toNat) fn (isMeta = "1") (fnNil = "1") postArgId)
      | _, _, _, _ => { model := some "bad-step" }
    | _ => { model := some "bad-step" }

/-- `k:v` tokens (integer-keyed table content, nil-valued keys omitted) -/
def parseKV (s : String) : Option (Int × Slot) :=
  match s.splitOn ":" with
  | [k, v] => do let k ← k.toInt?; let v ← parseSlot v; pure (k, v)
  | _ => none

def parseKVs : List String → Option (List (Int × Slot))
  | [] => some []
  | s :: r => do let a ← parseKV s; let b ← parseKVs r; pure (a :: b)

def kvSet (l : List (Int × Slot)) (k : Int) (v : Slot) : List (Int × Slot) :=
  let l' := l.filter (fun p => p.1 ≠ k)
  if v = lnil then l' else l' ++ [(k, v)]

def kvShow (l : List (Int × Slot)) : String :=
  let a := (l.toArray.qsort (fun x y => x.1 < y.1)).toList
  " ".intercalate (a.map (fun p => toString p.1 ++ ":" ++ showSlot p.2))

/-! ### Spec-level evaluation of a callee's return shape (API grid) -/

/-- atoms of a generated callee's `return` list: `p<i>` parameter i (1-based), `c<val>` constant, `n` =
    `select('#', ...)`, `v` = `...` (all extra values in last position, the first one elsewhere),
    `an` = `arg.n`, `a<i>` = `arg[i]`. -/
def evalAtom (params extra : List OVal) (last : Bool) (a : String) : Option (List OVal) :=
  if a = "n" then some [some (.int extra.length)]
  else if a = "v" then some (if last then extra else adjust extra (some 1))
  else if a = "an" then some [some (.int extra.length)]
  else match a.front with
    | 'p' => ((a.drop 1).toString).toNat?.map (fun i => [(params[i - 1]?).getD none])
    | 'a' => ((a.drop 1).toString).toNat?.map (fun i => [if i = 0 then none else (extra[i - 1]?).getD none])
    | 'c' => (parseVal ((a.drop 1).toString)).map (fun v => [v])
    | _ => none

def evalShape (params extra : List OVal) : List String → Option (List OVal)
  | [] => some []
  | a :: r => do
    let x ← evalAtom params extra r.isEmpty a
    let y ← evalShape params extra r
    pure (x ++ y)

def fieldOfChar : Char → Option Field
  | 'i' => some .item | 'k' => some .keyed | 'm' => some .multi | _ => none

def showSetList (s : SetList) : String :=
  s!"{s.b}:{s.c}:{match s.extra with | none => "-" | some x => toString x}"

/-- execute a flush plan abstractly: positional values wait in the registers above the table until a SETLIST
    stores them at `(block-1)*FieldsPerFlush + i`; returns the stores `(index, value-number)`. -/
def runPlan (fields : List Field) (plan : List (Option SetList)) (nmulti : Nat) : List (Int × Nat) :=
  let step := fun (acc : List Nat × Nat × List (Int × Nat)) (fp : Field × Option SetList) =>
    let (pending, nextv, stores) := acc
    let (f, sl) := fp
    let (pending, nextv) := match f with
      | .item => (pending ++ [nextv], nextv + 1)
      | .keyed => (pending, nextv)
      | .multi => (pending ++ (List.range nmulti).map (· + nextv), nextv + nmulti)
    match sl with
    | none => (pending, nextv, stores)
    | some s =>
      let block := match s.extra with | some x => x | none => s.c
      let off : Int := ((block : Int) - 1) * 50
      let nelem := if s.b = 0 then pending.length else s.b
      let st := (List.range nelem).map (fun i => (off + ((i + 1 : Nat) : Int), (pending[i]?).getD 0))
      ([], nextv, stores ++ st)
  (List.foldl step (([] : List Nat), 1, ([] : List (Int × Nat))) (fields.zip plan)).2.2

def handle (st : EState) (ws : List String) : EState × Verdict :=
  let (lhs, impl) := splitArrow ws
  let implS := " ".intercalate impl
  let obs (r : Reg) : EState × Verdict :=
    -- every registry request ends with `=> <top> <slot>*N` (for pop/get preceded by the value)
    ({ reg := r }, { model := cmpModel (showReg r (impl.length - 1)) impl })
  match lhs with
  | "cc" :: rest => (st, CallCompileEng.handleCC rest impl)
  | "step" :: rest =>
    let (params, pre) := splitBar rest
    (st, handleStep params pre impl)
  | ["rnew"] => ({ reg := Reg.empty }, ok)
  | ["rpush", v] => match parseSlot v with
    | some v => obs (st.reg.push v) | none => (st, { model := some "bad-op" })
  | ["rset", i, v] => match nat? i, parseSlot v with
    | some i, some v => obs (st.reg.set i v) | _, _ => (st, { model := some "bad-op" })
  | ["rsettop", n] => match nat? n with
    | some n => obs (st.reg.setTop n) | none => (st, { model := some "bad-op" })
  | ["rfill", m, n] => match nat? m, nat? n with
    | some m, some n => obs (st.reg.fillNil m n) | _, _ => (st, { model := some "bad-op" })
  | ["rcopy", regv, start, limit, n] => match nat? regv, start.toInt?, limit.toInt?, nat? n with
    | some regv, some s, some l, some n => obs (st.reg.copyRange regv s l n)
    | _, _, _, _ => (st, { model := some "bad-op" })
  | ["rinsert", v, reg] => match parseSlot v, nat? reg with
    | some v, some reg => obs (st.reg.insert v reg) | _, _ => (st, { model := some "bad-op" })
  | ["rpop"] =>
    match st.reg.pop with
    | .error e => (st, { model := if impl.head? = some "err" then none else some ("err " ++ errShow e) })
    | .ok (r, v) =>
      ({ reg := r }, { model := cmpModel (showSlot v ++ " " ++ showReg r (impl.length - 2)) impl })
  | ["rget", i] => match nat? i with
    | some i => (st, { model := cmpModel (showSlot (st.reg.get i)) impl })
    | none => (st, { model := some "bad-op" })
  | "api" :: kind :: np :: va :: nret :: rest =>
    -- API-level call with explicit NRet: `api <lua|go|callobj> np vararg nret <shape…> ; <args…> => <ntop> <results…>`
    -- lua: callee = function(p1..pnp[, ...]) return <shape> end ; go: pushes junk then the shape's values.
    let (shape, args) := match rest.span (· ≠ ";") with | (a, _ :: b) => (a, b) | (a, []) => (a, [])
    match nat? np, parseNRet nret, parseVals args with
    | some np, some nr, some args =>
      let args := if kind = "callobj" then (some (.ref 1)) :: args else args   -- `__call`: the object is argument 1
      let (params, extra) := if kind = "go" then (args, []) else bind np (va = "1") args
      match evalShape params extra shape with
      | none => (st, { model := some "bad-shape" })
      | some produced =>
        let want := adjust produced nr
        let exp := toString want.length ++ (if want.isEmpty then "" else " " ++ showVals want)
        (st, { spec := if implS = exp then none else some ("adjust/bind spec=" ++ exp) })
    | _, _, _ => (st, { model := some "bad-op" })
  | ["select", idx, num] =>
    -- `select idx num => <count>|err` : count of top-most values returned; stack = idx :: extra (num = 1 + #extra)
    match idx.toInt?, nat? num with
    | some idx, some num =>
      let m := match baseSelectNum idx num with | .ok n => toString n | .error _ => "err"
      let extra : List OVal := (List.range (num - 1)).map (fun (i : Nat) => some (.int (i : Int)))
      let stack : List OVal := some (.int idx) :: extra
      let sp : Option String := match selectSpec idx extra, baseSelectNum idx num with
        | .ok l, .ok n => if gResults stack n = l then none else some "select model≠spec"
        | .error _, .error _ => none
        | _, _ => some "select model≠spec (error class)"
      let spI : Option String := match selectSpec idx extra with
        | .ok l => if implS = toString l.length then none else some s!"select spec={l.length}"
        | .error _ => if implS = "err" then none else some "select spec=err"
      (st, { model := cmpModel m impl, spec := sp <|> spI })
    | _, _ => (st, { model := some "bad-op" })
  | "unpack" :: s :: e :: tvals =>
    -- `unpack start end <t[1]..t[k]> => <results…>` (table = list, nil elsewhere)
    match s.toInt?, e.toInt?, parseVals tvals with
    | some s, some e, some tv =>
      let t : Int → OVal := fun i => if i ≥ 1 then (tv[i.toNat - 1]?).getD none else none
      let (pushed, n) := baseUnpack t s e
      let m := gResults (some (.ref 1) :: some (.int s) :: some (.int e) :: pushed) n
      let sp := unpackSpec t s e
      (st, { model := cmpModel (toString m.length ++ (if m.isEmpty then "" else " " ++ showVals m)) impl,
             spec := if implS = toString sp.length ++ (if sp.isEmpty then "" else " " ++ showVals sp) then none
                     else some ("unpack spec=" ++ showVals sp) })
    | _, _, _ => (st, { model := some "bad-op" })
  | ["plan", fields, nmulti] =>
    -- `plan <i|k|m chars> <nmulti> => b:c:x …` : the SETLISTs the real compiler emitted, in order
    match (fields.toList.filter (· ≠ (Char.ofNat 45))).mapM fieldOfChar, nat? nmulti with
    | some fs, some nm =>
      let plan := flushPlan fs
      let m := " ".intercalate (plan.filterMap (fun o => o.map showSetList))
      -- spec: executing the plan stores value number k at index k, for every positional value, once
      let stores := runPlan fs plan nm
      let nvals := (fs.filter (· = .item)).length + (if fs.getLast? = some .multi then nm else 0)
      let good := stores.length = nvals ∧ stores.all (fun p => p.1 = (p.2 : Int)) ∧
                  (stores.map (·.2)) = (List.range nvals).map (· + 1)
      (st, { model := cmpModel m impl,
             spec := if good then none else some "constructor plan does not store value k at index k" })
    | _, _ => (st, { model := some "bad-op" })
  | ["ctor", nvals] =>
    -- the table a constructor built, summarised by the harness: #integer keys, largest integer key, first j with t[j] ≠ j, #Go-nil values
    match nat? nvals with
    | some nv =>
      (st, { spec := if impl = [toString nv, toString nv, "0", "0"] then none
                     else some s!"constructor must store value j at index j for j=1..{nv} and nothing else" })
    | none => (st, { model := some "bad-op" })
  | ["tailrec", _, _] =>
    -- Sp and top observed every 10^5 iterations of a tail-recursive loop: must be constant
    let (sps, tops) := splitBar impl
    let const (l : List String) : Bool := match l with | [] => false | a :: r => r.all (· = a)
    (st, { spec := if impl.head? = some "err" then some "tail recursion failed (stack overflow?)"
                   else if sps.length ≥ 2 ∧ const sps ∧ const tops then none
                   else some "call stack / registry top grows under proper tail calls" })
  | "setlist" :: a :: b :: c :: extra :: rest =>
    -- `setlist A B C extra | pre-state ; T k:v… => k:v…`
    let (pre, tbl) := match (splitBar rest).2.span (· ≠ ";") with | (x, _ :: "T" :: y) => (x, y) | (x, _) => (x, [])
    match nat? a, nat? b, nat? c, nat? extra, parseState pre, parseKVs tbl with
    | some a, some b, some c, some ex, some p, some kv =>
      match opSetList p.toSt a b c ex with
      | .error e => (st, { model := cmpModel ("err " ++ errShow e) impl })
      | .ok stores =>
        let kv' := stores.foldl (fun l s => kvSet l s.1 s.2) kv
        (st, { model := cmpModel (kvShow kv') impl })
    | _, _, _, _, _, _ => (st, { model := some "bad-op" })
  | _ => (st, { model := some "bad-op" })

end GLua.Eng.CallEng
