import GLua.Engines.Common
import GLua.Model.Cancel

/-
  Driver engine `C11M`: mechanism-level correspondence for C11 (cancellation).

    cancel <stack> => <n> <stack_1> … <stack_n> <res> ; <host-calls-after-firing> <g unchanged: 1|0>
        <stack>  = abstract Go call stack observed at the poll in which the context fired (outermost first,
                   '.'-separated: P Xl Xg H T W = boundaries, A G N Gn = activations)
        reply    = the stacks observed at every later poll, the way the outermost call ended
        Model    = `Cancel.step` iterated from that stack with every context done (exact comparison)
        Spec     = no host call after firing, result is the cancellation error, n + 1 ≤ 2·depth + 1
    wf <stack>                         every stack observed at a poll is a running configuration of the model
    script <init> <action…> => <stack at every fetch…> <res>
        a generated operation sequence interpreted by a Lua driver program on the real interpreter
        and by `Cancel.step` here; Spec = no fetch by a thread whose attached context is done
        <init>   = ctx | noctx | <libs>/<pre>/<entry>  (state set-up, see `initOf`): what the host did to the state
                   before the outermost call (pre = '+'-separated: w sc<n> rc cc<n> R, or '-') and which API entry
                   point makes the outermost call (do pcall pcallh call cbp cbph resume wdo).  `libs` (how the
                   libraries were installed) and `w` (an earlier call that returned) leave no trace in the model:
                   both branches of LState.callR start `ls.mainLoop`, the field written by SetContext/RemoveContext
    block <kind> <ctx> <ready> <cancel> => returned|hang <res>
    transp <program> => same|diff      (Impl vs Impl, compared in Go)
-/
namespace GLua.Eng.CancelEng
open GLua GLua.Eng GLua.Cancel

def frameTok : Frame → String
  | .act _ .withCtx false => "A"
  | .act _ .withCtx true => "G"
  | .act _ .plain false => "N"
  | .act _ .plain true => "Gn"
  | .pcall _ .none => "P"
  | .pcall _ .lua => "Xl"
  | .pcall _ .go => "Xg"
  | .handling _ => "H"
  | .trun _ false => "T"
  | .trun _ true => "W"

def parseFrame : String → Option Frame
  | "A" => some (.act 0 .withCtx false)
  | "G" => some (.act 0 .withCtx true)
  | "N" => some (.act 0 .plain false)
  | "Gn" => some (.act 0 .plain true)
  | "P" => some (.pcall 0 .none)
  | "Xl" => some (.pcall 0 .lua)
  | "Xg" => some (.pcall 0 .go)
  | "H" => some (.handling 0)
  | "T" => some (.trun 0 false)
  | "W" => some (.trun 0 true)
  | _ => none

/-- innermost-first stack → wire form (outermost first). -/
def showStack (st : List Frame) : String :=
  if st.isEmpty then "-" else ".".intercalate (st.reverse.map frameTok)

def parseStack (s : String) : Option (List Frame) :=
  if s = "-" then some [] else
  ((s.splitOn ".").mapM parseFrame).map List.reverse

def showRes : Option (Option Cancel.Err) → String
  | none => "noreturn"
  | some none => "ok"
  | some (some .cancelled) => "err:cancelled"
  | some (some .lua) => "err:lua"
  | some (some .goPanic) => "err:panic"

/-- a running configuration: a Lua activation on top, every boundary directly below an activation,
    the outermost frame is a boundary. -/
def wfStack : List Frame → Bool
  | [] => false
  | [.act _ _ _] => false          -- an activation always has a boundary or an activation below (root = PCall)
  | .act _ _ _ :: r => wfStack' r
  | _ => false
where wfStack' : List Frame → Bool
  | [] => true
  | [.act _ _ _] => false
  | .act _ _ _ :: r => wfStack' r
  | [_] => true                    -- outermost boundary
  | _ :: .act t l g :: r => wfStack' (.act t l g :: r)
  | _ :: _ :: _ => false           -- two boundaries in a row

def topIsLua : List Frame → Bool
  | .act _ _ false :: _ => true
  | _ => false

/-- every thread armed with a done context (what the deterministic context produces at the firing poll). -/
def doneSys : Sys := { threads := [setContext {} [0]], cancelled := [[0]] }

/-- iterate the loop after cancellation, recording the stack at every poll. -/
def runDone : Nat → St → List String → List String × Option (Option Cancel.Err)
  | 0, s, acc => (acc.reverse, s.result)
  | n + 1, s, acc =>
    if s.result.isSome then (acc.reverse, s.result) else
    let (s', ev) := step .instr s
    let acc := if ev.any isPoll then showStack s.stack :: acc else acc
    if ev.isEmpty then (acc.reverse, s.result) else runDone n s' acc

def handleCancel (stackTok : String) (impl : List String) : Verdict :=
  match parseStack stackTok with
  | none => { model := some "bad-stack" }
  | some st =>
    let (implObs, implExtra) := splitOn impl
    let s0 : St := { sys := doneSys, stack := st }
    let (polls, res) := runDone (phi st + 4) s0 []
    let after := polls.drop 1
    let expected := " ".intercalate ([toString after.length] ++ after ++ [showRes res])
    let nAfter := (implObs.head?.bind String.toNat?).getD 0
    let implRes := implObs.getLast?.getD ""
    let hostAfter := (implExtra.head?.bind String.toNat?).getD 999
    let gSame := implExtra.getD 1 "1"
    let bound := 2 * depth st + 1
    let spec :=
      if hostAfter ≠ 0 then some s!"{hostAfter} host call(s) completed after the context was done"
      else if gSame ≠ "1" then some "an instruction completed after the context was done (the global progress counter g changed)"
      else if implRes ≠ "err:cancelled" then some s!"the outermost call ended with {implRes}, not with the cancellation error"
      else if nAfter + 1 > bound then some s!"{nAfter + 1} dispatch attempts after done exceed 2*{depth st}+1"
      else none
    { model := cmpModel expected implObs, spec := spec }
where splitOn (ws : List String) : List String × List String :=
  match ws.span (· ≠ ";") with
  | (a, []) => (a, [])
  | (a, _ :: b) => (a, b)

/-! ### scripts -/

def parseCtxTok (s : String) : Option Ctx := s.toNat?.map (fun n => [n])

def parseAction (t : String) : Option Action :=
  if t = "i" then some .instr
  else if t = "e" then some (.host .emit)
  else if t = "rc" then some (.host .removeContext)
  else if t = "nt" then some (.host (.newThread false))
  else if t = "ntw" then some (.host (.newThread true))
  else if t = "p" then some (.enter [.pcall .none])
  else if t = "xl" then some (.enter [.pcall .lua])
  else if t = "xg" then some (.enter [.pcall .go])
  else if t = "m" then some (.enter [.ucall])
  else if t = "pp" then some (.enter [.pcall .none, .pcall .none])
  else if t = "ret" then some .ret
  else if t = "err" then some .err
  else if t = "y" then some .yield
  else if t.startsWith "sc" then (parseCtxTok (t.drop 2).toString).map (fun c => .host (.setContext c))
  else if t.startsWith "cc" then (parseCtxTok (t.drop 2).toString).map (fun c => .host (.cancel c))
  else if t.startsWith "r" then (t.drop 1).toString.toNat?.map (fun n => .enter [.resume n])
  else none

def threadInStack (t : Nat) : List Frame → Bool
  | [] => false
  | .trun t' _ :: r => t' = t || threadInStack t r
  | .act t' _ _ :: r => t' = t || threadInStack t r      -- the root thread of a Resume / worker entry has no trun frame of its own below the host
  | _ :: r => threadInStack t r

/-- the Lua driver program only performs a resume on a suspended coroutine and a yield directly in a
    coroutine body; anything else is a plain instruction. -/
def guardAction (s : St) : Action → Action
  | .enter [.resume t] =>
      if t ≠ 0 ∧ t < s.sys.threads.length ∧ !(s.sys.thread t).dead ∧ !threadInStack t s.stack then .enter [.resume t] else .instr
  | .yield =>
      match s.stack with
      | .act th _ false :: .trun t _ :: _ => if t = th then .yield else .instr
      | _ => .instr
  | a => a

def isHostAction : Action → Bool
  | .host _ => true
  | _ => false

structure Rep where
  st : St
  obs : List String := []          -- reversed
  bad : Option String := none

def noteBad (r : Rep) (m : String) : Rep := if r.bad.isSome then r else { r with bad := some m }

/-- Spec at a fetch: the fetching thread must not have an attached context that is done. -/
def fetchCheck (r : Rep) : Rep :=
  match r.st.stack with
  | .act th _ _ :: _ =>
    match r.st.sys.ctxOf th with
    | some c => if isDone r.st.sys.cancelled c then
        noteBad r "KF:C11-setcontext-under-running-loop an instruction ran on a state whose attached context is done (the running activation is mainLoop, started before SetContext)" else r
    | none => r
  | _ => r

def replay : Nat → List Action → Rep → Rep
  | 0, _, r => r
  | n + 1, acts, r =>
    if r.st.result.isSome then r else
    let (a, rest) := match acts with
      | [] => (Action.ret, [])
      | a :: rest => (a, rest)
    -- the fetch is a host call dispatched by the top activation
    let (s1, ev1) := step (.host .emit) r.st
    if ev1.isEmpty then r else
    let r := if ev1.any (fun e => match e with | .nilDeref _ => true | _ => false) then
        noteBad r "KF:C11-removecontext-under-running-loop Go nil-pointer panic: mainLoopWithContext polls L.ctx after RemoveContext" else r
    if ev1.any (fun e => match e with | .dispatch _ => true | _ => false) then
      let r := fetchCheck r
      let r := { r with obs := showStack r.st.stack :: r.obs }
      let a' := guardAction r.st a
      let (s2, _) := step a' r.st
      replay n rest { r with st := s2 }
    else
      replay n acts { r with st := s1 }

/-! #### state set-up before the outermost call -/

/-- one host operation performed on the (not running) state `th` before the outermost call:
    `w` an earlier call that has returned (no trace in the context fields), `sc<n>` SetContext, `rc` RemoveContext,
    `cc<n>` the host cancels context n, `R` an earlier run under its own context [9] that was stopped by cancelling
    it (the done context stays attached). -/
def applyPre (sys : Sys) (th : Nat) (op : String) : Option Sys :=
  if op = "w" then some sys
  else if op = "rc" then some (sys.setThread th (removeContext (sys.thread th)))
  else if op = "R" then
    some { (sys.setThread th (setContext (sys.thread th) [9])) with cancelled := [9] :: sys.cancelled }
  else if op.startsWith "sc" then
    (parseCtxTok (op.drop 2).toString).map (fun c => sys.setThread th (setContext (sys.thread th) c))
  else if op.startsWith "cc" then
    (parseCtxTok (op.drop 2).toString).map (fun c => { sys with cancelled := c :: sys.cancelled })
  else none

def applyPres (sys : Sys) (th : Nat) : List String → Option Sys
  | [] => some sys
  | op :: ops => (applyPre sys th op).bind (fun s => applyPres s th ops)

/-- the configuration in which the outermost call starts.  Entry points: DoString / PCall / CallByParam{Protect}
    (root PCall without handler), PCall / CallByParam with a Lua message handler, unprotected Call (no boundary at
    all), Resume of a fresh thread made by NewThread after the set-up (thread 1), DoString on a worker thread made by
    NewThread from a main state that carries context [8] (thread 1; the set-up is applied to the worker). -/
def initOf (init : String) : Option St :=
  if init = "ctx" then some (initSt [0]) else if init = "noctx" then some initPlain else
  match init.splitOn "/" with
  | [_, pre, entry] =>
    let ops := if pre = "-" then [] else pre.splitOn "+"
    let worker := entry = "wdo"
    let sys0 : Sys :=
      if worker then (applyHost { sys := { threads := [setContext {} [8]] } } 0 (.newThread false)).sys
      else { threads := [{}] }
    let th := if worker then 1 else 0
    match applyPres sys0 th ops with
    | none => none
    | some sys =>
      if entry = "resume" then
        let s1 := applyHost { sys := sys } 0 (.newThread false)
        some { sys := s1.sys, stack := [.act 1 (s1.sys.loopOf 1) false, .trun 1 false] }
      else if entry = "call" then some { sys := sys, stack := [.act th (sys.loopOf th) false] }
      else if entry = "pcallh" || entry = "cbph" then
        some { sys := sys, stack := [.act th (sys.loopOf th) false, .pcall th .lua] }
      else if entry = "do" || entry = "pcall" || entry = "cbp" || entry = "wdo" then
        some { sys := sys, stack := [.act th (sys.loopOf th) false, .pcall th .none] }
      else none
  | _ => none

def handleScript (init : String) (toks : List String) (impl : List String) : Verdict :=
  match toks.mapM parseAction, initOf init with
  | none, _ => { model := some "bad-action" }
  | _, none => { model := some "bad-init" }
  | some acts, some s0 =>
    let r := replay (4 * acts.length + 64) acts { st := s0 }
    let expected := " ".intercalate (r.obs.reverse ++ [showRes r.st.result])
    -- transparency: the cancellation error may only appear when some context was cancelled by the script
    let cancelledSome := toks.any (fun t => t.startsWith "cc") || !s0.sys.cancelled.isEmpty
    let spec := if !cancelledSome ∧ impl.getLast? = some "err:cancelled" then
        some "the script ended with the cancellation error although no context was ever cancelled (a coroutine inherited a context that died with its creator)"
      else r.bad
    { model := cmpModel expected impl, spec := spec }

/-! ### blocking channel operations -/

def handleBlock (kind ctx ready cancel : String) (impl : List String) : Verdict :=
  let k := if kind = "recv" then BlockKind.recv else if kind = "select" then .select else .send
  let s0 := if ctx = "1" then initSt [0] else initPlain
  let (s1, _) := step (.host (.block k (ready = "1"))) s0
  -- with a ready peer the harness cancels only after the script has returned
  let (s2, _) := if cancel = "1" ∧ ready ≠ "1" then step (.extCancel [0]) s1 else (s1, [])
  -- after the operation returned the loop continues: two more iterations and a return
  let (s3, _) := run [.instr, .ret] s2
  let expected := if s2.blockedOn.isSome then "hang noreturn" else "returned " ++ showRes s3.result
  let spec := if ctx = "1" ∧ (cancel = "1" ∨ ready = "1") ∧ impl.head? ≠ some "returned" then
      some "a blocked channel operation did not return after its context was cancelled" else none
  { model := cmpModel expected impl, spec := spec }

def handle (ws : List String) : Verdict :=
  let (args, impl) := splitArrow ws
  match args with
  | ["cancel", st] => handleCancel st impl
  | ["wf", st] =>
    match parseStack st with
    | some fr => if wfStack fr && topIsLua fr then ok else { model := some ("not-a-running-configuration " ++ st) }
    | none => { model := some "bad-stack" }
  | "script" :: init :: toks => handleScript init toks impl
  | ["block", k, c, r, x] => handleBlock k c r x impl
  | "transp" :: _ => if impl = ["same"] then ok else { spec := some "attaching a context that never fires changed the script's behaviour" }
  | _ => { model := some "bad-op" }

end GLua.Eng.CancelEng
