import GLua.Engines.Common
import GLua.Model.Channel
import GLua.Spec.ChannelSpec

/-
  Driver engine "C13".

  Sequential wrapper histories (one LState, one goroutine `0`, never blocking) are replayed on the Model
  (`GLua.Chan.step` through the wrapper maps) — exact comparison, except for `select`, where the Model yields the SET of
  ready cases and the implementation's choice must be a member (Go picks uniformly at random).
  Concurrent histories (`hist`) are judged by the Spec predicate `ChanSpec.histOK`; `iso` / `proto` compare digests.
-/
namespace GLua.Eng.ChanEng
open GLua GLua.Eng GLua.Chan

/-- engine state between requests: the channels made so far, as plain data (no goroutine is blocked between two
    requests of a single-goroutine history, so `pend = []`).  The Model's configuration (`Cfg`, channels as a function)
    is rebuilt from it for every request and tabulated back afterwards. -/
structure St where
  chans : List (Cid × Ch LV) := []

def lookupCh (l : List (Cid × Ch LV)) (c : Cid) : Ch LV :=
  match l with
  | [] => {}
  | (c', x) :: r => if c' = c then x else lookupCh r c

def St.σ (st : St) : Cfg LV := { ch := lookupCh st.chans, pend := [] }

/-- tabulate the configuration reached by one request back into data -/
def St.put (st : St) (σ' : Cfg LV) : St :=
  { chans := st.chans.map (fun e => (e.1, σ'.ch e.1)) }

def dropStr (s : String) (n : Nat) : String := (s.drop n).toString

def parseLV (s : String) : Option LV :=
  if s == "nil" then some .nil
  else if s == "T" then some (.bool true)
  else if s == "F" then some (.bool false)
  else if s.startsWith "fn" then (dropStr s 2).toNat?.map .func
  else if s.startsWith "ud" then (dropStr s 2).toNat?.map .udata
  else if s.startsWith "th" then (dropStr s 2).toNat?.map .thread
  else if s.startsWith "tb" then (dropStr s 2).toNat?.map (fun n => .table n false)
  else if s.startsWith "tm" then (dropStr s 2).toNat?.map (fun n => .table n true)
  else if s.startsWith "ch" then (dropStr s 2).toNat?.map .chan
  else if s.startsWith "i" then (dropStr s 1).toInt?.map .num
  else if s.startsWith "s" then some (.str (dropStr s 1))
  else none

def showLV : LV → String
  | .nil => "nil"
  | .bool b => if b then "T" else "F"
  | .num i => "i" ++ toString i
  | .str h => "s" ++ h
  | .func n => "fn" ++ toString n
  | .udata n => "ud" ++ toString n
  | .thread n => "th" ++ toString n
  | .table n m => (if m then "tm" else "tb") ++ toString n
  | .chan n => "ch" ++ toString n

def showLVs (l : List LV) : String := " ".intercalate (l.map showLV)

/-- argument that may be absent (`none` on the wire) -/
def parseArg (s : String) : Option (Option LV) :=
  if s == "none" then some none else (parseLV s).map some

/-- a select argument: `-` = not a table, else the comma-separated array part -/
def parseCaseTbl (s : String) : Option (Option (List LV)) :=
  if s == "-" then some none
  else if s == "{}" then some (some [])
  else (s.splitOn ",").mapM parseLV |>.map some

def vd (m : Option String) (s : Option String) : Verdict := { model := m, spec := s }

def bad (st : St) (m : String) : St × Verdict := (st, { model := some m })

/-- run one blocking-free operation of goroutine 0 offering `cases`: returns the new configuration for the chosen
    case index and outcome -/
def fire0 (σ : Cfg LV) (cases : List (Case LV)) (i : Nat) (o : Out LV) : Option (Cfg LV) :=
  match step σ (.call 0 cases) with
  | none => none
  | some σ1 => step σ1 (.fire 0 i o)

def readyIdx (σ : Cfg LV) (cases : List (Case LV)) : List Nat :=
  (List.range cases.length).filter (fun i => match cases[i]? with
    | some cs => !cs.isDflt && (soloOut σ.ch cs).isSome
    | none => false)

def dfltIdx (cases : List (Case LV)) : List Nat :=
  (List.range cases.length).filter (fun i => match cases[i]? with
    | some cs => cs.isDflt
    | none => false)

def showHandler : Option (LV × List LV) → String
  | none => "h:none"
  | some (f, args) => "h:" ++ showLV f ++ ":" ++ ",".intercalate (args.map showLV)

/-! ### concurrent histories -/

def parseTag (s : String) : Option ChanSpec.Tag :=
  match s.splitOn "." with
  | [a, b] => match a.toNat?, b.toNat? with
    | some a, some b => some ⟨a, b⟩
    | _, _ => none
  | _ => none

def parseRLog (s : String) : Option ChanSpec.RLog :=
  match s.splitOn ":" with
  | [r, c, a, tags] =>
    match r.toNat?, c.toNat?, a.toNat? with
    | some r, some c, some a =>
      let toks := if tags.isEmpty then [] else tags.splitOn ","
      (toks.mapM parseTag).map (fun ts => { rid := r, closures := c, afterClose := a != 0, tags := ts })
    | _, _, _ => none
  | _ => none

def parseSend (s : String) : Option (Nat × Nat) :=
  match s.splitOn ":" with
  | [a, b] => match a.toNat?, b.toNat? with
    | some a, some b => some (a, b)
    | _, _ => none
  | _ => none

def parseHist (drained : String) (rest : List String) : Option ChanSpec.Hist :=
  match rest with
  | "S" :: r =>
    let (ss, rr) := r.span (· ≠ "R")
    match ss.mapM parseSend, (rr.drop 1).mapM parseRLog with
    | some sends, some recvs => some { drained := drained != "0", sends := sends, recvs := recvs }
    | _, _ => none
  | _ => none

def handle (st : St) (ws : List String) : St × Verdict :=
  let (args, impl) := splitArrow ws
  let got := " ".intercalate impl
  match args with
  | ["make", id, cap] =>
    match id.toNat?, cap.toInt? with
    | some id, some cap =>
      if cap < 0 then (st, { model := cmpModel "err:gopanic" impl })   -- make(chan, negative): Go panic → Lua error
      else
        let fresh : Ch LV := { cap := cap.toNat }
        ({ chans := (id, fresh) :: st.chans.filter (fun e => e.1 ≠ id) }, { model := cmpModel "ok" impl })
    | _, _ => bad st "bad-op"
  | ["send", self, arg] =>
    match parseLV self, parseArg arg with
    | some self, some arg =>
      match channelSend self arg with
      | .error e => (st, vd (cmpModel ("err:" ++ e.show) impl)
              (if e = .unsafePayload ∧ got = "ok" then some "payload guard: a function/userdata/thread/table-with-metatable was accepted" else none))
      | .ok cases =>
        match cases[0]? >>= soloOut st.σ.ch with
        | none => bad st "would-block"
        | some o =>
          match fire0 st.σ cases 0 o with
          | none => bad st "model-stuck"
          | some σ' =>
            let exp := if o = .panic then "err:closed" else "ok"
            (st.put σ', vd (cmpModel exp impl)
              (if got = "err:unsafe" then some "payload guard: a goroutine-safe value was refused" else none))
    | _, _ => bad st "bad-op"
  | ["recv", self] =>
    match parseLV self with
    | some self =>
      match channelReceive self with
      | .error e => (st, { model := cmpModel ("err:" ++ e.show) impl })
      | .ok cases =>
        match cases[0]? >>= soloOut st.σ.ch with
        | none => bad st "would-block"
        | some o =>
          match fire0 st.σ cases 0 o with
          | none => bad st "model-stuck"
          | some σ' =>
            let exp := showLVs (receiveReturn o)
            let sp := match o with
              | .closedEmpty => if got = "F nil" then none else some "receive on a closed drained channel must report closure (false, nil)"
              | .got v => if got = "T " ++ showLV v then none else some "receive must deliver the oldest queued value with ok = true"
              | _ => none
            (st.put σ', { model := cmpModel exp impl, spec := sp })
    | none => bad st "bad-op"
  | ["close", self] =>
    match parseLV self with
    | some self =>
      match channelClose self with
      | .error e => (st, { model := cmpModel ("err:" ++ e.show) impl })
      | .ok c =>
        match step st.σ (.close 0 c) with
        | some σ' => (st.put σ', { model := cmpModel "ok" impl })
        | none => (st, { model := cmpModel "err:closed" impl })   -- close of closed channel: Go panic → Lua error
    | none => bad st "bad-op"
  | "select" :: caseToks =>
    match caseToks.mapM parseCaseTbl with
    | none => bad st "bad-op"
    | some tbls =>
      match channelSelect tbls with
      | .error (pos, e) => (st, vd (cmpModel ("err:" ++ toString pos ++ ":" ++ e.show) impl)
              (if e = .unsafePayload ∧ !got.startsWith "err:" then some "payload guard: select sent a function/userdata/thread/table-with-metatable" else none))
      | .ok cases =>
        let rdy := readyIdx st.σ cases
        let dfl := dfltIdx cases
        if dfl.length > 1 then (st, { model := cmpModel "err:gopanic" impl })   -- reflect.Select: multiple default cases
        else
          let allowed := if rdy.isEmpty then dfl else rdy
          if allowed.isEmpty then bad st "would-block" else
          let canPanic := allowed.any (fun i => match cases[i]? >>= soloOut st.σ.ch with | some .panic => true | _ => false)
          if got = "err:closed" then
            if canPanic then (st, ok) else (st, { model := some "no-ready-send-on-closed-channel" })
          else
          match impl with
          | idx :: _ =>
            match (dropStr idx 1).toNat? with
            | some (k + 1) =>
              if !allowed.contains k then
                (st, vd (some ("one-of-" ++ toString (allowed.map (· + 1))))
              (some ("select fired case " ++ toString (k + 1) ++ " which is not ready (ready: " ++ toString (rdy.map (· + 1)) ++ ")")))
              else
                let o : Out LV := match cases[k]? with
                  | some cs => if cs.isDflt then .dflt else (soloOut st.σ.ch cs).getD .dflt
                  | none => .dflt
                match fire0 st.σ cases k o with
                | none => bad st "model-stuck"
                | some σ' =>
                  let tbl : List LV := match tbls[k]? with | some (some t) => t | _ => []
                  let exp := showLVs (selectReturn k o) ++ " " ++ showHandler (selectHandler tbl o)
                  (st.put σ', { model := cmpModel exp impl })
            | _ => (st, { model := some ("one-of-" ++ toString (allowed.map (· + 1))) })
          | [] => (st, { model := some ("one-of-" ++ toString (allowed.map (· + 1))) })
  | "hist" :: _scn :: _cap :: drained :: rest =>
    match parseHist drained rest with
    | none => bad st "bad-hist"
    | some h => (st, { spec := ChanSpec.histOK h })
  | "iso" :: p :: _n :: _w :: [alone] =>
    -- known-finding class (keyed by the program): math.random/randomseed use Go's process-wide source
    let tag := if p = "rand" then "KF:C13-shared-global-rand " else ""
    (st, { spec := if impl = [alone] then none
                   else some (tag ++ "a state running concurrently computed something else than it computes alone") })
  | "proto" :: _p :: _phase :: [before] =>
    (st, { spec := if impl = [before] then none else some "the shared FunctionProto was modified by executing it" })
  | _ => bad st "bad-op"

end GLua.Eng.ChanEng
