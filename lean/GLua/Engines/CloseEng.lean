/-
  Request kind `cc` of the driver engine `C03M`: the compile side of C03.

    cc <nparams> <program>  =>  <skeleton of the REAL prototype> | E (compile error) | panic

  The Go harness generates a program of the abstract statement language of Model/CloseCompile.lean, renders it to
  Lua source, compiles the source with the real compiler and sends what is left of the scoping-relevant
  instructions in the real prototype (harness/c03_close.go).  The engine compiles the same abstract program with
  the model (`compileFunction`), patches it (`finalize`, `assemble`) and
    * compares the two skeletons token by token (position and operand of every CLOSE, destination of every jump,
      capture list of every CLOSURE)                                        → MODEL on a difference;
    * runs the certificate checker `closeDiscipline` on the model's output  → SPEC when it rejects.

  program  := stmt*
  stmt     := L<n> | F<0|1>[caps] | C[caps] | c[caps] (rendered through a nested closure) | A<r>=<n> | U | P<n> | D(…) | I(…)(…) | W(…) | R(…)[caps] | N(…) | G<k>(…)
            | B | T<name> | J<name> | X
-/
import GLua.Engines.Common
import GLua.Model.CloseAsm
import GLua.Model.CloseCheck

namespace GLua.Eng.CloseEng
open GLua GLua.Eng GLua.CloseC

def sq : List Stmt → Stmt
  | [] => .skip
  | [s] => s
  | s :: r => .seq s (sq r)

def parseNat (cs : List Char) : Option (Nat × List Char) :=
  let ds := cs.takeWhile Char.isDigit
  if ds.isEmpty then none else some (ds.foldl (fun n c => n * 10 + (c.toNat - '0'.toNat)) 0, cs.dropWhile Char.isDigit)

def parseNatsAux : Nat → List Char → Option (List Nat × List Char)
  | 0, _ => none
  | fuel + 1, cs => do
    let (n, cs) ← parseNat cs
    match cs with
    | ',' :: cs => do let (r, cs) ← parseNatsAux fuel cs; pure (n :: r, cs)
    | ']' :: cs => pure ([n], cs)
    | _ => none

def parseList (cs : List Char) : Option (List Nat × List Char) :=
  match cs with
  | '[' :: ']' :: cs => some ([], cs)
  | '[' :: cs => parseNatsAux (cs.length + 1) cs
  | _ => none

/-- statements up to `)` or the end of the input -/
def parseStmts : Nat → List Char → Option (List Stmt × List Char)
  | 0, _ => none
  | fuel + 1, cs =>
    let block (cs : List Char) : Option (Stmt × List Char) :=
      match cs with
      | '(' :: cs => do
        let (b, cs) ← parseStmts fuel cs
        match cs with
        | ')' :: cs => pure (sq b, cs)
        | _ => none
      | _ => none
    let one : Option (Option Stmt × List Char) :=
      match cs with
      | [] => some (none, [])
      | ')' :: _ => some (none, cs)
      | 'L' :: cs => do let (n, cs) ← parseNat cs; pure (some (.localDecl n), cs)
      | 'F' :: '0' :: cs => do let (l, cs) ← parseList cs; pure (some (.localFn l false), cs)
      | 'F' :: '1' :: cs => do let (l, cs) ← parseList cs; pure (some (.localFn l true), cs)
      | 'C' :: cs => do let (l, cs) ← parseList cs; pure (some (.capture l), cs)
      | 'c' :: cs => do let (l, cs) ← parseList cs; pure (some (.capture l), cs)
      | 'A' :: cs => do
        let (r, cs) ← parseNat cs
        match cs with
        | '=' :: cs => do let (n, cs) ← parseNat cs; pure (some (.assign r n), cs)
        | _ => none
      | 'U' :: cs => pure (some .use, cs)
      | 'P' :: cs => do let (n, cs) ← parseNat cs; pure (some (.poke n), cs)
      | 'D' :: cs => do let (b, cs) ← block cs; pure (some (.doBlock b), cs)
      | 'I' :: cs => do let (t, cs) ← block cs; let (e, cs) ← block cs; pure (some (.ifThen t e), cs)
      | 'W' :: cs => do let (b, cs) ← block cs; pure (some (.whileLoop b), cs)
      | 'R' :: cs => do let (b, cs) ← block cs; let (l, cs) ← parseList cs; pure (some (.repeatLoop b l), cs)
      | 'N' :: cs => do let (b, cs) ← block cs; pure (some (.numFor b), cs)
      | 'G' :: cs => do let (k, cs) ← parseNat cs; let (b, cs) ← block cs; pure (some (.genFor k b), cs)
      | 'B' :: cs => pure (some .brk, cs)
      | 'T' :: cs => do let (n, cs) ← parseNat cs; pure (some (.label n), cs)
      | 'J' :: cs => do let (n, cs) ← parseNat cs; pure (some (.goto n), cs)
      | 'X' :: cs => pure (some .ret, cs)
      | _ => none
    match one with
    | none => none
    | some (none, cs) => some ([], cs)
    | some (some s, cs) => do
      let (r, cs) ← parseStmts fuel cs
      pure (s :: r, cs)

def parseProg (s : String) : Option Stmt :=
  let cs := if s = "-" then [] else s.toList
  match parseStmts (cs.length + 2) cs with
  | some (l, []) => some (sq l)
  | _ => none

def showCErr : CErr → String
  | .goPanic _ => "panic"
  | .illFormed w => "illformed:" ++ w.replace " " "_"
  | _ => "E"

def handleCC (np prog : String) (impl : List String) : Verdict :=
  match np.toNat?, parseProg prog with
  | some np, some p =>
    match compileFunction np p with
    | .error e => { model := cmpModel (showCErr e) impl }
    | .ok fc =>
      let mv := cmpModel (showToks (assemble (finalize fc))) impl
      let sv : Option String :=
        if closeDiscipline np fc then none else some "close-discipline-violated"
      { model := mv, spec := sv }
  | _, _ => { model := some "bad-program" }

end GLua.Eng.CloseEng
