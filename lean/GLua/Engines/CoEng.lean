import GLua.Engines.Common
import GLua.Model.Coroutine
import GLua.Spec.CoSpec

/-
  Engine `C06M`: coroutine histories (scripts of `CoScript`).  A case is sent as definition lines followed by one
  observation line:
      C06M fn <fid> <np> <vararg 0|1> <nused>
      C06M co <cid> <wrapped 0|1> <fid|G>
      C06M a <fid> <act …>
      C06M run <fuel> => <trace tokens of the implementation>
      C06M okprog => <1|0>      (is the script in the fragment of `history_simulation_partial`? guard tie)
  Verdict of `run`:  ok | MODEL <model trace> | SPEC <spec trace>  (exact comparison of the whole trace).
  Known-finding tags: none of the generated scripts lies in an open finding class (see known_findings.jsonl: the
  open C06 findings need shapes the script language cannot express).
-/
namespace GLua.Eng.CoEng
open GLua GLua.Eng GLua.CoScript

structure St where
  prog  : Prog := {}
  world : Option Co.World := none       -- Go-API histories: the Model world between requests
  sst   : Option CoSpec.St := none      -- … and the Spec state
  nres  : Nat := 0
deriving Inhabited

/-- tokens emitted since the trace had `n` entries -/
def newToks (t : Trace) (n : Nat) : List String := (t.rev.take (t.rev.length - n)).reverse

/-- Spec side of `ls.Resume(th_j, F_fid, args…)`: the main program performs `coroutine.resume(co_j, args…)` in an
    open-ended context; the answer is rendered like the API's triple. -/
def specResume (p : Prog) (s : CoSpec.St) (j n : Nat) (args : List OVal) : CoSpec.St × List String :=
  let before := s.trace.rev.length
  let main : CoSpec.Co := { st := .running, started := true,
                            k := [{ fid := 0, idx := n, rest := [.resume j false 0 args none] }] }
  let s := { s with cos := s.cos.set 0 main, chain := [0] }
  let (s, _) := CoSpec.run p 20000 s .exec
  let toks := newToks s.trace before
  -- the last token is the main program's `L0.n:<results>`
  match toks.reverse with
  | [] => (s, ["SPEC-STUCK"])
  | last :: revInit =>
    let body := (last.splitOn ":").getD 1 ""
    let vs := if body = "" then [] else body.splitOn ","
    let obs := match vs with
      | "T" :: r => (if (s.co j).st = .dead then "ok" else "yield") :: r
      | ["F", "s!dead"] => ["refused", "dead"]
      | ["F", "s!running"] => ["refused", "running"]
      | ["F", "s!normal"] => ["refused", "normal"]
      | ["F", e] => ["err", e]
      | _ => ["SPEC-BAD"]
    (s, revInit.reverse ++ obs)

def handle (st : St) (ws : List String) : St × Verdict :=
  let (args, impl) := splitArrow ws
  match args with
  | ["fn", f, np, va, nused] =>
    match f.toNat?, np.toNat?, parseBool va, nused.toNat? with
    | some f, some np, some va, some nu => ({ st with prog := st.prog.setFn f np va nu }, ok)
    | _, _, _, _ => (st, { model := some "bad-fn" })
  | ["co", j, w, body] =>
    match j.toNat?, parseBool w with
    | some j, some w =>
      let d : Option CoDef := if body = "G" then some { wrapped := false, body := none }
                              else body.toNat?.map fun f => { wrapped := w, body := some f }
      match d with
      | some d => ({ st with prog := st.prog.setCo j d }, ok)
      | none => (st, { model := some "bad-co" })
    | _, _ => (st, { model := some "bad-co" })
  | "a" :: f :: rest =>
    match f.toNat?, parseAct rest with
    | some f, some a => ({ st with prog := st.prog.addAct f a }, ok)
    | _, _ => (st, { model := some "bad-act" })
  | op :: j :: fid :: rest =>
    if op ≠ "gr" ∧ op ≠ "grs" then (st, { model := some "bad-op" }) else
    match j.toNat?, fid.toNat?, parseCounted rest with
    | some j, some fid, some args =>
      let w := st.world.getD (Co.apiWorld st.prog)
      let before := w.trace.rev.length
      let (w', obs) := Co.goResume Co.Cfg.fixed st.prog 20000 w j fid args
      let mtoks := newToks w'.trace before ++ words obs
      -- Spec: the body function is the one given to the first Resume
      let s0 := st.sst.getD { (CoSpec.initSt st.prog) with trace := {} }
      let prog := if (s0.co j).started then st.prog else st.prog.setCo j { body := some fid }
      let (s', stoks) := specResume prog s0 j st.nres args
      let sp : Option String :=
        if stoks = impl then none
        else if mtoks = impl ∧ stoks ++ ["nil"] = impl then
          -- LState.Resume reports an empty value list as one nil: recorded finding, flagged only by the strict
          -- request `grs` (corpus) so that it does not hide later requests of generated histories
          (if op = "grs" then some "KF:C06-goapi-resume-empty-is-nil Resume reports zero values as one nil" else none)
        else some ("spec " ++ " ".intercalate stoks)
      ({ st with prog := prog, world := some w', sst := some s', nres := st.nres + 1 },
       { model := if mtoks = impl then none else some (" ".intercalate mtoks), spec := sp })
    | _, _, _ => (st, { model := some "bad-gr" })
  | ["gs", j] =>
    match j.toNat? with
    | some j =>
      let w := st.world.getD (Co.apiWorld st.prog)
      let s0 := st.sst.getD { (CoSpec.initSt st.prog) with trace := {} }
      let m := Co.status Co.Cfg.fixed w 0 j
      let sp := (s0.co j).st.name
      (st, { model := cmpModel m impl, spec := if impl = [sp] then none else some ("status spec=" ++ sp) })
    | none => (st, { model := some "bad-gs" })
  | ["okprog"] =>
    -- the guard of the simulation theorem, as the harness computed it for this script
    let m := if okProg st.prog then "1" else "0"
    (st, { model := cmpModel m impl })
  | ["run", fuel] =>
    let fuel := fuel.toNat?.getD 20000
    let m := Co.runProg Co.Cfg.fixed st.prog fuel
    let s := CoSpec.runProg st.prog fuel
    (st, { model := if m = impl then none else some (" ".intercalate m),
           spec := if s = impl then none else some ("spec-trace " ++ " ".intercalate s) })
  | _ => (st, { model := some "bad-op" })

end GLua.Eng.CoEng
