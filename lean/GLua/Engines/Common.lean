import GLua.Basic
namespace GLua.Eng
open GLua

/-- split a request into the part before `=>` (arguments) and after (the implementation's reply). -/
def splitArrow (ws : List String) : List String × List String :=
  match ws.span (· ≠ "=>") with
  | (a, []) => (a, [])
  | (a, _ :: b) => (a, b)

/-- verdict of one request: model expectation and spec complaint. -/
structure Verdict where
  model : Option String := none   -- some expected ⇒ Impl ≠ Model
  spec  : Option String := none   -- some reason   ⇒ property-level failure

def Verdict.show (v : Verdict) : String :=
  match v.model, v.spec with
  | none, none => "ok"
  | some m, none => "MODEL " ++ m
  | none, some s => "SPEC " ++ s
  | some m, some s => "MODEL " ++ m ++ " SPEC " ++ s

def ok : Verdict := {}

def cmpModel (expected : String) (impl : List String) : Option String :=
  if " ".intercalate impl = expected then none else some expected

def assocSet {α} (l : List (Nat × α)) (k : Nat) (v : α) : List (Nat × α) :=
  match l with
  | [] => [(k, v)]
  | (k', v') :: r => if k' = k then (k, v) :: r else (k', v') :: assocSet r k v

def assocGet {α} (l : List (Nat × α)) (k : Nat) : Option α :=
  match l with
  | [] => none
  | (k', v') :: r => if k' = k then some v' else assocGet r k

end GLua.Eng
