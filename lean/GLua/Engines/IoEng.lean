/-
  Driver engine `IO` (property C19): replays one history of file operations on the Model
  (GLua/Model/IoFile.lean, exact) and on the Spec (GLua/Spec/File.lean).

    IO open <mode> s<hex content>          (no reply compared; content = file before the open)
    IO write s<hex>            => <res>
    IO read <fmt>…             => <res>     fmt = n<count> | l | a | N ("*n") | S<hex> (any other format string)
    IO lines | iter | flush | close        => <res>
    IO seek set|cur|end <int>  => <res>
    IO setvbuf no|full|line <size>         => <res>
    IO reopen <mode>                       (after close)
    IO disk                    => s<hex>    bytes on disk right now
    -- the io library level (default files, io.lines, io.type):
    IO ioinput | iooutput                  => <res>    io.input(f) / io.output(f), f = the current handle
    IO ioinputname | iooutputname | iolinesname => T   io.input(path) / io.output(path) / io.lines(path)   (after close)
    IO ioread <fmt>… | iowrite s<hex> | ioflush | ioclose | iolines      => <res>
    IO ioiter auto|keep        => <res>     a call of the iterator of io.lines(path) (auto) / io.lines() (keep)
    IO iotype | tostr          => s<hex>

    <res> = T | fail | raise | none | i<offset> | (nil | s<hex> | d<bits of the float64>)+
-/
import GLua.Engines.Common
import GLua.Model.IoFile
import GLua.Spec.File

namespace GLua.Eng.IoEng
open GLua GLua.Eng GLua.FileSpec

structure St where
  m : IoFile.World := {}
  s : WStream := {}
  opened : Bool := false
  specOn : Bool := true      -- false once the history left the discipline (Spec no longer applies)
  pending : Bool := false    -- an input operation since the last seek/flush (ISO C discipline)

def hexVal (c : UInt8) : UInt8 :=
  if c ≥ 48 && c ≤ 57 then c - 48 else if c ≥ 97 && c ≤ 102 then c - 87
  else if c ≥ 65 && c ≤ 70 then c - 55 else 0

def hexDecode (s : String) : Bytes :=
  let b := s.toUTF8
  let rec go (i : Nat) (acc : Bytes) : Bytes :=
    match i with
    | 0 => acc
    | i + 1 => go i (((hexVal (b.get! (2 * i))) <<< 4 ||| hexVal (b.get! (2 * i + 1))) :: acc)
  go (b.size / 2) []

def hexDigit (n : UInt8) : Char := if n < 10 then Char.ofNat (48 + n.toNat) else Char.ofNat (87 + n.toNat)

def hexEncode (l : Bytes) : String :=
  l.foldl (fun (s : String) (c : UInt8) => (s.push (hexDigit (c >>> (4 : UInt8)))).push (hexDigit (c &&& (15 : UInt8)))) ""

/-- a value in the implementation's reply -/
inductive IVal where
  | nil
  | str (b : Bytes)
  | num (bits : Nat)      -- a float64, by its bit pattern
deriving DecidableEq, Repr, Inhabited

/-- the implementation's reply -/
inductive IRes where
  | ok | fail | raise | nothing
  | pos (n : Nat)
  | vals (l : List IVal)
deriving DecidableEq, Repr, Inhabited

/-- `numTok`: in a result of the Model / the Spec this value is a number, given by its numeral -/
def showRes (numAt : Nat → Bool) : Res → String
  | .ok => "T"
  | .fail => "fail"
  | .raise => "raise"
  | .nothing => "none"
  | .pos n => "i" ++ toString n
  | .vals [] => "none"
  | .vals l => " ".intercalate ((List.range l.length).zip l |>.map fun
      | (_, none) => "nil"
      | (i, some b) => (if numAt i then "number:" else "s") ++ hexEncode b)

def parseBytes (t : String) : Option Bytes :=
  if t.front = 's' then some (hexDecode (t.drop 1).toString) else none

def parseIVal (t : String) : Option IVal :=
  if t = "nil" then some .nil
  else if t.front = 's' then some (.str (hexDecode (t.drop 1).toString))
  else if t.front = 'd' then (t.drop 1).toString.toNat?.map IVal.num
  else none

def parseImpl (ws : List String) : Option IRes :=
  match ws with
  | ["T"] => some .ok
  | ["fail"] => some .fail
  | ["raise"] => some .raise
  | ["none"] => some .nothing
  | [t] => if t.front = 'i' then (t.drop 1).toString.toNat?.map IRes.pos else (parseIVal t).map fun v => .vals [v]
  | _ => (ws.mapM parseIVal).map IRes.vals

/-! ### does a float64 equal the correctly rounded value of a numeral?  (exact integer arithmetic) -/

/-- is the double with significand `M`, exponent `E` (value `M·2^E`; `boundary`: `M = 2^52` and not in the lowest
    binade, so that the gap below is half the gap above) the round-to-nearest-even image of `n/d`? -/
def isNearest (n d : Nat) (M : Nat) (E : Int) (boundary : Bool) : Bool :=
  let posE := E.toNat
  let negE := (-E).toNat
  let lhs := n * 4 * 2 ^ negE
  let unit := d * 2 ^ posE
  let hi := unit * (4 * M + 2)
  let up := decide (lhs < hi) || (decide (lhs = hi) && M % 2 == 0)
  let lo := unit * (if boundary then 4 * M - 1 else 4 * M - 2)
  let down := M == 0 || decide (lo < lhs) || (decide (lhs = lo) && M % 2 == 0)
  up && down

/-- the float64 `bits` is the nearest double to `(-1)^neg · n/d` -/
def bitsDenote (neg : Bool) (n d : Nat) (bits : Nat) : Bool :=
  let sign := bits / 2 ^ 63 == 1
  let e : Nat := (bits / 2 ^ 52) % 2048
  let m : Nat := bits % 2 ^ 52
  if e == 2047 then false
  else
    (sign == neg) &&
    (if e == 0 then isNearest n d m (-1074) false
     else isNearest n d (m + 2 ^ 52) ((e : Int) - 1075) (m == 0 && e > 1))

/-- the value a numeral (of the Spec, or a token of the Model: both are Lua numerals) denotes, checked against the
    bits: the correctly rounded double, ±Inf when the value is out of range (`parseNumber` tolerates `ErrRange`;
    C: HUGE_VAL), ±0 when it is zero or rounds to zero. -/
def specDenotes (tok : Bytes) (bits : Nat) : Bool :=
  let v := numValue tok
  let sign := bits / 2 ^ 63 == 1
  -- zero, or so small that it rounds to zero (mant < 10^|tok|, the smallest subnormal is 4.9e-324): no big powers
  if v.mant = 0 ∨ v.e10 < -(2000 : Int) - tok.length then bits % 2 ^ 63 == 0 && (sign == v.neg)
  else if !roundsFinite v then bits % 2 ^ 63 == 2047 * 2 ^ 52 && (sign == v.neg)
  else if v.e10 ≥ 0 then bitsDenote v.neg (v.mant * 10 ^ v.e10.toNat) 1 bits
  else bitsDenote v.neg v.mant (10 ^ (-v.e10).toNat) bits

def tokDenotes (tok : Bytes) (bits : Nat) : Bool := specDenotes tok bits

/-- does the implementation's reply agree with a result of the Model / Spec?  `numAt i`: the i-th value is a number. -/
def agree (den : Bytes → Nat → Bool) (numAt : Nat → Bool) (r : Res) (i : IRes) : Bool :=
  match r, i with
  | .ok, .ok => true
  | .fail, .fail => true
  | .raise, .raise => true
  | .nothing, .nothing => true
  | .vals [], .nothing => true
  | .pos n, .pos k => n == k
  | .vals l, .vals k =>
    l.length == k.length &&
    ((List.range l.length).zip (l.zip k)).all fun
      | (_, none, .nil) => true
      | (j, some b, .str c) => !numAt j && b == c
      | (j, some b, .num bits) => numAt j && den b bits
      | _ => false
  | _, _ => false

def parseMode : String → Option Mode
  | "r" | "rb" => some .r
  | "w" | "wb" => some .w
  | "a" | "ab" => some .a
  | "r+" | "rb+" | "r+b" => some .rp
  | "w+" | "wb+" | "w+b" => some .wp
  | "a+" | "ab+" | "a+b" => some .ap
  | _ => none

def parseFmt (t : String) : Option Fmt :=
  if t = "l" then some .line else if t = "a" then some .all else if t = "N" then some .num
  else if t.front = 'S' then some (.str (hexDecode (t.drop 1).toString))
  else if t.front = 'n' then (t.drop 1).toString.toNat?.map Fmt.count else none

def parseOp (ws : List String) : Option Op :=
  match ws with
  | ["write", t] => (parseBytes t).map Op.write
  | "read" :: fs => (fs.mapM parseFmt).map Op.read
  | ["lines"] => some .lines
  | ["iter"] => some .iter
  | ["flush"] => some .flush
  | ["close"] => some .close
  | ["seek", w, d] =>
    (match w with | "set" => some Whence.set | "cur" => some .cur | "end" => some .«end» | _ => none).bind fun w =>
      d.toInt?.map fun d => Op.seek w d
  | ["setvbuf", m, n] =>
    (match m with | "no" => some VBuf.no | "full" => some .full | "line" => some .line | _ => none).bind fun m =>
      n.toNat?.map fun n => Op.setvbuf m n
  | ["reopen", m] => (parseMode m).map Op.reopen
  | _ => none

def parseWOp (ws : List String) : Option WOp :=
  match ws with
  | ["ioinput"] => some .ioInput
  | ["iooutput"] => some .ioOutput
  | ["ioinputname"] => some .ioInputName
  | ["iooutputname"] => some .ioOutputName
  | ["iolinesname"] => some .ioLinesName
  | "ioread" :: fs => (fs.mapM parseFmt).map WOp.ioRead
  | ["iowrite", t] => (parseBytes t).map WOp.ioWrite
  | ["ioflush"] => some .ioFlush
  | ["ioclose"] => some .ioClose
  | ["iolines"] => some .ioLines
  | ["ioiter", "auto"] => some (.ioIter true)
  | ["ioiter", "keep"] => some (.ioIter false)
  | ["iotype"] => some .ioType
  | ["tostr"] => some .toStr
  | _ => (parseOp ws).map WOp.h

/-- `*l` as the unchanged tree (and the tree after fixes/C19-1…4) delivers it: a CR directly before the LF is
    dropped together with the LF.  Used only to recognise the open finding C19-readline-strips-cr. -/
def stripCR (b : Bytes) (cur : Nat) (v : Option Bytes) : Option Bytes :=
  v.map fun l =>
    -- the line was ended by an LF (not by end of file) and its last byte is CR
    if cur + l.length < b.length ∧ l.getLast? = some 13 then l.dropLast else l

def readFmtsCR (b : Bytes) (cur : Nat) : List Fmt → List (Option Bytes)
  | [] => []
  | f :: fs =>
    match classify f with
    | .is g =>
      match readFmt b cur g with
      | (none, _) => [none]
      | (some v, c) => (if g = .line then stripCR b cur (some v) else some v) :: readFmtsCR b c fs
    | _ => []

/-- the Spec's answer with the CR-stripping variation (same cursor movement). -/
def specResCR (s : Stream) (op : Op) : Option Res :=
  if s.closed then none else
  match op with
  | .read fs =>
    let fs' := if fs = [] then [.line] else fs
    if s.canRead ∧ (readFmts s.bytes s.cur fs').2.2 = false then some (.vals (readFmtsCR s.bytes s.cur fs')) else none
  | .iter => if s.canRead then some (.vals (readFmtsCR s.bytes s.cur [.line])) else none
  | _ => none

/-- which values of a read are numbers: one value per option, in order -/
def numKinds (fs : List Fmt) : Nat → Bool :=
  let ex := (if fs = [] then [Fmt.line] else fs).flatMap IoFile.expandFmt
  fun i => ex[i]? = some Fmt.num
def numKindsSpec (fs : List Fmt) : Nat → Bool :=
  let ex := (if fs = [] then [Fmt.line] else fs)
  fun i => (ex[i]?.map classify) = some (.is .num)

def handle (st : St) (ws : List String) : St × Verdict :=
  let (args, impl) := splitArrow ws
  match args with
  | ["open", mode, content] =>
    match parseMode mode, parseBytes content with
    | some m, some b =>
      ({ m := { f := IoFile.ioOpenFile b m }, s := { s := openStream b m }, opened := true, specOn := true, pending := false }, ok)
    | _, _ => (st, { model := some "bad-op" })
  | ["disk"] =>
    if !st.opened then (st, { model := some "not-open" }) else
    match impl with
    | [t] =>
      match parseBytes t with
      | none => (st, { model := some "bad-reply" })
      | some b =>
        let mv := if b = st.m.f.disk then none else some ("s" ++ hexEncode st.m.f.disk)
        -- "visible after flush/close": compared with the Spec only when no write is still buffered
        let pend : Bool := match st.m.f.writer with | .buffered _ p => !p.isEmpty | _ => false
        let sv := if !st.specOn || pend || b == st.s.s.bytes then none
                  else some ("disk differs from the byte sequence of the Spec (spec length " ++ toString st.s.s.bytes.length ++
                             ", disk length " ++ toString b.length ++ ")")
        (st, { model := mv, spec := sv })
    | _ => (st, { model := some "bad-reply" })
  | ["iotypeother"] =>
    -- io.type(x) for four values that are not file handles: nil each time (Lua 5.1 manual: "nil if obj is not a file handle")
    (st, { model := if impl = ["4"] then none else some "4", spec := if impl = ["4"] then none else some "io.type of a non-file is not nil" })
  | ["defin"] | ["defout"] =>
    -- which handle io.input() / io.output() returns: the slot of the Model and of the Spec
    let showSlot : Slot → String := fun | .std => "std" | .cur => "cur" | .stale => "stale"
    let isIn := args = ["defin"]
    let ms := showSlot (if isIn then st.m.defIn else st.m.defOut)
    let ss := showSlot (if isIn then st.s.defIn else st.s.defOut)
    (st, { model := if impl = [ms] then none else some ms,
           spec := if !st.specOn || impl = [ss] then none else some ("default file: spec=" ++ ss) })
  | _ =>
    if !st.opened then (st, { model := some "not-open" }) else
    match parseWOp args, parseImpl impl with
    | some wop, some r =>
      if !slotOk st.s wop then (st, { model := some "default-slot-is-std" }) else
      let eop := effOp st.s wop
      -- discipline bookkeeping (Spec.disc): a write directly after an input operation leaves the property's domain
      let breaks := (match eop with | some (.write _) => st.pending | _ => false)
      let specOn := st.specOn && !breaks
      let pending := match eop with
        | some (.write _) => false
        | some op => if isInput op then true else if isSeparator op then false else st.pending
        | none => st.pending
      let reopenBad := (match eop with | some (.reopen _) => !st.m.f.closed | _ => false)
      if reopenBad then (st, { model := some "reopen-before-close" }) else
      let (m', mr) := IoFile.wstep IoFile.R0 st.m wop
      let (s', sr) := FileSpec.wstep st.s wop
      -- which values are numbers
      let rfs : Option (List Fmt) := match eop with | some (.read fs) => some fs | _ => none
      let mk : Nat → Bool := match rfs with | some fs => numKinds fs | none => fun _ => false
      let sk : Nat → Bool := match rfs with | some fs => numKindsSpec fs | none => fun _ => false
      let mv := if agree tokDenotes mk mr r then none else some (showRes mk mr)
      -- is the meaning of the call fixed by the Spec?
      let specified : Bool := match rfs with
        | some fs => st.s.s.closed || !st.s.s.canRead || readSpecified st.s.s.bytes st.s.s.cur (if fs = [] then [.line] else fs)
        | none => true
      -- an unspecified read: the Spec continues from where the implementation (= the Model) left the cursor
      let s' : WStream := if specified then s' else { s' with s := { s'.s with cur := IoFile.cursor m'.f } }
      let isLines : Bool := match eop with | some .lines => true | _ => false
      let sv : Option String :=
        if !specOn || !specified then none
        else if agree specDenotes sk sr r then none
        -- not fixed by the property: what `lines` returns on a handle that cannot be read (iterating it raises either way)
        else if isLines ∧ !st.s.s.canRead ∧ !st.s.s.closed then none
        else if mv.isNone ∧ (eop.bind (specResCR st.s.s)).map (fun x => agree specDenotes sk x r) = some true then
          some ("KF:C19-readline-strips-cr line read drops the CR before LF; spec=" ++ showRes sk sr)
        else some ("op " ++ " ".intercalate (args.take 1) ++ " spec=" ++ showRes sk sr)
      -- after a recorded deviation of a read the Spec also continues from the implementation's cursor
      let s' : WStream := if sv.isSome ∧ mv.isNone ∧ rfs.isSome then { s' with s := { s'.s with cur := IoFile.cursor m'.f } } else s'
      ({ st with m := m', s := s', specOn := specOn, pending := pending }, { model := mv, spec := sv })
    | _, _ => (st, { model := some "bad-op" })

end GLua.Eng.IoEng
