/-
  Driver engine `IO` (property C19): replays one history of file operations on the Model
  (GLua/Model/IoFile.lean, exact) and on the Spec (GLua/Spec/File.lean).

    IO open <mode> s<hex content>          (no reply compared; content = file before the open)
    IO write s<hex>            => <res>
    IO read <fmt>…             => <res>     fmt = n<count> | l | a
    IO lines | iter | flush | close        => <res>
    IO seek set|cur|end <int>  => <res>
    IO setvbuf no|full|line <size>         => <res>
    IO reopen <mode>                       (after close)
    IO disk                    => s<hex>    bytes on disk right now

    <res> = T | fail | raise | none | i<offset> | (nil | s<hex>)+
-/
import GLua.Engines.Common
import GLua.Model.IoFile
import GLua.Spec.File

namespace GLua.Eng.IoEng
open GLua GLua.Eng GLua.FileSpec

structure St where
  m : IoFile.LFile := {}
  s : Stream := {}
  opened : Bool := false
  specOn : Bool := true      -- false once the history left the discipline (Spec no longer applies)
  pending : Bool := false    -- an input operation since the last seek/flush (ISO C discipline)

def hexVal (c : UInt8) : UInt8 :=
  if c ≥ 48 && c ≤ 57 then c - 48 else if c ≥ 97 && c ≤ 102 then c - 87
  else if c ≥ 65 && c ≤ 70 then c - 55 else 0

def hexDecode (s : String) : Bytes :=
  let b := s.toUTF8
  let rec go (i : Nat) (acc : Bytes) : Bytes :=
    match i with
    | 0 => acc
    | i + 1 => go i (((hexVal (b.get! (2 * i))) <<< 4 ||| hexVal (b.get! (2 * i + 1))) :: acc)
  go (b.size / 2) []

def hexDigit (n : UInt8) : Char := if n < 10 then Char.ofNat (48 + n.toNat) else Char.ofNat (87 + n.toNat)

def hexEncode (l : Bytes) : String :=
  l.foldl (fun (s : String) (c : UInt8) => (s.push (hexDigit (c >>> (4 : UInt8)))).push (hexDigit (c &&& (15 : UInt8)))) ""

def showRes : Res → String
  | .ok => "T"
  | .fail => "fail"
  | .raise => "raise"
  | .nothing => "none"
  | .pos n => "i" ++ toString n
  | .vals l => " ".intercalate (l.map fun
      | none => "nil"
      | some b => "s" ++ hexEncode b)

def parseBytes (t : String) : Option Bytes :=
  if t.front = 's' then some (hexDecode (t.drop 1).toString) else none

def parseRes (ws : List String) : Option Res :=
  match ws with
  | ["T"] => some .ok
  | ["fail"] => some .fail
  | ["raise"] => some .raise
  | ["none"] => some .nothing
  | _ =>
    match ws with
    | [t] =>
      if t.front = 'i' then (t.drop 1).toString.toNat?.map Res.pos
      else if t = "nil" then some (.vals [none])
      else (parseBytes t).map fun b => .vals [some b]
    | _ => (ws.mapM fun t => if t = "nil" then some none else (parseBytes t).map some).map Res.vals

def parseMode : String → Option Mode
  | "r" | "rb" => some .r
  | "w" | "wb" => some .w
  | "a" | "ab" => some .a
  | "r+" | "rb+" | "r+b" => some .rp
  | "w+" | "wb+" | "w+b" => some .wp
  | "a+" | "ab+" | "a+b" => some .ap
  | _ => none

def parseFmt (t : String) : Option Fmt :=
  if t = "l" then some .line else if t = "a" then some .all
  else if t.front = 'n' then (t.drop 1).toString.toNat?.map Fmt.count else none

def parseOp (ws : List String) : Option Op :=
  match ws with
  | ["write", t] => (parseBytes t).map Op.write
  | "read" :: fs => (fs.mapM parseFmt).map Op.read
  | ["lines"] => some .lines
  | ["iter"] => some .iter
  | ["flush"] => some .flush
  | ["close"] => some .close
  | ["seek", w, d] =>
    (match w with | "set" => some Whence.set | "cur" => some .cur | "end" => some .«end» | _ => none).bind fun w =>
      d.toInt?.map fun d => Op.seek w d
  | ["setvbuf", m, n] =>
    (match m with | "no" => some VBuf.no | "full" => some .full | "line" => some .line | _ => none).bind fun m =>
      n.toNat?.map fun n => Op.setvbuf m n
  | ["reopen", m] => (parseMode m).map Op.reopen
  | _ => none

/-- `*l` as the unchanged tree (and the tree after fixes/C19-1…4) delivers it: a CR directly before the LF is
    dropped together with the LF.  Used only to recognise the open finding C19-readline-strips-cr. -/
def stripCR (b : Bytes) (cur : Nat) (v : Option Bytes) : Option Bytes :=
  v.map fun l =>
    -- the line was ended by an LF (not by end of file) and its last byte is CR
    if cur + l.length < b.length ∧ l.getLast? = some 13 then l.dropLast else l

def readFmtsCR (b : Bytes) (cur : Nat) : List Fmt → List (Option Bytes)
  | [] => []
  | f :: fs =>
    match readFmt b cur f with
    | (none, _) => [none]
    | (some v, c) => (if f = .line then stripCR b cur (some v) else some v) :: readFmtsCR b c fs

/-- the Spec's answer with the CR-stripping variation (same cursor movement). -/
def specResCR (s : Stream) (op : Op) : Option Res :=
  if s.closed then none else
  match op with
  | .read fs => if s.canRead then some (.vals (readFmtsCR s.bytes s.cur (if fs = [] then [.line] else fs))) else none
  | .iter => if s.canRead then some (.vals (readFmtsCR s.bytes s.cur [.line])) else none
  | _ => none

def handle (st : St) (ws : List String) : St × Verdict :=
  let (args, impl) := splitArrow ws
  match args with
  | ["open", mode, content] =>
    match parseMode mode, parseBytes content with
    | some m, some b =>
      ({ m := IoFile.ioOpenFile b m, s := openStream b m, opened := true, specOn := true, pending := false }, ok)
    | _, _ => (st, { model := some "bad-op" })
  | ["disk"] =>
    if !st.opened then (st, { model := some "not-open" }) else
    match impl with
    | [t] =>
      match parseBytes t with
      | none => (st, { model := some "bad-reply" })
      | some b =>
        let mv := if b = st.m.disk then none else some ("s" ++ hexEncode st.m.disk)
        -- "visible after flush/close": compared with the Spec only when no write is still buffered
        let pend : Bool := match st.m.writer with | .buffered _ p => !p.isEmpty | _ => false
        let sv := if !st.specOn || pend || b == st.s.bytes then none
                  else some ("disk differs from the byte sequence of the Spec (spec length " ++ toString st.s.bytes.length ++
                             ", disk length " ++ toString b.length ++ ")")
        (st, { model := mv, spec := sv })
    | _ => (st, { model := some "bad-reply" })
  | _ =>
    if !st.opened then (st, { model := some "not-open" }) else
    match parseOp args, parseRes impl with
    | some op, some r =>
      -- discipline bookkeeping (Spec.disc): a write directly after an input operation leaves the property's domain
      let breaks := (match op with | .write _ => st.pending | _ => false)
      let specOn := st.specOn && !breaks
      let pending := match op with
        | .write _ => false
        | _ => if isInput op then true else if isSeparator op then false else st.pending
      let reopenBad := (match op with | .reopen _ => !st.m.closed | _ => false)
      if reopenBad then (st, { model := some "reopen-before-close" }) else
      let (m', mr) := IoFile.step IoFile.R0 st.m op
      let sop := op
      let (s', sr) := FileSpec.step st.s sop
      let mv := if mr = r then none else some (showRes mr)
      let sv : Option String :=
        if !specOn then none
        else if sr = r then none
        -- not fixed by the property: what `lines` returns on a handle that cannot be read (iterating it raises either way)
        else if op = .lines ∧ !st.s.canRead ∧ !st.s.closed then none
        else if mv.isNone ∧ specResCR st.s sop = some r then
          some ("KF:C19-readline-strips-cr line read drops the CR before LF; spec=" ++ showRes sr)
        else some ("op " ++ " ".intercalate (args.take 1) ++ " spec=" ++ showRes sr)
      ({ st with m := m', s := s', specOn := specOn, pending := pending }, { model := mv, spec := sv })
    | _, _ => (st, { model := some "bad-op" })

end GLua.Eng.IoEng
