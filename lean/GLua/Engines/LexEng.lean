/-
  Driver engine for C08 (engine word `L`).

    L lex <valid 0|1> <hex input | -> => <fn|err> <tok>* [<E:…>]
        tok = <type>:<hex Str>:<line>:<col>:<PNewLine 0|1>      (the EOF token included)
        E   = E:<hex message>:<hex token>:<line>:<col>           (lexical error, ends the stream)
      Model : the whole token stream (exact, incl. line/column/PNewLine and the error);  a lexical error of the
              model predicts the outcome `err`
      Spec  : if the Lua 5.1 lexical grammar yields tokens, the implementation's tokens must be those (kind,
              spelling / denoted string, line); if it rejects the text, the load must fail; a text the generator
              produced from the grammar (valid = 1) must load
    L num <hex numeral> => <wire number | nan | err>
      Model : scanNumber + `parseNumber` (Lua numeral grammar) on digit-only and hexadecimal numerals below 2^53
      Spec  : the integer the numeral denotes (when it denotes one below 2^53)
-/
import GLua.Engines.Common
import GLua.Model.Lexer
import GLua.Spec.LexSpec

namespace GLua.Eng.LexEng
open GLua GLua.Eng

def hexDigit (c : Char) : Option Nat :=
  if '0' ≤ c ∧ c ≤ '9' then some (c.toNat - 48)
  else if 'a' ≤ c ∧ c ≤ 'f' then some (c.toNat - 87)
  else if 'A' ≤ c ∧ c ≤ 'F' then some (c.toNat - 55)
  else none

def hexToBytes (s : String) : Option (List UInt8) :=
  if s = "-" then some [] else
  let rec go : List Char → List UInt8 → Option (List UInt8)
    | [], acc => some acc.reverse
    | [_], _ => none
    | a :: b :: r, acc =>
      match hexDigit a, hexDigit b with
      | some x, some y => go r (UInt8.ofNat (x * 16 + y) :: acc)
      | _, _ => none
  go s.toList []

def hexChar (n : Nat) : Char := if n < 10 then Char.ofNat (48 + n) else Char.ofNat (87 + n)

def bytesToHex (bs : List UInt8) : String :=
  String.ofList (bs.foldr (fun b acc => hexChar (b.toNat / 16) :: hexChar (b.toNat % 16) :: acc) [])

def showTok (t : Lexer.Token) (pnl : Bool) : String :=
  toString t.type ++ ":" ++ bytesToHex t.str ++ ":" ++ toString t.line ++ ":" ++ toString t.col ++ ":" ++
    (if pnl then "1" else "0")

def showErr (e : Lexer.LexErr) : String :=
  "E:" ++ bytesToHex e.msg.toUTF8.toList ++ ":" ++ bytesToHex e.tok ++ ":" ++ toString e.line ++ ":" ++ toString e.col

def showModel (r : Lexer.LexAll) : List String :=
  r.toks.map (fun p => showTok p.1 p.2) ++ (match r.err with | none => [] | some e => [showErr e])

/-- first index at which two lists differ. -/
def firstDiff : List String → List String → Nat → Option (Nat × String × String)
  | [], [], _ => none
  | a :: r, [], i => some (i, a, "<none>")
  | [], b :: r, i => some (i, "<none>", b)
  | a :: r, b :: r', i => if a = b then firstDiff r r' (i + 1) else some (i, a, b)

/-- an implementation token as far as the Spec looks at it. -/
structure ITok where
  type : Int
  str  : List UInt8
  line : Int
  pnl  : Bool

def parseITok (s : String) : Option ITok :=
  match s.splitOn ":" with
  | [ty, str, line, _, pnl] =>
    match ty.toInt?, hexToBytes (if str = "" then "-" else str), line.toInt? with
    | some ty, some b, some l => some { type := ty, str := b, line := l, pnl := pnl = "1" }
    | _, _, _ => none
  | _ => none

open Generated.Lexer in
/-- does implementation token `t` realise spec token `st`? -/
def tokMatches (st : LexSpec.STok) (t : ITok) : Bool :=
  t.line == (st.line : Int) &&
  (match st.kind with
   | .name => t.type == (TIdent : Int) && t.str == st.text
   | .keyword => t.str == st.text && t.type != (TIdent : Int) && t.type > 256
   | .string => t.type == (TString : Int) && t.str == st.text
   | .number => t.type == (TNumber : Int)
   | .symbol =>
     match st.text with
     | [c] => t.type == (c.toNat : Int)         -- single character tokens carry their character as type
     | _ => t.str == st.text && t.type > 256)

def showSTok (st : LexSpec.STok) : String :=
  (match st.kind with
   | .name => "name" | .keyword => "keyword" | .symbol => "symbol" | .string => "string" | .number => "number")
  ++ ":" ++ bytesToHex st.text ++ "@" ++ toString st.line

/-- compare the Spec's tokens with the implementation's stream (which ends with EOF or an error entry).
    `prev` = the previous Spec token: the reference parser reports "ambiguous syntax (function call x new statement)"
    when a `(` continuing an expression is on a later line than the token before it; the implementation keeps that
    information in `PNewLine` (only after `)`), which therefore has to be "the `(` is on another line than the `)`". -/
def specCompare : Option LexSpec.STok → List LexSpec.STok → List String → Nat → Option String
  | _, [], [e], _ => if e.startsWith "-1:" then none else some ("expected end of input, implementation gave " ++ e)
  | _, [], _, i => some ("implementation token count differs at " ++ toString i)
  | _, st :: _, [], i => some ("implementation stream ends at token " ++ toString i ++ ", expected " ++ showSTok st)
  | prev, st :: r, t :: r', i =>
    if t.startsWith "E:" then some ("lexical error at token " ++ toString i ++ " where the grammar has " ++ showSTok st)
    else match parseITok t with
      | none => some ("malformed token " ++ t)
      | some it =>
        if !tokMatches st it then some ("token " ++ toString i ++ " is " ++ t ++ ", the grammar has " ++ showSTok st)
        else
          let wantPnl : Bool := match prev with
            | some p => p.kind == .symbol && p.text == [41] && st.kind == .symbol && st.text == [40] && p.line != st.line
            | none => false
          if it.pnl != wantPnl then
            some ("newline-before-parenthesis flag of token " ++ toString i ++ " is " ++ toString it.pnl ++
                  " but the `(` is on line " ++ toString st.line ++ " and the preceding `)` on line " ++
                  toString (prev.map (·.line)).get!)
          else specCompare (some st) r r' (i + 1)

def containsSub (s sub : String) : Bool := (s.splitOn sub).length > 1

/-- known-finding classes (see known_findings.jsonl); only consulted when Impl = Model. -/
def classify (mdl : Lexer.LexAll) (spec : LexSpec.Res) (reason : String) : String :=
  match spec, mdl.err with
  | .ok _, some e =>
    if e.msg = "Invalid token" ∧ (e.tok = [12] ∨ e.tok = [11]) then "KF:C08-formfeed-vt-not-blank " ++ reason
    else reason
  | _, _ => reason

def handleLex (valid : Bool) (input : List UInt8) (impl : List String) : Verdict :=
  match impl with
  | [] => { model := some "bad-reply" }
  | outcome :: itoks =>
    let mdl := Lexer.lex input
    let mtoks := showModel mdl
    let m1 : Option String :=
      match firstDiff mtoks itoks 0 with
      | some (i, a, b) => some ("token#" ++ toString i ++ " model=" ++ a ++ " impl=" ++ b)
      | none => if mdl.err.isSome ∧ outcome ≠ "err" then some "err (the model has a lexical error)" else none
    let spec := LexSpec.lex input
    let sp : Option String :=
      match spec with
      | .ok stoks =>
        match specCompare none stoks itoks 0 with
        | some r => some r
        | none => if valid ∧ outcome ≠ "fn" then some "a program generated from the grammar was rejected" else none
      | .reject why =>
        if outcome = "fn" then some ("accepted a text outside the lexical grammar (" ++ why ++ ")") else none
      | .unspecified _ =>
        if valid ∧ outcome ≠ "fn" then some "a program generated from the grammar was rejected" else none
    { model := m1, spec := if m1.isNone then sp.map (classify mdl spec) else sp }

/-- `parseNumber` (utils.go, Lua 5.1 numeral grammar) on the `Str` of a number token, for the classes where the value
    is predicted exactly: digit-only decimal numerals (leading zeros are plain decimal digits) and hexadecimal
    integers, both below 2^53.  `none` = not predicted (rounding is C16's subject). -/
def parseNumberModel (t : List UInt8) : Option String :=
  let showV (v : Nat) : Option String := if v < 2 ^ 53 then some ("i" ++ toString v) else none
  match t with
  | 48 :: x :: hs =>
    if x == 120 || x == 88 then
      if hs ≠ [] ∧ hs.all LexSpec.isHex then showV (LexSpec.hexVal hs) else none
    else if t.all LexSpec.isDigit then showV (LexSpec.digitsVal t) else none
  | _ => if t ≠ [] ∧ t.all LexSpec.isDigit then showV (LexSpec.digitsVal t) else none

def handleNum (text : List UInt8) (impl : List String) : Verdict :=
  let mdl := Lexer.lex text
  let mpred : Option String :=
    match mdl.toks, mdl.err with
    | [(t, _), (e, _)], none =>
      if t.type = (Generated.Lexer.TNumber : Int) ∧ e.type = -1 then parseNumberModel t.str else none
    | _, _ => none
  let m1 := match mpred with
    | some p => cmpModel p impl
    | none => none
  let sp : Option String :=
    if (LexSpec.numeralExtent text).2 = [] ∧ (LexSpec.numeralExtent text).1 = text ∧ text ≠ [] then
      match LexSpec.numeralInt text with
      | some v => if impl = ["i" ++ toString v] then none else some ("the numeral denotes " ++ toString v)
      | none => none
    else none
  { model := m1, spec := sp }

def handle (ws : List String) : Verdict :=
  let (args, impl) := splitArrow ws
  match args with
  | ["lex", v, hex] =>
    match hexToBytes hex with
    | some input => handleLex (v = "1") input impl
    | none => { model := some "bad-hex" }
  | ["num", hex] =>
    match hexToBytes hex with
    | some t => handleNum t impl
    | none => { model := some "bad-hex" }
  | _ => { model := some "bad-op" }

end GLua.Eng.LexEng
