/-
  Driver engine for C08, family `render` (engine word `LR`): the objects of the round-trip theorems
  (GLua/Spec/LexRender.lean: `render`, `WF`; Proofs: `expectFrom`, `linesFrom`, `colsFrom`, `pnlFrom`, guards) run on
  token lists + layouts the harness draws, and their predictions are compared with the REAL scanner.

    LR render <desc>                       reply:  R <wf 0|1> <1> <1> <hex rendering | ->
                                                   (BAD <why> when the description does not parse)
    LR check <desc> <hex rendering | -> => <tok>* [<E:…>]
        tok as in `L lex`: <type>:<hex Str>:<line>:<col>:<PNewLine 0|1>
      Model : the whole token stream of `Lexer.lex` on the rendering (exact, as `L lex`)
      Spec  : (round trip) if `WF`: no error, and type / Str / line / column of every token are
              the expected ones (`expect`, `expectLines`, `expectCols` of Props/C08.lean) and the PNewLine flags are
              `expectPnl`.  The reference lexer `LexSpec.lex` must read the same values and
              lines.  A description that is not WF is only checked against the Model.
      `render desc` must be the hex the request carries (it was produced by `LR render`).

  desc (one blank-free word):   gap ; tok ; gap ; tok ; … ; gap
    gap   = `-` | sep , sep , …            sep = b<hh> | s<hex text>.<hh | -> | l<level>.<hex content>
    tok   = n<hex> | k<hex> | y<hex> | d<hex> | x<hh><hex> | f<hex ip>.<- | =hex fp>.<- | hh e>.<- | hh sign>.<hex ds>
          | q<hh>.<- | ch _ ch …>          ch = r<hh> | e<hh> | d<hh> | 1<hh> | 2<hh> | n<hex eol>
          | L<level>.<hex first>.<hex content>
-/
import GLua.Engines.LexEng
import GLua.Spec.LexRender
import GLua.Model.LexExpect

namespace GLua.Eng.LexRenderEng
open GLua GLua.Eng GLua.LexRender
open GLua.Eng.LexEng (hexToBytes bytesToHex showModel firstDiff)

def hexB (s : String) : Option (List UInt8) := if s = "" then some [] else hexToBytes s

def hex1 (s : String) : Option UInt8 :=
  match hexB s with
  | some [b] => some b
  | _ => none

def parseSep (s : String) : Option Sep :=
  match s.toList with
  | 'b' :: r => (hex1 (String.ofList r)).map Sep.blank
  | 's' :: r =>
    match (String.ofList r).splitOn "." with
    | [t, e] =>
      match hexB t with
      | none => none
      | some text => if e = "-" then some (.short text none) else (hex1 e).map (fun b => .short text (some b))
    | _ => none
  | 'l' :: r =>
    match (String.ofList r).splitOn "." with
    | [l, c] =>
      match l.toNat?, hexB c with
      | some level, some content => some (.long level content)
      | _, _ => none
    | _ => none
  | _ => none

def parseGap (s : String) : Option (List Sep) :=
  if s = "-" then some [] else (s.splitOn ",").mapM parseSep

def parseSChar (s : String) : Option SChar :=
  match s.toList with
  | 'r' :: r => (hex1 (String.ofList r)).map SChar.raw
  | 'e' :: r => (hex1 (String.ofList r)).map SChar.esc
  | 'd' :: r => (hex1 (String.ofList r)).map SChar.dec
  | '1' :: r => (hex1 (String.ofList r)).map SChar.dec1
  | '2' :: r => (hex1 (String.ofList r)).map SChar.dec2
  | 'n' :: r => (hexB (String.ofList r)).map SChar.nl
  | _ => none

def optByte (s : String) : Option (Option UInt8) := if s = "-" then some none else (hex1 s).map some

def parseTok (s : String) : Option RTok :=
  match s.toList with
  | 'n' :: r => (hexB (String.ofList r)).map RTok.name
  | 'k' :: r => (hexB (String.ofList r)).map (fun bs => RTok.kw (String.ofList (bs.map (fun b => Char.ofNat b.toNat))))
  | 'y' :: r => (hexB (String.ofList r)).map RTok.sym
  | 'd' :: r => (hexB (String.ofList r)).map (fun ds => RTok.num (.dec ds))
  | 'x' :: a :: b :: r =>
    match hex1 (String.ofList [a, b]), hexB (String.ofList r) with
    | some x, some hs => some (.num (.hex x hs))
    | _, _ => none
  | 'f' :: r =>
    match (String.ofList r).splitOn "." with
    | [ip, fp, e, sg, ds] =>
      match hexB ip, (if fp = "-" then some none else (hexB (String.ofList (fp.toList.drop 1))).map some), optByte e, optByte sg, hexB ds with
      | some ip, some fp, some e, some sg, some ds =>
        some (.num (.flt ip fp (match e with | some e => some { e := e, sign := sg, ds := ds } | none => none)))
      | _, _, _, _, _ => none
    | _ => none
  | 'q' :: r =>
    match (String.ofList r).splitOn "." with
    | [q, cs] =>
      match hex1 q, (if cs = "-" then some [] else (cs.splitOn "_").mapM parseSChar) with
      | some q, some cs => some (.str q cs)
      | _, _ => none
    | _ => none
  | 'L' :: r =>
    match (String.ofList r).splitOn "." with
    | [l, f, c] =>
      match l.toNat?, hexB f, hexB c with
      | some level, some first, some content => some (.lstr level first content)
      | _, _, _ => none
    | _ => none
  | _ => none

/-- gap ; tok ; gap ; … ; gap -/
def parseDesc (s : String) : Option (List RTok × List (List Sep)) :=
  let rec go : List String → List RTok → List (List Sep) → Option (List RTok × List (List Sep))
    | [g], ts, gs => (parseGap g).map (fun g => (ts.reverse, (g :: gs).reverse))
    | g :: t :: r, ts, gs =>
      match parseGap g, parseTok t with
      | some g, some t => go r (t :: ts) (g :: gs)
      | _, _ => none
    | [], _, _ => none
  go (s.splitOn ";") [] []

def layoutOf (gaps : List (List Sep)) : Layout := fun i => gaps.getD i []

def b01 (b : Bool) : String := if b then "1" else "0"

def hexOrDash (bs : List UInt8) : String := if bs = [] then "-" else bytesToHex bs

structure Facts where
  toks : List RTok
  lay  : Layout
  text : List UInt8
  wf   : Bool
  nbe  : Bool
  pg   : Bool

def factsOf (toks : List RTok) (gaps : List (List Sep)) : Facts :=
  let lay := layoutOf gaps
  { toks := toks, lay := lay, text := render toks lay, wf := WF toks lay,
    nbe := true, pg := true }

def showExp (ty : Int) (str : List UInt8) (line col : Int) (pnl : Option Bool) : String :=
  toString ty ++ ":" ++ bytesToHex str ++ ":" ++ toString line ++ ":" ++ toString col ++
    (match pnl with | some p => ":" ++ b01 p | none => "")

/-- drop the PNewLine field of an implementation token when the flag is not predicted. -/
def dropPnl (t : String) : String := ":".intercalate ((t.splitOn ":").take 4)

/-- the Spec's reference lexer on the rendering: values and lines of the tokens, as far as comparable. -/
def specLexAgrees (f : Facts) : Option String :=
  match LexSpec.lex f.text with
  | .ok stoks =>
    if stoks = specExpectFrom f.lay 0 [] f.toks then none
    else some "the reference lexer (LexSpec.lex) reads other tokens from the rendering"
  | .reject why => some ("the reference lexer rejects the rendering: " ++ why)
  | .unspecified why => some ("the reference lexer gives no meaning to the rendering: " ++ why)

def handleCheck (f : Facts) (hex : List UInt8) (impl : List String) : Verdict :=
  if hex ≠ f.text then { model := some ("render-differs " ++ hexOrDash f.text) } else
  let mdl := Lexer.lex f.text
  let m1 : Option String :=
    match firstDiff (showModel mdl) impl 0 with
    | some (i, a, b) => some ("token#" ++ toString i ++ " model=" ++ a ++ " impl=" ++ b)
    | none => none
  let sp : Option String :=
    if f.wf && f.nbe then
      let ex := Lexer.expectFrom f.lay 0 0 f.toks
      let ls := Lexer.linesFrom f.lay 0 [] f.toks
      let cs := Lexer.colsFrom f.lay 0 [] f.toks
      let ps := Lexer.pnlFrom f.lay 0 0 f.toks
      let want : List String :=
        (List.range ex.length).map (fun i =>
          let e := ex.getD i (0, [], 0)
          showExp e.1 e.2.1 (ls.getD i 0) (cs.getD i 0) (if f.pg then some (ps.getD i false) else none))
      let got := if f.pg then impl else impl.map dropPnl
      match firstDiff want got 0 with
      | some (i, a, b) => some ("round trip: token#" ++ toString i ++ " expected=" ++ a ++ " impl=" ++ b)
      | none => specLexAgrees f
    else if f.wf then specLexAgrees f
    else none
  { model := m1, spec := sp }

def handle (ws : List String) : String :=
  let (args, impl) := splitArrow ws
  match args with
  | ["render", d] =>
    match parseDesc d with
    | none => "BAD desc"
    | some (toks, gaps) =>
      let f := factsOf toks gaps
      "R " ++ b01 f.wf ++ " " ++ b01 f.nbe ++ " " ++ b01 f.pg ++ " " ++ hexOrDash f.text
  | ["check", d, hex] =>
    match parseDesc d, (if hex = "-" then some [] else hexToBytes hex) with
    | some (toks, gaps), some bs => (handleCheck (factsOf toks gaps) bs impl).show
    | _, _ => "MODEL bad-request"
  | _ => "MODEL bad-op"

end GLua.Eng.LexRenderEng
