/-
  Driver engine of C12 (engine word `C12`):
    csnew fixed|auto <size>                         => ok | gopanic
    cs push <tag> | pop | last | at <i> | setsp <n> | sp | isfull | isempty
                                                    => ok | nil | f <tag> <idx> | <n> | T | F | gopanic
    rnew <size> <growBy> <maxSize>
    r push <v> | pop | get <i> | set <i> <v> | settop <n> | copyrange <regv> <start> <limit> <n>
      | fillnil <regm> <n> | insert <v> <reg> | top | cap | isfull | dump
                                                    => ok | overflow | gopanic | <v> | GONIL | <n> | T | F | <cap> <top> <slots…>
    prog <family> <n> <m>                           (starts a program case)
    prun <cs> <min> <rs> <rmax> <step> <ctx>        => <status> <trace> <probe> <freshprobe>
  Each request is replayed on the Model (exact: `MODEL` verdict) and judged by the Spec (`SPEC` verdict).
-/
import GLua.Engines.Common
import GLua.Model.CallStack
import GLua.Model.Registry
import GLua.Spec.LimitsSpec

namespace GLua.Eng.LimitsEng
open GLua GLua.Eng GLua.LimitsSpec GLua.CallStack GLua.Registry

inductive Stack where
  | fixed (s : Fixed)
  | auto (s : Auto)

structure ProgRun where
  callLim : Nat
  regLim : Nat
  trace : List String
  kf : Bool := false      -- the configuration is in a known-finding class

structure St where
  stack : Option Stack := none            -- none: not created / dead after a Go panic
  cap : Nat := 0
  sstack : Option (List Frame) := none    -- Spec state; none once the history left the contract
  reg : Option Reg := none
  rlimit : Nat := 0
  sreg : Option (List OVal) := none
  runs : List ProgRun := []
  family : String := ""                   -- program family and size of the current program case
  progN : Nat := 0

def showObs : Obs → String
  | .unit => "ok" | .nil => "nil" | .frame f => "f " ++ toString f.tag ++ " " ++ toString f.idx
  | .stale => "stale" | .nat n => toString n | .bool b => if b then "T" else "F"

def showRV : RV → String
  | .goNil => "GONIL" | .val v => OVal.show v

def showRObs : RObs → String
  | .unit => "ok" | .val v => OVal.show v | .nat n => toString n | .any => "any"

def parseOp : List String → Option Op
  | ["push", t] => t.toInt?.map .push
  | ["pop"] => some .pop | ["last"] => some .last
  | ["at", i] => i.toNat?.map .at
  | ["setsp", n] => n.toNat?.map .setSp
  | ["sp"] => some .sp | ["isfull"] => some .isFull | ["isempty"] => some .isEmpty
  | _ => none

def stackStep : Stack → Op → Except Err (Stack × Obs)
  | .fixed s, op => (s.step op).map (fun p => (.fixed p.1, p.2))
  | .auto s, op => (s.step op).map (fun p => (.auto p.1, p.2))

def isGoPanic (impl : List String) : Bool :=
  match impl with
  | w :: _ => w.startsWith "gopanic"
  | [] => false

def handleCs (st : St) (op : Op) (impl : List String) : St × Verdict :=
  match st.stack with
  | none => (st, ok)     -- dead after a Go panic (both sides): nothing more is compared in this case
  | some stk =>
    let implS := " ".intercalate impl
    -- Spec
    let (sstack', spec) : Option (List Frame) × Option String :=
      match st.sstack with
      | none => (none, none)
      | some l => match LimitsSpec.step st.cap l op with
        | none => (none, none)       -- outside the contract from here on
        | some (l', o) =>
          (some l', if implS = showObs o then none else some ("callstack: spec=" ++ showObs o ++ " at depth " ++ toString l.length ++ " of " ++ toString st.cap))
    match stackStep stk op with
    | .error e =>
      ({ st with stack := none, sstack := none },
        { model := if isGoPanic impl then none else some e.show, spec := spec })
    | .ok (stk', o) =>
      let m := match o with
        | .stale => if impl.head? = some "f" then none else some "f <stale>"
        | _ => cmpModel (showObs o) impl
      ({ st with stack := some stk', sstack := sstack' }, { model := m, spec := spec })

def parseROp : List String → Option ROp
  | ["push", v] => (parseVal v).map .push
  | ["pop"] => some .pop
  | ["get", i] => i.toNat?.map .get
  | ["set", i, v] => do let i ← i.toNat?; let v ← parseVal v; pure (.set i v)
  | ["settop", n] => n.toNat?.map .setTop
  | ["copyrange", a, b, c, d] => do
      let a ← a.toNat?; let b ← b.toInt?; let c ← c.toInt?; let d ← d.toNat?; pure (.copyRange a b c d)
  | ["fillnil", a, b] => do let a ← a.toNat?; let b ← b.toNat?; pure (.fillNil a b)
  | ["insert", v, i] => do let v ← parseVal v; let i ← i.toNat?; pure (.insert v i)
  | ["top"] => some .top
  | ["isfull"] => some .isFull
  | _ => none

/-- rebuild the slot function from a table (keeps lookups O(1) in long histories; extensionally the same). -/
def compact (r : Reg) : Reg :=
  let a : Array RV := Array.ofFn (n := r.cap) (fun i => r.array i.val)
  { r with array := fun i => a.getD i (r.array i) }

def handleR (st : St) (args : List String) (impl : List String) : St × Verdict :=
  match st.reg with
  | none => (st, ok)
  | some r =>
    let implS := " ".intercalate impl
    match args with
    | ["cap"] => (st, { model := cmpModel (toString r.cap) impl })
    | ["dump"] =>
      let slots := (List.range r.cap).map (fun i => showRV (r.array i))
      let m := " ".intercalate (toString r.cap :: toString r.top :: slots)
      let sp := match st.sreg with
        | none => none
        | some l =>
          let want := l.map OVal.show
          let got := (impl.drop 2).take l.length
          if impl.head? = some (toString r.cap) ∧ (impl.drop 1).head? = some (toString l.length) ∧ got = want then none
          else some ("registry: live prefix differs, spec top=" ++ toString l.length ++ " [" ++ " ".intercalate want ++ "]")
      (st, { model := if implS = m then none else some m, spec := sp })
    | ["isfull"] => (st, { model := cmpModel (if r.isFull then "T" else "F") impl })
    | _ =>
    match parseROp args with
    | none => (st, { model := some "bad-op" })
    | some op =>
      let (sreg', spec) : Option (List OVal) × Option String :=
        match st.sreg with
        | none => (none, none)
        | some l => match rstepL st.rlimit l op with
          | none => (none, none)
          | some .overflow =>
            (some l, if implS = "overflow" then none else some ("registry: spec=overflow (needs more than the limit " ++ toString st.rlimit ++ ")"))
          | some (.ok l' o) =>
            (some l', if o = .any ∨ implS = showRObs o then none
                      else some ("registry: spec=" ++ showRObs o ++ " (top " ++ toString l.length ++ ", limit " ++ toString st.rlimit ++ ")"))
      match r.step op with
      | .error (.luaError _) =>
        -- overflow: the state is unchanged
        ({ st with sreg := sreg' }, { model := cmpModel "overflow" impl, spec := spec })
      | .error e =>
        ({ st with reg := none, sreg := none }, { model := if isGoPanic impl then none else some e.show, spec := spec })
      | .ok (r', o) =>
        let m := match op, o with
          | .pop, _ => cmpModel (showRV ((r.pop.toOption.map (·.2)).getD .goNil)) impl
          | .get i, _ => cmpModel (showRV ((r.get i).toOption.getD .goNil)) impl
          | _, o => cmpModel (showRObs o) impl
        ({ st with reg := some (compact r'), sreg := sreg' }, { model := m, spec := spec })

/-! ### whole programs under a configuration -/

def hasSub (s sub : String) : Bool := (s.splitOn sub).length > 1

def limitHit (e : String) : Bool := hasSub e "E:SO" || hasSub e "E:RO"

/-- compare two traces entry by entry up to the first entry that reports a limit error.
    `aLe`: the limits of configuration `a` are ≤ those of `b` in both dimensions (`bLe` likewise).  An entry where
    only one side reports a limit error is a failure exactly when the *other* side is the smaller-or-equal
    configuration (for incomparable configurations either may reach a limit first). -/
partial def cmpPrefix (a b : List String) (aLe bLe : Bool) (i : Nat) : Option String :=
  let only (hit other : String) (otherLe : Bool) : Option String :=
    if otherLe then some ("limit error only under the larger configuration at entry " ++ toString i ++ ": " ++ hit ++ " vs " ++ other)
    else none
  match a, b with
  | [], [] => none
  | x :: ra, y :: rb =>
    if limitHit x ∧ limitHit y then none
    else if limitHit x then only x y bLe
    else if limitHit y then only y x aLe
    else if x = y then cmpPrefix ra rb aLe bLe (i + 1)
    else some ("traces differ at entry " ++ toString i ++ ": " ++ x ++ " vs " ++ y)
  | x :: _, [] => if limitHit x then only x "<end>" bLe else some ("trace has extra entry " ++ toString i ++ ": " ++ x)
  | [], y :: _ => if limitHit y then only y "<end>" aLe else some ("trace lacks entry " ++ toString i ++ ": " ++ y)

def optionsOf (cs mn rs rmax step : Int) : Options :=
  { callStackSize := cs, minimizeStackMemory := mn ≠ 0, registrySize := rs, registryMaxSize := rmax, registryGrowStep := step }

def handleRun (st : St) (cfg : List String) (impl : List String) : St × Verdict :=
  match cfg.map String.toInt?, impl with
  | [some cs, some mn, some rs, some rmax, some step, some _ctx], [status, trace, probe, fresh] =>
    let o := optionsOf cs mn rs rmax step
    let cl := callLimit Generated.CallStackSize Generated.FramesPerSegment o
    let rl := regLimit Generated.RegistrySize o
    let tr := trace.splitOn ";"
    -- known-finding class: auto-growing stack whose segment count does not fit the uint16 segment index
    -- (the Model's `Push` truncates in the same way)
    let kf : Bool := mn ≠ 0 ∧ cs ≥ 1 ∧ Auto.segIdxTruncates cs.toNat
    let me : ProgRun := { callLim := cl, regLim := rl, trace := tr, kf := kf }
    let v1 : Option String := if status = "ok" then none else some ("not an ordinary Lua error: " ++ status)
    let v2 : Option String := if probe = fresh then none else some ("state differs from a fresh state after the run: probe " ++ probe ++ " vs fresh " ++ fresh)
    -- against the first run with the same limits: identical; against the first run of the case: prefix rule
    let same := st.runs.find? (fun r => r.callLim = cl ∧ r.regLim = rl)
    let v3 : Option String := match same with
      | some r => if r.trace = tr then none else
          some ("same limits (" ++ toString cl ++ "," ++ toString rl ++ ") but " ++
                ((cmpPrefix r.trace tr false false 0).getD "traces differ after a limit error"))
      | none => none
    let v4 : Option String := match st.runs.head? with
      | some r => cmpPrefix tr r.trace (cl ≤ r.callLim ∧ rl ≤ r.regLim) (r.callLim ≤ cl ∧ r.regLim ≤ rl) 0
      | none => none
    -- absolute oracle for the plain recursion families (one frame per active Lua or Go function: main chunk,
    -- pcall, rec(n)…rec(0); inside a coroutine: its body, pcall, rec(n)…rec(0)); only where the registry
    -- cannot be the binding limit
    let v5 : Option String :=
      if rl ≥ 5120 ∧ st.progN ≤ 1000 then
        if st.family = "rec" then
          let want := if cl < 2 then "err=run:E:SO" else if st.progN + 3 ≤ cl then "\"a,T,i" ++ toString st.progN else "\"a,F,E:SO"
          if tr.head? = some want then none else some ("call depth " ++ toString (st.progN + 3) ++ " under capacity " ++ toString cl ++ ": expected first entry " ++ want ++ ", got " ++ (tr.head?.getD "<none>"))
        else if st.family = "coroutine" ∧ cl ≥ 3 then
          let want := if st.progN + 3 ≤ cl then "\"a,T,T,i" ++ toString st.progN else "\"a,T,F,E:SO"
          if tr.head? = some want then none else some ("call depth " ++ toString (st.progN + 3) ++ " inside a coroutine under capacity " ++ toString cl ++ ": expected first entry " ++ want ++ ", got " ++ (tr.head?.getD "<none>"))
        else none
      else none
    let sp := match v1, v2, v3, v4, v5 with
      | some a, _, _, _, _ => some a
      | _, some b, _, _, _ => some b
      | _, _, some c, _, _ => some c
      | _, _, _, some d, _ => some d
      | _, _, _, _, e => e
    -- a disagreement with a run of a known-finding configuration belongs to that finding as well
    let kfAny := kf || (st.runs.head?.map (·.kf)).getD false || (same.map (·.kf)).getD false
    let pre := if kfAny then "KF:C12-autostack-segidx-uint16 options: " else "options: "
    ({ st with runs := st.runs ++ [me] }, { spec := sp.map (fun s => pre ++ s) })
  | _, _ => (st, { model := some "bad-op" })

def handle (st : St) (ws : List String) : St × Verdict :=
  let (args, impl) := splitArrow ws
  match args with
  | ["csnew", kind, size] =>
    match size.toNat? with
    | none => (st, { model := some "bad-op" })
    | some size =>
      let fps := Generated.FramesPerSegment
      if kind = "fixed" then
        ({ st with stack := some (.fixed (Fixed.new size)), cap := capacity false fps size, sstack := some [] },
          { model := cmpModel "ok" impl })
      else match Auto.new size with
        | .ok s => ({ st with stack := some (.auto s), cap := capacity true fps size, sstack := some [] },
                    { model := cmpModel "ok" impl })
        | .error e => ({ st with stack := none, sstack := none }, { model := if isGoPanic impl then none else some e.show })
  | "cs" :: rest =>
    match parseOp rest with
    | some op => handleCs st op impl
    | none => (st, { model := some "bad-op" })
  | ["rnew", a, b, c] =>
    match a.toNat?, b.toNat?, c.toNat? with
    | some a, some b, some c =>
      ({ st with reg := some (Reg.new a b c), rlimit := max a c, sreg := some [] }, ok)
    | _, _, _ => (st, { model := some "bad-op" })
  | "r" :: rest => handleR st rest impl
  | ["prog", fam, n, _] => ({ st with runs := [], family := fam, progN := n.toNat?.getD 0 }, ok)
  | "prog" :: _ => ({ st with runs := [], family := "", progN := 0 }, ok)
  | "prun" :: cfg => handleRun st cfg impl
  | _ => (st, { model := some "bad-op" })

end GLua.Eng.LimitsEng
