/-
  Driver engine "C17L" — the line table of the compile model (C17, line layer).

    C17L linetab <tprog> => P <line>*            the real compiler's FunctionProto.DbgSourcePositions for the rendered
                          | compile-error <msg>   program (harness/c17_linetab.go); replayed on `compLines`
                                                  (Model/CompileLines.lean): must be equal entry by entry.
        Spec (on the IMPLEMENTATION's answer): every entry except the final RETURN's lies within the span
        [first token line, last token line] of the statement whose compilation wrote it (`stmtSpans`).
    C17L errline <tprog> ; L <val>* ; G <val>* => line <n> | noline | ok
        the real interpreter's run-time error message for that run names line n; Model: MiniVM fault pc ↦ `compLines[pc]`.

  <tprog> = <nlocals> <localLn> <dotsLn> <block>;  <block> = <n> <stmt>*n
  <stmt>  = if <ifLn> C <thenLn> B <elseLn> B <endLn> | while <whileLn> C <doLn> B <endLn> | repeat <repeatLn> B <untilLn> C
          | ret <retLn> <m> C*m | local <localLn> C | assign <k> (T <ln>)*k <m> C*m ;  T = l<r> | g<id>
  C       = T <ln> | F <ln> | N <ln> | n<int> <ln> | s<ascii> <ln> | l<r> <ln> | g<id> <ln>
          | not <tk> C | @unm <tk> C | @len <tk> C | and C C | or C C | lt|gt|le|ge|eq|ne C C
          | @add|@sub|@mul|@div|@mod|@pow C C | @cat C C | ( <openLn> <closeLn> C
-/
import GLua.Engines.C01MEng
import GLua.Model.CompileLines

namespace GLua.Eng.LineTabEng
open GLua GLua.Eng GLua.Compile GLua.MiniVM GLua.Lines GLua.Eng.C01MEng

def natTok (ts : List String) : Option (Nat × List String) :=
  match ts with
  | [] => none
  | t :: r => t.toNat?.map fun n => (n, r)

def parseTCond : Nat → List String → Option (TCond × List String)
  | 0, _ => none
  | _ + 1, [] => none
  | fuel + 1, t :: ts =>
    let un (mk : Nat → TCond → TCond) : Option (TCond × List String) :=
      match natTok ts with
      | none => none
      | some (tk, r) => (parseTCond fuel r).map fun (c, r') => (mk tk c, r')
    let bin (mk : TCond → TCond → TCond) : Option (TCond × List String) :=
      match parseTCond fuel ts with
      | none => none
      | some (l, r1) => (parseTCond fuel r1).map fun (r, r2) => (mk l r, r2)
    let leaf (mk : Nat → TCond) : Option (TCond × List String) := (natTok ts).map fun (ln, r) => (mk ln, r)
    if t = "T" then leaf .tru else if t = "F" then leaf .fls else if t = "N" then leaf .nil
    else if t = "not" then un .not
    else if t = "@unm" then un .unm
    else if t = "@len" then un .len
    else if t = "@cat" then bin .concat
    else if t = "and" then bin .and
    else if t = "or" then bin .or
    else if t = "(" then
      match natTok ts with
      | none => none
      | some (op, r1) =>
        match natTok r1 with
        | none => none
        | some (cl, r2) => (parseTCond fuel r2).map fun (c, r3) => (.paren op cl c, r3)
    else match arithOf t with
    | some op => bin (.arith op)
    | none =>
      match relOf t with
      | some op => bin (.rel op)
      | none =>
        let rest := (t.drop 1).toString
        match t.front with
        | 'n' => match rest.toInt? with
          | some n => leaf fun ln => .num ln n
          | none => none
        | 's' => leaf fun ln => .str ln rest
        | 'l' => match rest.toNat? with
          | some n => leaf fun ln => .loc ln n
          | none => none
        | 'g' => match rest.toNat? with
          | some n => leaf fun ln => .ev ln n
          | none => none
        | _ => none

def parseTConds : Nat → Nat → List String → Option (List TCond × List String)
  | _, 0, ts => some ([], ts)
  | fuel, n + 1, ts =>
    match parseTCond fuel ts with
    | none => none
    | some (c, r) => (parseTConds fuel n r).map fun (cs, r') => (c :: cs, r')

def parseTTargets : Nat → List String → Option (List (Nat × Target) × List String)
  | 0, ts => some ([], ts)
  | n + 1, t :: ts =>
    match parseTarget t, natTok ts with
    | some x, some (ln, r) => (parseTTargets n r).map fun (xs, r') => ((ln, x) :: xs, r')
    | _, _ => none
  | _ + 1, [] => none

mutual
def parseTStmt : Nat → List String → Option (TStmt × List String)
  | 0, _ => none
  | _ + 1, [] => none
  | fuel + 1, t :: ts =>
    if t = "if" then
      match natTok ts with
      | none => none
      | some (ifLn, r0) =>
      match parseTCond (fuel + 1) r0 with
      | none => none
      | some (c, r1) =>
      match natTok r1 with
      | none => none
      | some (thenLn, r2) =>
      match parseTBlock fuel r2 with
      | none => none
      | some (b1, r3) =>
      match natTok r3 with
      | none => none
      | some (elseLn, r4) =>
      match parseTBlock fuel r4 with
      | none => none
      | some (b2, r5) => (natTok r5).map fun (endLn, r6) => (.ifS ifLn c thenLn b1 elseLn b2 endLn, r6)
    else if t = "while" then
      match natTok ts with
      | none => none
      | some (wLn, r0) =>
      match parseTCond (fuel + 1) r0 with
      | none => none
      | some (c, r1) =>
      match natTok r1 with
      | none => none
      | some (doLn, r2) =>
      match parseTBlock fuel r2 with
      | none => none
      | some (b, r3) => (natTok r3).map fun (endLn, r4) => (.whileS wLn c doLn b endLn, r4)
    else if t = "repeat" then
      match natTok ts with
      | none => none
      | some (rLn, r0) =>
      match parseTBlock fuel r0 with
      | none => none
      | some (b, r1) =>
      match natTok r1 with
      | none => none
      | some (uLn, r2) => (parseTCond (fuel + 1) r2).map fun (c, r3) => (.repeatS rLn b uLn c, r3)
    else if t = "ret" then
      match natTok ts with
      | none => none
      | some (ln, r0) =>
      match natTok r0 with
      | none => none
      | some (m, r1) => (parseTConds (fuel + 1) m r1).map fun (cs, r) => (.ret ln cs, r)
    else if t = "local" then
      match natTok ts with
      | none => none
      | some (ln, r0) => (parseTCond (fuel + 1) r0).map fun (c, r) => (.localDef ln c, r)
    else if t = "assign" then
      match natTok ts with
      | none => none
      | some (k, r0) =>
      match parseTTargets k r0 with
      | some (t0 :: tg, r1) =>
        match natTok r1 with
        | none => none
        | some (m, r2) => (parseTConds (fuel + 1) m r2).map fun (cs, r3) => (.assign t0 tg cs, r3)
      | _ => none
    else none
def parseTBlock : Nat → List String → Option (TBlock × List String)
  | 0, _ => none
  | _ + 1, [] => none
  | fuel + 1, n :: ts =>
    match n.toNat? with
    | none => none
    | some n => parseTStmts fuel n ts
def parseTStmts : Nat → Nat → List String → Option (TBlock × List String)
  | 0, _, _ => none
  | _ + 1, 0, ts => some (.nil, ts)
  | fuel + 1, n + 1, ts =>
    match parseTStmt fuel ts with
    | none => none
    | some (s, r) => (parseTStmts fuel n r).map fun (b, r') => (.cons s b, r')
end

def parseTProg (ts : List String) : Option TProg :=
  match natTok ts with
  | none => none
  | some (n, r0) =>
  match natTok r0 with
  | none => none
  | some (localLn, r1) =>
  match natTok r1 with
  | none => none
  | some (dotsLn, r2) =>
    match parseTBlock (ts.length + 2) r2 with
    | some (b, []) => some { nlocals := n, localLn := localLn, dotsLn := dotsLn, body := b }
    | _ => none

/-- first entry (not the final RETURN's) of the implementation's table that is outside the span of the statement that
    wrote it. -/
def firstOutside (what : String) : Nat → List Nat → List Span → Option String
  | _, [], _ => none
  | _, _, [] => none
  | pc, l :: ls, (a, b) :: sps =>
    if a ≤ l ∧ l ≤ b then firstOutside what (pc + 1) ls sps
    else some ("pc " ++ toString pc ++ " has line " ++ toString l ++ " outside the " ++ what ++ " [" ++ toString a ++ "," ++ toString b ++ "]")

def handleLineTab (args impl : List String) : Verdict :=
  match parseTProg args with
  | none => { model := some "bad-program" }
  | some p =>
    if ¬ Mono p.toks then { model := some "bad-program:token-lines-decrease" } else
    let st := compileMain p.nlocals p.body.erase
    match patchCode st with
    | .error e => { model := cmpModel ("compile-error " ++ e.replace " " "_") impl }
    | .ok _ =>
      let lines := compLines p
      let expected := " ".intercalate ("P" :: lines.map toString)
      let implLines := (impl.drop 1).filterMap String.toNat?
      let spec : Option String :=
        if impl.head? ≠ some "P" then none
        else (firstOutside "statement span" 0 implLines (stmtSpans p))
      { model := cmpModel expected impl, spec := spec }

/-- the MiniVM on the model's code: `some pc` = the instruction at pc raised (comparison / arithmetic / concatenation /
    length), `none` = the run ended without an error; `fuel` exhausted = error "fuel". -/
def runFault (code : List Instr) (consts : List Konst) : Nat → VM RV → Except String (Option Nat)
  | 0, _ => .error "fuel"
  | n + 1, s =>
    match step dom code consts s with
    | .ok s' => runFault code consts n s'
    | .halt _ => .ok none
    | .luaError _ => .ok (some s.pc)
    | .goPanic site => .error ("gopanic:" ++ site.replace " " "_")

/-- `C17L errline <tprog> ; L <val>* ; G <val>* => line <n> | noline | ok`: the real interpreter ran the rendered program
    with the locals / atoms set to the values; a run-time error's message named line n.  Model: the MiniVM on the model's
    code faults at pc ⇒ the message names `compLines[pc]` (the VM reports `DbgSourcePositions[Pc-1]` after `Pc++`).
    Spec: the named line lies in the span of the statement that wrote the faulting instruction. -/
def handleErrLine (args impl : List String) : Verdict :=
  let (ptoks, r1) := splitOn ";" args
  let (ls, r2) := splitOn ";" r1
  match parseTProg ptoks, parseVals (ls.drop 1), parseVals (r2.drop 1) with
  | some p, some lv, some gv =>
    if ¬ Mono p.toks then { model := some "bad-program:token-lines-decrease" } else
    match modelCode p.nlocals p.body.erase with
    | .error e => { model := some ("compile-error " ++ e) }
    | .ok (code, _, consts) =>
      let s0 : VM RV := { pc := if p.nlocals = 0 then 0 else 1, regs := listToFn lv, globs := listToFn gv }
      match runFault code consts 100000 s0 with
      | .error e => { model := cmpModel e impl }
      | .ok none => { model := cmpModel "ok" impl }
      | .ok (some pc) =>
        let expected := match (compLines p)[pc]? with
          | some l => "line " ++ toString l
          | none => "no-entry-for-pc-" ++ toString pc
        let spec : Option String :=
          match impl, (stmtSpans p)[pc]? with
          | ["line", n], some (a, b) =>
            match n.toNat? with
            | some l => if a ≤ l ∧ l ≤ b then none
                        else some ("the error names line " ++ n ++ ", the failing statement spans [" ++ toString a ++ "," ++ toString b ++ "]")
            | none => none
          | _, _ => none
        { model := cmpModel expected impl, spec := spec }
  | _, _, _ => { model := some "bad-request" }

def handle (ws : List String) : Verdict :=
  let (args, impl) := splitArrow ws
  match args with
  | "note" :: _ => ok
  | "linetab" :: r => handleLineTab r impl
  | "errline" :: r => handleErrLine r impl
  | _ => { model := some "bad-op" }

end GLua.Eng.LineTabEng
