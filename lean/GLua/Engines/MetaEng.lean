/-
  Driver engine `C04M`: replays metamethod-dispatch requests on the Model (GLua/Model/MetaModel.lean, exact
  comparison with what the real interpreter did) and on the Spec (GLua/Spec/MetaSpec.lean, the property).

  Requests (one per line, state = the objects defined so far in this case):
    fn <id> <ret>                  function g<id>; every harness function logs its call and returns (<ret>, i777)
    tbl <id> | ud <id>             fresh table t<id> / userdata u<id>
    set <tid> <key> <val>          raw content
    mt <value> <mtid|nil>          metatable of that table/userdata, or the per-type metatable of the value's type
    op <kind> <mode> <args…> => <calls…> (R <results…> | E <kind>)
         a call is logged as  C <fn> <nargs> <args…>
         kind `self` (<mode> <obj> <name> <args…>): the method call `obj:name(args…)` [modes lua, tail, lit] and its
         definition `obj.name(obj, args…)` [modes dot, dotr]: the index event followed by the call event on what it delivered
  Values: nil T F nan i<int> f<bits> s<hex> | t<id> table | u<id> userdata | g<id> function | h<id> thread
          | c<id> channel.  `PRIM` = the primitive tostring of the operand.
  Core Lean only.
-/
import GLua.Engines.Common
import GLua.Model.MetaModel
import GLua.Spec.Num

namespace GLua.Eng.MetaEng
open GLua GLua.Eng GLua.Meta

/-- numbers of the driver: canonical wire form with decidable equality (integral doubles as exact
    integers); arithmetic goes through `Float`. -/
inductive Num where
  | int (i : Int)
  | flt (bits : Nat)
  | nan
  | border   -- "a border of the table" (which one is C09's subject; the harness checks it is one)
deriving DecidableEq, Repr, Inhabited

def Num.toF : Num → Float
  | .int i => Float.ofInt i
  | .flt b => Float.ofBits b.toUInt64
  | .nan => 0.0 / 0.0
  | .border => 0.0 / 0.0

def Num.ofF (f : Float) : Num :=
  if f.isNaN then .nan
  else match Sem.floatExactInt? f with
    | some i => .int i
    | none => .flt f.toBits.toNat

def Num.show : Num → String
  | .int i => "i" ++ toString i
  | .flt b => "f" ++ toString b
  | .nan => "nan"
  | .border => "BORDER"

abbrev W := V Num

def showV : W → String
  | .nil => "nil"
  | .bool b => if b then "T" else "F"
  | .num n => n.show
  | .str s => if s = "PRIM" then "PRIM" else "s" ++ s
  | .func id => "g" ++ toString id
  | .udata id => "u" ++ toString id
  | .thread id => "h" ++ toString id
  | .table id => "t" ++ toString id
  | .chan id => "c" ++ toString id

def parseW (s : String) : Option W :=
  if s == "nil" then some .nil
  else if s == "T" then some (.bool true)
  else if s == "F" then some (.bool false)
  else if s == "nan" then some (.num .nan)
  else
    let rest := (s.drop 1).toString
    match s.front with
    | 'i' => rest.toInt?.map (fun i => .num (.int i))
    | 'f' => rest.toNat?.map (fun n => .num (.flt n))
    | 's' => some (.str rest)
    | 't' => rest.toNat?.map .table
    | 'u' => rest.toNat?.map .udata
    | 'g' => rest.toNat?.map .func
    | 'h' => rest.toNat?.map .thread
    | 'c' => rest.toNat?.map .chan
    | _ => none

def goMod (a b : Float) : Float := Sem.luaMod a b

def prims : Prims Num where
  arith := fun op a b =>
    let x := a.toF
    let y := b.toF
    Num.ofF (match op with
      | .add => x + y | .sub => x - y | .mul => x * y | .div => x / y
      | .mod => goMod x y | .pow => Float.pow x y)
  neg := fun a => Num.ofF (-a.toF)
  numEq := fun a b => a.toF == b.toF
  numLt := fun a b => a.toF < b.toF
  numLe := fun a b => a.toF ≤ b.toF
  strLt := fun a b => a < b          -- hex text of equal-width bytes: String order = byte order
  strLe := fun a b => a ≤ b
  toNum := fun s => (Sem.strToNum? s).map Num.ofF
  numStr := fun n =>
    match n with
    | .int i => Sem.hexOfAscii (toString i)
    | _ => "3f"                      -- never generated: non-integral numbers are not concatenated
  strLen := fun s => .int (Sem.strLen s)
  tostr := fun _ => "PRIM"

structure Tbl where
  content : List (W × W) := []
  mt : Option Nat := none

structure St where
  tbls : List (Nat × Tbl) := []
  uds : List (Nat × Option Nat) := []
  tymt : List (Ty × Nat) := []
  fns : List (Nat × W) := []

def St.tbl (s : St) (id : Nat) : Tbl := (assocGet s.tbls id).getD {}

def tblGet (t : Tbl) (k : W) : W :=
  match t.content.find? (fun p => p.1 = k) with
  | some p => p.2
  | none => .nil

def tblSet (t : Tbl) (k v : W) : Tbl :=
  let c := t.content.filter (fun p => p.1 ≠ k)
  { t with content := if v.isNil then c else c ++ [(k, v)] }

def St.heap (s : St) : Heap Num where
  raw := fun id k => tblGet (s.tbl id) k
  field := fun id ev => tblGet (s.tbl id) (.str (Sem.hexOfAscii ev.name))
  tmeta := fun id => (s.tbl id).mt
  umeta := fun id => ((assocGet s.uds id).getD none)
  tymeta := fun ty => (s.tymt.find? (fun p => p.1 = ty)).map (·.2)
  border := fun _ => .border

def St.ret (s : St) (hd : W) (_args : List W) : W :=
  match hd with
  | .func id => (assocGet s.fns id).getD .nil
  | _ => .nil

def showKind : ErrKind → String
  | .index => "index" | .arith => "arith" | .concat => "concat" | .compare => "compare" | .call => "call"
  | .unm => "unm" | .len => "len" | .loop => "loop" | .protectedMt => "protected" | .badArg => "badarg"

def showCall (c : Call Num) : String :=
  "C " ++ showV c.h ++ " " ++ toString c.args.length ++ String.join (c.args.map (fun a => " " ++ showV a))

def truthW (b : Bool) : String := if b then "T" else "F"

/-- apply an action: expected reply text and the state afterwards. `iter` = generic-for iterator call. -/
def runAction (s : St) (iter : Bool) (a : Action Num) : String × St :=
  match a with
  | .raw v => ("R " ++ showV v, s)
  | .store t k v => ("R", { s with tbls := assocSet s.tbls t (tblSet (s.tbl t) k v) })
  | .setmt obj mt =>
    let s' : St := match obj with
      | .table id => { s with tbls := assocSet s.tbls id { s.tbl id with mt := mt } }
      | .udata id => { s with uds := assocSet s.uds id mt }
      | v =>
        let rest := s.tymt.filter (fun p => p.1 ≠ v.ty)
        { s with tymt := match mt with | some m => (v.ty, m) :: rest | none => rest }
    ("R " ++ showV obj, s')
  | .call hd args post =>
    let r := s.ret hd args
    let res := match post with
      | .first => "R " ++ showV r
      | .truth => "R " ++ truthW r.truthy
      | .nottruth => "R " ++ truthW (!r.truthy)
      | .discard => "R"
      | .all => if iter ∧ r.isNil then "R END" else "R " ++ showV r ++ " i777"
      | .apiInt => match r with
        | .num (.int i) => "R i" ++ toString i
        | _ => "R i0"
    (showCall ⟨hd, args⟩ ++ " " ++ res, s)
  | .error k => ("E " ++ showKind k, s)
  | .next _ => ("E loop", s)

/-- `obj:name(…)` / `obj.name(obj, …)`: an index action, then the call action on the value it delivered.
    Returns the expected reply text and the fetched value (for the classification of the call step). -/
def seqIndexCall (s : St) (idx : Action Num) (callOf : W → Action Num) : String × W :=
  match idx with
  | .raw v => ((runAction s false (callOf v)).1, v)
  | .call hd args _ =>
    let v := s.ret hd args
    (showCall ⟨hd, args⟩ ++ " " ++ (runAction s false (callOf v)).1, v)
  | a => ((runAction s false a).1, .nil)

def showOutcome (o : Outcome Num) (post : W → String) : String :=
  let calls := String.join (o.1.map (fun c => showCall c ++ " "))
  match o.2 with
  | .ok v => calls ++ "R " ++ post v
  | .error k => calls ++ "E " ++ showKind k

/-- error kinds are Model-level detail: the Spec comparison only distinguishes "raises" from results. -/
def stripKind (ws : List String) : List String :=
  match ws with
  | [] => []
  | "E" :: _ => ["E"]
  | w :: r => w :: stripKind r

def parseArith : String → Option ArithOp
  | "add" => some .add | "sub" => some .sub | "mul" => some .mul | "div" => some .div
  | "mod" => some .mod | "pow" => some .pow | _ => none

def parseEvent (s : String) : Option Event :=
  [Event.index, .newindex, .add, .sub, .mul, .div, .mod, .pow, .unm, .len, .concat, .eq, .lt, .le, .call,
   .tostring, .metatable].find? (fun e => e.name = s)

def fnOrNil (v : W) : Bool := v.isFunc || v.isNil

/-- classification of a Spec disagreement that the Model reproduces: known-finding tag, or `SKIP` for a class
    outside the property's quantifier. `slots` = the handler slots the event consulted. -/
def classify (kind : String) (slots : List W) (operands : List W) (h : Heap Num) : Option String :=
  if kind = "call" then
    (if slots.all fnOrNil then none else some "SKIP call-handler-not-a-function")
  else if !(slots.all fnOrNil) then some "KF:C04-nonfunction-handler"
  else if kind = "len" ∧ operands.any (fun v => v.ty = .table) then some "KF:C04-len-handler-on-tables"
  else if kind = "setmt" ∧ operands.any (fun v => v.ty ≠ .table ∧ v.ty ≠ .nil) then
    some "KF:C04-setmetatable-nontable"
  else if (kind = "arith" ∨ kind = "unm") ∧ operands.any (fun v => v.ty = .str) ∧
          operands.all (fun v => (tonumber prims v).isSome) then some "SKIP handler-before-coercion"
  else
    let _ := h
    none

structure Res where
  model : String
  spec : Option String        -- none = no Spec comparison for this request
  st : St
  slots : List W := []
  operands : List W := []

def mk (s : St) (iter : Bool) (m : Action Num) (sp : Option (Action Num)) (slots operands : List W) : Res :=
  let (ms, st') := runAction s iter m
  { model := ms, spec := sp.map (fun a => (runAction s iter a).1), st := st', slots := slots, operands := operands }

def evalOp (s : St) (kind mode : String) (args : List W) (rawArgs : List String) : Option Res :=
  let h := s.heap
  let p := prims
  let slot (v : W) (ev : Event) : W := mtEvent h v ev
  match kind, args with
  | "index", [o, k] =>
    let m := match mode, k with
      | "luak", .str ks | "apif", .str ks | "self", .str ks | "global", .str ks => MetaModel.getFieldString h o ks
      | _, _ => MetaModel.getField h o k
    some (mk s false m (some (gettable h MAXTAGLOOP o k)) [] [o])
  | "self", o :: .str ks :: cargs =>
    -- OP_SELF (+ OP_CALL / OP_TAILCALL) against its definition OP_GETTABLEKS / OP_GETTABLE + OP_CALL
    let idxM := match mode with
      | "dot" => MetaModel.getFieldString h o ks
      | "dotr" => MetaModel.getField h o (.str ks)
      | _ => MetaModel.opSelf h o ks
    let callM : W → Action Num := fun f =>
      if mode = "tail" then MetaModel.opTailCall h f (o :: cargs) else MetaModel.opCall h f (o :: cargs)
    let (ms, fv) := seqIndexCall s idxM callM
    let (ss, _) := seqIndexCall s (gettable h MAXTAGLOOP o (.str ks)) (fun f => call_event h f (o :: cargs))
    some { model := ms, spec := some ss, st := s, slots := [slot fv .call], operands := [o] }
  | "newindex", [o, k, v] =>
    let m := match mode, k with
      | "luak", .str ks | "apif", .str ks | "global", .str ks => MetaModel.setFieldString h o ks v
      | _, _ => MetaModel.setField h o k v
    some (mk s false m (some (settable h MAXTAGLOOP o k v)) [] [o])
  | "arith", [a, b] =>
    match rawArgs.head? >>= parseArith with
    | none => none
    | some op =>
      let m := if mode = "hook" then MetaModel.objectArith p h op a b else MetaModel.opArith p h op a b
      -- the hook calls objectArith directly, also on two numbers (where opArith never would)
      let sp := if mode = "hook" ∧ a.ty = .num ∧ b.ty = .num then none else some (arith_event p h op a b)
      some (mk s false m sp [slot a op.event, slot b op.event] [a, b])
  | "unm", [a] => some (mk s false (MetaModel.opUnm p h a) (some (unm_event p h a)) [slot a .unm] [a])
  | "len", [a] =>
    if mode = "api" then
      match MetaModel.objLen p h a with
      | some act => some (mk s false act none [] [a])
      | none => some { model := "R i0", spec := none, st := s }
    else some (mk s false (MetaModel.opLen p h a) (some (len_event p h a)) [slot a .len] [a])
  | "eq", [a, b] =>
    some (mk s false (MetaModel.equals p h a b false) (some (eq_event p h a b)) [slot a .eq, slot b .eq] [a, b])
  | "rawequal", [a, b] =>
    let m := if mode = "api" then MetaModel.equals p h a b true else MetaModel.baseRawEqual p a b
    some (mk s false m (some (rawequal_fn p a b)) [] [a, b])
  | "lt", [a, b] =>
    some (mk s false (MetaModel.lessThan p h a b) (some (lt_event p h a b)) [slot a .lt, slot b .lt] [a, b])
  | "le", [a, b] =>
    some (mk s false (MetaModel.opLE p h a b) (some (le_event p h a b))
      [slot a .le, slot b .le, slot a .lt, slot b .lt] [a, b])
  | "call", f :: cargs =>
    let m := match mode with
      | "lua" | "luav" => MetaModel.opCall h f cargs
      | "tail" => MetaModel.opTailCall h f cargs
      | _ => MetaModel.callR h f cargs
    some (mk s (mode = "iter") m (some (call_event h f cargs)) [slot f .call] [f])
  | "tostring", [a] =>
    some (mk s false (MetaModel.toStringMeta p h a) (some (tostring_fn p h a)) [slot a .tostring] [a])
  | "getmt", [a] => some (mk s false (MetaModel.getMetatable h a) (some (getmetatable_fn h a)) [] [a])
  | "setmt", [a, mt] =>
    if mode = "api" then some (mk s false (MetaModel.setMetatable a mt) none [] [a])
    else some (mk s false (MetaModel.baseSetMetatable h a mt) (some (setmetatable_fn h a mt)) [] [a])
  | "rawget", [t, k] => some (mk s false (MetaModel.baseRawGet h t k) (some (rawget_fn h t k)) [] [t])
  | "rawset", [t, k, v] => some (mk s false (MetaModel.baseRawSet t k v) (some (rawset_fn t k v)) [] [t])
  | "metatable", [v, r] => some (mk s false (.raw (MetaModel.metatable h v r.truthy)) none [] [v])
  | "metaop1", [v] =>
    (rawArgs.head? >>= parseEvent).map fun ev =>
      mk s false (.raw (MetaModel.metaOp1 h v ev)) (some (.raw (mtEvent h v ev))) [] [v]
  | "metaop2", [a, b] =>
    (rawArgs.head? >>= parseEvent).map fun ev =>
      mk s false (.raw (MetaModel.metaOp2 h a b ev)) none [] [a, b]
  | "metacall", [v] =>
    let (c, m) := MetaModel.metaCall h v
    some { model := "R " ++ showV (c.getD .nil) ++ " " ++ truthW m, spec := none, st := s }
  | _, _ => none

def evalConcat (s : St) (mode : String) (ops : List W) : Res :=
  let h := s.heap
  let m := MetaModel.stringConcat prims h s.ret ops
  let sp := Meta.concat_fold prims h s.ret ops
  -- `LState.Concat` returns LVAsString(result)
  let post : W → String := if mode = "api" then (fun v => showV (.str (MetaModel.lvAsString prims v))) else showV
  let slots := ops.map (fun v => mtEvent h v .concat) ++
    -- handlers reached through intermediate results are functions' return values: include their slots too
    (s.fns.map (fun f => mtEvent h f.2 .concat))
  { model := showOutcome m post, spec := some (showOutcome sp post), st := s, slots := slots, operands := ops }

def handle (s : St) (ws : List String) : St × Verdict :=
  let (args, impl) := splitArrow ws
  match args with
  | ["fn", id, r] =>
    match id.toNat?, parseW r with
    | some id, some r => ({ s with fns := assocSet s.fns id r }, ok)
    | _, _ => (s, { model := some "bad-op" })
  | ["tbl", id] =>
    match id.toNat? with
    | some id => ({ s with tbls := assocSet s.tbls id {} }, ok)
    | none => (s, { model := some "bad-op" })
  | ["ud", id] =>
    match id.toNat? with
    | some id => ({ s with uds := assocSet s.uds id none }, ok)
    | none => (s, { model := some "bad-op" })
  | ["set", id, k, v] =>
    match id.toNat?, parseW k, parseW v with
    | some id, some k, some v => ({ s with tbls := assocSet s.tbls id (tblSet (s.tbl id) k v) }, ok)
    | _, _, _ => (s, { model := some "bad-op" })
  | ["mt", v, m] =>
    match parseW v, parseW m with
    | some v, some m =>
      let mt : Option Nat := match m with | .table id => some id | _ => none
      ((runAction s false (.setmt v mt)).2, ok)
    | _, _ => (s, { model := some "bad-op" })
  | "op" :: kind :: mode :: rest =>
    -- arith / metaop requests carry the operator / event name as first argument
    let (rawArgs, vals) : List String × List String :=
      if kind = "arith" ∨ kind = "metaop1" ∨ kind = "metaop2" then (rest.take 1, rest.drop 1) else ([], rest)
    match vals.mapM parseW with
    | none => (s, { model := some "bad-value" })
    | some vs =>
      let res : Option Res := if kind = "concat" then some (evalConcat s mode vs) else evalOp s kind mode vs rawArgs
      match res with
      | none => (s, { model := some "bad-op" })
      | some r =>
        let model := cmpModel r.model impl
        let spec : Option String :=
          match r.spec with
          | none => none
          | some sp =>
            if stripKind impl = stripKind (sp.splitOn " ") then none
            else
              let why := "spec=" ++ sp.replace " " "_"
              match classify (if kind = "self" then "call" else kind) r.slots r.operands s.heap with
              | some tag => if model.isNone then some (tag ++ " " ++ why) else some why
              | none => some why
        -- classes outside the property's quantifier: no Spec verdict (reported as SKIP, counted by the harness)
        match spec with
        | some sp =>
          if sp.startsWith "SKIP" ∧ model.isNone then (r.st, { model := some sp })   -- rendered below
          else (r.st, { model := model, spec := some sp })
        | none => (r.st, { model := model })
  | _ => (s, { model := some "bad-op" })

/-- verdict text: `SKIP …` replies are not failures. -/
def render (v : Verdict) : String :=
  match v.model, v.spec with
  | some m, none => if m.startsWith "SKIP" then m else v.show
  | _, _ => v.show

end GLua.Eng.MetaEng
