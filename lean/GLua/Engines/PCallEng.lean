/-
  Driver engine `C05M`: replays the operation sequences the Go harness executed on the REAL LState.PCall /
  raiseError / Error / callR (harness/c05_mech.go) on the model GLua/Model/PCall.lean and compares the
  interpreter bookkeeping after every operation (Impl = Model); independently of the model it checks the
  property itself on the implementation's own snapshots (Spec: a failed protected call restores the
  pre-call values).  Also judges the observations of the program-level fault enumeration.

    C05M init <cap>
    C05M op <op…> => <sp> <top> <cur|-1> <lb> <hef> <pm> <uvs|-> <err>
    C05M pc <pcall|xpcall> <fail|ok> <pre: 7 tokens> <nres> => <post: 7 tokens>
    C05M prefix <n> <t1 … tn> => <u1 … um>            (t must be a prefix of u)
    C05M same <what> <n> <t1 … tn> => <u1 … um>       (t must equal u)
    C05M thread <resume|wrap> <payload> => <results…> (threadRecover)
-/
import GLua.Engines.Common
import GLua.Model.PCall
import GLua.Spec.Num

namespace GLua.Eng.PCallEng
open GLua GLua.Eng GLua.PCall

/-- what VerifSnapshot shows of the bookkeeping -/
structure Snap where
  sp : Nat
  top : Nat
  cur : Int
  lb : Int
  hef : Bool
  pm : Nat
  uvs : List Nat
deriving DecidableEq, Repr, Inhabited

def Snap.show (x : Snap) : String :=
  s!"{x.sp} {x.top} {x.cur} {x.lb} {if x.hef then 1 else 0} {x.pm} " ++
    (if x.uvs.isEmpty then "-" else ",".intercalate (x.uvs.map toString))

def snapOf (s : PCall.St) : Snap :=
  { sp := s.sp, top := s.top,
    cur := match s.cur with | none => -1 | some i => i,
    lb := match s.curFrame with | none => -1 | some f => f.localBase,
    hef := s.hasErrorFunc,
    pm := match s.panicFn with | .withTraceback => 0 | .withoutTraceback => 1,
    uvs := s.uvs }

def parseUvs (t : String) : Option (List Nat) :=
  if t = "-" then some [] else (t.splitOn ",").mapM (·.toNat?)

def parseSnap : List String → Option Snap
  | [sp, top, cur, lb, hef, pm, uvs] => do
    let sp ← sp.toNat?; let top ← top.toNat?; let cur ← cur.toInt?; let lb ← lb.toInt?
    let pm ← pm.toNat?; let uvs ← parseUvs uvs
    some { sp, top, cur, lb, hef := hef = "1", pm, uvs }
  | _ => none

def bytesToString (bs : List Nat) : String := String.ofList (bs.map Char.ofNat)

def parseV (t : String) : Option V :=
  if t = "nil" then some .nil
  else if t = "T" then some (.bool true)
  else if t = "F" then some (.bool false)
  else
    let rest := (t.drop 1).toString
    match t.front with
    | 'i' => rest.toInt?.map .num
    | 's' => some (.str (bytesToString (Sem.bytesOfHex rest)))
    | 'r' => rest.toNat?.map .ref
    | _ => none

def showV : V → String
  | .nil => "nil"
  | .bool b => if b then "T" else "F"
  | .num i => "i" ++ toString i
  | .str s => "s" ++ Sem.hexOfAscii s
  | .ref n => "r" ++ toString n

def showTy : ErrTy → String
  | .syntax => "syntax" | .file => "file" | .run => "run" | .error => "error" | .panic => "panic"

def showErr (e : ApiErr) : String := "E" ++ showTy e.ty ++ ":" ++ showV e.obj

structure St where
  m : PCall.St := {}
  pres : List (Snap × Nat) := []     -- implementation snapshots taken just before each active `enter`, with nargs
  last : Option Snap := none         -- the implementation's previous snapshot
  dead : Bool := false               -- the model lost track (after a MODEL verdict): further ops are skipped
deriving Inhabited

def hostFn : V := .ref 1       -- the harness's generic host function
def handlerFn : V := .ref 2    -- the harness's handler host function
def tmplFn : V := .ref 3       -- a Lua template function

def parseHandler (t : String) : Option (Option (V × Bool)) :=
  if t = "none" then some none else if t = "g" then some (some (handlerFn, true)) else none

def parseKind : List String → Option RaiseKind
  | ["re", m] => (parseV m).bind fun v => match v with | .str s => some (.raiseError 1 s) | _ => none
  | ["eo", v, lv] => do let v ← parseV v; let lv ← lv.toNat?; some (.errorObj v lv)
  | ["fp", m] => (parseV m).bind fun v => match v with | .str s => some (.foreign s) | _ => none
  | _ => none

def pushArgs (n : Nat) : List Op := (List.range n).map (fun (i : Nat) => Op.push (.num (i : Int)))

/-- expansion of a harness operation into model operations -/
def expand : List String → Option (List Op)
  | ["push", v] => (parseV v).map fun v => [.push v]
  | ["fill", n] => n.toNat?.map fun n => List.replicate n (.push .nil)
  | ["settop", n] => n.toNat?.map fun n => [.setTop n]
  | ["call", n] => n.toNat?.map fun n => [.push hostFn] ++ pushArgs n ++ [.call true n]
  | ["ret", n] => n.toNat?.map fun n => pushArgs n ++ [.ret n]
  | ["luaenter", k, line] => do
    let k ← k.toNat?; let line ← line.toNat?
    -- L.Push(tmpl); L.Push(hostFn); L.Call(1, MultRet): the template declares k captured locals in registers
    -- 1..k, one closure in register k+1, copies its parameter `cb` to register k+2 and calls it with no arguments
    some ([.push tmplFn, .push hostFn, .call false 1, .setTop (k + 3)] ++
          (List.range k).map (fun i => Op.openUpval (i + 1)) ++ [.setLine line, .call true 0])
  | ["lualeave", k] => k.toNat?.map fun k => [.ret 0, .setReg (k + 2) .nil, .ret 1]   -- cb returns nothing; `local r = cb(); return r`
  | "enter" :: n :: h :: [] => do
    let n ← n.toNat?; let h ← parseHandler h
    some ([.push hostFn] ++ pushArgs n ++ [.enter n h true])
  | "enterfail" :: n :: h :: [] => do
    let n ← n.toNat?; let h ← parseHandler h
    -- the callee is the number 7: callR raises "attempt to call a non-function object" before any frame exists
    some ([.push (.num 7)] ++ pushArgs n ++ [.enterFail n h (.raiseError 1 "attempt to call a non-function object")])
  | ["retleave", n] => n.toNat?.map fun n => pushArgs n ++ [.retLeave n]
  | "raise" :: k => (parseKind k).map fun k => [.raise k]
  | ["rethandler", v] => (parseV v).map fun v => [.push v, .retHandler]
  | _ => none

/-- the result of the protected call that ended during the operation, from the events it appended -/
def lastDelivery (l : List Event) : String :=
  match (l.filterMap fun e => match e with
      | .delivered _ e => some (showErr e)
      | .returned _ => some "ok"
      | _ => none).getLast? with
  | some s => s
  | none => "-"

/-- a harness operation is a short list of model operations executed by one piece of Go code; when one of its
    pushes overflows the registry the Go code is abandoned by the panic, so the rest of the list does not happen -/
def runComposite : PCall.St → List Op → Res
  | s, [] => .ok s
  | s, o :: os =>
    let overflow := match o with
      | .push _ => decide (s.top + 1 > s.cap)
      | _ => false
    match step {} s o with
    | .ok s' => if overflow then .ok s' else runComposite s' os
    | r => r

def specRestore (pre : Snap) (nargs : Nat) (post : Snap) : Option String :=
  let base := pre.top - nargs - 1
  if post.sp ≠ pre.sp then some s!"Sp {post.sp} after a failed protected call, {pre.sp} before it"
  else if post.cur ≠ pre.cur ∨ post.lb ≠ pre.lb then some "currentFrame not restored by a failed protected call"
  else if post.top ≠ base then some s!"registry top {post.top} after a failed protected call, base is {base}"
  else if post.pm ≠ pre.pm then some "Panic function not restored by a failed protected call"
  else if post.uvs ≠ pre.uvs.filter (· < base) then
    some s!"open upvalues after a failed protected call are {post.uvs}, the caller's were {pre.uvs} (base {base})"
  else none

def handleOp (st : St) (args impl : List String) : St × Verdict :=
  if st.dead then (st, ok) else
  match expand args, impl.reverse with
  | some ops, errTok :: rsnap =>
    match parseSnap rsnap.reverse with
    | none => (st, { model := some "bad-snapshot" })
    | some isnap =>
      match runComposite st.m ops with
      | .ok m' =>
        let msnap := snapOf m'
        let merr := lastDelivery (m'.log.drop st.m.log.length)
        let expected := msnap.show ++ " " ++ merr
        let model := if msnap = isnap ∧ merr = errTok then none else some expected
        -- Spec: bookkeeping of the implementation before / after a failed protected call
        let isEnter := args.head? = some "enter" ∨ args.head? = some "enterfail"
        let nargs := (args[1]?.bind (·.toNat?)).getD 0
        let pres := if isEnter then
            match st.last with
            | some p => (p, nargs) :: st.pres
            | none => ({ sp := 0, top := 0, cur := -1, lb := -1, hef := false, pm := 0, uvs := [] }, nargs) :: st.pres
          else st.pres
        -- number of activations that ended with this operation, as the implementation reports it
        let ended := errTok ≠ "-"
        let (spec, pres) :=
          if ended then
            match pres with
            | (p, n) :: rest =>
              (if errTok.startsWith "E" then specRestore { p with top := p.top + n + 1 } n isnap else none, rest)
            | [] => (some "a protected call returned that was never entered", [])
          else (none, pres)
        ({ st with m := m', pres := pres, last := some isnap, dead := model.isSome }, { model := model, spec := spec })
      | .escaped _ _ => ({ st with dead := true }, { model := some "model: panic escapes" })
      | .disabled => ({ st with dead := true }, { model := some "model: operation disabled" })
  | _, _ => (st, { model := some "bad-op" })

/-- program-level observation of one pcall / xpcall activation through the wrappers:
    `pre` is taken inside the host frame of pcall/xpcall before baselib's code runs, `post` after it returned. -/
def handlePc (kind outcome : String) (pre : Snap) (nres : Nat) (post : Snap) : Verdict :=
  -- basePCall: the function is argument 1 → base = LocalBase;   baseXPCall: pushes fn on top → base = Top
  let base : Nat := if kind = "pcall" then pre.lb.toNat else pre.top
  let expectTop := if outcome = "fail" then base + 2 else base + 1 + nres
  let expected : Snap := { pre with top := expectTop, hef := false, uvs := pre.uvs.filter (· < base) }
  let model := if post = expected then none else some expected.show
  let spec :=
    if post.sp ≠ pre.sp ∨ post.cur ≠ pre.cur ∨ post.lb ≠ pre.lb then some "call depth / current frame differ after the protected call"
    else if post.pm ≠ pre.pm then some "Panic function not restored"
    else if outcome = "fail" ∧ post.top ≠ base + 2 then some "value-stack height after a failed protected call is not base+2 (false, msg)"
    else if post.uvs.any (· ≥ base) then some "an upvalue at or above the released registers is still open"
    else if post.uvs ≠ pre.uvs.filter (· < base) then some "the caller's open upvalues were detached by the protected call"
    else none
  { model := model, spec := spec }

def isPrefixOf : List String → List String → Bool
  | [], _ => true
  | _ :: _, [] => false
  | a :: as, b :: bs => a = b && isPrefixOf as bs

def handle (st : St) (ws : List String) : St × Verdict :=
  let (args, impl) := splitArrow ws
  match args with
  | ["init", cap] =>
    match cap.toNat? with
    | some c => ({ m := { cap := c } }, ok)
    | none => (st, { model := some "bad-op" })
  | "op" :: rest => handleOp st rest impl
  | "pc" :: kind :: outcome :: rest =>
    match parseSnap (rest.take 7), (rest.drop 7).head?.bind (·.toNat?), parseSnap impl with
    | some pre, some nres, some post => (st, handlePc kind outcome pre nres post)
    | _, _, _ => (st, { model := some "bad-op" })
  | "prefix" :: n :: rest =>
    match n.toNat? with
    | some n =>
      let t := rest.take n
      (st, { spec := if isPrefixOf t impl then none
                     else some s!"the side effects of the failed run are not a prefix of the fault-free ones (first {n} events)" })
    | none => (st, { model := some "bad-op" })
  | "same" :: what :: n :: rest =>
    match n.toNat? with
    | some n =>
      let t := rest.take n
      (st, { spec := if t = impl then none else some s!"{what} differs: expected {t}" })
    | none => (st, { model := some "bad-op" })
  | ["thread", mode, payload] =>
    match parseV payload with
    | some v =>
      let out := threadRecover true (mode = "wrap") (.api ⟨.run, v⟩)
      let expected := match out with
        | .resumeReturns vs => " ".intercalate (vs.map showV)
        | .raisedInParent (.api e) => "raise " ++ showV e.obj
        | _ => "gopanic"
      (st, { model := cmpModel expected impl })
    | none => (st, { model := some "bad-op" })
  | _ => (st, { model := some "bad-op" })

end GLua.Eng.PCallEng
