/-
  Driver engine for C14 (engine word `C14`): replays pattern-matching requests on the Model
  (GLua/Model/Pm.lean, exact comparison) and on the Spec (GLua/Spec/LuaPattern.lean, extents + captures).

  requests (strings are `s<hex>`):
    pm <pat> <subj> <offset> <limit>            => E <hex message> | M <match>…     match = comma-joined capture entries
                                                                                    (`<pos>` or `p<pos>` for position captures)
    find <pat> <subj> <init>                    => err | nil | i<start> i<end> <cap>…
    match <pat> <subj> <init>                   => err | nil | <cap>…
    gmatch <pat> <subj>                         => err | none | <cap>… ; <cap>… ; …
    gsub <pat> <subj> <kind> <arg> <max|->      => err | s<hex> i<count>
          kind S: arg = s<hex> replacement string      kind N: arg = i<n> (a number as replacement)
          kind T: arg = `-` | k=v,k=v…  (k: s<hex> | p<n>;  v: s<hex> | i<n> | F | T | t)
          kind F: arg = cat | nil | false | true | tbl | cnt | alt | first
    x <fn> <pat> <n> [<kind> <arg> <max|->]     => one comma-joined reply per call, for every subject over {a,b}
                                                   of length ≤ n (find/match: × init 1..len+2)
-/
import GLua.Engines.Common
import GLua.Model.Pm
import GLua.Spec.LuaPattern

namespace GLua.Eng.PmEng
open GLua GLua.Eng GLua.LuaPattern

/-! ### hex -/
def hexDigit (c : Char) : Option Nat :=
  if '0' ≤ c ∧ c ≤ '9' then some (c.toNat - 48)
  else if 'a' ≤ c ∧ c ≤ 'f' then some (c.toNat - 87)
  else if 'A' ≤ c ∧ c ≤ 'F' then some (c.toNat - 55)
  else none

def unhexList : List Char → Option (List Nat)
  | [] => some []
  | [_] => none
  | a :: b :: r =>
    match hexDigit a, hexDigit b, unhexList r with
    | some x, some y, some l => some ((x * 16 + y) :: l)
    | _, _, _ => none

/-- `s<hex>` → bytes -/
def parseStr (tok : String) : Option (List Nat) :=
  match tok.toList with
  | 's' :: r => unhexList r
  | _ => none

def hexChar (n : Nat) : Char := if n < 10 then Char.ofNat (48 + n) else Char.ofNat (87 + n)
def hex (b : List Nat) : String := String.ofList (b.flatMap fun x => [hexChar (x / 16), hexChar (x % 16)])

def showLV : Pm.LV → String
  | .nil => "nil"
  | .num i => "i" ++ toString i
  | .str b => "s" ++ hex b

def showCapVal : CapVal → String
  | .str b => "s" ++ hex b
  | .pos n => "i" ++ toString n

def errTok : Pm.PErr → String
  | .pm _ _ => "err"
  | .lua _ => "err"
  | .goPanic s => "gopanic:" ++ s.replace " " "_"
  | .fuel => "modelfuel"

/-! ### replacement oracle -/
def parseRVal (s : String) : RVal :=
  if s = "F" then .false
  else if s = "T" then .other "boolean"
  else if s = "t" then .other "table"
  else match s.toList with
    | 's' :: r => match unhexList r with | some b => .str b | none => .nil
    | 'i' :: r => match (String.ofList r).toInt? with | some i => .int i | none => .nil
    | _ => .nil

def parseKey (s : String) : Option CapVal :=
  match s.toList with
  | 's' :: r => (unhexList r).map .str
  | 'p' :: r => (String.ofList r).toNat?.map .pos
  | _ => none

def parseTable (arg : String) : CapVal → RVal :=
  let entries : List (CapVal × RVal) :=
    if arg = "-" then [] else
    (arg.splitOn ",").filterMap fun kv =>
      match kv.splitOn "=" with
      | [k, v] => (parseKey k).map fun k => (k, parseRVal v)
      | _ => none
  fun k => match entries.find? (fun e => e.1 = k) with
    | some e => e.2
    | none => .nil

def capValBytes' : CapVal → List Nat
  | .str b => b
  | .pos n => (toString n).toList.map (·.toNat)

def intercalateBytes (sep : Nat) : List (List Nat) → List Nat
  | [] => []
  | [x] => x
  | x :: r => x ++ sep :: intercalateBytes sep r

/-- behaviour of the replacement functions the harness installs (same text on the Go side) -/
def fnOracle (mode : String) (k : Nat) (args : List CapVal) : RVal :=
  if mode = "cat" then .str ([60] ++ intercalateBytes 58 (args.map capValBytes') ++ [62])
  else if mode = "nil" then .nil
  else if mode = "false" then .false
  else if mode = "true" then .other "boolean"
  else if mode = "tbl" then .other "table"
  else if mode = "cnt" then .int args.length
  else if mode = "alt" then (if k % 2 = 0 then .nil else .str [88])
  else if mode = "first" then
    match args with
    | .str b :: _ => .str b
    | .pos n :: _ => .int n
    | [] => .nil
  else .nil

def parseRepl (kind arg : String) : Option Repl :=
  if kind = "S" then (parseStr arg).map .str
  else if kind = "N" then
    match arg.toList with
    | 'i' :: r => (String.ofList r).toInt?.map fun i => .str ((toString i).toList.map (·.toNat))
    | _ => none
  else if kind = "T" then some (.tbl (parseTable arg))
  else if kind = "F" then some (.fn (fnOracle arg))
  else none

/-- a replacement *string* that uses `%` followed by a byte that is neither a digit nor `%` -/
def replPercentNonDigit : List Nat → Bool
  | [] => false
  | [_] => false
  | x :: y :: r => if x = 37 then (!(isDigit y) && y ≠ 37) || replPercentNonDigit r else replPercentNonDigit (y :: r)

/-! ### one call -/
structure Call where
  fn : String
  pat : List Nat
  subj : List Nat
  init : Int := 1
  kind : String := ""
  arg : String := ""
  repl : Option Repl := none
  maxS : Option Int := none
  offset : Nat := 0        -- pm
  limit : Int := -1        -- pm

/-- pattern-level facts computed once per pattern -/
structure PatInfo where
  body : List Nat
  st : WfState
  hasNul : Bool

def patInfo (fn : String) (pat : List Nat) : PatInfo :=
  let body := if fn = "gmatch" then pat else (splitAnchor pat).2
  { body := body, st := analyse body, hasNul := pat.contains 0 }

def rawEntry (v : Nat) : String := if v % 2 = 1 then "p" ++ toString (v / 2) else toString (v / 2)
def rawMatch (m : Pm.Caps) : String := ",".intercalate (m.toList.map rawEntry)

def specRawMatch (m : Match) : String :=
  ",".intercalate ([toString m.s, toString m.e] ++ m.caps.flatMap fun c =>
    match c with
    | .closed i len => [toString i, toString (i + len)]
    | .position i => ["p" ++ toString (i + 1), "p" ++ toString (i + 1)]
    | .unfinished i => ["u" ++ toString i, "u"])

/-- Model's reply tokens -/
def modelOut (c : Call) : List String :=
  let src := c.subj.toArray
  let pat := c.pat.toArray
  if c.fn = "find" then
    match Pm.strFind src pat c.init with
    | .ok vs => vs.map showLV
    | .error e => [errTok e]
  else if c.fn = "match" then
    match Pm.strMatch src pat c.init with
    | .ok vs => vs.map showLV
    | .error e => [errTok e]
  else if c.fn = "gmatch" then
    match Pm.strGmatch src pat with
    | .ok [] => ["none"]
    | .ok ts => (ts.map fun t => t.map showLV).intersperse [";"] |>.flatten
    | .error e => [errTok e]
  else if c.fn = "gsub" then
    match c.repl with
    | none => ["bad-repl"]
    | some r =>
      match Pm.strGsub src pat r c.maxS with
      | .ok (b, n) => ["s" ++ hex b, "i" ++ toString n]
      | .error e => [errTok e]
  else if c.fn = "pm" then
    match Pm.find Pm.maxRecursionLevel pat src c.offset c.limit with
    | .ok ms => "M" :: ms.map rawMatch
    | .error (.pm pos msg) => ["E", "s" ++ hex ((Pm.errorString pos msg).toList.map (·.toNat))]
    | .error e => [errTok e]
  else ["bad-fn"]

def resMap {α β} (f : α → β) : Res α → Res β
  | .ok a => .ok (f a)
  | .error e => .error e
  | .fail => .fail

/-- Spec's reply tokens (`.fail` already turned into the no-match reply) and the replies that count as "no match" -/
def specOut (c : Call) (pi : PatInfo) : Res (List String) × List (List String) :=
  let src := c.subj.toArray
  if c.fn = "find" then
    (match strFind src c.pat c.init with
     | .ok (s, e, cs) => .ok (("i" ++ toString s) :: ("i" ++ toString e) :: cs.map showCapVal)
     | .fail => .ok ["nil"]
     | .error e => .error e, [["nil"]])
  else if c.fn = "match" then
    (match strMatch src c.pat c.init with
     | .ok cs => .ok (cs.map showCapVal)
     | .fail => .ok ["nil"]
     | .error e => .error e, [["nil"]])
  else if c.fn = "gmatch" then
    (match gmatchAll src c.pat with
     | .ok [] => .ok ["none"]
     | .ok ts => .ok ((ts.map fun t => t.map showCapVal).intersperse [";"] |>.flatten)
     | .fail => .ok ["none"]
     | .error e => .error e, [["none"]])
  else if c.fn = "gsub" then
    (match c.repl with
     | none => .error "UNDEF bad-repl"
     | some r =>
       match strGsub src c.pat r c.maxS with
       | .ok (b, n) => .ok ["s" ++ hex b, "i" ++ toString n]
       | .fail => .error "UNDEF fail"
       | .error e => .error e, [["s" ++ hex c.subj, "i0"]])
  else if c.fn = "pm" then
    let (anchor, _) := splitAnchor c.pat
    if c.limit = 0 then (.error "UNDEF limit=0", [["M"]]) else
    let maxn := if c.limit < 0 then src.size + 2 else c.limit.toNat
    (match scanAll src pi.body anchor (src.size + 2) c.offset maxn with
     | .ok ms => .ok ("M" :: ms.map specRawMatch)
     | .fail => .ok ["M"]
     | .error e => .error e, [["M"]])
  else (.error "UNDEF bad-fn", [])

/-- known-finding class of this call's input, if any (classes are keyed by input shape; see known_findings.jsonl) -/
def kfClass (c : Call) (pi : PatInfo) : Option String :=
  if pi.st.frontier then some "C14-frontier-unimplemented"
  else if pi.st.rangeEsc then some "C14-set-range-upper-escape"
  else if c.fn = "gsub" && c.kind = "S" && (match parseStr c.arg with | some b => replPercentNonDigit b | none => false) then
    some "C14-gsub-repl-percent-nondigit"
  else none

def isErrReply (impl : List String) : Bool :=
  impl = ["err"] || impl.head? = some "E"

/-- the property-level judgement of one call -/
def judge (c : Call) (pi : PatInfo) (impl : List String) : Option String :=
  if pi.hasNul then none else
  let (spec, noMatch) := specOut c pi
  if !pi.st.ok then
    if isErrReply impl ∨ noMatch.contains impl then none
    else some "malformed pattern: expected an error or no match"
  else
    match spec with
    | .error e =>
      if e.startsWith "UNDEF" then none
      else if isErrReply impl then none
      else some ("expected an error (" ++ e.replace " " "_" ++ ")")
    | .fail => none
    | .ok toks => if impl = toks then none else some ("spec=" ++ ",".intercalate toks)

def evalCall (c : Call) (pi : PatInfo) (impl : List String) : Verdict :=
  let mo := modelOut c
  let mv := if mo = impl then none else some (",".intercalate mo)
  let sv := judge c pi impl
  let sv := match sv, mv, kfClass c pi with
    | some r, none, some k => some ("KF:" ++ k ++ " " ++ r)
    | r, _, _ => r
  { model := mv, spec := sv }

/-! ### enumeration for the exhaustive stream -/
def subjectsUpTo : Nat → List (List Nat)
  | 0 => [[]]
  | n+1 =>
    let prev := subjectsUpTo n
    prev ++ (prev.filter (·.length = n)).flatMap fun s => [s ++ [97], s ++ [98]]

def parseMax (s : String) : Option Int := if s = "-" then none else (s.drop 1).toString.toInt?

def mkCall (fn : String) (pat subj : List Nat) (rest : List String) : Option Call :=
  match fn, rest with
  | "find", [i] => i.toInt?.map fun i => { fn, pat, subj, init := i }
  | "match", [i] => i.toInt?.map fun i => { fn, pat, subj, init := i }
  | "gmatch", [] => some { fn, pat, subj }
  | "gsub", [kind, arg, mx] =>
    (parseRepl kind arg).map fun r => { fn, pat, subj, kind, arg, repl := some r, maxS := parseMax mx }
  | "pm", [off, lim] =>
    match off.toNat?, lim.toInt? with
    | some o, some l => some { fn, pat, subj, offset := o, limit := l }
    | _, _ => none
  | _, _ => none

def batchCalls (fn : String) (pat : List Nat) (n : Nat) (rest : List String) : List Call :=
  (subjectsUpTo n).flatMap fun subj =>
    if fn = "find" ∨ fn = "match" then
      (List.range (subj.length + 2)).filterMap fun i => mkCall fn pat subj [toString (i + 1)]
    else (mkCall fn pat subj rest).toList

def evalBatch (calls : List Call) (pi : PatInfo) (impl : List String) : Verdict :=
  if calls.length ≠ impl.length then { model := some ("batch-size " ++ toString calls.length) } else
  let rec go : List Call → List String → Nat → Verdict → Verdict
    | c :: cs, i :: is, k, acc =>
      let v := evalCall c pi (i.splitOn ",")
      let here (s : String) : String :=
        "#" ++ toString k ++ ":subj=s" ++ hex c.subj ++ ":init=" ++ toString c.init ++ ":" ++ s
      let acc : Verdict :=
        { model := match acc.model, v.model with
            | none, some m => some (here m)
            | a, _ => a
          spec := match acc.spec, v.spec with
            | none, some s =>
              -- keep a KF tag in front
              if s.startsWith "KF:" then
                match s.splitOn " " with
                | t :: r => some (t ++ " " ++ here (" ".intercalate r))
                | [] => some s
              else some (here s)
            | a, _ => a }
      -- an untagged spec complaint outranks a tagged one
      let acc := match acc.spec, v.spec with
        | some a, some s => if a.startsWith "KF:" ∧ !s.startsWith "KF:" then { acc with spec := some (here s) } else acc
        | _, _ => acc
      go cs is (k + 1) acc
    | _, _, _, acc => acc
  go calls impl 0 {}

def handle (ws : List String) : Verdict :=
  let (args, impl) := splitArrow ws
  match args with
  | "x" :: fn :: pat :: n :: rest =>
    match parseStr pat, n.toNat? with
    | some pat, some n => evalBatch (batchCalls fn pat n rest) (patInfo fn pat) impl
    | _, _ => { model := some "bad-request" }
  | fn :: pat :: subj :: rest =>
    match parseStr pat, parseStr subj with
    | some pat, some subj =>
      match mkCall fn pat subj rest with
      | some c => evalCall c (patInfo fn pat) impl
      | none => { model := some "bad-request" }
    | _, _ => { model := some "bad-request" }
  | _ => { model := some "bad-request" }

end GLua.Eng.PmEng
